#!/usr/bin/env python3
"""Records the content hashes of every anchor file of every property (properties.jsonl anchors.files)
at /repo's current working tree into anchors.baseline.json. Run after /repo HEAD legitimately changes
(a fix: or verif: commit). ./check compares the working tree with this baseline: a changed anchor file
is not an alarm – it makes the quick tier run its generators with additional seeds."""
import json, hashlib, os, glob
V = os.path.dirname(os.path.abspath(__file__))
REPO = os.environ.get('VERIF_REPO', '/repo')
out = {}
for l in open(os.path.join(V, 'properties.jsonl')):
    p = json.loads(l)
    for f in p['anchors']['files']:
        path = os.path.join(REPO, f)
        if os.path.isfile(path) and f not in out:
            out[f] = hashlib.sha256(open(path, 'rb').read()).hexdigest()[:16]
# every Go file of the packages the anchors live in (a cooperating site may sit in a sibling file)
dirs = sorted({os.path.dirname(f) for f in out if f.endswith('.go')})
for d in dirs:
    for path in sorted(glob.glob(os.path.join(REPO, d, '*.go'))):
        f = os.path.relpath(path, REPO)
        if f.endswith('_test.go') or os.path.basename(f).startswith('zz_verif') or f in out:
            continue
        out[f] = hashlib.sha256(open(path, 'rb').read()).hexdigest()[:16]
json.dump({"repo_head": os.popen('git -C %s rev-parse --short HEAD' % REPO).read().strip(), "files": out},
          open(os.path.join(V, 'anchors.baseline.json'), 'w'), indent=1, sort_keys=True)
print(len(out), 'files recorded')
