#!/usr/bin/env python3
"""merge known_findings.d/*.json fragments into known_findings.json (by id; fragments win)"""
import json, os, glob
V = os.path.dirname(os.path.abspath(__file__))
main = json.load(open(os.path.join(V, 'known_findings.json')))
byid = {f['id']: f for f in main['findings']}
order = [f['id'] for f in main['findings']]
for p in sorted(glob.glob(os.path.join(V, 'known_findings.d', '*.json'))):
    for f in json.load(open(p)).get('findings', []):
        if f['id'] not in byid:
            order.append(f['id'])
        byid[f['id']] = f
main['findings'] = [byid[i] for i in order]
json.dump(main, open(os.path.join(V, 'known_findings.json'), 'w'), indent=1)
print(len(main['findings']), 'findings:', ' '.join('%s(%s)' % (f['id'], f['status']) for f in main['findings']))
