#!/usr/bin/env python3
"""Regenerates MANIFEST.json from claims.json (per-property level text) + properties.jsonl."""
import json, os
V = os.path.dirname(os.path.abspath(__file__))
props = [json.loads(l) for l in open(os.path.join(V, 'properties.jsonl'))]
claims = json.load(open(os.path.join(V, 'claims.json')))
checks = []
for p in props:
    c = claims.get(p['id'])
    if not c or not c.get('claimed', True):
        continue
    checks.append({
        "property_id": p['id'],
        "quick_cmd": "./check %s --tier quick" % p['id'],
        "thorough_cmd": "./check %s --tier thorough" % p['id'],
        "evidence_file": "/verif/evidence/%s.json" % p['id'],
        "replay_cmd_template": "./check %s --replay {path}" % p['id'],
        "engine": "lean4+correspondence",
        "level_claimed": {"category": c.get("category", "proof"), "text": c["text"], "design_ref": c.get("design_ref", "DESIGN.md §8 " + p['id'])},
        "level_note": c.get("note", "Trusted: Lean kernel (axioms propext/Classical.choice/Quot.sound only), the hand-written model (tied to the code by the correspondence run of the same check), the go/ast extractor, the Go harness and its oracle."),
        "technique": c.get("technique", "Lean 4 theorems over an executable model + regenerated facts + model/implementation correspondence"),
    })
import subprocess
try:
    log = subprocess.run(['git', '-C', '/repo', 'log', '--format=%h %s'], capture_output=True, text=True).stdout.split('\n')
    hooks = {"source_commits": [l for l in log if l.split(' ', 1)[-1].startswith('verif:')][::-1]}
except Exception:
    hooks = {"source_commits": []}
m = {"version": 1, "setup_cmd": "./setup.sh",
     "hooks": {"guard": "verif",
               "enable": "go build -tags verif (the harness is built against /repo's working tree through a replace directive); hook files are add-only zz_verif_hooks.go with //go:build verif",
               "baseline_off_cmd": "cd /repo && go build ./... && go test -vet=off -count=1 ./...",
               "source_commits": hooks.get("source_commits", []), "add_only": True},
     "engines": [{"name": "lean4+correspondence", "path": "/verif/check", "serves_properties": [c["property_id"] for c in checks],
                  "kind_free_text": "Lean 4 model + theorems (lake project /verif/lean), facts regenerated from /repo by /verif/extract, Go harness /verif/harness driving the real code and the compiled model (pkmodel-cXX) on the same op lines"}],
     "checks": checks,
     "notes": "See DESIGN.md. known_findings.json lists genuine defects (known / fixed).",
     "not_applicable": [{"property_id": p['id'], "reason": claims.get(p['id'], {}).get("na_reason", "check not built yet in this session (work in progress; see DESIGN.md)")}
                        for p in props if p['id'] not in [c["property_id"] for c in checks]]}
json.dump(m, open(os.path.join(V, 'MANIFEST.json'), 'w'), indent=1)
print("claimed:", [c["property_id"] for c in checks])
