#!/bin/sh
# MANIFEST.setup_cmd: build the framework from files on disk only (offline).
set -e
cd "$(dirname "$0")"
export GOFLAGS=-mod=mod GOPROXY=off
mkdir -p bin gen evidence replays
(cd extract && (GOTOOLCHAIN=local go build -o ../bin/extract . || go build -o ../bin/extract .))
./bin/extract -repo "${VERIF_REPO:-/repo}" -lean lean/PkVerif/Gen/Facts.lean -json gen/facts.json
(cd lean && lake build)
cp "${VERIF_REPO:-/repo}/go.sum" harness/go.sum
(cd harness && env -u GOTOOLCHAIN -u GOSUMDB go build -tags verif -o ../bin/pkharness ./cmd/pkharness)
echo "setup ok"
