#!/bin/sh
# MANIFEST.setup_cmd: build the framework from files on disk only (offline).
# Every ./check rebuilds what it needs itself; this only warms the caches, so a property whose files
# do not build must not stop the others.
cd "$(dirname "$0")"
export GOFLAGS=-mod=mod GOPROXY=off
mkdir -p bin gen evidence replays
REPO="${VERIF_REPO:-/repo}"
(cd extract && (GOTOOLCHAIN=local go build -o ../bin/extract . 2>/dev/null || go build -o ../bin/extract .)) || echo "setup: extractor does not build"
./bin/extract -repo "$REPO" -lean lean/PkVerif/Gen/Facts.lean -json gen/facts.json || echo "setup: extractor reported missing declarations"
cp "$REPO/go.sum" harness/go.sum
fail=0
(cd lean && lake build PkVerif) || fail=1
for f in lean/PkVerif/Props/C*.lean; do
  id=$(basename "$f" .lean)
  lc=$(echo "$id" | tr 'A-Z' 'a-z')
  (cd lean && lake build "PkVerif.Props.$id" "pkmodel-$lc" >/dev/null 2>&1) || { echo "setup: $id (Lean) does not build"; fail=1; }
  (cd harness && env -u GOTOOLCHAIN -u GOSUMDB go build -tags verif -o "../bin/pkh-$lc" "./cmd/pkh-$lc" >/dev/null 2>&1) || { echo "setup: $id (harness) does not build"; fail=1; }
done
echo "setup done (failures: $fail)"
exit 0
