#!/bin/sh
# MANIFEST.setup_cmd: build the framework from files on disk only (offline).
set -e
cd "$(dirname "$0")"
export GOFLAGS=-mod=mod GOPROXY=off
mkdir -p bin gen evidence replays
(cd extract && (GOTOOLCHAIN=local go build -o ../bin/extract . || go build -o ../bin/extract .))
./bin/extract -repo "${VERIF_REPO:-/repo}" -lean lean/PkVerif/Gen/Facts.lean -json gen/facts.json
(cd lean && lake build PkVerif $(ls PkVerif/Props/*.lean | sed "s/\.lean$//; s/\//./g") $(ls Driver/*.lean | sed "s/.*\/\(C[0-9]*\).lean/pkmodel-\L\1/"))
cp "${VERIF_REPO:-/repo}/go.sum" harness/go.sum
(cd harness && for d in cmd/pkh-*; do env -u GOTOOLCHAIN -u GOSUMDB go build -tags verif -o ../bin/$(basename $d) ./$d; done)
echo "setup ok"
