#!/bin/sh
# seedrun.sh <dir> <pkgdir> <prop> : confirm + run the property's check (quick, then thorough if quick misses)
d="$1"; pkg="$2"; prop="$3"; pat="${4:-Demo|Mut}"
echo "== $d ($prop)"
/verif/seedconfirm.sh "$d" "$pkg" "$pat" | grep -E "rc=" 
out=$(/verif/seedtest.sh "$d/patch.diff" "$prop" quick 2>&1); rc=$?
echo "check quick rc=$rc: $(echo "$out" | grep -E "^VIOLATION|theorems=" | head -3 | cut -c1-200 | tr '\n' ' ')"
if [ $rc -eq 0 ]; then
  out=$(/verif/seedtest.sh "$d/patch.diff" "$prop" thorough 2>&1); rc=$?
  echo "check thorough rc=$rc: $(echo "$out" | grep -E "^VIOLATION|theorems=" | head -3 | cut -c1-200 | tr '\n' ' ')"
fi
