import PkVerif.Model.Sync
/-! Helper lemmas for C19 (pkg/server/sync.go): list-as-set facts, the invariant and its preservation,
and the explicit effect of the failure-free recovery. -/
namespace Pk.Sync

theorem mem_ins {a x : Nat} {l : List Nat} : x ∈ ins a l ↔ x = a ∨ x ∈ l := by
  unfold ins
  by_cases h : a ∈ l
  · simp only [h, if_true]
    constructor
    · exact Or.inr
    · rintro (e | e)
      · exact e ▸ h
      · exact e
  · simp only [h, if_false, List.mem_append, List.mem_singleton]
    exact Or.comm

theorem mem_del {a x : Nat} {l : List Nat} : x ∈ del a l ↔ x ∈ l ∧ x ≠ a := by
  simp [del]

theorem length_del_lt {i : Nat} {l : List Nat} (h : i ∈ l) : (del i l).length < l.length := by
  induction l with
  | nil => cases h
  | cons a t ih =>
    unfold del at ih ⊢
    by_cases e : a = i
    · have h1 : (List.filter (· != i) (a :: t)).length = (List.filter (· != i) t).length := by simp [e]
      have h2 := List.length_filter_le (· != i) t
      simp only [List.length_cons] at h1 ⊢
      omega
    · rcases List.mem_cons.1 h with e' | e'
      · exact absurd e'.symm e
      · have h1 := ih e'
        have h2 : (List.filter (· != i) (a :: t)).length = (List.filter (· != i) t).length + 1 := by simp [e]
        simp only [List.length_cons] at h2 ⊢
        omega

theorem mem_replaceFirst {α} [DecidableEq α] {a b x : α} {l : List α} :
    x ∈ replaceFirst a b l → x = b ∨ x ∈ l := by
  induction l with
  | nil => simp [replaceFirst]
  | cons y ys ih =>
    unfold replaceFirst
    by_cases h : y = a
    · simp only [h, if_true, List.mem_cons]
      rintro (e | e)
      · exact Or.inl e
      · exact Or.inr (Or.inr e)
    · simp only [h, if_false, List.mem_cons]
      rintro (e | e)
      · exact Or.inr (Or.inl e)
      · rcases ih e with e | e
        · exact Or.inl e
        · exact Or.inr (Or.inr e)

theorem mem_replaceFirst_new {α} [DecidableEq α] {a b : α} {l : List α} (h : a ∈ l) :
    b ∈ replaceFirst a b l := by
  induction l with
  | nil => cases h
  | cons y ys ih =>
    unfold replaceFirst
    by_cases hy : y = a
    · simp [hy]
    · simp only [hy, if_false, List.mem_cons]
      rcases List.mem_cons.mp h with e | e
      · exact absurd e.symm hy
      · exact Or.inr (ih e)

theorem mem_dstIns {i d : Nat} {l : List (Nat × Nat)} {p : Nat × Nat} :
    p ∈ dstIns i d l → p = (i, d) ∨ p ∈ l := by
  unfold dstIns
  split
  · exact Or.inr
  · simp only [List.mem_append, List.mem_singleton]
    exact Or.symm

theorem mem_dstIns_of_mem {i d : Nat} {l : List (Nat × Nat)} {p : Nat × Nat} (h : p ∈ l) :
    p ∈ dstIns i d l := by
  unfold dstIns
  split
  · exact h
  · exact List.mem_append_left _ h

theorem id_mem_dstIns {i d : Nat} {l : List (Nat × Nat)} : i ∈ (dstIns i d l).map (·.1) := by
  unfold dstIns
  split
  · assumption
  · simp

theorem mem_foldl_ins {rows : List Nat} : ∀ {n : List Nat} {x : Nat},
    x ∈ rows.foldl (fun n i => ins i n) n ↔ x ∈ n ∨ x ∈ rows := by
  induction rows with
  | nil => simp
  | cons r rs ih =>
    intro n x
    simp only [List.foldl_cons, ih, mem_ins, List.mem_cons]
    constructor
    · rintro ((e | e) | e)
      · exact Or.inr (Or.inl e)
      · exact Or.inl e
      · exact Or.inr (Or.inr e)
    · rintro (e | e | e)
      · exact Or.inl (Or.inr e)
      · exact Or.inl (Or.inl e)
      · exact Or.inr e

theorem mem_rq {n rows : List Nat} {x : Nat} : x ∈ readQueueToMemory n rows ↔ x ∈ n ∨ x ∈ rows :=
  mem_foldl_ins

theorem length_foldl_ins {rows : List Nat} : ∀ {n : List Nat},
    (rows.foldl (fun n i => ins i n) n).length ≤ n.length + rows.length := by
  induction rows with
  | nil => simp
  | cons r rs ih =>
    intro n
    simp only [List.foldl_cons, List.length_cons]
    have h1 := ih (n := ins r n)
    have h2 : (ins r n).length ≤ n.length + 1 := by
      unfold ins; split <;> simp
    omega

theorem length_rq_le (rows : List Nat) : (readQueueToMemory [] rows).length ≤ rows.length := by
  have := length_foldl_ins (rows := rows) (n := [])
  simpa [readQueueToMemory] using this

/-! ### the transfer part of `copyBlob` -/

theorem xfer_mono {src dst i f p} (h : p ∈ dst) : p ∈ (xfer src dst i f).1 := by
  unfold xfer
  split
  · split
    · exact h
    · split
      · split
        · exact h
        · exact mem_dstIns_of_mem h
        · exact mem_dstIns_of_mem h
      · exact h
  · exact h

/-- whatever the fault, the destination only ever receives the true bytes of a source blob -/
theorem xfer_mem {src dst i f p} (h : p ∈ (xfer src dst i f).1) : p ∈ dst ∨ (p = (i, i) ∧ i ∈ src) := by
  unfold xfer at h
  split at h
  next hs =>
    split at h
    · exact Or.inl h
    next d hd =>
      split at h
      next hm =>
        have hdi : d = i := by simpa [hashMatches] using hm
        subst hdi
        split at h
        · exact Or.inl h
        · rcases mem_dstIns h with e | e
          · exact Or.inr ⟨e, hs⟩
          · exact Or.inl e
        · rcases mem_dstIns h with e | e
          · exact Or.inr ⟨e, hs⟩
          · exact Or.inl e
      · exact Or.inl h
  · exact Or.inl h

/-- `copyBlob` returns nil only after the destination holds the blob -/
theorem xfer_ok {src dst i f} (h : (xfer src dst i f).2 = true) : i ∈ ((xfer src dst i f).1).map (·.1) := by
  unfold xfer at h ⊢
  split
  · split
    · simp_all
    · split
      · split
        · simp_all
        · simp_all
        · exact id_mem_dstIns
      · simp_all
  · simp_all

theorem xfer_clean {src dst i} (h : i ∈ src) : xfer src dst i .ok = (dstIns i i dst, true) := by
  simp [xfer, h, fetched, hashMatches]

/-! ### the invariant -/

structure Inv (s : St) : Prop where
  /-- queue durable: an acknowledged upload is at the destination or has its queue row -/
  acked_safe : ∀ i ∈ s.acked, i ∈ dstIds s ∨ i ∈ s.rows
  /-- an in-flight upload whose row write returned nil still has the row (or is already delivered) -/
  rowed_safe : ∀ i, (i, UpPhase.rowed true) ∈ s.upl → i ∈ dstIds s ∨ i ∈ s.rows
  /-- a copy only reaches the row deletion after the destination acknowledged the blob -/
  xferred_at_dst : ∀ i, (i, CpPhase.xferred) ∈ s.cps ∨ (i, CpPhase.qdone) ∈ s.cps → i ∈ dstIds s
  /-- the destination holds only true bytes of source blobs -/
  dst_true : ∀ p ∈ s.dst, p.2 = p.1 ∧ p.1 ∈ s.src
  rows_src : ∀ i ∈ s.rows, i ∈ s.src
  need_src : ∀ i ∈ s.need, i ∈ s.src
  upl_src : ∀ p ∈ s.upl, p.1 ∈ s.src

theorem inv_init : Inv init := by
  constructor <;> simp [init, dstIds]

theorem dstIds_xfer_mono {s : St} {i f j} (h : j ∈ dstIds s) :
    j ∈ ((xfer s.src s.dst i f).1).map (·.1) := by
  obtain ⟨p, hp, e⟩ := List.mem_map.1 h
  exact List.mem_map.2 ⟨p, xfer_mono hp, e⟩

theorem mem_rows_set {ok : Bool} {i j : Nat} {rows : List Nat} (h : j ∈ rows) :
    j ∈ (if ok then ins i rows else rows) := by
  cases ok
  · exact h
  · exact mem_ins.2 (Or.inr h)

theorem inv_srcRecv (s : St) (i : Nat) (h : Inv s) : Inv (step .fixed s (.srcRecv i)) where
  acked_safe := h.acked_safe
  rowed_safe := fun j hj => h.rowed_safe j (by
    have hj' : (j, UpPhase.rowed true) ∈ s.upl ++ [(i, UpPhase.stored)] := hj
    simpa using hj')
  xferred_at_dst := h.xferred_at_dst
  dst_true := fun p hp => ⟨(h.dst_true p hp).1, mem_ins.2 (Or.inr (h.dst_true p hp).2)⟩
  rows_src := fun j hj => mem_ins.2 (Or.inr (h.rows_src j hj))
  need_src := fun j hj => mem_ins.2 (Or.inr (h.need_src j hj))
  upl_src := fun p hp => by
    have hp' : p ∈ s.upl ++ [(i, UpPhase.stored)] := hp
    rcases List.mem_append.1 hp' with e | e
    · exact mem_ins.2 (Or.inr (h.upl_src p e))
    · have e' : p = (i, UpPhase.stored) := by simpa using e
      subst e'
      exact mem_ins.2 (Or.inl rfl)

theorem inv_qSet (s : St) (i : Nat) (ok : Bool) (h : Inv s) : Inv (step .fixed s (.qSet i ok)) := by
  simp only [step]
  split
  next hm =>
    have hi : i ∈ s.src := h.upl_src _ hm
    refine { acked_safe := ?_, rowed_safe := ?_, xferred_at_dst := h.xferred_at_dst, dst_true := h.dst_true,
             rows_src := ?_, need_src := h.need_src, upl_src := ?_ }
    · intro j hj
      rcases h.acked_safe j hj with e | e
      · exact Or.inl e
      · exact Or.inr (mem_rows_set e)
    · intro j hj
      rcases mem_replaceFirst hj with e | e
      · have e1 : j = i := congrArg Prod.fst e
        have e2 : UpPhase.rowed true = UpPhase.rowed ok := congrArg Prod.snd e
        have e3 : ok = true := by cases ok <;> simp_all
        subst e1 e3
        exact Or.inr (mem_ins.2 (Or.inl rfl))
      · rcases h.rowed_safe j e with e' | e'
        · exact Or.inl e'
        · exact Or.inr (mem_rows_set e')
    · intro j hj
      cases ok
      · exact h.rows_src j hj
      · rcases mem_ins.1 hj with e | e
        · exact e ▸ hi
        · exact h.rows_src j e
    · intro p hp
      rcases mem_replaceFirst hp with e | e
      · subst e; exact hi
      · exact h.upl_src p e
  next => exact h

theorem inv_memAdd (s : St) (i : Nat) (ok : Bool) (h : Inv s) : Inv (step .fixed s (.memAdd i ok)) := by
  simp only [step]
  split
  next hm =>
    have hi : i ∈ s.src := h.upl_src _ hm
    refine { acked_safe := ?_, rowed_safe := ?_, xferred_at_dst := h.xferred_at_dst, dst_true := h.dst_true,
             rows_src := h.rows_src, need_src := ?_, upl_src := ?_ }
    · intro j hj
      cases ok
      · exact h.acked_safe j hj
      · rcases mem_ins.1 hj with e | e
        · subst e; exact h.rowed_safe j hm
        · exact h.acked_safe j e
    · intro j hj
      exact h.rowed_safe j (List.mem_of_mem_erase hj)
    · intro j hj
      rcases mem_ins.1 hj with e | e
      · exact e ▸ hi
      · exact h.need_src j e
    · intro p hp
      exact h.upl_src p (List.mem_of_mem_erase hp)
  next => exact h

theorem inv_cpStart (s : St) (i : Nat) (h : Inv s) : Inv (step .fixed s (.cpStart i)) := by
  simp only [step]
  split
  next hm =>
    refine { acked_safe := h.acked_safe, rowed_safe := h.rowed_safe, xferred_at_dst := ?_, dst_true := h.dst_true,
             rows_src := h.rows_src, need_src := h.need_src, upl_src := h.upl_src }
    intro j hj
    apply h.xferred_at_dst j
    rcases hj with e | e
    · have e' : (j, CpPhase.xferred) ∈ s.cps ++ [(i, CpPhase.started)] := e
      left; simpa using e'
    · have e' : (j, CpPhase.qdone) ∈ s.cps ++ [(i, CpPhase.started)] := e
      right; simpa using e'
  next => exact h

theorem inv_cpXfer (s : St) (i : Nat) (f : Fault) (h : Inv s) : Inv (step .fixed s (.cpXfer i f)) := by
  simp only [step]
  split
  next hm =>
    refine { acked_safe := ?_, rowed_safe := ?_, xferred_at_dst := ?_, dst_true := ?_,
             rows_src := h.rows_src, need_src := h.need_src, upl_src := h.upl_src }
    · intro j hj
      rcases h.acked_safe j hj with e | e
      · exact Or.inl (dstIds_xfer_mono e)
      · exact Or.inr e
    · intro j hj
      rcases h.rowed_safe j hj with e | e
      · exact Or.inl (dstIds_xfer_mono e)
      · exact Or.inr e
    · intro j hj
      show j ∈ ((xfer s.src s.dst i f).1).map (·.1)
      have key : ∀ ph, (ph = CpPhase.xferred ∨ ph = CpPhase.qdone) →
          (j, ph) ∈ replaceFirst (i, CpPhase.started)
            (i, if (xfer s.src s.dst i f).2 = true then CpPhase.xferred else CpPhase.failed) s.cps →
          j ∈ ((xfer s.src s.dst i f).1).map (·.1) := by
        intro ph hph hmem
        rcases mem_replaceFirst hmem with e | e
        · have e1 : j = i := congrArg Prod.fst e
          have e2 : ph = if (xfer s.src s.dst i f).2 = true then CpPhase.xferred else CpPhase.failed :=
            congrArg Prod.snd e
          subst e1
          by_cases hr : (xfer s.src s.dst j f).2 = true
          · exact xfer_ok hr
          · simp only [hr] at e2
            rcases hph with e3 | e3 <;> simp [e3] at e2
        · apply dstIds_xfer_mono
          apply h.xferred_at_dst j
          rcases hph with e3 | e3
          · left; exact e3 ▸ e
          · right; exact e3 ▸ e
      rcases hj with e | e
      · exact key _ (Or.inl rfl) e
      · exact key _ (Or.inr rfl) e
    · intro p hp
      rcases xfer_mem hp with e | ⟨e, hs⟩
      · exact h.dst_true p e
      · subst e; exact ⟨rfl, hs⟩
  next => exact h

theorem inv_qDel (s : St) (i : Nat) (ok : Bool) (h : Inv s) : Inv (step .fixed s (.qDel i ok)) := by
  simp only [step]
  split
  next hm =>
    have hd : i ∈ dstIds s := h.xferred_at_dst i (Or.inl hm)
    have keep : ∀ j, j ∈ dstIds s ∨ j ∈ s.rows → j ∈ dstIds s ∨ j ∈ (if ok = true then del i s.rows else s.rows) := by
      intro j hj
      rcases hj with e | e
      · exact Or.inl e
      · cases ok
        · exact Or.inr e
        · by_cases hji : j = i
          · exact Or.inl (hji ▸ hd)
          · exact Or.inr (mem_del.2 ⟨e, hji⟩)
    refine { acked_safe := ?_, rowed_safe := ?_, xferred_at_dst := ?_, dst_true := h.dst_true,
             rows_src := ?_, need_src := h.need_src, upl_src := h.upl_src }
    · intro j hj; exact keep j (h.acked_safe j hj)
    · intro j hj; exact keep j (h.rowed_safe j hj)
    · intro j hj
      rcases hj with e | e
      · rcases mem_replaceFirst e with e' | e'
        · simp at e'
        · exact h.xferred_at_dst j (Or.inl e')
      · rcases mem_replaceFirst e with e' | e'
        · have e1 : j = i := congrArg Prod.fst e'
          exact e1 ▸ hd
        · exact h.xferred_at_dst j (Or.inr e')
    · intro j hj
      cases ok
      · exact h.rows_src j hj
      · exact h.rows_src j (mem_del.1 hj).1
  next => exact h

theorem inv_cpEnd (s : St) (i : Nat) (h : Inv s) : Inv (step .fixed s (.cpEnd i)) := by
  have erase_ok : ∀ ph, Inv { s with cps := s.cps.erase (i, ph) } := fun ph =>
    { acked_safe := h.acked_safe, rowed_safe := h.rowed_safe, dst_true := h.dst_true, rows_src := h.rows_src,
      need_src := h.need_src, upl_src := h.upl_src,
      xferred_at_dst := fun j hj => h.xferred_at_dst j (by
        rcases hj with e | e
        · exact Or.inl (List.mem_of_mem_erase e)
        · exact Or.inr (List.mem_of_mem_erase e)) }
  have shrink : ∀ (t : St) (c n : List Nat), Inv t → (∀ j ∈ n, j ∈ t.need) → Inv { t with copying := c, need := n } :=
    fun t c n ht hn =>
    { acked_safe := ht.acked_safe, rowed_safe := ht.rowed_safe, dst_true := ht.dst_true, rows_src := ht.rows_src,
      need_src := fun j hj => ht.need_src j (hn j hj), upl_src := ht.upl_src, xferred_at_dst := ht.xferred_at_dst }
  simp only [step]
  split
  · split
    · exact shrink _ _ _ (erase_ok .qdone) (fun j hj => (mem_del.1 hj).1)
    · exact erase_ok .qdone
  · split
    · split
      · exact shrink _ _ _ (erase_ok .failed) (fun j hj => hj)
      · exact erase_ok .failed
    · exact h

theorem inv_restart (s : St) (h : Inv s) : Inv (step .fixed s .restart) where
  acked_safe := h.acked_safe
  rowed_safe := fun j hj => by cases hj
  xferred_at_dst := fun j hj => by rcases hj with e | e <;> cases e
  dst_true := h.dst_true
  rows_src := h.rows_src
  need_src := fun j hj => by
    rcases mem_rq.1 hj with e | e
    · cases e
    · exact h.rows_src j e
  upl_src := fun p hp => by cases hp

theorem inv_step (s : St) (t : Step) (h : Inv s) : Inv (step .fixed s t) := by
  cases t with
  | srcRecv i => exact inv_srcRecv s i h
  | qSet i ok => exact inv_qSet s i ok h
  | memAdd i ok => exact inv_memAdd s i ok h
  | cpStart i => exact inv_cpStart s i h
  | cpXfer i f => exact inv_cpXfer s i f h
  | qDel i ok => exact inv_qDel s i ok h
  | cpEnd i => exact inv_cpEnd s i h
  | restart => exact inv_restart s h

theorem inv_run (l : List Step) : ∀ (s : St), Inv s → Inv (run .fixed s l) := by
  induction l with
  | nil => intro s h; exact h
  | cons t ts ih => intro s h; exact ih _ (inv_step s t h)

/-! ### the failure-free recovery, computed -/

/-- the net effect of one failure-free copy of `i` when nothing else is in flight -/
def copied (s : St) (i : Nat) : St :=
  if i ∈ s.need then { s with dst := dstIns i i s.dst, rows := del i s.rows, need := del i s.need } else s

theorem run_append (v : Variant) (s : St) (a b : List Step) : run v s (a ++ b) = run v (run v s a) b := by
  simp [run, List.foldl_append]

theorem run_copyOk (v : Variant) (s : St) (i : Nat) (hc : s.cps = []) (hcp : s.copying = [])
    (hsrc : i ∈ s.need → i ∈ s.src) : run v s (copyOkSteps i) = copied s i := by
  obtain ⟨src, dst, rows, need, copying, acked, upl, cps⟩ := s
  simp only at hc hcp hsrc
  subst hc hcp
  by_cases hn : i ∈ need
  · have hs := hsrc hn
    simp [run, copyOkSteps, step, copied, hn, xfer_clean hs, replaceFirst, ins, del]
  · simp [run, copyOkSteps, step, copied, hn]

/-- quiescent: nothing in flight, and everything pending is in the source -/
structure Quiet (s : St) : Prop where
  cps : s.cps = []
  copying : s.copying = []
  need_src : ∀ i ∈ s.need, i ∈ s.src
  rows_need : ∀ i ∈ s.rows, i ∈ s.need

theorem quiet_copied {s : St} (i : Nat) (h : Quiet s) : Quiet (copied s i) := by
  unfold copied
  split
  · exact { cps := h.cps, copying := h.copying,
            need_src := fun j hj => h.need_src j (mem_del.1 hj).1,
            rows_need := fun j hj => mem_del.2 ⟨h.rows_need j (mem_del.1 hj).1, (mem_del.1 hj).2⟩ }
  · exact h

theorem run_drain (v : Variant) (l : List Nat) : ∀ (s : St), Quiet s →
    run v s (l.flatMap copyOkSteps) = l.foldl copied s := by
  induction l with
  | nil => intro s _; rfl
  | cons i t ih =>
    intro s h
    rw [List.flatMap_cons, run_append, run_copyOk v s i h.cps h.copying (h.need_src i), List.foldl_cons]
    exact ih _ (quiet_copied i h)

theorem quiet_foldl (l : List Nat) : ∀ (s : St), Quiet s → Quiet (l.foldl copied s) := by
  induction l with
  | nil => intro s h; exact h
  | cons i t ih => intro s h; exact ih _ (quiet_copied i h)

theorem copied_dst_mono {s : St} {i j : Nat} (h : j ∈ dstIds s) : j ∈ dstIds (copied s i) := by
  unfold copied
  split
  · obtain ⟨p, hp, e⟩ := List.mem_map.1 h
    exact List.mem_map.2 ⟨p, mem_dstIns_of_mem hp, e⟩
  · exact h

theorem foldl_copied_dst_mono (l : List Nat) : ∀ (s : St) {j : Nat}, j ∈ dstIds s → j ∈ dstIds (l.foldl copied s) := by
  induction l with
  | nil => intro s j h; exact h
  | cons i t ih => intro s j h; exact ih _ (copied_dst_mono h)

theorem copied_delivers {s : St} {i : Nat} (h : i ∈ s.need) : i ∈ dstIds (copied s i) := by
  unfold copied
  rw [if_pos h]
  exact id_mem_dstIns

theorem foldl_copied_delivers (l : List Nat) : ∀ (s : St) {i : Nat}, i ∈ l → i ∈ s.need →
    i ∈ dstIds (l.foldl copied s) := by
  induction l with
  | nil => intro s i h; cases h
  | cons j t ih =>
    intro s i hi hn
    rw [List.foldl_cons]
    by_cases e : i = j
    · subst e
      exact foldl_copied_dst_mono t _ (copied_delivers hn)
    · rcases List.mem_cons.1 hi with e' | e'
      · exact absurd e' e
      · apply ih _ e'
        unfold copied
        split
        · exact mem_del.2 ⟨hn, e⟩
        · exact hn

theorem foldl_copied_need (l : List Nat) : ∀ (s : St) {x : Nat}, x ∈ (l.foldl copied s).need →
    x ∈ s.need ∧ x ∉ l := by
  induction l with
  | nil => intro s x h; exact ⟨h, by simp⟩
  | cons j t ih =>
    intro s x h
    rw [List.foldl_cons] at h
    obtain ⟨h1, h2⟩ := ih _ h
    unfold copied at h1
    split at h1
    · exact ⟨(mem_del.1 h1).1, by simp [h2, (mem_del.1 h1).2]⟩
    next hj =>
      refine ⟨h1, ?_⟩
      intro hx
      rcases List.mem_cons.1 hx with e | e
      · exact hj (e ▸ h1)
      · exact h2 e

theorem copied_frame (s : St) (i : Nat) :
    (copied s i).acked = s.acked ∧ (copied s i).src = s.src ∧ (copied s i).upl = s.upl := by
  unfold copied; split <;> simp

theorem foldl_copied_frame (l : List Nat) : ∀ (s : St),
    (l.foldl copied s).acked = s.acked ∧ (l.foldl copied s).src = s.src ∧ (l.foldl copied s).upl = s.upl := by
  induction l with
  | nil => intro s; simp
  | cons i t ih =>
    intro s
    obtain ⟨a, b, c⟩ := ih (copied s i)
    obtain ⟨a', b', c'⟩ := copied_frame s i
    rw [List.foldl_cons]
    exact ⟨a.trans a', b.trans b', c.trans c'⟩

/-- the state right after a crash and `readQueueToMemory` -/
def restarted (s : St) : St := step .fixed s .restart

theorem quiet_restarted {s : St} (h : Inv s) : Quiet (restarted s) where
  cps := rfl
  copying := rfl
  need_src := (inv_restart s h).need_src
  rows_need := fun _ hi => mem_rq.2 (Or.inr hi)

theorem recover_eq {s : St} (h : Inv s) :
    recover .fixed s = (readQueueToMemory [] s.rows).foldl copied (restarted s) := by
  unfold recover recoverSteps
  show run .fixed (step .fixed s .restart) _ = _
  exact run_drain .fixed _ _ (quiet_restarted h)

/-- what the bounded failure-free continuation achieves from a state satisfying the invariant -/
theorem recover_spec {s : St} (h : Inv s) :
    (recover .fixed s).need = [] ∧ (recover .fixed s).rows = [] ∧ (recover .fixed s).cps = [] ∧
    (recover .fixed s).copying = [] ∧ (recover .fixed s).acked = s.acked ∧ (recover .fixed s).src = s.src ∧
    (∀ i, i ∈ dstIds s ∨ i ∈ s.rows → i ∈ dstIds (recover .fixed s)) := by
  rw [recover_eq h]
  have hq := quiet_foldl (readQueueToMemory [] s.rows) _ (quiet_restarted h)
  have hneed : ((readQueueToMemory [] s.rows).foldl copied (restarted s)).need = [] := by
    apply List.eq_nil_iff_forall_not_mem.2
    intro x hx
    obtain ⟨h1, h2⟩ := foldl_copied_need _ _ hx
    exact h2 h1
  have hrows : ((readQueueToMemory [] s.rows).foldl copied (restarted s)).rows = [] := by
    apply List.eq_nil_iff_forall_not_mem.2
    intro x hx
    have := hq.rows_need x hx
    rw [hneed] at this
    cases this
  obtain ⟨fa, fs, _⟩ := foldl_copied_frame (readQueueToMemory [] s.rows) (restarted s)
  refine ⟨hneed, hrows, hq.cps, hq.copying, fa, fs, ?_⟩
  intro i hi
  rcases hi with e | e
  · exact foldl_copied_dst_mono _ _ e
  · have hn : i ∈ (restarted s).need := mem_rq.2 (Or.inr e)
    exact foldl_copied_delivers _ _ hn hn

theorem length_recoverSteps (s : St) : (recoverSteps s).length ≤ 1 + 4 * s.rows.length := by
  have h1 : ∀ l : List Nat, (l.flatMap copyOkSteps).length = 4 * l.length := by
    intro l
    induction l with
    | nil => rfl
    | cons a t ih => simp [List.flatMap_cons, copyOkSteps, ih]; omega
  have h2 := length_rq_le s.rows
  simp only [recoverSteps, List.length_cons, h1]
  omega

theorem recoverSteps_clean (s : St) : ∀ t ∈ recoverSteps s, t.clean = true := by
  intro t ht
  simp only [recoverSteps, List.mem_cons, List.mem_flatMap] at ht
  rcases ht with e | ⟨i, _, hi⟩
  · subst e; rfl
  · simp only [copyOkSteps, List.mem_cons, List.not_mem_nil, or_false] at hi
    rcases hi with e | e | e | e <;> subst e <;> rfl

end Pk.Sync
