import PkVerif.Lemmas.SortedKV
import PkVerif.Model.SortedBuffer
/-! Helper lemmas about `Pk.SortedBuffer`: the two-way merge and the iterator that computes it. -/
namespace Pk.SortedBuffer
open Pk Pk.SortedKV

/-- the merge the iterator is meant to compute: on equal keys the buffer side (left) wins -/
def merge : KV → KV → KV
  | [], B => B
  | a :: A, [] => a :: A
  | a :: A, b :: B =>
    if ltB a.1 b.1 then a :: merge A (b :: B)
    else if ltB b.1 a.1 then b :: merge (a :: A) B
    else a :: merge A B
termination_by A B => A.length + B.length

theorem merge_nil_left (B : KV) : merge [] B = B := by unfold merge; rfl

theorem merge_nil_right (A : KV) : merge A [] = A := by
  cases A with
  | nil => exact merge_nil_left []
  | cons a A => unfold merge; rfl

theorem merge_cons_cons (a b : Bytes × Bytes) (A B : KV) :
    merge (a :: A) (b :: B) =
      if ltB a.1 b.1 then a :: merge A (b :: B)
      else if ltB b.1 a.1 then b :: merge (a :: A) B
      else a :: merge A B := by
  rw [merge]

theorem keys_merge (A B : KV) (x : Bytes) (h : x ∈ keys (merge A B)) : x ∈ keys A ∨ x ∈ keys B := by
  induction A, B using merge.induct with
  | case1 B => rw [merge_nil_left] at h; exact Or.inr h
  | case2 a A => rw [merge_nil_right] at h; exact Or.inl h
  | case3 a A b B hlt ih =>
    rw [merge_cons_cons, if_pos hlt] at h
    simp only [keys, List.map_cons, List.mem_cons] at h ⊢
    rcases h with h | h
    · exact Or.inl (Or.inl h)
    · rcases ih h with h' | h'
      · exact Or.inl (Or.inr h')
      · exact Or.inr (by simpa [keys] using h')
  | case4 a A b B hnlt hgt ih =>
    rw [merge_cons_cons, if_neg hnlt, if_pos hgt] at h
    simp only [keys, List.map_cons, List.mem_cons] at h ⊢
    rcases h with h | h
    · exact Or.inr (Or.inl h)
    · rcases ih h with h' | h'
      · exact Or.inl (by simpa [keys] using h')
      · exact Or.inr (Or.inr h')
  | case5 a A b B hnlt hngt ih =>
    rw [merge_cons_cons, if_neg hnlt, if_neg hngt] at h
    simp only [keys, List.map_cons, List.mem_cons] at h ⊢
    rcases h with h | h
    · exact Or.inl (Or.inl h)
    · rcases ih h with h' | h'
      · exact Or.inl (Or.inr h')
      · exact Or.inr (Or.inr h')

theorem eq_of_not_lt {a b : Bytes} (h1 : ¬ ltB a b = true) (h2 : ¬ ltB b a = true) : a = b := by
  rcases ltB_total a b with h | h | h
  · exact absurd h h1
  · exact h
  · exact absurd h h2

theorem wf_merge {A B : KV} (hA : WF A) (hB : WF B) : WF (merge A B) := by
  induction A, B using merge.induct with
  | case1 B => rw [merge_nil_left]; exact hB
  | case2 a A => rw [merge_nil_right]; exact hA
  | case3 a A b B hlt ih =>
    obtain ⟨ka, va⟩ := a
    obtain ⟨kb, vb⟩ := b
    rw [merge_cons_cons, if_pos hlt, wf_cons]
    refine ⟨?_, ih (wf_tail hA) hB⟩
    intro x hx
    rcases keys_merge _ _ x hx with h | h
    · exact (wf_cons.mp hA).1 x h
    · simp only [keys, List.map_cons, List.mem_cons] at h
      rcases h with h | h
      · subst h; exact hlt
      · exact ltB_trans _ _ _ hlt ((wf_cons.mp hB).1 x h)
  | case4 a A b B hnlt hgt ih =>
    obtain ⟨ka, va⟩ := a
    obtain ⟨kb, vb⟩ := b
    rw [merge_cons_cons, if_neg hnlt, if_pos hgt, wf_cons]
    refine ⟨?_, ih hA (wf_tail hB)⟩
    intro x hx
    rcases keys_merge _ _ x hx with h | h
    · simp only [keys, List.map_cons, List.mem_cons] at h
      rcases h with h | h
      · subst h; exact hgt
      · exact ltB_trans _ _ _ hgt ((wf_cons.mp hA).1 x h)
    · exact (wf_cons.mp hB).1 x h
  | case5 a A b B hnlt hngt ih =>
    obtain ⟨ka, va⟩ := a
    obtain ⟨kb, vb⟩ := b
    have e : ka = kb := eq_of_not_lt hnlt hngt
    rw [merge_cons_cons, if_neg hnlt, if_neg hngt, wf_cons]
    refine ⟨?_, ih (wf_tail hA) (wf_tail hB)⟩
    intro x hx
    rcases keys_merge _ _ x hx with h | h
    · exact (wf_cons.mp hA).1 x h
    · have := (wf_cons.mp hB).1 x h
      simpa [e] using this

/-- the merge looks a key up in the buffer side first, then in the backing side -/
theorem get_merge {A B : KV} (hA : WF A) (hB : WF B) (x : Bytes) :
    get (merge A B) x = (get A x).or (get B x) := by
  induction A, B using merge.induct with
  | case1 B => rw [merge_nil_left]; simp [SortedKV.get]
  | case2 a A => rw [merge_nil_right]; simp [SortedKV.get]
  | case3 a A b B hlt ih =>
    obtain ⟨ka, va⟩ := a
    rw [merge_cons_cons, if_pos hlt]
    simp only [SortedKV.get]
    by_cases e : ka = x
    · simp [e]
    · rw [if_neg e, if_neg e]; exact ih (wf_tail hA) hB
  | case4 a A b B hnlt hgt ih =>
    obtain ⟨ka, va⟩ := a
    obtain ⟨kb, vb⟩ := b
    rw [merge_cons_cons, if_neg hnlt, if_pos hgt]
    simp only [SortedKV.get]
    by_cases e : kb = x
    · subst e
      have hne : ¬ ka = kb := fun e' => ltB_ne hgt e'.symm
      rw [if_neg hne, get_tail_none hA (ltB_asymm _ _ hgt)]
      simp
    · have := ih hA (wf_tail hB)
      simp only [SortedKV.get] at this
      rw [if_neg e, this, if_neg e]
  | case5 a A b B hnlt hngt ih =>
    obtain ⟨ka, va⟩ := a
    obtain ⟨kb, vb⟩ := b
    have e : ka = kb := eq_of_not_lt hnlt hngt
    subst e
    rw [merge_cons_cons, if_neg hnlt, if_neg hngt]
    simp only [SortedKV.get]
    by_cases e : ka = x
    · simp [e]
    · rw [if_neg e, if_neg e, if_neg e]; exact ih (wf_tail hA) (wf_tail hB)

theorem merge_eq_nil {A B : KV} : merge A B = [] ↔ A = [] ∧ B = [] := by
  cases A with
  | nil => rw [merge_nil_left]; simp
  | cons a A =>
    cases B with
    | nil => rw [merge_nil_right]; simp
    | cons b B =>
      rw [merge_cons_cons]
      split
      · simp
      · split <;> simp

/-! ### the iterator computes the merge -/

/-- the sub-iterator stands on the first row of `l` (at its end when `l = []`) and its underlying
iterator has never been called after its end -/
def SubPos (s : SubIter) (l : KV) : Prop :=
  s.overrun = false ∧
  match l with
  | [] => s.eof = true
  | p :: r => s.eof = false ∧ s.cur = some p ∧ s.key = p.1 ∧ s.rest = r

theorem subpos_next {s : SubIter} {p : Bytes × Bytes} {r : KV} (h : SubPos s (p :: r)) :
    SubPos s.next.1 r ∧ s.next.2 = !r.isEmpty := by
  obtain ⟨ho, he, hc, hk, hr⟩ := h
  cases r with
  | nil => simp [SubIter.next, hr, SubPos, ho, he]
  | cons q r' => simp [SubIter.next, hr, SubPos, ho, he]

theorem subpos_start (l : KV) :
    SubPos (SubIter.start l).next.1 l ∧ (SubIter.start l).next.2 = !l.isEmpty := by
  cases l with
  | nil => simp [SubIter.next, SubIter.start, SubPos]
  | cons q r' => simp [SubIter.next, SubIter.start, SubPos]

structure Pos (it : Iter) (A B : KV) : Prop where
  started : it.started = true
  buf : SubPos it.buf A
  back : SubPos it.back B

theorem pos_head {it : Iter} {A B : KV} (h : Pos it A B) {p : Bytes × Bytes} {rest : KV}
    (hm : merge A B = p :: rest) : (it.key, it.value) = p := by
  obtain ⟨_, ⟨_, hA⟩, ⟨_, hB⟩⟩ := h
  cases A with
  | nil =>
    cases B with
    | nil => rw [merge_nil_left] at hm; cases hm
    | cons b B' =>
      rw [merge_nil_left] at hm
      injection hm with hm _; subst hm
      obtain ⟨he, hc, hk, _⟩ := hB
      simp only at hA
      simp [Iter.key, Iter.value, Iter.current, he, hA, hk, SubIter.value, hc]
  | cons a A' =>
    obtain ⟨hea, hca, hka, _⟩ := hA
    cases B with
    | nil =>
      rw [merge_nil_right] at hm
      injection hm with hm _; subst hm
      simp only at hB
      simp [Iter.key, Iter.value, Iter.current, hB, hka, SubIter.value, hca]
    | cons b B' =>
      obtain ⟨heb, hcb, hkb, _⟩ := hB
      rw [merge_cons_cons] at hm
      by_cases hlt : ltB a.1 b.1 = true
      · rw [if_pos hlt] at hm
        injection hm with hm _; subst hm
        have : leB a.1 b.1 = true := by simp [leB, ltB_asymm _ _ hlt]
        simp [Iter.key, Iter.value, Iter.current, hea, heb, hka, hkb, this, SubIter.value, hca]
      · rw [if_neg hlt] at hm
        by_cases hgt : ltB b.1 a.1 = true
        · rw [if_pos hgt] at hm
          injection hm with hm _; subst hm
          have : leB a.1 b.1 = false := by simp [leB, hgt]
          simp [Iter.key, Iter.value, Iter.current, hea, heb, hka, hkb, this, SubIter.value, hcb]
        · rw [if_neg hgt] at hm
          injection hm with hm _; subst hm
          have : leB a.1 b.1 = true := by simp [leB, hgt]
          simp [Iter.key, Iter.value, Iter.current, hea, heb, hka, hkb, this, SubIter.value, hca]

/-- one `Next` of a positioned iterator moves it to the position of the merge's tail and reports
whether that tail is non-empty; no exhausted sub-iterator is touched -/
theorem pos_advance {it : Iter} {A B : KV} (h : Pos it A B) :
    ∃ A' B', Pos it.advance.1 A' B' ∧ merge A' B' = (merge A B).tail ∧
      it.advance.2 = !(merge A' B').isEmpty ∧ A'.length + B'.length ≤ A.length + B.length - 1 := by
  obtain ⟨hs, hA, hB⟩ := h
  cases A with
  | nil =>
    have hea : it.buf.eof = true := hA.2
    cases B with
    | nil =>
      have heb : it.back.eof = true := hB.2
      refine ⟨[], [], ?_, ?_, ?_, ?_⟩
      · simp only [Iter.advance, hea, heb, Bool.and_self, if_true]; exact ⟨hs, hA, hB⟩
      · rw [merge_nil_left]; rfl
      · simp [Iter.advance, hea, heb, merge_nil_left]
      · simp only [List.length_cons, List.length_nil]; omega
    | cons b B' =>
      have heb : it.back.eof = false := hB.2.1
      obtain ⟨hp, hn⟩ := subpos_next hB
      refine ⟨[], B', ?_, ?_, ?_, ?_⟩
      · simp only [Iter.advance, hea, heb, Bool.and_false, if_true, Bool.false_eq_true, if_false]
        exact ⟨hs, hA, hp⟩
      · simp [merge_nil_left]
      · simp [Iter.advance, hea, heb, merge_nil_left, hn]
      · simp only [List.length_cons, List.length_nil]; omega
  | cons a A' =>
    have hea : it.buf.eof = false := hA.2.1
    have hka : it.buf.key = a.1 := hA.2.2.2.1
    obtain ⟨hpa, hna⟩ := subpos_next hA
    cases B with
    | nil =>
      have heb : it.back.eof = true := hB.2
      refine ⟨A', [], ?_, ?_, ?_, ?_⟩
      · simp only [Iter.advance, hea, heb, Bool.false_and, if_true, Bool.false_eq_true, if_false]
        exact ⟨hs, hpa, hB⟩
      · simp [merge_nil_right]
      · simp [Iter.advance, hea, heb, merge_nil_right, hna]
      · simp only [List.length_cons, List.length_nil]; omega
    | cons b B' =>
      have heb : it.back.eof = false := hB.2.1
      have hkb : it.back.key = b.1 := hB.2.2.2.1
      obtain ⟨hpb, hnb⟩ := subpos_next hB
      by_cases hlt : ltB a.1 b.1 = true
      · refine ⟨A', b :: B', ?_, ?_, ?_, ?_⟩
        · simp only [Iter.advance, hea, heb, hka, hkb, hlt, Bool.false_and, Bool.false_eq_true, if_false, if_true]
          exact ⟨hs, hpa, hB⟩
        · rw [merge_cons_cons, if_pos hlt]; rfl
        · have : merge A' (b :: B') ≠ [] := by
            intro e; have := (merge_eq_nil.mp e).2; cases this
          simp [Iter.advance, hea, heb, hka, hkb, hlt, this]
        · simp only [List.length_cons, List.length_nil]; omega
      · by_cases hgt : ltB b.1 a.1 = true
        · refine ⟨a :: A', B', ?_, ?_, ?_, ?_⟩
          · simp only [Iter.advance, hea, heb, hka, hkb, hlt, hgt, Bool.false_and, Bool.false_eq_true, if_false, if_true]
            exact ⟨hs, hA, hpb⟩
          · rw [merge_cons_cons, if_neg hlt, if_pos hgt]; rfl
          · have : merge (a :: A') B' ≠ [] := by
              intro e; have := (merge_eq_nil.mp e).1; cases this
            simp [Iter.advance, hea, heb, hka, hkb, hlt, hgt, this]
          · simp only [List.length_cons, List.length_nil]; omega
        · refine ⟨A', B', ?_, ?_, ?_, ?_⟩
          · simp only [Iter.advance, hea, heb, hka, hkb, hlt, hgt, Bool.false_and, Bool.false_eq_true, if_false]
            exact ⟨hs, hpa, hpb⟩
          · rw [merge_cons_cons, if_neg hlt, if_neg hgt]; rfl
          · simp only [Iter.advance, hea, heb, hka, hkb, hlt, hgt, Bool.false_and, Bool.false_eq_true, if_false, hna, hnb]
            cases A' <;> cases B' <;> simp [merge_nil_left, merge_nil_right, merge_cons_cons] <;> (split <;> try split) <;> simp
          · simp only [List.length_cons, List.length_nil]; omega

theorem next_of_pos {it : Iter} {A B : KV} (h : Pos it A B) : it.next = it.advance := by
  simp [Iter.next, h.started]

/-- from a positioned iterator the loop yields the rest of the merge -/
theorem collect_pos : ∀ (n : Nat) {it : Iter} {A B : KV}, Pos it A B → A.length + B.length ≤ n →
    it.collect n = (merge A B).tail := by
  intro n
  induction n with
  | zero =>
    intro it A B _ hl
    have hA : A = [] := List.eq_nil_of_length_eq_zero (by omega)
    have hB : B = [] := List.eq_nil_of_length_eq_zero (by omega)
    subst hA; subst hB
    simp [Iter.collect, Iter.collectWith, merge_nil_left]
  | succ n ih =>
    intro it A B h hl
    obtain ⟨A', B', hp, hm, hok, hlen⟩ := pos_advance h
    unfold Iter.collect Iter.collectWith
    rw [next_of_pos h, hok]
    cases hm' : merge A' B' with
    | nil => simp [← hm, hm']
    | cons p rest =>
      have hh := pos_head hp hm'
      have ht := ih hp (by omega)
      simp only [List.isEmpty_cons, Bool.not_false, if_true]
      rw [hh]
      unfold Iter.collect at ht
      rw [ht, hm', ← hm, hm']
      rfl

theorem start_pos (A B : KV) :
    Pos (Iter.start A B).next.1 A B ∧ (Iter.start A B).next.2 = !(merge A B).isEmpty := by
  obtain ⟨h1, n1⟩ := subpos_start A
  obtain ⟨h2, n2⟩ := subpos_start B
  constructor
  · exact ⟨by simp [Iter.next, Iter.start], by simpa [Iter.next, Iter.start] using h1,
      by simpa [Iter.next, Iter.start] using h2⟩
  · have : (Iter.start A B).next.2 = ((SubIter.start A).next.2 || (SubIter.start B).next.2) := by
      simp [Iter.next, Iter.start]
    rw [this, n1, n2]
    cases A <;> cases B <;> simp [merge_nil_left, merge_nil_right, merge_cons_cons] <;> (split <;> try split) <;> simp

/-- **the iterator is the merge**: with enough fuel (rows of both sides + 1) the loop
`for it.Next() {…}` yields exactly `merge A B` -/
theorem collect_start (A B : KV) (n : Nat) (hn : A.length + B.length + 1 ≤ n) :
    (Iter.start A B).collect n = merge A B := by
  obtain ⟨hp, hok⟩ := start_pos A B
  cases n with
  | zero => omega
  | succ n =>
    unfold Iter.collect Iter.collectWith
    rw [hok]
    cases hm : merge A B with
    | nil => simp
    | cons p rest =>
      have hh := pos_head hp hm
      have ht := collect_pos n hp (by omega)
      simp only [List.isEmpty_cons, Bool.not_false, if_true]
      unfold Iter.collect at ht
      rw [hh, ht, hm]; rfl

/-- the fixed iterator never calls `Next` on a sub-iterator that has already returned false -/
theorem final_pos : ∀ (n : Nat) {it : Iter} {A B : KV}, Pos it A B →
    ∃ A' B', Pos (Iter.finalWith Iter.next n it) A' B' := by
  intro n
  induction n with
  | zero => intro it A B h; exact ⟨A, B, h⟩
  | succ n ih =>
    intro it A B h
    obtain ⟨A', B', hp, _, _, _⟩ := pos_advance h
    unfold Iter.finalWith
    rw [next_of_pos h]
    split
    · exact ih hp
    · exact ⟨A', B', hp⟩

/-! ### the buffer simulates the map -/

/-- the simulation relation: the map `m` is the backing store overlaid with the buffer -/
structure Rel (L : Limits) (buf back m : KV) : Prop where
  wfBuf : WF buf
  wfBack : WF back
  wfM : WF m
  sizes : SizesOK L buf
  view : ∀ x, get m x = (get buf x).or (get back x)

theorem rel_empty (L : Limits) : Rel L [] [] [] :=
  ⟨wf_nil, wf_nil, wf_nil, (by intro p hp; cases hp), by intro x; simp [SortedKV.get]⟩

theorem rel_set {L : Limits} {buf back m : KV} (h : Rel L buf back m) (k v : Bytes) :
    Rel L (SortedKV.set L buf k v) back (SortedKV.set L m k v) := by
  refine ⟨wf_set L h.wfBuf k v, h.wfBack, wf_set L h.wfM k v, sizes_set L h.sizes k v, ?_⟩
  intro x
  rw [get_set, get_set, h.view x]
  by_cases c : okSizes L k v = true ∧ k = x
  · rw [if_pos c, if_pos c]; simp
  · rw [if_neg c, if_neg c]

theorem rel_erase {L : Limits} {buf back m : KV} (h : Rel L buf back m) (k : Bytes) :
    Rel L (erase k buf) (erase k back) (erase k m) := by
  refine ⟨wf_erase k h.wfBuf, wf_erase k h.wfBack, wf_erase k h.wfM, sizes_filter L h.sizes _, ?_⟩
  intro x
  rw [get_erase, get_erase, get_erase, h.view x]
  by_cases c : k = x
  · simp [c]
  · rw [if_neg c, if_neg c, if_neg c]

theorem rel_batch {L : Limits} (ms : List Mut) : ∀ {buf back m : KV}, Rel L buf back m →
    Rel L (batch L buf (bufMuts L ms)) (batch L back (backMuts ms)) (batch L m ms) := by
  induction ms with
  | nil => intro buf back m h; exact h
  | cons x xs ih =>
    intro buf back m h
    cases x with
    | del k =>
      simp only [bufMuts, backMuts, batch, applyMut]
      exact ih (rel_erase h k)
    | set k v =>
      simp only [bufMuts, backMuts, batch, applyMut]
      cases hok : okSizes L k v with
      | true =>
        simp only [if_true, batch, applyMut]
        exact ih (rel_set h k v)
      | false =>
        have : SortedKV.set L m k v = m := by simp [SortedKV.set, hok]
        rw [this]
        simpa using ih h

theorem commitBatch_eq (L : Limits) (b : Buf) (ms : List Mut) :
    b.commitBatch L ms =
      { b with buf := batch L b.buf (bufMuts L ms), back := batch L b.back (backMuts ms) } := by
  unfold Buf.commitBatch
  cases hb : backMuts ms with
  | nil => simp [batch]
  | cons x xs => simp

/-- setting all rows of a well-formed `items` into `m` overlays `m` with `items` -/
theorem get_batch_sets (L : Limits) : ∀ (items : KV) (m : KV), WF items → SizesOK L items → ∀ x,
    get (batch L m (items.map fun p => Mut.set p.1 p.2)) x = (get items x).or (get m x) := by
  intro items
  induction items with
  | nil => intro m _ _ x; simp [batch, SortedKV.get]
  | cons p t ih =>
    intro m hw hs x
    obtain ⟨k, v⟩ := p
    have hok : okSizes L k v = true := hs (k, v) (by simp)
    simp only [List.map_cons, batch, applyMut]
    rw [ih _ (wf_tail hw) (fun q hq => hs q (List.mem_cons_of_mem _ hq)) x, get_set]
    simp only [SortedKV.get]
    by_cases e : k = x
    · subst e
      rw [get_tail_none hw (ltB_irrefl _)]
      simp [hok]
    · have : ¬ (okSizes L k v = true ∧ k = x) := fun c => e c.2
      rw [if_neg this, if_neg e]

theorem get_batch_dels_other (L : Limits) : ∀ (items : KV) (m : KV) (x : Bytes), x ∉ keys items →
    get (batch L m (items.map fun p => Mut.del p.1)) x = get m x := by
  intro items
  induction items with
  | nil => intro m x _; simp [batch]
  | cons p t ih =>
    intro m x hx
    simp only [keys, List.map_cons, List.mem_cons, not_or] at hx
    simp only [List.map_cons, batch, applyMut]
    rw [ih _ x hx.2, get_erase, if_neg (fun e => hx.1 e.symm)]

theorem get_batch_dels_self (L : Limits) : ∀ (items : KV) (m : KV) (x : Bytes), x ∈ keys items →
    get (batch L m (items.map fun p => Mut.del p.1)) x = none := by
  intro items
  induction items with
  | nil => intro m x hx; simp [keys] at hx
  | cons p t ih =>
    intro m x hx
    simp only [List.map_cons, batch, applyMut]
    by_cases ht : x ∈ keys t
    · exact ih _ x ht
    · rw [get_batch_dels_other L t _ x ht, get_erase]
      simp only [keys, List.map_cons, List.mem_cons] at hx
      rcases hx with hx | hx
      · simp [hx]
      · exact absurd hx ht

/-- what `Flush` does, in terms of `get`: the buffer becomes empty, the backing store becomes the
whole map -/
theorem flush_spec {L : Limits} {b : Buf} {m : KV} (h : Rel L b.buf b.back m) :
    (∀ x, get (b.flush L).buf x = none) ∧ (∀ x, get (b.flush L).back x = get m x) ∧
    WF (b.flush L).buf ∧ WF (b.flush L).back ∧ SizesOK L (b.flush L).buf := by
  unfold Buf.flush
  simp only [find_all]
  cases hb : b.buf with
  | nil =>
    simp only [List.isEmpty_nil, if_true, hb]
    refine ⟨fun x => rfl, ?_, wf_nil, h.wfBack, by intro p hp; cases hp⟩
    intro x; rw [h.view x, hb]; simp [SortedKV.get]
  | cons p t =>
    simp only [List.isEmpty_cons, Bool.false_eq_true, if_false]
    rw [← hb]
    refine ⟨?_, ?_, wf_batch L h.wfBuf _, wf_batch L h.wfBack _, sizes_batch L h.sizes _⟩
    · intro x
      by_cases hx : x ∈ keys b.buf
      · exact get_batch_dels_self L _ _ x hx
      · rw [get_batch_dels_other L _ _ x hx]; exact get_none_of_not_mem_keys hx
    · intro x
      rw [get_batch_sets L _ _ h.wfBuf h.sizes x, h.view x]

theorem rel_flush {L : Limits} {b : Buf} {m : KV} (h : Rel L b.buf b.back m) :
    Rel L (b.flush L).buf (b.flush L).back m := by
  obtain ⟨h1, h2, h3, h4, h5⟩ := flush_spec h
  exact ⟨h3, h4, h.wfM, h5, fun x => by rw [h1 x, h2 x]; simp⟩

theorem rel_reopen {L : Limits} {b : Buf} {m : KV} (h : Rel L b.buf b.back m) :
    Rel L (b.reopen L).buf (b.reopen L).back m := by
  obtain ⟨_, h2, _, h4, _⟩ := flush_spec h
  exact ⟨wf_nil, h4, h.wfM, (by intro p hp; cases hp), fun x => by simp [Buf.reopen, h2 x, SortedKV.get]⟩

theorem rel_bufset {L : Limits} {b : Buf} {m : KV} (h : Rel L b.buf b.back m) (k v : Bytes) :
    Rel L (b.set L k v).buf (b.set L k v).back (SortedKV.set L m k v) := by
  unfold Buf.set
  cases hok : okSizes L k v with
  | false =>
    have : SortedKV.set L m k v = m := by simp [SortedKV.set, hok]
    simpa [this] using h
  | true =>
    simp only [if_true]
    have h1 := rel_set h k v
    split
    · exact rel_flush (b := { b with buf := SortedKV.set L b.buf k v, buffered := b.buffered + (k.length + v.length) }) h1
    · exact h1

theorem rel_get {L : Limits} {b : Buf} {m : KV} (h : Rel L b.buf b.back m) (k : Bytes) :
    b.get k = get m k := by
  unfold Buf.get
  rw [h.view k]
  cases get b.buf k <;> simp

theorem rel_find {L : Limits} {b : Buf} {m : KV} (h : Rel L b.buf b.back m) (s e : Bytes) :
    b.find s e = find m s e := by
  unfold Buf.find
  simp only
  rw [collect_start _ _ _ (Nat.le_refl _)]
  apply ext_get (wf_merge (wf_find h.wfBuf s e) (wf_find h.wfBack s e)) (wf_find h.wfM s e)
  intro x
  rw [get_merge (wf_find h.wfBuf s e) (wf_find h.wfBack s e), get_find, get_find, get_find, h.view x]
  cases inRange s e x <;> simp

/-- one operation keeps the relation and gives the same answer -/
theorem rel_step {L : Limits} {b : Buf} {m : KV} (h : Rel L b.buf b.back m) (o : Op) :
    Rel L (bufStep L b o).1.buf (bufStep L b o).1.back (specStep L m o).1 ∧
      (bufStep L b o).2 = (specStep L m o).2 := by
  cases o with
  | get k => exact ⟨h, by simp [bufStep, specStep, rel_get h k]⟩
  | set k v => exact ⟨rel_bufset h k v, rfl⟩
  | del k => exact ⟨rel_erase h k, rfl⟩
  | batch ms =>
    refine ⟨?_, rfl⟩
    simp only [bufStep, specStep, commitBatch_eq]
    exact rel_batch ms h
  | find s e => exact ⟨h, by simp [bufStep, specStep, rel_find h s e]⟩
  | flush => exact ⟨rel_flush h, rfl⟩
  | reopen => exact ⟨rel_reopen h, rfl⟩

theorem rel_run {L : Limits} (ops : List Op) : ∀ {b : Buf} {m : KV}, Rel L b.buf b.back m →
    runBuf L b ops = runSpec L m ops := by
  induction ops with
  | nil => intro b m _; rfl
  | cons o os ih =>
    intro b m h
    obtain ⟨h1, h2⟩ := rel_step h o
    simp only [runBuf, runSpec, h2, ih h1]

theorem rel_after {L : Limits} (ops : List Op) : ∀ {b : Buf} {m : KV}, Rel L b.buf b.back m →
    Rel L (bufAfter L b ops).buf (bufAfter L b ops).back (specAfter L m ops) := by
  induction ops with
  | nil => intro b m h; exact h
  | cons o os ih => intro b m h; exact ih (rel_step h o).1

end Pk.SortedBuffer
