import PkVerif.Lemmas.RefFiles
import PkVerif.Model.DiskPacked
/-!
# C01: the key predicate of the leaf stores

`Pk.Files.SupK t` (the text parses and its hash is supported) is the key predicate under which the
file-per-blob store refines the reference map (`filesRefinesK`).  Here: it implies the shape of key
diskpacked's `delete` relies on (`Pk.DiskPacked.keyForm`: a `-`, and no space after the first one).
-/
namespace Pk.Files
open Pk Pk.Ref Pk.Pack

theorem indexOf_dash_append (n h : Bytes) (hn : 45 ∉ n) : indexOf 45 (n ++ 45 :: h) = some n.length := by
  induction n with
  | nil => simp [indexOf]
  | cons c cs ih =>
    have hc : c ≠ 45 := by intro e; apply hn; simp [e]
    have : 45 ∉ cs := by intro e; apply hn; simp [e]
    simp [indexOf, hc, ih this]

/-- every key the file store accepts has the form diskpacked needs (only `t.WF` is used) -/
theorem supK_keyForm_wf {t : Tbl} (ht : t.WF) {k : Bytes} (h : SupK t k) :
    Pk.DiskPacked.keyForm k = true := by
  obtain ⟨nm, hx, hk, hnd, hge⟩ := supK_form ht h
  subst hk
  have hdrop : (nm ++ 45 :: hx).drop (nm.length + 1) = hx := by
    rw [show nm ++ 45 :: hx = (nm ++ [45]) ++ hx by simp]
    exact List.drop_left' (by simp)
  simp only [Pk.DiskPacked.keyForm, indexOf_dash_append nm hx hnd, hdrop]
  simp only [Bool.not_eq_true', List.contains_eq_mem, decide_eq_false_iff_not]
  intro hm
  have := hge 32 hm
  omega

theorem supK_keyForm {t : Tbl} (ht : TblOK t) {k : Bytes} (h : SupK t k) :
    Pk.DiskPacked.keyForm k = true := supK_keyForm_wf ht.1 h

/-- an accepted key is not empty -/
theorem supK_ne_nil {t : Tbl} (ht : t.WF) {k : Bytes} (h : SupK t k) : k ≠ [] := by
  obtain ⟨nm, hx, hk, _, _⟩ := supK_form ht h
  subst hk; simp

end Pk.Files
