import PkVerif.Spec.Attr
/-!
# Lemmas for C07 (attribute folding, the incremental cache, deletion)
-/
set_option linter.unusedSimpArgs false

namespace Pk.Attr

/-! ## sorting -/

theorem ins_perm {α : Type} (le : α → α → Bool) (a : α) (l : List α) : (ins le a l).Perm (a :: l) := by
  induction l with
  | nil => exact List.Perm.refl _
  | cons b t ih =>
    simp only [ins]
    split
    · exact List.Perm.refl _
    · exact (List.Perm.cons b ih).trans (List.Perm.swap a b t)

theorem sortBy_perm {α : Type} (le : α → α → Bool) (l : List α) : (sortBy le l).Perm l := by
  induction l with
  | nil => exact List.Perm.refl _
  | cons a t ih => exact (ins_perm le a _).trans (List.Perm.cons a ih)

theorem mem_ins {α : Type} (le : α → α → Bool) (a x : α) (l : List α) : x ∈ ins le a l ↔ x = a ∨ x ∈ l := by
  rw [(ins_perm le a l).mem_iff]; simp

theorem dateLe_iff (a b : Claim) : dateLe a b = true ↔ KeyLe a b := by
  simp [dateLe, KeyLe]

theorem claimLt_iff (a b : Claim) : claimLt a b = true ↔ (a.date < b.date ∨ (a.date = b.date ∧ a.rk < b.rk)) := by
  simp [claimLt]

theorem SortedK.sorted {l : List Claim} (h : SortedK l) : Sorted l := by
  unfold SortedK at h
  unfold Sorted
  exact h.imp (fun {a b} (hab : KeyLe a b) => by unfold KeyLe at hab; omega)

theorem ins_sorted (a : Claim) (l : List Claim) (h : SortedK l) : SortedK (ins dateLe a l) := by
  induction l with
  | nil => simp [ins, SortedK]
  | cons b t ih =>
    simp only [ins]
    unfold SortedK at h ih ⊢
    rw [List.pairwise_cons] at h
    split
    · rename_i hle
      rw [dateLe_iff] at hle
      rw [List.pairwise_cons, List.pairwise_cons]
      refine ⟨?_, h.1, h.2⟩
      intro x hx
      cases hx with
      | head => exact hle
      | tail _ hx' =>
        have := h.1 x hx'
        unfold KeyLe at *; omega
    · rename_i hle
      rw [dateLe_iff] at hle
      rw [List.pairwise_cons]
      refine ⟨?_, ih h.2⟩
      intro x hx
      rw [mem_ins] at hx
      cases hx with
      | inl e => subst e; unfold KeyLe at *; omega
      | inr hx' => exact h.1 x hx'

theorem sortByDate_sorted (l : List Claim) : SortedK (sortByDate l) := by
  induction l with
  | nil => simp [sortByDate, sortBy, SortedK]
  | cons a t ih => exact ins_sorted a _ ih

theorem sortByDate_perm (l : List Claim) : (sortByDate l).Perm l := sortBy_perm _ l

theorem sortByDate_of_sorted (l : List Claim) (h : SortedK l) : sortByDate l = l := by
  induction l with
  | nil => rfl
  | cons a t ih =>
    unfold SortedK at h
    rw [List.pairwise_cons] at h
    show ins dateLe a (sortBy dateLe t) = a :: t
    have : sortBy dateLe t = t := ih h.2
    rw [this]
    cases t with
    | nil => rfl
    | cons b t' =>
      have hab : dateLe a b = true := (dateLe_iff a b).mpr (h.1 b (by simp))
      simp [ins, hab]

theorem DistinctDates.perm {l₁ l₂ : List Claim} (p : l₁.Perm l₂) (h : DistinctDates l₁) : DistinctDates l₂ := by
  unfold DistinctDates at *
  exact (p.pairwise_iff (fun {a b} (hab : a.date ≠ b.date) => (fun e => hab e.symm : b.date ≠ a.date))).mp h

theorem DistinctKeys.perm {l₁ l₂ : List Claim} (p : l₁.Perm l₂) (h : DistinctKeys l₁) : DistinctKeys l₂ := by
  unfold DistinctKeys at *
  exact (p.pairwise_iff (fun {a b} (hab : a.date ≠ b.date ∨ a.rk ≠ b.rk) =>
    (by omega : b.date ≠ a.date ∨ b.rk ≠ a.rk))).mp h

/-- distinct dates are distinct keys -/
theorem DistinctDates.keys {l : List Claim} (h : DistinctDates l) : DistinctKeys l := by
  unfold DistinctDates at h
  unfold DistinctKeys
  exact h.imp (fun {a b : Claim} (hab : a.date ≠ b.date) => (Or.inl hab : a.date ≠ b.date ∨ a.rk ≠ b.rk))

theorem DistinctDates.filter {l : List Claim} (p : Claim → Bool) (h : DistinctDates l) :
    DistinctDates (l.filter p) := List.Pairwise.filter p h

theorem Sorted.filter {l : List Claim} (p : Claim → Bool) (h : Sorted l) : Sorted (l.filter p) :=
  List.Pairwise.filter p h

theorem SortedK.filter {l : List Claim} (p : Claim → Bool) (h : SortedK l) : SortedK (l.filter p) :=
  List.Pairwise.filter p h

/-- with pairwise distinct dates the claim-date order is unique: two sorted arrangements of the same
claims are equal -/
theorem sorted_perm_unique : ∀ (l₁ l₂ : List Claim), l₁.Perm l₂ → Sorted l₁ → Sorted l₂ → DistinctDates l₁ → l₁ = l₂
  | [], l₂, p, _, _, _ => (List.Perm.nil_eq p)
  | a :: t₁, [], p, _, _, _ => by
    have := p.length_eq; simp at this
  | a :: t₁, b :: t₂, p, s₁, s₂, d₁ => by
    have d₂ : DistinctDates (b :: t₂) := d₁.perm p
    simp only [Sorted, DistinctDates, List.pairwise_cons] at s₁ s₂ d₁ d₂
    have hab : a = b := by
      by_cases hab : a = b
      · exact hab
      · exfalso
        have ha : a ∈ b :: t₂ := p.mem_iff.mp (by simp)
        have hb : b ∈ a :: t₁ := p.mem_iff.mpr (by simp)
        have ha' : a ∈ t₂ := by
          cases ha with
          | head => exact absurd rfl hab
          | tail _ h => exact h
        have hb' : b ∈ t₁ := by
          cases hb with
          | head => exact absurd rfl hab
          | tail _ h => exact h
        have h1 := s₁.1 b hb'
        have h2 := s₂.1 a ha'
        have h3 := d₁.1 b hb'
        omega
    subst hab
    have pt : t₁.Perm t₂ := List.Perm.cons_inv p
    rw [sorted_perm_unique t₁ t₂ pt s₁.2 s₂.2 d₁.2]

/-- the code's order (date, then blobref) is unique as soon as no two claims share date AND blobref:
two arrangements of the same claims in that order are equal – equal dates or not -/
theorem sortedK_perm_unique : ∀ (l₁ l₂ : List Claim), l₁.Perm l₂ → SortedK l₁ → SortedK l₂ → DistinctKeys l₁ → l₁ = l₂
  | [], l₂, p, _, _, _ => (List.Perm.nil_eq p)
  | a :: t₁, [], p, _, _, _ => by
    have := p.length_eq; simp at this
  | a :: t₁, b :: t₂, p, s₁, s₂, d₁ => by
    have d₂ : DistinctKeys (b :: t₂) := d₁.perm p
    simp only [SortedK, DistinctKeys, List.pairwise_cons] at s₁ s₂ d₁ d₂
    have hab : a = b := by
      by_cases hab : a = b
      · exact hab
      · exfalso
        have ha : a ∈ b :: t₂ := p.mem_iff.mp (by simp)
        have hb : b ∈ a :: t₁ := p.mem_iff.mpr (by simp)
        have ha' : a ∈ t₂ := by
          cases ha with
          | head => exact absurd rfl hab
          | tail _ h => exact h
        have hb' : b ∈ t₁ := by
          cases hb with
          | head => exact absurd rfl hab
          | tail _ h => exact h
        have h1 := s₁.1 b hb'
        have h2 := s₂.1 a ha'
        have h3 := d₁.1 b hb'
        unfold KeyLe at h1 h2
        omega
    subst hab
    have pt : t₁.Perm t₂ := List.Perm.cons_inv p
    rw [sortedK_perm_unique t₁ t₂ pt s₁.2 s₂.2 d₁.2]

/-- every element of a sorted list is dated no later than the last one -/
theorem sorted_le_last {l : List Claim} (h : Sorted l) {last : Claim} (hl : l.getLast? = some last) :
    ∀ x ∈ l, x.date ≤ last.date := by
  intro x hx
  obtain ⟨r, hr⟩ : ∃ r, l = r ++ [last] := by
    have := List.getLast?_eq_some_iff.mp hl
    obtain ⟨r, hr⟩ := this
    exact ⟨r, hr⟩
  subst hr
  unfold Sorted at h
  rw [List.pairwise_append] at h
  rw [List.mem_append] at hx
  cases hx with
  | inl hx => exact h.2.2 x hx last (by simp)
  | inr hx => simp at hx; subst hx; exact Nat.le_refl _

/-! ## folding -/

theorem foldVals_append_single (l : List Claim) (c : Claim) :
    foldVals (l ++ [c]) = step (foldVals l) c.kind c.val := by
  simp [foldVals, List.foldl_append]

/-- a loop that skips the claims failing `p` folds the claims passing `p` -/
theorem foldl_skip (p : Claim → Bool) (l : List Claim) (init : List Bytes) :
    l.foldl (fun v c => if p c then step v c.kind c.val else v) init
      = (l.filter p).foldl (fun v c => step v c.kind c.val) init := by
  induction l generalizing init with
  | nil => rfl
  | cons a t ih =>
    simp only [List.foldl_cons, List.filter_cons]
    by_cases h : p a = true
    · simp only [h, if_true, List.foldl_cons]; exact ih _
    · simp only [h]; exact ih _

/-- the values of attribute `a` after the claims `l` of all signers -/
def attrFold (l : List Claim) (a : Bytes) : List Bytes := foldVals (l.filter (fun c => decide (c.attr = a)))

/-- the values of attribute `a` after the claims of signer `s` among `l` -/
def attrFoldS (l : List Claim) (a : Bytes) (s : Nat) : List Bytes :=
  foldVals (l.filter (fun c => decide (c.attr = a) && decide (c.signer = s)))

theorem attrFold_append (l : List Claim) (c : Claim) (a : Bytes) :
    attrFold (l ++ [c]) a = if c.attr = a then step (attrFold l a) c.kind c.val else attrFold l a := by
  unfold attrFold
  rw [List.filter_append]
  by_cases h : c.attr = a
  · simp only [h, List.filter_cons, decide_true, if_true, List.filter_nil]
    exact foldVals_append_single _ _
  · simp [h]

theorem attrFoldS_append (l : List Claim) (c : Claim) (a : Bytes) (s : Nat) :
    attrFoldS (l ++ [c]) a s
      = if c.attr = a ∧ c.signer = s then step (attrFoldS l a s) c.kind c.val else attrFoldS l a s := by
  unfold attrFoldS
  rw [List.filter_append]
  by_cases h : c.attr = a ∧ c.signer = s
  · simp only [h, List.filter_cons, decide_true, Bool.and_self, if_true, List.filter_nil, and_self]
    exact foldVals_append_single _ _
  · have : (decide (c.attr = a) && decide (c.signer = s)) = false := by
      simp only [Bool.and_eq_false_iff, decide_eq_false_iff_not]
      by_cases h1 : c.attr = a
      · right; intro h2; exact h ⟨h1, h2⟩
      · left; exact h1
    rw [if_neg h]
    simp [this]

theorem attrFoldS_eq_of_all (l : List Claim) (a : Bytes) (s : Nat) (h : ∀ c ∈ l, c.signer = s) :
    attrFoldS l a s = attrFold l a := by
  unfold attrFoldS attrFold
  congr 1
  apply List.filter_congr
  intro c hc
  simp [h c hc]

theorem attrFoldS_nil_of_none (l : List Claim) (a : Bytes) (s : Nat) (h : ∀ c ∈ l, c.signer ≠ s) :
    attrFoldS l a s = [] := by
  unfold attrFoldS
  have : l.filter (fun c => decide (c.attr = a) && decide (c.signer = s)) = [] := by
    rw [List.filter_eq_nil_iff]
    intro c hc
    simp [h c hc]
  rw [this]; rfl

/-! ## attribute maps -/

theorem get_erase (m : AttrMap) (a b : Bytes) : get (erase m a) b = if a = b then [] else get m b := by
  induction m with
  | nil => simp [erase, get]
  | cons e t ih =>
    obtain ⟨k, v⟩ := e
    have ih' : get (List.filter (fun e => decide (e.1 ≠ a)) t) b = if a = b then [] else get t b := ih
    simp only [erase, List.filter_cons]
    by_cases hk : k = a
    · have h1 : decide ((k, v).1 ≠ a) = false := by simp [hk]
      rw [h1]
      simp only [Bool.false_eq_true, if_false]
      rw [ih']
      by_cases hab : a = b
      · simp [hab]
      · have : ¬ k = b := by rw [hk]; exact hab
        simp [hab, get, this]
    · have h1 : decide ((k, v).1 ≠ a) = true := by simp [hk]
      rw [h1]
      simp only [if_true, get]
      rw [ih']
      by_cases hkb : k = b
      · have : ¬ a = b := by rw [← hkb]; exact fun e => hk e.symm
        simp [hkb, this]
      · simp [hkb]

theorem get_put (m : AttrMap) (a b : Bytes) (v : List Bytes) :
    get (put m a v) b = if a = b then v else get m b := by
  unfold put
  by_cases hab : a = b
  · simp [get, hab]
  · simp only [get, hab, if_false]
    rw [get_erase]; simp [hab]

theorem get_cacheAttrClaim (m : AttrMap) (cl : Claim) (a : Bytes) :
    get (cacheAttrClaim m cl) a = if cl.attr = a then step (get m a) cl.kind cl.val else get m a := by
  unfold cacheAttrClaim
  cases hk : cl.kind with
  | set =>
    simp only [get_put]
    by_cases h : cl.attr = a <;> simp [h, step]
  | add =>
    simp only [get_put]
    by_cases h : cl.attr = a
    · subst h; simp [step]
    · simp [h]
  | del =>
    simp only
    by_cases hv : cl.val = []
    · simp only [hv, if_true, get_erase]
      by_cases h : cl.attr = a <;> simp [h, step]
    · simp only [hv, if_false, get_put]
      by_cases h : cl.attr = a
      · subst h; simp [step, hv]
      · simp [h]
  | delete =>
    by_cases h : cl.attr = a <;> simp [h, step]

theorem get_nil (a : Bytes) : get [] a = [] := rfl

/-! ## the signer table -/

theorem lookupS_append (sg : List (Nat × AttrMap)) (k : Nat) (v : AttrMap) (s : Nat) :
    lookupS (sg ++ [(k, v)]) s =
      match lookupS sg s with
      | some m => some m
      | none => if k = s then some v else none := by
  induction sg with
  | nil => simp [lookupS]
  | cons e t ih =>
    obtain ⟨k', v'⟩ := e
    simp only [List.cons_append, lookupS]
    by_cases h : k' = s
    · simp [h]
    · simp only [h, if_false]; exact ih

theorem lookupS_updS (sg : List (Nat × AttrMap)) (k : Nat) (m : AttrMap) (s : Nat) :
    lookupS (updS sg k m) s =
      if k = s then (match lookupS sg k with | some _ => some m | none => none) else lookupS sg s := by
  induction sg with
  | nil => simp [updS, lookupS]
  | cons e t ih =>
    obtain ⟨k', v'⟩ := e
    simp only [updS]
    by_cases h : k' = k
    · subst h
      by_cases hs : k' = s
      · subst hs; simp [lookupS]
      · simp [lookupS, hs]
    · simp only [h, if_false, lookupS]
      by_cases hs : k = s
      · subst hs
        simp only [h, if_false, if_true]
        rw [ih]; simp
      · by_cases hs' : k' = s
        · simp [hs', hs]
        · simp only [hs', if_false, hs]
          rw [ih]; simp [hs]

/-! ## the cache invariant -/

/-- the cached maps of `pm` are the folds of the claim list `l`: `attr` over all signers, one entry
of `signer` per signer that has a claim in `l` -/
structure CacheInv (pm : PM) (l : List Claim) : Prop where
  attr : ∀ a, get (pm.attr.getD []) a = attrFold l a
  signerNone : ∀ s, lookupS pm.signer s = none → ∀ c ∈ l, c.signer ≠ s
  signerSome : ∀ s ms, lookupS pm.signer s = some ms → ∀ a, get ms a = attrFoldS l a s

theorem CacheInv.claims_irrelevant {pm : PM} {l : List Claim} (h : CacheInv pm l) (cs : List Claim) :
    CacheInv { pm with claims := cs } l := ⟨h.attr, h.signerNone, h.signerSome⟩

theorem cacheInv_init (cs : List Claim) : CacheInv { claims := cs, attr := some [], signer := [] } [] :=
  ⟨fun _ => rfl, fun _ _ c hc => (by cases hc), fun s ms h => (by simp [lookupS] at h)⟩

theorem cacheInv_empty : CacheInv PM.empty [] :=
  ⟨fun _ => rfl, fun _ _ c hc => (by cases hc), fun s ms h => (by simp [PM.empty, lookupS] at h)⟩

theorem appendAttrClaim_claims (pm : PM) (cl : Claim) : (appendAttrClaim pm cl).claims = pm.claims := by
  unfold appendAttrClaim
  split
  · split <;> rfl
  · split <;> rfl

theorem appendAttrClaim_attr_isSome (pm : PM) (cl : Claim) : (appendAttrClaim pm cl).attr.isSome = true := by
  unfold appendAttrClaim
  split
  · split <;> rfl
  · split <;> rfl

/-- appendAttrClaim keeps the cached maps equal to the folds (corpus.go:222): all five branches -/
theorem appendAttrClaim_inv (pm : PM) (l : List Claim) (cl : Claim) (h : CacheInv pm l) :
    CacheInv (appendAttrClaim pm cl) (l ++ [cl]) := by
  have hattr : ∀ a, get (cacheAttrClaim (pm.attr.getD []) cl) a = attrFold (l ++ [cl]) a := by
    intro a
    rw [get_cacheAttrClaim, attrFold_append, h.attr a]
  unfold appendAttrClaim
  cases hlk : lookupS pm.signer cl.signer with
  | none =>
    simp only
    match hsg : pm.signer with
    | [] =>
      -- no signer yet: `l` is empty
      have hl : l = [] := by
        cases l with
        | nil => rfl
        | cons c t =>
          exfalso
          exact h.signerNone c.signer (by rw [hsg]; rfl) c (by simp) rfl
      subst hl
      refine ⟨hattr, ?_, ?_⟩
      · intro s hs c hc
        simp only [lookupS] at hs
        simp only [List.nil_append, List.mem_singleton] at hc
        subst hc
        intro e
        simp [e] at hs
      · intro s ms hs a
        simp only [lookupS] at hs
        by_cases e : cl.signer = s
        · simp only [e, if_true, Option.some.injEq] at hs
          subst hs
          rw [hattr a, attrFoldS_eq_of_all]
          intro c hc
          simp only [List.nil_append, List.mem_singleton] at hc
          subst hc; exact e
        · simp [e] at hs
    | [(s0, m0)] =>
      have hne : s0 ≠ cl.signer := by
        intro e
        rw [hsg] at hlk
        simp [lookupS, e] at hlk
      have hall : ∀ c ∈ l, c.signer = s0 := by
        intro c hc
        by_cases e : c.signer = s0
        · exact e
        · exfalso
          refine h.signerNone c.signer ?_ c hc rfl
          rw [hsg]
          have hne' : ¬ s0 = c.signer := fun e' => e e'.symm
          simp [lookupS, hne']
      refine ⟨hattr, ?_, ?_⟩
      · intro s hs c hc
        simp only [lookupS] at hs
        by_cases e0 : s0 = s
        · simp [e0] at hs
        · by_cases e1 : cl.signer = s
          · simp [e0, e1] at hs
          · rw [List.mem_append] at hc
            cases hc with
            | inl hc => rw [hall c hc]; exact e0
            | inr hc => simp only [List.mem_singleton] at hc; subst hc; exact e1
      · intro s ms hs a
        simp only [lookupS] at hs
        by_cases e0 : s0 = s
        · simp only [e0, if_true, Option.some.injEq] at hs
          subst hs
          subst e0
          rw [attrFoldS_append]
          have : ¬ (cl.attr = a ∧ cl.signer = s0) := fun hh => hne hh.2.symm
          rw [if_neg this, attrFoldS_eq_of_all l a s0 hall]
          exact h.attr a
        · simp only [e0, if_false] at hs
          by_cases e1 : cl.signer = s
          · simp only [e1, if_true, Option.some.injEq] at hs
            subst hs
            subst e1
            rw [get_cacheAttrClaim, attrFoldS_append, get_nil]
            have hnil : attrFoldS l a cl.signer = [] :=
              attrFoldS_nil_of_none l a cl.signer (fun c hc => by rw [hall c hc]; exact hne)
            rw [hnil]
            by_cases ha : cl.attr = a <;> simp [ha]
          · simp [e1] at hs
    | e1 :: e2 :: rest =>
      simp only
      rw [hsg] at hlk
      have hNone := h.signerNone
      have hSome := h.signerSome
      rw [hsg] at hNone hSome
      refine ⟨hattr, ?_, ?_⟩
      · intro s hs c hc
        rw [lookupS_append] at hs
        cases hl : lookupS (e1 :: e2 :: rest) s with
        | some m => simp [hl] at hs
        | none =>
          simp only [hl] at hs
          by_cases e : cl.signer = s
          · simp [e] at hs
          · rw [List.mem_append] at hc
            cases hc with
            | inl hc => exact hNone s hl c hc
            | inr hc => simp only [List.mem_singleton] at hc; subst hc; exact e
      · intro s ms hs a
        rw [lookupS_append] at hs
        cases hl : lookupS (e1 :: e2 :: rest) s with
        | some m =>
          simp only [hl, Option.some.injEq] at hs
          subst hs
          have hne : cl.signer ≠ s := by
            intro e; rw [e] at hlk; rw [hlk] at hl; cases hl
          rw [attrFoldS_append, if_neg (fun hh => hne hh.2)]
          exact hSome s m hl a
        | none =>
          simp only [hl] at hs
          by_cases e : cl.signer = s
          · simp only [e, if_true, Option.some.injEq] at hs
            subst hs
            subst e
            rw [get_cacheAttrClaim, attrFoldS_append, get_nil,
              attrFoldS_nil_of_none l a cl.signer (hNone cl.signer hlk)]
            by_cases ha : cl.attr = a <;> simp [ha]
          · simp [e] at hs
  | some sc =>
    simp only
    split
    · -- several signers: the signer's own map is updated
      refine ⟨hattr, ?_, ?_⟩
      · intro s hs c hc
        simp only [lookupS_updS, hlk] at hs
        by_cases e : cl.signer = s
        · simp [e] at hs
        · simp only [e, if_false] at hs
          rw [List.mem_append] at hc
          cases hc with
          | inl hc => exact h.signerNone s hs c hc
          | inr hc => simp only [List.mem_singleton] at hc; subst hc; exact e
      · intro s ms hs a
        simp only [lookupS_updS, hlk] at hs
        by_cases e : cl.signer = s
        · simp only [e, if_true, Option.some.injEq] at hs
          subst hs
          subst e
          rw [get_cacheAttrClaim, attrFoldS_append, h.signerSome cl.signer sc hlk a]
          by_cases ha : cl.attr = a <;> simp [ha]
        · simp only [e, if_false] at hs
          rw [attrFoldS_append, if_neg (fun hh => e hh.2)]
          exact h.signerSome s ms hs a
    · -- the only signer: its map is pm.attr itself
      rename_i hlen
      have hsg : ∃ m0, pm.signer = [(cl.signer, m0)] := by
        match hp : pm.signer with
        | [] => rw [hp] at hlk; simp [lookupS] at hlk
        | [(k, m0)] =>
          rw [hp] at hlk
          simp only [lookupS] at hlk
          by_cases e : k = cl.signer
          · exact ⟨m0, by rw [e]⟩
          · simp [e] at hlk
        | _ :: _ :: _ => rw [hp] at hlen; simp at hlen
      obtain ⟨m0, hsg⟩ := hsg
      have hall : ∀ c ∈ l, c.signer = cl.signer := by
        intro c hc
        by_cases e : c.signer = cl.signer
        · exact e
        · exfalso
          refine h.signerNone c.signer ?_ c hc rfl
          rw [hsg]
          have hne' : ¬ cl.signer = c.signer := fun e' => e e'.symm
          simp [lookupS, hne']
      refine ⟨hattr, ?_, ?_⟩
      · intro s hs c hc
        simp only [lookupS] at hs
        by_cases e : cl.signer = s
        · simp [e] at hs
        · rw [List.mem_append] at hc
          cases hc with
          | inl hc => rw [hall c hc]; exact e
          | inr hc => simp only [List.mem_singleton] at hc; subst hc; exact e
      · intro s ms hs a
        simp only [lookupS] at hs
        by_cases e : cl.signer = s
        · simp only [e, if_true, Option.some.injEq] at hs
          subst hs
          subst e
          rw [hattr a, attrFoldS_eq_of_all]
          intro c hc
          rw [List.mem_append] at hc
          cases hc with
          | inl hc => exact hall c hc
          | inr hc => simp only [List.mem_singleton] at hc; subst hc; rfl
        · simp [e] at hs

/-! ## restoreInvariants, fixupLastClaim, mergeClaimRow -/

theorem foldl_appendAttrClaim_inv (m : List Claim) (pm : PM) (l : List Claim) (h : CacheInv pm l) :
    CacheInv (m.foldl appendAttrClaim pm) (l ++ m) ∧ (m.foldl appendAttrClaim pm).claims = pm.claims := by
  induction m generalizing pm l with
  | nil => simpa using h
  | cons c t ih =>
    simp only [List.foldl_cons]
    have := ih (appendAttrClaim pm c) (l ++ [c]) (appendAttrClaim_inv pm l c h)
    rw [appendAttrClaim_claims] at this
    simpa using this

/-- what a PermanodeMeta must satisfy between two arrivals: claims in the code's order (date, then
blobref), caches = folds -/
structure Inv (pm : PM) : Prop where
  sorted : SortedK pm.claims
  cache : CacheInv pm pm.claims

theorem restoreInvariants_claims (pm : PM) : (restoreInvariants pm).claims = sortByDate pm.claims := by
  unfold restoreInvariants
  exact (foldl_appendAttrClaim_inv _ _ [] (cacheInv_init _)).2

/-- restoreInvariants establishes the invariant whatever state it starts from (corpus.go:192) -/
theorem restoreInvariants_inv (pm : PM) : Inv (restoreInvariants pm) := by
  refine ⟨?_, ?_⟩
  · rw [restoreInvariants_claims]; exact sortByDate_sorted _
  · rw [restoreInvariants_claims]
    unfold restoreInvariants
    have := (foldl_appendAttrClaim_inv (sortByDate pm.claims) _ [] (cacheInv_init (sortByDate pm.claims))).1
    simpa using this

theorem inv_empty : Inv PM.empty := ⟨by simp [PM.empty, SortedK], cacheInv_empty⟩

/-- mergeClaimRow on a live corpus keeps the invariant and adds exactly the new claim: both the
append path and the re-sort path of fixupLastClaim (corpus.go:207) -/
theorem mergeClaimRow_inv (pm : PM) (cl : Claim) (h : Inv pm) :
    Inv (mergeClaimRow pm cl) ∧ (mergeClaimRow pm cl).claims.Perm (pm.claims ++ [cl]) := by
  have hrestore : Inv (restoreInvariants { pm with claims := pm.claims ++ [cl] }) ∧
      (restoreInvariants { pm with claims := pm.claims ++ [cl] }).claims.Perm (pm.claims ++ [cl]) :=
    ⟨restoreInvariants_inv _, by rw [restoreInvariants_claims]; exact sortByDate_perm _⟩
  have happend : (∀ x ∈ pm.claims, KeyLe x cl) →
      Inv (appendAttrClaim { pm with claims := pm.claims ++ [cl] } cl) ∧
      (appendAttrClaim { pm with claims := pm.claims ++ [cl] } cl).claims.Perm (pm.claims ++ [cl]) := by
    intro hle
    refine ⟨⟨?_, ?_⟩, ?_⟩
    · rw [appendAttrClaim_claims]
      show SortedK (pm.claims ++ [cl])
      unfold SortedK
      rw [List.pairwise_append]
      refine ⟨h.sorted, by simp, ?_⟩
      intro x hx y hy
      simp only [List.mem_singleton] at hy
      subst hy
      exact hle x hx
    · rw [appendAttrClaim_claims]
      exact appendAttrClaim_inv _ _ cl (h.cache.claims_irrelevant _)
    · rw [appendAttrClaim_claims]
  unfold mergeClaimRow fixupLastClaim
  simp only [List.reverse_append, List.reverse_singleton, List.singleton_append]
  cases hattr : pm.attr with
  | none => rw [hattr] at hrestore; simpa using hrestore
  | some a =>
    rw [hattr] at hrestore happend
    cases hrev : pm.claims.reverse with
    | nil =>
      have hnil : pm.claims = [] := by simpa using hrev
      simp only
      apply happend
      intro x hx; rw [hnil] at hx; cases hx
    | cons prev r =>
      simp only
      have hcl : pm.claims = r.reverse ++ [prev] := by
        have := congrArg List.reverse hrev
        simpa using this
      split
      · rename_i hlt
        apply happend
        intro x hx
        have hs := h.sorted
        rw [hcl] at hs hx
        unfold SortedK at hs
        rw [List.pairwise_append] at hs
        rw [List.mem_append] at hx
        rw [claimLt_iff] at hlt
        cases hx with
        | inl hx => have := hs.2.2 x hx prev (by simp); unfold KeyLe at *; omega
        | inr hx => simp only [List.mem_singleton] at hx; subst hx; unfold KeyLe; omega
      · exact hrestore

/-- **any arrival order**: after the claims `arr` arrived one by one, the PermanodeMeta holds them in
date order and its caches are the folds of that order -/
theorem incPM_inv (arr : List Claim) : Inv (incPM arr) ∧ (incPM arr).claims.Perm arr := by
  unfold incPM
  suffices ∀ (pm : PM), Inv pm → Inv (arr.foldl mergeClaimRow pm) ∧
      (arr.foldl mergeClaimRow pm).claims.Perm (pm.claims ++ arr) by
    simpa [PM.empty] using this PM.empty inv_empty
  induction arr with
  | nil => intro pm h; simpa using h
  | cons c t ih =>
    intro pm h
    obtain ⟨h1, p1⟩ := mergeClaimRow_inv pm c h
    obtain ⟨h2, p2⟩ := ih (mergeClaimRow pm c) h1
    refine ⟨h2, ?_⟩
    simp only [List.foldl_cons]
    refine p2.trans ?_
    have : pm.claims ++ c :: t = (pm.claims ++ [c]) ++ t := by simp
    rw [this]
    exact List.Perm.append_right t p1

theorem loadPM_inv (rows : List Claim) : Inv (loadPM rows) ∧ (loadPM rows).claims.Perm rows := by
  unfold loadPM
  exact ⟨restoreInvariants_inv _, by rw [restoreInvariants_claims]; exact sortByDate_perm _⟩

/-! ## the folds over the claim list -/

/-- the claims that count for (attr, t, signer filter); deletions are not looked at -/
def rel (attr : Bytes) (t : Nat) (f : Option Nat) (c : Claim) : Bool :=
  decide (c.attr = attr) && decide (c.date ≤ t) && signerOk f c

theorem loop_fun_eq (attr : Bytes) (t : Nat) (f : Option Nat) :
    (fun (v : List Bytes) (cl : Claim) =>
      if cl.attr ≠ attr ∨ cl.date > t then v
      else if filtOf f ≠ [] ∧ cl.signer ∉ filtOf f then v
      else step v cl.kind cl.val)
    = (fun v c => if rel attr t f c then step v c.kind c.val else v) := by
  funext v cl
  by_cases h1 : cl.attr = attr
  · by_cases h2 : cl.date ≤ t
    · have h2' : ¬ cl.date > t := by omega
      cases f with
      | none => simp [rel, signerOk, filtOf, h1, h2, h2']
      | some s =>
        by_cases h3 : cl.signer = s
        · simp [rel, signerOk, filtOf, h1, h2, h2', h3]
        · simp [rel, signerOk, filtOf, h1, h2, h2', h3]
    · have h2' : cl.date > t := by omega
      simp [rel, h1, h2, h2']
  · simp [rel, h1]

/-- claimsIntfAttrValue folds exactly the claims that count, in the order given (util.go:76) -/
theorem claimsIntfAttrValues_eq (claims : List Claim) (attr : Bytes) (at_ : Option Nat) (now : Nat)
    (f : Option Nat) :
    claimsIntfAttrValues claims attr at_ now (filtOf f) = foldVals (claims.filter (rel attr (at_.getD now) f)) := by
  unfold claimsIntfAttrValues foldVals
  simp only
  rw [loop_fun_eq, foldl_skip]

/-- so does the loop of AppendPermanodeAttrValues (corpus.go:1345) -/
theorem appendValuesLoop_eq (claims : List Claim) (attr : Bytes) (t : Nat) (f : Option Nat) :
    appendValuesLoop claims attr t (filtOf f) = foldVals (claims.filter (rel attr t f)) := by
  unfold appendValuesLoop foldVals
  rw [loop_fun_eq, foldl_skip]

/-- the boolean PermanodeHasAttrValue carries through its loop -/
def hasStep (val : Bytes) (ret : Bool) (c : Claim) : Bool :=
  match c.kind with
  | .del => if c.val = [] ∨ c.val = val then false else ret
  | .set => decide (c.val = val)
  | .add => if c.val = val then true else ret
  | .delete => ret

theorem hasStep_spec (val : Bytes) (vs : List Bytes) (c : Claim) :
    hasStep val (decide (val ∈ vs)) c = decide (val ∈ step vs c.kind c.val) := by
  unfold hasStep step
  cases c.kind with
  | set =>
    simp only [List.mem_singleton]
    by_cases h : c.val = val
    · simp [h]
    · have : ¬ val = c.val := fun e => h e.symm
      simp [h, this]
  | add =>
    simp only [List.mem_append, List.mem_singleton]
    by_cases h : c.val = val
    · simp [h]
    · have : ¬ val = c.val := fun e => h e.symm
      simp [h, this]
  | del =>
    simp only
    by_cases hv : c.val = []
    · simp [hv]
    · by_cases h : c.val = val
      · subst h; simp [hv]
      · have : ¬ val = c.val := fun e => h e.symm
        simp [hv, h, List.mem_filter, this]
  | delete => rfl

theorem foldl_hasStep (val : Bytes) (l : List Claim) (vs : List Bytes) :
    l.foldl (hasStep val) (decide (val ∈ vs))
      = decide (val ∈ l.foldl (fun v c => step v c.kind c.val) vs) := by
  induction l generalizing vs with
  | nil => rfl
  | cons c t ih =>
    simp only [List.foldl_cons]
    rw [hasStep_spec]
    exact ih _

/-- on a date-sorted list the `break` of PermanodeHasAttrValue loses nothing (corpus.go:1530) -/
theorem hasLoop_eq (attr val : Bytes) (t : Nat) (l : List Claim) (hs : Sorted l) (ret : Bool) :
    hasLoop attr val t l ret = (l.filter (rel attr t none)).foldl (hasStep val) ret := by
  induction l generalizing ret with
  | nil => rfl
  | cons c rest ih =>
    unfold Sorted at hs
    rw [List.pairwise_cons] at hs
    have ih' := fun r => ih hs.2 r
    unfold hasLoop
    by_cases h1 : c.attr = attr
    · by_cases h2 : c.date ≤ t
      · have h2' : ¬ c.date > t := by omega
        have hrel : rel attr t none c = true := by simp [rel, signerOk, h1, h2]
        simp only [h1, ne_eq, not_true_eq_false, if_false, h2', List.filter_cons, hrel, if_true,
          List.foldl_cons]
        rw [ih']
        congr 1
      · have h2' : c.date > t := by omega
        have hrel : rel attr t none c = false := by simp [rel, h1, h2]
        have hnil : rest.filter (rel attr t none) = [] := by
          rw [List.filter_eq_nil_iff]
          intro x hx
          have := hs.1 x hx
          have : ¬ x.date ≤ t := by omega
          simp [rel, this]
        simp [h1, h2', List.filter_cons, hrel, hnil]
    · have hrel : rel attr t none c = false := by simp [rel, h1]
      simp only [ne_eq, h1, not_false_eq_true, if_true, List.filter_cons, hrel]
      exact ih' ret

/-! ## valuesAtSigner: when the cache is handed out, it is right for the time asked -/

theorem valuesAtSigner_cache {pm : PM} {at_ : Option Nat} {now : Nat} {f : Option Nat} {m : AttrMap}
    (h : valuesAtSigner pm at_ now f = some (some m)) :
    (∃ a0, pm.attr = some a0 ∧ (f = none → m = a0) ∧ (∀ s, f = some s → lookupS pm.signer s = some m)) ∧
    (∀ last, pm.claims.getLast? = some last → last.date ≤ at_.getD now) := by
  unfold valuesAtSigner at h
  cases ha : pm.attr with
  | none => simp [ha] at h
  | some a0 =>
    simp only [ha] at h
    cases f with
    | none =>
      simp only at h
      cases hl : pm.claims.getLast? with
      | none =>
        simp only [hl, Option.some.injEq] at h
        exact ⟨⟨a0, rfl, fun _ => h.symm, fun s hs => (by cases hs)⟩, fun last hl' => by cases hl'⟩
      | some last =>
        simp only [hl] at h
        split at h
        · cases h
        · rename_i hle
          simp only [Option.some.injEq] at h
          refine ⟨⟨a0, rfl, fun _ => h.symm, fun s hs => (by cases hs)⟩, ?_⟩
          intro last' hl'
          cases hl'
          omega
    | some s =>
      simp only at h
      cases hk : lookupS pm.signer s with
      | none => simp [hk] at h
      | some ms =>
        simp only [hk] at h
        cases hl : pm.claims.getLast? with
        | none =>
          simp only [hl, Option.some.injEq] at h
          exact ⟨⟨a0, rfl, fun hn => (by cases hn), fun s' hs => (by cases hs; rw [hk, h])⟩, fun last hl' => by cases hl'⟩
        | some last =>
          simp only [hl] at h
          split at h
          · cases h
          · rename_i hle
            simp only [Option.some.injEq] at h
            refine ⟨⟨a0, rfl, fun hn => (by cases hn), fun s' hs => (by cases hs; rw [hk, h])⟩, ?_⟩
            intro last' hl'
            cases hl'
            omega

theorem valuesAtSigner_nilok {pm : PM} {at_ : Option Nat} {now : Nat} {f : Option Nat}
    (h : valuesAtSigner pm at_ now f = some none) : ∃ s, f = some s ∧ lookupS pm.signer s = none := by
  unfold valuesAtSigner at h
  cases ha : pm.attr with
  | none => simp [ha] at h
  | some a0 =>
    simp only [ha] at h
    cases f with
    | none =>
      simp only at h
      cases hl : pm.claims.getLast? with
      | none => simp [hl] at h
      | some last =>
        simp only [hl] at h
        split at h <;> cases h
    | some s =>
      simp only at h
      cases hk : lookupS pm.signer s with
      | none => exact ⟨s, rfl, hk⟩
      | some ms =>
        simp only [hk] at h
        cases hl : pm.claims.getLast? with
        | none => simp [hl] at h
        | some last =>
          simp only [hl] at h
          split at h <;> cases h

/-- a map handed out by valuesAtSigner holds, for every attribute, the fold of the claims that count
at the time asked -/
theorem cache_valid (pm : PM) (hi : Inv pm) (at_ : Option Nat) (now : Nat) (f : Option Nat) (m : AttrMap)
    (h : valuesAtSigner pm at_ now f = some (some m)) (attr : Bytes) :
    get m attr = foldVals (pm.claims.filter (rel attr (at_.getD now) f)) := by
  obtain ⟨⟨a0, ha0, hm0, hm1⟩, hlast⟩ := valuesAtSigner_cache h
  have hall : ∀ x ∈ pm.claims, x.date ≤ at_.getD now := by
    intro x hx
    cases hl : pm.claims.getLast? with
    | none =>
      rw [List.getLast?_eq_none_iff] at hl
      rw [hl] at hx; cases hx
    | some last =>
      have := sorted_le_last hi.sorted.sorted hl x hx
      have := hlast last hl
      omega
  cases f with
  | none =>
    have hm := hm0 rfl
    subst hm
    have := hi.cache.attr attr
    rw [ha0] at this
    simp only [Option.getD_some] at this
    rw [this]
    unfold attrFold
    congr 1
    apply List.filter_congr
    intro c hc
    simp [rel, signerOk, hall c hc]
  | some s =>
    have hm := hm1 s rfl
    rw [hi.cache.signerSome s m hm attr]
    unfold attrFoldS
    congr 1
    apply List.filter_congr
    intro c hc
    simp [rel, signerOk, hall c hc]

/-- (nil, true): no claim of that signer, so nothing counts -/
theorem nilok_valid (pm : PM) (hi : Inv pm) (at_ : Option Nat) (now : Nat) (f : Option Nat)
    (h : valuesAtSigner pm at_ now f = some none) (attr : Bytes) (t : Nat) :
    pm.claims.filter (rel attr t f) = [] := by
  obtain ⟨s, hf, hk⟩ := valuesAtSigner_nilok h
  subst hf
  rw [List.filter_eq_nil_iff]
  intro c hc
  have := hi.cache.signerNone s hk c hc
  simp [rel, signerOk, this]

/-- AppendPermanodeAttrValues = the fold of the claims that count, whichever source it used -/
theorem pmAttrValues_eq (pm : PM) (hi : Inv pm) (attr : Bytes) (at_ : Option Nat) (now : Nat) (f : Option Nat) :
    pmAttrValues pm attr at_ now f = foldVals (pm.claims.filter (rel attr (at_.getD now) f)) := by
  unfold pmAttrValues
  cases h : valuesAtSigner pm at_ now f with
  | none => exact appendValuesLoop_eq _ _ _ _
  | some o =>
    cases o with
    | none => simp only; rw [nilok_valid pm hi at_ now f h]; rfl
    | some m => exact cache_valid pm hi at_ now f m h attr

theorem pmAttrValue_eq (pm : PM) (hi : Inv pm) (attr : Bytes) (at_ : Option Nat) (now : Nat) (f : Option Nat) :
    pmAttrValue pm attr at_ now f = headVal (foldVals (pm.claims.filter (rel attr (at_.getD now) f))) := by
  unfold pmAttrValue
  cases h : valuesAtSigner pm at_ now f with
  | none => simp only [claimsIntfAttrValue]; rw [claimsIntfAttrValues_eq]
  | some o =>
    cases o with
    | none => simp only; rw [nilok_valid pm hi at_ now f h]; rfl
    | some m => simp only; rw [cache_valid pm hi at_ now f m h attr]

theorem pmHasAttrValue_eq (pm : PM) (hi : Inv pm) (attr val : Bytes) (at_ : Option Nat) (now : Nat) :
    pmHasAttrValue pm attr val at_ now
      = decide (val ∈ foldVals (pm.claims.filter (rel attr (at_.getD now) none))) := by
  unfold pmHasAttrValue
  cases h : valuesAtSigner pm at_ now none with
  | none =>
    simp only
    rw [hasLoop_eq attr val _ pm.claims hi.sorted.sorted false]
    have := foldl_hasStep val (pm.claims.filter (rel attr (at_.getD now) none)) []
    simp only [List.not_mem_nil, decide_false] at this
    rw [this]; rfl
  | some o =>
    cases o with
    | none =>
      obtain ⟨s, hf, _⟩ := valuesAtSigner_nilok h
      cases hf
    | some m => simp only; rw [cache_valid pm hi at_ now none m h attr]

/-! ## deletion -/

/-- delete claims target blobs that exist already: `ord` (e.g. the arrival position) grows from a
target to each of its deleters, and stays below `bound` -/
structure DelWF (ds : List Del) (ord : Ref → Nat) (bound : Nat) : Prop where
  lt : ∀ d ∈ ds, ord d.target < ord (.cl d.deleter)
  bounded : ∀ d ∈ ds, ord (.cl d.deleter) < bound

theorem any_congr_mem {α : Type} (l : List α) (p q : α → Bool) (h : ∀ x ∈ l, p x = q x) : l.any p = l.any q := by
  induction l with
  | nil => rfl
  | cons a t ih =>
    simp only [List.any_cons]
    rw [h a (by simp), ih (fun x hx => h x (by simp [hx]))]

/-- with enough fuel for the blobs above `x`, one more unit changes nothing -/
theorem isDeletedIn_succ (ds : List Del) (ord : Ref → Nat) (bound : Nat) (wf : DelWF ds ord bound) :
    ∀ (fuel : Nat) (x : Ref), bound ≤ ord x + fuel → isDeletedIn fuel ds x = isDeletedIn (fuel + 1) ds x := by
  intro fuel
  induction fuel with
  | zero =>
    intro x hx
    simp only [isDeletedIn]
    symm
    rw [List.any_eq_false]
    intro d hd
    rw [List.mem_filter] at hd
    have h1 := wf.lt d hd.1
    have h2 := wf.bounded d hd.1
    have h3 : d.target = x := by simpa using hd.2
    rw [h3] at h1
    omega
  | succ f ih =>
    intro x hx
    rw [isDeletedIn]
    conv => rhs; rw [isDeletedIn]
    apply any_congr_mem
    intro d hd
    rw [List.mem_filter] at hd
    have h1 := wf.lt d hd.1
    have h3 : d.target = x := by simpa using hd.2
    rw [h3] at h1
    rw [ih (.cl d.deleter) (by omega)]

/-- **the recursion satisfies the defining equation of "deleted"**: `x` is deleted iff some delete
claim targets `x` whose own ref is not deleted – at any chain depth -/
theorem isDeletedIn_fixpoint (ds : List Del) (ord : Ref → Nat) (bound : Nat) (wf : DelWF ds ord bound)
    (fuel : Nat) (hf : bound ≤ fuel) (x : Ref) :
    isDeletedIn fuel ds x
      = (ds.filter (fun d => decide (d.target = x))).any (fun d => !isDeletedIn fuel ds (.cl d.deleter)) := by
  rw [isDeletedIn_succ ds ord bound wf fuel x (by omega)]
  rfl

/-- **and it is the only predicate that does** -/
theorem isDeletedIn_unique (ds : List Del) (ord : Ref → Nat) (bound : Nat) (wf : DelWF ds ord bound)
    (fuel : Nat) (hf : bound ≤ fuel) (P : Ref → Bool)
    (hP : ∀ x, P x = (ds.filter (fun d => decide (d.target = x))).any (fun d => !P (.cl d.deleter))) :
    ∀ x, P x = isDeletedIn fuel ds x := by
  suffices ∀ n x, bound ≤ ord x + n → P x = isDeletedIn fuel ds x by
    intro x; exact this bound x (by omega)
  intro n
  induction n with
  | zero =>
    intro x hx
    rw [hP x, isDeletedIn_fixpoint ds ord bound wf fuel hf x]
    apply any_congr_mem
    intro d hd
    rw [List.mem_filter] at hd
    have h1 := wf.lt d hd.1
    have h2 := wf.bounded d hd.1
    have h3 : d.target = x := by simpa using hd.2
    rw [h3] at h1
    omega
  | succ n ih =>
    intro x hx
    rw [hP x, isDeletedIn_fixpoint ds ord bound wf fuel hf x]
    apply any_congr_mem
    intro d hd
    rw [List.mem_filter] at hd
    have h1 := wf.lt d hd.1
    have h3 : d.target = x := by simpa using hd.2
    rw [h3] at h1
    rw [ih (.cl d.deleter) (by omega)]

theorem any_filter_of_mem_iff {ds ds' : List Del} (h : ∀ d, d ∈ ds ↔ d ∈ ds') (p q : Del → Bool) :
    (ds.filter p).any q = (ds'.filter p).any q := by
  rw [Bool.eq_iff_iff, List.any_eq_true, List.any_eq_true]
  constructor
  · rintro ⟨d, hd, hq⟩
    rw [List.mem_filter] at hd
    exact ⟨d, List.mem_filter.mpr ⟨(h d).mp hd.1, hd.2⟩, hq⟩
  · rintro ⟨d, hd, hq⟩
    rw [List.mem_filter] at hd
    exact ⟨d, List.mem_filter.mpr ⟨(h d).mpr hd.1, hd.2⟩, hq⟩

/-- the answer depends only on which deletions are recorded, not on their order or multiplicity
(newest-first sorting, the duplicate check of updateDeletes, the row order of initDeletes) -/
theorem isDeletedIn_congr {ds ds' : List Del} (h : ∀ d, d ∈ ds ↔ d ∈ ds') (fuel : Nat) (x : Ref) :
    isDeletedIn fuel ds x = isDeletedIn fuel ds' x := by
  induction fuel generalizing x with
  | zero => rfl
  | succ f ih =>
    simp only [isDeletedIn]
    rw [any_filter_of_mem_iff h]
    apply any_congr_mem
    intro d _
    rw [ih]

theorem mem_foldl_updateDeletesCache (l acc : List Del) (d : Del) :
    d ∈ l.foldl updateDeletesCache acc ↔ d ∈ acc ∨ d ∈ l := by
  induction l generalizing acc with
  | nil => simp
  | cons a t ih =>
    rw [List.foldl_cons, ih]
    have : d ∈ updateDeletesCache acc a ↔ d ∈ acc ∨ d = a := by
      simp [updateDeletesCache]
    rw [this, List.mem_cons]
    constructor
    · rintro ((h | h) | h)
      · exact Or.inl h
      · exact Or.inr (Or.inl h)
      · exact Or.inr (Or.inr h)
    · rintro (h | h | h)
      · exact Or.inl (Or.inl h)
      · exact Or.inl (Or.inr h)
      · exact Or.inr h

theorem mem_foldl_updateDeletes (l acc : List Del) (d : Del) :
    d ∈ l.foldl updateDeletes acc ↔ d ∈ acc ∨ d ∈ l := by
  induction l generalizing acc with
  | nil => simp
  | cons a t ih =>
    rw [List.foldl_cons, ih]
    have : d ∈ updateDeletes acc a ↔ d ∈ acc ∨ d = a := by
      unfold updateDeletes
      by_cases ha : a ∈ acc
      · simp only [ha, if_true]
        constructor
        · exact Or.inl
        · rintro (h | h)
          · exact h
          · subst h; exact ha
      · simp [ha]
    rw [this, List.mem_cons]
    constructor
    · rintro ((h | h) | h)
      · exact Or.inl h
      · exact Or.inr (Or.inl h)
      · exact Or.inr (Or.inr h)
    · rintro (h | h | h)
      · exact Or.inl (Or.inl h)
      · exact Or.inl (Or.inr h)
      · exact Or.inr h

theorem World.mem_deletes (w : World) (m : Mode) (d : Del) : d ∈ w.deletes m ↔ d ∈ w.dels := by
  cases m with
  | idx => simp [World.deletes, World.idxDeletes, mem_foldl_updateDeletesCache]
  | inc => simp [World.deletes, World.incDeletes, mem_foldl_updateDeletes]
  | load => simp only [World.deletes, World.loadDeletes]; exact (sortBy_perm _ _).mem_iff

/-! ## filtering commutes with the claim sort -/

theorem ins_of_le_all (a : Claim) (l : List Claim) (h : ∀ x ∈ l, KeyLe a x) : ins dateLe a l = a :: l := by
  cases l with
  | nil => rfl
  | cons b t =>
    have := (dateLe_iff a b).mpr (h b (by simp))
    simp [ins, this]

theorem filter_ins (p : Claim → Bool) (a : Claim) (l : List Claim) (hs : SortedK l) :
    (ins dateLe a l).filter p = if p a then ins dateLe a (l.filter p) else l.filter p := by
  induction l with
  | nil => by_cases hp : p a <;> simp [ins, hp]
  | cons b t ih =>
    unfold SortedK at hs
    rw [List.pairwise_cons] at hs
    have ih' := ih hs.2
    simp only [ins]
    by_cases hab : dateLe a b = true
    · simp only [hab, if_true]
      have hab' : KeyLe a b := (dateLe_iff a b).mp hab
      by_cases hp : p a
      · simp only [hp, if_true]
        rw [List.filter_cons, if_pos hp]
        rw [ins_of_le_all]
        intro x hx
        have hx' := (List.mem_filter.mp hx).1
        cases hx' with
        | head => exact hab'
        | tail _ hx'' =>
          have := hs.1 x hx''
          unfold KeyLe at *; omega
      · simp only [hp]
        rw [List.filter_cons]
        simp [hp]
    · rw [if_neg hab, List.filter_cons, ih']
      have hins : ∀ l', ins dateLe a (b :: l') = b :: ins dateLe a l' := by
        intro l'; simp only [ins]; rw [if_neg hab]
      by_cases hp : p a
      · simp only [hp, if_true]
        by_cases hb : p b
        · simp only [hb, if_true, List.filter_cons]
          rw [hins]
        · simp [hb, List.filter_cons]
      · simp only [hp]
        by_cases hb : p b <;> simp [hb, List.filter_cons]

theorem filter_sortByDate (p : Claim → Bool) (l : List Claim) :
    (sortByDate l).filter p = sortByDate (l.filter p) := by
  induction l with
  | nil => rfl
  | cons a t ih =>
    show (ins dateLe a (sortBy dateLe t)).filter p = sortByDate ((a :: t).filter p)
    rw [filter_ins p a (sortBy dateLe t) (sortByDate_sorted t)]
    have ih' : (sortBy dateLe t).filter p = sortBy dateLe (t.filter p) := ih
    by_cases hp : p a
    · simp only [hp, if_true, List.filter_cons, ih']
      rfl
    · simp only [hp, List.filter_cons]
      exact ih

/-! ## the three paths over one history -/

/-- the claim rows of permanode `p`, in the key order of the sorted.KeyValue -/
def World.rowsOf (w : World) (p : Nat) : List Claim := w.rows.filter (fun c => decide (c.pn = p))

theorem World.rowsOf_perm (w : World) (p : Nat) : (w.rowsOf p).Perm (w.claimsOf p) :=
  List.Perm.filter _ (sortBy_perm _ _)

/-- the PermanodeMeta of either corpus holds the permanode's claim rows in date order, with caches
equal to the folds -/
theorem World.pm_inv (w : World) (m : Mode) (p : Nat) (pm : PM) (h : w.pm m p = some pm) :
    Inv pm ∧ pm.claims.Perm (w.claimsOf p) := by
  cases m with
  | idx => simp [World.pm] at h
  | inc =>
    simp only [World.pm] at h
    split at h
    · cases h
    · cases h
      exact incPM_inv _
  | load =>
    simp only [World.pm] at h
    split at h
    · cases h
    · cases h
      obtain ⟨h1, h2⟩ := loadPM_inv (w.rowsOf p)
      exact ⟨h1, h2.trans (w.rowsOf_perm p)⟩

theorem World.pm_none (w : World) (m : Mode) (p : Nat) (hm : m ≠ .idx) (h : w.pm m p = none) :
    w.claimsOf p = [] := by
  cases m with
  | idx => exact absurd rfl hm
  | inc =>
    simp only [World.pm] at h
    split at h
    · rename_i he; exact he
    · cases h
  | load =>
    simp only [World.pm] at h
    split at h
    · rename_i he
      have := (w.rowsOf_perm p).length_eq
      have he' : w.rowsOf p = [] := he
      rw [he'] at this
      exact List.eq_nil_of_length_eq_zero this.symm
    · cases h

/-- the loaded corpus holds exactly the date sort of the rows -/
theorem World.pm_load_claims (w : World) (p : Nat) (pm : PM) (h : w.pm .load p = some pm) :
    pm.claims = sortByDate (w.rowsOf p) := by
  simp only [World.pm] at h
  split at h
  · cases h
  · cases h
    exact restoreInvariants_claims _

/-- the index path (AppendClaims, sort, fold): the fold of the date-sorted rows that count and are not
deleted -/
theorem World.idxAttrValue_eq (w : World) (p : Nat) (attr : Bytes) (at_ : Option Nat) (now : Nat) (f : Option Nat) :
    w.idxAttrValue p attr at_ now f
      = headVal (foldVals ((sortByDate (w.rowsOf p)).filter
          (fun c => rel attr (at_.getD now) f c && !w.idxIsDeleted (.cl c.id)))) := by
  unfold World.idxAttrValue claimsIntfAttrValue
  rw [claimsIntfAttrValues_eq]
  unfold World.idxAppendClaims
  rw [← filter_sortByDate, List.filter_filter]
  congr 2
  apply List.filter_congr
  intro c _
  simp only [World.rowsOf, rel, attrFilterOk, Bool.and_true]
  cases signerOk f c <;> cases w.idxIsDeleted (.cl c.id) <;> simp

/-! ## Describe presents the values as a set of non-empty strings -/

/-- keep the first occurrence of every non-empty value -/
def normFrom (acc : List Bytes) (vs : List Bytes) : List Bytes :=
  vs.foldl (fun acc v => if v = [] ∨ v ∈ acc then acc else acc ++ [v]) acc

def norm (vs : List Bytes) : List Bytes := normFrom [] vs

theorem norm_append_single (vs : List Bytes) (v : Bytes) :
    norm (vs ++ [v]) = if v = [] then norm vs else if v ∈ norm vs then norm vs else norm vs ++ [v] := by
  unfold norm normFrom
  rw [List.foldl_append]
  simp only [List.foldl_cons, List.foldl_nil]
  by_cases h : v = []
  · simp [h]
  · by_cases h2 : v ∈ List.foldl (fun acc v => if v = [] ∨ v ∈ acc then acc else acc ++ [v]) [] vs
    · simp [h2]
    · simp [h, h2]

theorem normFrom_filter (w : Bytes) (vs acc : List Bytes) :
    normFrom (acc.filter (fun x => decide (x ≠ w))) (vs.filter (fun x => decide (x ≠ w)))
      = (normFrom acc vs).filter (fun x => decide (x ≠ w)) := by
  induction vs generalizing acc with
  | nil => rfl
  | cons v t ih =>
    by_cases hv : v = w
    · subst hv
      have h1 : (v :: t).filter (fun x => decide (x ≠ v)) = t.filter (fun x => decide (x ≠ v)) := by
        simp [List.filter_cons]
      rw [h1]
      unfold normFrom at ih ⊢
      rw [List.foldl_cons]
      by_cases hc : v = [] ∨ v ∈ acc
      · rw [if_pos hc]; exact ih acc
      · rw [if_neg hc]
        have := ih (acc ++ [v])
        rw [← this]
        congr 1
        simp [List.filter_append, List.filter_cons]
    · have h1 : (v :: t).filter (fun x => decide (x ≠ w)) = v :: t.filter (fun x => decide (x ≠ w)) := by
        simp [List.filter_cons, hv]
      rw [h1]
      unfold normFrom at ih ⊢
      rw [List.foldl_cons, List.foldl_cons]
      have hmem : v ∈ acc.filter (fun x => decide (x ≠ w)) ↔ v ∈ acc := by
        simp [List.mem_filter, hv]
      by_cases hc : v = [] ∨ v ∈ acc
      · have hc' : v = [] ∨ v ∈ acc.filter (fun x => decide (x ≠ w)) := by
          cases hc with
          | inl h => exact Or.inl h
          | inr h => exact Or.inr (hmem.mpr h)
        rw [if_pos hc, if_pos hc']; exact ih acc
      · have hc' : ¬ (v = [] ∨ v ∈ acc.filter (fun x => decide (x ≠ w))) := by
          intro h
          cases h with
          | inl h => exact hc (Or.inl h)
          | inr h => exact hc (Or.inr (hmem.mp h))
        rw [if_neg hc, if_neg hc']
        have := ih (acc ++ [v])
        rw [← this]
        congr 1
        simp [List.filter_append, List.filter_cons, hv]

theorem norm_filter (w : Bytes) (vs : List Bytes) :
    norm (vs.filter (fun x => decide (x ≠ w))) = (norm vs).filter (fun x => decide (x ≠ w)) := by
  have := normFrom_filter w vs []
  simpa [norm] using this

/-- one claim of Describe's fold = the documented step, seen through `norm` -/
theorem describeStep_norm (vs : List Bytes) (k : Kind) (v : Bytes) :
    describeStep (norm vs) k v = norm (step vs k v) := by
  cases k with
  | set =>
    simp only [describeStep, step]
    by_cases h : v = []
    · simp [h, norm, normFrom]
    · simp [h, norm, normFrom]
  | add =>
    simp only [describeStep, step]
    rw [norm_append_single]
  | del =>
    simp only [describeStep, step]
    by_cases h : v = []
    · simp [h, norm, normFrom]
    · simp only [h, if_false]
      rw [norm_filter]
  | delete => rfl

theorem foldl_describeStep (l : List Claim) (vs : List Bytes) :
    l.foldl (fun vs c => describeStep vs c.kind c.val) (norm vs)
      = norm (l.foldl (fun v c => step v c.kind c.val) vs) := by
  induction l generalizing vs with
  | nil => rfl
  | cons c t ih =>
    simp only [List.foldl_cons]
    rw [describeStep_norm]
    exact ih _

/-- the claims Describe folds: the date-sorted rows of the permanode that are the owner's, not deleted,
about the attribute and not after the time asked (zero: no time bound) -/
theorem World.describe_eq (w : World) (m : Mode) (p : Nat) (attr : Bytes) (at_ : Option Nat) (s : Nat) :
    ∃ l, l.Perm (w.claimsOf p) ∧ SortedK l ∧
      w.describe m p attr at_ s = norm (foldVals (l.filter (fun c =>
        decide (c.attr = attr) && notAfter at_ c && signerOk (some s) c && !w.idxIsDeleted (.cl c.id)))) := by
  have key : ∀ (l : List Claim) (q : Claim → Bool),
      ((l.filter q).filter (fun c => decide (c.attr = attr) && notAfter at_ c)).foldl
        (fun vs c => describeStep vs c.kind c.val) []
      = norm (foldVals (l.filter (fun c => (decide (c.attr = attr) && notAfter at_ c) && q c))) := by
    intro l q
    rw [List.filter_filter]
    exact foldl_describeStep _ []
  cases m with
  | idx =>
    refine ⟨sortByDate (w.rowsOf p), (sortByDate_perm _).trans (w.rowsOf_perm p), sortByDate_sorted _, ?_⟩
    simp only [World.describe, World.idxAppendClaims]
    rw [← filter_sortByDate, key]
    congr 2
    apply List.filter_congr
    intro c _
    simp only [attrFilterOk, Bool.and_true, Bool.and_assoc]
  | inc =>
    simp only [World.describe, World.corpusAppendClaims]
    cases h : w.pm .inc p with
    | none =>
      have he := w.pm_none .inc p (by decide) h
      exact ⟨[], by rw [he], by simp [SortedK], by simp [sortByDate, sortBy, foldVals, norm, normFrom]⟩
    | some pm =>
      obtain ⟨hi, hp⟩ := w.pm_inv .inc p pm h
      refine ⟨pm.claims, hp, hi.sorted, ?_⟩
      simp only
      rw [sortByDate_of_sorted _ (hi.sorted.filter _), key]
      congr 2
      apply List.filter_congr
      intro c _
      have : w.isDeleted .inc (.cl c.id) = w.idxIsDeleted (.cl c.id) :=
        isDeletedIn_congr (fun d => (w.mem_deletes .inc d).trans (w.mem_deletes .idx d).symm) _ _
      rw [this]
      simp only [attrFilterOk, Bool.and_true]
      cases signerOk (some s) c <;> cases w.idxIsDeleted (.cl c.id) <;> simp
  | load =>
    simp only [World.describe, World.corpusAppendClaims]
    cases h : w.pm .load p with
    | none =>
      have he := w.pm_none .load p (by decide) h
      exact ⟨[], by rw [he], by simp [SortedK], by simp [sortByDate, sortBy, foldVals, norm, normFrom]⟩
    | some pm =>
      obtain ⟨hi, hp⟩ := w.pm_inv .load p pm h
      refine ⟨pm.claims, hp, hi.sorted, ?_⟩
      simp only
      rw [sortByDate_of_sorted _ (hi.sorted.filter _), key]
      congr 2
      apply List.filter_congr
      intro c _
      have : w.isDeleted .load (.cl c.id) = w.idxIsDeleted (.cl c.id) :=
        isDeletedIn_congr (fun d => (w.mem_deletes .load d).trans (w.mem_deletes .idx d).symm) _ _
      rw [this]
      simp only [attrFilterOk, Bool.and_true]
      cases signerOk (some s) c <;> cases w.idxIsDeleted (.cl c.id) <;> simp

/-! ## the spec's side conditions -/

theorem counts_noDel (attr : Bytes) (t : Nat) (f : Option Nat) : Spec.counts noDel attr t f = rel attr t f := by
  funext c; simp [Spec.counts, rel, noDel]

theorem World.good_empty : World.empty.Good := ⟨fun c hc => (by cases hc), fun d hd => (by cases hd)⟩

theorem World.delWF (w : World) (hw : w.WF) (m : Mode) : DelWF (w.deletes m) refOrd w.fuel := by
  constructor
  · intro d hd
    exact (hw d ((w.mem_deletes m d).mp hd)).1
  · intro d hd
    have := (hw d ((w.mem_deletes m d).mp hd)).2
    simp only [refOrd, World.fuel]; omega

theorem isDeleted_bool_iff (ds : List Del) (P : Ref → Bool) :
    Spec.IsDeleted ds P ↔
      ∀ x, P x = (ds.filter (fun d => decide (d.target = x))).any (fun d => !P (.cl d.deleter)) := by
  unfold Spec.IsDeleted
  constructor
  · intro h x
    rw [Bool.eq_iff_iff, h x, List.any_eq_true]
    constructor
    · rintro ⟨d, hd, ht, hp⟩
      exact ⟨d, List.mem_filter.mpr ⟨hd, by simpa using ht⟩, by simp [hp]⟩
    · rintro ⟨d, hd, hp⟩
      rw [List.mem_filter] at hd
      exact ⟨d, hd.1, by simpa using hd.2, by simpa using hp⟩
  · intro h x
    rw [h x, List.any_eq_true]
    constructor
    · rintro ⟨d, hd, hp⟩
      rw [List.mem_filter] at hd
      exact ⟨d, hd.1, by simpa using hd.2, by simpa using hp⟩
    · rintro ⟨d, hd, ht, hp⟩
      exact ⟨d, List.mem_filter.mpr ⟨hd, by simpa using ht⟩, by simp [hp]⟩

end Pk.Attr
