import PkVerif.Lemmas.Encrypt
/-!
# The invariant of the encrypt store under every interleaving of its goroutines and crashes (C11)

`Step` is the small-step semantics: the ReceiveBlob in flight and every running packer advance one
micro-step at a time in any order, and the process may crash and restart at any point.  `Inv` is the
invariant; `inv_step` its preservation; the property theorems in `Props/C11.lean` are read off `Inv`.
-/
namespace Pk.Encrypt
open Pk Pk.SMap

/-- the order of ReceiveBlob's effects in the source -/
def goodR : List RStep := [.putBlobs, .putMeta, .record, .setIndex]
/-- the order of makePackedMetaBlob's effects in the source: upload, then record, then remove -/
def goodP : List PStep := [.upload, .record, .remove]

/-- the idealisations about hash and cipher the theorems are stated under: a collision-free digest
whose text is a well-formed ref, and ciphertexts that determine the randomness they were made with
(as an age file does: it carries its ephemeral share and nonce) -/
structure Ideal (P : Params) : Prop where
  digest_inj : ∀ a b, P.digest a = P.digest b → a = b
  nonce_visible : ∀ k r r' p p', P.A.enc k r p = P.A.enc k r' p' → r = r'
  ref_known : ∀ b, P.parseKnown (P.digest b) = true
  ref_valid : ∀ b, P.parseValid (P.digest b) = true
  ref_nosep : ∀ b, NoSep (P.digest b)

variable (P : Params)

/-! ## small-step semantics -/

/-- one step of the system.  `recvBegin` needs no ReceiveBlob in flight (one API caller); a restart
reads the meta blobs in any order that lists exactly the blobs present. -/
inductive Step (rsteps : List RStep) (psteps : List PStep) : St → St → Prop
  | recvBegin (s : St) (ref plain : Bytes) (s' : St) :
      s.recv = none → plain.length < 4294967296 → recvBegin P rsteps s ref plain = (s', none) →
      Step rsteps psteps s s'
  | recvStep (s : St) : s.recv ≠ none → s.failIndex = 0 → Step rsteps psteps s (recvStep P psteps s)
  | jobStep (s : St) (i : Nat) : Step rsteps psteps s (stepJob P psteps s i)
  | restart (s : St) (wipe : Bool) (order : List Bytes) :
      (∀ n, n ∈ order ↔ has s.metas n = true) →
      Step rsteps psteps s (restart P psteps wipe order s).1
  /-- the environment arms a transient fault: the b-th / m-th next write to `blobs` / `meta` will fail -/
  | arm (s : St) (b m : Nat) : Step rsteps psteps s { s with failBlobs := b, failMeta := m }

inductive Reach (rsteps : List RStep) (psteps : List PStep) : St → Prop
  | init : Reach rsteps psteps {}
  | step (s s' : St) : Reach rsteps psteps s → Step P rsteps psteps s s' → Reach rsteps psteps s'

/-! ## the invariant -/

/-- `n` names a ciphertext made with randomness already consumed -/
def Old (nonce : Nat) (n : Bytes) : Prop := ∃ r t, r < nonce ∧ n = P.digest (encryptBlob P r t)

/-- whatever meta blob is stored under `n`, its lines are about plains in `pl` -/
def Tracks (metas : SMap Bytes) (n : Bytes) (pl : List Bytes) : Prop :=
  ∀ c ls, get metas n = some c → linesOf P c = some ls → ∀ pv ∈ ls, pv.1 ∈ pl

def T (metas : SMap Bytes) (nonce : Nat) (n : Bytes) (pl : List Bytes) : Prop :=
  Old P nonce n ∧ Tracks P metas n pl

/-- a row `plain ref ↦ size/encref` that names a stored ciphertext of a blob with that ref and size -/
def RowOK (blobs : SMap Bytes) (pv : Bytes × Bytes) : Prop :=
  ∃ plain r, pv.1 = P.digest plain ∧ plain.length < 4294967296 ∧
    pv.2 = packIndexEntry plain.length (P.digest (encryptBlob P r plain)) ∧
    get blobs (P.digest (encryptBlob P r plain)) = some (encryptBlob P r plain)

/-- `n` may be removed by a packer that has already uploaded its replacement -/
def Unsafe (jobs : List Job) (n : Bytes) : Prop := ∃ j ∈ jobs, j.packed.isSome = true ∧ n ∈ j.toDelete

/-- the row of the ReceiveBlob in flight between its meta write and its index.Set -/
def Pending (recv : Option Recv) (pv : Bytes × Bytes) : Prop :=
  ∃ x, recv = some x ∧ x.metaBR.isSome = true ∧ RStep.setIndex ∈ x.rest ∧
    pv = (x.plainBR, packIndexEntry x.size x.encBR)

def JobOK (metas : SMap Bytes) (nonce : Nat) (j : Job) : Prop :=
  (∀ n ∈ j.toDelete, T P metas nonce n j.plains) ∧
  ((j.packed = none ∧ j.rest = goodP) ∨
   (∃ m, j.packed = some m ∧ T P metas nonce m j.plains ∧
      (j.rest = [.record, .remove] ∨ j.rest = [.remove] ∨ j.rest = [])))

def RecvOK (s : St) (x : Recv) : Prop :=
  (∃ plain r, x.plainBR = P.digest plain ∧ x.size = plain.length ∧ plain.length < 4294967296 ∧
      x.encBytes = encryptBlob P r plain ∧ x.encBR = P.digest x.encBytes) ∧
  (RStep.setIndex ∈ x.rest → get s.index x.plainBR = none) ∧
  (x.rest ≠ [] ∧ RStep.putBlobs ∉ x.rest → get s.blobs x.encBR = some x.encBytes) ∧
  ((x.metaBR = none ∧ (x.rest = goodR ∨ x.rest = [.putMeta, .record, .setIndex] ∨ x.rest = [])) ∨
   (∃ m, x.metaBR = some m ∧ Old P s.nonce m ∧
      (x.rest = [] ∨
       ((x.rest = [.record, .setIndex] ∨ x.rest = [.setIndex]) ∧
        ∃ c, get s.metas m = some c ∧
          linesOf P c = some [(x.plainBR, packIndexEntry x.size x.encBR)] ∧ ¬ Unsafe s.jobs m))))

structure Inv (s : St) : Prop where
  kI : KAsc s.index
  kM : KAsc s.metas
  kB : KAsc s.blobs
  dec : ∀ n c, get s.metas n = some c → n = P.digest c ∧ (∃ r t, r < s.nonce ∧ c = encryptBlob P r t) ∧
    ∃ ls, linesOf P c = some ls ∧ ∀ pv ∈ ls, RowOK P s.blobs pv
  lines : ∀ n c ls, get s.metas n = some c → linesOf P c = some ls →
    ∀ pv ∈ ls, get s.index pv.1 = some pv.2 ∨ Pending s.recv pv
  cov : ∀ p v, get s.index p = some v →
    ∃ n c ls, get s.metas n = some c ∧ linesOf P c = some ls ∧ (p, v) ∈ ls ∧ ¬ Unsafe s.jobs n
  heap : ∀ e ∈ s.heap, T P s.metas s.nonce e.br e.plains
  jobs : ∀ j ∈ s.jobs, JobOK P s.metas s.nonce j
  recv : ∀ x, s.recv = some x → RecvOK P s x

/-- the invariant does not look at the trace, the armed faults or the error flag -/
theorem Inv.frame {P : Params} {s : St} (h : Inv P s) (s' : St)
    (e : s'.index = s.index ∧ s'.blobs = s.blobs ∧ s'.metas = s.metas ∧ s'.heap = s.heap ∧
      s'.nonce = s.nonce ∧ s'.jobs = s.jobs ∧ s'.recv = s.recv) : Inv P s' := by
  obtain ⟨i, b, m, hp, n, j, r, t, fb, fm, fi, lf⟩ := s
  obtain ⟨i', b', m', hp', n', j', r', t', fb', fm', fi', lf'⟩ := s'
  simp only at e
  obtain ⟨e1, e2, e3, e4, e5, e6, e7⟩ := e
  subst e1; subst e2; subst e3; subst e4; subst e5; subst e6; subst e7
  exact ⟨h.kI, h.kM, h.kB, h.dec, h.lines, h.cov, h.heap, h.jobs, h.recv⟩

/-! ## frame lemmas -/

theorem Old.mono {n : Bytes} {a b : Nat} (h : Old P a n) (hab : a ≤ b) : Old P b n := by
  obtain ⟨r, t, hr, hn⟩ := h
  exact ⟨r, t, by omega, hn⟩

theorem T.mono_pl {metas : SMap Bytes} {nonce : Nat} (n : Bytes) (pl pl' : List Bytes)
    (h : T P metas nonce n pl) (hs : ∀ p ∈ pl, p ∈ pl') : T P metas nonce n pl' :=
  ⟨h.1, fun c ls hg hl pv hpv => hs _ (h.2 c ls hg hl pv hpv)⟩

variable {P}

/-- a name made with fresh randomness differs from every old name -/
theorem fresh_ne (I : Ideal P) {nonce : Nat} {n : Bytes} (h : Old P nonce n) (t : Bytes) :
    n ≠ P.digest (encryptBlob P nonce t) := by
  obtain ⟨r, t', hr, hn⟩ := h
  intro e
  rw [hn] at e
  have := I.digest_inj _ _ e
  simp only [encryptBlob, List.cons.injEq, true_and] at this
  have := I.nonce_visible _ _ _ _ _ this
  omega

/-- `T` survives the insertion of a freshly named meta blob and the consumption of randomness -/
theorem T.ins_fresh (I : Ideal P) {metas : SMap Bytes} {nonce : Nat} {n : Bytes} {pl : List Bytes}
    (h : T P metas nonce n pl) (t : Bytes) (c : Bytes) :
    T P (ins (P.digest (encryptBlob P nonce t)) c metas) (nonce + 1) n pl := by
  refine ⟨h.1.mono P (by omega), ?_⟩
  intro c' ls hg
  rw [get_ins] at hg
  simp only [fresh_ne I h.1 t, if_false] at hg
  exact h.2 c' ls hg

theorem T.nonce_succ {metas : SMap Bytes} {nonce : Nat} {n : Bytes} {pl : List Bytes}
    (h : T P metas nonce n pl) : T P metas (nonce + 1) n pl := ⟨h.1.mono P (by omega), h.2⟩

/-- removing names -/
def delAll (td : List Bytes) (m : SMap Bytes) : SMap Bytes := td.foldl (fun m n => del n m) m

theorem kasc_delAll (td : List Bytes) {m : SMap Bytes} (h : KAsc m) : KAsc (delAll td m) := by
  induction td generalizing m with
  | nil => exact h
  | cons n rest ih => exact ih (kasc_del n h)

theorem get_delAll (td : List Bytes) {m : SMap Bytes} (h : KAsc m) (x : Bytes) :
    get (delAll td m) x = if x ∈ td then none else get m x := by
  induction td generalizing m with
  | nil => simp [delAll]
  | cons n rest ih =>
    simp only [delAll, List.foldl_cons]
    have := ih (kasc_del n h)
    simp only [delAll] at this
    rw [this, get_del n h]
    by_cases h1 : x ∈ rest
    · simp [h1]
    · by_cases h2 : x = n
      · simp [h2]
      · simp [h1, h2]

theorem T.delAll {metas : SMap Bytes} (hk : KAsc metas) {nonce : Nat} {n : Bytes} {pl : List Bytes}
    (h : T P metas nonce n pl) (td : List Bytes) : T P (delAll td metas) nonce n pl := by
  refine ⟨h.1, ?_⟩
  intro c ls hg
  rw [get_delAll td hk] at hg
  split at hg
  · cases hg
  · exact h.2 c ls hg

theorem RowOK.ins (I : Ideal P) {blobs : SMap Bytes} {pv : Bytes × Bytes} (h : RowOK P blobs pv)
    (c : Bytes) : RowOK P (ins (P.digest c) c blobs) pv := by
  obtain ⟨plain, r, h1, h2, h3, h4⟩ := h
  refine ⟨plain, r, h1, h2, h3, ?_⟩
  rw [get_ins]
  split
  · rename_i e
    rw [I.digest_inj _ _ e]
  · exact h4

/-- rows are well-formed lines -/
theorem RowOK.good (I : Ideal P) {blobs : SMap Bytes} {pv : Bytes × Bytes} (h : RowOK P blobs pv) :
    GoodLine P pv := by
  obtain ⟨plain, r, h1, _, h3, _⟩ := h
  refine ⟨by rw [h1]; exact I.ref_known _, by rw [h1]; exact I.ref_nosep _, decEnc plain.length, _, h3, ?_,
    I.ref_nosep _⟩
  exact ⟨decEnc_no 47 (by decide) _, decEnc_no 10 (by decide) _⟩

end Pk.Encrypt

namespace Pk.Encrypt
open Pk Pk.SMap
variable {P : Params}

/-! ## the invariant only looks at the set of running packers -/

theorem Unsafe.sub {J J' : List Job} (h : ∀ x ∈ J', x ∈ J) {n : Bytes} (hu : Unsafe J' n) : Unsafe J n := by
  obtain ⟨j, hj, h1, h2⟩ := hu
  exact ⟨j, h j hj, h1, h2⟩

theorem RecvOK.frame {s s' : St} {x : Recv} (h : RecvOK P s x)
    (hi : s'.index = s.index) (hb : s'.blobs = s.blobs) (hm : s'.metas = s.metas) (hn : s.nonce ≤ s'.nonce)
    (hj : ∀ n, Unsafe s'.jobs n → Unsafe s.jobs n) : RecvOK P s' x := by
  obtain ⟨h1, h2, h3, h4⟩ := h
  refine ⟨h1, by rw [hi]; exact h2, by rw [hb]; exact h3, ?_⟩
  rcases h4 with h4 | ⟨m, hm1, hm2, hm3⟩
  · exact Or.inl h4
  · refine Or.inr ⟨m, hm1, hm2.mono P hn, ?_⟩
    rcases hm3 with hm3 | ⟨hr, c, hc1, hc2, hc3⟩
    · exact Or.inl hm3
    · exact Or.inr ⟨hr, c, by rw [hm]; exact hc1, hc2, fun hu => hc3 (hj m hu)⟩

/-- fewer packers (one ended, or the process died) -/
theorem Inv.subjobs {s : St} (h : Inv P s) (R : List Job) (hR : ∀ x ∈ R, x ∈ s.jobs) :
    Inv P { s with jobs := R } where
  kI := h.kI
  kM := h.kM
  kB := h.kB
  dec := h.dec
  lines := h.lines
  cov := by
    intro p v hg
    obtain ⟨n, c, ls, h1, h2, h3, h4⟩ := h.cov p v hg
    exact ⟨n, c, ls, h1, h2, h3, fun hu => h4 (hu.sub hR)⟩
  heap := h.heap
  jobs := fun j hj => h.jobs j (hR j hj)
  recv := fun x hx => (h.recv x hx).frame rfl rfl rfl (Nat.le_refl _) (fun n hu => hu.sub hR)

/-- `St.record`: the heap and the new packers keep `T`; nothing else changes -/
theorem Inv.record {s : St} (h : Inv P s) (b : MetaBlob) (hb : T P s.metas s.nonce b.br b.plains) :
    Inv P (St.record P goodP s b) := by
  obtain ⟨r1, r2⟩ := recordMeta_inv P (T P s.metas s.nonce) (fun n pl pl' => T.mono_pl P n pl pl') s.heap b h.heap hb
  unfold St.record
  generalize recordMeta P s.heap b = res at r1 r2
  obtain ⟨hp, js⟩ := res
  simp only at r1 r2
  show Inv P { s with heap := hp, jobs := s.jobs ++ mkJobs goodP js }
  have hun : ∀ n, Unsafe (s.jobs ++ mkJobs goodP js) n → Unsafe s.jobs n := by
    intro n ⟨j, hj, h1, h2⟩
    rcases List.mem_append.mp hj with hj | hj
    · exact ⟨j, hj, h1, h2⟩
    · simp only [mkJobs, List.mem_map] at hj
      obtain ⟨x, _, hx⟩ := hj
      subst hx
      simp at h1
  exact {
    kI := h.kI, kM := h.kM, kB := h.kB, dec := h.dec, lines := h.lines
    cov := by
      intro p v hg
      obtain ⟨n, c, ls, h1, h2, h3, h4⟩ := h.cov p v hg
      exact ⟨n, c, ls, h1, h2, h3, fun hu => h4 (hun n hu)⟩
    heap := r1
    jobs := by
      intro j hj
      rcases List.mem_append.mp hj with hj | hj
      · exact h.jobs j hj
      · simp only [mkJobs, List.mem_map] at hj
        obtain ⟨x, hx, hjx⟩ := hj
        subst hjx
        exact ⟨r2 x hx, Or.inl ⟨rfl, rfl⟩⟩
    recv := fun x hx => (h.recv x hx).frame rfl rfl rfl (Nat.le_refl _) hun }

/-! ## packer steps -/

theorem packedLines_spec (idx : SMap Bytes) (l : List Bytes) (ls : List (Bytes × Bytes))
    (h : packedLines idx l = some ls) : ls.map (·.1) = l ∧ ∀ pv ∈ ls, get idx pv.1 = some pv.2 := by
  induction l generalizing ls with
  | nil => simp [packedLines] at h; subst h; simp
  | cons p ps ih =>
    simp only [packedLines] at h
    cases hg : get idx p with
    | none => simp [hg] at h
    | some v =>
      cases hr : packedLines idx ps with
      | none => simp [hg, hr] at h
      | some r =>
        simp only [hg, hr] at h
        injection h with h; subst h
        obtain ⟨i1, i2⟩ := ih r hr
        refine ⟨by simp [i1], ?_⟩
        intro pv hpv
        rcases List.mem_cons.mp hpv with e | e
        · subst e; exact hg
        · exact i2 pv e

theorem mem_mergeRefs (fuel : Nat) (xs ys : List Bytes) (p : Bytes) :
    p ∈ mergeRefs fuel xs ys ↔ p ∈ xs ∨ p ∈ ys := by
  induction fuel generalizing xs ys with
  | zero => simp [mergeRefs]
  | succ f ih =>
    cases xs with
    | nil => simp [mergeRefs]
    | cons x xs =>
      cases ys with
      | nil => simp [mergeRefs]
      | cons y ys =>
        simp only [mergeRefs]
        split
        · rw [List.mem_cons, ih, List.mem_cons, List.mem_cons]
          constructor
          · rintro (h | (h | h) | h)
            · exact Or.inr (Or.inl h)
            · exact Or.inl (Or.inl h)
            · exact Or.inl (Or.inr h)
            · exact Or.inr (Or.inr h)
          · rintro ((h | h) | h | h)
            · exact Or.inr (Or.inl (Or.inl h))
            · exact Or.inr (Or.inl (Or.inr h))
            · exact Or.inl h
            · exact Or.inr (Or.inr h)
        · rw [List.mem_cons, ih, List.mem_cons, List.mem_cons]
          constructor
          · rintro (h | h | h | h)
            · exact Or.inl (Or.inl h)
            · exact Or.inl (Or.inr h)
            · exact Or.inr (Or.inl h)
            · exact Or.inr (Or.inr h)
          · rintro ((h | h) | h | h)
            · exact Or.inl h
            · exact Or.inr (Or.inl h)
            · exact Or.inr (Or.inr (Or.inl h))
            · exact Or.inr (Or.inr (Or.inr h))

theorem mem_msortRefs (fuel : Nat) (l : List Bytes) (p : Bytes) : p ∈ msortRefs fuel l ↔ p ∈ l := by
  induction fuel generalizing l with
  | zero => simp [msortRefs]
  | succ f ih =>
    simp only [msortRefs]
    split
    · exact Iff.rfl
    · rw [mem_mergeRefs, ih, ih]
      have := List.take_append_drop (l.length / 2) l
      constructor
      · rintro (h | h)
        · exact List.mem_of_mem_take h
        · exact List.mem_of_mem_drop h
      · intro h
        rw [← this] at h
        exact List.mem_append.mp h

theorem mem_sortRefs (l : List Bytes) (p : Bytes) : p ∈ sortRefs l ↔ p ∈ l := mem_msortRefs _ l p

end Pk.Encrypt

namespace Pk.Encrypt
open Pk Pk.SMap
variable {P : Params}

/-- index rows are rows of stored meta blobs, hence well-formed -/
theorem Inv.row_ok {s : St} (h : Inv P s) {p v : Bytes} (hg : get s.index p = some v) : RowOK P s.blobs (p, v) := by
  obtain ⟨n, c, ls, h1, h2, h3, _⟩ := h.cov p v hg
  obtain ⟨_, _, ls', hl, hr⟩ := h.dec n c h1
  rw [h2] at hl
  injection hl with hl
  subst hl
  exact hr _ h3

/-- the upload step of a packer -/
theorem inv_upload (I : Ideal P) {s : St} (h : Inv P s) (j : Job) (hj : j ∈ s.jobs)
    (R : List Job) (hR : ∀ x ∈ R, x ∈ s.jobs) (hfresh : j.packed = none)
    (ls : List (Bytes × Bytes)) (hls : packedLines s.index (sortRefs j.plains) = some ls) (tr : List Call)
    (rest : List PStep) (hrest : rest = [.record, .remove] ∨ rest = [.remove] ∨ rest = []) :
    Inv P { s with
      metas := ins (P.digest (encryptBlob P s.nonce (fmtMeta ls))) (encryptBlob P s.nonce (fmtMeta ls)) s.metas,
      nonce := s.nonce + 1, trace := tr,
      jobs := { j with packed := some (P.digest (encryptBlob P s.nonce (fmtMeta ls))), rest := rest } :: R } := by
  obtain ⟨hmap, hget⟩ := packedLines_spec _ _ _ hls
  have hjok := h.jobs j hj
  have hrow : ∀ pv ∈ ls, RowOK P s.blobs pv := fun pv hpv => h.row_ok (hget pv hpv)
  have hlines : linesOf P (encryptBlob P s.nonce (fmtMeta ls)) = some ls :=
    linesOf_encrypt P _ ls (fun pv hpv => (hrow pv hpv).good I)
  generalize hm : P.digest (encryptBlob P s.nonce (fmtMeta ls)) = m at *
  generalize henc : encryptBlob P s.nonce (fmtMeta ls) = enc at *
  have hmfresh : ∀ n, Old P s.nonce n → n ≠ m := by
    intro n ho; rw [← hm, ← henc]; exact fresh_ne I ho _
  have hmeta_old : ∀ n c, get s.metas n = some c → n ≠ m := by
    intro n c hg
    obtain ⟨hn, ⟨r, t, hr, hc⟩, _⟩ := h.dec n c hg
    exact hmfresh n ⟨r, t, hr, by rw [hn, hc]⟩
  have hplains : ∀ pv ∈ ls, pv.1 ∈ j.plains := by
    intro pv hpv
    have : pv.1 ∈ ls.map (·.1) := List.mem_map_of_mem hpv
    rw [hmap] at this
    exact (mem_sortRefs _ _).mp this
  -- unsafe names of the new state
  have hun : ∀ n, Unsafe ({ j with packed := some m, rest := rest } :: R) n → Unsafe s.jobs n ∨ n ∈ j.toDelete := by
    intro n ⟨x, hx, h1, h2⟩
    rcases List.mem_cons.mp hx with e | e
    · subst e; exact Or.inr h2
    · exact Or.inl ⟨x, hR x e, h1, h2⟩
  have hTfr : ∀ n pl, T P s.metas s.nonce n pl → T P (ins m enc s.metas) (s.nonce + 1) n pl := by
    intro n pl ht
    have := ht.ins_fresh I (fmtMeta ls) enc
    rw [henc, hm] at this
    exact this
  exact {
    kI := h.kI
    kM := kasc_ins _ _ h.kM
    kB := h.kB
    dec := by
      intro n c hg
      rw [get_ins] at hg
      by_cases hn : n = m
      · simp only [hn, if_true] at hg
        injection hg with hg
        subst hg
        exact ⟨by rw [hn, hm], ⟨s.nonce, fmtMeta ls, Nat.lt_succ_self _, henc.symm⟩, ls, hlines, hrow⟩
      · simp only [hn, if_false] at hg
        obtain ⟨d1, ⟨r, t, hr, hc⟩, d3⟩ := h.dec n c hg
        exact ⟨d1, ⟨r, t, Nat.lt_succ_of_lt hr, hc⟩, d3⟩
    lines := by
      intro n c ls' hg hl pv hpv
      rw [get_ins] at hg
      by_cases hn : n = m
      · simp only [hn, if_true] at hg
        injection hg with hg
        subst hg
        rw [hlines] at hl
        injection hl with hl
        subst hl
        exact Or.inl (hget pv hpv)
      · simp only [hn, if_false] at hg
        exact h.lines n c ls' hg hl pv hpv
    cov := by
      intro p v hg
      obtain ⟨n, c, ls', h1, h2, h3, h4⟩ := h.cov p v hg
      by_cases hnd : n ∈ j.toDelete
      · -- the packed blob takes over
        have hp : p ∈ j.plains := ((hjok.1 n hnd).2 c ls' h1 h2 (p, v) h3)
        have hp' : p ∈ ls.map (·.1) := by rw [hmap]; exact (mem_sortRefs _ _).mpr hp
        obtain ⟨pv, hpv, hpe⟩ := List.mem_map.mp hp'
        have hv := hget pv hpv
        rw [hpe, hg] at hv
        injection hv with hv
        have hpv' : (p, v) ∈ ls := by
          have : pv = (p, v) := by cases pv; simp_all
          rw [← this]; exact hpv
        refine ⟨m, enc, ls, by rw [get_ins]; simp, hlines, hpv', ?_⟩
        intro hu
        rcases hun m hu with ⟨x, hx, _, hx2⟩ | hx
        · exact hmfresh m ((h.jobs x hx).1 m hx2).1 rfl
        · exact hmfresh m ((hjok.1 m hx).1) rfl
      · refine ⟨n, c, ls', by rw [get_ins]; simp [hmeta_old n c h1, h1], h2, h3, ?_⟩
        intro hu
        rcases hun n hu with hu | hu
        · exact h4 hu
        · exact hnd hu
    heap := fun e he => hTfr _ _ (h.heap e he)
    jobs := by
      intro x hx
      rcases List.mem_cons.mp hx with e | e
      · subst e
        refine ⟨fun n hn => hTfr _ _ (hjok.1 n hn), Or.inr ⟨m, rfl, ⟨⟨s.nonce, fmtMeta ls, Nat.lt_succ_self _, by rw [← hm, henc]⟩, ?_⟩, hrest⟩⟩
        intro c ls' hg hl pv hpv
        rw [get_ins] at hg
        simp only [if_true] at hg
        injection hg with hg
        subst hg
        rw [hlines] at hl
        injection hl with hl
        subst hl
        exact hplains pv hpv
      · obtain ⟨j1, j2⟩ := h.jobs x (hR x e)
        refine ⟨fun n hn => hTfr _ _ (j1 n hn), ?_⟩
        rcases j2 with j2 | ⟨m', hm1, hm2, hm3⟩
        · exact Or.inl j2
        · exact Or.inr ⟨m', hm1, hTfr _ _ hm2, hm3⟩
    recv := by
      intro x hx
      obtain ⟨r1, r2, r3, r4⟩ := h.recv x hx
      refine ⟨r1, r2, r3, ?_⟩
      rcases r4 with r4 | ⟨mx, hm1, hm2, hm3⟩
      · exact Or.inl r4
      · refine Or.inr ⟨mx, hm1, hm2.mono P (Nat.le_succ _), ?_⟩
        rcases hm3 with hm3 | ⟨hr, c, hc1, hc2, hc3⟩
        · exact Or.inl hm3
        · refine Or.inr ⟨hr, c, by rw [get_ins]; simp [hmfresh mx hm2, hc1], hc2, ?_⟩
          intro hu
          rcases hun mx hu with hu | hu
          · exact hc3 hu
          · -- the packer would have needed the index row that is not set yet
            have hp : x.plainBR ∈ j.plains := (hjok.1 mx hu).2 c _ hc1 hc2 (x.plainBR, packIndexEntry x.size x.encBR) (List.mem_singleton.mpr rfl)
            have hp' : x.plainBR ∈ ls.map (·.1) := by rw [hmap]; exact (mem_sortRefs _ _).mpr hp
            obtain ⟨pv, hpv, hpe⟩ := List.mem_map.mp hp'
            have hv := hget pv hpv
            have hnone := r2 (by rcases hr with hr | hr <;> simp [hr])
            rw [hpe, hnone] at hv
            cases hv }

end Pk.Encrypt

namespace Pk.Encrypt
open Pk Pk.SMap
variable {P : Params}

/-- the remove step of a packer that has uploaded: nothing anybody relies on is among its `toDelete` -/
theorem inv_remove {s : St} (h : Inv P s) (j : Job) (hj : j ∈ s.jobs)
    (R : List Job) (hR : ∀ x ∈ R, x ∈ s.jobs) (hup : j.packed.isSome = true) (tr : List Call)
    (j' : Job) (hj' : j'.plains = j.plains ∧ j'.toDelete = j.toDelete ∧ j'.packed = j.packed ∧ j'.rest = []) :
    Inv P { s with metas := delAll j.toDelete s.metas, trace := tr, jobs := j' :: R } := by
  have hjok := h.jobs j hj
  have hun : ∀ n, Unsafe (j' :: R) n → Unsafe s.jobs n := by
    intro n ⟨x, hx, h1, h2⟩
    rcases List.mem_cons.mp hx with e | e
    · subst e
      exact ⟨j, hj, by rw [← hj'.2.2.1]; exact h1, by rw [← hj'.2.1]; exact h2⟩
    · exact ⟨x, hR x e, h1, h2⟩
  have hkeep : ∀ n, ¬ Unsafe s.jobs n → get (delAll j.toDelete s.metas) n = get s.metas n := by
    intro n hn
    rw [get_delAll _ h.kM]
    split
    · rename_i hm; exact absurd ⟨j, hj, hup, hm⟩ hn
    · rfl
  have hsub : ∀ n c, get (delAll j.toDelete s.metas) n = some c → get s.metas n = some c := by
    intro n c hg
    rw [get_delAll _ h.kM] at hg
    split at hg
    · cases hg
    · exact hg
  exact {
    kI := h.kI
    kM := kasc_delAll _ h.kM
    kB := h.kB
    dec := fun n c hg => h.dec n c (hsub n c hg)
    lines := fun n c ls hg hl => h.lines n c ls (hsub n c hg) hl
    cov := by
      intro p v hg
      obtain ⟨n, c, ls, h1, h2, h3, h4⟩ := h.cov p v hg
      exact ⟨n, c, ls, by rw [hkeep n h4]; exact h1, h2, h3, fun hu => h4 (hun n hu)⟩
    heap := fun e he => (h.heap e he).delAll h.kM _
    jobs := by
      intro x hx
      rcases List.mem_cons.mp hx with e | e
      · subst e
        obtain ⟨j1, j2⟩ := hjok
        refine ⟨by rw [hj'.1, hj'.2.1]; exact fun n hn => (j1 n hn).delAll h.kM _, ?_⟩
        rcases j2 with j2 | ⟨m, hm1, hm2, _⟩
        · rw [j2.1] at hup; cases hup
        · exact Or.inr ⟨m, by rw [hj'.2.2.1]; exact hm1, by rw [hj'.1]; exact hm2.delAll h.kM _, Or.inr (Or.inr hj'.2.2.2)⟩
      · obtain ⟨j1, j2⟩ := h.jobs x (hR x e)
        refine ⟨fun n hn => (j1 n hn).delAll h.kM _, ?_⟩
        rcases j2 with j2 | ⟨m', hm1, hm2, hm3⟩
        · exact Or.inl j2
        · exact Or.inr ⟨m', hm1, hm2.delAll h.kM _, hm3⟩
    recv := by
      intro x hx
      obtain ⟨r1, r2, r3, r4⟩ := h.recv x hx
      refine ⟨r1, r2, r3, ?_⟩
      rcases r4 with r4 | ⟨mx, hm1, hm2, hm3⟩
      · exact Or.inl r4
      · refine Or.inr ⟨mx, hm1, hm2, ?_⟩
        rcases hm3 with hm3 | ⟨hr, c, hc1, hc2, hc3⟩
        · exact Or.inl hm3
        · exact Or.inr ⟨hr, c, by rw [hkeep mx hc3]; exact hc1, hc2, fun hu => hc3 (hun mx hu)⟩ }

/-- replacing a packer by one that differs only in its remaining program -/
theorem Inv.rejob {s : St} (h : Inv P s) (j : Job) (hj : j ∈ s.jobs) (R : List Job) (hR : ∀ x ∈ R, x ∈ s.jobs)
    (j' : Job) (hj' : j'.plains = j.plains ∧ j'.toDelete = j.toDelete ∧ j'.packed = j.packed)
    (hshape : ∀ m, j.packed = some m → (j'.rest = [.record, .remove] ∨ j'.rest = [.remove] ∨ j'.rest = []))
    (hshape0 : j.packed = none → j'.rest = goodP) :
    Inv P { s with jobs := j' :: R } := by
  have hun : ∀ n, Unsafe (j' :: R) n → Unsafe s.jobs n := by
    intro n ⟨x, hx, h1, h2⟩
    rcases List.mem_cons.mp hx with e | e
    · subst e
      exact ⟨j, hj, by rw [← hj'.2.2]; exact h1, by rw [← hj'.2.1]; exact h2⟩
    · exact ⟨x, hR x e, h1, h2⟩
  exact {
    kI := h.kI, kM := h.kM, kB := h.kB, dec := h.dec, lines := h.lines
    cov := by
      intro p v hg
      obtain ⟨n, c, ls, h1, h2, h3, h4⟩ := h.cov p v hg
      exact ⟨n, c, ls, h1, h2, h3, fun hu => h4 (hun n hu)⟩
    heap := h.heap
    jobs := by
      intro x hx
      rcases List.mem_cons.mp hx with e | e
      · subst e
        obtain ⟨j1, j2⟩ := h.jobs j hj
        refine ⟨by rw [hj'.1, hj'.2.1]; exact j1, ?_⟩
        rcases j2 with j2 | ⟨m, hm1, hm2, _⟩
        · exact Or.inl ⟨by rw [hj'.2.2]; exact j2.1, hshape0 j2.1⟩
        · exact Or.inr ⟨m, by rw [hj'.2.2]; exact hm1, by rw [hj'.1]; exact hm2, hshape m hm1⟩
      · exact h.jobs x (hR x e)
    recv := fun x hx => (h.recv x hx).frame rfl rfl rfl (Nat.le_refl _) hun }

/-- the invariant depends on the packers only as a set -/
theorem Inv.congr_jobs {s : St} (h : Inv P s) (J : List Job) (hJ : ∀ x, x ∈ J ↔ x ∈ s.jobs) :
    Inv P { s with jobs := J } := by
  have hun : ∀ n, Unsafe J n → Unsafe s.jobs n := fun n hu => hu.sub (fun x hx => (hJ x).mp hx)
  exact {
    kI := h.kI, kM := h.kM, kB := h.kB, dec := h.dec, lines := h.lines
    cov := by
      intro p v hg
      obtain ⟨n, c, ls, h1, h2, h3, h4⟩ := h.cov p v hg
      exact ⟨n, c, ls, h1, h2, h3, fun hu => h4 (hun n hu)⟩
    heap := h.heap
    jobs := fun x hx => h.jobs x ((hJ x).mp hx)
    recv := fun x hx => (h.recv x hx).frame rfl rfl rfl (Nat.le_refl _) hun }

end Pk.Encrypt

namespace Pk.Encrypt
open Pk Pk.SMap
variable {P : Params}

theorem mem_reinsert {α : Type} (l : List α) (i : Nat) (a x : α) :
    x ∈ l.take i ++ a :: l.drop i ↔ x ∈ a :: l := by
  constructor
  · intro h
    rcases List.mem_append.mp h with h | h
    · exact List.mem_cons_of_mem _ (List.mem_of_mem_take h)
    · rcases List.mem_cons.mp h with h | h
      · simp [h]
      · exact List.mem_cons_of_mem _ (List.mem_of_mem_drop h)
  · intro h
    rcases List.mem_cons.mp h with h | h
    · simp [h]
    · have := List.take_append_drop i l
      rw [← this] at h
      rcases List.mem_append.mp h with h | h <;> simp [h]

/-- any micro-step of any packer keeps the invariant -/
theorem inv_stepJob (I : Ideal P) {s : St} (h : Inv P s) (i : Nat) : Inv P (stepJob P goodP s i) := by
  unfold stepJob
  cases hji : s.jobs[i]? with
  | none => exact h
  | some j =>
    have hj : j ∈ s.jobs := List.mem_of_getElem? hji
    have hR : ∀ x ∈ s.jobs.eraseIdx i, x ∈ s.jobs := fun x hx => List.mem_of_mem_eraseIdx hx
    obtain ⟨j1, j2⟩ := h.jobs j hj
    rcases j2 with ⟨hp, hr⟩ | ⟨m, hm1, hm2, hr⟩
    · -- not uploaded yet: the upload step (or the packer gives up)
      simp only [jobStep, hr, goodP]
      cases hls : packedLines s.index (sortRefs j.plains) with
      | none => exact h.subjobs _ hR
      | some ls =>
        by_cases hf : s.failMeta = 1
        · -- the upload fails: the goroutine gives up
          simp only [hf, if_true]
          exact (h.subjobs _ hR).frame _ ⟨rfl, rfl, rfl, rfl, rfl, rfl, rfl⟩
        · simp only [hf, if_false]
          have A := inv_upload I h j hj _ hR hp ls hls
            (.putMeta (P.digest (encryptBlob P s.nonce (fmtMeta ls))) (encryptBlob P s.nonce (fmtMeta ls)) :: s.trace)
            [.record, .remove] (Or.inl rfl)
          exact (A.congr_jobs _ (fun x => mem_reinsert _ i _ x)).frame _ ⟨rfl, rfl, rfl, rfl, rfl, rfl, rfl⟩
    · rcases hr with hr | hr | hr
      · -- record
        simp only [jobStep, hr, hm1]
        have A := h.rejob j hj _ hR ⟨j.plains, j.toDelete, some m, [.remove]⟩ ⟨rfl, rfl, hm1.symm⟩
          (fun _ _ => Or.inr (Or.inl rfl)) (fun h0 => by rw [hm1] at h0; cases h0)
        by_cases hfull : j.plains.length < P.full
        · simp only [hfull, if_true]
          have B := A.record ⟨m, j.plains⟩ hm2
          exact B.congr_jobs _ (fun x => by
            rw [mem_reinsert]
            simp only [St.record, List.cons_append])
        · simp only [hfull, if_false]
          exact A.congr_jobs _ (fun x => mem_reinsert _ i _ x)
      · -- remove
        simp only [jobStep, hr]
        have A := inv_remove h j hj _ hR (by rw [hm1]; rfl) (.rmMeta j.toDelete :: s.trace)
          { j with rest := [] } ⟨rfl, rfl, rfl, rfl⟩
        exact A.congr_jobs _ (fun x => mem_reinsert _ i _ x)
      · -- the goroutine returns
        simp only [jobStep, hr]
        exact h.subjobs _ hR

end Pk.Encrypt

namespace Pk.Encrypt
open Pk Pk.SMap
variable {P : Params}

/-! ## ReceiveBlob steps -/

theorem unpack_pack (I : Ideal P) (n : Nat) (hn : n < 4294967296) (c : Bytes) :
    unpackIndexEntry P (packIndexEntry n (P.digest c)) = some (n, P.digest c) := by
  unfold unpackIndexEntry packIndexEntry
  rw [splitOn_append 47 _ _ (decEnc_no 47 (by decide) n), splitOn_nosep 47 _ (I.ref_nosep c).1]
  simp [parseUint32_decEnc n hn, I.ref_valid c]

theorem fetchMeta_row (I : Ideal P) {s : St} (h : Inv P s) {p v : Bytes} (hg : get s.index p = some v) :
    ∃ plain r, p = P.digest plain ∧ plain.length < 4294967296 ∧
      get s.blobs (P.digest (encryptBlob P r plain)) = some (encryptBlob P r plain) ∧
      fetchMeta P s.index p = .ok plain.length (P.digest (encryptBlob P r plain)) := by
  obtain ⟨plain, r, h1, h2, h3, h4⟩ := h.row_ok hg
  refine ⟨plain, r, h1, h2, h4, ?_⟩
  simp only at h1 h3
  simp only [fetchMeta, hg, h3, unpack_pack I _ h2]

theorem pending_none {pv : Bytes × Bytes} : ¬ Pending none pv := by
  intro ⟨x, hx, _⟩; cases hx

theorem inv_recvBegin (I : Ideal P) {s s' : St} (h : Inv P s) (ref plain : Bytes)
    (h0 : s.recv = none) (hlen : plain.length < 4294967296)
    (hb : recvBegin P goodR s ref plain = (s', none)) : Inv P s' := by
  unfold recvBegin at hb
  have hnone : get s.index ref = none := by
    cases hg : get s.index ref with
    | none => rfl
    | some v =>
      obtain ⟨pl, r, _, _, _, hf⟩ := fetchMeta_row I h hg
      simp [hf] at hb
  have hfm : fetchMeta P s.index ref = .notExist := by simp [fetchMeta, hnone]
  simp only [hfm] at hb
  split at hb
  · cases hb
  · rename_i hd
    simp only [ne_eq, Decidable.not_not] at hd
    injection hb with hb _
    subst hb
    exact {
      kI := h.kI, kM := h.kM, kB := h.kB
      dec := by
        intro n c hg
        obtain ⟨d1, ⟨r, t, hr, hc⟩, d3⟩ := h.dec n c hg
        exact ⟨d1, ⟨r, t, Nat.lt_succ_of_lt hr, hc⟩, d3⟩
      lines := by
        intro n c ls hg hl pv hpv
        rcases h.lines n c ls hg hl pv hpv with e | e
        · exact Or.inl e
        · rw [h0] at e; exact absurd e pending_none
      cov := h.cov
      heap := fun e he => (h.heap e he).nonce_succ
      jobs := by
        intro j hj
        obtain ⟨j1, j2⟩ := h.jobs j hj
        refine ⟨fun n hn => (j1 n hn).nonce_succ, ?_⟩
        rcases j2 with j2 | ⟨m, hm1, hm2, hm3⟩
        · exact Or.inl j2
        · exact Or.inr ⟨m, hm1, hm2.nonce_succ, hm3⟩
      recv := by
        intro x hx
        injection hx with hx
        subst hx
        exact ⟨⟨plain, s.nonce, hd.symm, rfl, hlen, rfl, rfl⟩, fun _ => hnone,
          fun hn => absurd (show RStep.putBlobs ∈ goodR by simp [goodR]) hn.2, Or.inl ⟨rfl, Or.inl rfl⟩⟩ }

end Pk.Encrypt

namespace Pk.Encrypt
open Pk Pk.SMap
variable {P : Params}

/-- a write to a wrapped store fails before the meta blob exists: ReceiveBlob is about to return the
error; nothing it has done so far is relied upon -/
theorem Inv.failed {s : St} (h : Inv P s) (x : Recv) (hx : s.recv = some x) (hm : x.metaBR = none) :
    Inv P { s with recv := some { x with rest := [] } } := by
  obtain ⟨r1, _, _, _⟩ := h.recv x hx
  exact {
    kI := h.kI, kM := h.kM, kB := h.kB, dec := h.dec
    lines := by
      intro n c ls hg hl pv hpv
      rcases h.lines n c ls hg hl pv hpv with e | e
      · exact Or.inl e
      · obtain ⟨y, hy, hy2, _⟩ := e
        rw [hx] at hy; injection hy with hy; subst hy
        rw [hm] at hy2; cases hy2
    cov := h.cov, heap := h.heap, jobs := h.jobs
    recv := by
      intro y hy
      injection hy with hy
      subst hy
      exact ⟨r1, fun hn => by simp at hn, fun hn => absurd rfl hn.1, Or.inl ⟨hm, Or.inr (Or.inr rfl)⟩⟩ }

theorem inv_recvStep (I : Ideal P) {s : St} (h : Inv P s) (hfi : s.failIndex = 0) :
    Inv P (recvStep P goodP s) := by
  unfold recvStep
  cases hx : s.recv with
  | none => exact h
  | some x =>
    obtain ⟨⟨plain, r, x1, x2, x3, x4, x5⟩, r2, r3, r4⟩ := h.recv x hx
    have nopend : x.metaBR = none → ∀ pv, ¬ Pending s.recv pv := by
      intro hm pv ⟨y, hy, hy2, _⟩
      rw [hx] at hy; injection hy with hy; subst hy
      rw [hm] at hy2; cases hy2
    rcases r4 with ⟨hm, hr | hr | hr⟩ | ⟨m, hm, hold, hr⟩
    · -- putBlobs
      simp only [hr, goodR]
      by_cases hf : s.failBlobs = 1
      · simp only [hf, if_true]
        exact (h.failed x hx hm).frame _ ⟨rfl, rfl, rfl, rfl, rfl, rfl, rfl⟩
      simp only [hf, if_false]
      have e : x.encBR = P.digest x.encBytes := x5
      exact {
        kI := h.kI, kM := h.kM, kB := kasc_ins _ _ h.kB
        dec := by
          intro n c hg
          obtain ⟨d1, d2, ls, d3, d4⟩ := h.dec n c hg
          exact ⟨d1, d2, ls, d3, fun pv hpv => by rw [e]; exact (d4 pv hpv).ins I _⟩
        lines := by
          intro n c ls hg hl pv hpv
          rcases h.lines n c ls hg hl pv hpv with e | e
          · exact Or.inl e
          · exact absurd e (nopend hm pv)
        cov := h.cov, heap := h.heap, jobs := h.jobs
        recv := by
          intro y hy
          injection hy with hy
          subst hy
          refine ⟨⟨plain, r, x1, x2, x3, x4, x5⟩, fun _ => r2 (by simp [hr, goodR]), fun _ => ?_,
            Or.inl ⟨hm, Or.inr (Or.inl rfl)⟩⟩
          show get (ins x.encBR x.encBytes s.blobs) x.encBR = some x.encBytes
          rw [get_ins]; simp }
    · -- putMeta
      simp only [hr]
      by_cases hf : s.failMeta = 1
      · simp only [hf, if_true]
        exact (h.failed x hx hm).frame _ ⟨rfl, rfl, rfl, rfl, rfl, rfl, rfl⟩
      simp only [hf, if_false]
      have hblob := r3 (by simp [hr])
      generalize hc : makeSingleMetaBlob P s.nonce x.plainBR x.encBR x.size = c
      generalize hmm : P.digest c = m
      have hrow : RowOK P s.blobs (x.plainBR, packIndexEntry x.size x.encBR) :=
        ⟨plain, r, x1, x3, by simp only [x2, x5, x4], by rw [← x4, ← x5]; exact hblob⟩
      have hlines : linesOf P c = some [(x.plainBR, packIndexEntry x.size x.encBR)] := by
        rw [← hc]
        exact linesOf_encrypt P _ _ (fun pv hpv => by
          rw [List.mem_singleton] at hpv; subst hpv; exact hrow.good I)
      have hmfresh : ∀ n, Old P s.nonce n → n ≠ m := by
        intro n ho; rw [← hmm, ← hc]; exact fresh_ne I ho _
      have hmeta_old : ∀ n c', get s.metas n = some c' → n ≠ m := by
        intro n c' hg
        obtain ⟨hn, ⟨r', t, hr', hc'⟩, _⟩ := h.dec n c' hg
        exact hmfresh n ⟨r', t, hr', by rw [hn, hc']⟩
      have hTfr : ∀ n pl, T P s.metas s.nonce n pl → T P (ins m c s.metas) (s.nonce + 1) n pl := by
        intro n pl ht
        have := ht.ins_fresh I (fmtMeta [(x.plainBR, packIndexEntry x.size x.encBR)]) c
        have e : encryptBlob P s.nonce (fmtMeta [(x.plainBR, packIndexEntry x.size x.encBR)]) = c := hc
        rw [e, hmm] at this
        exact this
      exact {
        kI := h.kI, kM := kasc_ins _ _ h.kM, kB := h.kB
        dec := by
          intro n c' hg
          rw [get_ins] at hg
          by_cases hn : n = m
          · simp only [hn, if_true] at hg
            injection hg with hg
            subst hg
            exact ⟨by rw [hn, hmm], ⟨s.nonce, _, Nat.lt_succ_self _, hc.symm⟩, _, hlines,
              fun pv hpv => by rw [List.mem_singleton] at hpv; subst hpv; exact hrow⟩
          · simp only [hn, if_false] at hg
            obtain ⟨d1, ⟨r', t, hr', hc'⟩, d3⟩ := h.dec n c' hg
            exact ⟨d1, ⟨r', t, Nat.lt_succ_of_lt hr', hc'⟩, d3⟩
        lines := by
          intro n c' ls hg hl pv hpv
          rw [get_ins] at hg
          by_cases hn : n = m
          · simp only [hn, if_true] at hg
            injection hg with hg
            subst hg
            rw [hlines] at hl
            injection hl with hl
            subst hl
            rw [List.mem_singleton] at hpv
            exact Or.inr ⟨_, rfl, rfl, by simp, hpv⟩
          · simp only [hn, if_false] at hg
            rcases h.lines n c' ls hg hl pv hpv with e | e
            · exact Or.inl e
            · exact absurd e (nopend hm pv)
        cov := by
          intro p v hg
          obtain ⟨n, c', ls, h1, h2, h3, h4⟩ := h.cov p v hg
          exact ⟨n, c', ls, by rw [get_ins]; simp [hmeta_old n c' h1, h1], h2, h3, h4⟩
        heap := fun e he => hTfr _ _ (h.heap e he)
        jobs := by
          intro j hj
          obtain ⟨j1, j2⟩ := h.jobs j hj
          refine ⟨fun n hn => hTfr _ _ (j1 n hn), ?_⟩
          rcases j2 with j2 | ⟨m', hm1, hm2, hm3⟩
          · exact Or.inl j2
          · exact Or.inr ⟨m', hm1, hTfr _ _ hm2, hm3⟩
        recv := by
          intro y hy
          injection hy with hy
          subst hy
          refine ⟨⟨plain, r, x1, x2, x3, x4, x5⟩, fun _ => r2 (by simp [hr]), fun _ => hblob,
            Or.inr ⟨m, rfl, ⟨s.nonce, _, Nat.lt_succ_self _, by rw [← hmm, ← hc]; rfl⟩,
              Or.inr ⟨Or.inl rfl, c, by show get (ins m c s.metas) m = some c; rw [get_ins]; simp, hlines, ?_⟩⟩⟩
          intro ⟨j, hj, _, hj2⟩
          exact hmfresh m ((h.jobs j hj).1 m hj2).1 rfl }
    · -- ReceiveBlob returns the error of the wrapped store
      simp only [hr]
      exact {
        kI := h.kI, kM := h.kM, kB := h.kB, dec := h.dec
        lines := by
          intro n c ls hg hl pv hpv
          rcases h.lines n c ls hg hl pv hpv with e | e
          · exact Or.inl e
          · exact absurd e (nopend hm pv)
        cov := h.cov, heap := h.heap, jobs := h.jobs
        recv := by intro y hy; cases hy }
    · rcases hr with hr | ⟨hr, c, hc1, hc2, hc3⟩
      · -- ReceiveBlob returns
        simp only [hr]
        exact {
          kI := h.kI, kM := h.kM, kB := h.kB, dec := h.dec
          lines := by
            intro n c ls hg hl pv hpv
            rcases h.lines n c ls hg hl pv hpv with e | e
            · exact Or.inl e
            · obtain ⟨y, hy, _, hy3, _⟩ := e
              rw [hx] at hy; injection hy with hy; subst hy
              rw [hr] at hy3; cases hy3
          cov := h.cov, heap := h.heap, jobs := h.jobs
          recv := by intro y hy; cases hy }
      · rcases hr with hr | hr
        · -- recordMeta
          simp only [hr, hm]
          have hmid : Inv P { s with recv := some { x with metaBR := some m, rest := [RStep.setIndex] } } := {
            kI := h.kI, kM := h.kM, kB := h.kB, dec := h.dec
            lines := by
              intro n c' ls hg hl pv hpv
              rcases h.lines n c' ls hg hl pv hpv with e | e
              · exact Or.inl e
              · obtain ⟨y, hy, hy2, _, hy4⟩ := e
                rw [hx] at hy; injection hy with hy; subst hy
                exact Or.inr ⟨_, rfl, rfl, by simp, hy4⟩
            cov := h.cov, heap := h.heap, jobs := h.jobs
            recv := by
              intro y hy
              injection hy with hy
              subst hy
              exact ⟨⟨plain, r, x1, x2, x3, x4, x5⟩, fun _ => r2 (by simp [hr]), fun _ => r3 (by simp [hr]),
                Or.inr ⟨m, rfl, hold, Or.inr ⟨Or.inr rfl, c, hc1, hc2, hc3⟩⟩⟩ }
          refine hmid.record ⟨m, [x.plainBR]⟩ ⟨hold, ?_⟩
          intro c' ls hg hl pv hpv
          have hg' : get s.metas m = some c' := hg
          rw [hc1] at hg'
          injection hg' with hg'
          subst hg'
          rw [hc2] at hl
          injection hl with hl
          subst hl
          rw [List.mem_singleton] at hpv
          subst hpv
          simp
        · -- index.Set
          simp only [hr, hfi, Nat.zero_ne_one, if_false]
          have hnone := r2 (by simp [hr])
          exact {
            kI := kasc_ins _ _ h.kI, kM := h.kM, kB := h.kB, dec := h.dec
            lines := by
              intro n c' ls hg hl pv hpv
              refine Or.inl ?_
              show get (ins x.plainBR (packIndexEntry x.size x.encBR) s.index) pv.1 = some pv.2
              rw [get_ins]
              rcases h.lines n c' ls hg hl pv hpv with e | e
              · have : pv.1 ≠ x.plainBR := by
                  intro e'; rw [e', hnone] at e; cases e
                simp [this, e]
              · obtain ⟨y, hy, _, _, hy4⟩ := e
                rw [hx] at hy; injection hy with hy; subst hy
                rw [hy4]; simp
            cov := by
              intro p v hg
              have hg' : get (ins x.plainBR (packIndexEntry x.size x.encBR) s.index) p = some v := hg
              rw [get_ins] at hg'
              by_cases hp : p = x.plainBR
              · simp only [hp, if_true] at hg'
                injection hg' with hg'
                subst hg'
                exact ⟨m, c, _, hc1, hc2, by rw [hp]; simp, hc3⟩
              · simp only [hp, if_false] at hg'
                exact h.cov p v hg'
            heap := h.heap, jobs := h.jobs
            recv := by
              intro y hy
              injection hy with hy
              subst hy
              exact ⟨⟨plain, r, x1, x2, x3, x4, x5⟩, fun hn => by simp at hn, fun _ => r3 (by simp [hr]),
                Or.inr ⟨m, hm, hold, Or.inl rfl⟩⟩ }

end Pk.Encrypt

namespace Pk.Encrypt
open Pk Pk.SMap
variable {P : Params}

/-! ## crash and start-up scan -/

/-- the mapping the store stands for: its index rows, plus the row of a ReceiveBlob that has written its
meta blob but not yet set its index row -/
def truth (s : St) (p : Bytes) : Option Bytes :=
  match get s.index p with
  | some v => some v
  | none =>
    match s.recv with
    | some x =>
      if x.metaBR.isSome = true ∧ RStep.setIndex ∈ x.rest ∧ p = x.plainBR then
        some (packIndexEntry x.size x.encBR) else none
    | none => none

theorem truth_of_index {s : St} {p v : Bytes} (h : get s.index p = some v) : truth s p = some v := by
  simp [truth, h]

theorem truth_of_pending {s : St} (h : Inv P s) {pv : Bytes × Bytes} (hp : Pending s.recv pv) :
    truth s pv.1 = some pv.2 := by
  obtain ⟨x, hx, h1, h2, h3⟩ := hp
  obtain ⟨_, r2, _, _⟩ := h.recv x hx
  subst h3
  simp [truth, r2 h2, hx, h1, h2]

/-- every line of every stored meta blob agrees with `truth` -/
theorem Inv.lines_truth {s : St} (h : Inv P s) (n c : Bytes) (ls : List (Bytes × Bytes))
    (hg : get s.metas n = some c) (hl : linesOf P c = some ls) : ∀ pv ∈ ls, truth s pv.1 = some pv.2 := by
  intro pv hpv
  rcases h.lines n c ls hg hl pv hpv with e | e
  · exact truth_of_index e
  · exact truth_of_pending h e

/-- and every row of `truth` is a line of some stored meta blob -/
theorem Inv.truth_covered {s : St} (h : Inv P s) (p v : Bytes) (ht : truth s p = some v) :
    ∃ n c ls, get s.metas n = some c ∧ linesOf P c = some ls ∧ (p, v) ∈ ls := by
  unfold truth at ht
  cases hg : get s.index p with
  | some w =>
    simp only [hg] at ht
    injection ht with ht
    subst ht
    obtain ⟨n, c, ls, h1, h2, h3, _⟩ := h.cov p w hg
    exact ⟨n, c, ls, h1, h2, h3⟩
  | none =>
    simp only [hg] at ht
    cases hx : s.recv with
    | none => simp [hx] at ht
    | some x =>
      simp only [hx] at ht
      split at ht
      · rename_i hc
        obtain ⟨c1, c2, c3⟩ := hc
        injection ht with ht
        subst ht
        obtain ⟨_, _, _, r4⟩ := h.recv x hx
        rcases r4 with ⟨hm, _⟩ | ⟨m, hm, _, hr⟩
        · rw [hm] at c1; cases c1
        · rcases hr with hr | ⟨_, c, hc1, hc2, _⟩
          · rw [hr] at c2; cases c2
          · exact ⟨m, c, _, hc1, hc2, by rw [c3]; simp⟩
      · cases ht

/-- the scan, from any state whose index is inside a mapping `F` that all stored lines agree with -/
theorem scan_spec (metas : SMap Bytes) (nonce : Nat) (F : Bytes → Option Bytes)
    (hdec : ∀ n c, get metas n = some c → Old P nonce n ∧ ∃ ls, linesOf P c = some ls)
    (hF : ∀ n c ls, get metas n = some c → linesOf P c = some ls → ∀ pv ∈ ls, F pv.1 = some pv.2)
    (order : List Bytes) (horder : ∀ n ∈ order, has metas n = true)
    (t : St) (hm : t.metas = metas) (hn : t.nonce = nonce) (hk : KAsc t.index)
    (hsub : ∀ p v, get t.index p = some v → F p = some v)
    (hheap : ∀ e ∈ t.heap, T P metas nonce e.br e.plains)
    (hjobs : ∀ j ∈ t.jobs, (∀ n ∈ j.toDelete, T P metas nonce n j.plains) ∧ j.packed = none ∧ j.rest = goodP) :
    (readAllMetaBlobs P goodP order t).2 = true ∧
    (readAllMetaBlobs P goodP order t).1.metas = metas ∧
    (readAllMetaBlobs P goodP order t).1.nonce = nonce ∧
    (readAllMetaBlobs P goodP order t).1.blobs = t.blobs ∧
    (readAllMetaBlobs P goodP order t).1.recv = t.recv ∧
    KAsc (readAllMetaBlobs P goodP order t).1.index ∧
    (∀ p v, get (readAllMetaBlobs P goodP order t).1.index p = some v → F p = some v) ∧
    (∀ p v, get t.index p = some v → get (readAllMetaBlobs P goodP order t).1.index p = some v) ∧
    (∀ n ∈ order, ∀ c ls, get metas n = some c → linesOf P c = some ls →
        ∀ pv ∈ ls, get (readAllMetaBlobs P goodP order t).1.index pv.1 = some pv.2) ∧
    (∀ e ∈ (readAllMetaBlobs P goodP order t).1.heap, T P metas nonce e.br e.plains) ∧
    (∀ j ∈ (readAllMetaBlobs P goodP order t).1.jobs,
        (∀ n ∈ j.toDelete, T P metas nonce n j.plains) ∧ j.packed = none ∧ j.rest = goodP) := by
  induction order generalizing t with
  | nil =>
    exact ⟨rfl, hm, hn, rfl, rfl, hk, hsub, fun _ _ h => h, (by intro n hn'; cases hn'), hheap, hjobs⟩
  | cons n rest ih =>
    subst hm
    subst hn
    have hpres := horder n (by simp)
    simp only [has] at hpres
    cases hg : get t.metas n with
    | none => simp [hg] at hpres
    | some dat =>
      obtain ⟨hold, ls, hls⟩ := hdec n dat hg
      have hFls := hF n dat ls hg hls
      obtain ⟨s1, s2, s3⟩ := get_setAll F ls t.index hFls hsub
      simp only [readAllMetaBlobs, hg, process_of_linesOf P t.index dat ls hls]
      -- the state after this blob
      have hT : T P t.metas t.nonce n (List.map (fun x : Bytes × Bytes => x.1) ls) := by
        refine ⟨hold, ?_⟩
        intro c ls' hg' hl' pv hpv
        rw [hg] at hg'
        injection hg' with hg'
        subst hg'
        rw [hls] at hl'
        injection hl' with hl'
        subst hl'
        exact List.mem_map_of_mem hpv
      obtain ⟨q1, q2⟩ := recordMeta_inv P (T P t.metas t.nonce) (fun n pl pl' => T.mono_pl P n pl pl') t.heap
        ⟨n, List.map (fun x : Bytes × Bytes => x.1) ls⟩ hheap hT
      have ih' := ih (fun k hk' => horder k (by simp [hk']))
        (St.record P goodP { t with index := setAll ls t.index } ⟨n, List.map (fun x : Bytes × Bytes => x.1) ls⟩)
        rfl rfl (kasc_setAll ls t.index hk) s1 q1
        (by
          intro j hj
          have hj' : j ∈ t.jobs ++ mkJobs goodP (recordMeta P t.heap ⟨n, List.map (fun x : Bytes × Bytes => x.1) ls⟩).2 := hj
          rcases List.mem_append.mp hj' with hj' | hj'
          · exact hjobs j hj'
          · simp only [mkJobs, List.mem_map] at hj'
            obtain ⟨x, hx, hjx⟩ := hj'
            subst hjx
            exact ⟨q2 x hx, rfl, rfl⟩)
      obtain ⟨i1, i2, i3, i4, i5, i6, i7, i8, i9, i10, i11⟩ := ih'
      refine ⟨i1, i2, i3, i4, i5, i6, i7, fun p v hp => i8 p v (s2 p v hp), ?_, i10, i11⟩
      intro k hk' c ls' hgk hlk pv hpv
      rcases List.mem_cons.mp hk' with e | e
      · subst e
        rw [hg] at hgk
        injection hgk with hgk
        subst hgk
        rw [hls] at hlk
        injection hlk with hlk
        subst hlk
        exact i8 _ _ (s3 pv hpv)
      · exact i9 k e c ls' hgk hlk pv hpv

end Pk.Encrypt

namespace Pk.Encrypt
open Pk Pk.SMap
variable {P : Params}

/-- crash at any point, then the start-up scan in any arrival order: it succeeds, the index it leaves is
exactly `truth` (wiped or not), and the invariant holds again -/
theorem restart_spec {s : St} (h : Inv P s) (wipe : Bool) (order : List Bytes)
    (hord : ∀ n, n ∈ order ↔ has s.metas n = true) :
    (restart P goodP wipe order s).2 = true ∧
    (∀ p, get (restart P goodP wipe order s).1.index p = truth s p) ∧
    Inv P (restart P goodP wipe order s).1 := by
  have hdec : ∀ n c, get s.metas n = some c → Old P s.nonce n ∧ ∃ ls, linesOf P c = some ls := by
    intro n c hg
    obtain ⟨d1, ⟨r, t, hr, hc⟩, ls, d3, _⟩ := h.dec n c hg
    exact ⟨⟨r, t, hr, by rw [d1, hc]⟩, ls, d3⟩
  have hk : KAsc (crash wipe s).index := by
    simp only [crash]; split
    · exact kasc_nil
    · exact h.kI
  have hsub : ∀ p v, get (crash wipe s).index p = some v → truth s p = some v := by
    intro p v hg
    simp only [crash] at hg
    split at hg
    · simp [SMap.get] at hg
    · exact truth_of_index hg
  obtain ⟨i1, i2, i3, i4, i5, i6, i7, _, i9, i10, i11⟩ :=
    scan_spec s.metas s.nonce (truth s) hdec (fun n c ls => h.lines_truth n c ls) order
      (fun n hn => (hord n).mp hn) (crash wipe s) rfl rfl hk hsub
      (by intro e he; cases he) (by intro j hj; cases hj)
  unfold restart
  generalize readAllMetaBlobs P goodP order (crash wipe s) = r at i1 i2 i3 i4 i5 i6 i7 i9 i10 i11
  have hpres : ∀ n c, get s.metas n = some c → n ∈ order := by
    intro n c hg; exact (hord n).mpr (by simp [has, hg])
  have hall : ∀ p v, truth s p = some v → get r.1.index p = some v := by
    intro p v ht
    obtain ⟨n, c, ls, h1, h2, h3⟩ := h.truth_covered p v ht
    exact i9 n (hpres n c h1) c ls h1 h2 (p, v) h3
  have hnounsafe : ∀ n, ¬ Unsafe r.1.jobs n := by
    intro n ⟨j, hj, hj1, _⟩
    rw [(i11 j hj).2.1] at hj1
    cases hj1
  refine ⟨i1, ?_, ?_⟩
  · intro p
    cases ht : truth s p with
    | some v => exact hall p v ht
    | none =>
      cases hg : get r.1.index p with
      | none => rfl
      | some v => have := i7 p v hg; rw [ht] at this; cases this
  · have hblobs : r.1.blobs = s.blobs := i4
    have hrecv : r.1.recv = none := i5
    exact {
      kI := i6
      kM := by rw [i2]; exact h.kM
      kB := by rw [hblobs]; exact h.kB
      dec := by rw [i2, i3, hblobs]; exact h.dec
      lines := by
        rw [i2]
        intro n c ls hg hl pv hpv
        exact Or.inl (i9 n (hpres n c hg) c ls hg hl pv hpv)
      cov := by
        rw [i2]
        intro p v hg
        obtain ⟨n, c, ls, h1, h2, h3⟩ := h.truth_covered p v (i7 p v hg)
        exact ⟨n, c, ls, h1, h2, h3, hnounsafe n⟩
      heap := by rw [i2, i3]; exact i10
      jobs := by
        rw [i2, i3]
        intro j hj
        exact ⟨(i11 j hj).1, Or.inl ⟨(i11 j hj).2.1, (i11 j hj).2.2⟩⟩
      recv := by intro x hx; rw [hrecv] at hx; cases hx }

/-- the invariant holds initially and after every step: in every reachable state -/
theorem inv_init : Inv P ({} : St) where
  kI := kasc_nil
  kM := kasc_nil
  kB := kasc_nil
  dec := by intro n c hg; simp [SMap.get] at hg
  lines := by intro n c ls hg; simp [SMap.get] at hg
  cov := by intro p v hg; simp [SMap.get] at hg
  heap := by intro e he; cases he
  jobs := by intro j hj; cases hj
  recv := by intro x hx; cases hx

theorem inv_step (I : Ideal P) {s s' : St} (h : Inv P s) (st : Step P goodR goodP s s') : Inv P s' := by
  cases st with
  | recvBegin ref plain _ h0 hlen hb => exact inv_recvBegin I h ref plain h0 hlen hb
  | recvStep _ hfi => exact inv_recvStep I h hfi
  | jobStep i => exact inv_stepJob I h i
  | restart wipe order hord => exact (restart_spec h wipe order hord).2.2
  | arm b m => exact h.frame _ ⟨rfl, rfl, rfl, rfl, rfl, rfl, rfl⟩

theorem inv_reach (I : Ideal P) {s : St} (hr : Reach P goodR goodP s) : Inv P s := by
  induction hr with
  | init => exact inv_init
  | step s s' _ st ih => exact inv_step I ih st

end Pk.Encrypt

namespace Pk.Encrypt
open Pk Pk.SMap
variable {P : Params}

/-! ## what is handed to the wrapped stores -/

/-- a call to a wrapped store that carries only ciphertext and names only ciphertext -/
def CallOK (P : Params) : Call → Prop
  | .putBlobs n c => ∃ r t, c = encryptBlob P r t ∧ n = P.digest c
  | .putMeta n c => ∃ r t, c = encryptBlob P r t ∧ n = P.digest c
  | .rmMeta ns => ∀ n ∈ ns, ∃ r t, n = P.digest (encryptBlob P r t)

def TraceOK (P : Params) (s : St) : Prop := ∀ c ∈ s.trace, CallOK P c

theorem readAll_trace (psteps : List PStep) (order : List Bytes) (t : St) :
    (readAllMetaBlobs P psteps order t).1.trace = t.trace := by
  induction order generalizing t with
  | nil => rfl
  | cons n rest ih =>
    simp only [readAllMetaBlobs]
    split
    · rfl
    · split
      · rfl
      · rw [ih]; rfl

theorem jobStep_trace (s0 : St) (j : Job) (ht : TraceOK P s0)
    (hn : ∀ n ∈ j.toDelete, ∃ r t, n = P.digest (encryptBlob P r t)) :
    TraceOK P (jobStep P goodP s0 j).1 := by
  unfold jobStep
  cases hr : j.rest with
  | nil => exact ht
  | cons a rest =>
    cases a with
    | upload =>
      simp only
      cases packedLines s0.index (sortRefs j.plains) with
      | none => exact ht
      | some ls =>
        simp only
        split
        · exact ht
        · intro c hc
          rcases List.mem_cons.mp hc with e | e
          · subst e; exact ⟨_, _, rfl, rfl⟩
          · exact ht c e
    | record =>
      simp only
      cases j.packed with
      | none => exact ht
      | some br =>
        simp only
        split
        · exact ht
        · exact ht
    | remove =>
      intro c hc
      rcases List.mem_cons.mp hc with e | e
      · subst e; exact hn
      · exact ht c e

theorem trace_step {s s' : St} (h : Inv P s) (ht : TraceOK P s) (st : Step P goodR goodP s s') :
    TraceOK P s' := by
  cases st with
  | recvBegin ref plain _ h0 hlen hb =>
    unfold recvBegin at hb
    split at hb
    · cases hb
    · split at hb
      · cases hb
      · injection hb with hb _
        subst hb
        exact ht
  | recvStep hne hfi =>
    unfold recvStep
    cases hx : s.recv with
    | none => exact ht
    | some x =>
      obtain ⟨⟨plain, r, _, _, _, x4, x5⟩, _⟩ := h.recv x hx
      simp only
      split
      · exact ht
      · split
        · exact ht
        · intro c hc
          rcases List.mem_cons.mp hc with e | e
          · subst e; exact ⟨r, plain, x4, x5⟩
          · exact ht c e
      · split
        · exact ht
        · intro c hc
          rcases List.mem_cons.mp hc with e | e
          · subst e; exact ⟨_, _, rfl, rfl⟩
          · exact ht c e
      · split
        · exact ht
        · exact ht
      · split
        · exact ht
        · exact ht
  | jobStep i =>
    unfold stepJob
    cases hji : s.jobs[i]? with
    | none => exact ht
    | some j =>
      have hj : j ∈ s.jobs := List.mem_of_getElem? hji
      obtain ⟨j1, _⟩ := h.jobs j hj
      have key := jobStep_trace { s with jobs := s.jobs.eraseIdx i } j ht (fun n hn => by
        obtain ⟨r, t, _, hnt⟩ := (j1 n hn).1
        exact ⟨r, t, hnt⟩)
      simp only
      generalize jobStep P goodP { s with jobs := s.jobs.eraseIdx i } j = res at key
      obtain ⟨s1, oj⟩ := res
      cases oj <;> exact key
  | restart wipe order hord =>
    unfold restart
    intro c hc
    rw [readAll_trace] at hc
    exact ht c hc
  | arm b m => exact ht

theorem trace_reach (I : Ideal P) {s : St} (hr : Reach P goodR goodP s) : TraceOK P s := by
  induction hr with
  | init => intro c hc; cases hc
  | step s s' hr' st ih => exact trace_step (inv_reach I hr') ih st

end Pk.Encrypt

namespace Pk.Encrypt
open Pk Pk.SMap

theorem fetch_not_refs (P : Params) (s : St) (ref : Bytes) (l : List (Bytes × Nat)) :
    fetch P s ref ≠ .refs l := by
  unfold fetch
  split
  · simp
  · simp
  · split
    · simp
    · split
      · simp
      · split
        · simp
        · split <;> simp

theorem fetch_not_sized (P : Params) (s : St) (ref : Bytes) (n : Nat) : fetch P s ref ≠ .sized n := by
  unfold fetch
  split
  · simp
  · simp
  · split
    · simp
    · split
      · simp
      · split
        · simp
        · split <;> simp


end Pk.Encrypt
