import PkVerif.Model.Search
/-!
# The compiled matcher computes the documented meaning  (C08, `matcher_ok`)

Under the guards of `Model/Search.lean` (`deepValid`, `scratchSafe`, `dirSafe` on the constraint,
`noDangling`, `dirsHaveInfo` on the world) `matchC` never fails and returns `matchesC`, whatever
the scratch state.

`GoodF r v st F`: the matcher result `r` is `.ok (v, st')` and, when `F` holds, `st' = st` (the
frame part: `F` will be "no permanode constraint of the subtree asks for attribute values").
-/
namespace Pk.Search

/-! ## Results and the combinators -/

def GoodF (r : R) (v : Bool) (st : St) (F : Prop) : Prop :=
  ∃ st', r = .ok (v, st') ∧ (F → st' = st)

theorem GoodF.ok (v : Bool) (st : St) (F : Prop) : GoodF (.ok (v, st)) v st F :=
  ⟨st, rfl, fun _ => rfl⟩

theorem GoodF.congr {r : R} {v v' : Bool} {st : St} {F : Prop} (h : GoodF r v st F) (hv : v = v') :
    GoodF r v' st F := hv ▸ h

theorem GoodF.andThen {r : R} {k : St → R} {v1 v2 : Bool} {st : St} {F : Prop}
    (h1 : GoodF r v1 st F) (h2 : v1 = true → ∀ s, GoodF (k s) v2 s F) :
    GoodF (andThen r k) (v1 && v2) st F := by
  obtain ⟨s1, rfl, f1⟩ := h1
  cases v1 with
  | false => exact ⟨s1, rfl, f1⟩
  | true =>
    obtain ⟨s2, e2, f2⟩ := h2 rfl s1
    refine ⟨s2, ?_, fun hF => (f2 hF).trans (f1 hF)⟩
    simp only [Search.andThen, e2, Bool.true_and]

/-- `addCond`: `v2` is the conjunct of the spec (true when the field is not set) -/
theorem GoodF.cond {present : Bool} {r : R} {k : St → R} {v1 v2 : Bool} {st : St} {F : Prop}
    (h1 : GoodF r v1 st F) (hn : present = false → v2 = true)
    (h2 : present = true → ∀ s, GoodF (k s) v2 s F) :
    GoodF (cond present k r) (v1 && v2) st F := by
  cases present with
  | false => simp only [Search.cond, hn rfl, Bool.and_true]; exact h1
  | true => simp only [Search.cond, if_true]; exact GoodF.andThen h1 (fun _ => h2 rfl)

/-- the value of a `Logical` -/
def logicalVal (op : Op) (va vb : Bool) : Bool :=
  match op with
  | .none => true
  | .and => va && vb
  | .or => va || vb
  | .xor => va != vb
  | .not => !va

theorem GoodF.logical {op : Op} {ma mb : St → R} {va vb : Bool} {st : St} {F : Prop}
    (hop : op ≠ .none) (ha : ∀ s, GoodF (ma s) va s F) (hb : op ≠ .not → ∀ s, GoodF (mb s) vb s F) :
    GoodF (logical op ma mb st) (logicalVal op va vb) st F := by
  unfold logicalVal
  obtain ⟨s1, e1, f1⟩ := ha st
  cases op with
  | none => exact absurd rfl hop
  | not => exact ⟨s1, by simp only [Search.logical, e1], f1⟩
  | and =>
    cases va with
    | false => exact ⟨s1, by simp [Search.logical, e1], f1⟩
    | true =>
      obtain ⟨s2, e2, f2⟩ := hb (by decide) s1
      exact ⟨s2, by simp [Search.logical, e1, e2], fun hF => (f2 hF).trans (f1 hF)⟩
  | or =>
    cases va with
    | true => exact ⟨s1, by simp [Search.logical, e1], f1⟩
    | false =>
      obtain ⟨s2, e2, f2⟩ := hb (by decide) s1
      exact ⟨s2, by simp [Search.logical, e1, e2], fun hF => (f2 hF).trans (f1 hF)⟩
  | xor =>
    obtain ⟨s2, e2, f2⟩ := hb (by decide) s1
    exact ⟨s2, by simp [Search.logical, e1, e2], fun hF => (f2 hF).trans (f1 hF)⟩

/-- the value of a blob predicate at a ref (`false` when the blob is not there) -/
def atRef (w : World) (ψ : BlobMeta → Bool) (r : Ref) : Bool :=
  match w.getBlob r with
  | none => false
  | some b => ψ b

theorem GoodF.anyOf {w : World} {m : BlobMeta → St → R} {ψ : BlobMeta → Bool} {F : Prop}
    (hm : ∀ b s, GoodF (m b s) (ψ b) s F) :
    ∀ (rs : List Ref) (st : St), GoodF (anyOf w m rs st) (rs.any (atRef w ψ)) st F
  | [], st => by simp only [Search.anyOf, List.any_nil]; exact GoodF.ok _ _ _
  | r :: rs, st => by
    simp only [Search.anyOf, List.any_cons, atRef]
    cases hg : w.getBlob r with
    | none => simpa [atRef] using GoodF.anyOf hm rs st
    | some b =>
      obtain ⟨s1, e1, f1⟩ := hm b st
      simp only [e1]
      cases hψ : ψ b with
      | true => exact ⟨s1, by simp, f1⟩
      | false =>
        obtain ⟨s2, e2, f2⟩ := GoodF.anyOf hm rs s1
        exact ⟨s2, by simpa [atRef] using e2, fun hF => (f2 hF).trans (f1 hF)⟩

/-! ## Directories -/

theorem GoodF.dirTail_none {w : World} {tfc : Option IntC} {recursive : Bool} {self : BlobMeta → St → R}
    {bm : BlobMeta} {st : St} {F : Prop} :
    GoodF (dirTail w tfc none recursive self bm st) (optInt tfc (w.children bm.ref).length) st F := by
  simp only [Search.dirTail]
  cases optInt tfc (w.children bm.ref).length <;> exact GoodF.ok _ _ _

theorem GoodF.dirTail_some {w : World} {tfc : Option IntC} {recursive : Bool} {ccM self : BlobMeta → St → R}
    {ψ σ : BlobMeta → Bool} {bm : BlobMeta} {st : St} {F : Prop}
    (hc : ∀ b s, GoodF (ccM b s) (ψ b) s F)
    (hs : recursive = true → ∀ b s, GoodF (self b s) (σ b) s F) :
    GoodF (dirTail w tfc (some (.ok ccM)) recursive self bm st)
      (optInt tfc (w.children bm.ref).length &&
        ((w.children bm.ref).any (atRef w ψ) || (recursive && (w.children bm.ref).any (atRef w σ)))) st F := by
  simp only [Search.dirTail]
  cases optInt tfc (w.children bm.ref).length with
  | false => exact GoodF.ok _ _ _
  | true =>
    obtain ⟨s1, e1, f1⟩ := GoodF.anyOf (w := w) hc (w.children bm.ref) st
    simp only [Bool.not_true, Bool.false_eq_true, if_false, e1, Bool.true_and]
    cases h1 : (w.children bm.ref).any (atRef w ψ) with
    | true => exact ⟨s1, by simp, f1⟩
    | false =>
      cases recursive with
      | false => exact ⟨s1, by simp, f1⟩
      | true =>
        obtain ⟨s2, e2, f2⟩ := GoodF.anyOf (w := w) (hs rfl) (w.children bm.ref) s1
        exact ⟨s2, by simpa using e2, fun hF => (f2 hF).trans (f1 hF)⟩

/-- the ParentDir condition of `dirBody` -/
def dirParent (w : World) (parentM : Option (BlobMeta → St → R)) (bm : BlobMeta) (s : St) : R :=
  match parentM with
  | none => .ok (true, s)
  | some pm => Search.anyOf w pm (w.parents bm.ref) s

/-- one unfolding of `dirBody` -/
theorem GoodF.dirBody_succ {w : World} {d : DFlat} {parentM : Option (BlobMeta → St → R)}
    {cc? : Option (Except Err (BlobMeta → St → R))} {recursive : Bool} {k : Nat} {bm : BlobMeta}
    {pv tv : Bool} {F : Prop}
    (hp : ∀ s, GoodF (dirParent w parentM bm s) pv s F)
    (ht : ∀ s, GoodF (Search.dirTail w d.topFileCount cc? recursive (Search.dirBody w d parentM cc? recursive k) bm s) tv s F)
    (st : St) :
    GoodF (dirBody w d parentM cc? recursive (k + 1) bm st)
      (bm.camliType == sDirectory && (d.pfx.isEmpty || hasPrefix bm.ref d.pfx) &&
        (match w.fileInfo bm.ref with
         | none => false
         | some fi => optStr d.name fi.name && pv && tv)) st F := by
  have hp' := hp st
  unfold dirParent at hp'
  simp only [Search.dirBody]
  cases h1 : bm.camliType == sDirectory with
  | false => simp [bne, h1]; exact GoodF.ok _ _ _
  | true =>
    cases h2 : d.pfx.isEmpty with
    | false =>
      cases h3 : hasPrefix bm.ref d.pfx with
      | false => simp [bne, h1]; exact GoodF.ok _ _ _
      | true =>
        simp only [bne, h1, Bool.not_true, Bool.not_false, Bool.false_eq_true, if_false,
          Bool.and_false, Bool.true_and, Bool.false_or]
        cases w.fileInfo bm.ref with
        | none => exact GoodF.ok _ _ _
        | some fi =>
          simp only
          cases optStr d.name fi.name with
          | false => simp; exact GoodF.ok _ _ _
          | true =>
            simp only [Bool.not_true, Bool.false_eq_true, if_false, Bool.true_and]
            exact GoodF.andThen hp' (fun _ => ht)
    | true =>
      simp only [bne, h1, Bool.not_true, Bool.false_eq_true, if_false,
        Bool.false_and, Bool.true_and, Bool.true_or]
      cases w.fileInfo bm.ref with
      | none => exact GoodF.ok _ _ _
      | some fi =>
        simp only
        cases optStr d.name fi.name with
        | false => simp; exact GoodF.ok _ _ _
        | true =>
          simp only [Bool.not_true, Bool.false_eq_true, if_false, Bool.true_and]
          exact GoodF.andThen hp' (fun _ => ht)

theorem any_or {α} (l : List α) (f g : α → Bool) : (l.any f || l.any g) = l.any (fun x => f x || g x) := by
  induction l with
  | nil => rfl
  | cons x l ih => simp only [List.any_cons, ← ih]; cases f x <;> cases g x <;> simp <;> cases l.any f <;> simp

theorem any_congr_mem {α} (l : List α) (f g : α → Bool) (h : ∀ x ∈ l, f x = g x) : l.any f = l.any g := by
  induction l with
  | nil => rfl
  | cons x l ih =>
    simp only [List.any_cons, h x (List.mem_cons_self ..), ih (fun y hy => h y (List.mem_cons_of_mem _ hy))]

theorem getBlob_some {w : World} {r : Ref} {b : BlobMeta} (h : w.getBlob r = some b) :
    b.ref = r ∧ b ∈ w.blobs := by
  unfold World.getBlob at h
  exact ⟨by simpa using List.find?_some h, List.mem_of_find?_eq_some h⟩

theorem dir_hasInfo {w : World} (hi : w.dirsHaveInfo = true) {b : BlobMeta} (hb : b ∈ w.blobs)
    (hd : (b.camliType == sDirectory) = true) : (w.fileInfo b.ref).isSome = true := by
  unfold World.dirsHaveInfo at hi
  have := List.all_eq_true.mp hi b hb
  simpa [bne, hd] using this

/-- RecursiveContains standing alone: the recursion of `blobMatches` into itself computes `descAny` -/
theorem GoodF.dirBody_rec {w : World} (hi : w.dirsHaveInfo = true) {d : DFlat}
    (hname : d.name = none) (hpfx : d.pfx.isEmpty = true) (htfc : d.topFileCount = none)
    {ccM : BlobMeta → St → R} {ψ : BlobMeta → Bool} {F : Prop}
    (hc : ∀ b s, GoodF (ccM b s) (ψ b) s F) :
    ∀ (k : Nat) (bm : BlobMeta) (st : St),
      GoodF (dirBody w d none (some (.ok ccM)) true k bm st)
        (bm.camliType == sDirectory && (w.fileInfo bm.ref).isSome && descAny w ψ k bm.ref) st F
  | 0, bm, st => by simp only [Search.dirBody, descAny, Bool.and_false]; exact GoodF.ok _ _ _
  | k + 1, bm, st => by
    have ih := GoodF.dirBody_rec hi hname hpfx htfc hc k
    have h := GoodF.dirBody_succ (w := w) (d := d) (parentM := none) (cc? := some (.ok ccM))
      (recursive := true) (k := k) (bm := bm) (pv := true) (F := F)
      (fun s => GoodF.ok _ _ _) (fun s => GoodF.dirTail_some hc (fun _ => ih)) st
    refine h.congr ?_
    simp only [hpfx, hname, htfc, optInt, optStr, Bool.true_or, Bool.and_true, Bool.true_and, descAny]
    rw [any_or]
    have hany : (w.children bm.ref).any (fun x => atRef w ψ x ||
          atRef w (fun b => b.camliType == sDirectory && (w.fileInfo b.ref).isSome && descAny w ψ k b.ref) x) =
        (w.children bm.ref).any (fun c => match w.getBlob c with
          | none => false
          | some cb => ψ cb || (cb.camliType == sDirectory && descAny w ψ k c)) := by
      apply any_congr_mem
      intro c _
      simp only [atRef]
      cases hg : w.getBlob c with
      | none => rfl
      | some cb =>
        obtain ⟨hr, hm⟩ := getBlob_some hg
        simp only [hr]
        cases hdir : cb.camliType == sDirectory with
        | false => simp
        | true => have := dir_hasInfo hi hm hdir; rw [hr] at this; simp [this]
    rw [hany]
    cases w.fileInfo bm.ref with
    | none => simp
    | some fi => simp; rfl

/-! ## Relations -/

theorem any_eraseDups {α} [BEq α] [LawfulBEq α] (l : List α) (f : α → Bool) : l.eraseDups.any f = l.any f := by
  rw [Bool.eq_iff_iff]; simp only [List.any_eq_true, List.mem_eraseDups]

theorem all_eraseDups {α} [BEq α] [LawfulBEq α] (l : List α) (f : α → Bool) : l.eraseDups.all f = l.all f := by
  rw [Bool.eq_iff_iff]; simp only [List.all_eq_true, List.mem_eraseDups]

theorem isEmpty_eraseDups {α} [BEq α] (l : List α) : l.eraseDups.isEmpty = l.isEmpty := by
  cases l with
  | nil => rfl
  | cons a l => rw [List.eraseDups_cons]; rfl

theorem filterMap_filter_eq_map_filter {α β} (l : List α) (p q : α → Bool) (f : α → Option β) (g : α → β)
    (h : ∀ x, (if p x then f x else none) = if q x then some (g x) else none) :
    (l.filter p).filterMap f = (l.filter q).map g := by
  induction l with
  | nil => rfl
  | cons x l ih =>
    have hx := h x
    cases hp : p x <;> cases hq : q x <;> simp [hp, hq] at hx <;> simp [hp, hq, ih, hx]

/-- the related nodes the loop of `RelationConstraint.match` evaluates, with repetitions -/
def relElig (t : Pk.Ref.Tbl) (w : World) (r : RFlat) (atT : Time) (child : Bool) (cls : List Claim) : List Ref :=
  cls.filterMap (fun cl =>
    if r.matchesAttr cl.attr && w.hasAttrValue cl.pn atT cl.attr cl.value then relTarget t child cl else none)

theorem relLoop_any {t : Pk.Ref.Tbl} {w : World} {r : RFlat} {atT : Time} {child : Bool} {m : BlobMeta → St → R}
    {ψ : BlobMeta → Bool} {F : Prop} (hm : ∀ b s, GoodF (m b s) (ψ b) s F) :
    ∀ (cls : List Claim) (acc : RelAcc) (st : St),
      (∀ cl ∈ cls, ∀ rel, relTarget t child cl = some rel → w.getBlob rel ≠ none) →
      (∀ x ∈ acc.checked, atRef w ψ x = false) →
      ∃ acc' st', relLoop t w r atT child true m cls acc st = .ok (acc', st') ∧
        acc'.anyGood = (acc.anyGood || (relElig t w r atT child cls).any (atRef w ψ)) ∧ (F → st' = st)
  | [], acc, st, _, _ => ⟨acc, st, rfl, by simp [relElig], fun _ => rfl⟩
  | cl :: cls, acc, st, hb, hc => by
    have ih := relLoop_any (t := t) (w := w) (r := r) (atT := atT) (child := child) hm cls
    have hb' : ∀ cl' ∈ cls, ∀ rel, relTarget t child cl' = some rel → w.getBlob rel ≠ none :=
      fun c h => hb c (List.mem_cons_of_mem _ h)
    simp only [relElig] at ih ⊢
    simp only [relLoop, List.filterMap_cons]
    cases hma : r.matchesAttr cl.attr with
    | false => simpa using ih acc st hb' hc
    | true =>
      cases hrt : relTarget t child cl with
      | none => simpa using ih acc st hb' hc
      | some rel =>
        cases hha : w.hasAttrValue cl.pn atT cl.attr cl.value with
        | false => simpa using ih acc st hb' hc
        | true =>
          cases hck : acc.checked.contains rel with
          | true =>
            have hmem : rel ∈ acc.checked := by simpa using hck
            have : atRef w ψ rel = false := hc rel hmem
            simpa [this, hmem] using ih acc st hb' hc
          | false =>
            have hmem : rel ∉ acc.checked := by simpa using hck
            cases hg : w.getBlob rel with
            | none => exact absurd hg (hb cl (List.mem_cons_self ..) rel hrt)
            | some rb =>
              obtain ⟨s1, e1, f1⟩ := hm rb st
              have hat : atRef w ψ rel = ψ rb := by simp [atRef, hg]
              cases hψ : ψ rb with
              | true =>
                rw [hψ] at e1
                exact ⟨{ acc with anyGood := true }, s1, by simp [e1, hmem, hg], by simp [hat, hψ], f1⟩
              | false =>
                rw [hψ] at e1
                obtain ⟨acc', s2, e2, g2, f2⟩ :=
                  ih { acc with anyBad := true, checked := rel :: acc.checked } s1 hb' (by
                    intro x hx
                    cases hx with
                    | head => rw [hat, hψ]
                    | tail _ hx => exact hc x hx)
                exact ⟨acc', s2, by simp [e1, e2, hmem, hg], by simp [g2, hat, hψ], fun hF => (f2 hF).trans (f1 hF)⟩

theorem relLoop_all {t : Pk.Ref.Tbl} {w : World} {r : RFlat} {atT : Time} {child : Bool} {m : BlobMeta → St → R}
    {ψ : BlobMeta → Bool} {F : Prop} (hm : ∀ b s, GoodF (m b s) (ψ b) s F) :
    ∀ (cls : List Claim) (acc : RelAcc) (st : St),
      (∀ cl ∈ cls, ∀ rel, relTarget t child cl = some rel → w.getBlob rel ≠ none) →
      (∀ x ∈ acc.checked, atRef w ψ x = true) → (acc.checked ≠ [] → acc.anyGood = true) →
      ∃ acc' st', relLoop t w r atT child false m cls acc st = .ok (acc', st') ∧
        (acc'.anyGood && !acc'.anyBad) =
          ((acc.anyGood || !(relElig t w r atT child cls).isEmpty) && !acc.anyBad &&
            (relElig t w r atT child cls).all (atRef w ψ)) ∧ (F → st' = st)
  | [], acc, st, _, _, _ => ⟨acc, st, rfl, by simp [relElig], fun _ => rfl⟩
  | cl :: cls, acc, st, hb, hc, hg0 => by
    have ih := relLoop_all (t := t) (w := w) (r := r) (atT := atT) (child := child) hm cls
    have hb' : ∀ cl' ∈ cls, ∀ rel, relTarget t child cl' = some rel → w.getBlob rel ≠ none :=
      fun c h => hb c (List.mem_cons_of_mem _ h)
    simp only [relElig] at ih ⊢
    simp only [relLoop, List.filterMap_cons]
    cases hma : r.matchesAttr cl.attr with
    | false => simpa using ih acc st hb' hc hg0
    | true =>
      cases hrt : relTarget t child cl with
      | none => simpa using ih acc st hb' hc hg0
      | some rel =>
        cases hha : w.hasAttrValue cl.pn atT cl.attr cl.value with
        | false => simpa using ih acc st hb' hc hg0
        | true =>
          cases hck : acc.checked.contains rel with
          | true =>
            have hmem : rel ∈ acc.checked := by simpa using hck
            have h1 : atRef w ψ rel = true := hc rel hmem
            have h2 : acc.anyGood = true := hg0 (by intro h; rw [h] at hmem; cases hmem)
            simpa [h1, h2, hmem] using ih acc st hb' hc hg0
          | false =>
            have hmem : rel ∉ acc.checked := by simpa using hck
            cases hg : w.getBlob rel with
            | none => exact absurd hg (hb cl (List.mem_cons_self ..) rel hrt)
            | some rb =>
              obtain ⟨s1, e1, f1⟩ := hm rb st
              have hat : atRef w ψ rel = ψ rb := by simp [atRef, hg]
              cases hψ : ψ rb with
              | false =>
                rw [hψ] at e1
                exact ⟨{ acc with anyBad := true }, s1, by simp [e1, hmem, hg], by simp [hat, hψ], f1⟩
              | true =>
                rw [hψ] at e1
                obtain ⟨acc', s2, e2, g2, f2⟩ :=
                  ih { acc with anyGood := true, checked := rel :: acc.checked } s1 hb' (by
                    intro x hx
                    cases hx with
                    | head => rw [hat, hψ]
                    | tail _ hx => exact hc x hx) (fun _ => rfl)
                exact ⟨acc', s2, by simp [e1, e2, hmem, hg], by simp [g2, hat, hψ], fun hF => (f2 hF).trans (f1 hF)⟩

theorem related_eq (t : Pk.Ref.Tbl) (w : World) (r : RFlat) (pn : Ref) (atT : Time)
    (hrel : (r.relation == sParent || r.relation == sChild) = true) :
    related t w r pn atT = (relElig t w r atT (r.relation == sChild)
      (if r.relation == sChild then w.claims.filter (fun c => c.pn == pn && inEffect atT c)
       else w.claims.filter (fun c => c.value == pn && refOK t c.value && inEffect atT c))).eraseDups := by
  cases hch : r.relation == sChild with
  | true =>
    simp only [related, hch, if_true, relElig]
    congr 1
    symm
    apply filterMap_filter_eq_map_filter
    intro c
    simp only [relTarget, if_true]
    cases h1 : c.pn == pn with
    | false => simp
    | true =>
      have : c.pn = pn := by simpa using h1
      subst this
      cases inEffect atT c <;> cases r.matchesAttr c.attr <;> cases refOK t c.value <;>
        cases w.hasAttrValue c.pn atT c.attr c.value <;> simp
  | false =>
    rw [hch, Bool.or_false] at hrel
    simp only [related, hch, hrel, if_true, relElig, Bool.false_eq_true, if_false]
    congr 1
    symm
    apply filterMap_filter_eq_map_filter
    intro c
    simp only [relTarget, Bool.false_eq_true, if_false]
    cases c.value == pn <;> cases inEffect atT c <;> cases r.matchesAttr c.attr <;> cases refOK t c.value <;>
      cases w.hasAttrValue c.pn atT c.attr c.value <;> simp

theorem noDangling_target {t : Pk.Ref.Tbl} {w : World} (hd : w.noDangling t = true) {cl : Claim}
    (hcl : cl ∈ w.claims) {child : Bool} {rel : Ref} (h : relTarget t child cl = some rel) :
    w.getBlob rel ≠ none := by
  unfold World.noDangling at hd
  have h1 := List.all_eq_true.mp hd cl hcl
  simp only [Bool.and_eq_true, Bool.or_eq_true, Bool.not_eq_true'] at h1
  cases child with
  | false =>
    simp only [relTarget, Bool.false_eq_true, if_false, Option.some.injEq] at h
    subst h
    intro h2; rw [h2] at h1; simp at h1
  | true =>
    simp only [relTarget, if_true] at h
    cases hr : refOK t cl.value with
    | false => simp [hr] at h
    | true =>
      simp only [hr, if_true, Option.some.injEq] at h
      subst h
      intro h2; rw [h2, hr] at h1; simp at h1

theorem GoodF.relMatch {t : Pk.Ref.Tbl} {w : World} (hd : w.noDangling t = true) {r : RFlat} {atT : Time} {isAny : Bool}
    {m : BlobMeta → St → R} {ψ : BlobMeta → Bool} {F : Prop}
    (hrel : (r.relation == sParent || r.relation == sChild) = true)
    (hm : ∀ b s, GoodF (m b s) (ψ b) s F) (pn : Ref) (st : St) :
    GoodF (Search.relMatch t w r atT isAny m pn st)
      (if isAny then (related t w r pn atT).any (atRef w ψ)
       else !(related t w r pn atT).isEmpty && (related t w r pn atT).all (atRef w ψ)) st F := by
  rw [related_eq t w r pn atT hrel, any_eraseDups, all_eraseDups, isEmpty_eraseDups]
  simp only [Search.relMatch]
  generalize hcls : (if (r.relation == sChild) = true then w.claims.filter (fun c => c.pn == pn && inEffect atT c)
       else w.claims.filter (fun c => c.value == pn && refOK t c.value && inEffect atT c)) = cls
  have hsub : ∀ cl ∈ cls, cl ∈ w.claims := by
    intro cl h
    rw [← hcls] at h
    split at h <;> exact (List.mem_filter.mp h).1
  have hb : ∀ cl ∈ cls, ∀ rel, relTarget t (r.relation == sChild) cl = some rel → w.getBlob rel ≠ none :=
    fun cl h rel hr => noDangling_target hd (hsub cl h) hr
  cases isAny with
  | true =>
    obtain ⟨acc', s1, e1, g1, f1⟩ := relLoop_any (r := r) (atT := atT) hm cls ⟨false, false, []⟩ st hb (by simp)
    exact ⟨s1, by simp [e1, g1], f1⟩
  | false =>
    obtain ⟨acc', s1, e1, g1, f1⟩ := relLoop_all (r := r) (atT := atT) hm cls ⟨false, false, []⟩ st hb (by simp) (by simp)
    exact ⟨s1, by simp [e1, g1], f1⟩

/-! ## The scratch slice and the loop over attribute values -/

theorem setVals_spec (s : St) (vals : List Str) :
    (s.setVals vals).2.2 = vals.length ∧
      ∀ i, i < vals.length → (s.setVals vals).1.read (s.setVals vals).2 i = vals.getD i [] := by
  unfold St.setVals
  simp only
  split
  · rename_i h0
    have : vals.length = 0 := by simpa using h0
    exact ⟨this.symm, fun i hi => by omega⟩
  · split
    · rename_i h0 h1
      refine ⟨rfl, fun i hi => ?_⟩
      have hlen : vals.length ≠ 0 := by simpa using h0
      have hcur : s.cur < s.arrs.length := by
        apply Classical.byContradiction
        intro hn
        have : s.cap = 0 := by
          unfold St.cap
          rw [List.getD_eq_getElem?_getD, List.getElem?_eq_none (by omega)]
          rfl
        omega
      simp only [St.read, List.getD_eq_getElem?_getD, List.getElem?_set_self hcur, Option.getD_some]
      rw [List.getElem?_append_left hi]
    · refine ⟨rfl, fun i hi => ?_⟩
      simp only [St.read, List.getD_eq_getElem?_getD, List.getElem?_concat_length, Option.getD_some]
      rw [List.getElem?_append_left hi]

/-! the fold path of AppendPermanodeAttrValues on the scratch arrays -/

theorem delLoop_shift (pre mid post : List Str) (x : Str) :
    List.take pre.length (pre ++ x :: mid ++ post) ++
        List.take (pre.length + (x :: mid).length - pre.length - 1)
          (List.drop (pre.length + 1) (pre ++ x :: mid ++ post)) ++
        List.drop (pre.length + (x :: mid).length - 1) (pre ++ x :: mid ++ post) =
      pre ++ mid ++ ((x :: mid).drop mid.length ++ post) := by
  have h1 : pre.length + (x :: mid).length - pre.length - 1 = mid.length := by simp
  have h2 : pre.length + (x :: mid).length - 1 = pre.length + mid.length := by simp
  have h3 : pre ++ x :: mid ++ post = pre ++ (x :: (mid ++ post)) := by simp
  have h4 : List.drop (pre.length + 1) pre = [] := List.drop_eq_nil_of_le (by omega)
  have h5 : List.drop mid.length (x :: (mid ++ post)) = List.drop mid.length (x :: mid) ++ post := by
    rw [← List.cons_append, List.drop_append_of_le_length (by simp)]
  rw [h1, h2, h3, List.take_left' rfl, List.drop_append, List.drop_length_add_append]
  simp only [Nat.add_sub_cancel_left, List.drop_succ_cons, List.drop_zero, h4, List.nil_append,
    List.take_left' rfl, h5, List.append_assoc]

/-- the in-place delete loop: from `pre ++ mid ++ post` with `i = |pre|`, `len = |pre| + |mid|` it
leaves `pre ++ (mid without val) ++ junk ++ post` and the new length -/
theorem delLoop_spec (val : Str) : ∀ (fuel : Nat) (pre mid post : List Str), mid.length < fuel →
    ∃ junk, delLoop val fuel pre.length (pre.length + mid.length) (pre ++ mid ++ post) =
      (pre ++ mid.filter (fun v => v != val) ++ junk ++ post,
        pre.length + (mid.filter (fun v => v != val)).length)
  | 0, _, _, _, h => by omega
  | fuel + 1, pre, [], post, _ => ⟨[], by simp [delLoop]⟩
  | fuel + 1, pre, x :: mid, post, h => by
    have hget : (pre ++ x :: mid ++ post).getD pre.length [] = x := by
      simp [List.getD_eq_getElem?_getD]
    have hlt : ¬ (pre.length ≥ pre.length + (x :: mid).length) := by simp
    simp only [delLoop, hlt, if_false, hget]
    cases hx : x == val with
    | true =>
      have hl : pre.length + (x :: mid).length - 1 = pre.length + mid.length := by simp
      obtain ⟨junk, hj⟩ := delLoop_spec val fuel pre mid ((x :: mid).drop mid.length ++ post)
        (by simp at h; omega)
      refine ⟨junk ++ (x :: mid).drop mid.length, ?_⟩
      rw [if_pos rfl, delLoop_shift, hl, hj]
      simp [hx, bne]
    | false =>
      obtain ⟨junk, hj⟩ := delLoop_spec val fuel (pre ++ [x]) mid post (by simp at h; omega)
      refine ⟨junk, ?_⟩
      simp only [Bool.false_eq_true, if_false]
      have e1 : pre.length + 1 = (pre ++ [x]).length := by simp
      have e2 : pre.length + (x :: mid).length = (pre ++ [x]).length + mid.length := by simp; omega
      have e3 : pre ++ x :: mid ++ post = pre ++ [x] ++ mid ++ post := by simp
      rw [e1, e2, e3, hj]
      simp [hx, bne]; omega

theorem take_succ_set {α} (a : List α) (n : Nat) (v : α) (h : n < a.length) :
    (a.set n v).take (n + 1) = a.take n ++ [v] := by
  rw [List.take_add_one, List.take_set_of_le (Nat.le_refl _), List.getElem?_set_self h]; rfl

theorem take_take_append {α} (a r : List α) (n : Nat) (v : α) (h : n ≤ a.length) :
    (a.take n ++ [v] ++ r).take (n + 1) = a.take n ++ [v] := by
  apply List.take_left'
  simp; omega

theorem arr_of_ge {s : St} {id : Nat} (h : s.arrs.length ≤ id) : s.arr id = [] := by
  unfold St.arr; rw [List.getD_eq_getElem?_getD, List.getElem?_eq_none h]; rfl

theorem arr_set {s : St} {id : Nat} (a : List Str) (c : Nat) (h : id < s.arrs.length) :
    St.arr ⟨s.arrs.set id a, c⟩ id = a := by
  simp [St.arr, List.getD_eq_getElem?_getD, List.getElem?_set_self h]

theorem arr_append_self {s : St} (a : List Str) (c : Nat) :
    St.arr ⟨s.arrs ++ [a], c⟩ s.arrs.length = a := by
  simp [St.arr, List.getD_eq_getElem?_getD]

/-- `dst` holds `vals`: the first `d.len` entries of its array -/
def DstInv (s : St) (d : Dst) (vals : List Str) : Prop :=
  (s.arr d.id).take d.len = vals ∧ d.len ≤ (s.arr d.id).length

theorem push_spec {s : St} {d : Dst} {vals : List Str} (h : DstInv s d vals) (v : Str) :
    DstInv (s.push d v).1 (s.push d v).2 (vals ++ [v]) := by
  obtain ⟨h1, h2⟩ := h
  unfold St.push
  simp only
  split
  · rename_i hlt
    have hid : d.id < s.arrs.length := by
      apply Classical.byContradiction
      intro hn
      rw [arr_of_ge (by omega)] at hlt; simp at hlt
    unfold DstInv
    simp only [arr_set _ _ hid, List.length_set]
    exact ⟨by rw [take_succ_set _ _ _ hlt, h1], by omega⟩
  · rename_i hge
    unfold DstInv
    simp only [arr_append_self]
    refine ⟨?_, ?_⟩
    · rw [take_take_append _ _ _ _ h2]
      exact congrArg (· ++ [v]) h1
    · simp only [List.length_append, List.length_take, List.length_cons, List.length_nil]
      omega

theorem foldClaim_spec {s : St} {d : Dst} {vals : List Str} (h : DstInv s d vals) (c : Claim) :
    DstInv (St.foldClaim (s, d) c).1 (St.foldClaim (s, d) c).2 (applyClaim vals c) := by
  unfold St.foldClaim applyClaim
  simp only
  cases c.kind with
  | set => exact push_spec (vals := []) ⟨by simp, by simp⟩ c.value
  | add => exact push_spec h c.value
  | delete => exact h
  | del =>
    simp only
    cases hv : c.value.isEmpty with
    | true => exact ⟨by simp, by simp⟩
    | false =>
      obtain ⟨h1, h2⟩ := h
      simp only [Bool.false_eq_true, if_false]
      have hlen : vals.length = d.len := by rw [← h1]; simp; omega
      have hdec : s.arr d.id = [] ++ vals ++ (s.arr d.id).drop d.len := by
        rw [← h1]; simp
      obtain ⟨junk, hj⟩ := delLoop_spec c.value (2 * d.len + 1) [] vals ((s.arr d.id).drop d.len) (by omega)
      rw [← hdec] at hj
      simp only [List.length_nil, Nat.zero_add, hlen, List.nil_append] at hj
      rw [hj]
      simp only
      by_cases hid : d.id < s.arrs.length
      · unfold DstInv
        simp only [arr_set _ _ hid]
        exact ⟨by rw [List.append_assoc]; exact List.take_left' rfl, by simp⟩
      · have hnil : s.arr d.id = [] := arr_of_ge (by omega)
        have hv0 : vals = [] := by rw [← h1, hnil]; simp
        unfold DstInv
        subst hv0
        simp [St.arr, List.getD_eq_getElem?_getD, List.getElem?_eq_none (Nat.le_of_not_lt hid)]

theorem foldl_foldClaim_spec : ∀ (cls : List Claim) (s : St) (d : Dst) (vals : List Str), DstInv s d vals →
    DstInv (cls.foldl St.foldClaim (s, d)).1 (cls.foldl St.foldClaim (s, d)).2 (cls.foldl applyClaim vals)
  | [], _, _, _, h => h
  | c :: cls, s, d, vals, h => by
    simp only [List.foldl_cons]
    exact foldl_foldClaim_spec cls _ _ _ (foldClaim_spec h c)

theorem foldVals_spec (s : St) (cls : List Claim) :
    (s.foldVals cls).2.2 = (cls.foldl applyClaim []).length ∧
      ∀ i, i < (cls.foldl applyClaim []).length →
        (s.foldVals cls).1.read (s.foldVals cls).2 i = (cls.foldl applyClaim []).getD i [] := by
  obtain ⟨h1, h2⟩ := foldl_foldClaim_spec cls s ⟨s.cur, 0⟩ [] ⟨by simp, by simp⟩
  unfold St.foldVals
  generalize cls.foldl St.foldClaim (s, ⟨s.cur, 0⟩) = sd at h1 h2 ⊢
  obtain ⟨s1, d⟩ := sd
  simp only at h1 h2 ⊢
  have hlen : (cls.foldl applyClaim []).length = d.len := by rw [← h1]; simp; omega
  refine ⟨hlen.symm, fun i hi => ?_⟩
  rw [← h1]
  simp only [St.read, St.arr, List.getD_eq_getElem?_getD] at *
  rw [List.getElem?_take_of_lt (by omega)]

theorem fetchVals_spec (w : World) (st : St) (pn : Ref) (attr : Str) (atT : Time) :
    (fetchVals w st pn attr atT).2.2 = (w.attrVals pn attr atT).length ∧
      ∀ i, i < (w.attrVals pn attr atT).length →
        (fetchVals w st pn attr atT).1.read (fetchVals w st pn attr atT).2 i = (w.attrVals pn attr atT).getD i [] := by
  unfold fetchVals
  split
  · exact setVals_spec st _
  · exact foldVals_spec st _
theorem valsLoop_spec {valM : Str → St → R} {φ : Str → Bool} {view : Nat × Nat} {vals : List Str}
    (hv : ∀ v s, valM v s = .ok (φ v, s)) :
    ∀ (k i nm : Nat) (st : St), i + k = vals.length →
      (∀ j, j < vals.length → st.read view j = vals.getD j []) →
      valsLoop valM view k i nm st = .ok (nm + ((vals.drop i).filter φ).length, st)
  | 0, i, nm, st, hik, _ => by
    simp only [valsLoop]
    rw [List.drop_of_length_le (by omega)]; rfl
  | k + 1, i, nm, st, hik, hr => by
    have hi : i < vals.length := by omega
    simp only [valsLoop, hr i hi, hv]
    rw [valsLoop_spec hv k (i + 1) _ st (by omega) hr]
    rw [List.drop_eq_getElem_cons hi, List.getD_eq_getElem?_getD, List.getElem?_eq_getElem hi, Option.getD_some]
    cases hφ : φ vals[i] with
    | false => rw [List.filter_cons_of_neg (by simp [hφ])]; simp
    | true => rw [List.filter_cons_of_pos hφ]; simp only [if_true, List.length_cons]; congr 2; omega

/-! ## Contains / RecursiveContains of the documented shapes -/

theorem ccMatcher_eq (t : Pk.Ref.Tbl) (w : World) {op : Op} {a b : Cons} {f : Flat} {pn : Perm} {fl : FileC} {dr : DirC}
    (h : containsShape (.mk op a b f pn fl dr) = true) :
    ccMatcher op f fl.isNil dr.isNil (isFileOrDir (.mk op a b f pn fl dr))
      (fun cb s => matchF t w fl cb s) (fun cb s => matchD t w dr cb s)
      (fun cb s => matchC t w a cb s) (fun cb s => matchC t w b cb s) =
    .ok (fun cb s => matchC t w (.mk op a b f pn fl dr) cb s) := by
  simp only [containsShape] at h
  cases hp : f.pfx.isEmpty with
  | false =>
    simp [hp] at h
    obtain ⟨⟨⟨⟨⟨⟨⟨h1, h2⟩, h3⟩, h4⟩, h5⟩, h6⟩, h7⟩, h8⟩ := h
    simp [ccMatcher, hp, matchC, h1, h2, h3, h4, h5, h6, h7, h8, Search.cond, Search.andThen]
  | true =>
    cases hfl : fl.isNil with
    | false =>
      simp [hp, hfl] at h
      obtain ⟨⟨⟨⟨⟨⟨h1, h2⟩, h3⟩, h4⟩, h5⟩, h6⟩, h7⟩ := h
      simp [ccMatcher, hp, matchC, h1, h2, h3, h4, h5, h6, h7, hfl, Search.cond, Search.andThen, isFileOrDir]
    | true =>
      cases hdr : dr.isNil with
      | false =>
        simp [hp, hfl, hdr] at h
        obtain ⟨⟨⟨⟨⟨h1, h2⟩, h3⟩, h4⟩, h5⟩, h6⟩ := h
        simp [ccMatcher, hp, matchC, h1, h2, h3, h4, h5, h6, hfl, hdr, Search.cond, Search.andThen, isFileOrDir]
      | true =>
        simp [hp, hfl, hdr] at h
        obtain ⟨⟨⟨⟨⟨⟨h1, h2⟩, h3⟩, h4⟩, h5⟩, h6⟩, h7⟩ := h
        have h6' : (op != Op.none) = true := by simpa [bne] using h6
        simp [ccMatcher, hp, matchC, h1, h2, h3, h4, h5, h6', h7, hfl, hdr, Search.cond, Search.andThen]

/-! ## Permanode constraints -/

section
variable (t : Pk.Ref.Tbl) (w : World)

/-- permanodeMatchesAttrVal -/
def attrValM (p : PFlat) (inSet : Cons) : Str → St → R := fun v s =>
  if !p.valueOK v then .ok (false, s) else
  if inSet.isNil then .ok (true, s) else
  if !refOK t v then .ok (false, s) else
  match w.getBlob v with
  | none => .ok (false, s)
  | some vb => matchC t w inSet vb s

/-- the `Attr` part of `matchP` -/
def attrPart (p : PFlat) (inSet : Cons) (bm : BlobMeta) (st : St) : R :=
  if p.attr.isEmpty then .ok (true, st) else
  let (st0, view) := fetchVals w st bm.ref p.attr p.atT
  if !optInt p.numValue view.2 then .ok (false, st0) else
  if !p.hasValueConstraint inSet.isNil then .ok (true, st0) else
  match valsLoop (attrValM t w p inSet) view view.2 0 0 st0 with
  | .error e => .error e
  | .ok (nmatch, st1) =>
    if nmatch == 0 then .ok (false, st1)
    else if p.valueAll then .ok (nmatch == view.2, st1)
    else .ok (true, st1)

/-- the rest of `matchP` -/
def restPart (p : PFlat) (rel : Option RFlat) (relAny relAll : Cons) (bm : BlobMeta) (st1 : St) : R :=
  if p.skipHidden && (w.attrVal bm.ref sCamliDefVis p.atT == sHide || w.attrVal bm.ref sCamliNodeType p.atT == sVenue)
  then .ok (false, st1) else
  if !optTime p.modTime (w.modTime bm.ref) then .ok (false, st1) else
  if !optTime p.time (w.anyTime bm.ref) then .ok (false, st1) else
  match rel with
  | none => .ok (true, st1)
  | some r =>
    if !relAny.isNil then relMatch t w r p.atT true (fun b s => matchC t w relAny b s) bm.ref st1
    else relMatch t w r p.atT false (fun b s => matchC t w relAll b s) bm.ref st1

theorem matchP_mk (p : PFlat) (inSet : Cons) (rel : Option RFlat) (relAny relAll : Cons) (bm : BlobMeta) (st : St) :
    matchP t w (.mk p inSet rel relAny relAll) bm st =
      if bm.camliType != sPermanode then .ok (false, st) else
      andThen (attrPart t w p inSet bm st) (fun st1 => restPart t w p rel relAny relAll bm st1) := by
  rw [matchP]; rfl

def valPhi (p : PFlat) (inSet : Cons) (v : Str) : Bool :=
  p.valueOK v && (inSet.isNil || (refOK t v && atRef w (matchesC t w inSet) v))

def attrSpec (p : PFlat) (inSet : Cons) (bm : BlobMeta) : Bool :=
  p.attr.isEmpty ||
    (optInt p.numValue (w.attrVals bm.ref p.attr p.atT).length &&
      (!p.hasValueConstraint inSet.isNil ||
        (((w.attrVals bm.ref p.attr p.atT).filter (valPhi t w p inSet)).length != 0 &&
          (!p.valueAll || ((w.attrVals bm.ref p.attr p.atT).filter (valPhi t w p inSet)).length ==
            (w.attrVals bm.ref p.attr p.atT).length))))

def restSpec (p : PFlat) (rel : Option RFlat) (relAny relAll : Cons) (bm : BlobMeta) : Bool :=
  (!p.skipHidden || (w.attrVal bm.ref sCamliDefVis p.atT != sHide && w.attrVal bm.ref sCamliNodeType p.atT != sVenue)) &&
  optTime p.modTime (w.modTime bm.ref) &&
  optTime p.time (w.anyTime bm.ref) &&
  (match rel with
   | none => true
   | some r =>
     if !relAny.isNil then (related t w r bm.ref p.atT).any (atRef w (matchesC t w relAny))
     else !(related t w r bm.ref p.atT).isEmpty && (related t w r bm.ref p.atT).all (atRef w (matchesC t w relAll)))

theorem matchesP_mk (p : PFlat) (inSet : Cons) (rel : Option RFlat) (relAny relAll : Cons) (bm : BlobMeta) :
    matchesP t w (.mk p inSet rel relAny relAll) bm =
      (bm.camliType == sPermanode && attrSpec t w p inSet bm && restSpec t w p rel relAny relAll bm) := by
  unfold matchesP
  simp only [attrSpec, restSpec, Bool.and_assoc]
  rfl

end

theorem attrValM_spec {t : Pk.Ref.Tbl} {w : World} {p : PFlat} {inSet : Cons}
    (hin : inSet.isNil = false → ∀ b s, matchC t w inSet b s = .ok (matchesC t w inSet b, s)) (v : Str) (s : St) :
    attrValM t w p inSet v s = .ok (valPhi t w p inSet v, s) := by
  unfold attrValM valPhi atRef
  cases p.valueOK v with
  | false => simp
  | true =>
    cases hn : inSet.isNil with
    | true => simp
    | false =>
      cases refOK t v with
      | false => simp
      | true =>
        cases w.getBlob v with
        | none => simp
        | some vb => simp [hin hn]

theorem good_attr {t : Pk.Ref.Tbl} {w : World} {p : PFlat} {inSet : Cons} {bm : BlobMeta} {st : St} {F : Prop}
    (hin : p.attr.isEmpty = false → inSet.isNil = false →
      ∀ b s, matchC t w inSet b s = .ok (matchesC t w inSet b, s))
    (hF : F → p.attr.isEmpty = true) :
    GoodF (attrPart t w p inSet bm st) (attrSpec t w p inSet bm) st F := by
  unfold attrPart attrSpec
  cases ha : p.attr.isEmpty with
  | true => simp; exact GoodF.ok _ _ _
  | false =>
    have hFalse : ∀ s : St, F → s = st := fun s h => by rw [hF h] at ha; cases ha
    obtain ⟨hlen, hread⟩ := fetchVals_spec w st bm.ref p.attr p.atT
    generalize fetchVals w st bm.ref p.attr p.atT = sv at hlen hread ⊢
    obtain ⟨st0, view⟩ := sv
    simp only at hlen hread ⊢
    simp only [Bool.false_eq_true, if_false, Bool.false_or, hlen]
    cases optInt p.numValue (w.attrVals bm.ref p.attr p.atT).length with
    | false => exact ⟨st0, by simp, hFalse _⟩
    | true =>
      cases p.hasValueConstraint inSet.isNil with
      | false => exact ⟨st0, by simp, hFalse _⟩
      | true =>
        rw [valsLoop_spec (φ := valPhi t w p inSet) (vals := w.attrVals bm.ref p.attr p.atT)
          (attrValM_spec (hin ha)) _ 0 0 st0 (by omega) hread]
        simp only [List.drop_zero, Nat.zero_add]
        generalize (List.filter (valPhi t w p inSet) (w.attrVals bm.ref p.attr p.atT)).length = g
        refine ⟨st0, ?_, hFalse _⟩
        cases hg : g == 0 with
        | true => simp [hg, bne]
        | false => cases p.valueAll <;> simp [hg, bne]

theorem good_rest {t : Pk.Ref.Tbl} {w : World} (hd : w.noDangling t = true) {p : PFlat} {rel : Option RFlat}
    {relAny relAll : Cons} {bm : BlobMeta} {st : St} {F : Prop}
    (hrel : ∀ r, rel = some r →
      (r.relation == sParent || r.relation == sChild) = true ∧ (relAny.isNil != relAll.isNil) = true)
    (hany : relAny.isNil = false → ∀ b s, GoodF (matchC t w relAny b s) (matchesC t w relAny b) s F)
    (hall : relAll.isNil = false → ∀ b s, GoodF (matchC t w relAll b s) (matchesC t w relAll b) s F) :
    GoodF (restPart t w p rel relAny relAll bm st) (restSpec t w p rel relAny relAll bm) st F := by
  unfold restPart restSpec
  simp only [bne]
  generalize (w.attrVal bm.ref sCamliDefVis p.atT == sHide) = x
  generalize (w.attrVal bm.ref sCamliNodeType p.atT == sVenue) = y
  cases h1 : (p.skipHidden && (x || y)) with
  | true =>
    have : (!p.skipHidden || !x && !y) = false := by
      revert h1; cases p.skipHidden <;> cases x <;> cases y <;> simp
    simp [this]; exact GoodF.ok _ _ _
  | false =>
    have : (!p.skipHidden || !x && !y) = true := by
      revert h1; cases p.skipHidden <;> cases x <;> cases y <;> simp
    simp only [this, Bool.false_eq_true, if_false, Bool.true_and]
    cases optTime p.modTime (w.modTime bm.ref) with
    | false => simp; exact GoodF.ok _ _ _
    | true =>
      cases optTime p.time (w.anyTime bm.ref) with
      | false => simp; exact GoodF.ok _ _ _
      | true =>
        simp only [Bool.not_true, Bool.false_eq_true, if_false, Bool.true_and]
        cases rel with
        | none => exact GoodF.ok _ _ _
        | some r =>
          obtain ⟨hr1, hr2⟩ := hrel r rfl
          simp only
          cases hn : relAny.isNil with
          | false =>
            simp only [Bool.not_false, if_true]
            exact GoodF.relMatch hd hr1 (hany hn) bm.ref st
          | true =>
            have hn2 : relAll.isNil = false := by
              revert hr2; rw [hn]; cases relAll.isNil <;> simp
            simp only [Bool.not_true, Bool.false_eq_true, if_false]
            exact GoodF.relMatch hd hr1 (hall hn2) bm.ref st

theorem good_P_node {t : Pk.Ref.Tbl} {w : World} (hd : w.noDangling t = true) {p : PFlat} {inSet : Cons}
    {rel : Option RFlat} {relAny relAll : Cons} {F : Prop}
    (hin : p.attr.isEmpty = false → inSet.isNil = false →
      ∀ b s, matchC t w inSet b s = .ok (matchesC t w inSet b, s))
    (hF : F → p.attr.isEmpty = true)
    (hrel : ∀ r, rel = some r →
      (r.relation == sParent || r.relation == sChild) = true ∧ (relAny.isNil != relAll.isNil) = true)
    (hany : relAny.isNil = false → ∀ b s, GoodF (matchC t w relAny b s) (matchesC t w relAny b) s F)
    (hall : relAll.isNil = false → ∀ b s, GoodF (matchC t w relAll b s) (matchesC t w relAll b) s F)
    (bm : BlobMeta) (st : St) :
    GoodF (matchP t w (.mk p inSet rel relAny relAll) bm st) (matchesP t w (.mk p inSet rel relAny relAll) bm) st F := by
  rw [matchP_mk, matchesP_mk]
  cases h : bm.camliType == sPermanode with
  | false => simp [bne, h]; exact GoodF.ok _ _ _
  | true =>
    simp only [bne, h, Bool.not_true, Bool.false_eq_true, if_false, Bool.true_and]
    exact GoodF.andThen (good_attr hin hF) (fun _ _ => good_rest hd hrel hany hall)

/-! ## File and directory constraints -/

theorem good_parent {t : Pk.Ref.Tbl} {w : World} {parentDir : DirC} {F : Prop}
    (hpar : parentDir.isNil = false → ∀ b s, GoodF (matchD t w parentDir b s) (matchesD t w parentDir b) s F)
    (bm : BlobMeta) (st : St) :
    GoodF (if parentDir.isNil then .ok (true, st)
           else Search.anyOf w (fun b s => matchD t w parentDir b s) (w.parents bm.ref) st)
      (parentDir.isNil || (w.parents bm.ref).any (atRef w (matchesD t w parentDir))) st F := by
  cases hn : parentDir.isNil with
  | true => exact GoodF.ok _ _ _
  | false =>
    simp only [Bool.false_eq_true, if_false, Bool.false_or]
    exact GoodF.anyOf (hpar hn) _ st

theorem good_F_node {t : Pk.Ref.Tbl} {w : World} {f : FFlat} {parentDir : DirC} {F : Prop}
    (hpar : parentDir.isNil = false → ∀ b s, GoodF (matchD t w parentDir b s) (matchesD t w parentDir b) s F)
    (bm : BlobMeta) (st : St) :
    GoodF (matchF t w (.mk f parentDir) bm st) (matchesF t w (.mk f parentDir) bm) st F := by
  rw [matchF]
  unfold matchesF
  cases h : bm.camliType == sFile with
  | false => simp [bne, h]; exact GoodF.ok _ _ _
  | true =>
    simp only [bne, h, Bool.not_true, Bool.false_eq_true, if_false, Bool.true_and]
    cases w.fileInfo bm.ref with
    | none => exact GoodF.ok _ _ _
    | some fi =>
      simp only
      cases hfl : (optInt f.size fi.size && optStr f.name fi.name && optStr f.mime fi.mime &&
           optTime f.time fi.time && optTime f.modTime fi.modTime) with
      | false => simp; exact GoodF.ok _ _ _
      | true =>
        simp only [Bool.not_true, Bool.false_eq_true, if_false, Bool.true_and]
        exact GoodF.andThen (good_parent hpar bm st) (fun _ s => GoodF.ok _ _ _)

theorem good_dirParent {t : Pk.Ref.Tbl} {w : World} {parentDir : DirC} {F : Prop}
    (hpar : parentDir.isNil = false → ∀ b s, GoodF (matchD t w parentDir b s) (matchesD t w parentDir b) s F)
    (bm : BlobMeta) (s : St) :
    GoodF (dirParent w (if parentDir.isNil then none else some (fun b s => matchD t w parentDir b s)) bm s)
      (parentDir.isNil || (w.parents bm.ref).any (atRef w (matchesD t w parentDir))) s F := by
  cases hn : parentDir.isNil with
  | true => exact GoodF.ok _ _ _
  | false =>
    simp only [Bool.false_eq_true, if_false, Bool.false_or, dirParent]
    exact GoodF.anyOf (hpar hn) _ s

theorem good_D_node {t : Pk.Ref.Tbl} {w : World} (hi : w.dirsHaveInfo = true) {d : DFlat} {parentDir : DirC}
    {rc cc : Cons} {F : Prop}
    (hpar : parentDir.isNil = false → ∀ b s, GoodF (matchD t w parentDir b s) (matchesD t w parentDir b) s F)
    (hcc : cc.isNil = false → ∀ b s, GoodF (matchC t w cc b s) (matchesC t w cc b) s F)
    (hrc : rc.isNil = false → ∀ b s, GoodF (matchC t w rc b s) (matchesC t w rc b) s F)
    (hsh1 : containsShape rc = true) (hsh2 : containsShape cc = true)
    (hsafe : (!(cc.isNil && !rc.isNil) ||
      (d.name.isNone && d.pfx.isEmpty && parentDir.isNil && d.topFileCount.isNone)) = true)
    (bm : BlobMeta) (st : St) :
    GoodF (matchD t w (.mk d parentDir rc cc) bm st) (matchesD t w (.mk d parentDir rc cc) bm) st F := by
  cases cc with
  | mk op a b f pn fl dr =>
    simp only [matchD]
    rw [ccMatcher_eq t w hsh2]
    refine (GoodF.dirBody_succ (good_dirParent hpar bm)
      (fun s => GoodF.dirTail_some (σ := fun _ => false) (hcc rfl) (by intro h; cases h)) st).congr ?_
    unfold matchesD
    cases w.fileInfo bm.ref with
    | none => rfl
    | some fi =>
      simp only [Bool.false_and, Bool.or_false, Bool.and_assoc, Cons.isNil, Bool.not_false, if_true]
      rfl
  | nil =>
    cases rc with
    | mk op a b f pn fl dr =>
      simp only [Cons.isNil, Bool.not_false, Bool.and_true, Bool.not_true, Bool.false_or, Bool.and_eq_true,
        Option.isNone_iff_eq_none] at hsafe
      obtain ⟨⟨⟨hname, hpfx⟩, hpn⟩, htfc⟩ := hsafe
      simp only [matchD, hpn, if_true]
      rw [ccMatcher_eq t w hsh1]
      refine (GoodF.dirBody_rec hi hname hpfx htfc (hrc rfl) _ bm st).congr ?_
      unfold matchesD
      cases w.fileInfo bm.ref with
      | none => simp
      | some fi => simp [hname, hpfx, hpn, htfc, optStr, optInt, Cons.isNil]
    | nil =>
      simp only [matchD]
      refine (GoodF.dirBody_succ (good_dirParent hpar bm) (fun s => GoodF.dirTail_none) st).congr ?_
      unfold matchesD
      cases w.fileInfo bm.ref with
      | none => rfl
      | some fi =>
        simp only [Bool.and_assoc, Cons.isNil, Bool.not_true, Bool.false_eq_true, if_false, Bool.and_true]
        rfl

/-! ## Constraints -/

theorem good_C_node {t : Pk.Ref.Tbl} {w : World} {op : Op} {a b : Cons} {f : Flat} {pn : Perm} {fl : FileC}
    {dr : DirC} {F : Prop}
    (hv : (op == .none || (!a.isNil && (op == .not || !b.isNil))) = true)
    (ha : a.isNil = false → ∀ bm s, GoodF (matchC t w a bm s) (matchesC t w a bm) s F)
    (hb : b.isNil = false → ∀ bm s, GoodF (matchC t w b bm s) (matchesC t w b bm) s F)
    (hpn : pn.isNil = false → ∀ bm s, GoodF (matchP t w pn bm s) (matchesP t w pn bm) s F)
    (hfl : fl.isNil = false → ∀ bm s, GoodF (matchF t w fl bm s) (matchesF t w fl bm) s F)
    (hdr : dr.isNil = false → ∀ bm s, GoodF (matchD t w dr bm s) (matchesD t w dr bm) s F)
    (bm : BlobMeta) (st : St) :
    GoodF (matchC t w (.mk op a b f pn fl dr) bm st) (matchesC t w (.mk op a b f pn fl dr) bm) st F := by
  simp only [matchC, matchesC]
  cases hnz : (op != .none || f.anything || !f.camliType.isEmpty || f.anyCamliType || !pn.isNil || !fl.isNil ||
      !dr.isNil || f.blobSize.isSome || !f.pfx.isEmpty) with
  | false => simp; exact GoodF.ok _ _ _
  | true =>
    simp only [Bool.not_true, Bool.false_eq_true, if_false]
    refine GoodF.cond (GoodF.cond (GoodF.cond (GoodF.cond (GoodF.cond (GoodF.cond (GoodF.cond (GoodF.cond
      (GoodF.ok _ _ _) ?_ ?_) ?_ ?_) ?_ ?_) ?_ ?_) ?_ ?_) ?_ ?_) ?_ ?_) ?_ ?_
    · intro h; cases op <;> simp_all
    · intro hop s
      have hop' : op ≠ .none := by intro h; subst h; simp at hop
      have hop2 : (op == Op.none) = false := by cases op <;> simp_all
      rw [hop2, Bool.false_or, Bool.and_eq_true] at hv
      have han : a.isNil = false := by simpa using hv.1
      refine (GoodF.logical hop' (ha han bm) (fun hnot => hb ?_ bm)).congr (by cases op <;> rfl)
      have : (op == Op.not) = false := by cases op <;> simp_all
      simpa [this] using hv.2
    · intro h; simp_all
    · intro h s; exact (GoodF.ok _ _ _).congr (by simp_all)
    · intro h; simp_all
    · intro h s; exact (GoodF.ok _ _ _).congr (by simp_all)
    · intro h; simp_all
    · intro h s; exact (hpn (by simpa using h) bm s).congr (by simp_all)
    · intro h; simp_all
    · intro h s; exact (hfl (by simpa using h) bm s).congr (by simp_all)
    · intro h; simp_all
    · intro h s; exact (hdr (by simpa using h) bm s).congr (by simp_all)
    · intro h; simp_all
    · intro h s; exact (GoodF.ok _ _ _).congr (by simp_all)
    · intro h; simp_all
    · intro h s; exact (GoodF.ok _ _ _).congr (by simp_all)

/-! ## The guards, and the induction over the constraint tree -/

/-- the three guards on a subtree, and `F` implies that it asks for no attribute values -/
structure G (F : Prop) (all : NodePred → Bool) : Prop where
  dv : all deepValidPred = true
  ss : all scratchSafePred = true
  ds : all dirSafePred = true
  fr : F → all noAttrPred = true

theorem G.mono {F : Prop} {all all' : NodePred → Bool} (g : G F all) (h : ∀ φ, all φ = true → all' φ = true) :
    G F all' :=
  ⟨h _ g.dv, h _ g.ss, h _ g.ds, fun hF => h _ (g.fr hF)⟩

theorem allC_mk {φ : NodePred} {op : Op} {a b : Cons} {f : Flat} {pn : Perm} {fl : FileC} {dr : DirC}
    (h : allC φ (.mk op a b f pn fl dr) = true) :
    φ.c op a b f pn fl dr = true ∧ allC φ a = true ∧ allC φ b = true ∧ allP φ pn = true ∧
      allF φ fl = true ∧ allD φ dr = true := by
  simp only [allC, Bool.and_eq_true] at h
  exact ⟨h.1.1.1.1.1, h.1.1.1.1.2, h.1.1.1.2, h.1.1.2, h.1.2, h.2⟩

theorem allP_mk {φ : NodePred} {p : PFlat} {inSet : Cons} {rel : Option RFlat} {relAny relAll : Cons}
    (h : allP φ (.mk p inSet rel relAny relAll) = true) :
    φ.p p inSet rel relAny relAll = true ∧ allC φ inSet = true ∧ allC φ relAny = true ∧ allC φ relAll = true := by
  simp only [allP, Bool.and_eq_true] at h
  exact ⟨h.1.1.1, h.1.1.2, h.1.2, h.2⟩

theorem allF_mk {φ : NodePred} {f : FFlat} {parentDir : DirC} (h : allF φ (.mk f parentDir) = true) :
    allD φ parentDir = true := by
  simpa only [allF] using h

theorem allD_mk {φ : NodePred} {d : DFlat} {parentDir : DirC} {rc cc : Cons}
    (h : allD φ (.mk d parentDir rc cc) = true) :
    φ.d d parentDir rc cc = true ∧ allD φ parentDir = true ∧ allC φ rc = true ∧ allC φ cc = true := by
  simp only [allD, Bool.and_eq_true] at h
  exact ⟨h.1.1.1, h.1.1.2, h.1.2, h.2⟩

mutual
theorem good_C (t : Pk.Ref.Tbl) (w : World) (hd : w.noDangling t = true) (hi : w.dirsHaveInfo = true) :
    ∀ (c : Cons) (F : Prop), c.isNil = false → G F (fun φ => allC φ c) →
      ∀ bm st, GoodF (matchC t w c bm st) (matchesC t w c bm) st F
  | .nil, _, h, _, _, _ => by simp [Cons.isNil] at h
  | .mk op a b f pn fl dr, F, _, g, bm, st => by
    have ga : G F (fun φ => allC φ a) := g.mono (fun _ h => (allC_mk h).2.1)
    have gb : G F (fun φ => allC φ b) := g.mono (fun _ h => (allC_mk h).2.2.1)
    have gp : G F (fun φ => allP φ pn) := g.mono (fun _ h => (allC_mk h).2.2.2.1)
    have gf : G F (fun φ => allF φ fl) := g.mono (fun _ h => (allC_mk h).2.2.2.2.1)
    have gd : G F (fun φ => allD φ dr) := g.mono (fun _ h => (allC_mk h).2.2.2.2.2)
    exact good_C_node (allC_mk g.dv).1
      (fun hn => good_C t w hd hi a F hn ga) (fun hn => good_C t w hd hi b F hn gb)
      (fun hn => good_P t w hd hi pn F hn gp) (fun hn => good_F t w hd hi fl F hn gf)
      (fun hn => good_D t w hd hi dr F hn gd) bm st
theorem good_P (t : Pk.Ref.Tbl) (w : World) (hd : w.noDangling t = true) (hi : w.dirsHaveInfo = true) :
    ∀ (pn : Perm) (F : Prop), pn.isNil = false → G F (fun φ => allP φ pn) →
      ∀ bm st, GoodF (matchP t w pn bm st) (matchesP t w pn bm) st F
  | .nil, _, h, _, _, _ => by simp [Perm.isNil] at h
  | .mk p inSet rel relAny relAll, F, _, g, bm, st => by
    have gin : G F (fun φ => allC φ inSet) := g.mono (fun _ h => (allP_mk h).2.1)
    have gany : G F (fun φ => allC φ relAny) := g.mono (fun _ h => (allP_mk h).2.2.1)
    have gall : G F (fun φ => allC φ relAll) := g.mono (fun _ h => (allP_mk h).2.2.2)
    have hin : p.attr.isEmpty = false → inSet.isNil = false →
        ∀ b s, matchC t w inSet b s = .ok (matchesC t w inSet b, s) := by
      intro hattr hn b s
      have hna : allC noAttrPred inSet = true := by
        have := (allP_mk g.ss).1
        simpa [scratchSafePred, hattr, noAttr] using this
      obtain ⟨s', e, f⟩ := good_C t w hd hi inSet True hn ⟨gin.dv, gin.ss, gin.ds, fun _ => hna⟩ b s
      rw [e, f trivial]
    have hF : F → p.attr.isEmpty = true := fun h => by
      have := (allP_mk (g.fr h)).1
      simpa [noAttrPred] using this
    have hrel : ∀ r, rel = some r →
        (r.relation == sParent || r.relation == sChild) = true ∧ (relAny.isNil != relAll.isNil) = true := by
      intro r hr
      have := (allP_mk g.dv).1
      subst hr
      simpa [deepValidPred] using this
    exact good_P_node hd hin hF hrel (fun hn => good_C t w hd hi relAny F hn gany)
      (fun hn => good_C t w hd hi relAll F hn gall) bm st
theorem good_F (t : Pk.Ref.Tbl) (w : World) (hd : w.noDangling t = true) (hi : w.dirsHaveInfo = true) :
    ∀ (fl : FileC) (F : Prop), fl.isNil = false → G F (fun φ => allF φ fl) →
      ∀ bm st, GoodF (matchF t w fl bm st) (matchesF t w fl bm) st F
  | .nil, _, h, _, _, _ => by simp [FileC.isNil] at h
  | .mk f parentDir, F, _, g, bm, st => by
    have gp : G F (fun φ => allD φ parentDir) := g.mono (fun _ h => allF_mk h)
    exact good_F_node (fun hn => good_D t w hd hi parentDir F hn gp) bm st
theorem good_D (t : Pk.Ref.Tbl) (w : World) (hd : w.noDangling t = true) (hi : w.dirsHaveInfo = true) :
    ∀ (dr : DirC) (F : Prop), dr.isNil = false → G F (fun φ => allD φ dr) →
      ∀ bm st, GoodF (matchD t w dr bm st) (matchesD t w dr bm) st F
  | .nil, _, h, _, _, _ => by simp [DirC.isNil] at h
  | .mk d parentDir rc cc, F, _, g, bm, st => by
    have gp : G F (fun φ => allD φ parentDir) := g.mono (fun _ h => (allD_mk h).2.1)
    have grc : G F (fun φ => allC φ rc) := g.mono (fun _ h => (allD_mk h).2.2.1)
    have gcc : G F (fun φ => allC φ cc) := g.mono (fun _ h => (allD_mk h).2.2.2)
    have hnode := (allD_mk g.ds).1
    simp only [dirSafePred, Bool.and_eq_true] at hnode
    exact good_D_node hi (fun hn => good_D t w hd hi parentDir F hn gp)
      (fun hn => good_C t w hd hi cc F hn gcc) (fun hn => good_C t w hd hi rc F hn grc)
      hnode.1.1 hnode.1.2 hnode.2 bm st
end

/-- **C08 matcher theorem**: under the guards the compiled matcher never fails and computes the
documented meaning of the constraint on every blob, whatever the scratch state -/
theorem matcher_ok (t : Pk.Ref.Tbl) (w : World)
    (hd : w.noDangling t = true) (hi : w.dirsHaveInfo = true)
    (c : Cons) (hn : c.isNil = false)
    (hv : deepValid c = true) (hs : scratchSafe c = true) (hds : dirSafe c = true) :
    MatcherOK t w c := by
  intro b st
  obtain ⟨st', e, _⟩ := good_C t w hd hi c False hn ⟨hv, hs, hds, fun h => h.elim⟩ b st
  exact ⟨st', e⟩

end Pk.Search
