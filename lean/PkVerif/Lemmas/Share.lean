import PkVerif.Spec.Share
/-! Helper lemmas for C17: the model's link check and loop against the specification. -/
namespace Pk.Share

theorem links_sub_textRefs (s : Stored) (t : Ref) (h : t ∈ links s.blob) : t ∈ textRefs s := by
  unfold textRefs
  cases hb : s.blob <;> simp_all [links, fieldRefs]
  rcases h with h | h <;> simp [h]

/-- the link check accepts exactly the genuine schema links -/
theorem bytesHaveSchemaLink_iff (s : Stored) (t : Ref) :
    bytesHaveSchemaLink s t = true ↔ t ∈ links s.blob := by
  constructor
  · intro h
    unfold bytesHaveSchemaLink at h
    split at h
    · cases h
    · cases hb : s.blob <;> simp_all [links]
  · intro h
    have ht := links_sub_textRefs s t h
    unfold bytesHaveSchemaLink
    have : (textRefs s).contains t = true := by simpa using ht
    simp only [this]
    cases hb : s.blob <;> simp_all [links]

/-- the old link check accepts only genuine schema links (but not all of them) -/
theorem bytesHaveSchemaLinkOld_sound (s : Stored) (t : Ref)
    (h : bytesHaveSchemaLinkOld s t = true) : t ∈ links s.blob := by
  unfold bytesHaveSchemaLinkOld at h
  split at h
  · cases h
  · cases hb : s.blob <;> simp_all [links]

/-- the loop over the inner positions accepts exactly the link paths, for any link check that
decides `Link` -/
theorem checkLinksWith_none_iff (link : Stored → Ref → Bool)
    (hl : ∀ s t, link s t = true ↔ t ∈ links s.blob) (st : Store) (a : Ref) (l : List Ref) :
    checkLinksWith link st a l = none ↔ LinkPath st a l := by
  induction l generalizing a with
  | nil => simp [checkLinksWith, LinkPath]
  | cons b rest ih =>
    unfold checkLinksWith LinkPath Link
    cases hs : st a with
    | none => simp
    | some s =>
      by_cases hk : link s b = true
      · simp [hk, ih, (hl s b).1 hk]
      · have : b ∉ links s.blob := fun hm => hk ((hl s b).2 hm)
        simp [hk, this]

/-- with a link check that is only sound, acceptance still implies a link path -/
theorem checkLinksWith_none_sound (link : Stored → Ref → Bool)
    (hl : ∀ s t, link s t = true → t ∈ links s.blob) (st : Store) (a : Ref) (l : List Ref)
    (h : checkLinksWith link st a l = none) : LinkPath st a l := by
  induction l generalizing a with
  | nil => simp [LinkPath]
  | cons b rest ih =>
    unfold checkLinksWith at h
    unfold LinkPath Link
    cases hs : st a with
    | none => simp [hs] at h
    | some s =>
      simp only [hs] at h
      by_cases hk : link s b = true
      · simp only [hk, if_true] at h
        exact ⟨⟨s, rfl, hl s b hk⟩, ih b h⟩
      · simp [hk] at h

theorem isExpired_false_iff (now : Nat) (exp : Option Nat) :
    isExpired now exp = false ↔ Unexpired now exp := by
  cases exp with
  | none => simp [isExpired, Unexpired]
  | some t => simp [isExpired, Unexpired]

theorem chain_split (vb : List Ref) (r : Ref) :
    vb ++ [r] = chainHead vb r :: chainTail vb r := by
  cases vb <;> simp [chainHead, chainTail]

theorem parseVia_map_some (vb : List Ref) : parseVia (vb.map some) = some vb := by
  induction vb with
  | nil => rfl
  | cons v vs ih => simp [parseVia, ih]

theorem parseVia_some (via : List (Option Ref)) (vb : List Ref) (h : parseVia via = some vb) :
    via = vb.map some := by
  induction via generalizing vb with
  | nil => simp [parseVia] at h; subst h; rfl
  | cons x xs ih =>
    cases x with
    | none => simp [parseVia] at h
    | some r =>
      simp only [parseVia, Option.map_eq_some_iff] at h
      obtain ⟨w, hw, rfl⟩ := h
      simp [ih w hw]

/-- what the spec asks of a chain `c0 :: rest` whose share claim has transitivity `tr` -/
def ValidFrom (e : Env) (c0 : Ref) (rest : List Ref) (tr : Bool) : Prop :=
  ∃ s0 tgt exp, e.store c0 = some s0 ∧ s0.blob = .share tgt tr exp ∧
    e.deleted c0 = false ∧ Unexpired e.now exp ∧
    (rest = [] ∨
     ∃ c1 more, rest = c1 :: more ∧ tgt = some c1 ∧
       (more = [] ∨ (tr = true ∧ LinkPath e.store c1 more)))

theorem validChain_iff_validFrom (e : Env) (c0 : Ref) (rest : List Ref) :
    ValidChain e (c0 :: rest) ↔ ∃ tr, ValidFrom e c0 rest tr := by
  unfold ValidChain ValidFrom
  constructor
  · rintro ⟨s0, tgt, tr, exp, h⟩; exact ⟨tr, s0, tgt, exp, h⟩
  · rintro ⟨tr, s0, tgt, exp, h⟩; exact ⟨s0, tgt, tr, exp, h⟩

/-- soundness half of the loop, for any link check that accepts only genuine links -/
theorem validateWith_ok_sound (link : Stored → Ref → Bool)
    (hl : ∀ s t, link s t = true → t ∈ links s.blob) (e : Env) (c0 : Ref) (rest : List Ref)
    (tr : Bool) (h : validateWith link e c0 rest = .ok tr) : ValidFrom e c0 rest tr := by
  unfold validateWith at h
  by_cases hd : e.deleted c0 = true
  · simp [hd] at h
  · simp only [hd] at h
    cases hs : e.store c0 with
    | none => simp [hs] at h
    | some s0 =>
      simp only [hs] at h
      cases hb : s0.blob with
      | share tgt trans exp =>
        simp only [hb] at h
        by_cases hx : isExpired e.now exp = true
        · simp [hx] at h
        · simp only [hx] at h
          have hun : Unexpired e.now exp := (isExpired_false_iff _ _).1 (by simpa using hx)
          have hdel : e.deleted c0 = false := by simpa using hd
          cases rest with
          | nil =>
            simp at h; subst h
            exact ⟨s0, tgt, exp, hs, hb, hdel, hun, Or.inl rfl⟩
          | cons c1 more =>
            simp only at h
            by_cases ht : tgt = some c1
            · subst ht
              simp only [bne_self_eq_false] at h
              by_cases hm : more = []
              · subst hm
                simp [checkLinksWith] at h; subst h
                exact ⟨s0, some c1, exp, hs, hb, hdel, hun, Or.inr ⟨c1, [], rfl, rfl, Or.inl rfl⟩⟩
              · have hne : more.isEmpty = false := by cases more <;> simp_all
                cases htr : trans with
                | false => simp [hne, htr] at h
                | true =>
                  simp only [hne, htr] at h
                  cases hc : checkLinksWith link e.store c1 more with
                  | some err => simp [hc] at h
                  | none =>
                    simp [hc] at h; subst h
                    exact ⟨s0, some c1, exp, hs, by rw [hb, htr], hdel, hun,
                      Or.inr ⟨c1, more, rfl, rfl, Or.inr ⟨rfl, checkLinksWith_none_sound link hl _ _ _ hc⟩⟩⟩
            · have : (tgt != some c1) = true := by simpa using ht
              simp [this] at h
      | file _ => simp [hb] at h
      | bytes _ => simp [hb] at h
      | directory _ => simp [hb] at h
      | staticSet _ _ => simp [hb] at h
      | other _ => simp [hb] at h
      | raw _ => simp [hb] at h

/-- completeness half of the loop, for a link check that accepts every genuine link -/
theorem validateWith_ok_complete (link : Stored → Ref → Bool)
    (hl : ∀ s t, link s t = true ↔ t ∈ links s.blob) (e : Env) (c0 : Ref) (rest : List Ref)
    (tr : Bool) (h : ValidFrom e c0 rest tr) : validateWith link e c0 rest = .ok tr := by
  obtain ⟨s0, tgt, exp, hs, hb, hdel, hun, hrest⟩ := h
  have hx : isExpired e.now exp = false := (isExpired_false_iff _ _).2 hun
  unfold validateWith
  simp only [hdel, hs, hb, hx]
  rcases hrest with rfl | ⟨c1, more, rfl, rfl, hmore⟩
  · simp
  · simp only [bne_self_eq_false]
    rcases hmore with rfl | ⟨rfl, hp⟩
    · simp [checkLinksWith]
    · have := (checkLinksWith_none_iff link hl e.store c1 more).2 hp
      simp [this]

theorem linkPath_append (st : Store) (a : Ref) (l : List Ref) (b : Ref) :
    LinkPath st a (l ++ [b]) ↔ LinkPath st a l ∧ Link st ((a :: l).getLast (by simp)) b := by
  induction l generalizing a with
  | nil => simp [LinkPath]
  | cons x xs ih =>
    simp only [List.cons_append, LinkPath, ih x]
    constructor
    · rintro ⟨h1, h2, h3⟩; exact ⟨⟨h1, h2⟩, by simpa [List.getLast_cons] using h3⟩
    · rintro ⟨⟨h1, h2⟩, h3⟩; exact ⟨h1, h2, by simpa [List.getLast_cons] using h3⟩

end Pk.Share
