import PkVerif.Lemmas.IndexCanon
/-!
# The exported query surface depends on the corpus only through its row map and the *set* of deletions (C06)
-/
namespace Pk.Index
open Pk Pk.SMap

theorem any_congr_mem {α : Type} (p : α → Bool) (l l' : List α) (h : ∀ x, x ∈ l ↔ x ∈ l') : l.any p = l'.any p := by
  rw [Bool.eq_iff_iff, List.any_eq_true, List.any_eq_true]
  constructor
  · rintro ⟨x, hx, hp⟩; exact ⟨x, (h x).mp hx, hp⟩
  · rintro ⟨x, hx, hp⟩; exact ⟨x, (h x).mpr hx, hp⟩

theorem isDeletedIn_congr (ds ds' : List Del) (h : ∀ d, d ∈ ds ↔ d ∈ ds') (n : Nat) (br : Ref) :
    isDeletedIn n ds br = isDeletedIn n ds' br := by
  induction n generalizing br with
  | zero => rfl
  | succ n ih =>
    unfold isDeletedIn
    have : (fun d : Del => d.target == br && !isDeletedIn n ds d.deleter) =
        (fun d : Del => d.target == br && !isDeletedIn n ds' d.deleter) := by
      funext d; rw [ih d.deleter]
    rw [this]
    exact any_congr_mem _ ds ds' h

/-- two corpora with the same rows and the same set of deletions answer alike -/
theorem observe_congr (univ pns : List Ref) (fuel : Nat) (ixd ixd' : List Del) (c c' : Corpus)
    (hm : c.m = c'.m) (hb : c.bad = c'.bad) (hd : ∀ d, d ∈ c.deletes ↔ d ∈ c'.deletes)
    (hi : ∀ d, d ∈ ixd ↔ d ∈ ixd') : observe univ pns fuel ixd c = observe univ pns fuel ixd' c' := by
  have hdel : c.isDeleted fuel = c'.isDeleted fuel := by
    funext br; exact isDeletedIn_congr _ _ hd fuel br
  have hidx : isDeletedIn fuel ixd = isDeletedIn fuel ixd' := by
    funext br; exact isDeletedIn_congr _ _ hi fuel br
  have hpm : pmClaims c = pmClaims c' := by funext pn; unfold pmClaims; rw [hm]
  have happ : appendClaims c fuel = appendClaims c' fuel := by
    funext pn; unfold appendClaims; rw [hpm, hdel]
  have hmod : modtime c fuel = modtime c' fuel := by
    funext pn; unfold modtime; rw [hpm, hdel]
  have hattr : attrValue c = attrValue c' := by
    funext pn a1 a2; unfold attrValue; rw [hpm]
  have hcc : camliContent c = camliContent c' := by
    funext pn; unfold camliContent; rw [hpm]
  have hany : anyTime c fuel = anyTime c' fuel := by
    funext pn; unfold anyTime; rw [hcc, hm, hmod]
  have hord : ∀ t, pnOrder c fuel pns t = pnOrder c' fuel pns t := by
    intro t; unfold pnOrder; rw [hm, hdel]
  unfold observe
  rw [hm, hdel, hidx, happ, hmod, hany, hattr, hord, hord, hb]

theorem COk_m_eq (rows : SMap Bytes) (hk : KAsc rows) (c : Corpus) (hc : COk rows c) : c.m = (Corpus.load rows).m := by
  obtain ⟨_, ck, cm, _⟩ := hc
  obtain ⟨_, lk, lm, _⟩ := COk_load rows hk
  apply SMap.ext ck lk
  intro k; rw [cm k, lm k]

/-- the live index and corpus answer like a fresh index and corpus opened over the same rows -/
theorem observe_live_eq_reload {W : World} {ver : Nat} {s : State} {seen : List Ref} (h : AllInv W ver s seen)
    (c : Corpus) (hc : s.corpus = some c) (univ pns : List Ref) (fuel : Nat) :
    s.observe univ pns fuel = some (observeReload s.rows univ pns fuel) := by
  unfold State.observe observeReload
  rw [hc]
  simp only [Option.map_some]
  congr 1
  have hck := h.2.1 c hc
  apply observe_congr
  · exact COk_m_eq s.rows h.1.kasc c hck
  · exact hck.1
  · exact hck.2.2.2
  · exact h.2.2

/-! ## a ReceiveBlob that fails on the store leaves the mirrors exact -/

theorem receiveFault_failed (W : World) (s : State) (b : Ref) (f : Fault)
    (h : (s.receiveFault W b f).2 = false) :
    (s.receiveFault W b f).1 = s ∨ ∃ t, (s.receiveFault W b f).1 = s.noteNeeded b t := by
  unfold State.receiveFault at h ⊢
  split
  · exact Or.inl rfl
  · rename_i hidx
    simp only [hidx, if_false] at h
    simp only
    split
    · rename_i m hm
      simp only [hm] at h
      split
      · exact Or.inl rfl
      · rename_i hf; simp [hf] at h
    · rename_i hm
      simp only [hm] at h
      split
      · rename_i t ht
        simp only [ht] at h
        split
        · rename_i hmt
          simp only [hmt] at h
          cases f with
          | set => exact Or.inl rfl
          | commit => exact Or.inr ⟨t, rfl⟩
          | delete => simp at h
        · rename_i tt hmt
          simp only [hmt] at h
          cases f with
          | commit => exact Or.inl rfl
          | set => simp at h
          | delete => simp at h
      · rename_i ht
        simp only [ht] at h
        cases f with
        | commit => exact Or.inl rfl
        | set => simp at h
        | delete => simp at h

/-- live = reload needs only the mirrors and the sortedness of the rows -/
theorem observe_of_mirrors (s : State) (hk : KAsc s.rows) (hc : CorpusOk s) (hd : DelOk s) (c : Corpus)
    (hcs : s.corpus = some c) (univ pns : List Ref) (fuel : Nat) :
    s.observe univ pns fuel = some (observeReload s.rows univ pns fuel) := by
  unfold State.observe observeReload
  rw [hcs]
  simp only [Option.map_some]
  congr 1
  have hck := hc c hcs
  exact observe_congr univ pns fuel _ _ c _ (COk_m_eq s.rows hk c hck) hck.1 hck.2.2.2 hd

theorem mirrors_noteNeeded (s : State) (hk : KAsc s.rows) (hc : CorpusOk s) (hd : DelOk s) (b t : Ref) :
    KAsc (s.noteNeeded b t).rows ∧ CorpusOk (s.noteNeeded b t) ∧ DelOk (s.noteNeeded b t) := by
  have hsame : ∀ k, isMissingKey k = false → SMap.get (s.noteNeeded b t).rows k = SMap.get s.rows k :=
    fun k hk => ins_missing_get_other _ _ _ _ hk
  refine ⟨kasc_ins _ _ hk, fun c hcc => COk_congr _ _ c hsame (hc c hcc), fun d => ?_⟩
  show d ∈ s.deletes ↔ _
  rw [hd, delsOfRows_congr _ _ hsame]

end Pk.Index
