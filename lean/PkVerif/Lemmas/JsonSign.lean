import PkVerif.Model.JsonSign
/-! Helper lemmas for C16 (core Lean only). -/
namespace Pk.JsonSign
open Pk

/-! ## lastIndex -/

theorem isPrefixOf_cons_cons (a b : Nat) (p s : Bytes) :
    (a :: p).isPrefixOf (b :: s) = (a == b && p.isPrefixOf s) := by
  simp [List.isPrefixOf]

theorem isPrefixOf_append_self (p t : Bytes) : p.isPrefixOf (p ++ t) = true := by
  induction p with
  | nil => simp [List.isPrefixOf]
  | cons a p ih => simp [List.isPrefixOf, ih]

/-- a pattern whose first byte does not occur in `s` does not occur in `s` -/
theorem lastIndex_none_of_not_mem (c : Nat) (p s : Bytes) (h : c ∉ s) :
    lastIndex (c :: p) s = none := by
  induction s with
  | nil => rfl
  | cons d s ih =>
    have hd : c ≠ d := fun e => h (by simp [e])
    have hs : c ∉ s := fun m => h (by simp [m])
    simp [lastIndex, ih hs, List.isPrefixOf, hd]

/-- the pattern followed by bytes that do not contain its first byte: found at 0 only -/
theorem lastIndex_self_append (c : Nat) (p tail : Bytes) (hp : c ∉ p) (ht : c ∉ tail) :
    lastIndex (c :: p) ((c :: p) ++ tail) = some 0 := by
  have hn : lastIndex (c :: p) (p ++ tail) = none :=
    lastIndex_none_of_not_mem c p (p ++ tail) (by simp [hp, ht])
  have hpre := isPrefixOf_append_self (c :: p) tail
  simp only [List.cons_append] at hpre ⊢
  simp [lastIndex, hn, hpre]

theorem lastIndex_append_left (pat t rest : Bytes) (i : Nat) (h : lastIndex pat rest = some i) :
    lastIndex pat (t ++ rest) = some (t.length + i) := by
  induction t with
  | nil => simpa using h
  | cons a t ih =>
    simp only [List.cons_append, lastIndex, ih, List.length_cons]
    congr 1; omega

/-- **the last separator of `T ++ sep ++ tail` is the one that was appended**, whatever `T` contains,
as long as the first byte of the separator occurs neither in the rest of the separator nor in `tail` -/
theorem lastIndex_payload_sep (c : Nat) (p t tail : Bytes) (hp : c ∉ p) (ht : c ∉ tail) :
    lastIndex (c :: p) (t ++ (c :: p) ++ tail) = some t.length := by
  rw [List.append_assoc]
  simpa using lastIndex_append_left (c :: p) t ((c :: p) ++ tail) 0 (lastIndex_self_append c p tail hp ht)

/-- what `lastIndex` returns is an occurrence -/
theorem lastIndex_spec (pat s : Bytes) (i : Nat) (h : lastIndex pat s = some i) :
    pat.isPrefixOf (s.drop i) = true ∧ i ≤ s.length := by
  induction s generalizing i with
  | nil => simp [lastIndex] at h
  | cons a s ih =>
    simp only [lastIndex] at h
    cases hl : lastIndex pat s with
    | some j =>
      simp only [hl] at h
      injection h with h; subst h
      have := ih j hl
      simpa using this
    | none =>
      simp only [hl] at h
      split at h
      · injection h with h; subst h; simp_all
      · cases h

theorem lastIndex_none_spec (pat : Bytes) :
    ∀ (s : Bytes) (j : Nat), lastIndex pat s = none → j < s.length → pat.isPrefixOf (s.drop j) = false := by
  intro s
  induction s with
  | nil => intro j _ hj; simp at hj
  | cons b s ih2 =>
    intro j hn hj
    simp only [lastIndex] at hn
    cases hl2 : lastIndex pat s with
    | some _ => simp [hl2] at hn
    | none =>
      simp only [hl2] at hn
      cases j with
      | zero =>
        simp only [List.drop_zero]
        cases hp : pat.isPrefixOf (b :: s) with
        | false => rfl
        | true => rw [hp] at hn; simp at hn
      | succ j' =>
        simp only [List.drop_succ_cons]
        exact ih2 j' hl2 (by simpa using hj)

/-- … and the last one: the pattern does not start at any later position -/
theorem lastIndex_last (pat s : Bytes) (i j : Nat) (h : lastIndex pat s = some i) (hj : i < j)
    (hjl : j < s.length) : pat.isPrefixOf (s.drop j) = false := by
  induction s generalizing i j with
  | nil => simp [lastIndex] at h
  | cons a s ih =>
    simp only [lastIndex] at h
    cases hl : lastIndex pat s with
    | some k =>
      simp only [hl] at h
      injection h with h; subst h
      cases j with
      | zero => omega
      | succ j' =>
        simp only [List.drop_succ_cons]
        exact ih k j' hl (by omega) (by simpa using hjl)
    | none =>
      simp only [hl] at h
      split at h
      · injection h with h; subst h
        cases j with
        | zero => omega
        | succ j' =>
          simp only [List.drop_succ_cons]
          exact lastIndex_none_spec pat s j' hl (by simpa using hjl)
      · cases h

/-! ## the JSON machine -/

theorem run_append (s : St) (a b : Bytes) : run s (a ++ b) = run (run s a) b := by
  simp [run, List.foldl_append]

theorem run_cons (s : St) (c : Nat) (b : Bytes) : run s (c :: b) = run (step s c) b := rfl

theorem run_nil (s : St) : run s [] = s := rfl

/-- bytes that may stand for themselves in a JSON string and in the signature: printable ASCII
other than `"` and `\` -/
def isPlain (c : Nat) : Bool := 32 ≤ c && c < 128 && c != 34 && c != 92

/-- the alphabet of an armored signature line: base64 and `=` -/
def isB64 (c : Nat) : Bool :=
  (65 ≤ c && c ≤ 90) || (97 ≤ c && c ≤ 122) || (48 ≤ c && c ≤ 57) || c == 43 || c == 47 || c == 61

theorem isPlain_of_isB64 (c : Nat) (h : isB64 c = true) : isPlain c = true := by
  simp only [isB64, isPlain, Bool.or_eq_true, Bool.and_eq_true, decide_eq_true_eq, beq_iff_eq, bne_iff_ne] at *
  omega

theorem ne_comma_of_isB64 (c : Nat) (h : isB64 c = true) : c ≠ 44 := by
  simp only [isB64, Bool.or_eq_true, Bool.and_eq_true, decide_eq_true_eq, beq_iff_eq] at h
  omega

theorem stepStr_plain (raw : Bytes) (stk : List Frame) (c : Nat) (h : isPlain c = true) :
    step ⟨.str raw .normal, stk⟩ c = ⟨.str (c :: raw) .normal, stk⟩ := by
  simp only [isPlain, Bool.and_eq_true, decide_eq_true_eq, bne_iff_ne] at h
  obtain ⟨⟨⟨h1, _⟩, h3⟩, h4⟩ := h
  have h5 : ¬ c < 32 := by omega
  simp [step, stepStr, h3, h4, h5]

theorem run_plain (raw : Bytes) (stk : List Frame) (sig : Bytes) (h : ∀ c ∈ sig, isPlain c = true) :
    run ⟨.str raw .normal, stk⟩ sig = ⟨.str (sig.reverse ++ raw) .normal, stk⟩ := by
  induction sig generalizing raw with
  | nil => rfl
  | cons c sig ih =>
    rw [run_cons, stepStr_plain raw stk c (h c (by simp)), ih _ (fun d hd => h d (by simp [hd]))]
    simp

theorem unquoteAux_plain (s : Bytes) (fuel : Nat) (hf : s.length ≤ fuel)
    (h : ∀ c ∈ s, isPlain c = true) : unquoteAux fuel s = s := by
  induction s generalizing fuel with
  | nil => cases fuel <;> rfl
  | cons c s ih =>
    cases fuel with
    | zero => simp at hf
    | succ f =>
      have hc := h c (by simp)
      simp only [isPlain, Bool.and_eq_true, decide_eq_true_eq, bne_iff_ne] at hc
      obtain ⟨⟨⟨_, h2⟩, _⟩, h4⟩ := hc
      simp only [unquoteAux, h4, if_false, h2, if_true]
      rw [ih f (by simpa using hf) (fun d hd => h d (by simp [hd]))]

theorem unquote_plain (s : Bytes) (h : ∀ c ∈ s, isPlain c = true) : unquote s = s :=
  unquoteAux_plain s s.length (Nat.le_refl _) h

/-- `camliSig":"`: the separator without its leading `,"` -/
def sepRest : Bytes := [99, 97, 109, 108, 105, 83, 105, 103, 34, 58, 34]

theorem sigSeparator_eq : sigSeparator = 44 :: 34 :: sepRest := rfl

theorem run_key (done : List (Bytes × JV)) (stk : List Frame) :
    run ⟨.str [] .normal, .objK done :: stk⟩ sepRest = ⟨.str [] .normal, .objV done kCamliSig :: stk⟩ := by
  rfl

/-- from just inside the opening quote of a key: `camliSig":"<sig>"` adds the member -/
theorem run_sig_member (done : List (Bytes × JV)) (stk : List Frame) (sig : Bytes)
    (h : ∀ c ∈ sig, isPlain c = true) :
    run ⟨.str [] .normal, .objK done :: stk⟩ (sepRest ++ sig ++ [34]) =
      ⟨.ev, .objE ((kCamliSig, .str sig) :: done) :: stk⟩ := by
  rw [List.append_assoc, run_append, run_key, run_append, run_plain _ _ _ h, run_cons, run_nil]
  simp [step, stepStr, complete, unquote_plain sig h]

/-- … and `}` + newline closes a top-level object -/
theorem run_sig_close (done : List (Bytes × JV)) (sig : Bytes) (h : ∀ c ∈ sig, isPlain c = true) :
    finish (run ⟨.str [] .normal, [.objK done]⟩ (sepRest ++ sig ++ sigSuffix)) =
      some (.obj (done.reverse ++ [(kCamliSig, .str sig)])) := by
  have : sepRest ++ sig ++ sigSuffix = (sepRest ++ sig ++ [34]) ++ [125, 10] := by simp [sigSuffix]
  rw [this, run_append, run_sig_member done [] sig h]
  simp [run, step, stepEnd, isWs, complete, finish]

theorem finish_ev (stk : List Frame) : finish ⟨.ev, stk⟩ = none := by
  simp [finish, step, stepEnd, isWs]

theorem finish_top (v : JV) (stk : List Frame) : finish ⟨.top v, stk⟩ = some v := by
  simp [finish, step, stepEnd, isWs]

theorem finish_error : finish St.error = none := by
  simp [finish, step, St.error]

theorem finish_err (stk : List Frame) : finish ⟨.err, stk⟩ = none := by
  simp [finish, step, St.error]

theorem complete_mode_top (v w : JV) (stk : List Frame) (h : (complete v stk).mode = .top w) :
    stk = [] ∧ v = w := by
  cases stk with
  | nil => simp [complete] at h; exact ⟨rfl, h⟩
  | cons f r =>
    cases f <;> simp [complete, St.error] at h
    · cases v <;> simp [St.error] at h

theorem finish_lit (rest : Bytes) (k : LitKind) (stk : List Frame) (m : List (Bytes × JV)) :
    finish ⟨.lit rest k, stk⟩ ≠ some (.obj m) := by
  intro h
  unfold finish at h
  split at h
  · rename_i v hv
    injection h with h
    subst h
    simp only [step] at hv
    cases rest with
    | nil => simp [St.error] at hv
    | cons r rs =>
      simp only at hv
      split at hv
      · split at hv
        · have := (complete_mode_top _ _ _ hv).2
          cases k <;> simp [LitKind.val] at this
        · simp at hv
      · simp [St.error] at hv
  · cases h

theorem finish_complete (v : JV) (stk : List Frame) (m : List (Bytes × JV))
    (h : finish (complete v stk) = some (.obj m)) : stk = [] ∧ v = .obj m := by
  cases stk with
  | nil => simp [complete, finish_top] at h; exact ⟨rfl, h⟩
  | cons f r =>
    cases f <;> simp [complete, finish_ev, finish_error] at h
    · cases v <;> simp [finish_ev, finish_error] at h

theorem stepEnd_close (stk : List Frame) (m : List (Bytes × JV))
    (h : finish (stepEnd ⟨.ev, stk⟩ 125) = some (.obj m)) :
    stk = [.objE m.reverse] := by
  cases stk with
  | nil => simp [stepEnd, isWs, finish_error] at h
  | cons f r =>
    cases f <;> simp [stepEnd, isWs, finish_error] at h
    · obtain ⟨h1, h2⟩ := finish_complete _ _ _ h
      injection h2 with h2
      subst h1; subst h2; simp

theorem endNum_close (raw : Bytes) (stk : List Frame) (m : List (Bytes × JV))
    (h : finish (endNum raw stk 125) = some (.obj m)) :
    endNum raw stk 44 = ⟨.bs, [.objK m.reverse]⟩ := by
  unfold endNum at h ⊢
  split at h
  · rename_i hn
    simp only [hn, if_true]
    cases stk with
    | nil => simp [complete, stepEnd, isWs, finish_error] at h
    | cons f r =>
      cases f with
      | arr d => simp [complete, stepEnd, isWs, finish_error] at h
      | objK d => simp [complete, stepEnd, isWs, finish_err, St.error] at h
      | objC d k => simp [complete, stepEnd, isWs, finish_err, St.error] at h
      | objE d => simp [complete, stepEnd, isWs, finish_err, St.error] at h
      | objV d k =>
        simp only [complete] at h ⊢
        have := stepEnd_close _ _ h
        injection this with h1 h2
        injection h1 with h1
        subst h2
        simp [stepEnd, isWs, h1]
  · simp [finish_error] at h

/-- **closing an object vs continuing it**: if `}` would complete the document as the non-empty
object `m`, then `,` instead leads to the state that expects the next key of that same object -/
theorem close_then_comma (s : St) (m : List (Bytes × JV)) (hm : m ≠ [])
    (h : finish (step s 125) = some (.obj m)) : step s 44 = ⟨.bs, [.objK m.reverse]⟩ := by
  obtain ⟨mode, stk⟩ := s
  cases mode with
  | err => simp [step, finish_error] at h
  | top v => simp [step, stepEnd, isWs, finish_error] at h
  | ev =>
    have := stepEnd_close stk m (by simpa [step] using h)
    subst this
    simp [step, stepEnd, isWs]
  | bv => simp [step, isWs, beginValue, finish_error] at h
  | bvOrEmpty => simp [step, isWs, beginValue, finish_error] at h
  | bsOrEmpty =>
    simp only [step, isWs] at h
    simp at h
    cases stk with
    | nil => simp [finish_error] at h
    | cons f r =>
      cases f <;> simp [finish_error] at h
      · obtain ⟨_, h2⟩ := finish_complete _ _ _ h
        injection h2 with h2
        exact absurd h2.symm hm
  | bs => simp [step, isWs, finish_error] at h
  | str raw sub =>
    cases sub with
    | normal => simp [step, stepStr, finish, St.error] at h
    | esc => simp [step, stepStr, finish_error] at h
    | u n => simp [step, stepStr, isHex, finish_error] at h
  | num raw ph =>
    cases ph with
    | neg => simp [step, stepNum, finish_error] at h
    | dot => simp [step, stepNum, isDigit, finish_error] at h
    | e => simp [step, stepNum, isDigit, finish_error] at h
    | esign => simp [step, stepNum, isDigit, finish_error] at h
    | zero =>
      simp only [step, stepNum] at h ⊢
      simp at h ⊢
      exact endNum_close raw stk m h
    | int =>
      simp only [step, stepNum, isDigit] at h ⊢
      simp at h ⊢
      exact endNum_close raw stk m h
    | frac =>
      simp only [step, stepNum, isDigit] at h ⊢
      simp at h ⊢
      exact endNum_close raw stk m h
    | exp =>
      simp only [step, stepNum, isDigit] at h ⊢
      simp at h ⊢
      exact endNum_close raw stk m h
  | lit rest k =>
    simp only [step] at h
    cases rest with
    | nil => simp [finish_error] at h
    | cons r rs =>
      simp only at h
      split at h
      · split at h
        · obtain ⟨_, h2⟩ := finish_complete _ _ _ h
          cases k <;> simp [LitKind.val] at h2
        · exact absurd h (finish_lit _ _ _ _)
      · simp [finish_error] at h


/-- **a signed document is the original object plus one member**: if `t ++ "}"` is a JSON document
whose value is the non-empty object `m`, then `t ++ ,"camliSig":"<sig>"}\n` is a JSON document whose
value is `m` followed by the member `camliSig = sig` -/
theorem parse_signed (t sig : Bytes) (m : List (Bytes × JV)) (hp : ∀ c ∈ sig, isPlain c = true)
    (hm : m ≠ []) (h : parseJSON (t ++ [125]) = some (.obj m)) :
    parseJSON (assemble t sig) = some (.obj (m ++ [(kCamliSig, .str sig)])) := by
  unfold parseJSON at h ⊢
  rw [run_append, run_cons, run_nil] at h
  have hc := close_then_comma _ m hm h
  have : assemble t sig = t ++ (44 :: 34 :: (sepRest ++ sig ++ sigSuffix)) := by
    simp [assemble, sigSeparator_eq]
  rw [this, run_append, run_cons, hc, run_cons]
  have : step ⟨.bs, [.objK m.reverse]⟩ 34 = ⟨.str [] .normal, [.objK m.reverse]⟩ := by
    simp [step, isWs]
  rw [this, run_sig_close _ _ hp]
  simp

/-- the signature object that `Sign` appends, as `NewVerificationRequest` re-opens it (BS) -/
theorem parse_bs (sig : Bytes) (hp : ∀ c ∈ sig, isPlain c = true) :
    parseJSON (123 :: 34 :: (sepRest ++ sig ++ sigSuffix)) = some (.obj [(kCamliSig, .str sig)]) := by
  unfold parseJSON
  rw [run_cons, run_cons]
  have : step (step St.init 123) 34 = ⟨.str [] .normal, [.objK []]⟩ := by
    simp [St.init, step, isWs, beginValue, push, maxNestingDepth]
  rw [this, run_sig_close _ _ hp]
  simp


/-! ## lookups -/

theorem lookup_append_single (k k' : Bytes) (v : JV) (m : List (Bytes × JV)) :
    lookup k (m ++ [(k', v)]) = if k' = k then some v else lookup k m := by
  induction m with
  | nil => simp [lookup]
  | cons p m ih =>
    obtain ⟨a, b⟩ := p
    simp only [List.cons_append, lookup, ih]
    by_cases hk : k' = k
    · simp [hk]
    · simp [hk]

theorem lookup_ne_nil (k : Bytes) (m : List (Bytes × JV)) (v : JV) (h : lookup k m = some v) : m ≠ [] := by
  intro e; subst e; simp [lookup] at h

theorem unmarshalMap_obj (data : Bytes) (m : List (Bytes × JV)) (h : unmarshalMap data = some m)
    (hm : m ≠ []) : parseJSON data = some (.obj m) := by
  unfold unmarshalMap at h
  split at h
  · injection h with h; subst h; assumption
  · injection h with h; exact absurd h.symm hm
  · cases h

theorem dropLast_append_getLast (l : Bytes) (x : Nat) (h : l.getLast? = some x) :
    l.dropLast ++ [x] = l := by
  induction l with
  | nil => simp at h
  | cons a l ih =>
    cases l with
    | nil => simp at h; simp [h]
    | cons b l' =>
      simp only [List.getLast?_cons_cons] at h
      simp [List.dropLast, ih h]

/-! ## inversion of `sign` -/

/-- everything that is true when `Sign` returns a document -/
theorem sign_inv {κ σ : Type} (tbl : Ref.Tbl) (fetch : Bytes → KeyRes κ) (secret : κ → Option σ)
    (signArmored : σ → Bytes → Bytes) (unsigned doc : Bytes)
    (h : sign tbl fetch secret signArmored unsigned = .ok doc) :
    ∃ (m : List (Bytes × JV)) (s : Bytes) (ref : Ref.Ref) (pk : κ) (sk : σ) (t sig : Bytes),
      unmarshalMap (trimRightSpace unsigned) = some m ∧
      lookup kCamliSigner m = some (.str s) ∧
      Ref.parse tbl s true = some ref ∧
      fetch (Ref.toText ref) = .key pk ∧
      secret pk = some sk ∧
      t ++ [125] = trimRightSpace unsigned ∧
      stripArmor (signArmored sk t) = .ok sig ∧
      doc = assemble t sig := by
  unfold sign at h
  simp only at h
  split at h
  · cases h
  · rename_i m hm
    split at h
    · cases h
    · rename_i signer hs
      split at h
      · cases h
      · rename_i ref hr
        split at h
        · cases h
        · cases h
        · rename_i pk hf
          split at h
          · cases h
          · rename_i hb
            split at h
            · cases h
            · rename_i sk hsk
              split at h
              · cases h
              · rename_i sig hsig
                injection h with h
                have hlast : (trimRightSpace unsigned).getLast? = some 125 := by
                  simpa using hb
                -- the signer is a string (a non-string gives the empty text, which is no blobref)
                have hstr : ∃ s, signer = .str s := by
                  cases signer with
                  | str s => exact ⟨s, rfl⟩
                  | _ => simp [strOf, Ref.parse, Ref.splitDash] at hr
                obtain ⟨s, rfl⟩ := hstr
                exact ⟨m, s, ref, pk, sk, _, sig, hm, hs, by simpa [strOf] using hr, hf, hsk,
                  dropLast_append_getLast _ _ hlast, hsig, h.symm⟩

/-- BS of a document produced by `Sign`: `{"camliSig":"<sig>"}\n` -/
def signedBS (sig : Bytes) : Bytes := 123 :: 34 :: (sepRest ++ sig ++ sigSuffix)

theorem parseSigMap_signedBS (sig : Bytes) (hp : ∀ c ∈ sig, isPlain c = true) :
    parseSigMap (signedBS sig) = .ok sig := by
  unfold parseSigMap unmarshalMap signedBS
  rw [parse_bs sig hp]
  simp [numKeys, lookup, kCamliSig]

/-! ## a JSON document whose value is an object ends with `}` (and white space) -/

theorem stepEnd_ev_top (stk : List Frame) (c : Nat) (m : List (Bytes × JV))
    (h : (stepEnd ⟨.ev, stk⟩ c).mode = .top (.obj m)) : c = 125 := by
  unfold stepEnd at h
  simp only at h
  split at h
  · cases h
  · cases stk with
    | nil => simp [St.error] at h
    | cons f r =>
      cases f with
      | objC d k => simp only at h; split at h <;> simp [St.error] at h
      | objE d =>
        simp only at h
        split at h
        · cases h
        · split at h
          · assumption
          · simp [St.error] at h
      | arr d =>
        simp only at h
        split at h
        · cases h
        · split at h
          · have := (complete_mode_top _ _ _ h).2; cases this
          · simp [St.error] at h
      | objK d => simp [St.error] at h
      | objV d k => simp [St.error] at h

theorem endNum_top (raw : Bytes) (stk : List Frame) (c : Nat) (m : List (Bytes × JV))
    (h : (endNum raw stk c).mode = .top (.obj m)) : c = 125 := by
  unfold endNum at h
  split at h
  · cases stk with
    | nil =>
      simp only [complete, stepEnd] at h
      split at h <;> simp [St.error] at h
    | cons f r =>
      cases f with
      | arr d => exact stepEnd_ev_top _ _ _ (by simpa [complete] using h)
      | objV d k => exact stepEnd_ev_top _ _ _ (by simpa [complete] using h)
      | objK d => simp [complete, stepEnd, St.error] at h
      | objC d k => simp [complete, stepEnd, St.error] at h
      | objE d => simp [complete, stepEnd, St.error] at h
  · simp [St.error] at h

theorem beginValue_not_top (stk : List Frame) (c : Nat) (v : JV) : (beginValue stk c).mode ≠ .top v := by
  unfold beginValue push
  intro h
  repeat' split at h
  all_goals simp [St.error] at h

/-- the only bytes after which the document is complete with an object value: `}`, or white space
after it already was -/
theorem step_top_obj (s : St) (c : Nat) (m : List (Bytes × JV))
    (h : (step s c).mode = .top (.obj m)) : c = 125 ∨ (isWs c = true ∧ s.mode = .top (.obj m)) := by
  obtain ⟨mode, stk⟩ := s
  cases mode with
  | err => simp [step, St.error] at h
  | top v =>
    simp only [step, stepEnd] at h
    split at h
    · rename_i hw; exact Or.inr ⟨hw, h⟩
    · simp [St.error] at h
  | ev => exact Or.inl (stepEnd_ev_top stk c m (by simpa [step] using h))
  | bv =>
    simp only [step] at h
    split at h
    · cases h
    · exact absurd h (beginValue_not_top _ _ _)
  | bvOrEmpty =>
    simp only [step] at h
    split at h
    · cases h
    · split at h
      · cases stk with
        | nil => simp [St.error] at h
        | cons f r =>
          cases f <;> simp [St.error] at h
          · have := (complete_mode_top _ _ _ h).2; cases this
      · exact absurd h (beginValue_not_top _ _ _)
  | bsOrEmpty =>
    simp only [step] at h
    split at h
    · cases h
    · split at h
      · left; assumption
      · split at h <;> simp [St.error] at h
  | bs =>
    simp only [step] at h
    split at h
    · cases h
    · split at h <;> simp [St.error] at h
  | str raw sub =>
    simp only [step] at h
    cases sub with
    | normal =>
      simp only [stepStr] at h
      split at h
      · have := (complete_mode_top _ _ _ h).2; cases this
      · split at h
        · cases h
        · split at h <;> simp [St.error] at h
    | esc =>
      simp only [stepStr] at h
      split at h
      · cases h
      · split at h <;> simp [St.error] at h
    | u n =>
      simp only [stepStr] at h
      split at h <;> simp [St.error] at h
  | num raw ph =>
    simp only [step] at h
    cases ph <;> simp only [stepNum] at h
    all_goals (repeat' split at h)
    all_goals first
      | (left; exact endNum_top _ _ _ _ h)
      | (simp [St.error] at h)
  | lit rest k =>
    simp only [step] at h
    cases rest with
    | nil => simp [St.error] at h
    | cons r rs =>
      simp only at h
      split at h
      · split at h
        · have := (complete_mode_top _ _ _ h).2
          cases k <;> simp [LitKind.val] at this
        · cases h
      · simp [St.error] at h

theorem run_top_obj (data : Bytes) (s : St) (m : List (Bytes × JV))
    (h : (run s data).mode = .top (.obj m)) :
    (s.mode = .top (.obj m) ∧ ∀ c ∈ data, isWs c = true) ∨
    ∃ pre ws, data = pre ++ 125 :: ws ∧ ∀ c ∈ ws, isWs c = true := by
  induction data generalizing s with
  | nil => left; exact ⟨h, by simp⟩
  | cons c rest ih =>
    rw [run_cons] at h
    rcases ih _ h with ⟨h1, h2⟩ | ⟨pre, ws, h1, h2⟩
    · rcases step_top_obj s c m h1 with hc | ⟨hw, hs⟩
      · right; exact ⟨[], rest, by simp [hc], h2⟩
      · left; exact ⟨hs, by intro d hd; cases hd with | head => exact hw | tail _ hd => exact h2 d hd⟩
    · right; exact ⟨c :: pre, ws, by simp [h1], h2⟩

theorem finish_obj_mode (s : St) (m : List (Bytes × JV)) (h : finish s = some (.obj m)) :
    s.mode = .top (.obj m) := by
  unfold finish at h
  split at h
  · rename_i v hv
    injection h with h; subst h
    rcases step_top_obj s 32 _ hv with hc | ⟨_, hs⟩
    · cases hc
    · exact hs
  · cases h

/-- a document that unmarshals to an object ends with `}` followed by JSON white space only -/
theorem parseJSON_obj_ends_with_brace (data : Bytes) (m : List (Bytes × JV))
    (h : parseJSON data = some (.obj m)) :
    ∃ pre ws, data = pre ++ 125 :: ws ∧ ∀ c ∈ ws, isWs c = true := by
  rcases run_top_obj data St.init m (finish_obj_mode _ _ h) with ⟨h1, _⟩ | h2
  · simp [St.init] at h1
  · exact h2

/-! ## what `trimRightSpace` leaves does not end in white space -/

theorem trimRev_no_space (fuel : Nat) (r : Bytes) (h : r.length ≤ fuel) :
    spaceSuffixLen (trimRev fuel r) = 0 := by
  induction fuel generalizing r with
  | zero =>
    have : r = [] := by cases r <;> simp_all
    subst this; rfl
  | succ f ih =>
    unfold trimRev
    split
    · assumption
    · rename_i hn
      apply ih
      have hne : spaceSuffixLen r ≠ 0 := by intro e; exact hn e
      simp only [List.length_drop]
      omega

theorem spaceSuffixLen_zero_head (c : Nat) (rest : Bytes) (h : spaceSuffixLen (c :: rest) = 0) :
    isAsciiSpace c = false := by
  cases hc : isAsciiSpace c with
  | false => rfl
  | true =>
    cases rest with
    | nil => simp [spaceSuffixLen, hc] at h
    | cons d rest =>
      cases rest with
      | nil => simp [spaceSuffixLen, hc] at h
      | cons e rest => simp [spaceSuffixLen, hc] at h

theorem isAsciiSpace_of_isWs (c : Nat) (h : isWs c = true) : isAsciiSpace c = true := by
  simp only [isWs, isAsciiSpace, Bool.or_eq_true, beq_iff_eq, Bool.and_eq_true, decide_eq_true_eq] at *
  omega

/-- the last byte of a trimmed string is not JSON white space -/
theorem trimRightSpace_last (s : Bytes) (c : Nat) (h : (trimRightSpace s).getLast? = some c) :
    isWs c = false := by
  unfold trimRightSpace at h
  rw [List.getLast?_reverse] at h
  have hz := trimRev_no_space s.length s.reverse (by simp)
  cases ht : trimRev s.length s.reverse with
  | nil => simp [ht] at h
  | cons a rest =>
    rw [ht] at h hz
    simp at h; subst h
    have := spaceSuffixLen_zero_head _ _ hz
    cases hw : isWs a with
    | false => rfl
    | true => rw [isAsciiSpace_of_isWs a hw] at this; cases this

/-- a trimmed string that unmarshals to an object ends with `}` -/
theorem trimmed_obj_last (s : Bytes) (m : List (Bytes × JV))
    (h : parseJSON (trimRightSpace s) = some (.obj m)) : (trimRightSpace s).getLast? = some 125 := by
  obtain ⟨pre, ws, he, hws⟩ := parseJSON_obj_ends_with_brace _ _ h
  cases hl : ws.getLast? with
  | none =>
    have : ws = [] := by simpa using hl
    subst this
    rw [he]; simp
  | some w =>
    have hmem : w ∈ ws := List.mem_of_getLast? hl
    have : (trimRightSpace s).getLast? = some w := by
      rw [he]
      have : pre ++ 125 :: ws = (pre ++ [125]) ++ ws := by simp
      rw [this, List.getLast?_append, hl]; simp
    have := trimRightSpace_last s w this
    rw [hws w hmem] at this; cases this

end Pk.JsonSign
