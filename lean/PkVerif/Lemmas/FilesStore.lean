import PkVerif.Model.FilesStore
/-! Helper lemmas for the files-store VFS model (C03). -/
namespace Pk.FilesStore

end Pk.FilesStore
