import PkVerif.Model.FilesStore
import PkVerif.Lemmas.Pack
/-! Helper lemmas for the files-store VFS model (C03). -/
namespace Pk.FilesStore
open Pk.Pack (decEnc parseDigits_decEnc)

theorem decEnc_inj (a b : Nat) (h : decEnc a = decEnc b) : a = b := by
  have ha := parseDigits_decEnc a
  rw [h, parseDigits_decEnc b] at ha
  injection ha with ha; exact ha.symm

theorem tmpName_inj (dir pfx : Bytes) (a b : Nat) (h : tmpName dir pfx a = tmpName dir pfx b) : a = b := by
  simp only [tmpName, join, List.append_cancel_left_eq, List.cons.injEq, true_and] at h
  exact decEnc_inj a b h

/-- what holds of the VFS at every point of a safe effect order, relative to the state `v0` the
receive started from -/
structure Base (c : Ctx) (v0 : VFS) (s : RunSt) : Prop where
  tmp : ∀ t, s.tmp = some t → t ≠ c.final ∧ ∃ n, t = tmpName c.dir c.pfx n
  final : ∀ f ∈ s.vfs.files, f.path = c.final → f.dur = f.cur ∧ (f.cur = c.data ∨ f ∈ v0.files)
  frame1 : ∀ f ∈ s.vfs.files, f.path ≠ c.final → (∀ n, f.path ≠ tmpName c.dir c.pfx n) → f ∈ v0.files
  frame2 : ∀ f ∈ v0.files, f.path ≠ c.final → (∀ n, f.path ≠ tmpName c.dir c.pfx n) → f ∈ s.vfs.files
  fresh : ∀ f ∈ s.vfs.files, ∀ n, s.vfs.counter ≤ n → f.path ≠ tmpName c.dir c.pfx n

/-- the temp file exists and every file of that name satisfies `P` -/
def TmpIs (s : RunSt) (P : File → Prop) : Prop :=
  ∃ t, s.tmp = some t ∧ (∃ f ∈ s.vfs.files, f.path = t) ∧ ∀ f ∈ s.vfs.files, f.path = t → P f

def Rel (c : Ctx) : Nat → RunSt → Prop
  | 1, s => TmpIs s (fun f => f.dur = [] ∧ f.cur = [])
  | 2, s => TmpIs s (fun f => f.dur = [] ∧ f.cur = c.data)
  | 3, s => TmpIs s (fun f => f.dur = c.data ∧ f.cur = c.data)
  | 4, s => ∃ f ∈ s.vfs.files, f.path = c.final
  | _, _ => True

theorem lookup_isSome (v : VFS) (p : Bytes) (h : ∃ f ∈ v.files, f.path = p) : (v.lookup p).isNone = false := by
  obtain ⟨f, hf, hp⟩ := h
  unfold VFS.lookup
  cases hfind : v.files.find? (fun f => f.path == p) with
  | some _ => rfl
  | none =>
    have := List.find?_eq_none.mp hfind f hf
    simp [hp] at this

theorem step_mkdirAll (c : Ctx) (v0 : VFS) (a : Nat) (s : RunSt) (hb : Base c v0 s) (hr : Rel c a s) :
    Base c v0 (step c s .mkdirAll) ∧ Rel c a (step c s .mkdirAll) := by
  have e1 : (step c s .mkdirAll).vfs.files = s.vfs.files := rfl
  have e2 : (step c s .mkdirAll).tmp = s.tmp := rfl
  have e3 : (step c s .mkdirAll).vfs.counter = s.vfs.counter := rfl
  refine ⟨⟨by rw [e2]; exact hb.tmp, by rw [e1]; exact hb.final, by rw [e1]; exact hb.frame1,
    by rw [e1]; exact hb.frame2, by rw [e1, e3]; exact hb.fresh⟩, ?_⟩
  match a, hr with
  | 1, hr => exact hr
  | 2, hr => exact hr
  | 3, hr => exact hr
  | 4, hr => exact hr
  | 0, _ => trivial
  | _ + 5, _ => trivial

theorem step_tempFile (c : Ctx) (v0 : VFS) (s : RunSt) (hT : ∀ n, tmpName c.dir c.pfx n ≠ c.final)
    (hb : Base c v0 s) : Base c v0 (step c s .tempFile) ∧ Rel c 1 (step c s .tempFile) := by
  have ef : (step c s .tempFile).vfs.files = s.vfs.files ++ [⟨tmpName c.dir c.pfx s.vfs.counter, [], []⟩] := rfl
  have et : (step c s .tempFile).tmp = some (tmpName c.dir c.pfx s.vfs.counter) := rfl
  have ec : (step c s .tempFile).vfs.counter = s.vfs.counter + 1 := rfl
  refine ⟨⟨?_, ?_, ?_, ?_, ?_⟩, ?_⟩
  · intro t ht
    rw [et] at ht; injection ht with ht; subst ht
    exact ⟨hT _, _, rfl⟩
  · intro f hf hp
    rw [ef] at hf
    rcases List.mem_append.mp hf with hf | hf
    · exact hb.final f hf hp
    · simp at hf; subst hf; exact absurd hp (hT _)
  · intro f hf hp hn
    rw [ef] at hf
    rcases List.mem_append.mp hf with hf | hf
    · exact hb.frame1 f hf hp hn
    · simp at hf; subst hf; exact absurd rfl (hn _)
  · intro f hf hp hn
    rw [ef]; exact List.mem_append.mpr (Or.inl (hb.frame2 f hf hp hn))
  · intro f hf n hn
    rw [ec] at hn
    rw [ef] at hf
    rcases List.mem_append.mp hf with hf | hf
    · exact hb.fresh f hf n (by omega)
    · simp at hf; subst hf
      intro e
      have := tmpName_inj _ _ _ _ e
      omega
  · refine ⟨_, et, ⟨⟨tmpName c.dir c.pfx s.vfs.counter, [], []⟩, by rw [ef]; simp, rfl⟩, ?_⟩
    intro f hf hp
    rw [ef] at hf
    rcases List.mem_append.mp hf with hf | hf
    · exact absurd hp (hb.fresh f hf _ (Nat.le_refl _))
    · simp at hf; subst hf; exact ⟨rfl, rfl⟩

/-- `mapFile` on the temp file: the facts of `Base` do not care -/
theorem base_mapFile (c : Ctx) (v0 : VFS) (s : RunSt) (t : Bytes) (g : File → File) (ht : s.tmp = some t)
    (hg : ∀ f, (g f).path = f.path) (hb : Base c v0 s) :
    Base c v0 { s with vfs := s.vfs.mapFile t g } := by
  obtain ⟨htf, n0, hn0⟩ := hb.tmp t ht
  have key : ∀ f' ∈ (s.vfs.mapFile t g).files, f'.path ≠ t → f' ∈ s.vfs.files := by
    intro f' hf' hp
    simp only [VFS.mapFile, List.mem_map] at hf'
    obtain ⟨f, hf, e⟩ := hf'
    by_cases hpt : f.path = t
    · rw [if_pos hpt] at e; subst e; rw [hg] at hp; exact absurd hpt hp
    · rw [if_neg hpt] at e; subst e; exact hf
  have paths : ∀ f' ∈ (s.vfs.mapFile t g).files, ∃ f ∈ s.vfs.files, f'.path = f.path := by
    intro f' hf'
    simp only [VFS.mapFile, List.mem_map] at hf'
    obtain ⟨f, hf, e⟩ := hf'
    refine ⟨f, hf, ?_⟩
    by_cases hpt : f.path = t
    · rw [if_pos hpt] at e; subst e; exact hg f
    · rw [if_neg hpt] at e; subst e; rfl
  refine ⟨hb.tmp, ?_, ?_, ?_, ?_⟩
  · intro f' hf' hp
    exact hb.final f' (key f' hf' (by rw [hp]; exact fun e => htf e.symm)) hp
  · intro f' hf' hp hn
    exact hb.frame1 f' (key f' hf' (by rw [hn0] at *; exact hn n0)) hp hn
  · intro f hf hp hn
    have hin := hb.frame2 f hf hp hn
    simp only [VFS.mapFile, List.mem_map]
    exact ⟨f, hin, by rw [if_neg (by rw [hn0]; exact hn n0)]⟩
  · intro f' hf' n hn
    obtain ⟨f, hf, e⟩ := paths f' hf'
    rw [e]; exact hb.fresh f hf n hn

theorem tmpIs_mapFile (s : RunSt) (t : Bytes) (g : File → File) (P Q : File → Prop) (ht : s.tmp = some t)
    (hg : ∀ f, (g f).path = f.path) (hPQ : ∀ f, P f → Q (g f)) (h : TmpIs s P) :
    TmpIs { s with vfs := s.vfs.mapFile t g } Q := by
  obtain ⟨t', ht', ⟨f0, hf0, hp0⟩, hall⟩ := h
  rw [ht] at ht'; injection ht' with ht'; subst ht'
  refine ⟨t, ht, ⟨g f0, ?_, by rw [hg]; exact hp0⟩, ?_⟩
  · simp only [VFS.mapFile, List.mem_map]
    exact ⟨f0, hf0, by rw [if_pos hp0]⟩
  · intro f' hf' hp'
    simp only [VFS.mapFile, List.mem_map] at hf'
    obtain ⟨f, hf, e⟩ := hf'
    by_cases hpt : f.path = t
    · rw [if_pos hpt] at e; subst e; exact hPQ f (hall f hf hpt)
    · rw [if_neg hpt] at e; subst e; exact absurd hp' hpt

theorem step_copy (c : Ctx) (v0 : VFS) (s : RunSt) (hb : Base c v0 s) (hr : Rel c 1 s) :
    Base c v0 (step c s .copy) ∧ Rel c 2 (step c s .copy) := by
  obtain ⟨t, ht, hex, hall⟩ := hr
  have e : step c s .copy = { s with vfs := s.vfs.mapFile t (fun x => { x with cur := x.cur ++ c.data }) } := by
    simp [step, onTmp, ht, VFS.write]
  rw [e]
  exact ⟨base_mapFile c v0 s t _ ht (fun _ => rfl) hb,
    tmpIs_mapFile s t _ _ _ ht (fun _ => rfl) (fun f hf => by simp [hf.1, hf.2]) ⟨t, ht, hex, hall⟩⟩

theorem step_sync (c : Ctx) (v0 : VFS) (a : Nat) (s : RunSt) (hb : Base c v0 s) (hr : Rel c a s) :
    Base c v0 (step c s .sync) ∧ Rel c (if a = 2 then 3 else a) (step c s .sync) := by
  cases ht : s.tmp with
  | none =>
    have e : step c s .sync = s := by simp [step, onTmp, ht]
    rw [e]
    refine ⟨hb, ?_⟩
    match a, hr with
    | 1, hr => obtain ⟨t, ht', _⟩ := hr; rw [ht] at ht'; cases ht'
    | 2, hr => obtain ⟨t, ht', _⟩ := hr; rw [ht] at ht'; cases ht'
    | 3, hr => obtain ⟨t, ht', _⟩ := hr; rw [ht] at ht'; cases ht'
    | 4, hr => exact hr
    | 0, _ => trivial
    | _ + 5, _ => trivial
  | some t =>
    have e : step c s .sync = { s with vfs := s.vfs.mapFile t (fun x => { x with dur := x.cur }) } := by
      simp [step, onTmp, ht, VFS.sync]
    rw [e]
    refine ⟨base_mapFile c v0 s t _ ht (fun _ => rfl) hb, ?_⟩
    match a, hr with
    | 1, hr => exact tmpIs_mapFile s t _ _ _ ht (fun _ => rfl) (fun f hf => by simp [hf.2]) hr
    | 2, hr => exact tmpIs_mapFile s t _ _ _ ht (fun _ => rfl) (fun f hf => by simp [hf.2]) hr
    | 3, hr => exact tmpIs_mapFile s t _ _ _ ht (fun _ => rfl) (fun f hf => by simp [hf.2]) hr
    | 4, hr =>
      obtain ⟨f, hf, hp⟩ := hr
      refine ⟨(if f.path = t then { f with dur := f.cur } else f), ?_, by split <;> exact hp⟩
      simp only [VFS.mapFile, List.mem_map]
      exact ⟨f, hf, rfl⟩
    | 0, _ => trivial
    | _ + 5, _ => trivial

theorem step_remove (c : Ctx) (v0 : VFS) (s : RunSt) (hb : Base c v0 s) :
    Base c v0 (step c s .remove) := by
  cases ht : s.tmp with
  | none =>
    have e : step c s .remove = s := by simp [step, onTmp, ht]
    rw [e]; exact hb
  | some t =>
    have e : step c s .remove = { s with vfs := s.vfs.remove t } := by simp [step, onTmp, ht]
    rw [e]
    obtain ⟨_, n0, hn0⟩ := hb.tmp t ht
    have sub : ∀ f ∈ (s.vfs.remove t).files, f ∈ s.vfs.files := by
      intro f hf; simp only [VFS.remove, List.mem_filter] at hf; exact hf.1
    refine ⟨hb.tmp, fun f hf => hb.final f (sub f hf), fun f hf => hb.frame1 f (sub f hf), ?_,
      fun f hf => hb.fresh f (sub f hf)⟩
    intro f hf hp hn
    simp only [VFS.remove, List.mem_filter]
    exact ⟨hb.frame2 f hf hp hn, by simpa using (by rw [hn0]; exact hn n0 : f.path ≠ t)⟩

theorem step_remove_final (c : Ctx) (v0 : VFS) (s : RunSt) (hb : Base c v0 s)
    (h : ∃ f ∈ s.vfs.files, f.path = c.final) : ∃ f ∈ (step c s .remove).vfs.files, f.path = c.final := by
  cases ht : s.tmp with
  | none =>
    have e : step c s .remove = s := by simp [step, onTmp, ht]
    rw [e]; exact h
  | some t =>
    have e : step c s .remove = { s with vfs := s.vfs.remove t } := by simp [step, onTmp, ht]
    rw [e]
    obtain ⟨f, hf, hp⟩ := h
    obtain ⟨htf, _⟩ := hb.tmp t ht
    refine ⟨f, ?_, hp⟩
    simp only [VFS.remove, List.mem_filter]
    exact ⟨hf, by simpa [hp] using (fun e => htf e.symm : c.final ≠ t)⟩

theorem step_rename (c : Ctx) (v0 : VFS) (s : RunSt) (hT : ∀ n, tmpName c.dir c.pfx n ≠ c.final)
    (hb : Base c v0 s) (hr : Rel c 3 s) :
    Base c v0 (step c s .rename) ∧ (∃ f ∈ (step c s .rename).vfs.files, f.path = c.final) := by
  obtain ⟨t, ht, hex, hall⟩ := hr
  obtain ⟨htf, n0, hn0⟩ := hb.tmp t ht
  have ef : (step c s .rename).vfs.files = (s.vfs.files.filter (fun x => x.path ≠ c.final)).map
        (fun x => if x.path = t then { x with path := c.final } else x) := by
    simp [step, onTmp, ht, VFS.rename, lookup_isSome s.vfs t hex]
  have et : (step c s .rename).tmp = s.tmp := by simp [step, onTmp, ht]
  have ec : (step c s .rename).vfs.counter = s.vfs.counter := by
    simp [step, onTmp, ht, VFS.rename, lookup_isSome s.vfs t hex]
  have mem : ∀ f', f' ∈ (s.vfs.files.filter (fun x => x.path ≠ c.final)).map
      (fun x => if x.path = t then { x with path := c.final } else x) →
      (∃ f ∈ s.vfs.files, f.path = t ∧ f' = { f with path := c.final }) ∨
      (f' ∈ s.vfs.files ∧ f'.path ≠ c.final ∧ f'.path ≠ t) := by
    intro f' hf'
    simp only [List.mem_map, List.mem_filter] at hf'
    obtain ⟨f, ⟨hf, hpf⟩, e'⟩ := hf'
    by_cases hpt : f.path = t
    · rw [if_pos hpt] at e'; exact Or.inl ⟨f, hf, hpt, e'.symm⟩
    · rw [if_neg hpt] at e'; subst e'; exact Or.inr ⟨hf, by simpa using hpf, hpt⟩
  refine ⟨⟨by rw [et]; exact hb.tmp, ?_, ?_, ?_, ?_⟩, ?_⟩
  all_goals rw [ef]
  · intro f' hf' hp
    rcases mem f' hf' with ⟨f, hf, hpt, e'⟩ | ⟨_, hne, _⟩
    · subst e'
      obtain ⟨h1, h2⟩ := hall f hf hpt
      exact ⟨by simp [h1, h2], Or.inl h2⟩
    · exact absurd hp hne
  · intro f' hf' hp hn
    rcases mem f' hf' with ⟨f, hf, hpt, e'⟩ | ⟨hin, _, _⟩
    · subst e'; exact absurd rfl hp
    · exact hb.frame1 f' hin hp hn
  · intro f hf hp hn
    have hin := hb.frame2 f hf hp hn
    simp only [List.mem_map, List.mem_filter]
    exact ⟨f, ⟨hin, by simpa using hp⟩, by rw [if_neg (by rw [hn0]; exact hn n0)]⟩
  · intro f' hf' n hn
    rw [ec] at hn
    rcases mem f' hf' with ⟨f, hf, hpt, e'⟩ | ⟨hin, _, _⟩
    · subst e'; exact fun e => hT n e.symm
    · exact hb.fresh f' hin n hn
  · obtain ⟨f0, hf0, hp0⟩ := hex
    refine ⟨{ f0 with path := c.final }, ?_, rfl⟩
    simp only [List.mem_map, List.mem_filter]
    exact ⟨f0, ⟨hf0, by simpa [hp0] using htf⟩, by rw [if_pos hp0]⟩

/-- one effect of a safe order keeps `Base` and moves `Rel` along the scan -/
theorem step_safe (c : Ctx) (v0 : VFS) (hT : ∀ n, tmpName c.dir c.pfx n ≠ c.final)
    (a a' : Nat) (e : Eff) (s : RunSt) (hs : scanStep a e = some a') (hb : Base c v0 s) (hr : Rel c a s) :
    Base c v0 (step c s e) ∧ Rel c a' (step c s e) := by
  cases e
  case mkdirAll =>
    simp only [scanStep, Option.some.injEq] at hs; subst hs
    exact step_mkdirAll c v0 a s hb hr
  case close =>
    simp only [scanStep, Option.some.injEq] at hs; subst hs
    exact ⟨hb, hr⟩
  case lstat =>
    simp only [scanStep, Option.some.injEq] at hs; subst hs
    exact ⟨hb, hr⟩
  case tempFile =>
    simp only [scanStep] at hs
    split at hs
    · injection hs with hs; subst hs
      exact step_tempFile c v0 s hT hb
    · cases hs
  case copy =>
    simp only [scanStep] at hs
    split at hs
    · rename_i ha; subst ha
      injection hs with hs; subst hs
      exact step_copy c v0 s hb hr
    · cases hs
  case sync =>
    simp only [scanStep, Option.some.injEq] at hs; subst hs
    exact step_sync c v0 a s hb hr
  case rename =>
    simp only [scanStep] at hs
    split at hs
    · rename_i ha; subst ha
      injection hs with hs; subst hs
      exact step_rename c v0 s hT hb hr
    · cases hs
  case remove =>
    simp only [scanStep, Option.some.injEq] at hs
    have hb' := step_remove c v0 s hb
    refine ⟨hb', ?_⟩
    subst hs
    by_cases ha : a = 4
    · subst ha
      exact step_remove_final c v0 s hb hr
    · simp only [ha, if_false]; trivial
  all_goals (simp [scanStep] at hs)

theorem run_safe (c : Ctx) (v0 : VFS) (hT : ∀ n, tmpName c.dir c.pfx n ≠ c.final)
    (effs : List Eff) (a aEnd : Nat) (s : RunSt) (hs : scan a effs = some aEnd)
    (hb : Base c v0 s) (hr : Rel c a s) (k : Nat) :
    ∃ ak, Base c v0 (run c s (effs.take k)) ∧ Rel c ak (run c s (effs.take k)) := by
  induction effs generalizing a s k with
  | nil => exact ⟨a, by simpa [run] using hb, by simpa [run] using hr⟩
  | cons e t ih =>
    cases k with
    | zero => exact ⟨a, by simpa [run] using hb, by simpa [run] using hr⟩
    | succ k =>
      simp only [scan] at hs
      cases hse : scanStep a e with
      | none => simp [hse] at hs
      | some a1 =>
        simp only [hse] at hs
        obtain ⟨hb1, hr1⟩ := step_safe c v0 hT a a1 e s hse hb hr
        simpa [run] using ih a1 (step c s e) hs hb1 hr1 k

/-- a clean file (everything synced) is what it is after a crash -/
theorem crashFile_clean (j : Nat) (f : File) (h : f.dur = f.cur) : crashFile j f = f := by
  cases f with
  | mk p d cu =>
    simp only at h; subst h
    simp [crashFile]

theorem crashFile_path (j : Nat) (f : File) : (crashFile j f).path = f.path := rfl

/-! ## names -/

theorem hasSuffix_split (s suf : Bytes) (h : hasSuffix s suf = true) : s = s.take (s.length - suf.length) ++ suf := by
  simp only [hasSuffix, Bool.and_eq_true, decide_eq_true_eq, beq_iff_eq] at h
  have := List.take_append_drop (s.length - suf.length) s
  rw [h.2] at this
  exact this.symm

theorem hasSuffix_append (a suf : Bytes) : hasSuffix (a ++ suf) suf = true := by
  simp [hasSuffix]

/-- a name that ends in a decimal digit (what `TempFile` returns) is not a `.dat` name -/
theorem tmpName_not_dat (dir pfx : Bytes) (n : Nat) : hasSuffix (tmpName dir pfx n) dotDat = false := by
  cases h : hasSuffix (tmpName dir pfx n) dotDat with
  | false => rfl
  | true =>
    exfalso
    have hs := hasSuffix_split _ _ h
    have h1 : (tmpName dir pfx n).getLast? = some 116 := by
      rw [hs, List.getLast?_append]; simp [dotDat]
    have hne := Pk.Pack.decEnc_ne_nil n
    obtain ⟨d, hd⟩ : ∃ d, (decEnc n).getLast? = some d := by
      cases hg : (decEnc n).getLast? with
      | none => exact absurd (List.getLast?_eq_none_iff.mp hg) hne
      | some d => exact ⟨d, rfl⟩
    have h2 : (tmpName dir pfx n).getLast? = some d := by
      have : tmpName dir pfx n = (dir ++ 47 :: pfx) ++ decEnc n := by simp [tmpName, join]
      rw [this, List.getLast?_append, hd]; rfl
    rw [h1] at h2
    injection h2 with h2
    have hdig := Pk.Pack.decEnc_digits n d (List.mem_of_getLast? hd)
    subst h2
    simp [Pk.Pack.isDigit] at hdig

theorem tmpName_ne_dat (dir pfx : Bytes) (n : Nat) (p : Bytes) (hp : hasSuffix p dotDat = true) :
    tmpName dir pfx n ≠ p := by
  intro e
  rw [← e, tmpName_not_dat] at hp
  cases hp

/-! ## enumerate -/

/-- every listed entry is a file whose name is the listed ref followed by `.dat`, with that file's size -/
def EnumSound (v : VFS) (es : List (Bytes × Nat)) : Prop :=
  ∀ e ∈ es, ∃ f ∈ v.files, ∃ d, f.path = join d (e.1 ++ dotDat) ∧ e.2 = f.cur.length

theorem lookup_some (v : VFS) (p : Bytes) (f : File) (h : v.lookup p = some f) : f ∈ v.files ∧ f.path = p := by
  unfold VFS.lookup at h
  exact ⟨List.mem_of_find?_eq_some h, by simpa using List.find?_some h⟩

theorem enumName_sound (okRef : Bytes → Bool) (v : VFS) (sub : Bytes → List (Bytes × Nat) × Bool)
    (dirFull name : Bytes) (hsub : ∀ d, EnumSound v (sub d).1) :
    EnumSound v (enumName okRef v sub dirFull name).1 := by
  have hnil : EnumSound v [] := by
    intro e he; cases he
  unfold enumName
  by_cases h1 : skipDir name = true
  · simp only [h1, if_true]; exact hnil
  · simp only [h1]
    by_cases h2 : (isShardDir name || v.isDir (join dirFull name)) = true
    · simp only [h2, if_true, Bool.false_eq_true, if_false]
      by_cases h3 : v.isDir (join dirFull name) = true
      · simp only [h3, if_true]; exact hsub _
      · simp only [h3]; exact hnil
    · simp only [h2, Bool.false_eq_true, if_false]
      by_cases h4 : (!hasSuffix name dotDat) = true
      · simp only [h4, if_true]; exact hnil
      · simp only [h4]
        cases hf : v.lookup (join dirFull name) with
        | none => exact hnil
        | some f =>
          simp only []
          by_cases h5 : List.take (name.length - 4) name ≠ [] ∧ okRef (List.take (name.length - 4) name) = true
          · rw [if_pos h5]
            intro e he
            have he : e = (List.take (name.length - 4) name, f.cur.length) := by simpa using he
            subst he
            obtain ⟨hmem, hpath⟩ := lookup_some v _ f hf
            have hd : hasSuffix name dotDat = true := by simpa using h4
            have hs := hasSuffix_split name dotDat hd
            refine ⟨f, hmem, dirFull, ?_, rfl⟩
            rw [hpath]
            simp only [dotDat, List.length_cons, List.length_nil] at hs ⊢
            rw [← hs]
          · rw [if_neg h5]; exact hnil

theorem enumNames_sound (okRef : Bytes → Bool) (v : VFS) (sub : Bytes → List (Bytes × Nat) × Bool)
    (dirFull : Bytes) (names : List Bytes) (hsub : ∀ d, EnumSound v (sub d).1) :
    EnumSound v (enumNames okRef v sub dirFull names).1 := by
  induction names with
  | nil => intro e he; cases he
  | cons n ns ih =>
    have h1 := enumName_sound okRef v sub dirFull n hsub
    simp only [enumNames]
    split
    · rename_i es heq
      rw [heq] at h1; exact h1
    · rename_i es heq
      rw [heq] at h1
      intro e he
      rcases List.mem_append.mp he with he | he
      · exact h1 e he
      · exact ih e he

theorem readBlobs_sound (okRef : Bytes → Bool) (v : VFS) (fuel : Nat) (dir : Bytes) :
    EnumSound v (readBlobs okRef v fuel dir).1 := by
  induction fuel generalizing dir with
  | zero => intro e he; cases he
  | succ f ih =>
    simp only [readBlobs]
    exact enumNames_sound okRef v _ dir _ (fun d => ih d)

/-! ## paths through an extracted effect list -/

/-- the paths a receive may take through an effect list: the success path, or the error path of a call
that fails -/
def IsPath (l : List EffAt) (path : List Eff) : Prop :=
  path = successPath l ∨ ∃ k, k ≤ (spine l).length ∧ path = errorPath l k

theorem scan_of_pred (l : List EffAt) (h : CrashSafePred l = true) (path : List Eff) (hp : IsPath l path) :
    ∃ a, scan 0 path = some a := by
  simp only [CrashSafePred, Bool.and_eq_true, beq_iff_eq, List.all_eq_true, List.mem_range] at h
  rcases hp with hp | ⟨k, hk, hp⟩
  · exact ⟨4, by rw [hp]; exact h.1⟩
  · have := h.2 k (by omega)
    rw [hp]
    cases hs : scan 0 (errorPath l k) with
    | none => rw [hs] at this; cases this
    | some a => exact ⟨a, rfl⟩

/-- a VFS as a restart finds it: nothing un-synced, and `TempFile` will not hand out an existing name -/
def Restarted (c : Ctx) (v0 : VFS) : Prop :=
  (∀ f ∈ v0.files, f.dur = f.cur) ∧ (∀ f ∈ v0.files, ∀ n, v0.counter ≤ n → f.path ≠ tmpName c.dir c.pfx n)

end Pk.FilesStore
