import PkVerif.Lemmas.RefMerge
/-! C01: shard, replica and cond under a key predicate (`RefinesK`).  Same abstraction and invariants
as `shard2Refines` / `replica2Refines` / `cond2Refines`; the step proofs are the shared
`shard2_stepK` / `replica2_stepK` / `cond2_stepK` of `Lemmas/RefMerge.lean`, and the `keys` field
follows from the sub-stores' `keys` (`keys_union`). -/
namespace Pk.Stores
open Pk Pk.SMap Pk.RefMap

def shard2RefinesK {content : Bytes → Bytes} {K : Bytes → Prop} (route : Bytes → Bool) {a b : Impl}
    (Ra : RefinesK content K a) (Rb : RefinesK content K b) :
    RefinesK content K (shard2Impl route a b) where
  abs := fun s => union (Ra.abs s.1) (Rb.abs s.2)
  Inv := PartInvK Ra Rb route
  init_inv := ⟨Ra.init_inv, Rb.init_inv,
    by intro k h; simp [shard2Impl, Ra.init_abs, has, SMap.get] at h,
    by intro k h; simp [shard2Impl, Rb.init_abs, has, SMap.get] at h⟩
  init_abs := by simp [shard2Impl, Ra.init_abs, Rb.init_abs, union]
  good := fun s h => good_union (Ra.good _ h.1) (Rb.good _ h.2.1)
  keys := fun s h => keys_union (Ra.keys _ h.1) (Rb.keys _ h.2.1)
  step_ok := fun s op hI hop hK => shard2_stepK route Ra Rb s op hI hop hK

def replica2RefinesK {content : Bytes → Bytes} {K : Bytes → Prop} {a b : Impl}
    (Ra : RefinesK content K a) (Rb : RefinesK content K b) :
    RefinesK content K (replica2Impl a b) where
  abs := fun s => Ra.abs s.1
  Inv := fun s => Ra.Inv s.1 ∧ Rb.Inv s.2 ∧ Ra.abs s.1 = Rb.abs s.2
  init_inv := ⟨Ra.init_inv, Rb.init_inv, by simp [replica2Impl, Ra.init_abs, Rb.init_abs]⟩
  init_abs := Ra.init_abs
  good := fun s h => Ra.good _ h.1
  keys := fun s h => Ra.keys _ h.1
  step_ok := fun s op hI hop hK => replica2_stepK Ra Rb s op hI hop hK

def cond2RefinesK {content : Bytes → Bytes} {K : Bytes → Prop} (isSchema : Bytes → Bool) {t e : Impl}
    (Rt : RefinesK content K t) (Re : RefinesK content K e) :
    RefinesK content K (cond2Impl isSchema t e) where
  abs := fun s => union (Rt.abs s.1) (Re.abs s.2)
  Inv := CondInvK isSchema Rt Re
  init_inv := ⟨Rt.init_inv, Re.init_inv,
    by intro k h; simp [cond2Impl, Rt.init_abs, has, SMap.get] at h,
    by intro k h; simp [cond2Impl, Re.init_abs, has, SMap.get] at h⟩
  init_abs := by simp [cond2Impl, Rt.init_abs, Re.init_abs, union]
  good := fun s h => good_union (Rt.good _ h.1) (Re.good _ h.2.1)
  keys := fun s h => keys_union (Rt.keys _ h.1) (Re.keys _ h.2.1)
  step_ok := fun s op hI hop hK => cond2_stepK isSchema Rt Re s op hI hop hK

end Pk.Stores
