import PkVerif.Lemmas.EncryptInv
import PkVerif.Spec.RefMap
/-!
# The encrypt store refines the reference map (receive / fetch / stat / enumerate) – C11

`encImpl` is the storage API of the model under the driver's schedule (packers run to their end after
every receive); `RemoveBlobs` is not implemented by the store (`ErrNotImplemented`), so histories with
`rm` are outside the statement.
-/
namespace Pk.Encrypt
open Pk Pk.SMap

def toOut : Res → RefMap.Out
  | .sized n => .sized n
  | .bytes b _ => .bytes b
  | .notExist => .notExist
  | .corrupt => .err
  | .err => .err
  | .refs l => .refs l

/-- the storage API as an implementation of the reference-map interface -/
def encImpl (P : Params) : RefMap.Impl where
  σ := St
  init := {}
  step := fun s op =>
    match op with
    | .recv k v => ((receiveBlob P goodR goodP false s k v).1, toOut (receiveBlob P goodR goodP false s k v).2)
    | .fetch k => (s, toOut (fetch P s k))
    | .stat k => (s, toOut (statBlob P s k))
    | .enum after limit => (s, toOut (enumerateBlobs P s after limit))
    | .rm _ => (s, .err)

/-- a well-keyed operation of the encrypt store: received bytes are the content of their ref, the ref is
their digest, sizes fit 32 bits; enumerate asks for at least one ref; no remove -/
def OpOK (P : Params) (content : Bytes → Bytes) : RefMap.Op → Prop
  | .recv k v => v = content k ∧ k = P.digest v ∧ v.length < 4294967296
  | .enum _ limit => 0 < limit
  | .rm _ => False
  | _ => True

def absOf (content : Bytes → Bytes) (idx : SMap Bytes) : SMap Bytes := idx.map (fun kv => (kv.1, content kv.1))

variable {P : Params}

theorem get_absOf (content : Bytes → Bytes) (idx : SMap Bytes) (k : Bytes) :
    get (absOf content idx) k = (get idx k).map (fun _ => content k) := by
  induction idx with
  | nil => rfl
  | cons p rest ih =>
    obtain ⟨k', v'⟩ := p
    by_cases hk : k = k'
    · subst hk; simp [absOf, SMap.get]
    · simp only [absOf, List.map_cons, SMap.get, hk, if_false] at ih ⊢
      exact ih

theorem absOf_ins (content : Bytes → Bytes) (k v : Bytes) (idx : SMap Bytes) :
    absOf content (ins k v idx) = ins k (content k) (absOf content idx) := by
  induction idx with
  | nil => rfl
  | cons p rest ih =>
    obtain ⟨k', v'⟩ := p
    simp only [absOf, List.map_cons, ins] at ih ⊢
    split
    · rfl
    · split
      · rfl
      · simp only [List.map_cons, ih]

/-! ## frames of the packer steps and of the receive run -/

/-- what a packer step leaves alone (no fault is armed in the histories of the refinement) -/
def SameFrame (s' s : St) : Prop :=
  s'.index = s.index ∧ s'.recv = s.recv ∧ s'.lastFailed = s.lastFailed ∧ s'.failBlobs = s.failBlobs ∧
  (s.failMeta = 0 → s'.failMeta = 0) ∧ s'.failIndex = s.failIndex

theorem SameFrame.rfl' (s : St) : SameFrame s s := ⟨rfl, rfl, rfl, rfl, fun h => h, rfl⟩

theorem SameFrame.trans {a b c : St} (h1 : SameFrame a b) (h2 : SameFrame b c) : SameFrame a c :=
  ⟨h1.1.trans h2.1, h1.2.1.trans h2.2.1, h1.2.2.1.trans h2.2.2.1, h1.2.2.2.1.trans h2.2.2.2.1,
   fun h => h1.2.2.2.2.1 (h2.2.2.2.2.1 h), h1.2.2.2.2.2.trans h2.2.2.2.2.2⟩

theorem jobStep_frame (s0 : St) (j : Job) : SameFrame (jobStep P goodP s0 j).1 s0 := by
  unfold jobStep
  cases j.rest with
  | nil => exact SameFrame.rfl' _
  | cons a rest =>
    cases a with
    | upload =>
      simp only
      cases packedLines s0.index (sortRefs j.plains) with
      | none => exact SameFrame.rfl' _
      | some ls =>
        simp only
        split
        · exact ⟨rfl, rfl, rfl, rfl, fun _ => rfl, rfl⟩
        · exact ⟨rfl, rfl, rfl, rfl, fun h => by show s0.failMeta - 1 = 0; omega, rfl⟩
    | record =>
      simp only
      cases j.packed with
      | none => exact SameFrame.rfl' _
      | some br => simp only; split <;> exact SameFrame.rfl' _
    | remove => exact ⟨rfl, rfl, rfl, rfl, fun h => h, rfl⟩

theorem stepJob_frame (s : St) (i : Nat) : SameFrame (stepJob P goodP s i) s := by
  unfold stepJob
  cases s.jobs[i]? with
  | none => exact SameFrame.rfl' _
  | some j =>
    have key := jobStep_frame (P := P) { s with jobs := s.jobs.eraseIdx i } j
    simp only
    generalize jobStep P goodP { s with jobs := s.jobs.eraseIdx i } j = res at key
    obtain ⟨s1, oj⟩ := res
    cases oj <;> exact key

theorem drain_frame (fuel : Nat) (s : St) : SameFrame (drain P goodP fuel s) s := by
  induction fuel generalizing s with
  | zero => exact SameFrame.rfl' _
  | succ f ih =>
    simp only [drain]
    split
    · exact SameFrame.rfl' _
    · exact (ih (stepJob P goodP s 0)).trans (stepJob_frame (P := P) s 0)

theorem inv_drain (I : Ideal P) (fuel : Nat) {s : St} (h : Inv P s) : Inv P (drain P goodP fuel s) := by
  induction fuel generalizing s with
  | zero => exact h
  | succ f ih =>
    simp only [drain]
    split
    · exact h
    · exact ih (inv_stepJob I h 0)

theorem recvStep_failIndex (s : St) (h : s.failIndex = 0) : (recvStep P goodP s).failIndex = 0 := by
  unfold recvStep
  split
  · exact h
  · split
    · exact h
    · split <;> exact h
    · split <;> exact h
    · split <;> exact h
    · split
      · rfl
      · show s.failIndex - 1 = 0
        omega

theorem recvBegin_failIndex (s : St) (k v : Bytes) :
    (recvBegin P goodR s k v).1.failIndex = s.failIndex := by
  unfold recvBegin
  split
  · rfl
  · split <;> rfl

/-- what a ReceiveBlob of a ref the index does not know leaves behind (before the packers run) -/
theorem recvRun_spec (I : Ideal P) {s : St} (h : Inv P s) (h0 : s.recv = none) (k v : Bytes)
    (hk : k = P.digest v) (hlen : v.length < 4294967296) (hnone : get s.index k = none)
    (hfb : s.failBlobs = 0) (hfmt : s.failMeta = 0) (hfi : s.failIndex = 0) :
    ∃ s1 row, recvBegin P goodR s k v = ((recvBegin P goodR s k v).1, none) ∧
      recvRun P goodP false 5 (recvBegin P goodR s k v).1 = s1 ∧
      Inv P s1 ∧ s1.recv = none ∧ s1.index = ins k row s.index ∧
      s1.failBlobs = 0 ∧ s1.failMeta = 0 ∧ s1.lastFailed = false ∧ s1.failIndex = 0 := by
  subst hk
  have hfm : fetchMeta P s.index (P.digest v) = .notExist := by simp [fetchMeta, hnone]
  have hb : recvBegin P goodR s (P.digest v) v = ((recvBegin P goodR s (P.digest v) v).1, none) := by
    simp [recvBegin, hfm]
  have i0 := inv_recvBegin I h _ v h0 hlen hb
  have g0 : (recvBegin P goodR s (P.digest v) v).1.failIndex = 0 := by simp [recvBegin, hfm, hfi]
  have g1 := recvStep_failIndex (P := P) _ g0
  have g2 := recvStep_failIndex (P := P) _ g1
  have g3 := recvStep_failIndex (P := P) _ g2
  have g4 := recvStep_failIndex (P := P) _ g3
  have i1 := inv_recvStep I i0 g0
  have i2 := inv_recvStep I i1 g1
  have i3 := inv_recvStep I i2 g2
  have i4 := inv_recvStep I i3 g3
  have i5 := inv_recvStep I i4 g4
  refine ⟨_, packIndexEntry v.length (P.digest (encryptBlob P s.nonce v)), hb, rfl, ?_, ?_, ?_, ?_, ?_, ?_, ?_⟩
  · have e : recvRun P goodP false 5 (recvBegin P goodR s (P.digest v) v).1 =
        recvStep P goodP (recvStep P goodP (recvStep P goodP (recvStep P goodP (recvStep P goodP
          (recvBegin P goodR s (P.digest v) v).1)))) := by
      simp [recvBegin, hfm, recvRun, recvStep, goodR, St.record, hfb, hfmt, hfi]
    rw [e]; exact i5
  · simp [recvBegin, hfm, recvRun, recvStep, goodR, St.record, hfb, hfmt, hfi]
  · simp [recvBegin, hfm, recvRun, recvStep, goodR, St.record, hfb, hfmt, hfi]
  · simp [recvBegin, hfm, recvRun, recvStep, goodR, St.record, hfb, hfmt, hfi]
  · simp [recvBegin, hfm, recvRun, recvStep, goodR, St.record, hfb, hfmt, hfi]
  · simp [recvBegin, hfm, recvRun, recvStep, goodR, St.record, hfb, hfmt, hfi]
  · simp [recvBegin, hfm, recvRun, recvStep, goodR, St.record, hfb, hfmt, hfi]

/-! ## enumerate -/

theorem enumRows_good (limit : Nat) (hl : 0 < limit) (f : Bytes → Nat) (rows : List (Bytes × Bytes))
    (hrows : ∀ kv ∈ rows, ∃ e, unpackIndexEntry P kv.2 = some (f kv.1, e)) (n : Nat) (hn : n < limit) :
    enumRows P limit n rows = some ((rows.map (fun kv => (kv.1, f kv.1))).take (limit - n)) := by
  induction rows generalizing n with
  | nil => simp [enumRows]
  | cons kv rest ih =>
    obtain ⟨k, v⟩ := kv
    obtain ⟨e, he⟩ := hrows (k, v) (by simp)
    simp only at he
    simp only [enumRows, he]
    by_cases hstop : limit ≠ 0 ∧ n + 1 ≥ limit
    · rw [if_pos hstop]
      have : limit - n = 1 := by omega
      simp [this]
    · rw [if_neg hstop]
      have hn' : n + 1 < limit := by omega
      rw [ih (fun q hq => hrows q (by simp [hq])) (n + 1) hn']
      have : limit - n = (limit - (n + 1)) + 1 := by omega
      simp [this]

end Pk.Encrypt

namespace Pk.Encrypt
open Pk Pk.SMap
variable {P : Params}

/-! ## the simulation -/

theorem sizes_absOf_filter (content : Bytes → Bytes) (after : Bytes) (idx : SMap Bytes) :
    RefMap.sizes ((absOf content idx).filter (fun p => ltB after p.1)) =
      (idx.filter (fun kv => ltB after kv.1)).map (fun kv => (kv.1, (content kv.1).length)) := by
  induction idx with
  | nil => rfl
  | cons p rest ih =>
    obtain ⟨k, v⟩ := p
    simp only [absOf, List.map_cons, List.filter_cons] at ih ⊢
    split
    · simp only [RefMap.sizes, List.map_cons] at ih ⊢
      rw [ih]
    · exact ih

/-- what the simulation keeps: the invariant, no ReceiveBlob in flight between API calls, and every
index key is the digest of the content the reference map associates with it -/
structure Sim (P : Params) (content : Bytes → Bytes) (s : St) : Prop where
  inv : Inv P s
  quiet : s.recv = none
  keys : ∀ k v, get s.index k = some v → k = P.digest (content k) ∧ (content k).length < 4294967296
  nofault : s.failBlobs = 0 ∧ s.failMeta = 0 ∧ s.failIndex = 0

theorem Sim.row (I : Ideal P) {content : Bytes → Bytes} {s : St} (h : Sim P content s) {k v : Bytes}
    (hg : get s.index k = some v) :
    ∃ r, get s.blobs (P.digest (encryptBlob P r (content k))) = some (encryptBlob P r (content k)) ∧
      v = packIndexEntry (content k).length (P.digest (encryptBlob P r (content k))) ∧
      fetchMeta P s.index k = .ok (content k).length (P.digest (encryptBlob P r (content k))) := by
  obtain ⟨plain, r, h1, h2, h3, h4⟩ := h.inv.row_ok hg
  obtain ⟨k1, _⟩ := h.keys k v hg
  simp only at h1 h3
  have : plain = content k := I.digest_inj _ _ (by rw [← h1, ← k1])
  subst this
  exact ⟨r, h4, h3, by simp only [fetchMeta, hg, h3, unpack_pack I _ h2]⟩

theorem sim_step (I : Ideal P) (content : Bytes → Bytes) {s : St} (h : Sim P content s) (op : RefMap.Op)
    (hop : OpOK P content op) :
    ((encImpl P).step s op).2 = RefMap.out (absOf content s.index) op ∧
    absOf content ((encImpl P).step s op).1.index = RefMap.next (absOf content s.index) op ∧
    Sim P content ((encImpl P).step s op).1 := by
  cases op with
  | rm k => exact absurd hop (by simp [OpOK])
  | fetch k =>
    refine ⟨?_, rfl, h⟩
    simp only [encImpl, RefMap.out, get_absOf]
    cases hg : get s.index k with
    | none => simp [fetch, fetchMeta, hg, toOut]
    | some v =>
      obtain ⟨r, r1, _, r3⟩ := h.row I hg
      obtain ⟨k1, _⟩ := h.keys k v hg
      have : fetch P s k = .bytes (content k) (content k).length := by
        simp only [fetch, r3, r1, decrypt_encrypt, ne_eq, not_true_eq_false, if_false, ← k1, or_self]
      simp [this, toOut]
  | stat k =>
    refine ⟨?_, rfl, h⟩
    simp only [encImpl, RefMap.out, get_absOf]
    cases hg : get s.index k with
    | none => simp [statBlob, fetchMeta, hg, toOut]
    | some v =>
      obtain ⟨r, _, _, r3⟩ := h.row I hg
      simp [statBlob, r3, toOut]
  | enum after limit =>
    refine ⟨?_, rfl, h⟩
    have hl : 0 < limit := hop
    have hrows : ∀ kv ∈ s.index.filter (fun kv => ltB after kv.1),
        ∃ e, unpackIndexEntry P kv.2 = some ((content kv.1).length, e) := by
      intro kv hkv
      have hmem := (List.mem_filter.mp hkv).1
      have hg : get s.index kv.1 = some kv.2 := mem_get h.inv.kI hmem
      obtain ⟨r, _, r2, _⟩ := h.row I hg
      obtain ⟨_, k2⟩ := h.keys _ _ hg
      exact ⟨_, by rw [r2]; exact unpack_pack I _ k2 _⟩
    have := enumRows_good (P := P) limit hl (fun k => (content k).length) _ hrows 0 hl
    simp only [encImpl, enumerateBlobs, this, toOut, RefMap.out, RefMap.enumOf, sizes_absOf_filter, Nat.sub_zero]
  | recv k v =>
    obtain ⟨hv, hk, hlen⟩ := hop
    subst hv
    simp only [encImpl, RefMap.out, RefMap.next]
    cases hg : get s.index k with
    | some row =>
      obtain ⟨r, _, _, r3⟩ := h.row I hg
      have hrb : receiveBlob P goodR goodP false s k (content k) = (s, .sized (content k).length) := by
        simp [receiveBlob, recvBegin, r3]
      have hhas : has (absOf content s.index) k = true := by simp [has, get_absOf, hg]
      rw [hrb]
      simp only [toOut, hhas, if_true]
      exact ⟨trivial, trivial, h⟩
    | none =>
      obtain ⟨s1, row, hb, hrun, i1, q1, x1, f1, f2, f3, f4⟩ :=
        recvRun_spec I h.inv h.quiet k (content k) hk hlen hg h.nofault.1 h.nofault.2.1 h.nofault.2.2
      have hhas : has (absOf content s.index) k = false := by simp [has, get_absOf, hg]
      subst hrun
      have hrb : receiveBlob P goodR goodP false s k (content k) =
          (drain P goodP (drainFuel (recvRun P goodP false 5 (recvBegin P goodR s k (content k)).1))
            (recvRun P goodP false 5 (recvBegin P goodR s k (content k)).1), .sized (content k).length) := by
        unfold receiveBlob
        rw [hb]
        show (drain P goodP (drainFuel (recvRun P goodP false 5 (recvBegin P goodR s k (content k)).1))
            (recvRun P goodP false 5 (recvBegin P goodR s k (content k)).1),
          if (recvRun P goodP false 5 (recvBegin P goodR s k (content k)).1).lastFailed = true then Res.err
          else Res.sized (content k).length) = _
        simp only [f3, Bool.false_eq_true, if_false]
      rw [hrb]
      obtain ⟨d1, d2, _, d4, d5, d6⟩ := drain_frame (P := P)
        (drainFuel (recvRun P goodP false 5 (recvBegin P goodR s k (content k)).1)) (recvRun P goodP false 5 (recvBegin P goodR s k (content k)).1)
      simp only [toOut, hhas, Bool.false_eq_true, if_false, d1, x1, absOf_ins]
      refine ⟨trivial, trivial, inv_drain I _ i1, d2.trans q1, ?_, d4.trans f1, d5 f2, d6.trans f4⟩
      intro k' v' hg'
      rw [d1, x1, get_ins] at hg'
      by_cases hkk : k' = k
      · subst hkk
        exact ⟨hk, hlen⟩
      · simp only [hkk, if_false] at hg'
        exact h.keys k' v' hg'

/-- the encrypt store answers every history of well-keyed receive / fetch / stat / enumerate operations
exactly as the reference content-addressed map does -/
theorem refines_refmap (I : Ideal P) (content : Bytes → Bytes) (ops : List RefMap.Op)
    (hops : ∀ op ∈ ops, OpOK P content op) (s : St) (h : Sim P content s) :
    (encImpl P).run s ops = RefMap.run (absOf content s.index) ops := by
  induction ops generalizing s with
  | nil => rfl
  | cons op ops ih =>
    obtain ⟨ho, ha, hs⟩ := sim_step I content h op (hops op (by simp))
    simp only [RefMap.Impl.run, RefMap.run, ho]
    rw [ih (fun o ho' => hops o (by simp [ho'])) _ hs, ha]

theorem sim_init (content : Bytes → Bytes) : Sim P content ({} : St) :=
  ⟨inv_init, rfl, by intro k v hg; simp [SMap.get] at hg, rfl, rfl, rfl⟩

end Pk.Encrypt

namespace Pk.Encrypt
open Pk Pk.SMap
variable {P : Params}

/-! ## acknowledged ⇒ the index has the row (also in histories with failing wrapped stores) -/

/-- when the ReceiveBlob in flight has run its program to the end and no wrapped store failed – i.e. it is
about to return success – the index knows its blob -/
def AckOK (s : St) : Prop :=
  ∀ x, s.recv = some x → x.rest = [] → s.lastFailed = false → ∃ v, get s.index x.plainBR = some v

theorem readAll_recv (psteps : List PStep) (order : List Bytes) (t : St) :
    (readAllMetaBlobs P psteps order t).1.recv = t.recv := by
  induction order generalizing t with
  | nil => rfl
  | cons n rest ih =>
    simp only [readAllMetaBlobs]
    split
    · rfl
    · split
      · rfl
      · rw [ih]; rfl

theorem ack_step {s s' : St} (h : Inv P s) (ha : AckOK s) (st : Step P goodR goodP s s') : AckOK s' := by
  cases st with
  | recvBegin ref plain _ h0 hlen hb =>
    unfold recvBegin at hb
    split at hb
    · cases hb
    · split at hb
      · cases hb
      · injection hb with hb _
        subst hb
        intro x hx hr
        injection hx with hx
        subst hx
        simp [goodR] at hr
  | recvStep hne hfi =>
    unfold recvStep
    cases hx : s.recv with
    | none => rw [hx] at hne; exact absurd rfl hne
    | some x =>
      obtain ⟨_, _, _, r4⟩ := h.recv x hx
      rcases r4 with ⟨hm, hr | hr | hr⟩ | ⟨m, hm, _, hr | ⟨hr | hr, _⟩⟩
      · simp only [hr, goodR]
        split
        · intro y _ _ hl; simp at hl
        · intro y hy hr'; injection hy with hy; subst hy; simp at hr'
      · simp only [hr]
        split
        · intro y _ _ hl; simp at hl
        · intro y hy hr'; injection hy with hy; subst hy; simp at hr'
      · simp only [hr]; intro y hy; cases hy
      · simp only [hr]; intro y hy; cases hy
      · simp only [hr, hm]
        intro y hy hr'
        have hy' : some ({ x with metaBR := some m, rest := [RStep.setIndex] } : Recv) = some y := hy
        injection hy' with hy'
        subst hy'
        simp at hr'
      · simp only [hr, hfi, Nat.zero_ne_one, if_false]
        intro y hy _ _
        injection hy with hy
        subst hy
        refine ⟨packIndexEntry x.size x.encBR, ?_⟩
        show get (ins x.plainBR (packIndexEntry x.size x.encBR) s.index) x.plainBR = some _
        rw [get_ins]; simp
  | jobStep i =>
    obtain ⟨f1, f2, f3, _, _, _⟩ := stepJob_frame (P := P) s i
    intro x hx hr hl
    rw [f2] at hx; rw [f3] at hl; rw [f1]
    exact ha x hx hr hl
  | restart wipe order hord =>
    intro x hx
    unfold restart at hx
    rw [readAll_recv] at hx
    simp [crash] at hx
  | arm b m => exact ha

theorem ack_reach (I : Ideal P) {s : St} (hr : Reach P goodR goodP s) : AckOK s := by
  induction hr with
  | init => intro x hx; cases hx
  | step s s' hr' st ih => exact ack_step (inv_reach I hr') ih st

end Pk.Encrypt
