import PkVerif.Lemmas.RefMerge
import PkVerif.Lemmas.MergedNest
/-!
# C01: shard and replica over ANY number of sub-stores

`shardNImpl` / `replicaNImpl` (Model/Stores.lean) are the loops of shard.go / replica.go over the slice of
sub-stores, with ONE n-way merged enumeration.  Both refine the reference map whenever every sub-store
does:

* shard: the n-way shard steps exactly like the right-nested tree of two-way shards
  (`shardNestImpl`; point operations by computation, enumeration by `MergedEnum.merged_cons_nest`), whose
  refinement is `shard2Refines` level by level;
* replica: directly – every replica holds the same map, so every loop meets the same answer
  (`MergedEnum.merged_all_same` for the enumeration).

`interp_shardNest` / `interp_replicaNest`: the configuration trees the drivers build for
`shardN` / `replicaN` denote exactly these nested models.
-/
namespace Pk.Stores
open Pk Pk.SMap Pk.RefMap

/-! ## the trees of the drivers -/

theorem interp_shardNest (route isSchema : Bytes → Bool) (sum : Bytes → Nat) (n : Nat) :
    ∀ (r : List Cfg) (k : Cfg) (i : Nat),
      interp route isSchema (Cfg.shardNest sum n i k r) =
        shardNestImpl sum n i (interp route isSchema k) (r.map (interp route isSchema))
  | [], _, _ => rfl
  | k' :: r, k, i => by
    simp only [Cfg.shardNest, interp, List.map_cons, shardNestImpl]
    rw [interp_shardNest route isSchema sum n r k' (i + 1)]

theorem interp_replicaNest (route isSchema : Bytes → Bool) :
    ∀ (r : List Cfg) (k : Cfg),
      interp route isSchema (Cfg.replicaNest k r) =
        replicaNestImpl (interp route isSchema k) (r.map (interp route isSchema))
  | [], _ => rfl
  | k' :: r, k => by
    simp only [Cfg.replicaNest, interp, List.map_cons, replicaNestImpl]
    rw [interp_replicaNest route isSchema r k']

theorem wf_shardNest (sum : Bytes → Nat) (n : Nat) :
    ∀ (r : List Cfg) (k : Cfg) (i : Nat), k.WF = true → (∀ c ∈ r, c.WF = true) →
      (Cfg.shardNest sum n i k r).WF = true
  | [], _, _, hk, _ => hk
  | k' :: r, k, i, hk, hr => by
    simp only [Cfg.shardNest, Cfg.WF, Bool.and_eq_true]
    exact ⟨hk, wf_shardNest sum n r k' (i + 1) (hr k' (by simp)) (fun c hc => hr c (by simp [hc]))⟩

theorem wf_replicaNest : ∀ (r : List Cfg) (k : Cfg), k.WF = true → (∀ c ∈ r, c.WF = true) →
      (Cfg.replicaNest k r).WF = true
  | [], _, hk, _ => hk
  | k' :: r, k, hk, hr => by
    simp only [Cfg.replicaNest, Cfg.WF, Bool.and_eq_true]
    exact ⟨hk, wf_replicaNest r k' (hr k' (by simp)) (fun c hc => hr c (by simp [hc]))⟩

/-! ## generic: a state map that commutes with the steps gives equal runs -/

theorem run_eq_of_sim {I J : Impl} (f : I.σ → J.σ) (P : J.σ → Prop) (Q : Op → Prop)
    (h : ∀ s op, P (f s) → Q op →
      (J.step (f s) op).1 = f (I.step s op).1 ∧ (J.step (f s) op).2 = (I.step s op).2 ∧
        P (J.step (f s) op).1) :
    ∀ (ops : List Op) (s : I.σ), P (f s) → (∀ op ∈ ops, Q op) → I.run s ops = J.run (f s) ops
  | [], _, _, _ => rfl
  | op :: ops, s, hp, hq => by
    obtain ⟨h1, h2, h3⟩ := h s op hp (hq op (by simp))
    simp only [Impl.run]
    rw [h2, h1]
    rw [h1] at h3
    rw [run_eq_of_sim f P Q h ops _ h3 (fun o ho => hq o (by simp [ho]))]

/-- a refinement proof for every sub-store of a list -/
def RKids (content : Bytes → Bytes) : List Impl → Type
  | [] => Unit
  | k :: r => Refines content k × RKids content r

/-- what a refining store enumerates is ascending and within the limit -/
theorem enumOf_asc {content : Bytes → Bytes} {A : SMap Bytes} (hA : Good content A) (after : Bytes)
    (limit : Nat) :
    Asc ltB (MergedEnum.keys (enumOf A after limit)) ∧ (enumOf A after limit).length ≤ limit := by
  refine ⟨?_, by simp [enumOf, List.length_take]; omega⟩
  rw [MergedEnum.ascK_iff_pw]
  exact List.Pairwise.sublist (List.take_sublist _ _) (pw_sizes (kasc_filter _ hA.1))

/-! ## shard -/

/-- the state of the list of sub-stores as the state of the nested tree -/
def toNest (route : Bytes → Nat) (n : Nat) :
    (r : List Impl) → (k : Impl) → (i : Nat) → KidsSt (k :: r) → (shardNestImpl route n i k r).σ
  | [], _, _, s => s.1
  | k' :: r, _, i, s => (s.1, toNest route n r k' (i + 1) s.2)

theorem toNest_init (route : Bytes → Nat) (n : Nat) : ∀ (r : List Impl) (k : Impl) (i : Nat),
    toNest route n r k i (kidsInit (k :: r)) = (shardNestImpl route n i k r).init
  | [], _, _ => rfl
  | k' :: r, k, i => by
    simp only [toNest, kidsInit, shardNestImpl, shard2Impl]
    rw [← toNest_init route n r k' (i + 1)]
    rfl

theorem pair_step_eq {α β γ : Type} (a : α) {x : β × γ} {y1 : β} {y2 : γ} (h : x = (y1, y2)) :
    ((a, x.1), x.2) = ((a, y1), y2) := by subst h; rfl

/-- receive / fetch / stat / remove: indexing the slice is walking down the tree -/
theorem nest_point (route : Bytes → Nat) (n : Nat) (op : Op) (hne : opIsEnum op = false) :
    ∀ (r : List Impl) (k : Impl) (i : Nat) (s : KidsSt (k :: r)),
      i ≤ route (opKey op) % n → route (opKey op) % n < i + 1 + r.length →
      (shardNestImpl route n i k r).step (toNest route n r k i s) op =
        (toNest route n r k i (stepAt (k :: r) s (route (opKey op) % n - i) op).1,
         (stepAt (k :: r) s (route (opKey op) % n - i) op).2)
  | [], k, i, s, h1, h2 => by
    have e : route (opKey op) % n - i = 0 := by simp at h2; omega
    rw [e]
    obtain ⟨sk, su⟩ := s
    simp only [shardNestImpl, toNest, stepAt]
  | k' :: r, k, i, s, h1, h2 => by
    obtain ⟨sk, sr⟩ := s
    by_cases hj : route (opKey op) % n = i
    · have e : route (opKey op) % n - i = 0 := by omega
      rw [e]
      cases op with
      | enum _ _ => cases hne
      | recv key v => simp only [opKey] at hj; simp [shardNestImpl, toNest, stepAt, shard2Impl, hj]
      | fetch key => simp only [opKey] at hj; simp [shardNestImpl, toNest, stepAt, shard2Impl, hj]
      | stat key => simp only [opKey] at hj; simp [shardNestImpl, toNest, stepAt, shard2Impl, hj]
      | rm key => simp only [opKey] at hj; simp [shardNestImpl, toNest, stepAt, shard2Impl, hj]
    · have e : route (opKey op) % n - i = (route (opKey op) % n - (i + 1)) + 1 := by omega
      rw [e]
      have ih := nest_point route n op hne r k' (i + 1) sr (by omega)
        (by simp only [List.length_cons] at h2; omega)
      cases op with
      | enum _ _ => cases hne
      | recv key v =>
        simp only [opKey] at hj ih
        simp only [shardNestImpl, toNest, stepAt, shard2Impl, opKey, bne_iff_ne, ne_eq, hj,
          not_false_eq_true, if_true]
        exact pair_step_eq sk ih
      | fetch key =>
        simp only [opKey] at hj ih
        simp only [shardNestImpl, toNest, stepAt, shard2Impl, opKey, bne_iff_ne, ne_eq, hj,
          not_false_eq_true, if_true]
        exact pair_step_eq sk ih
      | stat key =>
        simp only [opKey] at hj ih
        simp only [shardNestImpl, toNest, stepAt, shard2Impl, opKey, bne_iff_ne, ne_eq, hj,
          not_false_eq_true, if_true]
        exact pair_step_eq sk ih
      | rm key =>
        simp only [opKey] at hj ih
        simp only [shardNestImpl, toNest, stepAt, shard2Impl, opKey, bne_iff_ne, ne_eq, hj,
          not_false_eq_true, if_true]
        exact pair_step_eq sk ih

/-- every sub-store answers this enumerate call with an ascending list within the limit -/
def EnumGood (after : Bytes) (limit : Nat) : (kids : List Impl) → KidsSt kids → Prop
  | [], _ => True
  | k :: r, s =>
    (∃ x, (k.step s.1 (.enum after limit)).2 = .refs x ∧ Asc ltB (MergedEnum.keys x) ∧ x.length ≤ limit) ∧
      EnumGood after limit r s.2

/-- enumerate: the ONE n-way merge of the slice is the nested two-way merges of the tree -/
theorem nest_enum (route : Bytes → Nat) (n : Nat) (after : Bytes) (limit : Nat) :
    ∀ (r : List Impl) (k : Impl) (i : Nat) (s : KidsSt (k :: r)), EnumGood after limit (k :: r) s →
      ∃ srcs, (enumAll (k :: r) s after limit).2 = some srcs ∧ MergedEnum.AllAsc srcs ∧
        (shardNestImpl route n i k r).step (toNest route n r k i s) (.enum after limit) =
          (toNest route n r k i (enumAll (k :: r) s after limit).1,
           .refs (MergedEnum.mergedEnumerate limit srcs))
  | [], k, i, s, hg => by
    obtain ⟨sk, su⟩ := s
    obtain ⟨⟨x, hx, hasc, hlen⟩, _⟩ := hg
    simp only at hx
    rcases hk : k.step sk (.enum after limit) with ⟨sk1, o⟩
    rw [hk] at hx
    simp only at hx
    subst hx
    refine ⟨[x], by simp [enumAll, hk], ?_, ?_⟩
    · intro t ht; simp only [List.mem_cons, List.not_mem_nil, or_false] at ht; subst ht; exact hasc
    · simp only [shardNestImpl, toNest, enumAll, hk]
      rw [MergedEnum.merged_single limit x hasc hlen]
  | k' :: r, k, i, s, hg => by
    obtain ⟨sk, sr⟩ := s
    obtain ⟨⟨x, hx, hasc, hlen⟩, hgr⟩ := hg
    simp only at hx hgr
    obtain ⟨srcs, hs, hall, hstep⟩ := nest_enum route n after limit r k' (i + 1) sr hgr
    rcases hk : k.step sk (.enum after limit) with ⟨sk1, o⟩
    rw [hk] at hx
    simp only at hx
    subst hx
    rcases hr : enumAll (k' :: r) sr after limit with ⟨sr1, res⟩
    rw [hr] at hs hstep
    simp only at hs hstep
    subst hs
    have hall' : MergedEnum.AllAsc (x :: srcs) := by
      intro t ht
      rcases List.mem_cons.mp ht with rfl | ht'
      · exact hasc
      · exact hall t ht'
    refine ⟨x :: srcs, by simp [enumAll, hk, hr], hall', ?_⟩
    simp only [shardNestImpl, toNest, shard2Impl, enum2, hk]
    erw [hstep]
    simp only [enumAll, hk, hr]
    rw [MergedEnum.merged_cons_nest limit x srcs hall']

/-- the refinement proof of the nested tree: `shard2Refines` level by level -/
def shardNestRefines {content : Bytes → Bytes} (route : Bytes → Nat) (n : Nat) :
    (r : List Impl) → (k : Impl) → (i : Nat) → Refines content k → RKids content r →
      Refines content (shardNestImpl route n i k r)
  | [], _, _, Rk, _ => Rk
  | k' :: r, _, i, Rk, Rr =>
    shard2Refines (fun key => route key % n != i) Rk (shardNestRefines route n r k' (i + 1) Rr.1 Rr.2)

/-- under the tree's invariant every sub-store enumerates well -/
theorem nest_inv_enumGood {content : Bytes → Bytes} (route : Bytes → Nat) (n : Nat) (after : Bytes)
    (limit : Nat) : ∀ (r : List Impl) (k : Impl) (i : Nat) (Rk : Refines content k)
      (Rr : RKids content r) (s : KidsSt (k :: r)),
      (shardNestRefines route n r k i Rk Rr).Inv (toNest route n r k i s) →
      EnumGood after limit (k :: r) s
  | [], k, i, Rk, _, s, h => by
    obtain ⟨sk, su⟩ := s
    have h' : Rk.Inv sk := h
    obtain ⟨ho, _, _⟩ := Rk.step_ok sk (.enum after limit) h' trivial
    obtain ⟨ha, hl⟩ := enumOf_asc (Rk.good sk h') after limit
    exact ⟨⟨_, ho, ha, hl⟩, trivial⟩
  | k' :: r, k, i, Rk, Rr, s, h => by
    obtain ⟨sk, sr⟩ := s
    have h' : PartInv Rk (shardNestRefines route n r k' (i + 1) Rr.1 Rr.2)
        (fun key => route key % n != i) (sk, toNest route n r k' (i + 1) sr) := h
    obtain ⟨ho, _, _⟩ := Rk.step_ok sk (.enum after limit) h'.1 trivial
    obtain ⟨ha, hl⟩ := enumOf_asc (Rk.good sk h'.1) after limit
    exact ⟨⟨_, ho, ha, hl⟩, nest_inv_enumGood route n after limit r k' (i + 1) Rr.1 Rr.2 sr h'.2.1⟩

/-- **shard over any number of sub-stores refines the reference map whenever every sub-store does**:
`shardNImpl` – the slice of shards indexed by `route k % len`, ONE n-way merged enumeration – answers
every well-keyed history from its initial state exactly as the reference map does -/
theorem shardN_run_eq {content : Bytes → Bytes} (route : Bytes → Nat) (k : Impl) (r : List Impl)
    (Rk : Refines content k) (Rr : RKids content r) (ops : List Op) (hops : ∀ op ∈ ops, op.WK content) :
    (shardNImpl route (k :: r)).run (shardNImpl route (k :: r)).init ops = RefMap.run [] ops := by
  generalize hn : r.length + 1 = n
  have hlen : (k :: r).length = n := by simp [← hn]
  let R := shardNestRefines route n r k 0 Rk Rr
  have hsim := run_eq_of_sim (I := shardNImpl route (k :: r)) (J := shardNestImpl route n 0 k r)
    (toNest route n r k 0) R.Inv (fun op => op.WK content) (by
      intro s op hI hop
      have hinv := (R.step_ok (toNest route n r k 0 s) op hI hop).2.2
      by_cases he : opIsEnum op = true
      · cases op with
        | enum after limit =>
          obtain ⟨srcs, hs, _, hstep⟩ := nest_enum route n after limit r k 0 s
            (nest_inv_enumGood route n after limit r k 0 Rk Rr s hI)
          refine ⟨?_, ?_, hinv⟩
          · rw [hstep]; simp only [shardNImpl, enumN]
            rcases hr : enumAll (k :: r) s after limit with ⟨s1, res⟩
            rw [hr] at hs; simp only at hs; subst hs; rfl
          · rw [hstep]; simp only [shardNImpl, enumN]
            rcases hr : enumAll (k :: r) s after limit with ⟨s1, res⟩
            rw [hr] at hs; simp only at hs; subst hs; rfl
        | recv _ _ => cases he
        | fetch _ => cases he
        | stat _ => cases he
        | rm _ => cases he
      · have he' : opIsEnum op = false := by cases h : opIsEnum op <;> simp_all
        have hlt : route (opKey op) % n < 0 + 1 + r.length := by
          have : 0 < n := by omega
          have := Nat.mod_lt (route (opKey op)) this
          omega
        have hp := nest_point route n op he' r k 0 s (Nat.zero_le _) hlt
        simp only [Nat.sub_zero] at hp
        have hst : (shardNImpl route (k :: r)).step s op = stepAt (k :: r) s (route (opKey op) % n) op := by
          cases op with
          | enum _ _ => cases he'
          | recv _ _ => simp only [shardNImpl, hlen, opKey]
          | fetch _ => simp only [shardNImpl, hlen, opKey]
          | stat _ => simp only [shardNImpl, hlen, opKey]
          | rm _ => simp only [shardNImpl, hlen, opKey]
        refine ⟨?_, ?_, hinv⟩
        · rw [hp, hst]
        · rw [hp, hst])
  have hinit : toNest route n r k 0 (shardNImpl route (k :: r)).init = (shardNestImpl route n 0 k r).init :=
    toNest_init route n r k 0
  rw [hsim ops _ (by rw [hinit]; exact R.init_inv) hops, hinit]
  exact R.run_init ops hops

/-! ## replica -/

/-- every sub-store satisfies its invariant and holds exactly the map `A` -/
def AllAt {content : Bytes → Bytes} : (kids : List Impl) → RKids content kids → KidsSt kids → SMap Bytes → Prop
  | [], _, _, _ => True
  | _ :: r, R, s, A => R.1.Inv s.1 ∧ R.1.abs s.1 = A ∧ AllAt r R.2 s.2 A

theorem allAt_init {content : Bytes → Bytes} : ∀ (kids : List Impl) (R : RKids content kids),
    AllAt kids R (kidsInit kids) []
  | [], _ => trivial
  | _ :: r, R => ⟨R.1.init_inv, R.1.init_abs, allAt_init r R.2⟩

/-- the same call on every replica: every replica answers like the map and moves like the map -/
theorem stepAll_spec {content : Bytes → Bytes} (op : Op) (hop : op.WK content) (A : SMap Bytes) :
    ∀ (kids : List Impl) (R : RKids content kids) (s : KidsSt kids), AllAt kids R s A →
      AllAt kids R (stepAll kids s op).1 (next A op) ∧
      (stepAll kids s op).2 = List.replicate kids.length (out A op)
  | [], _, _, _ => ⟨trivial, rfl⟩
  | k :: r, R, s, h => by
    obtain ⟨sk, sr⟩ := s
    obtain ⟨hi, ha, hr⟩ := h
    simp only at hi ha hr
    obtain ⟨ho, ha', hi'⟩ := R.1.step_ok sk op hi hop
    obtain ⟨ih1, ih2⟩ := stepAll_spec op hop A r R.2 sr hr
    rcases hk : k.step sk op with ⟨sk1, o⟩
    rcases hs : stepAll r sr op with ⟨sr1, os⟩
    rw [hk] at ho ha' hi'
    rw [hs] at ih1 ih2
    simp only at ho ha' hi' ih1 ih2
    simp only [stepAll, hk, hs, List.length_cons, List.replicate_succ]
    rw [ha] at ho ha'
    exact ⟨⟨hi', ha', ih1⟩, by rw [ho, ih2]⟩

/-- Fetch of a blob nobody has: every replica says "not exist" -/
theorem fetchFirst_none {content : Bytes → Bytes} (key : Bytes) (A : SMap Bytes)
    (hA : SMap.get A key = none) :
    ∀ (kids : List Impl) (R : RKids content kids) (s : KidsSt kids) (failed : Bool), AllAt kids R s A →
      AllAt kids R (fetchFirst kids s key failed).1 A ∧
      (fetchFirst kids s key failed).2 = (if failed then .err else .notExist)
  | [], _, _, _, _ => ⟨trivial, rfl⟩
  | k :: r, R, s, failed, h => by
    obtain ⟨sk, sr⟩ := s
    obtain ⟨hi, ha, hr⟩ := h
    simp only at hi ha hr
    obtain ⟨ho, ha', hi'⟩ := R.1.step_ok sk (.fetch key) hi trivial
    rcases hk : k.step sk (.fetch key) with ⟨sk1, o⟩
    rw [hk] at ho ha' hi'
    simp only [out, next, ha, hA] at ho ha' hi'
    subst ho
    obtain ⟨ih1, ih2⟩ := fetchFirst_none key A hA r R.2 sr failed hr
    simp only [fetchFirst, hk]
    exact ⟨⟨hi', ha', ih1⟩, ih2⟩

/-- Fetch of a blob everybody has: the first replica answers -/
theorem fetchFirst_some {content : Bytes → Bytes} (key v : Bytes) (A : SMap Bytes)
    (hA : SMap.get A key = some v) (k : Impl) (r : List Impl) (R : RKids content (k :: r))
    (s : KidsSt (k :: r)) (failed : Bool) (h : AllAt (k :: r) R s A) :
    AllAt (k :: r) R (fetchFirst (k :: r) s key failed).1 A ∧
      (fetchFirst (k :: r) s key failed).2 = .bytes v := by
  obtain ⟨sk, sr⟩ := s
  obtain ⟨hi, ha, hr⟩ := h
  simp only at hi ha hr
  obtain ⟨ho, ha', hi'⟩ := R.1.step_ok sk (.fetch key) hi trivial
  rcases hk : k.step sk (.fetch key) with ⟨sk1, o⟩
  rw [hk] at ho ha' hi'
  simp only [out, next, ha, hA] at ho ha' hi'
  subst ho
  simp only [fetchFirst, hk]
  exact ⟨⟨hi', ha', hr⟩, trivial⟩

/-- enumerate: every replica sends the same list -/
theorem enumAll_spec {content : Bytes → Bytes} (after : Bytes) (limit : Nat) (A : SMap Bytes) :
    ∀ (kids : List Impl) (R : RKids content kids) (s : KidsSt kids), AllAt kids R s A →
      AllAt kids R (enumAll kids s after limit).1 A ∧
      (enumAll kids s after limit).2 = some (List.replicate kids.length (enumOf A after limit))
  | [], _, _, _ => ⟨trivial, rfl⟩
  | k :: r, R, s, h => by
    obtain ⟨sk, sr⟩ := s
    obtain ⟨hi, ha, hr⟩ := h
    simp only at hi ha hr
    obtain ⟨ho, ha', hi'⟩ := R.1.step_ok sk (.enum after limit) hi trivial
    obtain ⟨ih1, ih2⟩ := enumAll_spec after limit A r R.2 sr hr
    rcases hk : k.step sk (.enum after limit) with ⟨sk1, o⟩
    rcases hs : enumAll r sr after limit with ⟨sr1, res⟩
    rw [hk] at ho ha' hi'
    rw [hs] at ih1 ih2
    simp only [out, next, ha] at ho ha' hi' ih1 ih2
    subst ho ih2
    simp only [enumAll, hk, hs, List.length_cons, List.replicate_succ]
    exact ⟨⟨hi', ha', ih1⟩, trivial⟩

theorem statAnsN_sized (m : Nat) : ∀ n : Nat, statAnsN (List.replicate (n + 1) (.sized m)) = .sized m
  | 0 => rfl
  | n + 1 => by
    rw [List.replicate_succ, statAnsN, statAnsN_sized m n]

theorem statAnsN_notExist : ∀ n : Nat, statAnsN (List.replicate n .notExist) = .notExist
  | 0 => rfl
  | n + 1 => by rw [List.replicate_succ, statAnsN, statAnsN_notExist n]

/-- **replica over any number of sub-stores refines the reference map whenever every sub-store does**
(all replicas read and written, `minWritesForSuccess` = their number): the invariant is that every
replica holds the same map -/
def replicaNRefines {content : Bytes → Bytes} (k : Impl) (r : List Impl) (R : RKids content (k :: r)) :
    Refines content (replicaNImpl (k :: r)) where
  abs := fun s => R.1.abs s.1
  Inv := fun s => AllAt (k :: r) R s (R.1.abs s.1)
  init_inv := by
    have h := allAt_init (k :: r) R
    have e : R.1.abs (replicaNImpl (k :: r)).init.1 = [] := R.1.init_abs
    rw [e]; exact h
  init_abs := R.1.init_abs
  good := fun s h => R.1.good s.1 h.1
  step_ok := by
    intro s op h hop
    -- the new state's first replica holds `next A op`, so `AllAt … (next A op)` is the new invariant
    have fin : ∀ (s' : KidsSt (k :: r)) (o : Out), AllAt (k :: r) R s' (next (R.1.abs s.1) op) →
        o = out (R.1.abs s.1) op →
        o = out (R.1.abs s.1) op ∧ R.1.abs s'.1 = next (R.1.abs s.1) op ∧ AllAt (k :: r) R s' (R.1.abs s'.1) := by
      intro s' o h' ho
      have e : R.1.abs s'.1 = next (R.1.abs s.1) op := h'.2.1
      exact ⟨ho, e, by rw [e]; exact h'⟩
    cases op with
    | recv key v =>
      obtain ⟨h1, h2⟩ := stepAll_spec (.recv key v) hop _ (k :: r) R s h
      rcases hs : stepAll (k :: r) s (.recv key v) with ⟨s1, os⟩
      rw [hs] at h1 h2
      simp only [replicaNImpl, hs]
      apply fin _ _ h1
      simp only at h2
      rw [h2]
      simp [out, List.all_replicate]
    | stat key =>
      obtain ⟨h1, h2⟩ := stepAll_spec (.stat key) hop _ (k :: r) R s h
      rcases hs : stepAll (k :: r) s (.stat key) with ⟨s1, os⟩
      rw [hs] at h1 h2
      simp only [replicaNImpl, hs]
      apply fin _ _ h1
      simp only at h2
      rw [h2]
      simp only [out, List.length_cons]
      cases SMap.get (R.1.abs s.1) key with
      | none => exact statAnsN_notExist _
      | some w => exact statAnsN_sized _ _
    | rm key =>
      obtain ⟨h1, h2⟩ := stepAll_spec (.rm key) hop _ (k :: r) R s h
      rcases hs : stepAll (k :: r) s (.rm key) with ⟨s1, os⟩
      rw [hs] at h1 h2
      simp only [replicaNImpl, hs]
      apply fin _ _ h1
      simp only at h2
      rw [h2]
      simp [out, List.replicate_succ]
    | fetch key =>
      simp only [replicaNImpl]
      cases hA : SMap.get (R.1.abs s.1) key with
      | none =>
        obtain ⟨h1, h2⟩ := fetchFirst_none key _ hA (k :: r) R s false h
        apply fin _ _ (by simpa [next] using h1)
        rw [h2]; simp [out, hA]
      | some w =>
        obtain ⟨h1, h2⟩ := fetchFirst_some key w _ hA k r R s false h
        apply fin _ _ (by simpa [next] using h1)
        rw [h2]; simp [out, hA]
    | enum after limit =>
      obtain ⟨h1, h2⟩ := enumAll_spec after limit _ (k :: r) R s h
      rcases hs : enumAll (k :: r) s after limit with ⟨s1, res⟩
      rw [hs] at h1 h2
      simp only at h2
      subst h2
      simp only [replicaNImpl, enumN, hs]
      apply fin _ _ (by simpa [next] using h1)
      simp only [out]
      congr 1
      obtain ⟨ha, hl⟩ := enumOf_asc (R.1.good s.1 h.1) after limit
      exact MergedEnum.merged_all_same limit _ _ (by simp [List.replicate_succ])
        (fun t ht => (List.mem_replicate.mp ht).2) ha hl

end Pk.Stores
