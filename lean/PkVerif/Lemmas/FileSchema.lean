import PkVerif.Model.FileSchema
/-! Helper lemmas for C15 (file writer / reader / static sets). Core Lean only. -/
namespace Pk.FS
open Pk
theorem slice_nil_of_le (b : Bytes) (off n : Nat) (h : b.length ≤ off) : slice b off n = [] := by
  unfold slice; rw [List.drop_eq_nil_of_le h]; simp
theorem slice_length (b : Bytes) (off n : Nat) : (slice b off n).length = min n (b.length - off) := by
  unfold slice; simp
theorem slice_zero (b : Bytes) (off : Nat) : slice b off 0 = [] := by unfold slice; simp
theorem slice_append_slice (b : Bytes) (off k n : Nat) (hk : k ≤ n) :
    slice b off k ++ slice b (off + k) (n - k) = slice b off n := by
  unfold slice
  have : n = k + (n - k) := by omega
  conv => rhs; rw [this, List.take_add]
  rw [List.drop_drop]
theorem slice_slice (l : Bytes) (o s r k : Nat) (hk : k ≤ s - r) :
    ((slice l o s).drop r).take k = slice l (r + o) k := by
  unfold slice
  rw [List.drop_take, List.take_take, List.drop_drop, Nat.min_eq_left hk, Nat.add_comm]
theorem slice_full (b : Bytes) (n : Nat) (h : b.length ≤ n) : slice b 0 n = b := by
  unfold slice; simp [List.take_of_length_le h]

/-! ### reader -/

mutual
theorem Part.denote_length : (p : Part) → p.wf = true → p.denote.length = p.size
  | .hole s, _ => by simp [Part.denote, Part.size]
  | .blob d o s, h => by
    simp only [Part.wf, decide_eq_true_eq] at h
    simp only [Part.denote, Part.size, slice_length]; omega
  | .bytes sub o s, h => by
    simp only [Part.wf, Bool.and_eq_true, decide_eq_true_eq] at h
    have := denoteL_length sub h.1
    simp only [Part.denote, Part.size, slice_length]; omega
  | .both _, h => by simp [Part.wf] at h
theorem denoteL_length : (ps : List Part) → wfL ps = true → (denoteL ps).length = sumPartsSize ps
  | [], _ => rfl
  | p :: ps, h => by
    simp only [wfL, Bool.and_eq_true] at h
    simp [denoteL, sumPartsSize, Part.denote_length p h.1, denoteL_length ps h.2]
end

theorem wfL_mem {ps : List Part} (h : wfL ps = true) {p : Part} (hp : p ∈ ps) : p.wf = true := by
  induction ps with
  | nil => cases hp
  | cons q qs ih =>
    simp only [wfL, Bool.and_eq_true] at h
    rcases List.mem_cons.1 hp with rfl | hq
    · exact h.1
    · exact ih h.2 hq

theorem depth_le_of_mem {ps : List Part} {p : Part} (hp : p ∈ ps) : p.depth ≤ depthL ps := by
  induction ps with
  | nil => cases hp
  | cons q qs ih =>
    simp only [depthL]
    rcases List.mem_cons.1 hp with rfl | hq
    · omega
    · have := ih hq; omega

/-- what `skipParts` finds, in terms of the denotation -/
theorem skipParts_spec : ∀ (ps : List Part) (off : Nat), wfL ps = true → off < sumPartsSize ps →
    ∃ p0 r, skipParts ps off = some (p0, r) ∧ r < p0.size ∧ p0 ∈ ps ∧
      off + (p0.size - r) ≤ sumPartsSize ps ∧
      ∀ k, k ≤ p0.size - r → slice (denoteL ps) off k = (p0.denote.drop r).take k
  | [], off, _, h => by simp [sumPartsSize] at h
  | p :: ps, off, hwf, h => by
    simp only [wfL, Bool.and_eq_true] at hwf
    have hlen := Part.denote_length p hwf.1
    simp only [sumPartsSize] at h
    by_cases hle : p.size ≤ off
    · obtain ⟨p0, r, h1, h2, h3, h5, h4⟩ := skipParts_spec ps (off - p.size) hwf.2 (by omega)
      refine ⟨p0, r, by simp [skipParts, hle, h1], h2, List.mem_cons_of_mem _ h3, by simp only [sumPartsSize]; omega, ?_⟩
      intro k hk
      rw [← h4 k hk]
      unfold slice
      simp only [denoteL]
      rw [List.drop_append, List.drop_eq_nil_of_le (by omega), hlen, List.nil_append]
    · refine ⟨p, off, by simp [skipParts, hle], by omega, List.mem_cons_self, by simp only [sumPartsSize]; omega, ?_⟩
      intro k hk
      unfold slice
      simp only [denoteL]
      rw [List.drop_append_of_le_length (by omega), List.take_append_of_le_length (by simp; omega)]

/-- status of a read of `want` bytes at `off` in a file of `size` bytes -/
def readStatus (size off want : Nat) : RErr :=
  if size ≤ off then .eof else if size < off + want then .unexpectedEOF else .nil

/-- the sub-readers agree with the denotation (what the induction on the depth provides) -/
def SubOK (rd : List Part → Nat → Nat → Bytes × RErr) (ps : List Part) : Prop :=
  ∀ sub o s, Part.bytes sub o s ∈ ps → ∀ pos k, (rd sub pos k).1 = slice (denoteL sub) pos k

theorem readOnce_spec (rd : List Part → Nat → Nat → Bytes × RErr) (ps : List Part)
    (hwf : wfL ps = true) (hrd : SubOK rd ps) (off want : Nat)
    (hoff : off < sumPartsSize ps) (hw : 0 < want) :
    ∃ k, 0 < k ∧ k ≤ want ∧ off + k ≤ sumPartsSize ps ∧
      readOnce false rd ps off want = .ok (slice (denoteL ps) off k) := by
  obtain ⟨p0, r, h1, h2, h3, h5, h4⟩ := skipParts_spec ps off hwf hoff
  have hp0 := wfL_mem hwf h3
  have hno : ¬ sumPartsSize ps ≤ off := by omega
  unfold readOnce
  simp only [hno, if_false, h1]
  cases p0 with
  | both s => simp [Part.wf] at hp0
  | hole s =>
    simp only [Part.size] at h2 h5
    refine ⟨min want (s - r), by omega, by omega, by omega, ?_⟩
    rw [h4 _ (by simp only [Part.size]; omega)]
    simp only [Part.denote, List.drop_replicate, List.take_replicate]
    congr 2; omega
  | blob d o s =>
    simp only [Part.size] at h2 h5
    refine ⟨min want (s - r), by omega, by omega, by omega, ?_⟩
    rw [h4 _ (by simp only [Part.size]; omega)]
    simp only [Part.denote, Bool.false_eq_true, if_false]
    rw [slice_slice _ _ _ _ _ (by omega)]; rfl
  | bytes sub o s =>
    simp only [Part.size] at h2 h5
    simp only [Part.wf, Bool.and_eq_true, decide_eq_true_eq] at hp0
    refine ⟨min want (s - r), by omega, by omega, by omega, ?_⟩
    rw [h4 _ (by simp only [Part.size]; omega)]
    have hpos : ¬ sumPartsSize sub ≤ r + o := by omega
    simp only [Part.denote, Bool.false_eq_true, if_false, hpos]
    rw [hrd sub o s h3, slice_slice _ _ _ _ _ (by omega)]
    congr 2; omega

theorem readOnce_past_end (rd : List Part → Nat → Nat → Bytes × RErr) (ps : List Part) (off want : Nat)
    (h : sumPartsSize ps ≤ off) : readOnce false rd ps off want = .ok [] := by
  unfold readOnce; simp [h]

theorem readLoop_spec (rd : List Part → Nat → Nat → Bytes × RErr) (ps : List Part)
    (hwf : wfL ps = true) (hrd : SubOK rd ps) :
    ∀ (fuel off rem : Nat) (acc : Bytes), rem ≤ fuel →
      readLoop false rd ps fuel off rem acc = (acc ++ slice (denoteL ps) off rem, none)
  | 0, off, rem, acc, h => by
    have : rem = 0 := by omega
    subst this; simp [readLoop, slice_zero]
  | fuel + 1, off, rem, acc, h => by
    unfold readLoop
    by_cases h0 : rem = 0
    · subst h0; simp [slice_zero]
    · simp only [h0, if_false]
      by_cases hoff : sumPartsSize ps ≤ off
      · rw [readOnce_past_end rd ps off rem hoff]
        have : slice (denoteL ps) off rem = [] :=
          slice_nil_of_le _ _ _ (by rw [denoteL_length ps hwf]; exact hoff)
        simp [this]
      · obtain ⟨k, hk0, hk1, hk2, hk⟩ := readOnce_spec rd ps hwf hrd off rem (by omega) (by omega)
        have hlen : (slice (denoteL ps) off k).length = k := by
          rw [slice_length, denoteL_length ps hwf]; omega
        rw [hk]
        simp only [hlen]
        have hk' : ¬ k = 0 := by omega
        simp only [hk', if_false]
        rw [readLoop_spec rd ps hwf hrd fuel (off + k) (rem - k) _ (by omega), List.append_assoc,
          slice_append_slice _ _ _ _ hk1]

theorem readAtWith_spec (rd : List Part → Nat → Nat → Bytes × RErr) (ps : List Part)
    (hwf : wfL ps = true) (hrd : SubOK rd ps) (off want : Nat) :
    readAtWith false rd ps off want
      = (slice (denoteL ps) off want, readStatus (sumPartsSize ps) off want) := by
  unfold readAtWith readStatus
  by_cases hoff : sumPartsSize ps ≤ off
  · simp only [hoff, if_true]
    rw [slice_nil_of_le _ _ _ (by rw [denoteL_length ps hwf]; exact hoff)]
  · simp only [hoff, if_false]
    rw [readLoop_spec rd ps hwf hrd want off want [] (Nat.le_refl _)]
    simp only [List.nil_append, slice_length, denoteL_length ps hwf]
    by_cases h2 : sumPartsSize ps < off + want
    · have : min want (sumPartsSize ps - off) < want := by omega
      simp [this, h2]
    · have : ¬ min want (sumPartsSize ps - off) < want := by omega
      simp [this, h2]

theorem readAtD_spec : ∀ (d : Nat) (ps : List Part), wfL ps = true → depthL ps ≤ d →
    ∀ off want, readAtD false d ps off want
      = (slice (denoteL ps) off want, readStatus (sumPartsSize ps) off want)
  | 0, ps, hwf, hd => by
    intro off want
    unfold readAtD
    apply readAtWith_spec _ ps hwf
    intro sub o s hm
    have := depth_le_of_mem hm
    simp only [Part.depth] at this
    omega
  | d + 1, ps, hwf, hd => by
    intro off want
    unfold readAtD
    apply readAtWith_spec _ ps hwf
    intro sub o s hm pos k
    have h1 := depth_le_of_mem hm
    simp only [Part.depth] at h1
    have h2 := wfL_mem hwf hm
    simp only [Part.wf, Bool.and_eq_true] at h2
    rw [readAtD_spec d sub h2.1 (by omega) pos k]

/-! ### ForeachChunk -/

mutual
/-- every bytesRef part covers its whole referent (what the writer produces) -/
def Part.full : Part → Bool
  | .bytes sub o s => decide (o = 0) && decide (s = sumPartsSize sub) && fullL sub
  | _ => true
def fullL : List Part → Bool
  | [] => true
  | p :: ps => p.full && fullL ps
end

theorem denoteL_append : ∀ (a b : List Part), denoteL (a ++ b) = denoteL a ++ denoteL b
  | [], b => rfl
  | p :: a, b => by simp [denoteL, denoteL_append a b]

theorem sumPartsSize_append : ∀ (a b : List Part), sumPartsSize (a ++ b) = sumPartsSize a + sumPartsSize b
  | [], b => by simp [sumPartsSize]
  | p :: a, b => by simp [sumPartsSize, sumPartsSize_append a b]; omega

theorem fullL_append : ∀ (a b : List Part), fullL (a ++ b) = (fullL a && fullL b)
  | [], b => by simp [fullL]
  | p :: a, b => by simp [fullL, fullL_append a b, Bool.and_assoc]

theorem wfL_append : ∀ (a b : List Part), wfL (a ++ b) = (wfL a && wfL b)
  | [], b => by simp [wfL]
  | p :: a, b => by simp [wfL, wfL_append a b, Bool.and_assoc]

mutual
theorem foreachPart_spec : (p : Part) → p.wf = true → p.full = true →
    (foreachPart p).2 = none ∧ denoteL (foreachPart p).1 = p.denote
  | .hole s, _, _ => by simp [foreachPart, denoteL]
  | .blob d o s, _, _ => by simp [foreachPart, denoteL]
  | .both _, h, _ => by simp [Part.wf] at h
  | .bytes sub o s, h, hf => by
    simp only [Part.wf, Bool.and_eq_true, decide_eq_true_eq] at h
    simp only [Part.full, Bool.and_eq_true, decide_eq_true_eq] at hf
    obtain ⟨⟨rfl, rfl⟩, hf3⟩ := hf
    have ih := foreachChunk_spec sub h.1 hf3
    simp only [foreachPart, Part.denote]
    refine ⟨ih.1, ?_⟩
    rw [ih.2, slice_full _ _ (by rw [denoteL_length sub h.1]; exact Nat.le_refl _)]
theorem foreachChunk_spec : (ps : List Part) → wfL ps = true → fullL ps = true →
    (foreachChunk ps).2 = none ∧ denoteL (foreachChunk ps).1 = denoteL ps
  | [], _, _ => by simp [foreachChunk]
  | p :: ps, h, hf => by
    simp only [wfL, Bool.and_eq_true] at h
    simp only [fullL, Bool.and_eq_true] at hf
    have h1 := foreachPart_spec p h.1 hf.1
    have h2 := foreachChunk_spec ps h.2 hf.2
    unfold foreachChunk
    rcases hp : foreachPart p with ⟨cs, e⟩
    rw [hp] at h1
    simp only at h1
    obtain ⟨rfl, h1b⟩ := h1
    rcases hq : foreachChunk ps with ⟨cs2, e2⟩
    rw [hq] at h2
    simp only at h2
    obtain ⟨rfl, h2b⟩ := h2
    simp [denoteL_append, h1b, h2b, denoteL]
end

/-! ### the chunker -/

mutual
/-- the chunks below a span in upload (= content) order: children first, then its own -/
def Span.chunks : Span → List Bytes
  | .mk _ _ _ br ch => chunksL ch ++ [br]
def chunksL : List Span → List Bytes
  | [] => []
  | s :: ss => s.chunks ++ chunksL ss
end

mutual
/-- a span is non-empty and its chunk has `to - from` bytes, recursively -/
def Span.good : Span → Bool
  | .mk f t _ br ch => decide (f < t) && decide (br.length = t - f) && goodL ch
def goodL : List Span → Bool
  | [] => true
  | s :: ss => s.good && goodL ss
end

theorem chunksL_append : ∀ (a b : List Span), chunksL (a ++ b) = chunksL a ++ chunksL b
  | [], b => rfl
  | s :: a, b => by simp [chunksL, chunksL_append a b]

theorem sizeL_append : ∀ (a b : List Span), sizeL (a ++ b) = sizeL a + sizeL b
  | [], b => by simp [sizeL]
  | s :: a, b => by simp [sizeL, sizeL_append a b]; omega

theorem goodL_append : ∀ (a b : List Span), goodL (a ++ b) = (goodL a && goodL b)
  | [], b => by simp [goodL]
  | s :: a, b => by simp [goodL, goodL_append a b, Bool.and_assoc]

theorem reverse_split (p : Span → Bool) (l : List Span) :
    l.reverse = (l.dropWhile p).reverse ++ (l.takeWhile p).reverse := by
  rw [← List.reverse_append, List.takeWhile_append_dropWhile]

/-- invariant of the loop of `writeFileChunks` after the bytes `bs` were consumed -/
structure Inv (s : WState) (bs : Bytes) : Prop where
  content : (chunksL s.rspans.reverse).flatten ++ s.rbuf.reverse = bs
  n_eq : s.n = bs.length
  last_eq : s.last + s.blobSize = s.n
  buf_len : s.rbuf.length = s.blobSize
  size_eq : sizeL s.rspans.reverse = s.last
  good : goodL s.rspans.reverse = true
  uploads : s.ruploads.reverse = chunksL s.rspans.reverse

theorem Inv.init : Inv {} [] := by
  constructor <;> simp [chunksL, sizeL, goodL]

theorem step_none (c : Cfg) (s : WState) (i : In)
    (hb : splitBits c (s.n + 1) (s.blobSize + 1) i = none) :
    step c s i = { s with n := s.n + 1, blobSize := s.blobSize + 1, rbuf := i.byte :: s.rbuf } := by
  unfold step; simp only [hb]

theorem step_some (c : Cfg) (s : WState) (i : In) (bits : Nat)
    (hb : splitBits c (s.n + 1) (s.blobSize + 1) i = some bits) :
    step c s i =
    { n := s.n + 1, last := s.n + 1, blobSize := 0, rbuf := [],
      rspans := (Span.mk s.last (s.n + 1) bits (i.byte :: s.rbuf).reverse
          (s.rspans.takeWhile (fun sp => decide (sp.bits < bits))).reverse ::
        s.rspans.dropWhile (fun sp => decide (sp.bits < bits))),
      ruploads := (i.byte :: s.rbuf).reverse :: s.ruploads } := by
  unfold step; simp only [hb]

theorem step_inv (c : Cfg) (s : WState) (bs : Bytes) (i : In) (h : Inv s bs) :
    Inv (step c s i) (bs ++ [i.byte]) := by
  cases hb : splitBits c (s.n + 1) (s.blobSize + 1) i with
  | none =>
    rw [step_none c s i hb]
    constructor
    · simp only [List.reverse_cons, ← List.append_assoc, h.content]
    · simp [h.n_eq]
    · have := h.last_eq; simp only; omega
    · simp [h.buf_len]
    · exact h.size_eq
    · exact h.good
    · exact h.uploads
  | some bits =>
    rw [step_some c s i bits hb]
    have hr := reverse_split (fun sp => decide (sp.bits < bits)) s.rspans
    have hl := h.last_eq
    constructor
    · simp only [List.reverse_cons, chunksL_append, chunksL, Span.chunks, List.append_nil,
        List.reverse_nil]
      rw [← List.append_assoc (chunksL _), ← chunksL_append, ← hr]
      simp only [List.flatten_append, List.flatten_cons, List.flatten_nil, List.append_nil]
      rw [← List.append_assoc, h.content]
    · simp [h.n_eq]
    · simp
    · simp
    · simp only [List.reverse_cons, sizeL_append, sizeL, Span.size, Nat.add_zero]
      have : sizeL (List.dropWhile (fun sp => decide (sp.bits < bits)) s.rspans).reverse
          + sizeL (List.takeWhile (fun sp => decide (sp.bits < bits)) s.rspans).reverse = s.last := by
        rw [← sizeL_append, ← hr, h.size_eq]
      omega
    · have hg := h.good
      rw [hr, goodL_append, Bool.and_eq_true] at hg
      simp only [List.reverse_cons, goodL_append, goodL, Span.good, Bool.and_true, Bool.and_eq_true,
        decide_eq_true_eq, List.length_reverse, List.length_cons, List.length_append,
        List.length_nil]
      refine ⟨hg.1, ⟨by omega, ?_⟩, hg.2⟩
      have := h.buf_len; omega
    · simp only [List.reverse_cons, chunksL_append, chunksL, Span.chunks, List.append_nil, h.uploads]
      rw [← List.append_assoc (chunksL _), ← chunksL_append, ← hr]

theorem foldl_step_inv (c : Cfg) : ∀ (input : List In) (s : WState) (bs : Bytes), Inv s bs →
    Inv (input.foldl (step c) s) (bs ++ input.map In.byte)
  | [], s, bs, h => by simpa using h
  | i :: rest, s, bs, h => by
    have := foldl_step_inv c rest (step c s i) (bs ++ [i.byte]) (step_inv c s bs i h)
    simpa [List.foldl_cons, List.append_assoc] using this

/-- after the EOF branch everything consumed is in spans -/
structure Fin (s : WState) (bs : Bytes) : Prop where
  content : (chunksL s.rspans.reverse).flatten = bs
  n_eq : s.n = bs.length
  size_eq : sizeL s.rspans.reverse = bs.length
  good : goodL s.rspans.reverse = true
  uploads : s.ruploads.reverse = chunksL s.rspans.reverse

theorem finish_inv (s : WState) (bs : Bytes) (h : Inv s bs) : Fin (finish s) bs := by
  unfold finish
  have hl := h.last_eq
  have hb := h.buf_len
  have hn' := h.n_eq
  by_cases hn : s.n ≠ s.last
  · rw [if_pos hn]
    constructor
    · simp only [List.reverse_cons, chunksL_append, chunksL, Span.chunks, List.append_nil,
        List.nil_append, List.flatten_append, List.flatten_cons, List.flatten_nil]
      exact h.content
    · exact hn'
    · simp only [List.reverse_cons, sizeL_append, sizeL, Span.size, Nat.add_zero, h.size_eq]
      omega
    · simp only [List.reverse_cons, goodL_append, goodL, Span.good, Bool.and_true, Bool.and_eq_true,
        decide_eq_true_eq, List.length_reverse]
      exact ⟨h.good, by omega, by omega⟩
    · simp only [List.reverse_cons, chunksL_append, chunksL, Span.chunks, List.append_nil,
        List.nil_append, h.uploads]
  · rw [if_neg hn]
    have h0 : s.blobSize = 0 := by omega
    have hbuf : s.rbuf = [] := List.eq_nil_of_length_eq_zero (by omega)
    have hc := h.content
    rw [hbuf] at hc
    simp only [List.reverse_nil, List.append_nil] at hc
    exact ⟨hc, hn', by rw [h.size_eq]; omega, h.good, h.uploads⟩

theorem runChunker_fin (c : Cfg) (input : List In) : Fin (runChunker c input) (input.map In.byte) := by
  unfold runChunker
  have := foldl_step_inv c input {} [] Inv.init
  simp only [List.nil_append] at this
  exact finish_inv _ _ this

/-! ### the cap -/

theorem splitBits_none_ne (c : Cfg) (n b : Nat) (i : In) (h : splitBits c n b i = none) :
    b ≠ c.maxBlobSize := by
  intro hb
  unfold splitBits at h
  simp [hb] at h

theorem chunksL_push (rspans : List Span) (f t bits : Nat) (chunk : Bytes) :
    chunksL (Span.mk f t bits chunk (rspans.takeWhile (fun sp => decide (sp.bits < bits))).reverse ::
      rspans.dropWhile (fun sp => decide (sp.bits < bits))).reverse
      = chunksL rspans.reverse ++ [chunk] := by
  have hr := reverse_split (fun sp => decide (sp.bits < bits)) rspans
  simp only [List.reverse_cons, chunksL_append, chunksL, Span.chunks, List.append_nil]
  rw [← List.append_assoc (chunksL _), ← chunksL_append, ← hr]

/-- no chunk, finished or in the making, exceeds the cap -/
structure Cap (c : Cfg) (s : WState) : Prop where
  cur : s.blobSize < c.maxBlobSize
  done : ∀ b ∈ chunksL s.rspans.reverse, b.length ≤ c.maxBlobSize

theorem step_cap (c : Cfg) (hpos : 0 < c.maxBlobSize) (s : WState) (bs : Bytes) (i : In)
    (h : Inv s bs) (hc : Cap c s) : Cap c (step c s i) := by
  cases hb : splitBits c (s.n + 1) (s.blobSize + 1) i with
  | none =>
    rw [step_none c s i hb]
    have := splitBits_none_ne c _ _ i hb
    have := hc.cur
    exact ⟨by simp only; omega, hc.done⟩
  | some bits =>
    rw [step_some c s i bits hb]
    refine ⟨hpos, ?_⟩
    simp only [chunksL_push]
    intro b hbm
    rcases List.mem_append.1 hbm with hm | hm
    · exact hc.done b hm
    · simp only [List.mem_singleton] at hm
      subst hm
      have := hc.cur
      have := h.buf_len
      simp only [List.length_reverse, List.length_cons]; omega

theorem foldl_step_cap (c : Cfg) (hpos : 0 < c.maxBlobSize) : ∀ (input : List In) (s : WState) (bs : Bytes),
    Inv s bs → Cap c s → Cap c (input.foldl (step c) s)
  | [], s, bs, _, hc => by simpa using hc
  | i :: rest, s, bs, h, hc => by
    simpa using foldl_step_cap c hpos rest (step c s i) (bs ++ [i.byte]) (step_inv c s bs i h)
      (step_cap c hpos s bs i h hc)

theorem finish_cap (c : Cfg) (s : WState) (bs : Bytes) (h : Inv s bs) (hc : Cap c s) :
    ∀ b ∈ chunksL (finish s).rspans.reverse, b.length ≤ c.maxBlobSize := by
  unfold finish
  by_cases hn : s.n ≠ s.last
  · rw [if_pos hn]
    simp only [List.reverse_cons, chunksL_append, chunksL, Span.chunks, List.append_nil, List.nil_append]
    intro b hbm
    rcases List.mem_append.1 hbm with hm | hm
    · exact hc.done b hm
    · simp only [List.mem_singleton] at hm
      subst hm
      have := hc.cur
      have := h.buf_len
      simp only [List.length_reverse]; omega
  · rw [if_neg hn]; exact hc.done

theorem runChunker_cap (c : Cfg) (hpos : 0 < c.maxBlobSize) (input : List In) :
    ∀ b ∈ chunksL (runChunker c input).rspans.reverse, b.length ≤ c.maxBlobSize := by
  unfold runChunker
  have hi := foldl_step_inv c input {} [] Inv.init
  have hc := foldl_step_cap c hpos input {} [] Inv.init ⟨hpos, by simp [chunksL]⟩
  exact finish_cap c _ _ hi hc

/-! ### the tree builder: parts, and what is stored before what -/

/-- the object a part references -/
def Part.ref? : Part → Option Obj
  | .blob d _ _ => some (.chunk d)
  | .bytes sub _ _ => some (.bytes sub)
  | _ => none

/-- the objects a stored object references directly -/
def Obj.refs : Obj → List Obj
  | .chunk _ => []
  | .bytes ps => ps.filterMap Part.ref?
  | .file ps => ps.filterMap Part.ref?

/-- `K` = already stored; every object of the list references only what is stored before it -/
def Ordered (K : Obj → Prop) : List Obj → Prop
  | [] => True
  | o :: rest => (∀ r ∈ o.refs, K r) ∧ Ordered (fun x => K x ∨ x = o) rest

theorem Ordered_mono : ∀ (l : List Obj) (K K' : Obj → Prop), (∀ x, K x → K' x) → Ordered K l → Ordered K' l
  | [], _, _, _, _ => trivial
  | o :: rest, K, K', hk, h => by
    refine ⟨fun r hr => hk r (h.1 r hr), ?_⟩
    exact Ordered_mono rest _ _ (fun x hx => hx.elim (fun a => Or.inl (hk x a)) Or.inr) h.2

theorem Ordered_append : ∀ (a b : List Obj) (K : Obj → Prop), Ordered K a →
    Ordered (fun x => K x ∨ x ∈ a) b → Ordered K (a ++ b)
  | [], b, K, _, hb => by
    exact Ordered_mono b _ _ (fun x hx => hx.elim id (fun h => by cases h)) hb
  | o :: a, b, K, ha, hb => by
    refine ⟨ha.1, ?_⟩
    apply Ordered_append a b _ ha.2
    apply Ordered_mono b _ _ _ hb
    intro x hx
    rcases hx with hx | hx
    · exact Or.inl (Or.inl hx)
    · rcases List.mem_cons.1 hx with rfl | hx
      · exact Or.inl (Or.inr rfl)
      · exact Or.inr hx

theorem Ordered_prefix : ∀ (pre : List Obj) (K : Obj → Prop) (o : Obj) (post : List Obj),
    Ordered K (pre ++ o :: post) → ∀ r ∈ o.refs, K r ∨ r ∈ pre
  | [], K, o, post, h => fun r hr => Or.inl (h.1 r hr)
  | q :: pre, K, o, post, h => by
    intro r hr
    rcases Ordered_prefix pre _ o post h.2 r hr with (hk | rfl) | hm
    · exact Or.inl hk
    · exact Or.inr List.mem_cons_self
    · exact Or.inr (List.mem_cons_of_mem _ hm)

/-- what `addBytesParts` returns for spans whose chunks are `chunks` -/
structure PartsOK (chunks : List Bytes) (parts : List Part) (ups : List Obj) : Prop where
  wf : wfL parts = true
  full : fullL parts = true
  refs : ∀ p ∈ parts, ∀ r, p.ref? = some r → (∃ d ∈ chunks, r = .chunk d) ∨ r ∈ ups
  ordered : Ordered (fun r => ∃ d ∈ chunks, r = .chunk d) ups

theorem PartsOK.mono {c c' : List Bytes} {parts : List Part} {ups : List Obj}
    (h : PartsOK c parts ups) (hc : ∀ d ∈ c, d ∈ c') : PartsOK c' parts ups :=
  ⟨h.wf, h.full,
   fun p hp r hr => (h.refs p hp r hr).elim (fun ⟨d, hd, e⟩ => Or.inl ⟨d, hc d hd, e⟩) Or.inr,
   Ordered_mono ups _ _ (fun _ ⟨d, hd, e⟩ => ⟨d, hc d hd, e⟩) h.ordered⟩

theorem PartsOK.append {c1 c2 : List Bytes} {p1 p2 : List Part} {u1 u2 : List Obj}
    (h1 : PartsOK c1 p1 u1) (h2 : PartsOK c2 p2 u2) : PartsOK (c1 ++ c2) (p1 ++ p2) (u1 ++ u2) := by
  constructor
  · rw [wfL_append, h1.wf, h2.wf]; rfl
  · rw [fullL_append, h1.full, h2.full]; rfl
  · intro p hp r hr
    rcases List.mem_append.1 hp with hp | hp
    · rcases h1.refs p hp r hr with ⟨d, hd, e⟩ | hm
      · exact Or.inl ⟨d, List.mem_append_left _ hd, e⟩
      · exact Or.inr (List.mem_append_left _ hm)
    · rcases h2.refs p hp r hr with ⟨d, hd, e⟩ | hm
      · exact Or.inl ⟨d, List.mem_append_right _ hd, e⟩
      · exact Or.inr (List.mem_append_right _ hm)
  · apply Ordered_append
    · exact Ordered_mono u1 _ _ (fun _ ⟨d, hd, e⟩ => ⟨d, List.mem_append_left _ hd, e⟩) h1.ordered
    · exact Ordered_mono u2 _ _ (fun _ ⟨d, hd, e⟩ => Or.inl ⟨d, List.mem_append_right _ hd, e⟩) h2.ordered

theorem blob_part_ok (f t : Nat) (br : Bytes) (hbr : br.length = t - f) :
    denoteL [.blob br 0 (t - f)] = br ∧ PartsOK [br] [.blob br 0 (t - f)] [] := by
  refine ⟨by simp [denoteL, Part.denote, slice_full _ _ (Nat.le_of_eq hbr)], ?_⟩
  constructor
  · simp [wfL, Part.wf, hbr]
  · simp [fullL, Part.full]
  · intro p hp r hr
    simp only [List.mem_singleton] at hp
    subst hp
    simp only [Part.ref?, Option.some.injEq] at hr
    exact Or.inl ⟨br, by simp, hr.symm⟩
  · trivial

theorem bytes_part_ok (ch : List Span) (cparts : List Part) (cups : List Obj)
    (hd : denoteL cparts = (chunksL ch).flatten) (hs : sumPartsSize cparts = sizeL ch)
    (hok : PartsOK (chunksL ch) cparts cups) :
    denoteL [.bytes cparts 0 (sizeL ch)] = (chunksL ch).flatten ∧
      PartsOK (chunksL ch) [.bytes cparts 0 (sizeL ch)] (cups ++ [.bytes cparts]) := by
  have hlen := denoteL_length cparts hok.wf
  refine ⟨by simp only [denoteL, Part.denote, List.append_nil]; rw [slice_full _ _ (by omega), hd], ?_⟩
  constructor
  · simp [wfL, Part.wf, hok.wf, hs]
  · simp [fullL, Part.full, hok.full, hs]
  · intro p hp r hr
    simp only [List.mem_singleton] at hp
    subst hp
    simp only [Part.ref?, Option.some.injEq] at hr
    exact Or.inr (by simp [← hr])
  · apply Ordered_append
    · exact hok.ordered
    · refine ⟨?_, trivial⟩
      intro r hr
      simp only [Obj.refs, List.mem_filterMap] at hr
      obtain ⟨p, hp, hpr⟩ := hr
      exact hok.refs p hp r hpr

theorem own_and_children (f t : Nat) (br : Bytes) (ch : List Span) (hbr : br.length = t - f)
    (cparts : List Part) (cups : List Obj)
    (hc2 : denoteL cparts = (chunksL ch).flatten) (hc3 : sumPartsSize cparts = sizeL ch)
    (hc4 : PartsOK (chunksL ch) cparts cups) :
    denoteL ([.bytes cparts 0 (sizeL ch)] ++ [.blob br 0 (t - f)]) = (chunksL ch ++ [br]).flatten ∧
    sumPartsSize ([.bytes cparts 0 (sizeL ch)] ++ [.blob br 0 (t - f)]) = (t - f) + sizeL ch ∧
    PartsOK (chunksL ch ++ [br]) ([.bytes cparts 0 (sizeL ch)] ++ [.blob br 0 (t - f)])
      ((cups ++ [.bytes cparts]) ++ []) := by
  obtain ⟨hb1, hb2⟩ := blob_part_ok f t br hbr
  obtain ⟨hy1, hy2⟩ := bytes_part_ok ch cparts cups hc2 hc3 hc4
  refine ⟨?_, ?_, hy2.append hb2⟩
  · rw [denoteL_append, hy1, hb1]; simp
  · simp [sumPartsSize, Part.size]; omega

mutual
theorem addBytesPart_spec : (sp : Span) → sp.good = true →
    ∃ parts ups, addBytesPart sp = .ok (parts, ups) ∧ denoteL parts = sp.chunks.flatten ∧
      sumPartsSize parts = sp.size ∧ PartsOK sp.chunks parts ups
  | .mk f t bits br ch, hg => by
    simp only [Span.good, Bool.and_eq_true, decide_eq_true_eq] at hg
    obtain ⟨⟨hft, hbr⟩, hgc⟩ := hg
    obtain ⟨cparts, cups, hc1, hc2, hc3, hc4⟩ := addBytesParts_spec ch hgc
    have hne : ¬ f = t := by omega
    obtain ⟨hb1, hb2⟩ := blob_part_ok f t br hbr
    have hrec := own_and_children f t br ch hbr cparts cups hc2 hc3 hc4
    cases ch with
    | nil =>
      refine ⟨[.blob br 0 (t - f)], [], by simp [addBytesPart, hne], ?_, ?_, ?_⟩
      · simp [Span.chunks, chunksL, hb1]
      · simp [sumPartsSize, Part.size, Span.size, sizeL]
      · simpa [Span.chunks, chunksL] using hb2
    | cons c rest =>
      cases rest with
      | nil =>
        by_cases hs : c.isSingleBlob = true
        · -- the single child is promoted
          cases c with
          | mk cf ct cb cbr cch =>
            simp only [Span.isSingleBlob, Span.children, List.isEmpty_iff] at hs
            subst hs
            simp only [goodL, Span.good, Bool.and_true, Bool.and_eq_true, decide_eq_true_eq] at hgc
            obtain ⟨hcb1, hcb2⟩ := blob_part_ok cf ct cbr hgc.2
            refine ⟨[.blob cbr 0 (ct - cf)] ++ [.blob br 0 (t - f)], [] ++ [], ?_, ?_, ?_, ?_⟩
            · simp [addBytesPart, Span.isSingleBlob, Span.children, Span.br, Span.size, sizeL, hne]
            · rw [denoteL_append, hcb1, hb1]; simp [Span.chunks, chunksL]
            · simp [sumPartsSize, Part.size, Span.size, sizeL]; omega
            · simpa [Span.chunks, chunksL] using hcb2.append hb2
        · refine ⟨[.bytes cparts 0 (sizeL [c])] ++ [.blob br 0 (t - f)], (cups ++ [.bytes cparts]) ++ [],
            ?_, hrec.1, ?_, ?_⟩
          · simp [addBytesPart, hs, hc1, hc3, hne]
          · simp only [Span.size]; exact hrec.2.1
          · simpa [Span.chunks] using hrec.2.2
      | cons d rest =>
        refine ⟨[.bytes cparts 0 (sizeL (c :: d :: rest))] ++ [.blob br 0 (t - f)],
          (cups ++ [.bytes cparts]) ++ [], ?_, hrec.1, ?_, ?_⟩
        · simp [addBytesPart, hc1, hc3, hne]
        · simp only [Span.size]; exact hrec.2.1
        · simpa [Span.chunks] using hrec.2.2
theorem addBytesParts_spec : (sps : List Span) → goodL sps = true →
    ∃ parts ups, addBytesParts sps = .ok (parts, ups) ∧ denoteL parts = (chunksL sps).flatten ∧
      sumPartsSize parts = sizeL sps ∧ PartsOK (chunksL sps) parts ups
  | [], _ => ⟨[], [], rfl, rfl, rfl, ⟨rfl, rfl, fun _ hp _ _ => (by cases hp), trivial⟩⟩
  | sp :: rest, hg => by
    simp only [goodL, Bool.and_eq_true] at hg
    obtain ⟨p1, u1, ha, hb, hc, hd⟩ := addBytesPart_spec sp hg.1
    obtain ⟨p2, u2, ha2, hb2, hc2, hd2⟩ := addBytesParts_spec rest hg.2
    refine ⟨p1 ++ p2, u1 ++ u2, by simp [addBytesParts, ha, ha2], ?_, ?_, ?_⟩
    · simp [denoteL_append, hb, hb2, chunksL]
    · simp [sumPartsSize_append, hc, hc2, sizeL]
    · simpa [chunksL] using hd.append hd2
end

theorem Ordered_chunks : ∀ (l : List Bytes) (K : Obj → Prop), Ordered K (l.map Obj.chunk)
  | [], _ => trivial
  | _ :: l, _ => ⟨fun _ h => (by cases h), Ordered_chunks l _⟩

/-- everything `writeFile` guarantees, in one statement -/
theorem writeFile_spec (c : Cfg) (input : List In) :
    ∃ parts ups, writeFile c input
        = .ok (parts, (chunksL (writeFileChunks c input).2.1).map Obj.chunk ++ ups ++ [.file parts]) ∧
      denoteL parts = input.map In.byte ∧ wfL parts = true ∧ fullL parts = true ∧
      sumPartsSize parts = input.length ∧
      Ordered (fun _ => False) ((chunksL (writeFileChunks c input).2.1).map Obj.chunk ++ ups ++ [.file parts]) := by
  have hf := runChunker_fin c input
  obtain ⟨parts, ups, h1, h2, h3, h4⟩ := addBytesParts_spec _ hf.good
  have hsz : sumPartsSize parts = input.length := by rw [h3, hf.size_eq]; simp
  refine ⟨parts, ups, ?_, by rw [h2, hf.content], h4.wf, h4.full, hsz, ?_⟩
  · unfold writeFile writeFileChunks
    simp only [h1, hf.uploads]
    have : ¬ sumPartsSize parts ≠ (runChunker c input).n := by rw [hf.n_eq, hsz]; simp
    simp [this]
  · simp only [writeFileChunks]
    apply Ordered_append
    · apply Ordered_append
      · exact Ordered_chunks _ _
      · apply Ordered_mono ups _ _ _ h4.ordered
        intro x ⟨d, hd, e⟩
        exact Or.inr (by rw [e]; exact List.mem_map_of_mem hd)
    · refine ⟨?_, trivial⟩
      intro r hr
      simp only [Obj.refs, List.mem_filterMap] at hr
      obtain ⟨p, hp, hpr⟩ := hr
      rcases h4.refs p hp r hpr with ⟨d, hd, e⟩ | hm
      · exact Or.inr (List.mem_append_left _ (by rw [e]; exact List.mem_map_of_mem hd))
      · exact Or.inr (List.mem_append_right _ hm)

/-! ### uploads that may fail -/

theorem range_any_false (f : Nat → Bool) (n : Nat) (h : ¬ (List.range n).any f = true) :
    ∀ i, i < n → f i = false := by
  intro i hi
  cases hf : f i with
  | false => rfl
  | true => exact absurd (List.any_eq_true.2 ⟨i, List.mem_range.2 hi, hf⟩) h

/-- success of the fallible writer means: same result as the infallible one, and no upload failed -/
theorem writeFileF_ok (fails : Nat → Bool) (c : Cfg) (input : List In) (parts : List Part) (objs : List Obj)
    (h : writeFileF fails c input = .ok (parts, objs)) :
    writeFile c input = .ok (parts, objs) ∧ ∀ i, i < objs.length → fails i = false := by
  unfold writeFileF at h
  unfold writeFile
  rcases hw : writeFileChunks c input with ⟨n, spans, chunks⟩
  rw [hw] at h
  simp only at h ⊢
  by_cases h1 : (List.range chunks.length).any fails = true
  · simp [h1] at h
  · simp only [h1] at h
    cases ha : addBytesParts spans with
    | error e => simp [ha] at h
    | ok pu =>
      rcases pu with ⟨ps, ups⟩
      simp only [ha] at h ⊢
      by_cases h2 : sumPartsSize ps ≠ n
      · simp [h2] at h
      · by_cases h3 : (List.range ups.length).any (fun j => fails (chunks.length + j)) = true
        · simp [h2, h3] at h
        · by_cases h4 : fails (chunks.length + ups.length) = true
          · simp [h2, h3, h4] at h
          · simp only [h2, h3, h4, if_false, Bool.false_eq_true] at h ⊢
            refine ⟨h, ?_⟩
            injection h with h
            injection h with _ ho
            subst ho
            intro i hi
            simp only [List.length_append, List.length_map, List.length_cons, List.length_nil] at hi
            by_cases hc : i < chunks.length
            · exact range_any_false _ _ h1 i hc
            · by_cases hu : i < chunks.length + ups.length
              · have := range_any_false _ _ h3 (i - chunks.length) (by omega)
                simpa [show chunks.length + (i - chunks.length) = i by omega] using this
              · have : i = chunks.length + ups.length := by omega
                subst this
                simpa using h4

/-! ### static sets -/

/-- every subset `t` merges is among `all` -/
def Closed (all : List SSet) (t : SSet) : Prop := ∀ c ∈ t.mergeSets, c ∈ all

theorem Closed.mono {a b : List SSet} {t : SSet} (h : Closed a t) (hab : ∀ x ∈ a, x ∈ b) : Closed b t :=
  fun c hc => hab c (h c hc)

theorem staticSetL_append : ∀ (a b : List SSet), staticSetL (a ++ b) = staticSetL a ++ staticSetL b
  | [], b => rfl
  | s :: a, b => by simp [staticSetL, staticSetL_append a b]

/-- what a recursive call delivers -/
def RecOK (r : Except SErr (SSet × List SSet)) (xs : List Nat) : Prop :=
  ∃ t a, r = .ok (t, a) ∧ staticSet t = xs ∧ Closed a t ∧ ∀ s ∈ a, Closed a s

theorem spreadSubs_spec (rec : List Nat → Except SErr (SSet × List SSet)) (ms : List Nat) (per : Nat)
    (hrec : ∀ xs, xs.length = per → RecOK (rec xs) xs) :
    ∀ (k i : Nat), (i + k) * per ≤ ms.length →
      ∃ rs, spreadSubs rec ms per k i = .ok rs ∧
        staticSetL (rs.map (·.1)) = (ms.drop (i * per)).take (k * per) ∧
        ∀ r ∈ rs, Closed r.2 r.1 ∧ ∀ s ∈ r.2, Closed r.2 s
  | 0, i, _ => ⟨[], rfl, by simp [staticSetL], fun _ h => (by cases h)⟩
  | k + 1, i, h => by
    have e1 : (i + (k + 1)) * per = (i + 1) * per + k * per := by
      rw [← Nat.add_mul]; congr 1; omega
    have e2 : (i + 1) * per = i * per + per := Nat.succ_mul i per
    have e3 : (k + 1) * per = per + k * per := by rw [Nat.succ_mul, Nat.add_comm]
    have hlen : ((ms.drop (i * per)).take per).length = per := by
      simp only [List.length_take, List.length_drop]; omega
    obtain ⟨t, a, hr, hflat, hc1, hc2⟩ := hrec _ hlen
    obtain ⟨rs, hs, hfl, hcl⟩ := spreadSubs_spec rec ms per hrec k (i + 1) (by rw [Nat.add_right_comm]; omega)
    refine ⟨(t, a) :: rs, ?_, ?_, ?_⟩
    · unfold spreadSubs
      have : ¬ ms.length < (i + 1) * per := by omega
      simp [this, hr, hs]
    · simp only [List.map_cons, staticSetL, hflat, hfl, e3, e2, List.take_add, List.drop_drop]
    · intro r hrm
      rcases List.mem_cons.1 hrm with rfl | hrm
      · exact ⟨hc1, hc2⟩
      · exact hcl r hrm

theorem setStatic_leaf (M fuel : Nat) (ms : List Nat) (h : ms.length ≤ M) :
    setStaticSetMembers M (fuel + 1) ms = .ok (.mk ms [], []) := by
  unfold setStaticSetMembers; simp [h]

theorem staticSet_leaf (ms : List Nat) : staticSet (.mk ms []) = ms := by
  cases ms <;> simp [staticSet, staticSetL]

theorem staticSet_merge (subs : List SSet) : staticSet (.mk [] subs) = staticSetL subs := by
  simp [staticSet]

theorem recOK_leaf (ms : List Nat) : RecOK (.ok (.mk ms [], [])) ms :=
  ⟨.mk ms [], [], rfl, staticSet_leaf ms, fun _ h => (by cases h), fun _ h => (by cases h)⟩

theorem setStatic_spec (M : Nat) (hM : 3 ≤ M) : ∀ (fuel : Nat) (ms : List Nat), ms.length < fuel →
    RecOK (setStaticSetMembers M fuel ms) ms
  | 0, _, h => by omega
  | fuel + 1, ms, h => by
    by_cases hle : ms.length ≤ M
    · rw [setStatic_leaf M fuel ms hle]; exact recOK_leaf ms
    · unfold setStaticSetMembers
      have hM0 : ¬ M = 0 := by omega
      have hM1 : ¬ M - 1 = 0 := by omega
      simp only [hle, if_false, hM0, hM1, and_false]
      -- the two ways of choosing (subsetsNumber, perSubset)
      have key : ∀ (sn per : Nat), sn * per ≤ ms.length → per < ms.length → 0 < sn * per →
          ms.length - per * sn ≤ M →
          RecOK (match spreadSubs (setStaticSetMembers M fuel) ms per sn 0 with
            | .error e => .error e
            | .ok rs =>
              if per * sn < ms.length then
                match setStaticSetMembers M fuel (ms.drop (per * sn)) with
                | .error e => .error e
                | .ok (s, _) => .ok (.mk [] (rs.map (·.1) ++ [s]), rs.flatMap (fun r => r.1 :: r.2) ++ [s])
              else .ok (.mk [] (rs.map (·.1)), rs.flatMap (fun r => r.1 :: r.2))) ms := by
        intro sn per h1 h2 h3 h4
        have hrec : ∀ xs : List Nat, xs.length = per → RecOK (setStaticSetMembers M fuel xs) xs :=
          fun xs hx => setStatic_spec M hM fuel xs (by omega)
        obtain ⟨rs, hs, hfl, hcl⟩ := spreadSubs_spec _ ms per hrec sn 0 (by simpa using h1)
        simp only [hs, Nat.zero_mul, List.drop_zero] at hfl ⊢
        have hsub : ∀ r ∈ rs, r.1 ∈ rs.flatMap (fun r => r.1 :: r.2) ∧
            ∀ x ∈ r.2, x ∈ rs.flatMap (fun r => r.1 :: r.2) := by
          intro r hr
          exact ⟨List.mem_flatMap.2 ⟨r, hr, List.mem_cons_self⟩,
            fun x hx => List.mem_flatMap.2 ⟨r, hr, List.mem_cons_of_mem _ hx⟩⟩
        have hall : ∀ s ∈ rs.flatMap (fun r => r.1 :: r.2), Closed (rs.flatMap (fun r => r.1 :: r.2)) s := by
          intro s hsm
          obtain ⟨r, hr, hsr⟩ := List.mem_flatMap.1 hsm
          rcases List.mem_cons.1 hsr with rfl | hsr
          · exact (hcl r hr).1.mono (hsub r hr).2
          · exact ((hcl r hr).2 s hsr).mono (hsub r hr).2
        have htop : ∀ c ∈ rs.map (·.1), c ∈ rs.flatMap (fun r => r.1 :: r.2) := by
          intro c hc
          obtain ⟨r, hr, rfl⟩ := List.mem_map.1 hc
          exact (hsub r hr).1
        by_cases hrest : per * sn < ms.length
        · simp only [hrest, if_true]
          cases fuel with
          | zero => omega
          | succ fuel' =>
            rw [setStatic_leaf M fuel' _ (by simpa using h4)]
            refine ⟨_, _, rfl, ?_, ?_, ?_⟩
            · rw [staticSet_merge, staticSetL_append, hfl]
              simp only [staticSetL, staticSet_leaf, List.append_nil, Nat.mul_comm sn per,
                List.take_append_drop]
            · intro c hc
              simp only [SSet.mergeSets] at hc
              rcases List.mem_append.1 hc with hc | hc
              · exact List.mem_append_left _ (htop c hc)
              · exact List.mem_append_right _ hc
            · intro s hsm
              rcases List.mem_append.1 hsm with hsm | hsm
              · exact (hall s hsm).mono (fun x hx => List.mem_append_left _ hx)
              · simp only [List.mem_singleton] at hsm
                subst hsm
                intro c hc
                simp [SSet.mergeSets] at hc
        · simp only [hrest, if_false]
          refine ⟨_, _, rfl, ?_, ?_, hall⟩
          · rw [staticSet_merge, hfl]
            exact List.take_of_length_le (by rw [Nat.mul_comm]; omega)
          · intro c hc
            exact htop c hc
      by_cases hA : ms.length / M < M
      · simp only [hA, if_true]
        have h1 : ms.length / M * M ≤ ms.length := Nat.div_mul_le_self _ _
        have h0 : 0 < ms.length / M := Nat.div_pos (by omega) (by omega)
        have h3 : 0 < ms.length / M * M := Nat.mul_pos h0 (by omega)
        have h4 : ms.length - M * (ms.length / M) ≤ M := by
          rw [← Nat.mod_def]; exact Nat.le_of_lt (Nat.mod_lt _ (by omega))
        exact key (ms.length / M) M h1 (by omega) h3 h4
      · simp only [hA, if_false]
        have h1 : (M - 1) * (ms.length / (M - 1)) ≤ ms.length := Nat.mul_div_le _ _
        have h2 : ms.length / (M - 1) < ms.length := Nat.div_lt_self (by omega) (by omega)
        have h0 : 0 < ms.length / (M - 1) := Nat.div_pos (by omega) (by omega)
        have h3 : 0 < (M - 1) * (ms.length / (M - 1)) := Nat.mul_pos (by omega) h0
        have h4 : ms.length - ms.length / (M - 1) * (M - 1) ≤ M := by
          rw [Nat.mul_comm, ← Nat.mod_def]
          have := Nat.mod_lt ms.length (by omega : M - 1 > 0)
          omega
        exact key (M - 1) (ms.length / (M - 1)) h1 h2 h3 h4

end Pk.FS
