import PkVerif.Model.FileSchema
/-! Helper lemmas for C15 (file writer / reader / static sets). Core Lean only. -/
namespace Pk.FS
open Pk
theorem slice_nil_of_le (b : Bytes) (off n : Nat) (h : b.length ≤ off) : slice b off n = [] := by
  unfold slice; rw [List.drop_eq_nil_of_le h]; simp
theorem slice_length (b : Bytes) (off n : Nat) : (slice b off n).length = min n (b.length - off) := by
  unfold slice; simp
theorem slice_zero (b : Bytes) (off : Nat) : slice b off 0 = [] := by unfold slice; simp
theorem slice_append_slice (b : Bytes) (off k n : Nat) (hk : k ≤ n) :
    slice b off k ++ slice b (off + k) (n - k) = slice b off n := by
  unfold slice
  have : n = k + (n - k) := by omega
  conv => rhs; rw [this, List.take_add]
  rw [List.drop_drop]
theorem slice_slice (l : Bytes) (o s r k : Nat) (hk : k ≤ s - r) :
    ((slice l o s).drop r).take k = slice l (r + o) k := by
  unfold slice
  rw [List.drop_take, List.take_take, List.drop_drop, Nat.min_eq_left hk, Nat.add_comm]
theorem slice_full (b : Bytes) (n : Nat) (h : b.length ≤ n) : slice b 0 n = b := by
  unfold slice; simp [List.take_of_length_le h]

/-! ### reader -/

mutual
theorem Part.denote_length : (p : Part) → p.wf = true → p.denote.length = p.size
  | .hole s, _ => by simp [Part.denote, Part.size]
  | .blob d o s, h => by
    simp only [Part.wf, decide_eq_true_eq] at h
    simp only [Part.denote, Part.size, slice_length]; omega
  | .bytes sub o s, h => by
    simp only [Part.wf, Bool.and_eq_true, decide_eq_true_eq] at h
    have := denoteL_length sub h.1
    simp only [Part.denote, Part.size, slice_length]; omega
  | .both _, h => by simp [Part.wf] at h
theorem denoteL_length : (ps : List Part) → wfL ps = true → (denoteL ps).length = sumPartsSize ps
  | [], _ => rfl
  | p :: ps, h => by
    simp only [wfL, Bool.and_eq_true] at h
    simp [denoteL, sumPartsSize, Part.denote_length p h.1, denoteL_length ps h.2]
end

theorem wfL_mem {ps : List Part} (h : wfL ps = true) {p : Part} (hp : p ∈ ps) : p.wf = true := by
  induction ps with
  | nil => cases hp
  | cons q qs ih =>
    simp only [wfL, Bool.and_eq_true] at h
    rcases List.mem_cons.1 hp with rfl | hq
    · exact h.1
    · exact ih h.2 hq

theorem depth_le_of_mem {ps : List Part} {p : Part} (hp : p ∈ ps) : p.depth ≤ depthL ps := by
  induction ps with
  | nil => cases hp
  | cons q qs ih =>
    simp only [depthL]
    rcases List.mem_cons.1 hp with rfl | hq
    · omega
    · have := ih hq; omega

/-- what `skipParts` finds, in terms of the denotation -/
theorem skipParts_spec : ∀ (ps : List Part) (off : Nat), wfL ps = true → off < sumPartsSize ps →
    ∃ p0 r, skipParts ps off = some (p0, r) ∧ r < p0.size ∧ p0 ∈ ps ∧
      ∀ k, k ≤ p0.size - r → slice (denoteL ps) off k = (p0.denote.drop r).take k
  | [], off, _, h => by simp [sumPartsSize] at h
  | p :: ps, off, hwf, h => by
    simp only [wfL, Bool.and_eq_true] at hwf
    have hlen := Part.denote_length p hwf.1
    simp only [sumPartsSize] at h
    by_cases hle : p.size ≤ off
    · obtain ⟨p0, r, h1, h2, h3, h4⟩ := skipParts_spec ps (off - p.size) hwf.2 (by omega)
      refine ⟨p0, r, by simp [skipParts, hle, h1], h2, List.mem_cons_of_mem _ h3, ?_⟩
      intro k hk
      rw [← h4 k hk]
      unfold slice
      simp only [denoteL]
      rw [List.drop_append, List.drop_eq_nil_of_le (by omega), hlen, List.nil_append]
    · refine ⟨p, off, by simp [skipParts, hle], by omega, List.mem_cons_self, ?_⟩
      intro k hk
      unfold slice
      simp only [denoteL]
      rw [List.drop_append_of_le_length (by omega), List.take_append_of_le_length (by simp; omega)]

/-- status of a read of `want` bytes at `off` in a file of `size` bytes -/
def readStatus (size off want : Nat) : RErr :=
  if size ≤ off then .eof else if size < off + want then .unexpectedEOF else .nil

/-- the sub-readers agree with the denotation (what the induction on the depth provides) -/
def SubOK (rd : List Part → Nat → Nat → Bytes × RErr) (ps : List Part) : Prop :=
  ∀ sub o s, Part.bytes sub o s ∈ ps → ∀ pos k, (rd sub pos k).1 = slice (denoteL sub) pos k

theorem readOnce_spec (rd : List Part → Nat → Nat → Bytes × RErr) (ps : List Part)
    (hwf : wfL ps = true) (hrd : SubOK rd ps) (off want : Nat)
    (hoff : off < sumPartsSize ps) (hw : 0 < want) :
    ∃ k, 0 < k ∧ k ≤ want ∧ off + k ≤ sumPartsSize ps ∧
      readOnce false rd ps off want = .ok (slice (denoteL ps) off k) := by
  obtain ⟨p0, r, h1, h2, h3, h4⟩ := skipParts_spec ps off hwf hoff
  have hp0 := wfL_mem hwf h3
  have hsz : p0.size ≤ sumPartsSize ps - (off - r) := by
    sorry
  sorry

end Pk.FS
