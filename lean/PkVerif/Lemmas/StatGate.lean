import PkVerif.Model.StatGate
/-! Lemmas about the gate accounting of `StatBlobsParallelHelper` (C13). -/
namespace Pk.StatGate

/-- with a `Done` on both ways out of an iteration the loop keeps Starts = Dones -/
theorem loop_balanced (sh : Shape) (h1 : sh.doneOnBreak = true) (h2 : sh.workerDefersDone = true)
    (visible : Nat → Bool) : ∀ (ends : List WorkerEnd) (i : Nat) (c : Count), c.starts = c.dones →
      (loop sh visible i ends c).starts = (loop sh visible i ends c).dones := by
  intro ends
  induction ends with
  | nil => intro i c h; exact h
  | cons w rest ih =>
    intro i c h
    simp only [loop]
    split
    · simp [h1, h]
    · apply ih
      cases w <;> simp [workerDones, h2, h]

/-- without the `Done` on the early exit: the loop gives back everything except one slot exactly when
the cancellation became visible at some iteration it reached -/
theorem loop_pinned (visible : Nat → Bool) : ∀ (ends : List WorkerEnd) (i : Nat) (c : Count),
    (loop ⟨false, true⟩ visible i ends c).starts - (loop ⟨false, true⟩ visible i ends c).dones =
      (c.starts - c.dones) + (if (List.range' i ends.length).any visible then 1 else 0) ∨
    c.starts < c.dones := by
  intro ends
  induction ends with
  | nil => intro i c; left; simp [loop]
  | cons w rest ih =>
    intro i c
    by_cases hlt : c.starts < c.dones
    · exact Or.inr hlt
    left
    simp only [loop]
    by_cases hv : visible i = true
    · simp only [hv, if_true, List.length_cons, List.range'_succ, List.any_cons, Bool.true_or]
      simp; omega
    · have hv' : visible i = false := by simpa using hv
      simp only [hv', Bool.false_eq_true, if_false, List.length_cons, List.range'_succ, List.any_cons,
        Bool.false_or]
      have hw : workerDones ⟨false, true⟩ w = 1 := by cases w <;> rfl
      rw [hw]
      rcases ih (i + 1) ⟨c.starts + 1, c.dones + 1⟩ with h | h
      · rw [h]; simp
      · simp at h; omega

/-- a call that found the context cancelled right away (`visible 0`) and has at least one blob -/
theorem leaked_pinned_cancelled (visible : Nat → Bool) (h0 : visible 0 = true) (w : WorkerEnd)
    (rest : List WorkerEnd) : leaked ⟨false, true⟩ visible (w :: rest) = 1 := by
  simp [leaked, call, loop, h0]

theorem leaked_fixed (visible : Nat → Bool) (ends : List WorkerEnd) :
    leaked ⟨true, true⟩ visible ends = 0 := by
  have := loop_balanced ⟨true, true⟩ rfl rfl visible ends 0 ⟨0, 0⟩ rfl
  simp [leaked, call, this]

/-- the repaired helper never exhausts the gate -/
theorem gateRun_fixed (cap : Nat) (hc : 0 < cap) :
    ∀ calls : List ((Nat → Bool) × List WorkerEnd), gateRun ⟨true, true⟩ (some cap) calls = some cap := by
  intro calls
  induction calls with
  | nil => rfl
  | cons c rest ih =>
    obtain ⟨v, e⟩ := c
    simp only [gateRun, leaked_fixed, Nat.sub_zero]
    rw [if_neg (by omega)]
    exact ih

/-- the pinned helper: `n ≤ free` calls that find their context cancelled take `n` slots for good -/
theorem gateRun_pinned_cancelled (visible : Nat → Bool) (h0 : visible 0 = true) (w : WorkerEnd) :
    ∀ (n free : Nat), n ≤ free →
      gateRun ⟨false, true⟩ (some free) (List.replicate n (visible, [w])) = some (free - n) := by
  intro n
  induction n with
  | zero => intro free _; rfl
  | succ n ih =>
    intro free h
    simp only [List.replicate_succ, gateRun, leaked_pinned_cancelled visible h0]
    rw [if_neg (by omega), ih (free - 1) (by omega)]
    congr 1; omega

/-- … and the next call, healthy or not, blocks forever -/
theorem gateRun_pinned_exhausted (visible : Nat → Bool) (h0 : visible 0 = true) (w : WorkerEnd)
    (cap : Nat) (next : (Nat → Bool) × List WorkerEnd) (hne : next.2 ≠ []) :
    gateRun ⟨false, true⟩ (some cap) (List.replicate cap (visible, [w]) ++ [next]) = none := by
  have key : ∀ (l : List ((Nat → Bool) × List WorkerEnd)) (free : Option Nat) (r : Option Nat),
      gateRun ⟨false, true⟩ free l = r → gateRun ⟨false, true⟩ free (l ++ [next]) =
        gateRun ⟨false, true⟩ r [next] := by
    intro l
    induction l with
    | nil => intro free r h; cases free <;> simp [gateRun] at h ⊢ <;> subst h <;> rfl
    | cons c rest ih =>
      intro free r h
      obtain ⟨v, e⟩ := c
      cases free with
      | none => simp only [gateRun] at h; subst h; rfl
      | some f =>
        simp only [List.cons_append, gateRun] at h ⊢
        split
        · rename_i hc; rw [if_pos hc] at h; subst h; rfl
        · rename_i hc; rw [if_neg hc] at h; exact ih _ _ h
  rw [key _ _ _ (gateRun_pinned_cancelled visible h0 w cap cap (Nat.le_refl _))]
  obtain ⟨v, e⟩ := next
  simp only [Nat.sub_self, gateRun]
  rw [if_pos ⟨hne, trivial⟩]

end Pk.StatGate
