import PkVerif.Spec.SortedKV
/-! Helper lemmas about `Pk.SortedKV` (the byte-ordered map). -/
namespace Pk.SortedKV

theorem stB : StrictTotal ltB := ⟨ltB_irrefl, ltB_trans, ltB_total⟩

theorem ltB_ne {a b : Bytes} (h : ltB a b = true) : a ≠ b := by
  intro e; subst e; rw [ltB_irrefl] at h; cases h

theorem ltB_nil_right (k : Bytes) : ltB k [] = false := by cases k <;> rfl

/-- `WF` is the `Pk.Asc` of Base/Order.lean -/
theorem asc_iff_pairwise (l : List Bytes) : Asc ltB l ↔ l.Pairwise (fun a b => ltB a b = true) := by
  induction l with
  | nil => simp [Asc]
  | cons a t ih =>
    constructor
    · intro h
      rw [List.pairwise_cons]
      exact ⟨asc_head_lt ltB stB h, ih.mp (asc_tail ltB h)⟩
    · intro h
      rw [List.pairwise_cons] at h
      cases t with
      | nil => trivial
      | cons b t' => exact ⟨h.1 b (by simp), ih.mpr h.2⟩

theorem wf_iff_asc (m : KV) : WF m ↔ Asc ltB (keys m) := (asc_iff_pairwise _).symm

theorem wf_nil : WF [] := by simp [WF, keys]

theorem wf_cons {k v : Bytes} {t : KV} :
    WF ((k, v) :: t) ↔ (∀ x ∈ keys t, ltB k x = true) ∧ WF t := by
  simp [WF, keys, List.pairwise_cons]

theorem wf_tail {p : Bytes × Bytes} {t : KV} (h : WF (p :: t)) : WF t := by
  obtain ⟨k, v⟩ := p; exact (wf_cons.mp h).2

theorem mem_keys {m : KV} {k v : Bytes} (h : (k, v) ∈ m) : k ∈ keys m :=
  List.mem_map.mpr ⟨(k, v), h, rfl⟩

/-! ### get -/

theorem get_none_of_not_mem_keys {m : KV} {k : Bytes} (h : k ∉ keys m) : get m k = none := by
  induction m with
  | nil => rfl
  | cons p t ih =>
    obtain ⟨k', v'⟩ := p
    simp only [keys, List.map_cons, List.mem_cons, not_or] at h
    simp only [get]
    rw [if_neg (fun e => h.1 e.symm)]
    exact ih h.2

theorem get_some_mem {m : KV} {k v : Bytes} (h : get m k = some v) : (k, v) ∈ m := by
  induction m with
  | nil => simp [get] at h
  | cons p t ih =>
    obtain ⟨k', v'⟩ := p
    simp only [get] at h
    split at h
    · next e => injection h with h; subst e; subst h; simp
    · exact List.mem_cons_of_mem _ (ih h)

/-- below the head of a well-formed map nothing is found -/
theorem get_tail_none {k v : Bytes} {t : KV} (h : WF ((k, v) :: t)) {x : Bytes}
    (hx : ltB k x = false) : get t x = none := by
  apply get_none_of_not_mem_keys
  intro hm
  have := (wf_cons.mp h).1 x hm
  rw [hx] at this; cases this

theorem mem_get {m : KV} (hw : WF m) {k v : Bytes} (h : (k, v) ∈ m) : get m k = some v := by
  induction m with
  | nil => cases h
  | cons p t ih =>
    obtain ⟨k', v'⟩ := p
    simp only [get]
    cases h with
    | head => simp
    | tail _ h' =>
      have hlt := (wf_cons.mp hw).1 k (mem_keys h')
      rw [if_neg (ltB_ne hlt)]
      exact ih (wf_tail hw) h'

theorem mem_iff_get {m : KV} (hw : WF m) (k v : Bytes) : (k, v) ∈ m ↔ get m k = some v :=
  ⟨mem_get hw, get_some_mem⟩

/-- a well-formed map is determined by its `get` -/
theorem ext_get : ∀ {a b : KV}, WF a → WF b → (∀ k, get a k = get b k) → a = b
  | [], [], _, _, _ => rfl
  | [], (k, v) :: _, _, _, h => by have := h k; simp [get] at this
  | (k, v) :: _, [], _, _, h => by have := h k; simp [get] at this
  | (k1, v1) :: ta, (k2, v2) :: tb, ha, hb, h => by
    have hk : k1 = k2 := by
      rcases ltB_total k1 k2 with hlt | heq | hgt
      · have h1 := h k1
        simp only [get, if_true] at h1
        rw [if_neg (fun e => ltB_ne hlt e.symm)] at h1
        rw [get_tail_none hb (ltB_asymm _ _ hlt)] at h1
        cases h1
      · exact heq
      · have h2 := h k2
        simp only [get, if_true] at h2
        rw [if_neg (fun e => ltB_ne hgt e.symm)] at h2
        rw [get_tail_none ha (ltB_asymm _ _ hgt)] at h2
        cases h2
    subst hk
    have hv : v1 = v2 := by have := h k1; simpa [get] using this
    subst hv
    have ht : ta = tb := by
      apply ext_get (wf_tail ha) (wf_tail hb)
      intro k
      by_cases e : k1 = k
      · subst e
        rw [get_tail_none ha (ltB_irrefl _), get_tail_none hb (ltB_irrefl _)]
      · have := h k
        simpa [get, e] using this
    rw [ht]

/-! ### insert / erase / filter -/

theorem get_insert (k v : Bytes) (m : KV) (x : Bytes) :
    get (insert k v m) x = if k = x then some v else get m x := by
  induction m with
  | nil => simp only [insert, get]
  | cons p t ih =>
    obtain ⟨k', v'⟩ := p
    simp only [insert]
    split
    · simp only [get]
    · split
      · next e =>
        subst e
        simp only [get]
        by_cases e : k = x
        · simp [e]
        · simp [e]
      · next hne =>
        simp only [get]
        by_cases e : k' = x
        · subst e
          simp only [if_true]
          rw [if_neg hne]
        · rw [if_neg e, if_neg e]; exact ih

theorem keys_insert (k v : Bytes) (m : KV) (x : Bytes) (h : x ∈ keys (insert k v m)) :
    x = k ∨ x ∈ keys m := by
  induction m with
  | nil => simp [insert, keys] at h; exact Or.inl h
  | cons p t ih =>
    obtain ⟨k', v'⟩ := p
    simp only [insert] at h
    split at h
    · simp only [keys, List.map_cons, List.mem_cons] at h ⊢
      rcases h with h | h | h
      · exact Or.inl h
      · exact Or.inr (Or.inl h)
      · exact Or.inr (Or.inr h)
    · split at h
      · simp only [keys, List.map_cons, List.mem_cons] at h ⊢
        rcases h with h | h
        · exact Or.inl h
        · exact Or.inr (Or.inr h)
      · simp only [keys, List.map_cons, List.mem_cons] at h ⊢
        rcases h with h | h
        · exact Or.inr (Or.inl h)
        · rcases ih h with h' | h'
          · exact Or.inl h'
          · exact Or.inr (Or.inr h')

theorem wf_insert (k v : Bytes) {m : KV} (hw : WF m) : WF (insert k v m) := by
  induction m with
  | nil => simp [insert, WF, keys]
  | cons p t ih =>
    obtain ⟨k', v'⟩ := p
    simp only [insert]
    split
    · next hlt =>
      rw [wf_cons]
      refine ⟨?_, hw⟩
      intro x hx
      simp only [keys, List.map_cons, List.mem_cons] at hx
      rcases hx with hx | hx
      · subst hx; exact hlt
      · exact ltB_trans _ _ _ hlt ((wf_cons.mp hw).1 x hx)
    · next hnlt =>
      split
      · next e => subst e; rw [wf_cons]; exact wf_cons.mp hw
      · next hne =>
        have hgt : ltB k' k = true := by
          rcases ltB_total k k' with h | h | h
          · exact absurd h hnlt
          · exact absurd h hne
          · exact h
        rw [wf_cons]
        refine ⟨?_, ih (wf_tail hw)⟩
        intro x hx
        rcases keys_insert k v t x hx with h | h
        · subst h; exact hgt
        · exact (wf_cons.mp hw).1 x h

theorem keys_filter_sublist (f : Bytes × Bytes → Bool) (m : KV) :
    (keys (m.filter f)).Sublist (keys m) := (List.filter_sublist (l := m)).map _

theorem wf_filter (f : Bytes × Bytes → Bool) {m : KV} (hw : WF m) : WF (m.filter f) :=
  List.Pairwise.sublist (keys_filter_sublist f m) hw

theorem wf_erase (k : Bytes) {m : KV} (hw : WF m) : WF (erase k m) := wf_filter _ hw

theorem wf_find {m : KV} (hw : WF m) (s e : Bytes) : WF (find m s e) := wf_filter _ hw

/-- filtering on a predicate of the key -/
theorem get_filter_key (f : Bytes → Bool) (m : KV) (x : Bytes) :
    get (m.filter (fun p => f p.1)) x = if f x then get m x else none := by
  induction m with
  | nil => simp [get]
  | cons p t ih =>
    obtain ⟨k', v'⟩ := p
    simp only [List.filter]
    cases hf : f k' with
    | true =>
      simp only [get]
      by_cases e : k' = x
      · subst e; simp [hf]
      · rw [if_neg e, if_neg e]; exact ih
    | false =>
      simp only [get]
      by_cases e : k' = x
      · subst e; rw [ih]; simp [hf]
      · rw [if_neg e]; exact ih

theorem get_erase (k : Bytes) (m : KV) (x : Bytes) :
    get (erase k m) x = if k = x then none else get m x := by
  unfold erase
  rw [get_filter_key (fun a => !(a == k)) m x]
  by_cases e : k = x
  · subst e; simp
  · have : ¬ x = k := fun e' => e e'.symm
    simp [e, this]

theorem get_find (m : KV) (s e x : Bytes) :
    get (find m s e) x = if inRange s e x then get m x else none :=
  get_filter_key (inRange s e) m x

theorem inRange_nil (k : Bytes) : inRange [] [] k = true := by
  simp [inRange, ltB_nil_right]

theorem find_all (m : KV) : find m [] [] = m := by
  unfold find
  apply List.filter_eq_self.mpr
  intro p _; exact inRange_nil p.1

/-! ### set / batch -/

theorem wf_set (L : Limits) {m : KV} (hw : WF m) (k v : Bytes) : WF (set L m k v) := by
  unfold set; split
  · exact wf_insert k v hw
  · exact hw

theorem get_set (L : Limits) (m : KV) (k v x : Bytes) :
    get (set L m k v) x = if okSizes L k v = true ∧ k = x then some v else get m x := by
  unfold set
  cases h : okSizes L k v with
  | true => simp [get_insert]
  | false => simp

theorem wf_applyMut (L : Limits) {m : KV} (hw : WF m) (x : Mut) : WF (applyMut L m x) := by
  cases x with
  | set k v => exact wf_set L hw k v
  | del k => exact wf_erase k hw

theorem wf_batch (L : Limits) {m : KV} (hw : WF m) (ms : List Mut) : WF (batch L m ms) := by
  induction ms generalizing m with
  | nil => exact hw
  | cons x xs ih => exact ih (wf_applyMut L hw x)

theorem batch_eq_foldl (L : Limits) (m : KV) (ms : List Mut) :
    batch L m ms = ms.foldl (applyMut L) m := by
  induction ms generalizing m with
  | nil => rfl
  | cons x xs ih => simp [batch, ih]

theorem batch_append (L : Limits) (m : KV) (a b : List Mut) :
    batch L m (a ++ b) = batch L (batch L m a) b := by
  simp [batch_eq_foldl]

/-! ### size limits of what is stored -/

theorem mem_insert {k v : Bytes} {m : KV} {p : Bytes × Bytes} (h : p ∈ insert k v m) :
    p = (k, v) ∨ p ∈ m := by
  induction m with
  | nil => simp [insert] at h; exact Or.inl h
  | cons q t ih =>
    obtain ⟨k', v'⟩ := q
    simp only [insert] at h
    split at h
    · simp only [List.mem_cons] at h ⊢
      rcases h with h | h | h
      · exact Or.inl h
      · exact Or.inr (Or.inl h)
      · exact Or.inr (Or.inr h)
    · split at h
      · simp only [List.mem_cons] at h ⊢
        rcases h with h | h
        · exact Or.inl h
        · exact Or.inr (Or.inr h)
      · simp only [List.mem_cons] at h ⊢
        rcases h with h | h
        · exact Or.inr (Or.inl h)
        · rcases ih h with h' | h'
          · exact Or.inl h'
          · exact Or.inr (Or.inr h')

theorem sizes_set (L : Limits) {m : KV} (hs : SizesOK L m) (k v : Bytes) : SizesOK L (set L m k v) := by
  unfold set
  cases h : okSizes L k v with
  | false => simpa using hs
  | true =>
    simp only [if_true]
    intro p hp
    rcases mem_insert hp with e | hm
    · subst e; exact h
    · exact hs p hm

theorem sizes_filter (L : Limits) {m : KV} (hs : SizesOK L m) (f : Bytes × Bytes → Bool) :
    SizesOK L (m.filter f) := fun p hp => hs p (List.mem_filter.mp hp).1

theorem sizes_applyMut (L : Limits) {m : KV} (hs : SizesOK L m) (x : Mut) : SizesOK L (applyMut L m x) := by
  cases x with
  | set k v => exact sizes_set L hs k v
  | del k => exact sizes_filter L hs _

theorem sizes_batch (L : Limits) {m : KV} (hs : SizesOK L m) (ms : List Mut) : SizesOK L (batch L m ms) := by
  induction ms generalizing m with
  | nil => exact hs
  | cons x xs ih => exact ih (sizes_applyMut L hs x)

theorem get_applyMut (L : Limits) (m : KV) (mu : Mut) (x : Bytes) :
    get (applyMut L m mu) x =
      match mu with
      | .set k v => if okSizes L k v = true ∧ k = x then some v else get m x
      | .del k => if k = x then none else get m x := by
  cases mu with
  | set k v => exact get_set L m k v x
  | del k => exact get_erase k m x

theorem get_batch (L : Limits) (ms : List Mut) : ∀ (m : KV) (x : Bytes),
    get (batch L m ms) x = match lastWrite L ms x with
      | some r => r
      | none => get m x := by
  induction ms with
  | nil => intro m x; rfl
  | cons mu ms ih =>
    intro m x
    simp only [batch, lastWrite]
    rw [ih]
    cases lastWrite L ms x with
    | some r => rfl
    | none =>
      simp only [get_applyMut]
      cases mu with
      | set k v =>
        by_cases c : okSizes L k v = true ∧ k = x
        · simp only [if_pos c]
        · simp only [if_neg c]
      | del k =>
        by_cases c : k = x
        · simp only [if_pos c]
        · simp only [if_neg c]

theorem wf_specStep (L : Limits) {m : KV} (hw : WF m) (o : Op) : WF (specStep L m o).1 := by
  cases o with
  | get k => exact hw
  | set k v => exact wf_set L hw k v
  | del k => exact wf_erase k hw
  | batch ms => exact wf_batch L hw ms
  | find s e => exact hw
  | flush => exact hw
  | reopen => exact hw

end Pk.SortedKV
