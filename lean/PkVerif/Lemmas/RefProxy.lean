import PkVerif.Lemmas.Stores
/-!
C01: the evicting memory cache satisfies the weak cache contract (`memCacheCaches`), and proxycache
over a refining origin and any such cache refines the reference map (`proxyRefines`).
-/
namespace Pk.Stores
open Pk Pk.SMap Pk.RefMap

/-! ### sub-map facts -/

theorem sub_del_self {V : Type} (k : Bytes) {m : SMap V} (hm : KAsc m) : Sub (del k m) m := by
  intro x v h
  rw [get_del k hm] at h
  by_cases hx : x = k
  · simp [hx] at h
  · simpa [hx] using h

theorem sub_del_del {V : Type} (k : Bytes) {a b : SMap V} (ha : KAsc a) (hb : KAsc b)
    (h : Sub a b) : Sub (del k a) (del k b) := by
  intro x v hg
  rw [get_del k ha] at hg
  rw [get_del k hb]
  by_cases hx : x = k
  · simp [hx] at hg
  · simp only [hx, if_false] at hg ⊢; exact h _ _ hg

theorem sub_ins_ins {V : Type} (k : Bytes) (v : V) {a b : SMap V} (h : Sub a b) :
    Sub (ins k v a) (ins k v b) := by
  intro x w hg
  rw [get_ins] at hg ⊢
  by_cases hx : x = k
  · simpa [hx] using hg
  · simp only [hx, if_false] at hg ⊢; exact h _ _ hg

theorem sub_ins_of_get {V : Type} {k : Bytes} {v : V} {a b : SMap V} (h : Sub a b)
    (hk : SMap.get b k = some v) : Sub (ins k v a) b := by
  intro x w hg
  rw [get_ins] at hg
  by_cases hx : x = k
  · subst hx
    simp only [if_true] at hg
    injection hg with hg
    subst hg; exact hk
  · simp only [hx, if_false] at hg; exact h _ _ hg

/-- a canonical sub-map of a good map is good -/
theorem good_of_sub {content : Bytes → Bytes} {a b : SMap Bytes} (ha : KAsc a) (h : Sub a b)
    (hb : Good content b) : Good content a :=
  ⟨ha, fun k v hg => hb.2 k v (h k v hg)⟩

/-- inserting a well-keyed blob keeps a map good (also when the key is already there) -/
theorem good_ins {content : Bytes → Bytes} {m : SMap Bytes} (h : Good content m) (k v : Bytes)
    (hop : (Op.recv k v).WK content) : Good content (ins k v m) := by
  refine ⟨kasc_ins k v h.1, ?_⟩
  intro k' v' hk'
  rw [get_ins] at hk'
  by_cases e : k' = k
  · subst e; simp only [if_true] at hk'; injection hk' with hk'; subst hk'; exact hop
  · simp only [e, if_false] at hk'; exact h.2 _ _ hk'

/-- what a cache holds after a well-keyed receive is within what the origin holds after it -/
theorem sub_ins_next {content : Bytes → Bytes} {a m : SMap Bytes} (hm : Good content m) (h : Sub a m)
    (k v : Bytes) (hop : (Op.recv k v).WK content) : Sub (ins k v a) (next m (.recv k v)) := by
  simp only [next]
  cases hg : SMap.get m k with
  | none => simp only [has, hg, Option.isSome_none, Bool.false_eq_true, if_false]; exact sub_ins_ins k v h
  | some w =>
    simp only [has, hg, Option.isSome_some, if_true]
    have hw : w = v := by rw [(hm.2 k w hg).1, hop.1]
    exact sub_ins_of_get h (hw ▸ hg)

/-! ### memory in cache mode -/

/-- the eviction loop only deletes entries -/
theorem evict_ok (max : Nat) : ∀ (fuel : Nat) (c : MemCache), KAsc c.m →
    KAsc (MemCache.evict max fuel c).m ∧ Sub (MemCache.evict max fuel c).m c.m
  | 0, c, h => ⟨h, Sub.refl _⟩
  | fuel + 1, c, h => by
    simp only [MemCache.evict]
    by_cases hb : max ≠ 0 ∧ c.size > max
    · rw [if_pos hb]
      cases c.lru.getLast? with
      | none => exact ⟨h, Sub.refl _⟩
      | some key =>
        simp only
        cases hg : SMap.get c.m key with
        | none => exact evict_ok max fuel _ h
        | some v =>
          obtain ⟨h1, h2⟩ := evict_ok max fuel
            { m := del key c.m, lru := c.lru.dropLast, size := c.size - v.length } (kasc_del _ h)
          exact ⟨h1, h2.trans (sub_del_self _ h)⟩
    · rw [if_neg hb]; exact ⟨h, Sub.refl _⟩

theorem mc_recv {content : Bytes → Bytes} (max : Nat) (c : MemCache) (k v : Bytes)
    (h : Good content c.m) (hop : (Op.recv k v).WK content) :
    ((memCacheImpl max).step c (.recv k v)).2 = .sized v.length ∧
    KAsc (MemCache.m ((memCacheImpl max).step c (.recv k v)).1) ∧
    Sub (MemCache.m ((memCacheImpl max).step c (.recv k v)).1) (ins k v c.m) := by
  simp only [memCacheImpl]
  cases hg : SMap.get c.m k with
  | some w =>
    simp only [has, hg, Option.isSome_some, if_true]
    refine ⟨trivial, h.1, ?_⟩
    have hw : w = v := by rw [(h.2 k w hg).1, hop.1]
    intro x u hx
    rw [get_ins]
    by_cases hxk : x = k
    · subst hxk; rw [hg] at hx; simp only [if_true]; rw [← hw]; exact hx
    · simp only [hxk, if_false]; exact hx
  | none =>
    simp only [has, hg, Option.isSome_none, Bool.false_eq_true, if_false]
    exact ⟨trivial, evict_ok max _ _ (kasc_ins k v h.1)⟩

theorem mc_rm (max : Nat) (c : MemCache) (k : Bytes) (h : KAsc c.m) :
    ((memCacheImpl max).step c (.rm k)).2 = .ok ∧
    KAsc (MemCache.m ((memCacheImpl max).step c (.rm k)).1) ∧
    Sub (MemCache.m ((memCacheImpl max).step c (.rm k)).1) (del k c.m) := by
  simp only [memCacheImpl]
  cases hg : SMap.get c.m k with
  | some w => exact ⟨trivial, kasc_del k h, Sub.refl _⟩
  | none =>
    refine ⟨trivial, h, ?_⟩
    intro x u hx
    rw [get_del k h]
    by_cases hxk : x = k
    · subst hxk; rw [hg] at hx; cases hx
    · simp only [hxk, if_false]; exact hx

/-- fetch, stat and enumerate leave the blob map alone and answer from it -/
theorem mc_read (max : Nat) (c : MemCache) (op : Op)
    (hr : match op with | .fetch _ | .stat _ | .enum _ _ => True | _ => False) :
    ((memCacheImpl max).step c op).2 = out c.m op ∧
    MemCache.m ((memCacheImpl max).step c op).1 = c.m := by
  cases op with
  | recv _ _ => cases hr
  | rm _ => cases hr
  | fetch k =>
    simp only [memCacheImpl]
    refine ⟨trivial, ?_⟩
    split <;> rfl
  | stat k => exact ⟨rfl, rfl⟩
  | enum a l => exact ⟨rfl, rfl⟩

/-- memory.NewCache(max) satisfies the cache contract; nothing is needed about `lru`/`size`:
whatever they hold, eviction and removal only delete entries of `m` -/
def memCacheCaches (content : Bytes → Bytes) (max : Nat) : Caches content (memCacheImpl max) where
  abs := fun (c : MemCache) => c.m
  Inv := fun (c : MemCache) => Good content c.m
  init_inv := good_nil content
  init_abs := rfl
  good := fun _ h => h
  step_inv := by
    intro c op h hop
    cases op with
    | recv k v =>
      obtain ⟨_, h1, h2⟩ := mc_recv max c k v h hop
      exact good_of_sub h1 h2 (good_ins h k v hop)
    | rm k =>
      obtain ⟨_, h1, h2⟩ := mc_rm max c k h.1
      exact good_of_sub h1 (h2.trans (sub_del_self k h.1)) h
    | fetch k => show Good content (MemCache.m _); rw [(mc_read max c (.fetch k) trivial).2]; exact h
    | stat k => exact h
    | enum a l => exact h
  read_ok := by
    intro c op h hr
    obtain ⟨h1, h2⟩ := mc_read max c op hr
    exact ⟨h1, by show Sub (MemCache.m _) _; rw [h2]; exact Sub.refl _⟩
  recv_ok := by
    intro c k v h hop
    obtain ⟨h1, _, h3⟩ := mc_recv max c k v h hop
    exact ⟨h1, h3⟩
  rm_ok := by
    intro c k h
    obtain ⟨h1, _, h3⟩ := mc_rm max c k h.1
    exact ⟨h1, h3⟩

/-! ### proxycache -/

section Proxy
variable {content : Bytes → Bytes} {cache : Impl} (Cc : Caches content cache) (max : Nat)

/-- removeOldest in a loop only issues removes to the cache: the cache invariant is kept and its
contents only shrink -/
theorem proxyClean_ok : ∀ (fuel : Nat) (cs : cache.σ) (b : ProxyBook), Cc.Inv cs →
    Cc.Inv (proxyClean cache max fuel cs b).1 ∧
    Sub (Cc.abs (proxyClean cache max fuel cs b).1) (Cc.abs cs)
  | 0, cs, b, h => ⟨h, Sub.refl _⟩
  | fuel + 1, cs, b, h => by
    simp only [proxyClean]
    by_cases hb : b.cacheBytes > max
    · simp only [hb, if_true]
      cases b.lru.getLast? with
      | none => exact ⟨h, Sub.refl _⟩
      | some p =>
        obtain ⟨k, sz⟩ := p
        simp only
        obtain ⟨ho, hs⟩ := Cc.rm_ok cs k h
        have hi := Cc.step_inv cs (.rm k) h trivial
        have hs' := hs.trans (sub_del_self k (Cc.good cs h).1)
        clear hs
        generalize cache.step cs (.rm k) = pr at ho hs' hi
        obtain ⟨cs', o⟩ := pr
        simp only at ho hs' hi
        subst ho
        simp only
        obtain ⟨h1, h2⟩ := proxyClean_ok fuel cs' _ hi
        exact ⟨h1, h2.trans hs'⟩
    · simp only [hb, if_false]; exact ⟨h, Sub.refl _⟩

/-- touch keeps the cache invariant and only shrinks the cache contents -/
theorem proxyTouch_ok (cs : cache.σ) (b : ProxyBook) (k : Bytes) (sz : Nat) (h : Cc.Inv cs) :
    Cc.Inv (proxyTouch cache max cs b k sz).1 ∧
    Sub (Cc.abs (proxyTouch cache max cs b k sz).1) (Cc.abs cs) := by
  unfold proxyTouch
  split
  · exact ⟨h, Sub.refl _⟩
  · exact proxyClean_ok Cc max _ cs _ h

end Proxy

/-- proxycache refines the reference map whenever its origin does and its cache satisfies the cache
contract.  The abstract map is the origin's; the cache only ever holds blobs the origin holds. -/
def proxyRefines {content : Bytes → Bytes} {origin cache : Impl} (Ro : Refines content origin)
    (Cc : Caches content cache) (max : Nat) : Refines content (proxyImpl origin cache max) where
  abs := fun s => Ro.abs s.1
  Inv := fun s => Ro.Inv s.1 ∧ Cc.Inv s.2.1 ∧ Sub (Cc.abs s.2.1) (Ro.abs s.1)
  init_inv := ⟨Ro.init_inv, Cc.init_inv, by
    show Sub (Cc.abs cache.init) _
    rw [Cc.init_abs]; intro k v h; simp [SMap.get] at h⟩
  init_abs := Ro.init_abs
  good := fun s h => Ro.good s.1 h.1
  step_ok := by
    rintro ⟨os, cs, b⟩ op ⟨hR, hC, hS⟩ hop
    have hGo := Ro.good os hR
    cases op with
    | fetch k =>
      obtain ⟨hco, hcs⟩ := Cc.read_ok cs (.fetch k) hC trivial
      have hci := Cc.step_inv cs (.fetch k) hC trivial
      obtain ⟨hoo, hoa, hoi⟩ := Ro.step_ok os (.fetch k) hR trivial
      simp only [proxyImpl]
      generalize cache.step cs (.fetch k) = pc at hco hcs hci
      obtain ⟨cs1, oc⟩ := pc
      simp only at hco hcs hci
      have hS1 : Sub (Cc.abs cs1) (Ro.abs os) := hcs.trans hS
      simp only [out, next] at hco hoo hoa ⊢
      cases hgc : SMap.get (Cc.abs cs) k with
      | some v =>
        -- cache hit: the origin holds the same bytes
        rw [hgc] at hco; simp only at hco; subst hco
        simp only [hS k v hgc]
        obtain ⟨ht1, ht2⟩ := proxyTouch_ok Cc max cs1 b k v.length hci
        generalize proxyTouch cache max cs1 b k v.length = pt at ht1 ht2
        obtain ⟨cs2, b2⟩ := pt
        exact ⟨trivial, trivial, hR, ht1, ht2.trans hS1⟩
      | none =>
        rw [hgc] at hco; simp only at hco; subst hco
        simp only
        generalize origin.step os (.fetch k) = po at hoo hoa hoi
        obtain ⟨os1, oo⟩ := po
        simp only at hoo hoa hoi
        cases hgo : SMap.get (Ro.abs os) k with
        | none =>
          rw [hgo] at hoo; simp only at hoo; subst hoo
          simp only
          exact ⟨trivial, hoa, hoi, hci, hoa ▸ hS1⟩
        | some v =>
          rw [hgo] at hoo; simp only at hoo; subst hoo
          simp only
          have hwk : (Op.recv k v).WK content := hGo.2 k v hgo
          obtain ⟨hro, hrs⟩ := Cc.recv_ok cs1 k v hci hwk
          have hri := Cc.step_inv cs1 (.recv k v) hci hwk
          have hS2 := hrs.trans (sub_ins_of_get hS1 hgo)
          clear hrs
          generalize cache.step cs1 (.recv k v) = pr at hro hS2 hri
          obtain ⟨cs2, or⟩ := pr
          simp only at hro hS2 hri
          subst hro
          simp only
          obtain ⟨ht1, ht2⟩ := proxyTouch_ok Cc max cs2 b k v.length hri
          generalize proxyTouch cache max cs2 b k v.length = pt at ht1 ht2
          obtain ⟨cs3, b3⟩ := pt
          exact ⟨trivial, hoa, hoi, ht1, hoa ▸ ht2.trans hS2⟩
    | stat k =>
      obtain ⟨hco, hcs⟩ := Cc.read_ok cs (.stat k) hC trivial
      have hci := Cc.step_inv cs (.stat k) hC trivial
      obtain ⟨hoo, hoa, hoi⟩ := Ro.step_ok os (.stat k) hR trivial
      simp only [proxyImpl]
      generalize cache.step cs (.stat k) = pc at hco hcs hci
      obtain ⟨cs1, oc⟩ := pc
      simp only at hco hcs hci
      have hS1 : Sub (Cc.abs cs1) (Ro.abs os) := hcs.trans hS
      simp only [out, next] at hco hoo hoa ⊢
      cases hgc : SMap.get (Cc.abs cs) k with
      | some v =>
        rw [hgc] at hco; simp only at hco; subst hco
        simp only [hS k v hgc]
        obtain ⟨ht1, ht2⟩ := proxyTouch_ok Cc max cs1 b k v.length hci
        generalize proxyTouch cache max cs1 b k v.length = pt at ht1 ht2
        obtain ⟨cs2, b2⟩ := pt
        exact ⟨trivial, trivial, hR, ht1, ht2.trans hS1⟩
      | none =>
        rw [hgc] at hco; simp only at hco; subst hco
        simp only
        generalize origin.step os (.stat k) = po at hoo hoa hoi
        obtain ⟨os1, oo⟩ := po
        simp only at hoo hoa hoi
        cases hgo : SMap.get (Ro.abs os) k with
        | none =>
          rw [hgo] at hoo; simp only at hoo; subst hoo
          simp only
          exact ⟨trivial, hoa, hoi, hci, hoa ▸ hS1⟩
        | some v =>
          rw [hgo] at hoo; simp only at hoo; subst hoo
          simp only
          obtain ⟨ht1, ht2⟩ := proxyTouch_ok Cc max cs1 b k v.length hci
          generalize proxyTouch cache max cs1 b k v.length = pt at ht1 ht2
          obtain ⟨cs2, b2⟩ := pt
          exact ⟨trivial, hoa, hoi, ht1, hoa ▸ ht2.trans hS1⟩
    | recv k v =>
      obtain ⟨hoo, hoa, hoi⟩ := Ro.step_ok os (.recv k v) hR hop
      obtain ⟨hro, hrs⟩ := Cc.recv_ok cs k v hC hop
      have hri := Cc.step_inv cs (.recv k v) hC hop
      have hS1 : Sub (Cc.abs (cache.step cs (.recv k v)).1) (Ro.abs (origin.step os (.recv k v)).1) := by
        rw [hoa]; exact hrs.trans (sub_ins_next hGo hS k v hop)
      clear hrs
      simp only [proxyImpl]
      generalize origin.step os (.recv k v) = po at hoo hoa hoi hS1
      obtain ⟨os1, oo⟩ := po
      simp only [out] at hoo hoa hoi hS1
      subst hoo
      simp only
      generalize cache.step cs (.recv k v) = pr at hro hri hS1
      obtain ⟨cs1, or⟩ := pr
      simp only at hro hri hS1
      subst hro
      simp only [out]
      obtain ⟨ht1, ht2⟩ := proxyTouch_ok Cc max cs1 b k v.length hri
      generalize proxyTouch cache max cs1 b k v.length = pt at ht1 ht2
      obtain ⟨cs2, b2⟩ := pt
      exact ⟨trivial, hoa, hoi, ht1, ht2.trans hS1⟩
    | rm k =>
      obtain ⟨hoo, hoa, hoi⟩ := Ro.step_ok os (.rm k) hR trivial
      obtain ⟨hro, hrs⟩ := Cc.rm_ok cs k hC
      have hri := Cc.step_inv cs (.rm k) hC trivial
      have hS1 : Sub (Cc.abs (cache.step cs (.rm k)).1) (Ro.abs (origin.step os (.rm k)).1) := by
        rw [hoa]; exact hrs.trans (sub_del_del k (Cc.good cs hC).1 hGo.1 hS)
      clear hrs
      simp only [proxyImpl]
      generalize origin.step os (.rm k) = po at hoo hoa hoi hS1
      obtain ⟨os1, oo⟩ := po
      generalize cache.step cs (.rm k) = pr at hro hri hS1
      obtain ⟨cs1, or⟩ := pr
      simp only [out] at hoo hoa hoi hS1 hro hri
      subst hoo; subst hro
      simp only [out]
      exact ⟨trivial, hoa, hoi, hri, hS1⟩
    | enum after limit =>
      obtain ⟨hoo, hoa, hoi⟩ := Ro.step_ok os (.enum after limit) hR trivial
      refine ⟨hoo, hoa, hoi, hC, ?_⟩
      show Sub (Cc.abs cs) (Ro.abs (origin.step os (.enum after limit)).1)
      rw [hoa]; exact hS

end Pk.Stores
