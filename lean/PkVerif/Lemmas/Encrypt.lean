import PkVerif.Model.Encrypt
/-!
# Lemmas for the encrypt store model (C11)

* the meta text format round-trips (`parseMeta_fmtMeta`, `linesOf_encrypt`)
* `setAll` under consistent rows
* membership facts of the `container/heap` model and the generic invariant of `recordMeta`
-/
namespace Pk.Encrypt
open Pk Pk.SMap

/-! ## decimal -/

theorem parseDigits_append (a : Nat) (xs ys : Bytes) :
    parseDigits a (xs ++ ys) = (parseDigits a xs).bind (fun v => parseDigits v ys) := by
  induction xs generalizing a with
  | nil => simp [parseDigits]
  | cons x xs ih =>
    simp only [List.cons_append, parseDigits]
    split
    · exact ih _
    · simp

theorem decEncAux_spec (fuel n : Nat) (h : n < fuel) (acc : Bytes) :
    ∃ ds, decEncAux fuel n acc = ds ++ acc ∧ ds ≠ [] ∧ (∀ d ∈ ds, isDigit d = true) ∧
      ∀ a, parseDigits a ds = some (a * 10 ^ ds.length + n) := by
  induction fuel generalizing n acc with
  | zero => omega
  | succ f ih =>
    unfold decEncAux
    by_cases hn : n < 10
    · refine ⟨[48 + n], by simp [hn], by simp, ?_, ?_⟩
      · intro d hd
        simp at hd; subst hd
        simp [isDigit]; omega
      · intro a
        have : isDigit (48 + n) = true := by simp [isDigit]; omega
        simp [parseDigits, this]
    · obtain ⟨ds', h1, _, h3, h4⟩ := ih (n / 10) (by omega) ((48 + n % 10) :: acc)
      refine ⟨ds' ++ [48 + n % 10], by simp [hn, h1], by simp, ?_, ?_⟩
      · intro d hd
        rcases List.mem_append.mp hd with hd | hd
        · exact h3 d hd
        · simp at hd; subst hd
          simp [isDigit]; omega
      · intro a
        have hd : isDigit (48 + n % 10) = true := by simp [isDigit]; omega
        rw [parseDigits_append, h4 a]
        simp only [Option.bind_some, parseDigits, hd, if_true, List.length_append, List.length_cons,
          List.length_nil, Nat.pow_succ]
        congr 1
        have e : a * (10 ^ ds'.length * 10) = (a * 10 ^ ds'.length) * 10 := by
          rw [Nat.mul_assoc]
        rw [e]
        generalize a * 10 ^ ds'.length = X
        omega

theorem decEnc_digits (n : Nat) : ∀ d ∈ decEnc n, isDigit d = true := by
  obtain ⟨ds, h1, _, h3, _⟩ := decEncAux_spec (n + 1) n (by omega) []
  unfold decEnc; rw [h1]; simpa using h3

theorem decEnc_ne_nil (n : Nat) : decEnc n ≠ [] := by
  obtain ⟨ds, h1, h2, _, _⟩ := decEncAux_spec (n + 1) n (by omega) []
  unfold decEnc; rw [h1]; simpa using h2

theorem parseDigits_decEnc (n : Nat) : parseDigits 0 (decEnc n) = some n := by
  obtain ⟨ds, h1, _, _, h4⟩ := decEncAux_spec (n + 1) n (by omega) []
  unfold decEnc; rw [h1]; simpa using h4 0

theorem parseUint32_decEnc (n : Nat) (h : n < 4294967296) : parseUint32 (decEnc n) = some n := by
  unfold parseUint32
  have := decEnc_ne_nil n
  cases hd : decEnc n with
  | nil => exact absurd hd this
  | cons x xs => rw [← hd, parseDigits_decEnc]; simp [h, this]

theorem decEnc_no (c : Nat) (hc : isDigit c = false) (n : Nat) : c ∉ decEnc n := by
  intro h
  have := decEnc_digits n c h
  rw [hc] at this; cases this

/-! ## strings.Split -/

theorem splitOn_ne_nil (sep : Nat) (s : Bytes) : splitOn sep s ≠ [] := by
  induction s with
  | nil => simp [splitOn]
  | cons c cs ih =>
    simp only [splitOn]
    split
    · simp
    · split
      · simp
      · simp

theorem splitOn_nosep (sep : Nat) (a : Bytes) (h : sep ∉ a) : splitOn sep a = [a] := by
  induction a with
  | nil => rfl
  | cons c cs ih =>
    have hc : c ≠ sep := by intro e; subst e; simp at h
    have hcs : sep ∉ cs := by intro e; exact h (by simp [e])
    simp [splitOn, hc, ih hcs]

theorem splitOn_append (sep : Nat) (a b : Bytes) (h : sep ∉ a) :
    splitOn sep (a ++ sep :: b) = a :: splitOn sep b := by
  induction a with
  | nil => simp [splitOn]
  | cons c cs ih =>
    have hc : c ≠ sep := by intro e; subst e; simp at h
    have hcs : sep ∉ cs := by intro e; exact h (by simp [e])
    simp [splitOn, hc, ih hcs]

/-! ## the meta text format -/

/-- a byte string without `/` and newline -/
def NoSep (b : Bytes) : Prop := 47 ∉ b ∧ 10 ∉ b

/-- a line `plain ↦ size/enc` as ReceiveBlob and makePackedMetaBlob write them -/
def GoodLine (P : Params) (pv : Bytes × Bytes) : Prop :=
  P.parseKnown pv.1 = true ∧ NoSep pv.1 ∧ ∃ a b, pv.2 = a ++ 47 :: b ∧ NoSep a ∧ NoSep b

theorem headerLine_no10 : 10 ∉ headerLine := by decide

theorem parseLine_good (P : Params) (pv : Bytes × Bytes) (h : GoodLine P pv) :
    parseLine P (pv.1 ++ 47 :: pv.2) = some pv := by
  obtain ⟨hk, hp, a, b, hv, ha, hb⟩ := h
  unfold parseLine
  rw [splitOn_append 47 _ _ hp.1, hv, splitOn_append 47 _ _ ha.1, splitOn_nosep 47 _ hb.1]
  simp only [hk, if_true]
  rw [← hv]

theorem line_no10 (P : Params) (pv : Bytes × Bytes) (h : GoodLine P pv) : 10 ∉ pv.1 ++ 47 :: pv.2 := by
  obtain ⟨_, hp, a, b, hv, ha, hb⟩ := h
  rw [hv]
  intro hm
  simp only [List.mem_append, List.mem_cons] at hm
  rcases hm with h1 | h1 | h1 | h1 | h1
  · exact hp.2 h1
  · cases h1
  · exact ha.2 h1
  · cases h1
  · exact hb.2 h1

theorem metaLine_eq (pv : Bytes × Bytes) : metaLine pv = (pv.1 ++ 47 :: pv.2) ++ 10 :: [] := by
  simp [metaLine]

theorem splitOn_lines (P : Params) (ls : List (Bytes × Bytes)) (h : ∀ pv ∈ ls, GoodLine P pv) :
    splitOn 10 ((ls.map metaLine).flatten) = ls.map (fun pv => pv.1 ++ 47 :: pv.2) ++ [[]] := by
  induction ls with
  | nil => rfl
  | cons pv rest ih =>
    have h1 := line_no10 P pv (h pv (by simp))
    have ih' := ih (fun q hq => h q (by simp [hq]))
    have e : (List.map metaLine (pv :: rest)).flatten =
        (pv.1 ++ 47 :: pv.2) ++ 10 :: (List.map metaLine rest).flatten := by
      simp [metaLine]
    rw [e, splitOn_append 10 _ _ h1, ih']
    simp

theorem parseAll_good (P : Params) (ls : List (Bytes × Bytes)) (h : ∀ pv ∈ ls, GoodLine P pv) :
    parseAll P (ls.map (fun pv => pv.1 ++ 47 :: pv.2)) = some ls := by
  induction ls with
  | nil => rfl
  | cons pv rest ih =>
    simp only [List.map_cons, parseAll, parseLine_good P pv (h pv (by simp)),
      ih (fun q hq => h q (by simp [hq]))]

theorem bodyLines_fmtMeta (P : Params) (ls : List (Bytes × Bytes)) (h : ∀ pv ∈ ls, GoodLine P pv) :
    bodyLines (fmtMeta ls) = some (ls.map (fun pv => pv.1 ++ 47 :: pv.2), []) := by
  unfold bodyLines fmtMeta
  rw [splitOn_append 10 _ _ headerLine_no10, splitOn_lines P ls h]
  cases hl : ls.map (fun pv => pv.1 ++ 47 :: pv.2) ++ [[]] with
  | nil => simp at hl
  | cons x xs =>
    simp only [if_true]
    rw [← hl]
    simp

/-- the format round-trips: what ReceiveBlob / makePackedMetaBlob write, the start-up scan reads back -/
theorem parseMeta_fmtMeta (P : Params) (ls : List (Bytes × Bytes)) (h : ∀ pv ∈ ls, GoodLine P pv) :
    parseMeta P (fmtMeta ls) = some ls := by
  unfold parseMeta
  rw [bodyLines_fmtMeta P ls h]
  exact parseAll_good P ls h

theorem decrypt_encrypt (P : Params) (r : Nat) (t : Bytes) : decryptBlob P (encryptBlob P r t) = some t := by
  simp [decryptBlob, encryptBlob, P.A.dec_enc]

theorem linesOf_encrypt (P : Params) (r : Nat) (ls : List (Bytes × Bytes)) (h : ∀ pv ∈ ls, GoodLine P pv) :
    linesOf P (encryptBlob P r (fmtMeta ls)) = some ls := by
  simp [linesOf, decrypt_encrypt, parseMeta_fmtMeta P ls h]

/-- whatever decrypts is `version ‖ enc key r plaintext` for some randomness (the idealised integrity
law, lifted to the blob format) -/
theorem decrypt_some (P : Params) (c t : Bytes) (h : decryptBlob P c = some t) :
    ∃ r, c = encryptBlob P r t := by
  cases c with
  | nil => simp [decryptBlob] at h
  | cons v rest =>
    simp only [decryptBlob] at h
    split at h
    · rename_i hv
      obtain ⟨r, hr⟩ := P.A.integrity _ _ _ h
      exact ⟨r, by simp [encryptBlob, hv, hr]⟩
    · cases h

/-! ## processEncryptedMetaBlob in terms of `linesOf` -/

theorem processLines_ok (P : Params) (idx : SMap Bytes) (acc : List Bytes) (ls : List Bytes)
    (pvs : List (Bytes × Bytes)) (h : parseAll P ls = some pvs) :
    processLines P idx acc ls = (setAll pvs idx, some (acc ++ pvs.map (·.1))) := by
  induction ls generalizing idx acc pvs with
  | nil => simp [parseAll] at h; subst h; simp [processLines, setAll]
  | cons l rest ih =>
    simp only [parseAll] at h
    cases hl : parseLine P l with
    | none => simp [hl] at h
    | some pv =>
      cases hr : parseAll P rest with
      | none => simp [hl, hr] at h
      | some r =>
        simp only [hl, hr] at h
        injection h with h; subst h
        simp only [processLines, hl, ih _ _ _ hr, setAll, List.foldl_cons, List.map_cons,
          List.append_assoc, List.cons_append, List.nil_append]

theorem process_of_linesOf (P : Params) (idx : SMap Bytes) (dat : Bytes) (pvs : List (Bytes × Bytes))
    (h : linesOf P dat = some pvs) :
    processEncryptedMetaBlob P idx dat = (setAll pvs idx, some (pvs.map (·.1))) := by
  unfold linesOf at h
  cases hd : decryptBlob P dat with
  | none => simp [hd] at h
  | some text =>
    simp only [hd, Option.bind_some] at h
    unfold parseMeta at h
    unfold processEncryptedMetaBlob
    simp only [hd]
    cases hb : bodyLines text with
    | none => simp [hb] at h
    | some lt =>
      obtain ⟨ls, tr⟩ := lt
      cases tr with
      | nil =>
        simp only [hb] at h
        simp [processLines_ok P idx [] ls pvs h]
      | cons x xs => simp [hb] at h

/-! ## `setAll` -/

theorem kasc_setAll (ls : List (Bytes × Bytes)) (idx : SMap Bytes) (h : KAsc idx) : KAsc (setAll ls idx) := by
  induction ls generalizing idx with
  | nil => exact h
  | cons pv rest ih => exact ih _ (kasc_ins _ _ h)

/-- rows that agree with a function `F` stay inside `F`, old rows survive, and every listed row is set -/
theorem get_setAll (F : Bytes → Option Bytes) (ls : List (Bytes × Bytes)) (idx : SMap Bytes)
    (hls : ∀ pv ∈ ls, F pv.1 = some pv.2) (hidx : ∀ p v, get idx p = some v → F p = some v) :
    (∀ p v, get (setAll ls idx) p = some v → F p = some v) ∧
    (∀ p v, get idx p = some v → get (setAll ls idx) p = some v) ∧
    (∀ pv ∈ ls, get (setAll ls idx) pv.1 = some pv.2) := by
  induction ls generalizing idx with
  | nil => exact ⟨hidx, fun _ _ h => h, by intro pv h; cases h⟩
  | cons pv rest ih =>
    have hF := hls pv (by simp)
    have hidx' : ∀ p v, get (ins pv.1 pv.2 idx) p = some v → F p = some v := by
      intro p v hg
      rw [get_ins] at hg
      by_cases hp : p = pv.1
      · simp only [hp, if_true] at hg; injection hg with hg; subst hg; rw [hp]; exact hF
      · simp only [hp, if_false] at hg; exact hidx p v hg
    obtain ⟨i1, i2, i3⟩ := ih (ins pv.1 pv.2 idx) (fun q hq => hls q (by simp [hq])) hidx'
    refine ⟨i1, ?_, ?_⟩
    · intro p v hg
      apply i2
      rw [get_ins]
      by_cases hp : p = pv.1
      · simp only [hp, if_true]
        have := hidx p v hg
        rw [hp, hF] at this; exact this
      · simp only [hp, if_false]; exact hg
    · intro q hq
      rcases List.mem_cons.mp hq with hq | hq
      · subst hq
        apply i2
        rw [get_ins]; simp
      · exact i3 q hq

/-! ## the heap: membership -/

theorem mem_swap {α : Type} (l : List α) (i j : Nat) (x : α) (h : x ∈ swap l i j) : x ∈ l := by
  unfold swap at h
  split at h
  · rename_i a b ha hb
    have ha' : a ∈ l := List.mem_of_getElem? ha
    have hb' : b ∈ l := List.mem_of_getElem? hb
    rcases List.mem_or_eq_of_mem_set h with h | h
    · rcases List.mem_or_eq_of_mem_set h with h | h
      · exact h
      · rw [h]; exact hb'
    · rw [h]; exact ha'
  · exact h

theorem mem_up (fuel : Nat) (h : List MetaBlob) (j : Nat) (x : MetaBlob) (hx : x ∈ up fuel h j) : x ∈ h := by
  induction fuel generalizing h j with
  | zero => exact hx
  | succ f ih =>
    simp only [up] at hx
    split at hx
    · exact hx
    · exact mem_swap _ _ _ _ (ih _ _ hx)

theorem mem_down (fuel : Nat) (h : List MetaBlob) (i n : Nat) (x : MetaBlob) (hx : x ∈ down fuel h i n) : x ∈ h := by
  induction fuel generalizing h i with
  | zero => exact hx
  | succ f ih =>
    simp only [down] at hx
    split at hx
    · exact hx
    · split at hx
      · split at hx
        · exact hx
        · exact mem_swap _ _ _ _ (ih _ _ hx)
      · split at hx
        · exact hx
        · exact mem_swap _ _ _ _ (ih _ _ hx)

theorem mem_push (h : List MetaBlob) (a x : MetaBlob) (hx : x ∈ push h a) : x ∈ h ∨ x = a := by
  have := mem_up _ _ _ _ hx
  simpa using this

theorem mem_pop (h : List MetaBlob) (m : MetaBlob) (h' : List MetaBlob) (hp : pop h = some (m, h')) :
    m ∈ h ∧ ∀ x ∈ h', x ∈ h := by
  unfold pop at hp
  simp only at hp
  split at hp
  · cases hp
  · rename_i m' hm
    injection hp with hp
    injection hp with h1 h2
    subst h1; subst h2
    have hsub : ∀ x ∈ down h.length (swap h 0 (h.length - 1)) 0 (h.length - 1), x ∈ h :=
      fun x hx => mem_swap _ _ _ _ (mem_down _ _ _ _ _ hx)
    refine ⟨hsub _ (List.mem_of_getLast? hm), ?_⟩
    intro x hx
    exact hsub x (List.dropLast_subset _ hx)

/-! ## recordMeta keeps any invariant of the form "`T br plains`, monotone in `plains`" -/

section record
variable (P : Params) (T : Bytes → List Bytes → Prop)
  (mono : ∀ n pl pl', T n pl → (∀ p ∈ pl, p ∈ pl') → T n pl')
include mono

theorem compactLoop_inv (fuel : Nat) (h : List MetaBlob) (pl td : List Bytes)
    (js : List (List Bytes × List Bytes))
    (hh : ∀ e ∈ h, T e.br e.plains) (hacc : ∀ n ∈ td, T n pl)
    (hjs : ∀ j ∈ js, ∀ n ∈ j.2, T n j.1) :
    (∀ e ∈ (compactLoop P fuel h pl td js).1, T e.br e.plains) ∧
    (∀ n ∈ (compactLoop P fuel h pl td js).2.2.1, T n (compactLoop P fuel h pl td js).2.1) ∧
    (∀ j ∈ (compactLoop P fuel h pl td js).2.2.2, ∀ n ∈ j.2, T n j.1) := by
  induction fuel generalizing h pl td js with
  | zero => exact ⟨hh, hacc, hjs⟩
  | succ f ih =>
    simp only [compactLoop]
    cases hp : pop h with
    | none => exact ⟨hh, hacc, hjs⟩
    | some mh =>
      obtain ⟨m, h'⟩ := mh
      obtain ⟨hm, hsub⟩ := mem_pop h m h' hp
      have hh' : ∀ e ∈ h', T e.br e.plains := fun e he => hh e (hsub e he)
      have hacc' : ∀ n ∈ td ++ [m.br], T n (pl ++ m.plains) := by
        intro n hn
        rcases List.mem_append.mp hn with hn | hn
        · exact mono n pl _ (hacc n hn) (fun p hp => by simp [hp])
        · simp at hn; subst hn
          exact mono _ _ _ (hh m hm) (fun p hp => by simp [hp])
      simp only
      split
      · apply ih h' [] [] _ hh' (by intro n hn; cases hn)
        intro j hj
        rcases List.mem_append.mp hj with hj | hj
        · exact hjs j hj
        · simp at hj; subst hj; exact hacc'
      · exact ih h' _ _ js hh' hacc' hjs

theorem recordMeta_inv (heap : List MetaBlob) (b : MetaBlob)
    (hh : ∀ e ∈ heap, T e.br e.plains) (hb : T b.br b.plains) :
    (∀ e ∈ (recordMeta P heap b).1, T e.br e.plains) ∧
    (∀ j ∈ (recordMeta P heap b).2, ∀ n ∈ j.2, T n j.1) := by
  unfold recordMeta
  split
  · exact ⟨hh, by intro j hj; cases hj⟩
  · have hpush : ∀ e ∈ push heap b, T e.br e.plains := by
      intro e he
      rcases mem_push _ _ _ he with he | he
      · exact hh e he
      · subst he; exact hb
    simp only
    split
    · obtain ⟨c1, c2, c3⟩ := compactLoop_inv P T mono (push heap b).length (push heap b) [] [] [] hpush
        (by intro n hn; cases hn) (by intro j hj; cases hj)
      generalize compactLoop P (push heap b).length (push heap b) [] [] [] = res at c1 c2 c3
      obtain ⟨h', pl, td, js⟩ := res
      simp only at c1 c2 c3 ⊢
      split
      · exact ⟨c1, c3⟩
      · rename_i x
        refine ⟨?_, c3⟩
        intro e he
        rcases mem_push _ _ _ he with he | he
        · exact c1 e he
        · subst he; exact c2 x (by simp)
      · refine ⟨c1, ?_⟩
        intro j hj
        rcases List.mem_append.mp hj with hj | hj
        · exact c3 j hj
        · simp at hj; subst hj; exact c2
    · exact ⟨hpush, by intro j hj; cases hj⟩

end record

end Pk.Encrypt
