import PkVerif.Spec.Faults
import PkVerif.Lemmas.RefProxy
/-!
C13 for proxycache: the fault-tolerant cache contract `FCaches`, and proxycache over ANY
fault-tolerant origin and ANY such cache is fault-tolerant (`proxy_fstep`, `proxyFRefines`).
Finding F-C13-4 (fixed): the former RemoveBlobs ran the cache's and the origin's removal in
parallel; `proxyParallelRmImpl` keeps that behaviour and
`proxy_failed_cache_remove_counterexample` / `proxy_failed_cache_remove_not_FRefines` show what
went wrong when the cache's removal failed without effect while the origin's took effect.
-/
namespace Pk.RefMap
open Pk Pk.SMap

/-- what a cache may at most hold after `op`, given it held `m` before -/
def grow (m : SMap Bytes) : Op → SMap Bytes
  | .recv k v => ins k v m
  | _ => m

/-- `Caches` for a cache whose calls may fail: any call may answer anything (in particular `.err`),
but the invariant is kept, the contents stay within what a faithful map would hold, a positive read
answer is correct for the contents, a remove that answered `.ok` did remove, and in `Quiet` states
every answer is the faithful one. -/
structure FCaches (content : Bytes → Bytes) (I : Impl) where
  abs : I.σ → SMap Bytes
  Inv : I.σ → Prop
  Quiet : I.σ → Prop
  init_inv : Inv I.init
  init_abs : abs I.init = []
  good : ∀ s, Inv s → Good content (abs s)
  step_inv : ∀ s op, Inv s → op.WK content → Inv (I.step s op).1
  step_sub : ∀ s op, Inv s → op.WK content → Sub (abs (I.step s op).1) (grow (abs s) op)
  fetch_ok : ∀ s k v, Inv s → (I.step s (.fetch k)).2 = .bytes v → get (abs s) k = some v
  stat_ok : ∀ s k n, Inv s → (I.step s (.stat k)).2 = .sized n →
    ∃ v, get (abs s) k = some v ∧ n = v.length
  rm_ok : ∀ s k, Inv s → (I.step s (.rm k)).2 = .ok → Sub (abs (I.step s (.rm k)).1) (del k (abs s))
  quiet_step : ∀ s op, Inv s → Quiet s → op.WK content →
    (I.step s op).2 = out (abs s) op ∧ Quiet (I.step s op).1

/-- a remove call always takes effect, whatever it answers (its failures are of the "answer lost"
kind only) -/
def FCaches.RmSure {content : Bytes → Bytes} {I : Impl} (C : FCaches content I) : Prop :=
  ∀ s k, C.Inv s → Sub (C.abs (I.step s (.rm k)).1) (del k (C.abs s))

theorem out_ne_err (m : SMap Bytes) (op : Op) : out m op ≠ .err := by
  cases op <;> simp only [out] <;> (try split) <;> intro h <;> cases h

theorem out_fetch_bytes {m : SMap Bytes} {k v : Bytes} (h : out m (.fetch k) = .bytes v) :
    get m k = some v := by
  simp only [out] at h
  split at h
  · injection h with h; subst h; assumption
  · cases h

theorem out_stat_sized {m : SMap Bytes} {k : Bytes} {n : Nat} (h : out m (.stat k) = .sized n) :
    ∃ v, get m k = some v ∧ n = v.length := by
  simp only [out] at h
  split at h
  · injection h with h; exact ⟨_, by assumption, h.symm⟩
  · cases h

/-- a good map is within itself plus a well-keyed blob -/
theorem sub_ins_self {content : Bytes → Bytes} {m : SMap Bytes} (hm : Good content m) (k v : Bytes)
    (hop : (Op.recv k v).WK content) : Sub m (ins k v m) := by
  intro x w hx
  rw [get_ins]
  by_cases e : x = k
  · subst e; simp only [if_true]; rw [(hm.2 x w hx).1, hop.1]
  · simp only [e, if_false]; exact hx

theorem sub_grow {content : Bytes → Bytes} {m : SMap Bytes} (hm : Good content m) (op : Op)
    (hop : op.WK content) : Sub m (grow m op) := by
  cases op with
  | recv k v => exact sub_ins_self hm k v hop
  | _ => exact Sub.refl _

section CachesFacts
variable {content : Bytes → Bytes} {I : Impl} (C : Caches content I)

theorem Caches.step_sub (s : I.σ) (op : Op) (h : C.Inv s) (hop : op.WK content) :
    Sub (C.abs (I.step s op).1) (grow (C.abs s) op) := by
  cases op with
  | recv k v => exact (C.recv_ok s k v h hop).2
  | rm k =>
    intro x w hx
    have := (C.rm_ok s k h).2 x w hx
    rw [get_del k (C.good s h).1] at this
    by_cases e : x = k
    · simp [e] at this
    · simp only [e, if_false] at this; exact this
  | fetch k => exact (C.read_ok s (.fetch k) h trivial).2
  | stat k => exact (C.read_ok s (.stat k) h trivial).2
  | enum a l => exact (C.read_ok s (.enum a l) h trivial).2

theorem Caches.step_out (s : I.σ) (op : Op) (h : C.Inv s) (hop : op.WK content) :
    (I.step s op).2 = out (C.abs s) op := by
  cases op with
  | recv k v => exact (C.recv_ok s k v h hop).1
  | rm k => exact (C.rm_ok s k h).1
  | fetch k => exact (C.read_ok s (.fetch k) h trivial).1
  | stat k => exact (C.read_ok s (.stat k) h trivial).1
  | enum a l => exact (C.read_ok s (.enum a l) h trivial).1

end CachesFacts

/-- a cache that never fails is in particular a fault-tolerant cache -/
def Caches.toF {content : Bytes → Bytes} {I : Impl} (C : Caches content I) : FCaches content I where
  abs := C.abs
  Inv := C.Inv
  Quiet := fun _ => True
  init_inv := C.init_inv
  init_abs := C.init_abs
  good := C.good
  step_inv := C.step_inv
  step_sub := C.step_sub
  fetch_ok := fun s k _ h ho => out_fetch_bytes ((C.step_out s (.fetch k) h trivial).symm.trans ho)
  stat_ok := fun s k _ h ho => out_stat_sized ((C.step_out s (.stat k) h trivial).symm.trans ho)
  rm_ok := fun s k h _ => (C.rm_ok s k h).2
  quiet_step := fun s op h _ hop => ⟨C.step_out s op h hop, trivial⟩

theorem Caches.toF_rmSure {content : Bytes → Bytes} {I : Impl} (C : Caches content I) :
    C.toF.RmSure := fun s k h => (C.rm_ok s k h).2

/-- a cache behind a failure schedule whose faults all satisfy `allowed` -/
def faultLeafFCaches {content : Bytes → Bytes} {I : Impl} (C : Caches content I) (sched : List Fault)
    (allowed : Fault → Prop) (hs : ∀ f ∈ sched, allowed f) : FCaches content (faultLeaf I sched) where
  abs := fun s => C.abs s.1
  Inv := fun s => C.Inv s.1 ∧ ∀ f ∈ s.2, allowed f
  Quiet := fun s => ∀ f ∈ s.2, f = Fault.none
  init_inv := ⟨C.init_inv, hs⟩
  init_abs := C.init_abs
  good := fun s h => C.good s.1 h.1
  step_inv := by
    rintro ⟨s, sc⟩ op ⟨h, ha⟩ hop
    have hi := C.step_inv s op h hop
    cases sc with
    | nil => exact ⟨hi, ha⟩
    | cons f rest =>
      have ha' : ∀ g ∈ rest, allowed g := fun g hg => ha g (List.mem_cons_of_mem _ hg)
      cases f with
      | none => exact ⟨hi, ha'⟩
      | before => exact ⟨h, ha'⟩
      | after => exact ⟨hi, ha'⟩
  step_sub := by
    rintro ⟨s, sc⟩ op ⟨h, _⟩ hop
    have hs := C.step_sub s op h hop
    cases sc with
    | nil => exact hs
    | cons f rest =>
      cases f with
      | none => exact hs
      | before => exact sub_grow (C.good s h) op hop
      | after => exact hs
  fetch_ok := by
    rintro ⟨s, sc⟩ k v ⟨h, _⟩ ho
    have hx := C.step_out s (.fetch k) h trivial
    cases sc with
    | nil => exact out_fetch_bytes (hx.symm.trans ho)
    | cons f rest =>
      cases f with
      | none => exact out_fetch_bytes (hx.symm.trans ho)
      | before => cases ho
      | after => cases ho
  stat_ok := by
    rintro ⟨s, sc⟩ k n ⟨h, _⟩ ho
    have hx := C.step_out s (.stat k) h trivial
    cases sc with
    | nil => exact out_stat_sized (hx.symm.trans ho)
    | cons f rest =>
      cases f with
      | none => exact out_stat_sized (hx.symm.trans ho)
      | before => cases ho
      | after => cases ho
  rm_ok := by
    rintro ⟨s, sc⟩ k ⟨h, _⟩ ho
    have hx := (C.rm_ok s k h).2
    cases sc with
    | nil => exact hx
    | cons f rest =>
      cases f with
      | none => exact hx
      | before => cases ho
      | after => cases ho
  quiet_step := by
    rintro ⟨s, sc⟩ op ⟨h, _⟩ hq hop
    have hx := C.step_out s op h hop
    cases sc with
    | nil => exact ⟨hx, by intro f hf; cases hf⟩
    | cons f rest =>
      have hf : f = Fault.none := hq f (by simp)
      subst hf
      exact ⟨hx, fun g hg => hq g (List.mem_cons_of_mem _ hg)⟩

/-- every kind of failure, at any call -/
def faultLeafFCachesAny {content : Bytes → Bytes} {I : Impl} (C : Caches content I)
    (sched : List Fault) : FCaches content (faultLeaf I sched) :=
  faultLeafFCaches C sched (fun _ => True) (fun _ _ => trivial)

/-- failures that lose the answer only (`Fault.after`): the call itself always takes effect -/
def faultLeafFCachesNB {content : Bytes → Bytes} {I : Impl} (C : Caches content I)
    (sched : List Fault) (hs : ∀ f ∈ sched, f ≠ Fault.before) : FCaches content (faultLeaf I sched) :=
  faultLeafFCaches C sched (· ≠ Fault.before) hs

theorem faultLeafFCachesNB_rmSure {content : Bytes → Bytes} {I : Impl} (C : Caches content I)
    (sched : List Fault) (hs : ∀ f ∈ sched, f ≠ Fault.before) :
    (faultLeafFCachesNB C sched hs).RmSure := by
  rintro ⟨s, sc⟩ k ⟨h, ha⟩
  have hx := (C.rm_ok s k h).2
  cases sc with
  | nil => exact hx
  | cons f rest =>
    cases f with
    | none => exact hx
    | before => exact absurd rfl (ha Fault.before (by simp))
    | after => exact hx

end Pk.RefMap

namespace Pk.Stores
open Pk Pk.SMap Pk.RefMap

/-! ### the sub-store calls, each summarised once -/

/-- an origin call: the invariant is kept, and the call is either exact (and keeps quiet states
quiet) or answered `.err` from a state that was not quiet -/
theorem ostep {content : Bytes → Bytes} {origin : Impl} (Fo : FRefines content origin)
    (os : origin.σ) (op : Op) (h : Fo.Inv os) (hop : op.WK content) :
    Fo.Inv (origin.step os op).1 ∧
    (((origin.step os op).2 = out (Fo.abs os) op ∧
        Fo.abs (origin.step os op).1 = next (Fo.abs os) op ∧
        (Fo.Quiet os → Fo.Quiet (origin.step os op).1)) ∨
     ((origin.step os op).2 = .err ∧
        (Fo.abs (origin.step os op).1 = Fo.abs os ∨ Fo.abs (origin.step os op).1 = next (Fo.abs os) op) ∧
        ¬ Fo.Quiet os)) := by
  obtain ⟨hi, hs⟩ := Fo.step_ok os op h hop
  refine ⟨hi, ?_⟩
  rcases hs with ⟨ho, ha⟩ | ⟨ho, ha⟩
  · exact Or.inl ⟨ho, ha, fun hq => (Fo.quiet_step os op h hq hop).2.2⟩
  · refine Or.inr ⟨ho, ha, fun hq => ?_⟩
    have := (Fo.quiet_step os op h hq hop).1
    rw [ho] at this
    exact out_ne_err _ _ this.symm

/-- the two shapes of a combinator step's proof obligation -/
theorem mk_exact {abs abs' : SMap Bytes} {o : Out} {op : Op} {I Q Q' : Prop} (hi : I)
    (ho : o = out abs op) (ha : abs' = next abs op) (hq : Q → Q') :
    I ∧ StepOK abs abs' o op ∧ (Q → o = out abs op ∧ abs' = next abs op ∧ Q') :=
  ⟨hi, Or.inl ⟨ho, ha⟩, fun q => ⟨ho, ha, hq q⟩⟩

theorem mk_err {abs abs' : SMap Bytes} {o : Out} {op : Op} {I Q Q' : Prop} (hi : I)
    (ho : o = .err) (ha : abs' = abs ∨ abs' = next abs op) (hq : ¬ Q) :
    I ∧ StepOK abs abs' o op ∧ (Q → o = out abs op ∧ abs' = next abs op ∧ Q') :=
  ⟨hi, Or.inr ⟨ho, ha⟩, fun q => absurd q hq⟩

section Proxy
variable {content : Bytes → Bytes} {origin cache : Impl}
  (Fo : FRefines content origin) (Cc : FCaches content cache) (max : Nat)

/-- removeOldest in a loop, with removals that may fail: the cache invariant is kept, its contents
only shrink, and a quiet cache stays quiet -/
theorem fclean_ok : ∀ (fuel : Nat) (cs : cache.σ) (b : ProxyBook), Cc.Inv cs →
    Cc.Inv (proxyClean cache max fuel cs b).1 ∧
    Sub (Cc.abs (proxyClean cache max fuel cs b).1) (Cc.abs cs) ∧
    (Cc.Quiet cs → Cc.Quiet (proxyClean cache max fuel cs b).1)
  | 0, cs, b, h => ⟨h, Sub.refl _, id⟩
  | fuel + 1, cs, b, h => by
    simp only [proxyClean]
    by_cases hb : b.cacheBytes > max
    · simp only [hb, if_true]
      cases b.lru.getLast? with
      | none => exact ⟨h, Sub.refl _, id⟩
      | some p =>
        obtain ⟨k, sz⟩ := p
        simp only
        have hi := Cc.step_inv cs (.rm k) h trivial
        have hs : Sub (Cc.abs (cache.step cs (.rm k)).1) (Cc.abs cs) := Cc.step_sub cs (.rm k) h trivial
        have hq : Cc.Quiet cs → Cc.Quiet (cache.step cs (.rm k)).1 :=
          fun q => (Cc.quiet_step cs (.rm k) h q trivial).2
        generalize cache.step cs (.rm k) = pr at hi hs hq
        obtain ⟨cs', o⟩ := pr
        simp only at hi hs hq
        cases o
        case ok =>
          simp only
          obtain ⟨h1, h2, h3⟩ := fclean_ok fuel cs' _ hi
          exact ⟨h1, h2.trans hs, fun q => h3 (hq q)⟩
        all_goals exact ⟨hi, hs, hq⟩
    · simp only [hb, if_false]; exact ⟨h, Sub.refl _, id⟩

theorem ftouch_ok (cs : cache.σ) (b : ProxyBook) (k : Bytes) (sz : Nat) (h : Cc.Inv cs) :
    Cc.Inv (proxyTouch cache max cs b k sz).1 ∧
    Sub (Cc.abs (proxyTouch cache max cs b k sz).1) (Cc.abs cs) ∧
    (Cc.Quiet cs → Cc.Quiet (proxyTouch cache max cs b k sz).1) := by
  unfold proxyTouch
  split
  · exact ⟨h, Sub.refl _, id⟩
  · exact fclean_ok Cc max _ cs _ h

/-- a cache call: invariant, contents bound, quietness -/
theorem cstep (cs : cache.σ) (op : Op) (h : Cc.Inv cs) (hop : op.WK content) :
    Cc.Inv (cache.step cs op).1 ∧ Sub (Cc.abs (cache.step cs op).1) (grow (Cc.abs cs) op) ∧
    (Cc.Quiet cs → (cache.step cs op).2 = out (Cc.abs cs) op ∧ Cc.Quiet (cache.step cs op).1) :=
  ⟨Cc.step_inv cs op h hop, Cc.step_sub cs op h hop, fun q => Cc.quiet_step cs op h q hop⟩

/-- the proxy invariant: both sub-invariants, and the cache holds only what the origin holds -/
def PInv (s : (proxyImpl origin cache max).σ) : Prop :=
  Fo.Inv s.1 ∧ Cc.Inv s.2.1 ∧ Sub (Cc.abs s.2.1) (Fo.abs s.1)

def PQuiet (s : (proxyImpl origin cache max).σ) : Prop := Fo.Quiet s.1 ∧ Cc.Quiet s.2.1

/-- what a step from `s` with result `r` (new state, answer) has to satisfy -/
def PStepR (s : (proxyImpl origin cache max).σ) (op : Op)
    (r : (proxyImpl origin cache max).σ × Out) : Prop :=
  PInv Fo Cc max r.1 ∧
  StepOK (Fo.abs s.1) (Fo.abs r.1.1) r.2 op ∧
  (PQuiet Fo Cc max s →
    r.2 = out (Fo.abs s.1) op ∧ Fo.abs r.1.1 = next (Fo.abs s.1) op ∧ PQuiet Fo Cc max r.1)

/-- what a proxy step has to satisfy -/
def PStep (s : (proxyImpl origin cache max).σ) (op : Op) : Prop :=
  PStepR Fo Cc max s op ((proxyImpl origin cache max).step s op)

theorem proxy_enum (os : origin.σ) (cs : cache.σ) (b : ProxyBook) (a : Bytes) (l : Nat)
    (hI : PInv Fo Cc max (os, cs, b)) : PStep Fo Cc max (os, cs, b) (.enum a l) := by
  obtain ⟨hR, hC, hS⟩ := hI
  obtain ⟨hoi, hO⟩ := ostep Fo os (.enum a l) hR trivial
  have hsub : ∀ m, Fo.abs (origin.step os (.enum a l)).1 = m → Sub (Cc.abs cs) m → 
      Sub (Cc.abs cs) (Fo.abs (origin.step os (.enum a l)).1) := fun m e h => e ▸ h
  unfold PStep PStepR PInv PQuiet
  simp only [proxyImpl]
  rcases hO with ⟨ho, ha, hq⟩ | ⟨ho, ha, hq⟩
  · exact mk_exact ⟨hoi, hC, hsub _ ha hS⟩ ho ha (fun q => ⟨hq q.1, q.2⟩)
  · refine mk_err ⟨hoi, hC, ?_⟩ ho ha (fun q => hq q.1)
    rcases ha with ha | ha <;> exact hsub _ ha hS

theorem proxy_fetch (os : origin.σ) (cs : cache.σ) (b : ProxyBook) (k : Bytes)
    (hI : PInv Fo Cc max (os, cs, b)) : PStep Fo Cc max (os, cs, b) (.fetch k) := by
  obtain ⟨hR, hC, hS⟩ := hI
  have hGo := Fo.good os hR
  obtain ⟨hci, hcs, hcq⟩ := cstep Cc cs (.fetch k) hC trivial
  have hcf := fun v => Cc.fetch_ok cs k v hC
  obtain ⟨hoi, hO⟩ := ostep Fo os (.fetch k) hR trivial
  unfold PStep PStepR PInv PQuiet
  simp only [proxyImpl]
  generalize cache.step cs (.fetch k) = pc at hci hcs hcq hcf
  obtain ⟨cs1, oc⟩ := pc
  simp only [grow] at hci hcs hcq hcf
  have hS1 : Sub (Cc.abs cs1) (Fo.abs os) := hcs.trans hS
  cases oc
  case bytes v =>
    have hgo := hS k v (hcf v rfl)
    simp only
    obtain ⟨ht1, ht2, ht3⟩ := ftouch_ok Cc max cs1 b k v.length hci
    generalize proxyTouch cache max cs1 b k v.length = pt at ht1 ht2 ht3
    obtain ⟨cs2, b2⟩ := pt
    refine mk_exact ⟨hR, ht1, ht2.trans hS1⟩ ?_ rfl (fun q => ⟨q.1, ht3 (hcq q.2).2⟩)
    simp only [out, hgo]
  all_goals
    simp only
    generalize origin.step os (.fetch k) = po at hoi hO
    obtain ⟨os1, oo⟩ := po
    simp only at hoi hO
    rcases hO with ⟨ho, ha, hq⟩ | ⟨ho, ha, hq⟩
    · have hS2 : Sub (Cc.abs cs1) (Fo.abs os1) := by rw [ha]; exact hS1
      cases hgo : SMap.get (Fo.abs os) k with
      | none =>
        simp only [out, hgo] at ho; subst ho
        simp only
        refine mk_exact ⟨hoi, hci, hS2⟩ ?_ ha (fun q => ⟨hq q.1, (hcq q.2).2⟩)
        simp only [out, hgo]
      | some v =>
        simp only [out, hgo] at ho; subst ho
        simp only
        have hwk : (Op.recv k v).WK content := hGo.2 k v hgo
        obtain ⟨hri, hrs, hrq⟩ := cstep Cc cs1 (.recv k v) hci hwk
        have hS3 : Sub (Cc.abs (cache.step cs1 (.recv k v)).1) (Fo.abs os1) := by
          rw [ha]; exact hrs.trans (sub_ins_of_get hS1 hgo)
        clear hrs
        generalize cache.step cs1 (.recv k v) = pr at hri hS3 hrq
        obtain ⟨cs2, orr⟩ := pr
        simp only at hri hS3 hrq
        cases orr
        case sized n =>
          simp only
          obtain ⟨ht1, ht2, ht3⟩ := ftouch_ok Cc max cs2 b k v.length hri
          generalize proxyTouch cache max cs2 b k v.length = pt at ht1 ht2 ht3
          obtain ⟨cs3, b3⟩ := pt
          refine mk_exact ⟨hoi, ht1, ht2.trans hS3⟩ ?_ ha
            (fun q => ⟨hq q.1, ht3 (hrq (hcq q.2).2).2⟩)
          simp only [out, hgo]
        all_goals
          simp only
          refine mk_exact ⟨hoi, hri, hS3⟩ ?_ ha (fun q => ⟨hq q.1, (hrq (hcq q.2).2).2⟩)
          simp only [out, hgo]
    · subst ho
      simp only
      refine mk_err ⟨hoi, hci, ?_⟩ rfl ha (fun q => hq q.1)
      rcases ha with ha | ha <;> (rw [ha]; exact hS1)

theorem proxy_stat (os : origin.σ) (cs : cache.σ) (b : ProxyBook) (k : Bytes)
    (hI : PInv Fo Cc max (os, cs, b)) : PStep Fo Cc max (os, cs, b) (.stat k) := by
  obtain ⟨hR, hC, hS⟩ := hI
  obtain ⟨hci, hcs, hcq⟩ := cstep Cc cs (.stat k) hC trivial
  have hcf := fun n => Cc.stat_ok cs k n hC
  obtain ⟨hoi, hO⟩ := ostep Fo os (.stat k) hR trivial
  unfold PStep PStepR PInv PQuiet
  simp only [proxyImpl]
  generalize cache.step cs (.stat k) = pc at hci hcs hcq hcf
  obtain ⟨cs1, oc⟩ := pc
  simp only [grow] at hci hcs hcq hcf
  have hS1 : Sub (Cc.abs cs1) (Fo.abs os) := hcs.trans hS
  cases oc
  case sized n =>
    obtain ⟨v, hgc, hn⟩ := hcf n rfl
    subst hn
    have hgo := hS k v hgc
    simp only
    obtain ⟨ht1, ht2, ht3⟩ := ftouch_ok Cc max cs1 b k v.length hci
    generalize proxyTouch cache max cs1 b k v.length = pt at ht1 ht2 ht3
    obtain ⟨cs2, b2⟩ := pt
    refine mk_exact ⟨hR, ht1, ht2.trans hS1⟩ ?_ rfl (fun q => ⟨q.1, ht3 (hcq q.2).2⟩)
    simp only [out, hgo]
  case notExist =>
    simp only
    generalize origin.step os (.stat k) = po at hoi hO
    obtain ⟨os1, oo⟩ := po
    simp only at hoi hO
    rcases hO with ⟨ho, ha, hq⟩ | ⟨ho, ha, hq⟩
    · have hS2 : Sub (Cc.abs cs1) (Fo.abs os1) := by rw [ha]; exact hS1
      cases hgo : SMap.get (Fo.abs os) k with
      | none =>
        simp only [out, hgo] at ho; subst ho
        simp only
        refine mk_exact ⟨hoi, hci, hS2⟩ ?_ ha (fun q => ⟨hq q.1, (hcq q.2).2⟩)
        simp only [out, hgo]
      | some v =>
        simp only [out, hgo] at ho; subst ho
        simp only
        obtain ⟨ht1, ht2, ht3⟩ := ftouch_ok Cc max cs1 b k v.length hci
        generalize proxyTouch cache max cs1 b k v.length = pt at ht1 ht2 ht3
        obtain ⟨cs2, b2⟩ := pt
        refine mk_exact ⟨hoi, ht1, ht2.trans hS2⟩ ?_ ha (fun q => ⟨hq q.1, ht3 (hcq q.2).2⟩)
        simp only [out, hgo]
    · subst ho
      simp only
      refine mk_err ⟨hoi, hci, ?_⟩ rfl ha (fun q => hq q.1)
      rcases ha with ha | ha <;> (rw [ha]; exact hS1)
  all_goals
    simp only
    refine mk_err ⟨hR, hci, hS1⟩ rfl (Or.inl rfl) (fun q => ?_)
    have := (hcq q.2).1
    simp only [out] at this
    split at this <;> cases this

theorem proxy_recv (os : origin.σ) (cs : cache.σ) (b : ProxyBook) (k v : Bytes)
    (hop : (Op.recv k v).WK content)
    (hI : PInv Fo Cc max (os, cs, b)) : PStep Fo Cc max (os, cs, b) (.recv k v) := by
  obtain ⟨hR, hC, hS⟩ := hI
  have hGo := Fo.good os hR
  obtain ⟨hci, hcs, hcq⟩ := cstep Cc cs (.recv k v) hC hop
  obtain ⟨hoi, hO⟩ := ostep Fo os (.recv k v) hR hop
  have hS0 : Sub (Cc.abs cs) (next (Fo.abs os) (.recv k v)) :=
    (sub_ins_self (Cc.good cs hC) k v hop).trans (sub_ins_next hGo hS k v hop)
  have hS1 : Sub (Cc.abs (cache.step cs (.recv k v)).1) (next (Fo.abs os) (.recv k v)) :=
    hcs.trans (sub_ins_next hGo hS k v hop)
  clear hcs
  unfold PStep PStepR PInv PQuiet
  simp only [proxyImpl]
  generalize origin.step os (.recv k v) = po at hoi hO
  obtain ⟨os1, oo⟩ := po
  simp only at hoi hO
  rcases hO with ⟨ho, ha, hq⟩ | ⟨ho, ha, hq⟩
  · simp only [out] at ho; subst ho
    simp only
    generalize cache.step cs (.recv k v) = pr at hci hcq hS1
    obtain ⟨cs1, orr⟩ := pr
    simp only at hci hcq hS1
    cases orr
    case sized n =>
      simp only
      obtain ⟨ht1, ht2, ht3⟩ := ftouch_ok Cc max cs1 b k v.length hci
      generalize proxyTouch cache max cs1 b k v.length = pt at ht1 ht2 ht3
      obtain ⟨cs2, b2⟩ := pt
      exact mk_exact ⟨hoi, ht1, by rw [ha]; exact ht2.trans hS1⟩ rfl ha
        (fun q => ⟨hq q.1, ht3 (hcq q.2).2⟩)
    all_goals
      simp only
      exact mk_exact ⟨hoi, hci, by rw [ha]; exact hS1⟩ rfl ha (fun q => ⟨hq q.1, (hcq q.2).2⟩)
  · subst ho
    simp only
    refine mk_err ⟨hoi, hC, ?_⟩ rfl ha (fun q => hq q.1)
    rcases ha with ha | ha
    · rw [ha]; exact hS
    · rw [ha]; exact hS0

/-- remove (cache first, the origin only if the cache's removal answered `.ok`): a failing cache
removal leaves the origin untouched, so the cache stays within the origin whether or not the failed
removal took effect -/
theorem proxy_rm (os : origin.σ) (cs : cache.σ) (b : ProxyBook) (k : Bytes)
    (hI : PInv Fo Cc max (os, cs, b)) : PStep Fo Cc max (os, cs, b) (.rm k) := by
  obtain ⟨hR, hC, hS⟩ := hI
  have hGo := Fo.good os hR
  have hGc := Cc.good cs hC
  obtain ⟨hci, hcs, hcq⟩ := cstep Cc cs (.rm k) hC trivial
  have hcr := Cc.rm_ok cs k hC
  obtain ⟨hoi, hO⟩ := ostep Fo os (.rm k) hR trivial
  have hdd : Sub (del k (Cc.abs cs)) (del k (Fo.abs os)) := sub_del_del k hGc.1 hGo.1 hS
  have hd : Sub (del k (Cc.abs cs)) (Fo.abs os) := (sub_del_self k hGc.1).trans hS
  unfold PStep PStepR PInv PQuiet
  simp only [proxyImpl]
  generalize cache.step cs (.rm k) = pr at hci hcs hcq hcr
  obtain ⟨cs1, orr⟩ := pr
  simp only [grow, out] at hci hcs hcq hcr
  have hS1 : Sub (Cc.abs cs1) (Fo.abs os) := hcs.trans hS
  cases orr
  case ok =>
    have hs := hcr rfl
    simp only
    generalize origin.step os (.rm k) = po at hoi hO
    obtain ⟨os1, oo⟩ := po
    simp only [next, out] at hoi hO
    rcases hO with ⟨ho, ha, hq⟩ | ⟨ho, ha, hq⟩
    · subst ho
      simp only
      exact mk_exact ⟨hoi, hci, by rw [ha]; exact hs.trans hdd⟩ rfl ha
        (fun q => ⟨hq q.1, (hcq q.2).2⟩)
    · subst ho
      simp only
      refine mk_err ⟨hoi, hci, ?_⟩ rfl ha (fun q => hq q.1)
      rcases ha with ha | ha
      · rw [ha]; exact hs.trans hd
      · rw [ha]; exact hs.trans hdd
  all_goals
    simp only
    refine mk_err ⟨hR, hci, hS1⟩ rfl (Or.inl rfl) (fun q => ?_)
    have := (hcq q.2).1
    cases this

/-- every proxycache step, with any failures in origin and cache, keeps the invariant, is exact or
answers `.err` leaving the before- or after-contents, and is exact from quiet states -/
theorem proxy_fstep (s : (proxyImpl origin cache max).σ) (op : Op) (hop : op.WK content)
    (hI : PInv Fo Cc max s) : PStep Fo Cc max s op := by
  obtain ⟨os, cs, b⟩ := s
  cases op with
  | recv k v => exact proxy_recv Fo Cc max os cs b k v hop hI
  | fetch k => exact proxy_fetch Fo Cc max os cs b k hI
  | stat k => exact proxy_stat Fo Cc max os cs b k hI
  | enum a l => exact proxy_enum Fo Cc max os cs b a l hI
  | rm k => exact proxy_rm Fo Cc max os cs b k hI

end Proxy

/-- C13 for proxycache, at full strength: over ANY origin that may fail (`FRefines`) and ANY cache
that may fail (`FCaches`), proxycache is fault-tolerant.  The abstract map is the origin's; quiet =
origin quiet and cache quiet. -/
def proxyFRefines {content : Bytes → Bytes} {origin cache : Impl} (Fo : FRefines content origin)
    (Cc : FCaches content cache) (max : Nat) : FRefines content (proxyImpl origin cache max) where
  abs := fun s => Fo.abs s.1
  Inv := PInv Fo Cc max
  Quiet := PQuiet Fo Cc max
  init_inv := ⟨Fo.init_inv, Cc.init_inv, by
    show Sub (Cc.abs cache.init) _
    rw [Cc.init_abs]; intro k v h; simp [SMap.get] at h⟩
  init_abs := Fo.init_abs
  good := fun s h => Fo.good s.1 h.1
  step_ok := fun s op h hop =>
    let p := proxy_fstep Fo Cc max s op hop h
    ⟨p.1, p.2.1⟩
  quiet_step := fun s op h hq hop => (proxy_fstep Fo Cc max s op hop h).2.2 hq

/-- instance: a failing memory origin and a failing evicting memory cache, any schedules -/
example (content : Bytes → Bytes) (s1 s2 : List Fault) (cmax max : Nat) :
    FRefines content (proxyImpl (faultLeaf memImpl s1) (faultLeaf (memCacheImpl cmax) s2) max) :=
  proxyFRefines (faultLeafF (memRefines content) s1)
    (faultLeafFCachesAny (memCacheCaches content cmax) s2) max

/-- instance: a proxycache whose cache is itself a failing store that refines the map -/
example (content : Bytes → Bytes) (s1 s2 : List Fault) (max : Nat) :
    FRefines content (proxyImpl (faultLeaf memImpl s1) (faultLeaf memImpl s2) max) :=
  proxyFRefines (faultLeafF (memRefines content) s1)
    (faultLeafFCachesAny (memRefines content).toCaches s2) max

/-! ### finding F-C13-4 (fixed in /repo commit 938eb3a): the former parallel RemoveBlobs

Before the fix RemoveBlobs ran the cache's and the origin's removal in parallel and returned the
first error.  `proxyParallelRmImpl` is proxycache with that remove.  A cache removal that fails
without effect while the origin's takes effect leaves the cache serving a blob the origin no longer
has. -/

/-- proxycache with the former remove: both removals always run -/
def proxyParallelRmImpl (origin cache : Impl) (max : Nat) : Impl where
  σ := origin.σ × cache.σ × ProxyBook
  init := (origin.init, cache.init, ⟨[], 0⟩)
  step := fun (os, cs, b) op =>
    match op with
    | .rm k =>
      match cache.step cs (.rm k), origin.step os (.rm k) with
      | (cs1, .ok), (os1, .ok) => ((os1, cs1, b), .ok)
      | (cs1, _), (os1, _) => ((os1, cs1, b), .err)
    | op => (proxyImpl origin cache max).step (os, cs, b) op

/-- what the parallel remove needed beyond the cache contract: either the cache's removal took
effect (whatever it answered), or the origin's did not -/
theorem proxyParallelRm_rm {content : Bytes → Bytes} {origin cache : Impl}
    (Fo : FRefines content origin) (Cc : FCaches content cache) (max : Nat)
    (os : origin.σ) (cs : cache.σ) (b : ProxyBook) (k : Bytes)
    (hrm : Sub (Cc.abs (cache.step cs (.rm k)).1) (del k (Cc.abs cs)) ∨
      Fo.abs (origin.step os (.rm k)).1 = Fo.abs os)
    (hI : PInv Fo Cc max (os, cs, b)) :
    PStepR Fo Cc max (os, cs, b) (.rm k)
      ((proxyParallelRmImpl origin cache max).step (os, cs, b) (.rm k)) := by
  obtain ⟨hR, hC, hS⟩ := hI
  have hGo := Fo.good os hR
  have hGc := Cc.good cs hC
  obtain ⟨hci, hcs, hcq⟩ := cstep Cc cs (.rm k) hC trivial
  have hcr := Cc.rm_ok cs k hC
  obtain ⟨hoi, hO⟩ := ostep Fo os (.rm k) hR trivial
  have hdd : Sub (del k (Cc.abs cs)) (del k (Fo.abs os)) := sub_del_del k hGc.1 hGo.1 hS
  have hd : Sub (del k (Cc.abs cs)) (Fo.abs os) := (sub_del_self k hGc.1).trans hS
  unfold PStepR PInv PQuiet
  simp only [proxyParallelRmImpl]
  generalize origin.step os (.rm k) = po at hoi hO hrm
  obtain ⟨os1, oo⟩ := po
  generalize cache.step cs (.rm k) = pr at hci hcs hcq hcr hrm
  obtain ⟨cs1, orr⟩ := pr
  simp only [grow, next, out] at hoi hO hci hcs hcq hcr hrm
  have hS1 : Sub (Cc.abs cs1) (Fo.abs os) := hcs.trans hS
  cases orr
  case ok =>
    have hs := hcr rfl
    rcases hO with ⟨ho, ha, hq⟩ | ⟨ho, ha, hq⟩
    · subst ho
      simp only
      exact mk_exact ⟨hoi, hci, by rw [ha]; exact hs.trans hdd⟩ rfl ha
        (fun q => ⟨hq q.1, (hcq q.2).2⟩)
    · subst ho
      simp only
      refine mk_err ⟨hoi, hci, ?_⟩ rfl ha (fun q => hq q.1)
      rcases ha with ha | ha
      · rw [ha]; exact hs.trans hd
      · rw [ha]; exact hs.trans hdd
  all_goals
    have hnq : ¬ (Fo.Quiet os ∧ Cc.Quiet cs) := fun q => by
      have := (hcq q.2).1
      cases this
    have hsub : Sub (Cc.abs cs1) (Fo.abs os1) := by
      rcases hrm with h | h
      · rcases hO with ⟨_, ha, _⟩ | ⟨_, ha | ha, _⟩
        · rw [ha]; exact h.trans hdd
        · rw [ha]; exact hS1
        · rw [ha]; exact h.trans hdd
      · rw [h]; exact hS1
    have ha : Fo.abs os1 = Fo.abs os ∨ Fo.abs os1 = next (Fo.abs os) (.rm k) := by
      rcases hO with ⟨_, ha, _⟩ | ⟨_, ha, _⟩
      · exact Or.inr ha
      · exact ha
    rcases hO with ⟨ho, _, _⟩ | ⟨ho, _, _⟩ <;> subst ho <;> simp only <;>
      exact mk_err ⟨hoi, hci, hsub⟩ rfl ha hnq

/-- no map both holds a blob and enumerates as empty -/
theorem no_map_fetch_enum (m : SMap Bytes) (k v : Bytes) (hk : k ≠ []) (n : Nat)
    (hf : out m (.fetch k) = .bytes v) : out m (.enum [] (n + 1)) ≠ .refs [] := by
  intro he
  have hmem := get_some_mem (out_fetch_bytes hf)
  have hlt : ltB [] k = true := by
    cases k with
    | nil => exact absurd rfl hk
    | cons _ _ => rfl
  have hmem' : (k, v) ∈ m.filter (fun p => ltB [] p.1) := List.mem_filter.mpr ⟨hmem, hlt⟩
  simp only [out, enumOf, sizes] at he
  injection he with he
  cases hfl : m.filter (fun p => ltB [] p.1) with
  | nil => rw [hfl] at hmem'; cases hmem'
  | cons a l => rw [hfl] at he; simp at he

/-- the proxy of the counterexample: memory origin, memory cache whose second call fails without
effect, room for 100 bytes -/
def badProxy : Impl :=
  proxyParallelRmImpl memImpl (faultLeaf memImpl [Fault.none, Fault.before]) 100

/-- The former RemoveBlobs ran the cache's and the origin's removal in parallel and returned the
first error.  History: receive blob `[1]`; remove it, where the cache's removal fails
without effect (the cache's 2nd call) and the origin's succeeds: the caller sees `.err`.  From then
on, with no failure pending anywhere, the proxy serves the blob on Fetch and Stat (cache hits) but
does not enumerate it (Enumerate asks the origin only) – no map, neither the before- nor the
after-state of the failed remove nor any other, answers like that. -/
theorem proxy_failed_cache_remove_counterexample :
    badProxy.run badProxy.init
        [.recv [1] [7], .rm [1], .fetch [1], .stat [1], .enum [] 10, .fetch [1]] =
      [.sized 1, .err, .bytes [7], .sized 1, .refs [], .bytes [7]] ∧
    -- after the failed remove: the origin has dropped the blob, the cache still holds it, and the
    -- cache's failure schedule is used up
    (badProxy.runState badProxy.init [.recv [1] [7], .rm [1]]).1 = [] ∧
    (badProxy.runState badProxy.init [.recv [1] [7], .rm [1]]).2.1 = ([([1], [7])], []) ∧
    -- no reference map gives the later answers
    (∀ m : SMap Bytes, ¬ (out m (.fetch [1]) = .bytes [7] ∧ out m (.enum [] 10) = .refs [])) :=
  ⟨by decide, rfl, rfl, fun m h => no_map_fetch_enum m [1] [7] (by decide) 9 h.1 h.2⟩

/-- consequently `badProxy` is not fault-tolerant under ANY abstraction function and invariant, as
soon as "the cache's failure schedule is used up" counts as quiet (the origin never fails) -/
theorem proxy_failed_cache_remove_not_FRefines (content : Bytes → Bytes) (hc : content [1] = [7])
    (F : FRefines content badProxy) (hQ : ∀ s : badProxy.σ, s.2.1.2 = [] → F.Quiet s) : False := by
  have hops : ∀ op ∈ [Op.recv [1] [7], .rm [1]], op.WK content := by
    intro op h
    simp only [List.mem_cons, List.not_mem_nil, or_false] at h
    rcases h with rfl | rfl
    · exact ⟨hc.symm, by decide⟩
    · trivial
  have hops2 : ∀ op ∈ [Op.fetch [1], .enum [] 10], op.WK content := by
    intro op h
    simp only [List.mem_cons, List.not_mem_nil, or_false] at h
    rcases h with rfl | rfl <;> trivial
  have hinv := F.reach_inv badProxy.init F.init_inv _ hops
  have hq := hQ (badProxy.runState badProxy.init [.recv [1] [7], .rm [1]]) rfl
  have hr := F.recovers _ hinv hq _ hops2
  have hl : badProxy.run (badProxy.runState badProxy.init [.recv [1] [7], .rm [1]])
      [.fetch [1], .enum [] 10] = [.bytes [7], .refs []] := by decide
  rw [hl] at hr
  simp only [run, next] at hr
  injection hr with h1 h2
  injection h2 with h2 _
  exact no_map_fetch_enum _ [1] [7] (by decide) 9 h1.symm h2.symm

/-- the repaired proxycache on the same history and failure schedule: the failed remove leaves the
before-state, consistently on every read path -/
theorem proxy_failed_cache_remove_fixed :
    (proxyImpl memImpl (faultLeaf memImpl [Fault.none, Fault.before]) 100).run
        (proxyImpl memImpl (faultLeaf memImpl [Fault.none, Fault.before]) 100).init
        [.recv [1] [7], .rm [1], .fetch [1], .stat [1], .enum [] 10, .rm [1], .fetch [1], .enum [] 10] =
      [.sized 1, .err, .bytes [7], .sized 1, .refs [([1], 1)], .ok, .notExist, .refs []] := by
  decide

end Pk.Stores
