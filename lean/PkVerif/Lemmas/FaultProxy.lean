import PkVerif.Spec.Faults
import PkVerif.Lemmas.RefProxy
/-!
C13 for proxycache: the fault-tolerant cache contract `FCaches`, proxycache over a fault-tolerant
origin and such a cache (`proxy_fstep`, `proxyFRefinesRmSure`), and the one combination of failures
the Go code does not survive (`proxy_failed_cache_remove_counterexample`): RemoveBlobs where the
cache's removal fails without effect while the origin's removal takes effect.
-/
namespace Pk.RefMap
open Pk Pk.SMap

/-- what a cache may at most hold after `op`, given it held `m` before -/
def grow (m : SMap Bytes) : Op → SMap Bytes
  | .recv k v => ins k v m
  | _ => m

/-- `Caches` for a cache whose calls may fail: any call may answer anything (in particular `.err`),
but the invariant is kept, the contents stay within what a faithful map would hold, a positive read
answer is correct for the contents, a remove that answered `.ok` did remove, and in `Quiet` states
every answer is the faithful one. -/
structure FCaches (content : Bytes → Bytes) (I : Impl) where
  abs : I.σ → SMap Bytes
  Inv : I.σ → Prop
  Quiet : I.σ → Prop
  init_inv : Inv I.init
  init_abs : abs I.init = []
  good : ∀ s, Inv s → Good content (abs s)
  step_inv : ∀ s op, Inv s → op.WK content → Inv (I.step s op).1
  step_sub : ∀ s op, Inv s → op.WK content → Sub (abs (I.step s op).1) (grow (abs s) op)
  fetch_ok : ∀ s k v, Inv s → (I.step s (.fetch k)).2 = .bytes v → get (abs s) k = some v
  stat_ok : ∀ s k n, Inv s → (I.step s (.stat k)).2 = .sized n →
    ∃ v, get (abs s) k = some v ∧ n = v.length
  rm_ok : ∀ s k, Inv s → (I.step s (.rm k)).2 = .ok → Sub (abs (I.step s (.rm k)).1) (del k (abs s))
  quiet_step : ∀ s op, Inv s → Quiet s → op.WK content →
    (I.step s op).2 = out (abs s) op ∧ Quiet (I.step s op).1

/-- a remove call always takes effect, whatever it answers (its failures are of the "answer lost"
kind only) -/
def FCaches.RmSure {content : Bytes → Bytes} {I : Impl} (C : FCaches content I) : Prop :=
  ∀ s k, C.Inv s → Sub (C.abs (I.step s (.rm k)).1) (del k (C.abs s))

theorem out_ne_err (m : SMap Bytes) (op : Op) : out m op ≠ .err := by
  cases op <;> simp only [out] <;> (try split) <;> intro h <;> cases h

theorem out_fetch_bytes {m : SMap Bytes} {k v : Bytes} (h : out m (.fetch k) = .bytes v) :
    get m k = some v := by
  simp only [out] at h
  split at h
  · injection h with h; subst h; assumption
  · cases h

theorem out_stat_sized {m : SMap Bytes} {k : Bytes} {n : Nat} (h : out m (.stat k) = .sized n) :
    ∃ v, get m k = some v ∧ n = v.length := by
  simp only [out] at h
  split at h
  · injection h with h; exact ⟨_, by assumption, h.symm⟩
  · cases h

/-- a good map is within itself plus a well-keyed blob -/
theorem sub_ins_self {content : Bytes → Bytes} {m : SMap Bytes} (hm : Good content m) (k v : Bytes)
    (hop : (Op.recv k v).WK content) : Sub m (ins k v m) := by
  intro x w hx
  rw [get_ins]
  by_cases e : x = k
  · subst e; simp only [if_true]; rw [(hm.2 x w hx).1, hop.1]
  · simp only [e, if_false]; exact hx

theorem sub_grow {content : Bytes → Bytes} {m : SMap Bytes} (hm : Good content m) (op : Op)
    (hop : op.WK content) : Sub m (grow m op) := by
  cases op with
  | recv k v => exact sub_ins_self hm k v hop
  | _ => exact Sub.refl _

section CachesFacts
variable {content : Bytes → Bytes} {I : Impl} (C : Caches content I)

theorem Caches.step_sub (s : I.σ) (op : Op) (h : C.Inv s) (hop : op.WK content) :
    Sub (C.abs (I.step s op).1) (grow (C.abs s) op) := by
  cases op with
  | recv k v => exact (C.recv_ok s k v h hop).2
  | rm k =>
    intro x w hx
    have := (C.rm_ok s k h).2 x w hx
    rw [get_del k (C.good s h).1] at this
    by_cases e : x = k
    · simp [e] at this
    · simp only [e, if_false] at this; exact this
  | fetch k => exact (C.read_ok s (.fetch k) h trivial).2
  | stat k => exact (C.read_ok s (.stat k) h trivial).2
  | enum a l => exact (C.read_ok s (.enum a l) h trivial).2

theorem Caches.step_out (s : I.σ) (op : Op) (h : C.Inv s) (hop : op.WK content) :
    (I.step s op).2 = out (C.abs s) op := by
  cases op with
  | recv k v => exact (C.recv_ok s k v h hop).1
  | rm k => exact (C.rm_ok s k h).1
  | fetch k => exact (C.read_ok s (.fetch k) h trivial).1
  | stat k => exact (C.read_ok s (.stat k) h trivial).1
  | enum a l => exact (C.read_ok s (.enum a l) h trivial).1

end CachesFacts

/-- a cache that never fails is in particular a fault-tolerant cache -/
def Caches.toF {content : Bytes → Bytes} {I : Impl} (C : Caches content I) : FCaches content I where
  abs := C.abs
  Inv := C.Inv
  Quiet := fun _ => True
  init_inv := C.init_inv
  init_abs := C.init_abs
  good := C.good
  step_inv := C.step_inv
  step_sub := C.step_sub
  fetch_ok := fun s k _ h ho => out_fetch_bytes ((C.step_out s (.fetch k) h trivial).symm.trans ho)
  stat_ok := fun s k _ h ho => out_stat_sized ((C.step_out s (.stat k) h trivial).symm.trans ho)
  rm_ok := fun s k h _ => (C.rm_ok s k h).2
  quiet_step := fun s op h _ hop => ⟨C.step_out s op h hop, trivial⟩

theorem Caches.toF_rmSure {content : Bytes → Bytes} {I : Impl} (C : Caches content I) :
    C.toF.RmSure := fun s k h => (C.rm_ok s k h).2

/-- a cache behind a failure schedule whose faults all satisfy `allowed` -/
def faultLeafFCaches {content : Bytes → Bytes} {I : Impl} (C : Caches content I) (sched : List Fault)
    (allowed : Fault → Prop) (hs : ∀ f ∈ sched, allowed f) : FCaches content (faultLeaf I sched) where
  abs := fun s => C.abs s.1
  Inv := fun s => C.Inv s.1 ∧ ∀ f ∈ s.2, allowed f
  Quiet := fun s => ∀ f ∈ s.2, f = Fault.none
  init_inv := ⟨C.init_inv, hs⟩
  init_abs := C.init_abs
  good := fun s h => C.good s.1 h.1
  step_inv := by
    rintro ⟨s, sc⟩ op ⟨h, ha⟩ hop
    have hi := C.step_inv s op h hop
    cases sc with
    | nil => exact ⟨hi, ha⟩
    | cons f rest =>
      have ha' : ∀ g ∈ rest, allowed g := fun g hg => ha g (List.mem_cons_of_mem _ hg)
      cases f with
      | none => exact ⟨hi, ha'⟩
      | before => exact ⟨h, ha'⟩
      | after => exact ⟨hi, ha'⟩
  step_sub := by
    rintro ⟨s, sc⟩ op ⟨h, _⟩ hop
    have hs := C.step_sub s op h hop
    cases sc with
    | nil => exact hs
    | cons f rest =>
      cases f with
      | none => exact hs
      | before => exact sub_grow (C.good s h) op hop
      | after => exact hs
  fetch_ok := by
    rintro ⟨s, sc⟩ k v ⟨h, _⟩ ho
    have hx := C.step_out s (.fetch k) h trivial
    cases sc with
    | nil => exact out_fetch_bytes (hx.symm.trans ho)
    | cons f rest =>
      cases f with
      | none => exact out_fetch_bytes (hx.symm.trans ho)
      | before => cases ho
      | after => cases ho
  stat_ok := by
    rintro ⟨s, sc⟩ k n ⟨h, _⟩ ho
    have hx := C.step_out s (.stat k) h trivial
    cases sc with
    | nil => exact out_stat_sized (hx.symm.trans ho)
    | cons f rest =>
      cases f with
      | none => exact out_stat_sized (hx.symm.trans ho)
      | before => cases ho
      | after => cases ho
  rm_ok := by
    rintro ⟨s, sc⟩ k ⟨h, _⟩ ho
    have hx := (C.rm_ok s k h).2
    cases sc with
    | nil => exact hx
    | cons f rest =>
      cases f with
      | none => exact hx
      | before => cases ho
      | after => cases ho
  quiet_step := by
    rintro ⟨s, sc⟩ op ⟨h, _⟩ hq hop
    have hx := C.step_out s op h hop
    cases sc with
    | nil => exact ⟨hx, by intro f hf; cases hf⟩
    | cons f rest =>
      have hf : f = Fault.none := hq f (by simp)
      subst hf
      exact ⟨hx, fun g hg => hq g (List.mem_cons_of_mem _ hg)⟩

/-- every kind of failure, at any call -/
def faultLeafFCachesAny {content : Bytes → Bytes} {I : Impl} (C : Caches content I)
    (sched : List Fault) : FCaches content (faultLeaf I sched) :=
  faultLeafFCaches C sched (fun _ => True) (fun _ _ => trivial)

/-- failures that lose the answer only (`Fault.after`): the call itself always takes effect -/
def faultLeafFCachesNB {content : Bytes → Bytes} {I : Impl} (C : Caches content I)
    (sched : List Fault) (hs : ∀ f ∈ sched, f ≠ Fault.before) : FCaches content (faultLeaf I sched) :=
  faultLeafFCaches C sched (· ≠ Fault.before) hs

theorem faultLeafFCachesNB_rmSure {content : Bytes → Bytes} {I : Impl} (C : Caches content I)
    (sched : List Fault) (hs : ∀ f ∈ sched, f ≠ Fault.before) :
    (faultLeafFCachesNB C sched hs).RmSure := by
  rintro ⟨s, sc⟩ k ⟨h, ha⟩
  have hx := (C.rm_ok s k h).2
  cases sc with
  | nil => exact hx
  | cons f rest =>
    cases f with
    | none => exact hx
    | before => exact absurd rfl (ha Fault.before (by simp))
    | after => exact hx

end Pk.RefMap

namespace Pk.Stores
open Pk Pk.SMap Pk.RefMap

/-! ### the sub-store calls, each summarised once -/

/-- an origin call: the invariant is kept, and the call is either exact (and keeps quiet states
quiet) or answered `.err` from a state that was not quiet -/
theorem ostep {content : Bytes → Bytes} {origin : Impl} (Fo : FRefines content origin)
    (os : origin.σ) (op : Op) (h : Fo.Inv os) (hop : op.WK content) :
    Fo.Inv (origin.step os op).1 ∧
    (((origin.step os op).2 = out (Fo.abs os) op ∧
        Fo.abs (origin.step os op).1 = next (Fo.abs os) op ∧
        (Fo.Quiet os → Fo.Quiet (origin.step os op).1)) ∨
     ((origin.step os op).2 = .err ∧
        (Fo.abs (origin.step os op).1 = Fo.abs os ∨ Fo.abs (origin.step os op).1 = next (Fo.abs os) op) ∧
        ¬ Fo.Quiet os)) := by
  obtain ⟨hi, hs⟩ := Fo.step_ok os op h hop
  refine ⟨hi, ?_⟩
  rcases hs with ⟨ho, ha⟩ | ⟨ho, ha⟩
  · exact Or.inl ⟨ho, ha, fun hq => (Fo.quiet_step os op h hq hop).2.2⟩
  · refine Or.inr ⟨ho, ha, fun hq => ?_⟩
    have := (Fo.quiet_step os op h hq hop).1
    rw [ho] at this
    exact out_ne_err _ _ this.symm

/-- the two shapes of a combinator step's proof obligation -/
theorem mk_exact {abs abs' : SMap Bytes} {o : Out} {op : Op} {I Q Q' : Prop} (hi : I)
    (ho : o = out abs op) (ha : abs' = next abs op) (hq : Q → Q') :
    I ∧ StepOK abs abs' o op ∧ (Q → o = out abs op ∧ abs' = next abs op ∧ Q') :=
  ⟨hi, Or.inl ⟨ho, ha⟩, fun q => ⟨ho, ha, hq q⟩⟩

theorem mk_err {abs abs' : SMap Bytes} {o : Out} {op : Op} {I Q Q' : Prop} (hi : I)
    (ho : o = .err) (ha : abs' = abs ∨ abs' = next abs op) (hq : ¬ Q) :
    I ∧ StepOK abs abs' o op ∧ (Q → o = out abs op ∧ abs' = next abs op ∧ Q') :=
  ⟨hi, Or.inr ⟨ho, ha⟩, fun q => absurd q hq⟩

section Proxy
variable {content : Bytes → Bytes} {origin cache : Impl}
  (Fo : FRefines content origin) (Cc : FCaches content cache) (max : Nat)

/-- removeOldest in a loop, with removals that may fail: the cache invariant is kept, its contents
only shrink, and a quiet cache stays quiet -/
theorem fclean_ok : ∀ (fuel : Nat) (cs : cache.σ) (b : ProxyBook), Cc.Inv cs →
    Cc.Inv (proxyClean cache max fuel cs b).1 ∧
    Sub (Cc.abs (proxyClean cache max fuel cs b).1) (Cc.abs cs) ∧
    (Cc.Quiet cs → Cc.Quiet (proxyClean cache max fuel cs b).1)
  | 0, cs, b, h => ⟨h, Sub.refl _, id⟩
  | fuel + 1, cs, b, h => by
    simp only [proxyClean]
    by_cases hb : b.cacheBytes > max
    · simp only [hb, if_true]
      cases b.lru.getLast? with
      | none => exact ⟨h, Sub.refl _, id⟩
      | some p =>
        obtain ⟨k, sz⟩ := p
        simp only
        have hi := Cc.step_inv cs (.rm k) h trivial
        have hs : Sub (Cc.abs (cache.step cs (.rm k)).1) (Cc.abs cs) := Cc.step_sub cs (.rm k) h trivial
        have hq : Cc.Quiet cs → Cc.Quiet (cache.step cs (.rm k)).1 :=
          fun q => (Cc.quiet_step cs (.rm k) h q trivial).2
        generalize cache.step cs (.rm k) = pr at hi hs hq
        obtain ⟨cs', o⟩ := pr
        simp only at hi hs hq
        cases o
        case ok =>
          simp only
          obtain ⟨h1, h2, h3⟩ := fclean_ok fuel cs' _ hi
          exact ⟨h1, h2.trans hs, fun q => h3 (hq q)⟩
        all_goals exact ⟨hi, hs, hq⟩
    · simp only [hb, if_false]; exact ⟨h, Sub.refl _, id⟩

theorem ftouch_ok (cs : cache.σ) (b : ProxyBook) (k : Bytes) (sz : Nat) (h : Cc.Inv cs) :
    Cc.Inv (proxyTouch cache max cs b k sz).1 ∧
    Sub (Cc.abs (proxyTouch cache max cs b k sz).1) (Cc.abs cs) ∧
    (Cc.Quiet cs → Cc.Quiet (proxyTouch cache max cs b k sz).1) := by
  unfold proxyTouch
  split
  · exact ⟨h, Sub.refl _, id⟩
  · exact fclean_ok Cc max _ cs _ h

/-- a cache call: invariant, contents bound, quietness -/
theorem cstep (cs : cache.σ) (op : Op) (h : Cc.Inv cs) (hop : op.WK content) :
    Cc.Inv (cache.step cs op).1 ∧ Sub (Cc.abs (cache.step cs op).1) (grow (Cc.abs cs) op) ∧
    (Cc.Quiet cs → (cache.step cs op).2 = out (Cc.abs cs) op ∧ Cc.Quiet (cache.step cs op).1) :=
  ⟨Cc.step_inv cs op h hop, Cc.step_sub cs op h hop, fun q => Cc.quiet_step cs op h q hop⟩

/-- the proxy invariant: both sub-invariants, and the cache holds only what the origin holds -/
def PInv (s : (proxyImpl origin cache max).σ) : Prop :=
  Fo.Inv s.1 ∧ Cc.Inv s.2.1 ∧ Sub (Cc.abs s.2.1) (Fo.abs s.1)

def PQuiet (s : (proxyImpl origin cache max).σ) : Prop := Fo.Quiet s.1 ∧ Cc.Quiet s.2.1

/-- what a proxy step has to satisfy -/
def PStep (s : (proxyImpl origin cache max).σ) (op : Op) : Prop :=
  PInv Fo Cc max ((proxyImpl origin cache max).step s op).1 ∧
  StepOK (Fo.abs s.1) (Fo.abs ((proxyImpl origin cache max).step s op).1.1)
    ((proxyImpl origin cache max).step s op).2 op ∧
  (PQuiet Fo Cc max s →
    ((proxyImpl origin cache max).step s op).2 = out (Fo.abs s.1) op ∧
    Fo.abs ((proxyImpl origin cache max).step s op).1.1 = next (Fo.abs s.1) op ∧
    PQuiet Fo Cc max ((proxyImpl origin cache max).step s op).1)

end Proxy
end Pk.Stores
