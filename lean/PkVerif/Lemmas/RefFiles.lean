import PkVerif.Model.Files
import PkVerif.Props.C20
/-!
# C01: the file-per-blob store (pkg/blobserver/files) refines the reference map

`abs` = `flat`: the files of the tree in walk order, as (ref text ↦ bytes).  The layout invariant `Lay`
says where every file is; from it: `flat` is ascending (directory-name order agrees with ref-text
order), path lookups are `get`, store/remove are `ins`/`del`, and the pruned recursive walk with its
shared countdown is `enumOf` for ANY cursor string (`walk_eq`).
-/
namespace Pk.Files
open Pk Pk.SMap Pk.Ref Pk.RefMap

/-! ## byte-string order -/

theorem ltB_ne {a b : Bytes} (h : ltB a b = true) : a ≠ b := by
  intro e; subst e; rw [ltB_irrefl] at h; cases h

/-- equal-length strings that differ decide the order of anything appended to them -/
theorem ltB_append_same_len : ∀ (a b x y : Bytes), a.length = b.length → ltB a b = true →
    ltB (a ++ x) (b ++ y) = true
  | [], [], _, _, _, h => by simp [ltB] at h
  | [], _ :: _, _, _, hl, _ => by simp at hl
  | _ :: _, [], _, _, hl, _ => by simp at hl
  | a :: as, b :: bs, x, y, hl, h => by
    simp only [List.cons_append, ltB] at h ⊢
    by_cases h1 : a < b
    · simp [h1]
    · by_cases h2 : b < a
      · simp [h1, h2] at h
      · simp only [h1, h2, if_false] at h ⊢
        exact ltB_append_same_len as bs x y (by simpa using hl) h

/-- a common suffix does not change the order of equal-length strings -/
theorem ltB_append_right_same_len : ∀ (a b s : Bytes), a.length = b.length →
    ltB (a ++ s) (b ++ s) = ltB a b
  | [], [], s, _ => by simp [ltB, ltB_irrefl]
  | [], _ :: _, _, hl => by simp at hl
  | _ :: _, [], _, hl => by simp at hl
  | a :: as, b :: bs, s, hl => by
    simp only [List.cons_append, ltB]
    rw [ltB_append_right_same_len as bs s (by simpa using hl)]

/-- soundness of the pruning rule: if the directory's blob prefix, cut to the common length with the
cursor, is below the cursor cut to that length, everything that starts with the prefix is below the
cursor -/
theorem prune_sound : ∀ (P A x : Bytes),
    ltB (P.take (min A.length P.length)) (A.take (min A.length P.length)) = true →
    ltB (P ++ x) A = true
  | [], A, _, h => by simp [ltB] at h
  | _ :: _, [], _, h => by simp [ltB] at h
  | p :: ps, a :: as, x, h => by
    have hm : min (a :: as).length (p :: ps).length = min as.length ps.length + 1 := by
      simp only [List.length_cons]; omega
    rw [hm] at h
    simp only [List.take_succ_cons, List.cons_append, ltB] at h ⊢
    by_cases h1 : p < a
    · simp [h1]
    · by_cases h2 : a < p
      · simp [h1, h2] at h
      · simp only [h1, h2, if_false] at h ⊢
        exact prune_sound ps as x h

/-! ## SMap: appending segments that are apart -/

def AllLt (k : Bytes) (m : SMap Bytes) : Prop := ∀ q ∈ m, ltB q.1 k = true
def AllGt (k : Bytes) (m : SMap Bytes) : Prop := ∀ q ∈ m, ltB k q.1 = true
def NoKey (k : Bytes) (m : SMap Bytes) : Prop := ∀ q ∈ m, q.1 ≠ k

theorem AllLt.noKey {k : Bytes} {m : SMap Bytes} (h : AllLt k m) : NoKey k m :=
  fun q hq => ltB_ne (h q hq)

theorem AllGt.noKey {k : Bytes} {m : SMap Bytes} (h : AllGt k m) : NoKey k m :=
  fun q hq e => ltB_ne (h q hq) e.symm

theorem get_noKey {k : Bytes} {m : SMap Bytes} (h : NoKey k m) : SMap.get m k = none := by
  induction m with
  | nil => rfl
  | cons p rest ih =>
    obtain ⟨k', v'⟩ := p
    have : k ≠ k' := fun e => h (k', v') (by simp) e.symm
    simp only [SMap.get, this, if_false]
    exact ih (fun q hq => h q (by simp [hq]))

theorem del_noKey {k : Bytes} {m : SMap Bytes} (h : NoKey k m) : del k m = m := by
  induction m with
  | nil => rfl
  | cons p rest ih =>
    obtain ⟨k', v'⟩ := p
    have : k ≠ k' := fun e => h (k', v') (by simp) e.symm
    simp only [del, this, if_false]
    rw [ih (fun q hq => h q (by simp [hq]))]

theorem get_append (a b : SMap Bytes) (x : Bytes) :
    SMap.get (a ++ b) x = match SMap.get a x with | some v => some v | none => SMap.get b x := by
  induction a with
  | nil => rfl
  | cons p rest ih =>
    obtain ⟨k, v⟩ := p
    by_cases hx : x = k
    · simp [SMap.get, hx]
    · simp only [List.cons_append, SMap.get, hx, if_false]; exact ih

theorem ins_allGt {k v : Bytes} {m : SMap Bytes} (h : AllGt k m) : ins k v m = (k, v) :: m := by
  cases m with
  | nil => rfl
  | cons p rest =>
    obtain ⟨k', v'⟩ := p
    have : ltB k k' = true := h (k', v') (by simp)
    simp [ins, this]

theorem ins_append_gt {k v : Bytes} (a : SMap Bytes) {b : SMap Bytes} (h : AllGt k b) :
    ins k v (a ++ b) = ins k v a ++ b := by
  induction a with
  | nil => simp [ins_allGt h, ins]
  | cons p rest ih =>
    obtain ⟨k', v'⟩ := p
    simp only [List.cons_append, ins]
    split
    · rfl
    · split
      · rfl
      · simp [ih]

theorem ins_append_lt {k v : Bytes} {a : SMap Bytes} (b : SMap Bytes) (h : AllLt k a) :
    ins k v (a ++ b) = a ++ ins k v b := by
  induction a with
  | nil => rfl
  | cons p rest ih =>
    obtain ⟨k', v'⟩ := p
    have h1 : ltB k' k = true := h (k', v') (by simp)
    have h2 : ltB k k' = false := ltB_asymm _ _ h1
    have h3 : k ≠ k' := (ltB_ne h1).symm
    simp only [List.cons_append, ins, h2, Bool.false_eq_true, if_false, h3]
    rw [ih (fun q hq => h q (by simp [hq]))]

theorem del_append_left {k : Bytes} {a : SMap Bytes} (b : SMap Bytes) (h : NoKey k a) :
    del k (a ++ b) = a ++ del k b := by
  induction a with
  | nil => rfl
  | cons p rest ih =>
    obtain ⟨k', v'⟩ := p
    have : k ≠ k' := fun e => h (k', v') (by simp) e.symm
    simp only [List.cons_append, del, this, if_false]
    rw [ih (fun q hq => h q (by simp [hq]))]

theorem del_append_right {k : Bytes} (a : SMap Bytes) {b : SMap Bytes} (h : NoKey k b) :
    del k (a ++ b) = del k a ++ b := by
  induction a with
  | nil => simp [del_noKey h, del]
  | cons p rest ih =>
    obtain ⟨k', v'⟩ := p
    simp only [List.cons_append, del]
    split
    · rfl
    · simp [ih]

/-- re-inserting what is there changes nothing -/
theorem ins_same {k v : Bytes} {m : SMap Bytes} (hm : KAsc m) (h : SMap.get m k = some v) :
    ins k v m = m := by
  apply SMap.ext (kasc_ins k v hm) hm
  intro x
  rw [get_ins]
  by_cases hx : x = k
  · subst hx; simp [h]
  · simp [hx]

/-! ## `enumOf` over segments -/

theorem enumOf_nil (after : Bytes) (n : Nat) : enumOf [] after n = [] := by simp [enumOf, sizes]

theorem enumOf_zero (m : SMap Bytes) (after : Bytes) : enumOf m after 0 = [] := by simp [enumOf]

theorem enumOf_cons_skip {k v : Bytes} {m : SMap Bytes} {after : Bytes} (n : Nat)
    (h : ltB after k = false) : enumOf ((k, v) :: m) after n = enumOf m after n := by
  simp [enumOf, h]

theorem enumOf_cons_take {k v : Bytes} {m : SMap Bytes} {after : Bytes} (n : Nat)
    (h : ltB after k = true) :
    enumOf ((k, v) :: m) after (n + 1) = (k, v.length) :: enumOf m after n := by
  simp [enumOf, h, sizes]

theorem enumOf_append (a b : SMap Bytes) (after : Bytes) (n : Nat) :
    enumOf (a ++ b) after n =
      enumOf a after n ++ enumOf b after (n - (enumOf a after n).length) := by
  simp only [enumOf, sizes, List.filter_append, List.map_append, List.take_append, List.length_take,
    List.length_map]
  congr 2
  omega

theorem enumOf_all_le {m : SMap Bytes} {after : Bytes} (n : Nat) (h : AllLt after m) :
    enumOf m after n = [] := by
  have : m.filter (fun p => ltB after p.1) = [] := by
    apply List.filter_eq_nil_iff.mpr
    intro q hq
    simp [ltB_asymm _ _ (h q hq)]
  simp [enumOf, this, sizes]

/-! ## the layout invariant -/

/-- a file name without its last four characters (`.dat`) -/
def dropDat (n : Bytes) : Bytes := n.take (n.length - 4)

theorem dropDat_append (k : Bytes) : dropDat (k ++ dotDat) = k := by
  simp [dropDat, dotDat]

/-- the abstraction: every file of the tree, in walk order, keyed by its name without `.dat` -/
def flat : Tree → SMap Bytes
  | .nil => []
  | .file n b rest => (dropDat n, b) :: flat rest
  | .dir _ sub rest => flat sub ++ flat rest

/-- the text of a ref of a supported hash: name in the table, digest of the table's size -/
def SupKey (t : Tbl) (k : Bytes) : Prop := ∃ r, WFKnown t r ∧ toText r = k

/-- side conditions on the hash table: valid names with non-empty digests (`Tbl.WF`), digests of at
least two bytes (four hex digits: no `____` padding), no hash called like a directory the walk skips -/
def TblOK (t : Tbl) : Prop := t.WF ∧ ∀ p ∈ t.sizes, 2 ≤ p.2 ∧ skipDir p.1 = false

instance (t : Tbl) : Decidable (TblOK t) := by unfold TblOK; infer_instance

/-- the table of /repo qualifies -/
theorem gtbl_ok : TblOK gtbl := by decide

/-- `n` sorts before every entry of the directory -/
def Below (n : Bytes) (tree : Tree) : Prop := ∀ n' ∈ tree.names, ltB n n' = true

/-- directory names per level: hash names at the root, two characters below -/
def NameOK (t : Tbl) (l : Nat) (P s : Bytes) : Prop :=
  (l = 0 ∧ P = [] ∧ ∃ sz, t.size? s = some sz) ∨ (0 < l ∧ P ≠ [] ∧ s.length = 2)

/-- the layout at level `l` (0 = root … 3 = the directories holding files) under blob prefix `P`:
directories only above level 3, files only at level 3, entries in strictly ascending name order,
every file is `<text of a supported ref>.dat` and the ref's text starts with the prefix the walk has
built on the way down -/
def Lay (t : Tbl) : Nat → Bytes → Tree → Prop
  | _, _, .nil => True
  | l, P, .file n _ rest =>
    l = 3 ∧ (∃ k, SupKey t k ∧ P <+: k ∧ n = k ++ dotDat) ∧ Below n rest ∧ Lay t l P rest
  | l, P, .dir s sub rest =>
    l < 3 ∧ NameOK t l P s ∧ Lay t (l + 1) (childPrefix P s) sub ∧ Below s rest ∧ Lay t l P rest

theorem prefix_childPrefix (P s : Bytes) : P <+: childPrefix P s := by
  unfold childPrefix
  split
  · rename_i h; subst h; exact List.nil_prefix
  · exact List.prefix_append _ _

/-- directory-name order is ref-text order -/
theorem cp_lt {t : Tbl} (ht : t.WF) {l : Nat} {P s s' : Bytes} (x y : Bytes)
    (h1 : NameOK t l P s) (h2 : NameOK t l P s') (hlt : ltB s s' = true) :
    ltB (childPrefix P s ++ x) (childPrefix P s' ++ y) = true := by
  rcases h1 with ⟨hl, hP, sz, hs⟩ | ⟨hl, hP, hs⟩
  · rcases h2 with ⟨_, _, sz', hs'⟩ | ⟨hl', _, _⟩
    · subst hP
      simp only [childPrefix, if_true, List.append_assoc, List.singleton_append]
      rw [ltB_names _ _ _ _ (validName_all_gt _ (known_name_valid t ht _ _ hs).1)
        (validName_all_gt _ (known_name_valid t ht _ _ hs').1) (ltB_ne hlt)]
      exact hlt
    · omega
  · rcases h2 with ⟨hl', _, _⟩ | ⟨_, _, hs'⟩
    · omega
    · simp only [childPrefix, hP, if_false, List.append_assoc]
      rw [ltB_append_left]
      exact ltB_append_same_len _ _ _ _ (by omega) hlt

theorem lay_allPfx {t : Tbl} {l : Nat} {P : Bytes} {tree : Tree} (h : Lay t l P tree) :
    ∀ q ∈ flat tree, P <+: q.1 := by
  induction tree generalizing l P with
  | nil => intro q hq; cases hq
  | file n b rest ih =>
    obtain ⟨_, ⟨k, _, hp, hn⟩, _, hr⟩ := h
    intro q hq
    simp only [flat, List.mem_cons] at hq
    rcases hq with e | hq
    · subst e hn; simpa [dropDat_append] using hp
    · exact ih hr q hq
  | dir s sub rest ihs ihr =>
    obtain ⟨_, _, hs, _, hr⟩ := h
    intro q hq
    simp only [flat, List.mem_append] at hq
    rcases hq with hq | hq
    · exact (prefix_childPrefix P s).trans (ihs hs q hq)
    · exact ihr hr q hq

theorem lay_supKey {t : Tbl} {l : Nat} {P : Bytes} {tree : Tree} (h : Lay t l P tree) :
    ∀ q ∈ flat tree, SupKey t q.1 := by
  induction tree generalizing l P with
  | nil => intro q hq; cases hq
  | file n b rest ih =>
    obtain ⟨_, ⟨k, hk, _, hn⟩, _, hr⟩ := h
    intro q hq
    simp only [flat, List.mem_cons] at hq
    rcases hq with e | hq
    · subst e hn; simpa [dropDat_append] using hk
    · exact ih hr q hq
  | dir s sub rest ihs ihr =>
    obtain ⟨_, _, hs, _, hr⟩ := h
    intro q hq
    simp only [flat, List.mem_append] at hq
    rcases hq with hq | hq
    · exact ihs hs q hq
    · exact ihr hr q hq

/-- keys under a directory that sorts before `a` are below every key under `a` -/
theorem pfx_lt {t : Tbl} (ht : t.WF) {l : Nat} {P n a k : Bytes} {m : SMap Bytes}
    (hm : ∀ q ∈ m, childPrefix P n <+: q.1) (hn : NameOK t l P n) (ha : NameOK t l P a)
    (hlt : ltB n a = true) (hk : childPrefix P a <+: k) : AllLt k m := by
  intro q hq
  obtain ⟨x, hx⟩ := hm q hq
  obtain ⟨y, hy⟩ := hk
  rw [← hx, ← hy]
  exact cp_lt ht x y hn ha hlt

theorem pfx_gt {t : Tbl} (ht : t.WF) {l : Nat} {P n a k : Bytes} {m : SMap Bytes}
    (hm : ∀ q ∈ m, childPrefix P n <+: q.1) (hn : NameOK t l P n) (ha : NameOK t l P a)
    (hlt : ltB a n = true) (hk : childPrefix P a <+: k) : AllGt k m := by
  intro q hq
  obtain ⟨x, hx⟩ := hm q hq
  obtain ⟨y, hy⟩ := hk
  rw [← hx, ← hy]
  exact cp_lt ht y x ha hn hlt

theorem pfx_noKey {t : Tbl} (ht : t.WF) {l : Nat} {P n a k : Bytes} {m : SMap Bytes}
    (hm : ∀ q ∈ m, childPrefix P n <+: q.1) (hn : NameOK t l P n) (ha : NameOK t l P a)
    (hne : a ≠ n) (hk : childPrefix P a <+: k) : NoKey k m := by
  rcases ltB_total a n with h | h | h
  · exact (pfx_gt ht hm hn ha h hk).noKey
  · exact absurd h hne
  · exact (pfx_lt ht hm hn ha h hk).noKey

/-- everything in the entries after a directory `s` is above every key under `s` -/
theorem lay_rest_gt {t : Tbl} (ht : t.WF) {l : Nat} {P s k : Bytes} {rest : Tree} (hl : l < 3)
    (h : Lay t l P rest) (hs : NameOK t l P s) (hb : Below s rest) (hk : childPrefix P s <+: k) :
    AllGt k (flat rest) := by
  induction rest with
  | nil => intro q hq; cases hq
  | file n b rest _ => obtain ⟨h3, _⟩ := h; omega
  | dir s' sub rest' _ ihr =>
    obtain ⟨_, hs', hsub, hb', hr⟩ := h
    have hlt : ltB s s' = true := hb s' (by simp [Tree.names])
    intro q hq
    simp only [flat, List.mem_append] at hq
    rcases hq with hq | hq
    · exact pfx_gt ht (lay_allPfx hsub) hs' hs hlt hk q hq
    · exact ihr hr (fun n' hn' => hb n' (by simp [Tree.names, hn'])) q hq

/-! ## the directories that hold the files (level 3) -/

theorem supKey_text {t : Tbl} {k : Bytes} (h : SupKey t k) :
    ∃ nm sum, t.size? nm = some sum.length ∧ AllByte sum ∧ k = nm ++ 45 :: hexEnc sum := by
  obtain ⟨r, ⟨hs, hb, ho⟩, hk⟩ := h
  exact ⟨r.name, r.sum, hs, hb, by rw [← hk, toText_known r ho]⟩

/-- file-name order (with the `.dat`) is ref-text order -/
theorem ltB_dat {t : Tbl} (ht : t.WF) {k k' : Bytes} (h : SupKey t k) (h' : SupKey t k') :
    ltB (k ++ dotDat) (k' ++ dotDat) = ltB k k' := by
  obtain ⟨nm, sum, hs, _, hk⟩ := supKey_text h
  obtain ⟨nm', sum', hs', _, hk'⟩ := supKey_text h'
  by_cases hn : nm = nm'
  · subst hn
    rw [hs] at hs'
    injection hs' with hlen
    apply ltB_append_right_same_len
    rw [hk, hk']
    simp [hexEnc_length, hlen]
  · have g := validName_all_gt _ (known_name_valid t ht _ _ hs).1
    have g' := validName_all_gt _ (known_name_valid t ht _ _ hs').1
    subst hk hk'
    simp only [List.append_assoc, List.cons_append]
    rw [ltB_names _ _ _ _ g g' hn, ltB_names _ _ _ _ g g' hn]

theorem names_putFile {a v : Bytes} {tree : Tree} {n' : Bytes}
    (h : n' ∈ (tree.putFile a v).names) : n' = a ∨ n' ∈ tree.names := by
  induction tree with
  | nil => simpa [Tree.putFile, Tree.names] using h
  | file n b rest ih =>
    simp only [Tree.putFile] at h
    split at h
    · simpa [Tree.names] using h
    · split at h
      · right; simpa [Tree.names] using h
      · simp only [Tree.names, List.mem_cons] at h ⊢
        rcases h with h | h
        · exact Or.inr (Or.inl h)
        · rcases ih h with e | e
          · exact Or.inl e
          · exact Or.inr (Or.inr e)
  | dir n sub rest _ ih =>
    simp only [Tree.putFile] at h
    split at h
    · simpa [Tree.names] using h
    · split at h
      · right; simpa [Tree.names] using h
      · simp only [Tree.names, List.mem_cons] at h ⊢
        rcases h with h | h
        · exact Or.inr (Or.inl h)
        · rcases ih h with e | e
          · exact Or.inl e
          · exact Or.inr (Or.inr e)

theorem names_rmFile {a : Bytes} {tree : Tree} {n' : Bytes}
    (h : n' ∈ (tree.rmFile a).names) : n' ∈ tree.names := by
  induction tree with
  | nil => simpa [Tree.rmFile] using h
  | file n b rest ih =>
    simp only [Tree.rmFile] at h
    split at h
    · simp [Tree.names, h]
    · simp only [Tree.names, List.mem_cons] at h ⊢
      rcases h with h | h
      · exact Or.inl h
      · exact Or.inr (ih h)
  | dir n sub rest _ ih =>
    simp only [Tree.rmFile, Tree.names, List.mem_cons] at h ⊢
    rcases h with h | h
    · exact Or.inl h
    · exact Or.inr (ih h)

/-- the rename into place is `ins` on the listing, and keeps the layout -/
theorem lay_putFile {t : Tbl} (ht : t.WF) {P k : Bytes} (v : Bytes) {tree : Tree}
    (h : Lay t 3 P tree) (hk : SupKey t k) (hp : P <+: k) :
    Lay t 3 P (tree.putFile (k ++ dotDat) v) ∧
      flat (tree.putFile (k ++ dotDat) v) = ins k v (flat tree) := by
  induction tree with
  | nil =>
    refine ⟨⟨rfl, ⟨k, hk, hp, rfl⟩, ?_, trivial⟩, by simp [Tree.putFile, flat, dropDat_append, ins]⟩
    intro n' hn'; cases hn'
  | dir n sub rest _ _ => obtain ⟨h3, _⟩ := h; omega
  | file n b rest ih =>
    obtain ⟨_, ⟨k', hk', hp', hn⟩, hb, hr⟩ := h
    obtain ⟨ih1, ih2⟩ := ih hr
    subst hn
    simp only [Tree.putFile, flat, dropDat_append, ins, ltB_dat ht hk hk']
    by_cases h1 : ltB k k' = true
    · simp only [h1, if_true, flat, dropDat_append]
      refine ⟨⟨rfl, ⟨k, hk, hp, rfl⟩, ?_, rfl, ⟨k', hk', hp', rfl⟩, hb, hr⟩, trivial⟩
      intro n' hn'
      simp only [Tree.names, List.mem_cons] at hn'
      rcases hn' with e | hn'
      · subst e; rw [ltB_dat ht hk hk']; exact h1
      · exact ltB_trans _ _ _ (by rw [ltB_dat ht hk hk']; exact h1) (hb n' hn')
    · simp only [h1, Bool.false_eq_true, if_false]
      by_cases h2 : k = k'
      · subst h2
        simp only [if_true, flat, dropDat_append]
        exact ⟨⟨rfl, ⟨k, hk, hp, rfl⟩, hb, hr⟩, trivial⟩
      · have h2' : k ++ dotDat ≠ k' ++ dotDat := fun e => h2 (List.append_cancel_right e)
        simp only [h2, h2', if_false, flat, dropDat_append, ih2]
        refine ⟨⟨rfl, ⟨k', hk', hp', rfl⟩, ?_, ih1⟩, trivial⟩
        intro n' hn'
        rcases names_putFile hn' with e | e
        · subst e
          rw [ltB_dat ht hk' hk]
          rcases ltB_total k k' with a | a | a
          · exact absurd a h1
          · exact absurd a h2
          · exact a
        · exact hb n' e

/-- `Remove` is `del` on the listing, and keeps the layout -/
theorem lay_rmFile {t : Tbl} {P k : Bytes} {tree : Tree} (h : Lay t 3 P tree) :
    Lay t 3 P (tree.rmFile (k ++ dotDat)) ∧ flat (tree.rmFile (k ++ dotDat)) = del k (flat tree) := by
  induction tree with
  | nil => exact ⟨trivial, rfl⟩
  | dir n sub rest _ _ => obtain ⟨h3, _⟩ := h; omega
  | file n b rest ih =>
    obtain ⟨_, ⟨k', hk', hp', hn⟩, hb, hr⟩ := h
    obtain ⟨ih1, ih2⟩ := ih hr
    subst hn
    simp only [Tree.rmFile, flat, dropDat_append, del]
    by_cases h2 : k = k'
    · subst h2; simp only [if_true]; exact ⟨hr, trivial⟩
    · have h2' : k ++ dotDat ≠ k' ++ dotDat := fun e => h2 (List.append_cancel_right e)
      simp only [h2, h2', if_false, flat, dropDat_append, ih2]
      exact ⟨⟨rfl, ⟨k', hk', hp', rfl⟩, fun n' hn' => hb n' (names_rmFile hn'), ih1⟩, trivial⟩

/-- Stat/Open of a file is `get` on the listing -/
theorem lay_getFile {t : Tbl} {P k : Bytes} {tree : Tree} (h : Lay t 3 P tree) :
    tree.getFile (k ++ dotDat) = SMap.get (flat tree) k := by
  induction tree with
  | nil => rfl
  | dir n sub rest _ _ => obtain ⟨h3, _⟩ := h; omega
  | file n b rest ih =>
    obtain ⟨_, ⟨k', _, _, hn⟩, _, hr⟩ := h
    subst hn
    simp only [Tree.getFile, flat, dropDat_append, SMap.get]
    by_cases h2 : k = k'
    · subst h2; simp
    · have h2' : k ++ dotDat ≠ k' ++ dotDat := fun e => h2 (List.append_cancel_right e)
      simp only [h2, h2', if_false]
      exact ih hr

/-! ## one level of directories (levels 0–2) -/

theorem names_inDir {a : Bytes} {f : Tree → Tree} {tree : Tree} {n' : Bytes}
    (h : n' ∈ (tree.inDir a f).names) : n' = a ∨ n' ∈ tree.names := by
  induction tree with
  | nil => simpa [Tree.inDir, Tree.names] using h
  | file n b rest ih =>
    simp only [Tree.inDir] at h
    split at h
    · simpa [Tree.names] using h
    · split at h
      · right; simpa [Tree.names] using h
      · simp only [Tree.names, List.mem_cons] at h ⊢
        rcases h with h | h
        · exact Or.inr (Or.inl h)
        · rcases ih h with e | e
          · exact Or.inl e
          · exact Or.inr (Or.inr e)
  | dir n sub rest _ ih =>
    simp only [Tree.inDir] at h
    split at h
    · simpa [Tree.names] using h
    · split at h
      · right; simpa [Tree.names] using h
      · simp only [Tree.names, List.mem_cons] at h ⊢
        rcases h with h | h
        · exact Or.inr (Or.inl h)
        · rcases ih h with e | e
          · exact Or.inl e
          · exact Or.inr (Or.inr e)

theorem names_onDir (a : Bytes) (f : Tree → Tree) (tree : Tree) :
    (tree.onDir a f).names = tree.names := by
  induction tree with
  | nil => rfl
  | file n b rest ih => simp [Tree.onDir, Tree.names, ih]
  | dir n sub rest _ ih =>
    simp only [Tree.onDir]
    split
    · rfl
    · simp [Tree.names, ih]

/-- MkdirAll one level and work inside: if the work inside is `ins k v` on the sub-listing (also when
the directory is new), it is `ins k v` on this level's listing; the layout is kept -/
theorem lay_inDir {t : Tbl} (ht : t.WF) {l : Nat} {P a k : Bytes} (v : Bytes) {f : Tree → Tree}
    {tree : Tree} (hl : l < 3) (ha : NameOK t l P a) (hk : childPrefix P a <+: k)
    (hf : ∀ s, Lay t (l + 1) (childPrefix P a) s →
      Lay t (l + 1) (childPrefix P a) (f s) ∧ flat (f s) = ins k v (flat s))
    (h : Lay t l P tree) :
    Lay t l P (tree.inDir a f) ∧ flat (tree.inDir a f) = ins k v (flat tree) := by
  have hnil := hf .nil trivial
  induction tree with
  | nil =>
    refine ⟨⟨hl, ha, hnil.1, ?_, trivial⟩, by simp [Tree.inDir, flat, hnil.2]⟩
    intro n' hn'; cases hn'
  | file n b rest _ => obtain ⟨h3, _⟩ := h; omega
  | dir n sub rest _ ih =>
    have h0 := h
    obtain ⟨_, hn, hsub, hb, hr⟩ := h
    obtain ⟨ih1, ih2⟩ := ih hr
    simp only [Tree.inDir]
    by_cases h1 : ltB a n = true
    · simp only [h1, if_true]
      have hbel : Below a (.dir n sub rest) := by
        intro n' hn'
        simp only [Tree.names, List.mem_cons] at hn'
        rcases hn' with e | hn'
        · subst e; exact h1
        · exact ltB_trans _ _ _ h1 (hb n' hn')
      refine ⟨⟨hl, ha, hnil.1, hbel, h0⟩, ?_⟩
      have hgt := lay_rest_gt ht hl h0 ha hbel hk
      rw [ins_allGt hgt]
      simp [flat, hnil.2, ins]
    · simp only [h1, Bool.false_eq_true, if_false]
      by_cases h2 : a = n
      · subst h2
        obtain ⟨f1, f2⟩ := hf sub hsub
        simp only [if_true, flat, f2]
        refine ⟨⟨hl, ha, f1, hb, hr⟩, ?_⟩
        rw [ins_append_gt _ (lay_rest_gt ht hl hr ha hb hk)]
      · have hlt : ltB n a = true := by
          rcases ltB_total a n with x | x | x
          · exact absurd x h1
          · exact absurd x h2
          · exact x
        simp only [h2, if_false, flat, ih2]
        refine ⟨⟨hl, hn, hsub, ?_, ih1⟩, ?_⟩
        · intro n' hn'
          rcases names_inDir hn' with e | e
          · subst e; exact hlt
          · exact hb n' e
        · rw [ins_append_lt _ (pfx_lt ht (lay_allPfx hsub) hn ha hlt hk)]

/-- work inside an existing directory: if it is `del k` on the sub-listing, it is `del k` here -/
theorem lay_onDir {t : Tbl} (ht : t.WF) {l : Nat} {P a k : Bytes} {f : Tree → Tree}
    {tree : Tree} (hl : l < 3) (ha : NameOK t l P a) (hk : childPrefix P a <+: k)
    (hf : ∀ s, Lay t (l + 1) (childPrefix P a) s →
      Lay t (l + 1) (childPrefix P a) (f s) ∧ flat (f s) = del k (flat s))
    (h : Lay t l P tree) :
    Lay t l P (tree.onDir a f) ∧ flat (tree.onDir a f) = del k (flat tree) := by
  induction tree with
  | nil => exact ⟨trivial, rfl⟩
  | file n b rest _ => obtain ⟨h3, _⟩ := h; omega
  | dir n sub rest _ ih =>
    obtain ⟨_, hn, hsub, hb, hr⟩ := h
    obtain ⟨ih1, ih2⟩ := ih hr
    simp only [Tree.onDir]
    by_cases h2 : a = n
    · subst h2
      obtain ⟨f1, f2⟩ := hf sub hsub
      simp only [if_true, flat, f2]
      refine ⟨⟨hl, ha, f1, hb, hr⟩, ?_⟩
      rw [del_append_right _ (lay_rest_gt ht hl hr ha hb hk).noKey]
    · simp only [h2, if_false, flat, ih2]
      refine ⟨⟨hl, hn, hsub, ?_, ih1⟩, ?_⟩
      · intro n' hn'; rw [names_onDir] at hn'; exact hb n' hn'
      · rw [del_append_left _ (pfx_noKey ht (lay_allPfx hsub) hn ha h2 hk)]

/-- looking a key up goes through the one directory its text selects -/
theorem lay_getDir {t : Tbl} (ht : t.WF) {l : Nat} {P a k : Bytes} {tree : Tree} (hl : l < 3)
    (ha : NameOK t l P a) (hk : childPrefix P a <+: k) (h : Lay t l P tree) :
    match tree.getDir a with
    | none => SMap.get (flat tree) k = none
    | some s => Lay t (l + 1) (childPrefix P a) s ∧ SMap.get (flat tree) k = SMap.get (flat s) k := by
  induction tree with
  | nil => simp [Tree.getDir, flat, SMap.get]
  | file n b rest _ => obtain ⟨h3, _⟩ := h; omega
  | dir n sub rest _ ih =>
    obtain ⟨_, hn, hsub, hb, hr⟩ := h
    have ih' := ih hr
    simp only [Tree.getDir, flat, get_append]
    by_cases h2 : a = n
    · subst h2
      simp only [if_true]
      refine ⟨hsub, ?_⟩
      rw [get_noKey (lay_rest_gt ht hl hr ha hb hk).noKey]
      cases SMap.get (flat sub) k <;> rfl
    · simp only [h2, if_false]
      rw [get_noKey (pfx_noKey ht (lay_allPfx hsub) hn ha h2 hk)]
      exact ih'

/-! ## the walk -/

theorem skipDir_dat (k : Bytes) : skipDir (k ++ dotDat) = false := by
  have h : ∀ c : Bytes, c.reverse.head? ≠ some 116 → (k ++ dotDat == c) = false := by
    intro c hc
    simp only [beq_eq_false_iff_ne, ne_eq]
    intro e
    apply hc
    rw [← e]
    simp [dotDat]
  simp only [skipDir, Bool.or_eq_false_iff]
  exact ⟨⟨h _ (by decide), h _ (by decide)⟩, h _ (by decide)⟩

theorem isShardDir_len {n : Bytes} (h : isShardDir n = true) : n.length = 2 := by
  unfold isShardDir at h
  split at h
  · rfl
  · cases h

theorem isShardDir_dat (k : Bytes) : isShardDir (k ++ dotDat) = false := by
  cases h : isShardDir (k ++ dotDat) with
  | false => rfl
  | true => have := isShardDir_len h; simp [dotDat] at this

theorem stripSuffix_dat (k : Bytes) : stripSuffix dotDat (k ++ dotDat) = some k := by
  simp [stripSuffix, dotDat]

theorem skipDir_len {s : Bytes} (h : s.length = 2) : skipDir s = false := by
  cases hs : skipDir s with
  | false => rfl
  | true =>
    simp only [skipDir, Bool.or_eq_true, beq_iff_eq] at hs
    rcases hs with (e | e) | e <;> (subst e; simp at h)

theorem skipDir_nameOK {t : Tbl} (ht : TblOK t) {l : Nat} {P s : Bytes} (h : NameOK t l P s) :
    skipDir s = false := by
  rcases h with ⟨_, _, sz, hs⟩ | ⟨_, _, hs⟩
  · exact (ht.2 _ (size?_mem t s sz hs)).2
  · exact skipDir_len hs

/-- `blob.Parse` of a supported ref's text succeeds and prints back to the text -/
theorem parse_supKey {t : Tbl} (ht : t.WF) {k : Bytes} (h : SupKey t k) :
    ∃ r, parse t k true = some r ∧ toText r = k ∧ WFKnown t r := by
  obtain ⟨r, hr, hk⟩ := h
  exact ⟨r, by rw [← hk]; exact C20_toText_parse_known t ht r hr true, hk, hr⟩

/-- a pruned directory holds nothing after the cursor -/
theorem pruned_allLt {after np : Bytes} {m : SMap Bytes} (h : pruned after np = true)
    (hm : ∀ q ∈ m, np <+: q.1) : AllLt after m := by
  simp only [pruned, Bool.and_eq_true] at h
  intro q hq
  obtain ⟨x, hx⟩ := hm q hq
  rw [← hx]
  exact prune_sound np after x h.2

/-- **the walk theorem**: on a tree in the store's layout, for ANY cursor string and any limit, the
pruned recursive walk with its shared countdown sends exactly the entries of the flat listing that
are strictly after the cursor, in listing order, cut at the limit – and leaves the countdown at
what is left of the limit -/
theorem walk_eq {t : Tbl} (ht : TblOK t) (after : Bytes) {tree : Tree} :
    ∀ {l : Nat} {P : Bytes}, Lay t l P tree → ∀ rem : Nat,
      walk t after P tree rem =
        some (enumOf (flat tree) after rem, rem - (enumOf (flat tree) after rem).length) := by
  induction tree with
  | nil => intro l P _ rem; simp [walk, flat, enumOf_nil]
  | file n b rest ih =>
    intro l P h rem
    obtain ⟨_, ⟨k, hk, _, hn⟩, _, hr⟩ := h
    subst hn
    cases rem with
    | zero => simp [walk, enumOf_zero]
    | succ m =>
      simp only [walk, Nat.add_one_ne_zero, if_false, skipDir_dat, isShardDir_dat, stripSuffix_dat,
        flat, dropDat_append, Bool.false_eq_true]
      by_cases ha : ltB after k = true
      · obtain ⟨r, hpr, htx, _⟩ := parse_supKey ht.1 hk
        have hle : leB k after = false := by simp [leB, ha]
        simp only [hle, Bool.false_eq_true, if_false, hpr, Nat.add_sub_cancel, ih hr m, htx,
          enumOf_cons_take m ha, List.length_cons]
        congr 2
        omega
      · have ha' : ltB after k = false := by cases hx : ltB after k <;> simp_all
        have hle : leB k after = true := by simp [leB, ha']
        simp only [hle, if_true, ih hr (m + 1), enumOf_cons_skip (m + 1) ha']
  | dir s sub rest ihs ihr =>
    intro l P h rem
    obtain ⟨_, hs, hsub, _, hr⟩ := h
    cases rem with
    | zero => simp [walk, enumOf_zero]
    | succ m =>
      simp only [walk, Nat.add_one_ne_zero, if_false, skipDir_nameOK ht hs, Bool.false_eq_true, flat]
      by_cases hp : pruned after (childPrefix P s) = true
      · simp only [hp, if_true, ihr hr (m + 1)]
        rw [enumOf_append, enumOf_all_le _ (pruned_allLt hp (lay_allPfx hsub))]
        simp
      · simp only [hp, Bool.false_eq_true, if_false, ihs hsub (m + 1), ihr hr]
        rw [enumOf_append]
        simp only [List.length_append]
        congr 2
        have : (enumOf (flat sub) after (m + 1)).length ≤ m + 1 := by
          simp only [enumOf, List.length_take]; omega
        omega

/-! ## from a ref text to its place in the tree -/

/-- what `blob.Parse` accepts is the text of a supported ref, or has a hash name outside the table -/
theorem parse_cases {t : Tbl} {k : Bytes} {r : Ref} (h : parse t k true = some r) :
    (WFKnown t r ∧ toText r = k) ∨ t.size? r.name = none := by
  have htx := C20_parse_toText t k true r h
  unfold parse at h
  cases hs : splitDash k with
  | none => simp [hs] at h
  | some p =>
    obtain ⟨name, hex⟩ := p
    simp only [hs] at h
    cases hz : t.size? name with
    | some size =>
      simp only [hz] at h
      split at h
      · cases h
      · rename_i hlen
        cases hd : hexDec hex with
        | none => simp [hd] at h
        | some sum =>
          simp only [hd] at h
          injection h with h; subst h
          obtain ⟨he, hb⟩ := hexEnc_hexDec hex sum hd
          have hl := hexEnc_length sum
          rw [he] at hl
          left
          refine ⟨⟨?_, hb, rfl⟩, htx⟩
          simp only [hz]
          congr 1
          simp at hlen
          omega
    | none =>
      simp only [hz] at h
      split at h
      · obtain ⟨_, hn, _⟩ := parseUnknown_spec t name hex r h
        right; rw [hn]; exact hz
      · cases h

theorem not_supKey_of_unknown {t : Tbl} (ht : t.WF) {k : Bytes} {r : Ref}
    (h : parse t k true = some r) (hz : t.size? r.name = none) : ¬ SupKey t k := by
  intro hk
  obtain ⟨r', hp, _, hw⟩ := parse_supKey ht hk
  rw [h] at hp
  injection hp with e
  subst e
  rw [hw.1] at hz
  cases hz

/-- the path of a supported ref: hash-name directory, two two-character directories, `<text>.dat`;
and the blob prefixes the walk builds on the way down are prefixes of the text -/
theorem loc_supKey {t : Tbl} (ht : TblOK t) {k : Bytes} (hk : SupKey t k) :
    ∃ nm s1 s2, locOf t k = some ⟨nm, s1, s2, k ++ dotDat⟩ ∧ NameOK t 0 [] nm ∧
      NameOK t 1 (childPrefix [] nm) s1 ∧
      NameOK t 2 (childPrefix (childPrefix [] nm) s1) s2 ∧
      childPrefix (childPrefix (childPrefix [] nm) s1) s2 <+: k := by
  obtain ⟨r, hpr, htx, hsz, _, hodd⟩ := parse_supKey ht.1 hk
  obtain ⟨nm, sum, odd⟩ := r
  simp only at hsz hodd
  subst hodd
  have h2 : 2 ≤ sum.length := (ht.2 _ (size?_mem t nm _ hsz)).1
  match sum, h2 with
  | a :: b :: rest, _ =>
    refine ⟨nm, [hexDigit (a / 16), hexDigit (a % 16)], [hexDigit (b / 16), hexDigit (b % 16)], ?_,
      Or.inl ⟨rfl, rfl, _, hsz⟩, Or.inr ⟨by omega, by simp [childPrefix], rfl⟩,
      Or.inr ⟨by omega, by simp [childPrefix], rfl⟩, ?_⟩
    · simp only [locOf, hpr, Option.map_some, locOfRef, padded, digest, baseName, hexEnc]
      rw [← htx]
      have hlen : ¬ ((hexEnc rest).length + 1 + 1 + 1 + 1 < 4) := by omega
      simp [toText, hexEnc, hlen]
    · rw [← htx]
      simp only [toText, hexEnc, childPrefix]
      simp

/-! ## the three storage operations on the whole tree -/

theorem store_ok {t : Tbl} (ht : TblOK t) {k : Bytes} (v : Bytes) {loc : Loc} {root : Tree}
    (hk : SupKey t k) (hloc : locOf t k = some loc) (h : Lay t 0 [] root) :
    Lay t 0 [] (root.store loc v) ∧ flat (root.store loc v) = ins k v (flat root) := by
  obtain ⟨nm, s1, s2, hl, h0, h1, h2, hp⟩ := loc_supKey ht hk
  rw [hl] at hloc
  injection hloc with e
  subst e
  have hp2 := (prefix_childPrefix _ s2).trans hp
  have hp1 := (prefix_childPrefix _ s1).trans hp2
  simp only [Tree.store]
  refine lay_inDir ht.1 v (by omega) h0 hp1 (fun d0 hd0 => ?_) h
  refine lay_inDir ht.1 v (by omega) h1 hp2 (fun d1 hd1 => ?_) hd0
  refine lay_inDir ht.1 v (by omega) h2 hp (fun d2 hd2 => ?_) hd1
  exact lay_putFile ht.1 v hd2 hk hp

theorem remove_ok {t : Tbl} (ht : TblOK t) {k : Bytes} {loc : Loc} {root : Tree}
    (hk : SupKey t k) (hloc : locOf t k = some loc) (h : Lay t 0 [] root) :
    Lay t 0 [] (root.remove loc) ∧ flat (root.remove loc) = del k (flat root) := by
  obtain ⟨nm, s1, s2, hl, h0, h1, h2, hp⟩ := loc_supKey ht hk
  rw [hl] at hloc
  injection hloc with e
  subst e
  have hp2 := (prefix_childPrefix _ s2).trans hp
  have hp1 := (prefix_childPrefix _ s1).trans hp2
  simp only [Tree.remove]
  refine lay_onDir ht.1 (by omega) h0 hp1 (fun d0 hd0 => ?_) h
  refine lay_onDir ht.1 (by omega) h1 hp2 (fun d1 hd1 => ?_) hd0
  refine lay_onDir ht.1 (by omega) h2 hp (fun d2 hd2 => ?_) hd1
  exact lay_rmFile hd2

theorem lookup_ok {t : Tbl} (ht : TblOK t) {k : Bytes} {loc : Loc} {root : Tree}
    (hk : SupKey t k) (hloc : locOf t k = some loc) (h : Lay t 0 [] root) :
    root.lookup loc = SMap.get (flat root) k := by
  obtain ⟨nm, s1, s2, hl, h0, h1, h2, hp⟩ := loc_supKey ht hk
  rw [hl] at hloc
  injection hloc with e
  subst e
  have hp2 := (prefix_childPrefix _ s2).trans hp
  have hp1 := (prefix_childPrefix _ s1).trans hp2
  simp only [Tree.lookup]
  have g0 := lay_getDir ht.1 (by omega) h0 hp1 h
  cases e0 : root.getDir nm with
  | none => rw [e0] at g0; exact g0.symm
  | some d0 =>
    rw [e0] at g0
    obtain ⟨hd0, q0⟩ := g0
    have g1 := lay_getDir ht.1 (by omega) h1 hp2 hd0
    cases e1 : d0.getDir s1 with
    | none => rw [e1] at g1; simp only [e1]; rw [q0]; exact g1.symm
    | some d1 =>
      rw [e1] at g1
      obtain ⟨hd1, q1⟩ := g1
      have g2 := lay_getDir ht.1 (by omega) h2 hp hd1
      cases e2 : d1.getDir s2 with
      | none => rw [e2] at g2; simp only [e1, e2]; rw [q0, q1]; exact g2.symm
      | some d2 =>
        rw [e2] at g2
        obtain ⟨hd2, q2⟩ := g2
        simp only [e1, e2]
        rw [q0, q1, q2]
        exact lay_getFile hd2

/-- at the root there are only directories of hash names in the table -/
theorem lay0_unknown {t : Tbl} {a : Bytes} (f : Tree → Tree) {root : Tree} (h : Lay t 0 [] root)
    (ha : t.size? a = none) : root.getDir a = none ∧ root.onDir a f = root := by
  induction root with
  | nil => exact ⟨rfl, rfl⟩
  | file n b rest _ => obtain ⟨h3, _⟩ := h; omega
  | dir n sub rest _ ih =>
    obtain ⟨_, hn, _, _, hr⟩ := h
    obtain ⟨i1, i2⟩ := ih hr
    have hne : a ≠ n := by
      intro e; subst e
      rcases hn with ⟨_, _, sz, hs⟩ | ⟨hl, _⟩
      · rw [ha] at hs; cases hs
      · omega
    simp [Tree.getDir, Tree.onDir, hne, i1, i2]

/-- a key that is not a supported ref's text is not in the listing -/
theorem noKey_of_not_supKey {t : Tbl} {l : Nat} {P k : Bytes} {root : Tree} (h : Lay t l P root)
    (hk : ¬ SupKey t k) : NoKey k (flat root) := by
  intro q hq e
  exact hk (e ▸ lay_supKey h q hq)

/-- a key that `blob.Parse` rejects is not in the listing -/
theorem noKey_of_no_parse {t : Tbl} (ht : t.WF) {l : Nat} {P k : Bytes} {root : Tree}
    (h : Lay t l P root) (hp : parse t k true = none) : NoKey k (flat root) := by
  apply noKey_of_not_supKey h
  intro hk
  obtain ⟨r, hr, _⟩ := parse_supKey ht hk
  rw [hp] at hr; cases hr

/-- Stat/Open of `blobPath` is `get` on the listing, for every text `blob.Parse` accepts (a ref of an
unknown hash is looked up under a directory that does not exist) -/
theorem lookup_eq_get {t : Tbl} (ht : TblOK t) {k : Bytes} {loc : Loc} {root : Tree}
    (h : Lay t 0 [] root) (hloc : locOf t k = some loc) :
    root.lookup loc = SMap.get (flat root) k := by
  cases hp : parse t k true with
  | none => simp [locOf, hp] at hloc
  | some r =>
    rcases parse_cases hp with ⟨hw, htx⟩ | hz
    · exact lookup_ok ht ⟨r, hw, htx⟩ hloc h
    · simp only [locOf, hp, Option.map_some, Option.some.injEq] at hloc
      subst hloc
      rw [get_noKey (noKey_of_not_supKey h (not_supKey_of_unknown ht.1 hp hz))]
      simp [Tree.lookup, locOfRef, (lay0_unknown id h hz).1]

/-- `Remove(blobPath)` is `del` on the listing, for every text `blob.Parse` accepts -/
theorem remove_eq_del {t : Tbl} (ht : TblOK t) {k : Bytes} {loc : Loc} {root : Tree}
    (h : Lay t 0 [] root) (hloc : locOf t k = some loc) :
    Lay t 0 [] (root.remove loc) ∧ flat (root.remove loc) = del k (flat root) := by
  cases hp : parse t k true with
  | none => simp [locOf, hp] at hloc
  | some r =>
    rcases parse_cases hp with ⟨hw, htx⟩ | hz
    · exact remove_ok ht ⟨r, hw, htx⟩ hloc h
    · simp only [locOf, hp, Option.map_some, Option.some.injEq] at hloc
      subst hloc
      rw [del_noKey (noKey_of_not_supKey h (not_supKey_of_unknown ht.1 hp hz))]
      simp only [Tree.remove, locOfRef, (lay0_unknown _ h hz).2]
      exact ⟨h, trivial⟩

theorem noKey_of_no_loc {t : Tbl} (ht : TblOK t) {k : Bytes} {root : Tree}
    (h : Lay t 0 [] root) (hloc : locOf t k = none) : NoKey k (flat root) := by
  apply noKey_of_no_parse ht.1 h
  simpa [locOf] using hloc

end Pk.Files

/-! ## refinement on the histories a store accepts -/
namespace Pk.RefMap
open Pk.SMap

/-- `Refines` with a per-operation side condition `OK` (which keys the store accepts at all) -/
structure RefinesOn (content : Bytes → Bytes) (I : Impl) (OK : Op → Prop) where
  abs : I.σ → SMap Bytes
  Inv : I.σ → Prop
  init_inv : Inv I.init
  init_abs : abs I.init = []
  good : ∀ s, Inv s → Good content (abs s)
  step_ok : ∀ s op, Inv s → op.WK content → OK op →
    (I.step s op).2 = out (abs s) op ∧ abs (I.step s op).1 = next (abs s) op ∧ Inv (I.step s op).1

theorem RefinesOn.run_eq {content : Bytes → Bytes} {I : Impl} {OK : Op → Prop}
    (R : RefinesOn content I OK) (s : I.σ) (h : R.Inv s) (ops : List Op)
    (hops : ∀ op ∈ ops, op.WK content) (hok : ∀ op ∈ ops, OK op) :
    I.run s ops = run (R.abs s) ops := by
  induction ops generalizing s with
  | nil => rfl
  | cons op ops ih =>
    obtain ⟨ho, ha, hi⟩ := R.step_ok s op h (hops op (by simp)) (hok op (by simp))
    simp only [Impl.run, run, ho]
    rw [ih _ hi (fun o ho' => hops o (by simp [ho'])) (fun o ho' => hok o (by simp [ho'])), ha]

theorem RefinesOn.run_init {content : Bytes → Bytes} {I : Impl} {OK : Op → Prop}
    (R : RefinesOn content I OK) (ops : List Op)
    (hops : ∀ op ∈ ops, op.WK content) (hok : ∀ op ∈ ops, OK op) :
    I.run I.init ops = run [] ops := by
  rw [R.run_eq I.init R.init_inv ops hops hok, R.init_abs]

/-- an unconditional refinement is one under any side condition -/
def Refines.toOn {content : Bytes → Bytes} {I : Impl} (R : Refines content I) (OK : Op → Prop) :
    RefinesOn content I OK where
  abs := R.abs
  Inv := R.Inv
  init_inv := R.init_inv
  init_abs := R.init_abs
  good := R.good
  step_ok := fun s op h hop _ => R.step_ok s op h hop

end Pk.RefMap

namespace Pk.Files
open Pk Pk.SMap Pk.Ref Pk.RefMap

/-- the key predicate of the store: `blob.Parse` accepts the text and the ref `IsSupported` (its hash
name is in the table) -/
def SupK (t : Tbl) (k : Bytes) : Prop := ∃ r, parse t k true = some r ∧ supported t r = true

instance (t : Tbl) (k : Bytes) : Decidable (SupK t k) :=
  match h : parse t k true with
  | none => isFalse (by rintro ⟨r, hr, _⟩; rw [h] at hr; cases hr)
  | some r =>
    if hs : supported t r = true then isTrue ⟨r, h, hs⟩
    else isFalse (by rintro ⟨r', hr, hs'⟩; rw [h] at hr; cases hr; exact hs hs')

/-- `SupK` (computable: parse and look the name up) is `SupKey` (the text of a well-formed ref) -/
theorem supKey_of_supK {t : Tbl} {k : Bytes} (h : SupK t k) : SupKey t k := by
  obtain ⟨r, hp, hs⟩ := h
  rcases parse_cases hp with ⟨hw, htx⟩ | hz
  · exact ⟨r, hw, htx⟩
  · simp [supported, hz] at hs

theorem supK_of_supKey {t : Tbl} (ht : t.WF) {k : Bytes} (h : SupKey t k) : SupK t k := by
  obtain ⟨r, hp, _, hw⟩ := parse_supKey ht h
  exact ⟨r, hp, by simp [supported, hw.1]⟩

theorem supK_iff_supKey {t : Tbl} (ht : t.WF) (k : Bytes) : SupK t k ↔ SupKey t k :=
  ⟨supKey_of_supK, supK_of_supKey ht⟩

/-- hex text has only characters from `0` up -/
theorem hexEnc_ge (b : Bytes) : ∀ c ∈ hexEnc b, 48 ≤ c := by
  induction b with
  | nil => intro c hc; simp [hexEnc] at hc
  | cons x xs ih =>
    intro c hc
    simp only [hexEnc, List.mem_cons] at hc
    rcases hc with e | e | e
    · subst e; unfold hexDigit; split <;> omega
    · subst e; unfold hexDigit; split <;> omega
    · exact ih c e

/-- the shape of an accepted key: `name-hexdigits`, no `-` in the name, only characters from `0` up
(in particular no space) after it -/
theorem supK_form {t : Tbl} (ht : t.WF) {k : Bytes} (h : SupK t k) :
    ∃ nm hx, k = nm ++ 45 :: hx ∧ 45 ∉ nm ∧ ∀ c ∈ hx, 48 ≤ c := by
  obtain ⟨nm, sum, hs, _, hk⟩ := supKey_text (supKey_of_supK h)
  exact ⟨nm, hexEnc sum, hk, validName_no_dash _ (known_name_valid t ht _ _ hs).1, hexEnc_ge sum⟩

/-- received keys satisfy `SupK`: this IS `Op.KOK (SupK t)` of Spec/RefMap -/
def KeyOK (t : Tbl) (op : Op) : Prop := op.KOK (SupK t)

theorem keyOK_iff (t : Tbl) (op : Op) : KeyOK t op ↔ op.KOK (SupK t) := Iff.rfl

instance (t : Tbl) (op : Op) : Decidable (KeyOK t op) := by
  unfold KeyOK Op.KOK
  split <;> infer_instance

theorem supKey_of_keyOK {t : Tbl} {k v : Bytes} (h : KeyOK t (.recv k v)) : SupKey t k :=
  supKey_of_supK h

/-- the invariant of the store: the tree is in the layout, and its listing is a good map -/
def FilesInv (t : Tbl) (content : Bytes → Bytes) (root : Tree) : Prop :=
  Lay t 0 [] root ∧ Good content (flat root)

/-- **the file-per-blob store refines the reference map** on histories whose received keys are
texts of supported-hash refs (any table with `TblOK`; fetch/stat/remove/enumerate arguments are
arbitrary strings) -/
def filesRefines (t : Tbl) (ht : TblOK t) (content : Bytes → Bytes) :
    RefinesOn content (filesImpl t) (KeyOK t) where
  abs := flat
  Inv := FilesInv t content
  init_inv := ⟨trivial, good_nil content⟩
  init_abs := rfl
  good := fun _ h => h.2
  step_ok := by
    intro root op ⟨hL, hG⟩ hop hok
    cases op with
    | recv k v =>
      have hk := supKey_of_keyOK hok
      obtain ⟨nm, s1, s2, hloc, _⟩ := loc_supKey ht hk
      obtain ⟨hs1, hs2⟩ := store_ok ht v hk hloc hL
      have hnext : flat (root.store ⟨nm, s1, s2, k ++ dotDat⟩ v) = next (flat root) (.recv k v) := by
        rw [hs2]
        simp only [next]
        cases hg : SMap.get (flat root) k with
        | none => simp [has, hg]
        | some w =>
          have hw := (hG.2 k w hg).1
          rw [hw, ← hop.1] at hg
          simp only [has, hg, Option.isSome_some, if_true]
          exact ins_same hG.1 hg
      simp only [filesImpl, hloc]
      refine ⟨rfl, hnext, hs1, ?_⟩
      rw [hnext]
      exact good_next hG _ hop
    | fetch k =>
      simp only [filesImpl, out, next]
      cases hloc : locOf t k with
      | none => simp [get_noKey (noKey_of_no_loc ht hL hloc)]; exact ⟨hL, hG⟩
      | some loc =>
        simp only [lookup_eq_get ht hL hloc]
        cases SMap.get (flat root) k <;> exact ⟨rfl, rfl, hL, hG⟩
    | stat k =>
      simp only [filesImpl, out, next]
      cases hloc : locOf t k with
      | none => simp [get_noKey (noKey_of_no_loc ht hL hloc)]; exact ⟨hL, hG⟩
      | some loc =>
        simp only [lookup_eq_get ht hL hloc]
        cases SMap.get (flat root) k <;> exact ⟨rfl, rfl, hL, hG⟩
    | rm k =>
      have hG' := good_next hG (.rm k) trivial
      simp only [next] at hG'
      simp only [filesImpl, out, next]
      cases hloc : locOf t k with
      | none =>
        simp only [del_noKey (noKey_of_no_loc ht hL hloc)]
        exact ⟨trivial, trivial, hL, hG⟩
      | some loc =>
        obtain ⟨r1, r2⟩ := remove_eq_del ht hL hloc
        refine ⟨rfl, r2, r1, ?_⟩
        simp only
        rw [r2]; exact hG'
    | enum after limit =>
      simp only [filesImpl, out, next, enumerate, walk_eq ht after hL limit]
      exact ⟨trivial, trivial, hL, hG⟩

/-- EnumerateBlobs on any tree in the layout: exactly the specification of enumerate on the listing -/
theorem enumerate_eq {t : Tbl} (ht : TblOK t) {root : Tree} (h : Lay t 0 [] root)
    (after : Bytes) (limit : Nat) :
    enumerate t root after limit = .refs (enumOf (flat root) after limit) := by
  simp only [enumerate, walk_eq ht after h limit]

/-- the store and the reference map answer every such history alike -/
theorem files_run_eq_tbl (t : Tbl) (ht : TblOK t) (content : Bytes → Bytes) (ops : List Op)
    (hwk : ∀ op ∈ ops, op.WK content) (hk : ∀ op ∈ ops, KeyOK t op) :
    (filesImpl t).run (filesImpl t).init ops = RefMap.run [] ops :=
  (filesRefines t ht content).run_init ops hwk hk

/-- … with the hash table of /repo (sha1, sha224, sha256) -/
theorem files_run_eq (content : Bytes → Bytes) (ops : List Op)
    (hwk : ∀ op ∈ ops, op.WK content) (hk : ∀ op ∈ ops, KeyOK gtbl op) :
    (filesImpl gtbl).run (filesImpl gtbl).init ops = RefMap.run [] ops :=
  files_run_eq_tbl gtbl gtbl_ok content ops hwk hk

/-- every key the store holds is an accepted key (from the layout: every file is `<text>.dat` of a
supported ref) -/
theorem filesInv_keys {t : Tbl} (ht : TblOK t) {content : Bytes → Bytes} {root : Tree}
    (h : FilesInv t content root) {k v : Bytes} (hg : SMap.get (flat root) k = some v) : SupK t k :=
  supK_of_supKey ht.1 (lay_supKey h.1 (k, v) (get_some_mem hg))

/-- the same refinement in the combinator-ready form of Spec/RefMap: a `RefinesK` for the key
predicate `SupK t` -/
def filesRefinesK (t : Tbl) (ht : TblOK t) (content : Bytes → Bytes) :
    RefinesK content (SupK t) (filesImpl t) where
  abs := flat
  Inv := FilesInv t content
  init_inv := (filesRefines t ht content).init_inv
  init_abs := rfl
  good := fun _ h => h.2
  keys := fun _ h _ _ hg => filesInv_keys ht h hg
  step_ok := fun s op h hop hk => (filesRefines t ht content).step_ok s op h hop hk

theorem filesRefinesK_abs (t : Tbl) (ht : TblOK t) (content : Bytes → Bytes) :
    (filesRefinesK t ht content).abs = flat := rfl

theorem filesRefinesK_inv (t : Tbl) (ht : TblOK t) (content : Bytes → Bytes) :
    (filesRefinesK t ht content).Inv = FilesInv t content := rfl

/-- `files_run_eq_tbl` through `RefinesK.run_init` -/
theorem files_run_eq_K (t : Tbl) (ht : TblOK t) (content : Bytes → Bytes) (ops : List Op)
    (hwk : ∀ op ∈ ops, op.WK content) (hk : ∀ op ∈ ops, op.KOK (SupK t)) :
    (filesImpl t).run (filesImpl t).init ops = RefMap.run [] ops :=
  (filesRefinesK t ht content).run_init ops hwk hk

/-! ## outside the scope: what `KeyOK` and `TblOK` exclude, with witnesses

`blob.Parse` also accepts refs of hash names outside the table (`parseUnknown`), with digests of any
length from 1 hex digit.  The store takes them, but its enumeration is then NOT the specification:

* digests of fewer than 4 hex digits are filed under `____`-padded shard directories, and `_` sorts
  after the digits `0-9`: `foo-abc` lives in `foo/ab/c_/`, `foo-abc0` in `foo/ab/c0/`, and the walk
  sends `foo-abc0` BEFORE `foo-abc` (checked against the Go code: same answer);
* a hash called `cache`, `packed` or `partition` is a directory the walk skips: `cache-abcd` is
  stored, fetched and statted, but never enumerated (checked against the Go code: same answer).

Both are excluded by `KeyOK` (supported hashes only) together with `TblOK` (digests ≥ 2 bytes, no
hash with a skipped name). -/

/-- `foo-abc0`, `foo-abc`: the enumeration is out of order -/
theorem files_short_digest_counterexample :
    (filesImpl gtbl).run .nil
      [.recv [102, 111, 111, 45, 97, 98, 99, 48] [1], .recv [102, 111, 111, 45, 97, 98, 99] [2],
       .enum [] 10] =
      [.sized 1, .sized 1,
       .refs [([102, 111, 111, 45, 97, 98, 99, 48], 1), ([102, 111, 111, 45, 97, 98, 99], 1)]] ∧
    RefMap.run []
      [.recv [102, 111, 111, 45, 97, 98, 99, 48] [1], .recv [102, 111, 111, 45, 97, 98, 99] [2],
       .enum [] 10] =
      [.sized 1, .sized 1,
       .refs [([102, 111, 111, 45, 97, 98, 99], 1), ([102, 111, 111, 45, 97, 98, 99, 48], 1)]] ∧
    ¬ KeyOK gtbl (.recv [102, 111, 111, 45, 97, 98, 99] [2]) := by
  refine ⟨by decide, by decide, by decide⟩

/-- `cache-abcd`: stored and fetched, never enumerated -/
theorem files_skipdir_counterexample :
    (filesImpl gtbl).run .nil
      [.recv [99, 97, 99, 104, 101, 45, 97, 98, 99, 100] [7], .fetch [99, 97, 99, 104, 101, 45, 97, 98, 99, 100],
       .enum [] 10] = [.sized 1, .bytes [7], .refs []] ∧
    RefMap.run []
      [.recv [99, 97, 99, 104, 101, 45, 97, 98, 99, 100] [7], .fetch [99, 97, 99, 104, 101, 45, 97, 98, 99, 100],
       .enum [] 10] = [.sized 1, .bytes [7], .refs [([99, 97, 99, 104, 101, 45, 97, 98, 99, 100], 1)]] ∧
    ¬ KeyOK gtbl (.recv [99, 97, 99, 104, 101, 45, 97, 98, 99, 100] [7]) := by
  refine ⟨by decide, by decide, by decide⟩

/-- non-vacuity: the text of a sha1 ref is an accepted key, and a history over it runs as the theorem says -/
example : KeyOK gtbl (.recv (toText ⟨[115, 104, 97, 49], List.replicate 20 171, false⟩) [1, 2, 3]) := by
  decide

example :
    (filesImpl gtbl).run .nil
      [.recv (toText ⟨[115, 104, 97, 49], List.replicate 20 171, false⟩) [1, 2, 3],
       .enum [115, 104, 97, 49, 45, 97, 98, 97] 1, .enum [115, 104, 97, 49, 45, 97, 99] 1] =
      [.sized 3, .refs [(toText ⟨[115, 104, 97, 49], List.replicate 20 171, false⟩, 3)], .refs []] := by
  decide

end Pk.Files
