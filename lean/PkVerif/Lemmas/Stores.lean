import PkVerif.Model.Stores
import PkVerif.Lemmas.MergedEnum
/-! Helper lemmas for C01: key-preserving maps over `SMap`, the inclusive-Find/exclusive-cursor rule. -/
namespace Pk.Stores
open Pk Pk.SMap Pk.RefMap

/-! ### key-preserving value maps -/

/-- replace every value by a function of its key -/
def mapK {V W : Type} (f : Bytes → W) (m : SMap V) : SMap W := m.map (fun p => (p.1, f p.1))

theorem kasc_mapK {V W : Type} (f : Bytes → W) {m : SMap V} (h : KAsc m) : KAsc (mapK f m) := by
  unfold KAsc mapK
  rw [List.pairwise_map]
  exact h

theorem get_mapK {V W : Type} (f : Bytes → W) (m : SMap V) (k : Bytes) :
    SMap.get (mapK f m) k = if has m k then some (f k) else none := by
  induction m with
  | nil => simp [mapK, SMap.get, has]
  | cons p rest ih =>
    obtain ⟨k', v⟩ := p
    by_cases hk : k = k'
    · subst hk; simp [mapK, SMap.get, has]
    · simp only [mapK, List.map_cons, SMap.get, has, hk, if_false] at ih ⊢
      exact ih

theorem has_ins {V : Type} (k : Bytes) (v : V) (m : SMap V) (x : Bytes) :
    has (ins k v m) x = (decide (x = k) || has m x) := by
  unfold has; rw [get_ins]
  by_cases hx : x = k <;> simp [hx]

theorem has_del {V : Type} (k : Bytes) {m : SMap V} (hm : KAsc m) (x : Bytes) :
    has (del k m) x = (!decide (x = k) && has m x) := by
  unfold has; rw [get_del k hm]
  by_cases hx : x = k <;> simp [hx]

theorem mapK_ins {V W : Type} (f : Bytes → W) (k : Bytes) (v : V) (m : SMap V) :
    mapK f (ins k v m) = ins k (f k) (mapK f m) := by
  induction m with
  | nil => simp [mapK, ins]
  | cons p rest ih =>
    obtain ⟨k', v'⟩ := p
    simp only [mapK, List.map_cons, ins] at ih ⊢
    by_cases h1 : ltB k k' = true
    · simp [h1]
    · simp only [h1, Bool.false_eq_true, if_false]
      by_cases h2 : k = k'
      · subst h2; simp
      · simp [h2, ih]

theorem mapK_del {V W : Type} (f : Bytes → W) (k : Bytes) (m : SMap V) :
    mapK f (del k m) = del k (mapK f m) := by
  induction m with
  | nil => simp [mapK, del]
  | cons p rest ih =>
    obtain ⟨k', v'⟩ := p
    simp only [mapK, List.map_cons, del] at ih ⊢
    by_cases h : k = k'
    · simp [h]
    · simp [h, ih]

theorem mapK_filter {V W : Type} (f : Bytes → W) (p : Bytes → Bool) (m : SMap V) :
    (mapK f m).filter (fun q => p q.1) = mapK f (m.filter (fun q => p q.1)) := by
  induction m with
  | nil => rfl
  | cons q rest ih =>
    simp only [mapK, List.map_cons, List.filter_cons] at ih ⊢
    by_cases h : p q.1 = true
    · simp [h, ih]
    · simp [h, ih]

/-- the sizes view of `mapK content inv` is `inv` itself when every inventory size is the content length -/
theorem sizes_mapK (content : Bytes → Bytes) (inv : SMap Nat)
    (h : ∀ p ∈ inv, p.2 = (content p.1).length) : sizes (mapK content inv) = inv := by
  induction inv with
  | nil => rfl
  | cons p rest ih =>
    have hp := h p (by simp)
    simp only [sizes, mapK, List.map_cons, List.map_map] at ih ⊢
    rw [ih (fun q hq => h q (by simp [hq]))]
    obtain ⟨k, n⟩ := p
    simp at hp ⊢; exact hp.symm

/-! ### inclusive `Find(after, "")` + "skip the row equal to the cursor" = strictly after the cursor -/

theorem filter_ge_eq_of_head_ge {V : Type} {m : SMap V} (hm : KAsc m) (after : Bytes) :
    ∀ p rest, m.filter (fun p => !ltB p.1 after) = p :: rest →
      (p.1 = after → rest = m.filter (fun q => ltB after q.1)) ∧
      (p.1 ≠ after → p :: rest = m.filter (fun q => ltB after q.1)) := by
  intro p rest hf
  have hall : ∀ q ∈ m, (!ltB q.1 after) = true → (q.1 = after ∨ ltB after q.1 = true) := by
    intro q _ hq
    rcases ltB_total q.1 after with h | h | h
    · simp [h] at hq
    · exact Or.inl h
    · exact Or.inr h
  -- both filters agree except on the key `after` itself
  have key : m.filter (fun q => ltB after q.1) = (m.filter (fun p => !ltB p.1 after)).filter (fun q => q.1 ≠ after) := by
    rw [List.filter_filter]
    apply List.filter_congr
    intro q hq
    by_cases h1 : ltB after q.1 = true
    · have h2 : ltB q.1 after = false := ltB_asymm _ _ h1
      have h3 : q.1 ≠ after := by intro e; rw [e, ltB_irrefl] at h1; cases h1
      simp [h1, h2, h3]
    · have h1' : ltB after q.1 = false := by cases h : ltB after q.1 <;> simp_all
      by_cases h2 : ltB q.1 after = true
      · simp [h1', h2]
      · have : q.1 = after := by
          rcases ltB_total q.1 after with h | h | h
          · exact absurd h h2
          · exact h
          · rw [h1'] at h; cases h
        simp [h1', this, ltB_irrefl]
  have hasc : KAsc (p :: rest) := by rw [← hf]; exact kasc_filter _ hm
  have hrest_ne : ∀ q ∈ rest, q.1 ≠ p.1 := by
    intro q hq e
    have := kasc_head_lt hasc q hq
    rw [e, ltB_irrefl] at this; cases this
  rw [key, hf]
  constructor
  · intro hp
    simp only [List.filter_cons, hp, ne_eq, not_true_eq_false, decide_false, Bool.false_eq_true, if_false]
    symm
    apply List.filter_eq_self.mpr
    intro q hq
    have := hrest_ne q hq
    rw [hp] at this
    simp [this]
  · intro hp
    have hgt : ∀ q ∈ rest, q.1 ≠ after := by
      intro q hq e
      -- p.1 ≥ after, p.1 ≠ after, so after < p.1 < q.1 = after: contradiction
      have hpge : (!ltB p.1 after) = true := by
        have : p ∈ m.filter (fun p => !ltB p.1 after) := by rw [hf]; simp
        exact (List.mem_filter.mp this).2
      have hpa : ltB after p.1 = true := by
        rcases ltB_total p.1 after with h | h | h
        · simp [h] at hpge
        · exact absurd h hp
        · exact h
      have hpq := kasc_head_lt hasc q hq
      rw [e] at hpq
      have := ltB_trans _ _ _ hpa hpq
      rw [ltB_irrefl] at this; cases this
    simp only [List.filter_cons, ne_eq, hp, not_false_eq_true, decide_true, if_true]
    congr 1
    symm
    apply List.filter_eq_self.mpr
    intro q hq
    simp [hgt q hq]

/-- the exclusive-cursor rule over an inclusive range scan, for ANY cursor string -/
theorem findSkip_eq_filter_gt {V : Type} {m : SMap V} (hm : KAsc m) (hne : ∀ p ∈ m, p.1 ≠ [])
    (after : Bytes) :
    findSkip m after = m.filter (fun q => ltB after q.1) := by
  unfold findSkip
  cases hf : m.filter (fun p => !ltB p.1 after) with
  | nil =>
    simp only
    symm
    apply List.filter_eq_nil_iff.mpr
    intro q hq hlt
    have : q ∈ m.filter (fun p => !ltB p.1 after) := by
      apply List.mem_filter.mpr
      exact ⟨hq, by simp [ltB_asymm _ _ hlt]⟩
    rw [hf] at this; cases this
  | cons p rest =>
    obtain ⟨h1, h2⟩ := filter_ge_eq_of_head_ge hm after p rest hf
    simp only
    by_cases hp : p.1 = after
    · by_cases ha : after = []
      · -- the empty cursor never equals a key: keys (ref texts) are non-empty
        have hpm : p ∈ m := by
          have : p ∈ m.filter (fun p => !ltB p.1 after) := by rw [hf]; simp
          exact (List.mem_filter.mp this).1
        exact absurd (hp.trans ha) (hne p hpm)
      · simp [ha, hp, h1 hp]
    · have : ¬ (after ≠ [] ∧ p.1 = after) := by intro h; exact hp h.2
      simp only [this, if_false]
      exact h2 hp

end Pk.Stores
