import PkVerif.Model.SearchPage
import PkVerif.Lemmas.Ref
/-! Helper lemmas for C09 (decimal codec, token codec, the order, insertion sort, the query callback). -/
namespace Pk.SearchPage
open Pk Pk.Ref

/-! ## decimal codec -/

theorem revDigitsF_spec : ∀ (f n : Nat), n < f →
    revDigitsF f n ≠ [] ∧ (∀ d ∈ revDigitsF f n, d < 10) ∧
    (revDigitsF f n).foldr (fun d a => a * 10 + d) 0 = n := by
  intro f
  induction f with
  | zero => intro n h; omega
  | succ f ih =>
    intro n h
    unfold revDigitsF
    by_cases hn : n < 10
    · simp [hn]
    · simp only [hn, if_false]
      obtain ⟨_, h2, h3⟩ := ih (n / 10) (by omega)
      refine ⟨by simp, ?_, ?_⟩
      · intro d hd
        cases hd with
        | head => omega
        | tail _ hd' => exact h2 d hd'
      · simp only [List.foldr_cons, h3]; omega

theorem parseDigits_map : ∀ (l : List Nat) (acc : Nat), (∀ d ∈ l, d < 10) →
    parseDigits (l.map (· + 48)) acc = some (l.foldl (fun a d => a * 10 + d) acc) := by
  intro l
  induction l with
  | nil => intro acc _; rfl
  | cons d ds ih =>
    intro acc h
    have hd : d < 10 := h d (by simp)
    have : digitVal (d + 48) = some d := by
      unfold digitVal; rw [if_pos (by omega)]; simp
    simp only [List.map_cons, parseDigits, this, List.foldl_cons]
    exact ih _ (fun x hx => h x (by simp [hx]))

theorem decEnc_ne_nil (n : Nat) : decEnc n ≠ [] := by
  have := (revDigitsF_spec (n + 1) n (by omega)).1
  simp [decEnc, revDigits, this]

theorem decEnc_digits (n : Nat) : ∀ c ∈ decEnc n, 48 ≤ c ∧ c ≤ 57 := by
  intro c hc
  have h2 := (revDigitsF_spec (n + 1) n (by omega)).2.1
  simp only [decEnc, revDigits, List.mem_map, List.mem_reverse] at hc
  obtain ⟨d, hd, rfl⟩ := hc
  have := h2 d hd
  omega

theorem parseDigits_decEnc (n : Nat) : parseDigits (decEnc n) 0 = some n := by
  obtain ⟨_, h2, h3⟩ := revDigitsF_spec (n + 1) n (by omega)
  unfold decEnc revDigits
  rw [parseDigits_map _ _ (by intro d hd; exact h2 d (by simpa using hd)), List.foldl_reverse]
  exact congrArg some h3

theorem parseUint_decEnc (n : Nat) (h : n < 18446744073709551616) : parseUint (decEnc n) = some n := by
  unfold parseUint
  have : (decEnc n).isEmpty = false := by
    cases hd : decEnc n with
    | nil => exact absurd hd (decEnc_ne_nil n)
    | cons _ _ => rfl
  simp [this, parseDigits_decEnc, h]

theorem decEnc_head (n : Nat) : ∃ c cs, decEnc n = c :: cs ∧ 48 ≤ c ∧ c ≤ 57 := by
  cases hd : decEnc n with
  | nil => exact absurd hd (decEnc_ne_nil n)
  | cons c cs => exact ⟨c, cs, rfl, decEnc_digits n c (by simp [hd])⟩

/-- `%d` then `ParseInt` is the identity on int64 -/
theorem parseInt_showInt (n : Int) (h : InInt64 n) : parseInt (showInt n) = some n := by
  obtain ⟨h1, h2⟩ := h
  unfold showInt
  by_cases hn : n < 0
  · have hu := parseUint_decEnc n.natAbs (by omega)
    simp only [hn, if_true]
    unfold parseInt
    simp only [List.isEmpty_cons, Bool.false_eq_true, if_false, List.head?_cons, List.tail_cons]
    simp only [show (some 45 == some 45) = true from rfl, Bool.or_true, if_true, hu]
    rw [if_neg (by simp), if_neg (by simp; omega)]
    simp; omega
  · obtain ⟨c, cs, hc, hc1, hc2⟩ := decEnc_head n.natAbs
    have hu := parseUint_decEnc n.natAbs (by omega)
    simp only [hn, if_false]
    unfold parseInt
    have e1 : ((c :: cs).head? == some 45) = false := by simp; omega
    have e2 : ((c :: cs).head? == some 43) = false := by simp; omega
    rw [hc] at hu ⊢
    simp only [List.isEmpty_cons, Bool.false_eq_true, if_false, e1, e2, Bool.or_false, hu]
    rw [if_neg (by simp; omega), if_neg (by simp)]
    simp; omega

theorem showInt_no_colon (n : Int) : 58 ∉ showInt n := by
  unfold showInt
  intro h
  by_cases hn : n < 0
  · simp only [hn, if_true, List.mem_cons] at h
    rcases h with h | h
    · omega
    · have := decEnc_digits _ _ h; omega
  · simp only [hn, if_false] at h
    have := decEnc_digits _ _ h; omega

theorem splitColon_append : ∀ (a rest : Bytes), 58 ∉ a → splitColon (a ++ 58 :: rest) = some (a, rest) := by
  intro a
  induction a with
  | nil => intro rest _; simp [splitColon]
  | cons c cs ih =>
    intro rest h
    have hc : c ≠ 58 := fun e => h (by simp [e])
    have := ih rest (fun e => h (by simp [e]))
    simp [splitColon, hc, this]

theorem wrap64_id (t : Int) (h : InInt64 t) : wrap64 t = t := by
  obtain ⟨h1, h2⟩ := h
  unfold wrap64; omega

theorem wrap64_inInt64 (t : Int) : InInt64 (wrap64 t) := by
  unfold wrap64 InInt64; omega

/-- the codec round trip of the repaired parser: for ANY time, the token decodes to `UnixNano` of the
time (which is the time itself exactly when it fits int64 nanoseconds) and to the ref -/
theorem token_roundtrip (tbl : Tbl) (ht : tbl.WF) (t : Int) (r : Ref) (hr : WFKnown tbl r) :
    parsePermanodeContinueToken tbl true (encodeToken t r) = some (unixNano t, r) := by
  have hp : parse tbl (toText r) true = some r := by
    obtain ⟨hsz, hb, hodd⟩ := hr
    obtain ⟨hv, _⟩ := known_name_valid tbl ht _ _ hsz
    have hnd := validName_no_dash _ hv
    rw [toText_known r hodd]
    unfold parse
    rw [splitDash_append _ _ hnd]
    simp only [hsz, hexEnc_length]
    rw [if_neg (by simp; omega), hexDec_hexEnc _ hb]
    cases r; simp_all
  unfold parsePermanodeContinueToken encodeToken
  have hc : cutPrefix pnPrefix (pnPrefix ++ (showInt (unixNano t) ++ 58 :: toText r))
      = some (showInt (unixNano t) ++ 58 :: toText r) := by
    simp [cutPrefix, pnPrefix, List.isPrefixOf]
  have hi : parseInt (showInt (unixNano t)) = some (unixNano t) :=
    parseInt_showInt (unixNano t) (wrap64_inInt64 t)
  simp only [hc, splitColon_append _ _ (showInt_no_colon _), if_true, hi, hp]

theorem encodeToken_not_empty (t : Int) (r : Ref) : (encodeToken t r).isEmpty = false := by
  simp [encodeToken, pnPrefix]

/-! ## the enumeration order is a strict total order -/

theorem lessK_irrefl (a : RefKey) : lessK a a = false := by
  simp [lessK, less, RefKey.toRef, ltB_irrefl]

theorem lessK_trans (a b c : RefKey) (h1 : lessK a b = true) (h2 : lessK b c = true) : lessK a c = true := by
  simp only [lessK, less, RefKey.toRef] at *
  by_cases hab : a.name = b.name <;> by_cases hbc : b.name = c.name
  · have hac : a.name = c.name := hab.trans hbc
    simp_all
    exact ltB_trans _ _ _ h1 h2
  · have hac : a.name ≠ c.name := by rw [hab]; exact hbc
    simp_all
  · have hac : a.name ≠ c.name := by rw [← hbc]; exact hab
    simp_all
  · simp [hab] at h1
    simp [hbc] at h2
    have h3 := ltB_trans _ _ _ h1 h2
    have hac : a.name ≠ c.name := by
      intro e; rw [e, ltB_irrefl] at h3; cases h3
    simp [hac, h3]

theorem lessK_total (a b : RefKey) : lessK a b = true ∨ a = b ∨ lessK b a = true := by
  simp only [lessK, less, RefKey.toRef]
  by_cases hab : a.name = b.name
  · rcases ltB_total a.sum b.sum with h | h | h
    · left; simp [hab, h]
    · right; left; cases a; cases b; simp_all
    · right; right; simp [hab, h]
  · have hba : b.name ≠ a.name := fun e => hab e.symm
    rcases ltB_total a.name b.name with h | h | h
    · left; simp [hab, h]
    · exact absurd h hab
    · right; right; simp [hba, h]

theorem before_strictTotal : StrictTotal before where
  irrefl := by intro a; simp [before, lessK_irrefl]
  trans := by
    intro a b c h1 h2
    unfold before at *
    by_cases e1 : b.1 = a.1 <;> by_cases e2 : c.1 = b.1
    · rw [if_pos e1] at h1; rw [if_pos e2] at h2
      rw [if_pos (e2.trans e1)]
      exact lessK_trans _ _ _ h2 h1
    · rw [if_pos e1] at h1; rw [if_neg e2] at h2
      have : c.1 < b.1 := by simpa using h2
      rw [if_neg (by omega)]; simp; omega
    · rw [if_neg e1] at h1; rw [if_pos e2] at h2
      have : b.1 < a.1 := by simpa using h1
      rw [if_neg (by omega)]; simp; omega
    · rw [if_neg e1] at h1; rw [if_neg e2] at h2
      have : b.1 < a.1 := by simpa using h1
      have : c.1 < b.1 := by simpa using h2
      rw [if_neg (by omega)]; simp; omega
  total := by
    intro a b
    unfold before
    by_cases e : a.1 = b.1
    · rcases lessK_total a.2 b.2 with h | h | h
      · right; right; rw [if_pos e]; exact h
      · right; left; exact Prod.ext e h
      · left; rw [if_pos e.symm]; exact h
    · have e' : ¬ b.1 = a.1 := fun h => e h.symm
      rw [if_neg e', if_neg e]
      by_cases hl : b.1 < a.1
      · left; simp [hl]
      · right; right; simp; omega

/-! ## insertion sort over a strict total order -/

section Sorting
variable {K : Type} (lt : K → K → Bool)

theorem mem_insertBy (x y : K) : ∀ (l : List K), y ∈ insertBy lt x l ↔ y = x ∨ y ∈ l := by
  intro l
  induction l with
  | nil => simp [insertBy]
  | cons z zs ih =>
    unfold insertBy
    by_cases h : lt x z = true
    · simp [h]
    · have hf : lt x z = false := by simpa using h
      rw [if_neg (by simp [hf]), List.mem_cons, List.mem_cons, ih]
      constructor
      · intro h'
        rcases h' with h' | h' | h'
        · exact Or.inr (Or.inl h')
        · exact Or.inl h'
        · exact Or.inr (Or.inr h')
      · intro h'
        rcases h' with h' | h' | h'
        · exact Or.inr (Or.inl h')
        · exact Or.inl h'
        · exact Or.inr (Or.inr h')

theorem pairwise_insertBy (st : StrictTotal lt) (x : K) : ∀ (l : List K),
    l.Pairwise (fun a b => lt a b = true) → x ∉ l → (insertBy lt x l).Pairwise (fun a b => lt a b = true) := by
  intro l
  induction l with
  | nil => intro _ _; simp [insertBy]
  | cons z zs ih =>
    intro hp hx
    have hxz : x ≠ z := fun e => hx (by simp [e])
    have hxzs : x ∉ zs := fun e => hx (by simp [e])
    obtain ⟨hz, hzs⟩ := List.pairwise_cons.mp hp
    unfold insertBy
    by_cases h : lt x z = true
    · simp only [h, if_true]
      refine List.pairwise_cons.mpr ⟨?_, hp⟩
      intro a ha
      cases ha with
      | head => exact h
      | tail _ ha' => exact st.trans _ _ _ h (hz a ha')
    · simp only [h, if_false]
      have hzx : lt z x = true := by
        rcases st.total x z with h' | h' | h'
        · exact absurd h' h
        · exact absurd h' hxz
        · exact h'
      refine List.pairwise_cons.mpr ⟨?_, ih hzs hxzs⟩
      intro a ha
      rcases (mem_insertBy lt x a zs).mp ha with e | e
      · rw [e]; exact hzx
      · exact hz a e

theorem mem_sortBy (y : K) : ∀ (l : List K), y ∈ sortBy lt l ↔ y ∈ l := by
  intro l
  induction l with
  | nil => simp [sortBy]
  | cons z zs ih =>
    have : sortBy lt (z :: zs) = insertBy lt z (sortBy lt zs) := rfl
    rw [this, mem_insertBy, ih]; simp

theorem pairwise_sortBy (st : StrictTotal lt) : ∀ (l : List K), l.Nodup →
    (sortBy lt l).Pairwise (fun a b => lt a b = true) := by
  intro l
  induction l with
  | nil => intro _; simp [sortBy]
  | cons z zs ih =>
    intro hnd
    obtain ⟨hz, hzs⟩ := List.nodup_cons.mp hnd
    have : sortBy lt (z :: zs) = insertBy lt z (sortBy lt zs) := rfl
    rw [this]
    exact pairwise_insertBy lt st z _ (ih hzs) (fun e => hz ((mem_sortBy lt z zs).mp e))

theorem insertBy_perm (x : K) : ∀ (l : List K), (insertBy lt x l).Perm (x :: l) := by
  intro l
  induction l with
  | nil => simp [insertBy]
  | cons z zs ih =>
    unfold insertBy
    by_cases h : lt x z = true
    · simp [h]
    · simp only [h, if_false]
      exact (List.Perm.cons z ih).trans (List.Perm.swap x z zs)

theorem sortBy_perm : ∀ (l : List K), (sortBy lt l).Perm l := by
  intro l
  induction l with
  | nil => simp [sortBy]
  | cons z zs ih =>
    have : sortBy lt (z :: zs) = insertBy lt z (sortBy lt zs) := rfl
    rw [this]
    exact (insertBy_perm lt z _).trans (List.Perm.cons z ih)

theorem pairwise_asc : ∀ (l : List K), l.Pairwise (fun a b => lt a b = true) → Asc lt l := by
  intro l
  induction l with
  | nil => intro _; trivial
  | cons a t ih =>
    intro hp
    obtain ⟨ha, ht⟩ := List.pairwise_cons.mp hp
    cases t with
    | nil => trivial
    | cons b t' => exact ⟨ha b (by simp), ih ht⟩

end Sorting

/-! ## candidates and the full ordered list -/

/-- hypotheses on a world: permanode refs are pairwise distinct (they are map keys of the corpus) and
are refs of a supported hash (they are computed by the server from the blob) -/
structure WorldOK (tbl : Tbl) (w : List PN) : Prop where
  nodup : (w.map PN.ref).Nodup
  wf : ∀ p ∈ w, WFKnown tbl p.ref.toRef

instance (t : Tbl) (r : Ref) : Decidable (WFKnown t r) := by unfold WFKnown; infer_instance

def timed (srt : SortBy) (w : List PN) : List Cand :=
  w.filterMap (fun p => (pnTime srt p).map (fun t => (t, p.ref)))

theorem mem_timed (srt : SortBy) (w : List PN) (k : Cand) :
    k ∈ timed srt w ↔ ∃ p ∈ w, pnTime srt p = some k.1 ∧ p.ref = k.2 := by
  unfold timed
  rw [List.mem_filterMap]
  constructor
  · rintro ⟨p, hp, h⟩
    refine ⟨p, hp, ?_⟩
    cases ht : pnTime srt p with
    | none => simp [ht] at h
    | some t => simp [ht] at h; subst h; simp
  · rintro ⟨p, hp, h1, h2⟩
    exact ⟨p, hp, by simp [h1, h2]⟩

theorem timed_nodup (srt : SortBy) : ∀ (w : List PN), (w.map PN.ref).Nodup → (timed srt w).Nodup := by
  intro w
  induction w with
  | nil => intro _; simp [timed]
  | cons p ps ih =>
    intro h
    rw [List.map_cons] at h
    obtain ⟨hp, hps⟩ := List.nodup_cons.mp h
    have ih' := ih hps
    show (List.filterMap _ (p :: ps)).Nodup
    rw [List.filterMap_cons]
    cases ht : pnTime srt p with
    | none => simpa [timed] using ih'
    | some t =>
      simp only [Option.map_some]
      show ((t, p.ref) :: timed srt ps).Nodup
      refine List.nodup_cons.mpr ⟨?_, ih'⟩
      intro hm
      obtain ⟨q, hq, _, h2⟩ := (mem_timed srt ps (t, p.ref)).mp hm
      exact hp (List.mem_map.mpr ⟨q, hq, h2⟩)

theorem candidates_eq (srt : SortBy) (w : List PN) : candidates srt w = sortBy before (timed srt w) := rfl

theorem mem_candidates (srt : SortBy) (w : List PN) (k : Cand) :
    k ∈ candidates srt w ↔ ∃ p ∈ w, pnTime srt p = some k.1 ∧ p.ref = k.2 := by
  rw [candidates_eq, mem_sortBy, mem_timed]

theorem candidates_pairwise (srt : SortBy) (w : List PN) (h : (w.map PN.ref).Nodup) :
    (candidates srt w).Pairwise (fun a b => before a b = true) :=
  pairwise_sortBy before before_strictTotal _ (timed_nodup srt w h)

theorem fullOrdered_pairwise (srt : SortBy) (c : Cons) (w : List PN) (h : (w.map PN.ref).Nodup) :
    (fullOrdered w srt c).Pairwise (fun a b => before a b = true) :=
  List.Pairwise.filter _ (candidates_pairwise srt w h)

theorem fullOrdered_asc (srt : SortBy) (c : Cons) (w : List PN) (h : (w.map PN.ref).Nodup) :
    Asc before (fullOrdered w srt c) :=
  pairwise_asc before _ (fullOrdered_pairwise srt c w h)

theorem mem_fullOrdered (srt : SortBy) (c : Cons) (w : List PN) (k : Cand) :
    k ∈ fullOrdered w srt c ↔ (∃ p ∈ w, pnTime srt p = some k.1 ∧ p.ref = k.2) ∧ baseMatches w c k.2 = true := by
  unfold fullOrdered
  rw [List.mem_filter, mem_candidates]

/-! ## one page of a query without Around -/

theorem collect_none (L : Nat) : ∀ (X bs : List Cand) (f : Bool), bs.length < L →
    collect (L : Int) none X bs f = (bs ++ X.take (L - bs.length), f) := by
  intro X
  induction X with
  | nil => intro bs f _; simp [collect]
  | cons m ms ih =>
    intro bs f h
    unfold collect
    have h0 : ¬ ((L : Int) ≤ 0) := by omega
    simp only [h0, if_false, Option.isNone_none, Bool.true_or, if_true, List.length_append,
      List.length_singleton]
    by_cases he : bs.length + 1 = L
    · have e1 : (((bs.length + 1 : Nat)) : Int) = (L : Int) := by omega
      have e2 : L - bs.length = 1 := by omega
      rw [if_pos e1, e2]; simp
    · have e1 : ¬ (((bs.length + 1 : Nat)) : Int) = (L : Int) := by omega
      rw [if_neg e1, ih (bs ++ [m]) f (by simp; omega)]
      have e2 : L - bs.length = (L - (bs ++ [m]).length) + 1 := by simp; omega
      rw [e2]; simp

theorem collect_nolimit (lim : Int) (hl : lim ≤ 0) (ar : Option Ref) : ∀ (X bs : List Cand) (f : Bool),
    (collect lim ar X bs f).1 = bs ++ X := by
  intro X
  induction X with
  | nil => intro bs f; simp [collect]
  | cons m ms ih =>
    intro bs f
    unfold collect
    simp only [hl, if_true]
    rw [ih]; simp

/-- a page: the first `L` of what the planned matcher lets through, plus its token -/
theorem query_page (tbl : Tbl) (signed : Bool) (w : List PN) (srt : SortBy) (cons : Cons) (L : Nat)
    (hL : 0 < L) (tok : Bytes) :
    query tbl signed w ⟨srt, cons, (L : Int), tok, none⟩ =
      some ⟨((candidates srt w).filter (plannedMatcher tbl signed w ⟨srt, cons, (L : Int), tok, none⟩)).take L,
        setResultContinue (L : Int)
          (((candidates srt w).filter (plannedMatcher tbl signed w ⟨srt, cons, (L : Int), tok, none⟩)).take L)⟩ := by
  unfold query
  have h0 : ¬ ((L : Int) = 0) := by omega
  simp only [Option.isSome_none, Bool.and_false, Bool.false_eq_true, if_false, h0, Option.isNone_none, if_true]
  rw [collect_none L _ [] false (by simpa using hL)]
  simp

theorem matcher_first (tbl : Tbl) (signed : Bool) (w : List PN) (srt : SortBy) (cons : Cons) (lim : Int)
    (ar : Option Ref) :
    (candidates srt w).filter (plannedMatcher tbl signed w ⟨srt, cons, lim, [], ar⟩) = fullOrdered w srt cons := by
  unfold fullOrdered plannedMatcher
  simp

/-- under the codec round trip the continue constraint is "strictly after the last item" in the
enumeration order -/
theorem continueMatches_eq_before (c k : Cand) (hk : k.1 ≠ zeroTime) :
    continueMatches ⟨c.1, c.2.toRef⟩ k = before c k := by
  unfold continueMatches before lessK
  by_cases h1 : c.1 < k.1
  · simp only [h1, if_true]
    rw [if_neg (by omega)]; simp; omega
  · simp only [h1, if_false]
    by_cases h2 : k.1 = c.1
    · simp only [h2, true_or, true_and, if_true]
      cases less k.2.toRef c.2.toRef <;> simp
    · simp only [h2, hk, false_or, false_and, if_false]
      simp; omega

theorem matcher_after (tbl : Tbl) (ht : tbl.WF) (w : List PN) (srt : SortBy) (cons : Cons) (lim : Int)
    (c : Cand) (hc : InInt64 c.1) (hwf : WFKnown tbl c.2.toRef)
    (hz : ∀ k ∈ fullOrdered w srt cons, k.1 ≠ zeroTime) :
    (candidates srt w).filter (plannedMatcher tbl true w ⟨srt, cons, lim, encodeToken c.1 c.2.toRef, none⟩)
      = (fullOrdered w srt cons).filter (fun k => before c k) := by
  unfold plannedMatcher
  simp only [encodeToken_not_empty, Bool.false_eq_true, if_false, token_roundtrip tbl ht c.1 _ hwf,
    Option.map_some]
  have e : unixNano c.1 = c.1 := wrap64_id _ hc
  rw [e]
  unfold fullOrdered
  rw [List.filter_filter]
  apply List.filter_congr
  intro k hk
  by_cases hb : baseMatches w cons k.2 = true
  · have hk' : k ∈ fullOrdered w srt cons := by
      unfold fullOrdered; exact List.mem_filter.mpr ⟨hk, hb⟩
    rw [continueMatches_eq_before c k (hz k hk')]
  · have : baseMatches w cons k.2 = false := by simpa using hb
    simp [this]

theorem zeroTime_not_inInt64 : ¬ InInt64 zeroTime := by
  unfold InInt64 zeroTime; omega

/-- the token of a page: set exactly when the page is full -/
theorem setResultContinue_take (L : Nat) (hL : 0 < L) (r : List Cand) :
    (r.length < L ∧ r.take L = r ∧ setResultContinue (L : Int) (r.take L) = []) ∨
    (∃ ini last, r.take L = ini ++ [last] ∧ r = ini ++ last :: r.drop L ∧
      setResultContinue (L : Int) (r.take L) = encodeToken last.1 last.2.toRef) := by
  by_cases h : r.length < L
  · left
    have ht : r.take L = r := List.take_of_length_le (by omega)
    refine ⟨h, ht, ?_⟩
    unfold setResultContinue
    rw [ht, if_pos (Or.inr (by omega))]
  · right
    have hlen : (r.take L).length = L := by rw [List.length_take]; omega
    cases hg : (r.take L).getLast? with
    | none =>
      have : r.take L = [] := List.getLast?_eq_none_iff.mp hg
      rw [this] at hlen; simp at hlen; omega
    | some last =>
      obtain ⟨ini, hini⟩ := List.getLast?_eq_some_iff.mp hg
      refine ⟨ini, last, hini, ?_, ?_⟩
      · have := List.take_append_drop L r
        rw [hini] at this
        simpa [List.append_assoc] using this.symm
      · unfold setResultContinue
        rw [if_neg (by rw [hlen]; omega), hg]

/-- **paging from a token**: if the previous page ended at `c`, following the tokens returns exactly
what comes after `c` in the full ordered list -/
theorem follow_from (tbl : Tbl) (ht : tbl.WF) (w : List PN) (srt : SortBy) (cons : Cons) (L : Nat) (hL : 0 < L)
    (hw : WorldOK tbl w) (hr : ∀ k ∈ fullOrdered w srt cons, InInt64 k.1) :
    ∀ (fuel : Nat) (pre r : List Cand) (c : Cand), fullOrdered w srt cons = pre ++ c :: r → r.length < fuel →
      followContinue tbl true w srt cons (L : Int) fuel (encodeToken c.1 c.2.toRef) = r := by
  have hasc := fullOrdered_asc srt cons w hw.nodup
  have hz : ∀ k ∈ fullOrdered w srt cons, k.1 ≠ zeroTime := by
    intro k hk e; exact zeroTime_not_inInt64 (e ▸ hr k hk)
  have hwf : ∀ k ∈ fullOrdered w srt cons, WFKnown tbl k.2.toRef := by
    intro k hk
    obtain ⟨⟨p, hp, _, h2⟩, _⟩ := (mem_fullOrdered srt cons w k).mp hk
    rw [← h2]; exact hw.wf p hp
  intro fuel
  induction fuel with
  | zero => intro pre r c _ hf; cases hf
  | succ n ih =>
    intro pre r c hM hf
    have hc : c ∈ fullOrdered w srt cons := by rw [hM]; simp
    unfold followContinue
    rw [query_page tbl true w srt cons L hL, matcher_after tbl ht w srt cons _ c (hr c hc) (hwf c hc) hz, hM,
      filter_gt_split before before_strictTotal pre r c (hM ▸ hasc)]
    simp only
    rcases setResultContinue_take L hL r with ⟨_, h2, h3⟩ | ⟨ini, last, h1, h2, h3⟩
    · rw [h3, h2]; simp
    · rw [h3, encodeToken_not_empty]
      simp only [Bool.false_eq_true, if_false]
      have hM' : fullOrdered w srt cons = (pre ++ c :: ini) ++ last :: r.drop L := by
        rw [hM]
        have : pre ++ c :: r = pre ++ c :: (ini ++ last :: r.drop L) := congrArg (fun x => pre ++ c :: x) h2
        rw [this]; simp [List.append_assoc]
      have hlen : (r.drop L).length < n := by
        have : 0 < r.length := by
          cases r with
          | nil => simp at h1
          | cons _ _ => simp
        rw [List.length_drop]; omega
      rw [ih (pre ++ c :: ini) (r.drop L) last hM' hlen]
      exact List.take_append_drop L r

/-- **paging from the start** -/
theorem follow_all (tbl : Tbl) (ht : tbl.WF) (w : List PN) (srt : SortBy) (cons : Cons) (L : Nat) (hL : 0 < L)
    (hw : WorldOK tbl w) (hr : ∀ k ∈ fullOrdered w srt cons, InInt64 k.1)
    (fuel : Nat) (hf : (fullOrdered w srt cons).length < fuel) :
    followContinue tbl true w srt cons (L : Int) fuel [] = fullOrdered w srt cons := by
  cases fuel with
  | zero => cases hf
  | succ n =>
    unfold followContinue
    rw [query_page tbl true w srt cons L hL, matcher_first]
    simp only
    rcases setResultContinue_take L hL (fullOrdered w srt cons) with ⟨_, h2, h3⟩ | ⟨ini, last, h1, h2, h3⟩
    · rw [h3, h2]; simp
    · rw [h3, encodeToken_not_empty]
      simp only [Bool.false_eq_true, if_false]
      have hlen : ((fullOrdered w srt cons).drop L).length < n := by
        have := congrArg List.length h2
        simp at this
        rw [List.length_drop]; omega
      have hM' : fullOrdered w srt cons = ini ++ last :: (fullOrdered w srt cons).drop L := h2
      rw [follow_from tbl ht w srt cons L hL hw hr n ini _ last hM' hlen]
      exact List.take_append_drop L _

/-! ## Around: the window bookkeeping -/

def refsOf (l : List Cand) : List Ref := l.map (fun c => c.2.toRef)

/-- what the callback loop guarantees about `(res.Blobs, foundAround)` over the matching list `all` -/
def AroundOK (piv : Ref) (res : List Cand × Bool) (all : List Cand) : Prop :=
  res.1 <:+: all ∧ (res.2 = true → piv ∈ refsOf res.1) ∧ (res.2 = false → piv ∉ refsOf all)

theorem refsOf_append (a b : List Cand) : refsOf (a ++ b) = refsOf a ++ refsOf b := by
  simp [refsOf]

theorem collect_around (lim : Int) (piv : Ref) : ∀ (rest pre bs : List Cand) (f : Bool),
    bs <:+ pre → (f = true → piv ∈ refsOf bs) → (f = false → piv ∉ refsOf pre) →
    AroundOK piv (collect lim (some piv) rest bs f) (pre ++ rest) := by
  intro rest
  induction rest with
  | nil =>
    intro pre bs f h1 h2 h3
    simp only [collect, List.append_nil]
    exact ⟨h1.isInfix, h2, h3⟩
  | cons m ms ih =>
    intro pre bs f h1 h2 h3
    have hall : pre ++ m :: ms = (pre ++ [m]) ++ ms := by simp
    have hs1 : bs ++ [m] <:+ pre ++ [m] := by
      obtain ⟨t, ht⟩ := h1
      exact ⟨t, by rw [← ht]; simp⟩
    have hsub : ∀ d, (bs ++ [m]).drop d <:+ pre ++ [m] := fun d => (List.drop_suffix d _).trans hs1
    have stop : ∀ bs', bs' <:+ pre ++ [m] → piv ∈ refsOf bs' →
        AroundOK piv (bs', true) (pre ++ [m] ++ ms) := by
      intro bs' hs hp
      exact ⟨hs.isInfix.trans (List.prefix_append _ _).isInfix, fun _ => hp, fun h => by cases h⟩
    have hmem1 : piv ∈ refsOf bs → piv ∈ refsOf (bs ++ [m]) := by
      intro h; rw [refsOf_append]; exact List.mem_append_left _ h
    rw [hall, collect]
    simp only [Option.isNone_some, Bool.false_or]
    by_cases hp : piv = m.2.toRef
    · -- this candidate is the pivot
      have e : (some piv == some m.2.toRef) = true := by simp [hp]
      have hin : piv ∈ refsOf (bs ++ [m]) := by rw [refsOf_append, hp]; simp [refsOf]
      simp only [e, Bool.or_true, if_true]
      by_cases hl : lim ≤ 0
      · simp only [hl, if_true]
        exact ih (pre ++ [m]) (bs ++ [m]) true hs1 (fun _ => hin) (fun h => by cases h)
      · simp only [hl, if_false]
        cases f with
        | true =>
          simp only [if_true]
          by_cases hlen : ((bs ++ [m]).length : Int) = lim
          · rw [if_pos hlen]; exact stop _ hs1 hin
          · rw [if_neg hlen]; exact ih (pre ++ [m]) (bs ++ [m]) true hs1 (fun _ => hin) (fun h => by cases h)
        | false =>
          simp only [Bool.false_eq_true, if_false]
          have hkeep : ∀ d, d ≤ bs.length → piv ∈ refsOf ((bs ++ [m]).drop d) := by
            intro d hd
            rw [List.drop_append_of_le_length hd, refsOf_append, hp]; simp [refsOf]
          by_cases h2x : lim < ((bs ++ [m]).length : Int) * 2
          · simp only [h2x, if_true]
            have hd : (bs ++ [m]).length - (lim / 2).toNat - 1 ≤ bs.length := by
              simp only [List.length_append, List.length_singleton]; omega
            by_cases hlen : (((bs ++ [m]).drop ((bs ++ [m]).length - (lim / 2).toNat - 1)).length : Int) = lim
            · rw [if_pos hlen]; exact stop _ (hsub _) (hkeep _ hd)
            · rw [if_neg hlen]
              exact ih (pre ++ [m]) _ true (hsub _) (fun _ => hkeep _ hd) (fun h => by cases h)
          · simp only [h2x, if_false]
            by_cases hlen : ((bs ++ [m]).length : Int) = lim
            · rw [if_pos hlen]; exact stop _ hs1 hin
            · rw [if_neg hlen]; exact ih (pre ++ [m]) (bs ++ [m]) true hs1 (fun _ => hin) (fun h => by cases h)
    · -- not the pivot
      have e : (some piv == some m.2.toRef) = false := by simp [hp]
      have hnot : f = false → piv ∉ refsOf (pre ++ [m]) := by
        intro hf hmem
        rw [refsOf_append] at hmem
        rcases List.mem_append.mp hmem with h | h
        · exact h3 hf h
        · simp [refsOf] at h; exact hp h
      simp only [e, Bool.or_false, Bool.false_eq_true, if_false]
      by_cases hl : lim ≤ 0
      · simp only [hl, if_true]
        exact ih (pre ++ [m]) (bs ++ [m]) f hs1 (fun hf => hmem1 (h2 hf)) hnot
      · simp only [hl, if_false]
        cases f with
        | true =>
          simp only [if_true]
          by_cases hlen : ((bs ++ [m]).length : Int) = lim
          · rw [if_pos hlen]; exact stop _ hs1 (hmem1 (h2 rfl))
          · rw [if_neg hlen]
            exact ih (pre ++ [m]) (bs ++ [m]) true hs1 (fun _ => hmem1 (h2 rfl)) (fun h => by cases h)
        | false =>
          simp only [Bool.false_eq_true, if_false]
          by_cases hlen : ((bs ++ [m]).length : Int) = lim
          · simp only [hlen, if_true]
            exact ih (pre ++ [m]) _ false (hsub _) (fun h => by cases h) hnot
          · simp only [hlen, if_false]
            exact ih (pre ++ [m]) _ false hs1 (fun h => by cases h) hnot

/-- the length bookkeeping: with a positive limit the window never exceeds the limit once the pivot
has been found -/
theorem collect_around_len (lim : Int) (hl : 0 < lim) (piv : Ref) : ∀ (rest bs : List Cand) (f : Bool),
    (f = true → (bs.length : Int) < lim) →
    (collect lim (some piv) rest bs f).2 = true →
    ((collect lim (some piv) rest bs f).1.length : Int) ≤ lim := by
  intro rest
  induction rest with
  | nil =>
    intro bs f h hf
    simp only [collect] at hf ⊢
    have := h hf; omega
  | cons m ms ih =>
    intro bs f h
    have hl' : ¬ lim ≤ 0 := by omega
    rw [collect]
    simp only [Option.isNone_some, Bool.false_or, hl', if_false]
    cases f with
    | true =>
      have hb := h rfl
      simp only [if_true]
      by_cases hlen : ((bs ++ [m]).length : Int) = lim
      · rw [if_pos hlen]; intro _; simp only; omega
      · rw [if_neg hlen]
        refine ih _ true (fun _ => ?_)
        simp only [List.length_append, List.length_singleton] at hlen ⊢; omega
    | false =>
      simp only [Bool.false_eq_true, if_false]
      by_cases hp : (some piv == some m.2.toRef) = true
      · simp only [hp, if_true]
        by_cases h2x : lim < ((bs ++ [m]).length : Int) * 2
        · simp only [h2x, if_true]
          by_cases hlen : (((bs ++ [m]).drop ((bs ++ [m]).length - (lim / 2).toNat - 1)).length : Int) = lim
          · rw [if_pos hlen]; intro _; simp only; omega
          · rw [if_neg hlen]
            refine ih _ true (fun _ => ?_)
            simp only [List.length_drop, List.length_append, List.length_singleton] at hlen ⊢; omega
        · simp only [h2x, if_false]
          by_cases hlen : ((bs ++ [m]).length : Int) = lim
          · rw [if_pos hlen]; intro _; simp only; omega
          · rw [if_neg hlen]
            refine ih _ true (fun _ => ?_)
            simp only [List.length_append, List.length_singleton] at hlen h2x ⊢; omega
      · simp only [hp, Bool.false_eq_true, if_false]
        exact ih _ false (fun h => by cases h)

theorem query_around (tbl : Tbl) (signed : Bool) (w : List PN) (srt : SortBy) (cons : Cons) (lim : Int) (piv : Ref) :
    ∃ res, query tbl signed w ⟨srt, cons, lim, [], some piv⟩ = some ⟨res, []⟩ ∧
      (piv ∈ refsOf (fullOrdered w srt cons) → res <:+: fullOrdered w srt cons ∧ piv ∈ refsOf res) ∧
      (piv ∉ refsOf (fullOrdered w srt cons) → res = []) ∧
      (0 < lim → (res.length : Int) ≤ lim) := by
  unfold query
  simp only [List.isEmpty_nil, Bool.not_true, Bool.false_and, Bool.false_eq_true, if_false, Option.isSome_some,
    Bool.true_and, Option.isNone_some, matcher_first]
  have h := collect_around (if lim = 0 then 200 else lim) piv (fullOrdered w srt cons) [] [] false
    (List.suffix_refl _) (fun h => by cases h) (fun _ => by simp [refsOf])
  simp only [List.nil_append] at h
  obtain ⟨h1, h2, h3⟩ := h
  refine ⟨_, rfl, ?_, ?_, ?_⟩
  rotate_left 2
  · intro hl
    have hl0 : ¬ lim = 0 := by omega
    have hlen := collect_around_len lim hl piv (fullOrdered w srt cons) [] false (fun h => by cases h)
    simp only [hl0, if_false] at hlen ⊢
    cases hf : (collect lim (some piv) (fullOrdered w srt cons) [] false).2 with
    | false => simp; omega
    | true => simp only [Bool.not_true, Bool.false_eq_true, if_false]; exact hlen hf
  · intro hin
    cases hf : (collect (if lim = 0 then 200 else lim) (some piv) (fullOrdered w srt cons) [] false).2 with
    | false => exact absurd hin (h3 hf)
    | true => simp only [Bool.not_true, Bool.false_eq_true, if_false]; exact ⟨h1, h2 hf⟩
  · intro hnot
    cases hf : (collect (if lim = 0 then 200 else lim) (some piv) (fullOrdered w srt cons) [] false).2 with
    | false => simp
    | true =>
      exfalso
      obtain ⟨s, t, hst⟩ := h1
      apply hnot
      rw [← hst, refsOf_append, refsOf_append]
      exact List.mem_append_left _ (List.mem_append_right _ (h2 hf))

/-! ## the unsorted candidate sources: pivot lookup and window -/

theorem indexOf?_some {α : Type} (p : α → Bool) : ∀ (l : List α) (i : Nat), indexOf? p l = some i →
    ∃ x, l[i]? = some x ∧ p x = true := by
  intro l
  induction l with
  | nil => intro i h; simp [indexOf?] at h
  | cons y ys ih =>
    intro i h
    unfold indexOf? at h
    by_cases hy : p y = true
    · simp only [hy, if_true] at h
      injection h with h; subst h
      exact ⟨y, by simp, hy⟩
    · simp only [hy, Bool.false_eq_true, if_false] at h
      cases hr : indexOf? p ys with
      | none => simp [hr] at h
      | some j =>
        simp only [hr, Option.map_some] at h
        injection h with h; subst h
        obtain ⟨x, hx, hpx⟩ := ih j hr
        exact ⟨x, by simpa using hx, hpx⟩

theorem indexOf?_none {α : Type} (p : α → Bool) : ∀ (l : List α), indexOf? p l = none →
    ∀ x ∈ l, p x = false := by
  intro l
  induction l with
  | nil => intro _ x hx; cases hx
  | cons y ys ih =>
    intro h x hx
    unfold indexOf? at h
    by_cases hy : p y = true
    · simp [hy] at h
    · simp only [hy, Bool.false_eq_true, if_false] at h
      have hr : indexOf? p ys = none := by
        cases hr : indexOf? p ys with
        | none => rfl
        | some j => simp [hr] at h
      cases hx with
      | head => simpa using hy
      | tail _ hx' => exact ih hr x hx'

/-- the positional cut: a contiguous window that contains the element at `pos`, at most `L` long -/
theorem windowAround_spec {α : Type} (bs : List α) (pos L : Nat) (x : α) (hx : bs[pos]? = some x) (hL : 0 < L) :
    windowAround bs pos L <:+: bs ∧ x ∈ windowAround bs pos L ∧ (windowAround bs pos L).length ≤ L := by
  have hpos : pos < bs.length := by
    cases hlt : decide (pos < bs.length) with
    | true => simpa using hlt
    | false =>
      have : bs.length ≤ pos := by simpa using hlt
      rw [List.getElem?_eq_none this] at hx; cases hx
  unfold windowAround
  refine ⟨?_, ?_, ?_⟩
  · exact (List.drop_suffix _ _).isInfix.trans (List.take_prefix _ _).isInfix
  · apply List.mem_of_getElem? (i := pos - (pos - L / 2))
    rw [List.getElem?_drop, List.getElem?_take]
    have e : pos - L / 2 + (pos - (pos - L / 2)) = pos := by omega
    rw [e, if_pos (by omega)]
    exact hx
  · rw [List.length_drop, List.length_take]; omega

end Pk.SearchPage
