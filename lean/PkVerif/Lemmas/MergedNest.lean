import PkVerif.Lemmas.MergedEnum
/-!
# The n-way merge of mergedenum.go is the nested two-way merge

`mergedEnumerate limit (x :: rest) = mergedEnumerate limit [x, mergedEnumerate limit rest]` for strictly
ascending sources (`merged_cons_nest`): an n-ary shard / replica over `[k0, …, k(n-1)]`, which hands all
its sub-stores to ONE call of `MergedEnumerateStorage`, enumerates exactly like the right-nested tree of
two-way nodes `k0 ⊕ (k1 ⊕ (… ⊕ k(n-1)))`, each of which merges its left sub-store with the (already
merged, already cut at `limit`) enumeration of the rest.  Also: sources that all send the same list
merge to that list (`merged_all_same`: replicas holding the same blobs).
-/
namespace Pk.MergedEnum
open Pk

/-- a longer run of the loop only appends -/
theorem loop_take (n : Nat) : ∀ (k : Nat) (last : Option Bytes) (ps : List (List SR)),
    (loop (n + k) last ps).take n = loop n last ps := by
  induction n with
  | zero => intros; simp [loop]
  | succ n ih =>
    intro k last ps
    have e : n + 1 + k = (n + k) + 1 := by omega
    rw [e]
    simp only [loop]
    cases pick none ((ps.map (skipLow last)).map List.head?) with
    | none => simp
    | some lo => simp [ih]

/-- `e` is an entry of the first source that has its key -/
def First : List (List SR) → SR → Prop
  | [], _ => False
  | s :: rest, e => e ∈ s ∨ (e.1 ∉ keys s ∧ First rest e)

theorem first_of_decomp (srcs : List (List SR)) (e : SR)
    (h : ∃ pre s post, srcs = pre ++ s :: post ∧ e ∈ s ∧ ∀ t ∈ pre, e.1 ∉ keys t) : First srcs e := by
  obtain ⟨pre, s, post, rfl, hes, hpre⟩ := h
  induction pre with
  | nil => exact Or.inl hes
  | cons p pre ih => exact Or.inr ⟨hpre p (by simp), ih (fun t ht => hpre t (by simp [ht]))⟩

theorem merged_first (limit : Nat) (srcs : List (List SR)) (h : AllAsc srcs) (e : SR)
    (he : e ∈ mergedEnumerate limit srcs) : First srcs e :=
  first_of_decomp srcs e (merged_first_source limit srcs h e he)

/-- an ascending source has one entry per key -/
theorem pw_key_unique {s : List SR} (h : PW s) {e e' : SR} (he : e ∈ s) (he' : e' ∈ s)
    (hk : e.1 = e'.1) : e = e' := by
  induction s with
  | nil => cases he
  | cons a t ih =>
    obtain ⟨h1, h2⟩ := List.pairwise_cons.mp h
    rcases List.mem_cons.mp he with rfl | he1 <;> rcases List.mem_cons.mp he' with rfl | he1'
    · rfl
    · have := h1 e' he1'; rw [hk, ltB_irrefl] at this; cases this
    · have := h1 e he1; rw [← hk, ltB_irrefl] at this; cases this
    · exact ih h2 he1 he1'

theorem first_unique : ∀ (srcs : List (List SR)), (∀ s ∈ srcs, PW s) → ∀ e e' : SR,
    First srcs e → First srcs e' → e.1 = e'.1 → e = e'
  | [], _, _, _, h, _, _ => h.elim
  | s :: rest, hpw, e, e', h1, h2, hk => by
    rcases h1 with h1 | ⟨hn1, h1⟩ <;> rcases h2 with h2 | ⟨hn2, h2⟩
    · exact pw_key_unique (hpw s (by simp)) h1 h2 hk
    · exact absurd (List.mem_map.mpr ⟨e, h1, hk⟩) hn2
    · exact absurd (List.mem_map.mpr ⟨e', h2, hk.symm⟩) hn1
    · exact first_unique rest (fun t ht => hpw t (by simp [ht])) e e' h1 h2 hk

/-- two lists with the same keys whose entries agree key by key are equal -/
theorem eq_of_keys_eq : ∀ (l1 l2 : List SR), keys l1 = keys l2 →
    (∀ e ∈ l1, ∀ e' ∈ l2, e.1 = e'.1 → e = e') → l1 = l2
  | [], [], _, _ => rfl
  | [], _ :: _, h, _ => by simp [keys] at h
  | _ :: _, [], h, _ => by simp [keys] at h
  | a :: t1, b :: t2, h, hag => by
    simp only [keys, List.map_cons, List.cons.injEq] at h
    have hab : a = b := hag a (by simp) b (by simp) h.1
    subst hab
    congr 1
    exact eq_of_keys_eq t1 t2 h.2 (fun e he e' he' => hag e (by simp [he]) e' (by simp [he']))

/-- **the n-way merge is the nested two-way merge**: merging `x` with the rest in one call sends
exactly what merging `x` with the merged (and cut) enumeration of the rest sends – same entries, same
sizes, same order, same cut at `limit` -/
theorem merged_cons_nest (limit : Nat) (x : List SR) (rest : List (List SR))
    (h : AllAsc (x :: rest)) :
    mergedEnumerate limit (x :: rest) = mergedEnumerate limit [x, mergedEnumerate limit rest] := by
  have hx : Asc ltB (keys x) := h x (by simp)
  have hrest : AllAsc rest := fun s hs => h s (by simp [hs])
  -- the uncut merge of the rest
  have hM : mergedEnumerate limit rest =
      (mergedEnumerate (limit + (unionKeys rest).length) rest).take limit :=
    (loop_take limit _ none rest).symm
  have hFk : keys (mergedEnumerate (limit + (unionKeys rest).length) rest) = unionKeys rest := by
    rw [merged_keys_eq _ rest hrest, List.take_of_length_le (by omega)]
  have hascF : AllAsc [x, mergedEnumerate (limit + (unionKeys rest).length) rest] := by
    intro s hs
    simp only [List.mem_cons, List.not_mem_nil, or_false] at hs
    rcases hs with rfl | rfl
    · exact hx
    · exact merged_asc _ rest hrest
  have hascM : AllAsc [x, mergedEnumerate limit rest] := by
    intro s hs
    simp only [List.mem_cons, List.not_mem_nil, or_false] at hs
    rcases hs with rfl | rfl
    · exact hx
    · exact merged_asc _ rest hrest
  -- cutting the merged rest at `limit` first changes nothing
  have h1 : mergedEnumerate limit [x, mergedEnumerate limit rest] =
      mergedEnumerate limit [x, mergedEnumerate (limit + (unionKeys rest).length) rest] := by
    rw [← merged_take_limit limit [x, mergedEnumerate limit rest] hascM,
      ← merged_take_limit limit [x, mergedEnumerate (limit + (unionKeys rest).length) rest] hascF]
    simp only [List.map_cons, List.map_nil]
    rw [hM, List.take_take, Nat.min_self]
  apply eq_of_keys_eq
  · -- the keys: the first `limit` of the union, on both sides
    rw [h1, merged_keys_eq limit _ h]
    symm
    apply merged_keys_eq_of limit _ hascF _ (unionKeys_asc _)
    intro k
    rw [mem_unionKeys]
    constructor
    · rintro ⟨s, hs, hk⟩
      rcases List.mem_cons.mp hs with rfl | hs'
      · exact ⟨s, by simp, hk⟩
      · exact ⟨mergedEnumerate (limit + (unionKeys rest).length) rest, by simp,
          by rw [hFk, mem_unionKeys]; exact ⟨s, hs', hk⟩⟩
    · rintro ⟨s, hs, hk⟩
      simp only [List.mem_cons, List.not_mem_nil, or_false] at hs
      rcases hs with rfl | rfl
      · exact ⟨s, by simp, hk⟩
      · rw [hFk, mem_unionKeys] at hk
        obtain ⟨t, ht, hkt⟩ := hk
        exact ⟨t, by simp [ht], hkt⟩
  · -- the entries: both come from the first source that has the key
    intro e he e' he' hk
    have hf : First (x :: rest) e := merged_first limit _ h e he
    have hf' : First (x :: rest) e' := by
      rcases merged_first limit _ hascM e' he' with hl | ⟨hn, hr⟩
      · exact Or.inl hl
      · rcases hr with hr | ⟨_, hr⟩
        · exact Or.inr ⟨hn, merged_first limit rest hrest e' hr⟩
        · exact hr.elim
    exact first_unique _ (allAsc_pw h) e e' hf hf' hk

/-- sources that all send the same ascending list (of at most `limit` entries) merge to that list -/
theorem merged_all_same (limit : Nat) (x : List SR) (srcs : List (List SR)) (hne : srcs ≠ [])
    (hall : ∀ s ∈ srcs, s = x) (hx : Asc ltB (keys x)) (hlen : x.length ≤ limit) :
    mergedEnumerate limit srcs = x := by
  have hasc : AllAsc srcs := fun s hs => by rw [hall s hs]; exact hx
  apply eq_of_keys_eq
  · rw [merged_keys_eq_of limit srcs hasc (keys x) hx (by
      intro k
      constructor
      · intro hk
        cases srcs with
        | nil => exact absurd rfl hne
        | cons s t => exact ⟨s, by simp, by rw [hall s (by simp)]; exact hk⟩
      · rintro ⟨s, hs, hk⟩
        rw [hall s hs] at hk; exact hk)]
    apply List.take_of_length_le
    simp [keys]; exact hlen
  · intro e he e' he' hk
    obtain ⟨_, s, _, hdec, hes, _⟩ := merged_first_source limit srcs hasc e he
    have hs : s = x := hall s (by rw [hdec]; simp)
    rw [hs] at hes
    exact pw_key_unique ((ascK_iff_pw x).mp hx) hes he' hk

theorem merged_single (limit : Nat) (x : List SR) (hx : Asc ltB (keys x)) (hlen : x.length ≤ limit) :
    mergedEnumerate limit [x] = x :=
  merged_all_same limit x [x] (by simp) (by simp) hx hlen

/-- non-vacuity: three overlapping ascending sources with a limit that cuts both the inner and the
outer merge -/
example : AllAsc ([([1], 10), ([4], 40)] :: [[([2], 20), ([3], 30)], [([3], 30), ([5], 50), ([6], 60)]]) := by
  decide
example : mergedEnumerate 3 [[([1], 10), ([4], 40)], [([2], 20), ([3], 30)], [([3], 30), ([5], 50), ([6], 60)]]
    = mergedEnumerate 3 [[([1], 10), ([4], 40)],
        mergedEnumerate 3 [[([2], 20), ([3], 30)], [([3], 30), ([5], 50), ([6], 60)]]] := by decide

end Pk.MergedEnum
