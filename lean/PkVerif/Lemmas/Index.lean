import PkVerif.Model.Index
/-!
# Lemmas about the indexer model (C05, C06)

1. association-list helpers; 2. who writes which row (`owner`); 3. the per-transformer effect lemmas;
4. the invariant `Inv` and its preservation by every step; 5. the quiescent state is canonical;
6. the corpus and deletes mirrors.
-/
namespace Pk.Index
open Pk Pk.SMap

/-! ## 1. helpers -/

theorem get_append (a b : List Row) (k : Bytes) :
    get (a ++ b) k = match get a k with | some v => some v | none => get b k := by
  induction a with
  | nil => simp [SMap.get]
  | cons p rest ih =>
    obtain ⟨k', v'⟩ := p
    by_cases h : k = k'
    · simp [SMap.get, h]
    · simp [SMap.get, h, ih]

theorem get_isSome_of_mem {l : List Row} {k v : Bytes} (h : (k, v) ∈ l) : (get l k).isSome = true := by
  induction l with
  | nil => cases h
  | cons p rest ih =>
    obtain ⟨k', v'⟩ := p
    by_cases hk : k = k'
    · simp [SMap.get, hk]
    · simp only [SMap.get, hk, if_false]
      cases h with
      | head => exact absurd rfl hk
      | tail _ h' => exact ih h'

theorem get_union_nil (l : List Row) (k : Bytes) : get (union l []) k = get l k := by
  rw [get_union]; cases get l k <;> simp [SMap.get]

theorem get_none_of_forall {l : List Row} {k : Bytes} (h : ∀ r ∈ l, r.1 ≠ k) : get l k = none := by
  induction l with
  | nil => rfl
  | cons p rest ih =>
    obtain ⟨k', v'⟩ := p
    have : k ≠ k' := fun e => h (k', v') (by simp) e.symm
    simp only [SMap.get, this, if_false]
    exact ih (fun r hr => h r (by simp [hr]))

theorem has_eq (m : SMap Bytes) (k : Bytes) : has m k = (get m k).isSome := rfl

/-- `find?` splits the list at its answer -/
theorem find_split {α : Type} (p : α → Bool) (l : List α) (m : α) (h : l.find? p = some m) :
    ∃ pre post, l = pre ++ m :: post ∧ (∀ x ∈ pre, p x = false) ∧ p m = true := by
  induction l with
  | nil => simp at h
  | cons a rest ih =>
    by_cases ha : p a = true
    · simp [List.find?, ha] at h
      subst h
      exact ⟨[], rest, rfl, by simp, ha⟩
    · have ha' : p a = false := by cases hp : p a <;> simp_all
      simp [List.find?, ha'] at h
      obtain ⟨pre, post, e, h1, h2⟩ := ih h
      refine ⟨a :: pre, post, by simp [e], ?_, h2⟩
      intro x hx
      cases hx with
      | head => exact ha'
      | tail _ hx' => exact h1 x hx'

theorem find_none_all {α : Type} (p : α → Bool) (l : List α) (h : l.find? p = none) : ∀ x ∈ l, p x = false := by
  intro x hx
  have := List.find?_eq_none.mp h x hx
  cases hp : p x <;> simp_all

theorem find_of_split {α : Type} (p : α → Bool) (pre post : List α) (m : α)
    (h1 : ∀ x ∈ pre, p x = false) (h2 : p m = true) : (pre ++ m :: post).find? p = some m := by
  induction pre with
  | nil => simp [List.find?, h2]
  | cons a rest ih =>
    have : p a = false := h1 a (by simp)
    simp only [List.cons_append, List.find?, this]
    exact ih (fun x hx => h1 x (by simp [hx]))

theorem contains_iff (l : List Ref) (x : Ref) : l.contains x = true ↔ x ∈ l := by simp

theorem firstMissing_none_iff (W : World) (src : List Ref) (b : Ref) :
    firstMissing W src b = none ↔ ∀ m ∈ fdeps W b, m ∈ src := by
  unfold firstMissing
  constructor
  · intro h m hm
    have := find_none_all _ _ h m hm
    simpa using this
  · intro h
    apply List.find?_eq_none.mpr
    intro x hx
    simp [h x hx]

theorem firstMissing_mono (W : World) (src src' : List Ref) (b : Ref) (hs : ∀ x ∈ src, x ∈ src')
    (h : firstMissing W src b = none) : firstMissing W src' b = none :=
  (firstMissing_none_iff W src' b).mpr (fun m hm => hs m ((firstMissing_none_iff W src b).mp h m hm))

theorem firstMissing_some (W : World) (src : List Ref) (b m : Ref) (h : firstMissing W src b = some m) :
    ∃ pre post, fdeps W b = pre ++ m :: post ∧ (∀ x ∈ pre, x ∈ src) ∧ m ∉ src := by
  obtain ⟨pre, post, e, h1, h2⟩ := find_split _ _ _ h
  refine ⟨pre, post, e, ?_, ?_⟩
  · intro x hx; have := h1 x hx; simpa using this
  · simpa using h2

theorem firstMissing_of_split (W : World) (src : List Ref) (b m : Ref) (pre post : List Ref)
    (e : fdeps W b = pre ++ m :: post) (h1 : ∀ x ∈ pre, x ∈ src) (h2 : m ∉ src) :
    firstMissing W src b = some m := by
  unfold firstMissing
  rw [e]
  apply find_of_split
  · intro x hx; simp [h1 x hx]
  · simp [h2]

/-! ## 2. who writes which row -/

/-- a row of blob `b`: its key names `b`, or it is the shared signer-key-id row (a function of its key) -/
def Good (W : World) (b : Ref) (r : Row) : Prop :=
  (owner r.1 = some b ∨ ∃ s, r = (kSignerKeyId s, [keyIdOf W s])) ∧ isMissingKey r.1 = false ∧ r.1 ≠ kSchema

theorem good_claimRows (W : World) (b s pn : Ref) (ct : CType) (attr : Attr) (val : Val) (date : Nat) :
    ∀ r ∈ claimRows W b s pn ct attr val date, Good W b r := by
  intro r hr
  simp only [claimRows, List.mem_append] at hr
  rcases hr with ((hr | hr) | hr) | hr
  · simp only [List.mem_cons, List.mem_nil_iff, or_false] at hr
    rcases hr with rfl | rfl | rfl
    · exact ⟨Or.inr ⟨s, rfl⟩, rfl, by simp [kSignerKeyId, kSchema]⟩
    · exact ⟨Or.inl rfl, rfl, by simp [kRecpn, kSchema]⟩
    · exact ⟨Or.inl rfl, rfl, by simp [kClaim, kSchema]⟩
  · cases attr <;> cases val <;> simp at hr
    rcases hr with rfl | rfl
    · exact ⟨Or.inl rfl, rfl, by simp [kPathBack, kSchema]⟩
    · exact ⟨Or.inl rfl, rfl, by simp [kPathFwd, kSchema]⟩
  · cases attr <;> simp at hr
    obtain ⟨_, rfl⟩ := hr
    exact ⟨Or.inl rfl, rfl, by simp [kSAV, kSchema]⟩
  · cases attr <;> cases val <;> simp at hr
    subst hr
    exact ⟨Or.inl rfl, rfl, by simp [kEdgeBack, kSchema]⟩

theorem good_deleteRows (W : World) (b s t date tt : Nat) : ∀ r ∈ deleteRows W b s t date tt, Good W b r := by
  intro r hr
  simp only [deleteRows, List.mem_cons] at hr
  rcases hr with rfl | hr
  · exact ⟨Or.inr ⟨s, rfl⟩, rfl, by simp [kSignerKeyId, kSchema]⟩
  · split at hr
    · simp only [List.mem_cons, List.mem_nil_iff, or_false] at hr
      rcases hr with rfl | rfl | rfl
      · exact ⟨Or.inl rfl, rfl, by simp [kDeleted, kSchema]⟩
      · exact ⟨Or.inl rfl, rfl, by simp [kRecpn, kSchema]⟩
      · exact ⟨Or.inl rfl, rfl, by simp [kClaim, kSchema]⟩
    · split at hr
      · simp only [List.mem_cons, List.mem_nil_iff, or_false] at hr
        subst hr
        exact ⟨Or.inl rfl, rfl, by simp [kDeleted, kSchema]⟩
      · cases hr

theorem good_fileRows (W : World) (b name mtime fsize : Nat) (mime : Bytes) (whole : Nat) (img : Option (Nat × Nat)) :
    ∀ r ∈ fileRows b name mtime fsize mime whole img, Good W b r := by
  intro r hr
  simp only [fileRows, List.mem_append, List.mem_cons, List.mem_nil_iff, or_false] at hr
  rcases hr with (rfl | rfl | rfl) | hr
  · exact ⟨Or.inl rfl, rfl, by simp [kWholeToFile, kSchema]⟩
  · exact ⟨Or.inl rfl, rfl, by simp [kFileInfo, kSchema]⟩
  · exact ⟨Or.inl rfl, rfl, by simp [kFileTimes, kSchema]⟩
  · cases img with
    | none => cases hr
    | some wh =>
      obtain ⟨w, h⟩ := wh
      simp at hr; subst hr
      exact ⟨Or.inl rfl, rfl, by simp [kImageSize, kSchema]⟩

theorem good_dirRows (W : World) (b name ss : Nat) : ∀ r ∈ dirRows W b name ss, Good W b r := by
  intro r hr
  simp only [dirRows, List.mem_cons, List.mem_map] at hr
  rcases hr with rfl | ⟨c, _, rfl⟩
  · exact ⟨Or.inl rfl, rfl, by simp [kFileInfo, kSchema]⟩
  · exact ⟨Or.inl rfl, rfl, by simp [kDirChild, kSchema]⟩

theorem good_kindRowsAt (W : World) (b : Ref) (tt : Nat) : ∀ r ∈ kindRowsAt W b tt, Good W b r := by
  intro r hr
  unfold kindRowsAt at hr
  split at hr
  · exact good_claimRows _ _ _ _ _ _ _ _ r (List.mem_filter.mp hr).1
  · exact good_deleteRows _ _ _ _ _ _ r hr
  · exact good_fileRows _ _ _ _ _ _ _ _ r hr
  · exact good_dirRows _ _ _ _ r hr
  · cases hr

theorem good_meta (W : World) (b : Ref) (v : Bytes) : Good W b (kMeta b, v) :=
  ⟨Or.inl rfl, rfl, by simp [kMeta, kSchema]⟩

theorem good_have (W : World) (b : Ref) (v : Bytes) : Good W b (kHave b, v) :=
  ⟨Or.inl rfl, rfl, by simp [kHave, kSchema]⟩

theorem good_fullRowsAt (W : World) (b : Ref) (tt : Nat) : ∀ r ∈ fullRowsAt W b tt, Good W b r := by
  intro r hr
  simp only [fullRowsAt, List.mem_cons] at hr
  rcases hr with rfl | rfl | hr
  · exact good_meta W b _
  · exact good_have W b _
  · exact good_kindRowsAt W b tt r hr

theorem good_partialRows (W : World) (b : Ref) : ∀ r ∈ partialRows W b, Good W b r := by
  intro r hr
  simp only [partialRows, List.mem_cons] at hr
  rcases hr with rfl | rfl | hr
  · exact good_meta W b _
  · exact good_have W b _
  · split at hr
    · simp at hr; subst hr
      exact ⟨Or.inr ⟨_, rfl⟩, rfl, by simp [kSignerKeyId, kSchema]⟩
    · cases hr

/-- the rows a blob has in the index, by how far its indexing got -/
def rowsFor (W : World) : Status → Ref → List Row
  | .absent, _ => []
  | .half, b => partialRows W b
  | .full, b => fullRows W b

theorem good_rowsFor (W : World) (st : Status) (b : Ref) : ∀ r ∈ rowsFor W st b, Good W b r := by
  cases st with
  | absent => intro r hr; cases hr
  | half => exact good_partialRows W b
  | full => exact good_fullRowsAt W b _

theorem owner_signerKeyId (s : Ref) : owner (kSignerKeyId s) = none := rfl

/-- rows of different blobs never disagree -/
theorem rows_compat (W : World) (b b' : Ref) (hne : b ≠ b') (r r' : Row) (hr : Good W b r) (hr' : Good W b' r')
    (hk : r.1 = r'.1) : r.2 = r'.2 := by
  obtain ⟨k, v⟩ := r
  obtain ⟨k', v'⟩ := r'
  simp only at hk; subst hk
  rcases hr.1 with h | ⟨s, h⟩ <;> rcases hr'.1 with h' | ⟨s', h'⟩
  · simp only at h h'; rw [h] at h'; exact absurd (Option.some.inj h') hne
  · simp only [Prod.mk.injEq] at h'; simp only at h; rw [h'.1, owner_signerKeyId] at h; cases h
  · simp only [Prod.mk.injEq] at h; simp only at h'; rw [h.1, owner_signerKeyId] at h'; cases h'
  · simp only [Prod.mk.injEq] at h h'
    have : s = s' := by have := h.1.symm.trans h'.1; simpa [kSignerKeyId] using this
    subst this
    simp only; rw [h.2, h'.2]

theorem get_good {W : World} {b : Ref} {l : List Row} (hl : ∀ r ∈ l, Good W b r) {k v : Bytes}
    (h : get l k = some v) : Good W b (k, v) := hl _ (get_some_mem h)

/-! ## 3. effects of the state transformers -/

/-- how far the indexing of `b` got, read off the `have:` row -/
def stOf (W : World) (rows : SMap Bytes) (b : Ref) : Status :=
  match SMap.get rows (kHave b) with
  | none => .absent
  | some v => if v = haveVal W b true then .full else .half

theorem mem_needsOf (l : List (Ref × Ref)) (b x : Ref) : x ∈ needsOf l b ↔ (b, x) ∈ l := by
  unfold needsOf
  simp only [List.mem_map, List.mem_filter, beq_iff_eq]
  constructor
  · rintro ⟨⟨a, c⟩, ⟨h1, h2⟩, h3⟩
    simp only at h2 h3; subst h2; subst h3; exact h1
  · intro h; exact ⟨(b, x), ⟨h, rfl⟩, rfl⟩

theorem needsOf_isEmpty (l : List (Ref × Ref)) (b : Ref) : (needsOf l b).isEmpty = true ↔ ∀ m, (b, m) ∉ l := by
  rw [List.isEmpty_iff]
  constructor
  · intro h m hm
    have : m ∈ needsOf l b := (mem_needsOf l b m).mpr hm
    rw [h] at this; cases this
  · intro h
    apply List.eq_nil_iff_forall_not_mem.mpr
    intro m hm
    exact h m ((mem_needsOf l b m).mp hm)

theorem mem_addReady (r : List Ref) (b x : Ref) : x ∈ addReady r b ↔ x ∈ r ∨ x = b := by
  unfold addReady
  split
  · rename_i h
    have hb : b ∈ r := by simpa using h
    constructor
    · intro hx; exact Or.inl hx
    · rintro (hx | rfl)
      · exact hx
      · exact hb
  · simp

def foldNote (br : Ref) (ns : List Ref) (s : State) : State := ns.foldl (noteOne br) s

theorem foldNote_cons (br n : Ref) (ns : List Ref) (s : State) :
    foldNote br (n :: ns) s = foldNote br ns (noteOne br s n) := rfl

theorem foldNote_fields (br : Ref) (ns : List Ref) (s : State) :
    (foldNote br ns s).src = s.src ∧ (foldNote br ns s).deletes = s.deletes ∧
    (foldNote br ns s).corpus = s.corpus ∧ (foldNote br ns s).neededBy = s.neededBy := by
  induction ns generalizing s with
  | nil => exact ⟨rfl, rfl, rfl, rfl⟩
  | cons n ns ih =>
    rw [foldNote_cons]
    have := ih (noteOne br s n)
    simpa [noteOne] using this

theorem foldNote_kasc (br : Ref) (ns : List Ref) (s : State) (h : KAsc s.rows) : KAsc (foldNote br ns s).rows := by
  induction ns generalizing s with
  | nil => exact h
  | cons n ns ih =>
    rw [foldNote_cons]
    exact ih _ (kasc_del _ h)

theorem foldNote_get_same (br : Ref) (ns : List Ref) (s : State) (h : KAsc s.rows) (k : Bytes)
    (hk : ∀ n ∈ ns, k ≠ kMissing n br) : SMap.get (foldNote br ns s).rows k = SMap.get s.rows k := by
  induction ns generalizing s with
  | nil => rfl
  | cons n ns ih =>
    rw [foldNote_cons, ih _ (kasc_del _ h) (fun x hx => hk x (by simp [hx]))]
    show SMap.get (SMap.del (kMissing n br) s.rows) k = _
    rw [get_del _ h, if_neg (hk n (by simp))]

theorem foldNote_get_gone (br : Ref) (ns : List Ref) (s : State) (h : KAsc s.rows) (n : Ref) (hn : n ∈ ns) :
    SMap.get (foldNote br ns s).rows (kMissing n br) = none := by
  induction ns generalizing s with
  | nil => cases hn
  | cons a ns ih =>
    rw [foldNote_cons]
    by_cases hmem : n ∈ ns
    · exact ih _ (kasc_del _ h) hmem
    · have ha : n = a := by
        cases hn with
        | head => rfl
        | tail _ h' => exact absurd h' hmem
      subst ha
      rw [foldNote_get_same br ns _ (kasc_del _ h)]
      · show SMap.get (SMap.del (kMissing n br) s.rows) _ = none
        rw [get_del _ h]; simp
      · intro x hx e
        have : n = x := by simpa [kMissing] using e
        subst this; exact hmem hx

theorem mem_noteOne_needs (br n : Ref) (s : State) (p : Ref × Ref) :
    p ∈ (noteOne br s n).needs ↔ p ∈ s.needs ∧ ¬(p.1 = n ∧ p.2 = br) := by
  simp only [noteOne, List.mem_filter, Bool.not_eq_true', Bool.and_eq_false_iff, beq_eq_false_iff_ne, ne_eq]
  constructor
  · rintro ⟨h1, h2⟩; exact ⟨h1, fun h => h2.elim (fun a => a h.1) (fun a => a h.2)⟩
  · rintro ⟨h1, h2⟩
    refine ⟨h1, ?_⟩
    by_cases e : p.1 = n
    · exact Or.inr (fun e2 => h2 ⟨e, e2⟩)
    · exact Or.inl e

theorem foldNote_needs (br : Ref) (ns : List Ref) (s : State) (p : Ref × Ref) :
    p ∈ (foldNote br ns s).needs ↔ p ∈ s.needs ∧ ¬(p.1 ∈ ns ∧ p.2 = br) := by
  induction ns generalizing s with
  | nil => simp [foldNote]
  | cons n ns ih =>
    rw [foldNote_cons, ih, mem_noteOne_needs]
    simp only [List.mem_cons]
    constructor
    · rintro ⟨⟨h1, h2⟩, h3⟩
      refine ⟨h1, ?_⟩
      rintro ⟨h4 | h4, h5⟩
      · exact h2 ⟨h4, h5⟩
      · exact h3 ⟨h4, h5⟩
    · rintro ⟨h1, h2⟩
      exact ⟨⟨h1, fun h => h2 ⟨Or.inl h.1, h.2⟩⟩, fun h => h2 ⟨Or.inr h.1, h.2⟩⟩

theorem mem_noteOne_ready (br n : Ref) (s : State) (x : Ref) :
    x ∈ (noteOne br s n).ready ↔ x ∈ s.ready ∨ (x = n ∧ ∀ m, (n, m) ∈ s.needs → m = br) := by
  have hiff : (needsOf (s.needs.filter (fun p => !(p.1 == n && p.2 == br))) n).isEmpty = true ↔
      ∀ m, (n, m) ∈ s.needs → m = br := by
    rw [needsOf_isEmpty]
    constructor
    · intro h m hm
      by_cases e : m = br
      · exact e
      · exact absurd (by simp [List.mem_filter, hm, e]) (h m)
    · intro h m hm
      simp only [List.mem_filter] at hm
      have := h m hm.1
      subst this
      simp at hm
  show x ∈ (if _ then addReady s.ready n else s.ready) ↔ _
  by_cases hc : (needsOf (s.needs.filter (fun p => !(p.1 == n && p.2 == br))) n).isEmpty = true
  · rw [if_pos hc, mem_addReady]
    constructor
    · rintro (h | h)
      · exact Or.inl h
      · exact Or.inr ⟨h, hiff.mp hc⟩
    · rintro (h | ⟨h, _⟩)
      · exact Or.inl h
      · exact Or.inr h
  · rw [if_neg hc]
    constructor
    · intro h; exact Or.inl h
    · rintro (h | ⟨_, h⟩)
      · exact h
      · exact absurd (hiff.mpr h) hc

theorem foldNote_ready (br : Ref) (ns : List Ref) (s : State) (x : Ref) :
    x ∈ (foldNote br ns s).ready ↔ x ∈ s.ready ∨ (x ∈ ns ∧ ∀ m, (x, m) ∈ s.needs → m = br) := by
  induction ns generalizing s with
  | nil => simp [foldNote]
  | cons n ns ih =>
    rw [foldNote_cons, ih, mem_noteOne_ready]
    have hsame : (∀ m, (x, m) ∈ (noteOne br s n).needs → m = br) ↔ (∀ m, (x, m) ∈ s.needs → m = br) := by
      constructor
      · intro h m hm
        by_cases e : m = br
        · exact e
        · exact h m ((mem_noteOne_needs br n s (x, m)).mpr ⟨hm, fun hh => e hh.2⟩)
      · intro h m hm
        exact h m ((mem_noteOne_needs br n s (x, m)).mp hm).1
    rw [hsame]
    simp only [List.mem_cons]
    constructor
    · rintro ((h | ⟨rfl, h⟩) | ⟨h1, h2⟩)
      · exact Or.inl h
      · exact Or.inr ⟨Or.inl rfl, h⟩
      · exact Or.inr ⟨Or.inr h1, h2⟩
    · rintro (h | ⟨rfl | h1, h2⟩)
      · exact Or.inl (Or.inl h)
      · exact Or.inl (Or.inr ⟨rfl, h2⟩)
      · exact Or.inr ⟨h1, h2⟩

/-! ## 4. the invariant -/

/-- every row that is not a `missing|` row (nor the schema version) is a row of some blob, as far as
that blob's indexing got -/
def R2 (W : World) (rows : SMap Bytes) : Prop :=
  ∀ k v, isMissingKey k = false → k ≠ kSchema →
    (SMap.get rows k = some v ↔ ∃ b, SMap.get (rowsFor W (stOf W rows b) b) k = some v)

/-- fetch dependencies are leaves (keys, chunks, bytes blobs, static sets need nothing themselves), and
no delete claim targets itself -/
def WF (W : World) : Prop :=
  (∀ b, ∀ m ∈ fdeps W b, fdeps W m = [] ∧ idep W m = none) ∧ (∀ b, idep W b ≠ some b)

theorem get_rowsFor_have (W : World) (st : Status) (b b' : Ref) :
    SMap.get (rowsFor W st b) (kHave b') =
      if b' = b then (match st with | .absent => none | .half => some (haveVal W b false) | .full => some (haveVal W b true))
      else none := by
  by_cases h : b' = b
  · subst h
    cases st <;> simp [rowsFor, partialRows, fullRows, fullRowsAt, SMap.get, kHave, kMeta]
  · rw [if_neg h]
    cases hg : SMap.get (rowsFor W st b) (kHave b') with
    | none => rfl
    | some v =>
      have := get_good (good_rowsFor W st b) hg
      rcases this.1 with h1 | ⟨s, h1⟩
      · simp [owner, kHave] at h1; exact absurd h1 h
      · simp [kHave, kSignerKeyId] at h1

theorem haveVal_ne (W : World) (b : Ref) : haveVal W b false ≠ haveVal W b true := by
  simp [haveVal]

theorem stOf_of_get (W : World) (rows : SMap Bytes) (b : Ref) :
    (stOf W rows b = .absent ↔ SMap.get rows (kHave b) = none) ∧
    (stOf W rows b = .full ↔ SMap.get rows (kHave b) = some (haveVal W b true)) := by
  unfold stOf
  cases h : SMap.get rows (kHave b) with
  | none => simp
  | some v =>
    by_cases hv : v = haveVal W b true
    · simp [hv]
    · simp [hv]

/-- under `R2` the `have:` row carries exactly the status -/
theorem have_of_R2 (W : World) (rows : SMap Bytes) (h : R2 W rows) (b : Ref) :
    SMap.get rows (kHave b) = (match stOf W rows b with
      | .absent => none | .half => some (haveVal W b false) | .full => some (haveVal W b true)) := by
  cases hg : SMap.get rows (kHave b) with
  | none => have := ((stOf_of_get W rows b).1).mpr hg; rw [this]
  | some v =>
    obtain ⟨b', hb'⟩ := (h (kHave b) v rfl (by simp [kHave, kSchema])).mp hg
    rw [get_rowsFor_have] at hb'
    by_cases e : b = b'
    · subst e
      rw [if_pos rfl] at hb'
      cases hst : stOf W rows b with
      | absent => rw [hst] at hb'; cases hb'
      | half => rw [hst] at hb'; exact hb'.symm
      | full => rw [hst] at hb'; exact hb'.symm
    · rw [if_neg e] at hb'; cases hb'

theorem indexedVal_iff (W : World) (rows : SMap Bytes) (h : R2 W rows) (b : Ref) :
    indexedVal (SMap.get rows (kHave b)) = true ↔ stOf W rows b = .full := by
  rw [have_of_R2 W rows h b]
  cases stOf W rows b <;> simp [indexedVal, haveVal]

theorem resumed_iff (W : World) (rows : SMap Bytes) (h : R2 W rows) (b : Ref) :
    (SMap.get rows (kHave b)).isSome = true ↔ stOf W rows b ≠ .absent := by
  rw [have_of_R2 W rows h b]
  cases stOf W rows b <;> simp

/-- the meta row: present iff the blob is committed, and then it carries the blob's own type -/
theorem meta_of_R2 (W : World) (rows : SMap Bytes) (h : R2 W rows) (t : Ref) :
    SMap.get rows (kMeta t) = if stOf W rows t = .absent then none else some (metaVal W t) := by
  have hget : ∀ st, SMap.get (rowsFor W st t) (kMeta t) = if st = .absent then none else some (metaVal W t) := by
    intro st; cases st <;> simp [rowsFor, partialRows, fullRows, fullRowsAt, SMap.get]
  cases hg : SMap.get rows (kMeta t) with
  | none =>
    by_cases hst : stOf W rows t = .absent
    · rw [if_pos hst]
    · have : SMap.get rows (kMeta t) = some (metaVal W t) :=
        (h (kMeta t) _ rfl (by simp [kMeta, kSchema])).mpr ⟨t, by rw [hget, if_neg hst]⟩
      rw [hg] at this; cases this
  | some v =>
    obtain ⟨b', hb'⟩ := (h (kMeta t) v rfl (by simp [kMeta, kSchema])).mp hg
    have hgood := get_good (good_rowsFor W _ b') hb'
    have e : b' = t := by
      rcases hgood.1 with h1 | ⟨s, h1⟩
      · simpa [owner, kMeta] using h1.symm
      · simp [kMeta, kSignerKeyId] at h1
    subst e
    rw [hget] at hb'
    by_cases hst : stOf W rows b' = .absent
    · rw [if_pos hst] at hb'; cases hb'
    · rw [if_neg hst] at hb' ⊢; exact hb'.symm ▸ rfl

/-- R2 and the statuses only look at the rows that are not `missing|` rows -/
theorem stOf_congr (W : World) (rows rows' : SMap Bytes)
    (h : ∀ k, isMissingKey k = false → SMap.get rows' k = SMap.get rows k) (b : Ref) :
    stOf W rows' b = stOf W rows b := by
  unfold stOf; rw [h (kHave b) rfl]

theorem R2_congr (W : World) (rows rows' : SMap Bytes)
    (h : ∀ k, isMissingKey k = false → SMap.get rows' k = SMap.get rows k) (hr : R2 W rows) : R2 W rows' := by
  intro k v hk hs
  rw [h k hk, hr k v hk hs]
  constructor
  · rintro ⟨b, hb⟩; exact ⟨b, by rw [stOf_congr W rows rows' h b]; exact hb⟩
  · rintro ⟨b, hb⟩; exact ⟨b, by rw [stOf_congr W rows rows' h b] at hb; exact hb⟩

theorem partial_keys_sub (W : World) (b : Ref) (k : Bytes) (h : (SMap.get (partialRows W b) k).isSome = true) :
    (SMap.get (fullRows W b) k).isSome = true := by
  unfold partialRows at h
  unfold fullRows fullRowsAt
  by_cases h1 : k = kMeta b
  · simp [SMap.get, h1]
  · by_cases h2 : k = kHave b
    · simp [SMap.get, h2, kHave, kMeta]
    · simp only [SMap.get, h1, h2, if_false] at h ⊢
      unfold kindRowsAt
      split at h
      · rename_i s t d hk
        rw [hk]
        simp only [deleteRows, SMap.get] at h ⊢
        by_cases h3 : k = kSignerKeyId s
        · simp [h3]
        · simp [h3] at h
      · simp [SMap.get] at h

/-- committing the rows of `b` (first or second pass) keeps `R2` and moves only `b`'s status -/
theorem commit_rows (W : World) (rows : SMap Bytes) (hr : R2 W rows) (b : Ref)
    (hb : stOf W rows b ≠ .full) (st' : Status) (hst : st' ≠ .absent)
    (rows' : SMap Bytes) (hrows : rows' = SMap.union (rowsFor W st' b) rows) :
    stOf W rows' b = st' ∧ (∀ b', b' ≠ b → stOf W rows' b' = stOf W rows b') ∧ R2 W rows' ∧
    (∀ k, isMissingKey k = true → SMap.get rows' k = SMap.get rows k) ∧
    SMap.get rows' kSchema = SMap.get rows kSchema := by
  have hget : ∀ k, SMap.get rows' k = match SMap.get (rowsFor W st' b) k with
      | some v => some v | none => SMap.get rows k := fun k => by
    rw [hrows, get_union]; cases SMap.get (rowsFor W st' b) k <;> rfl
  have hown : ∀ k v, SMap.get (rowsFor W st' b) k = some v → Good W b (k, v) :=
    fun k v h => get_good (good_rowsFor W st' b) h
  have hst_b : stOf W rows' b = st' := by
    unfold stOf
    rw [hget, get_rowsFor_have, if_pos rfl]
    cases st' with
    | absent => exact absurd rfl hst
    | half => simp [haveVal_ne]
    | full => simp
  have hst_o : ∀ b', b' ≠ b → stOf W rows' b' = stOf W rows b' := by
    intro b' hne
    unfold stOf
    rw [hget, get_rowsFor_have, if_neg hne]
  refine ⟨hst_b, hst_o, ?_, ?_, ?_⟩
  · intro k v hk hs
    rw [hget]
    constructor
    · intro h
      cases hm : SMap.get (rowsFor W st' b) k with
      | some v' =>
        rw [hm] at h
        exact ⟨b, by rw [hst_b, hm]; exact h⟩
      | none =>
        rw [hm] at h
        obtain ⟨b0, hb0⟩ := (hr k v hk hs).mp h
        by_cases e : b0 = b
        · subst e
          -- b0 was half before: its partial rows are among the new rows
          have hhalf : stOf W rows b0 = .half := by
            cases hs0 : stOf W rows b0 with
            | absent => rw [hs0] at hb0; simp [rowsFor, SMap.get] at hb0
            | half => rfl
            | full => exact absurd hs0 hb
          rw [hhalf] at hb0
          have hsome : (SMap.get (partialRows W b0) k).isSome = true := by
            simp only [rowsFor] at hb0; rw [hb0]; rfl
          cases st' with
          | absent => exact absurd rfl hst
          | half => simp only [rowsFor] at hm; rw [hm] at hsome; cases hsome
          | full =>
            have := partial_keys_sub W b0 k hsome
            simp only [rowsFor] at hm; rw [hm] at this; cases this
        · exact ⟨b0, by rw [hst_o b0 e]; exact hb0⟩
    · rintro ⟨b0, hb0⟩
      by_cases e : b0 = b
      · subst e
        rw [hst_b] at hb0; rw [hb0]
      · rw [hst_o b0 e] at hb0
        have hold : SMap.get rows k = some v := (hr k v hk hs).mpr ⟨b0, hb0⟩
        cases hm : SMap.get (rowsFor W st' b) k with
        | none => exact hold
        | some v' =>
          have g1 := hown k v' hm
          have g2 := get_good (good_rowsFor W _ b0) hb0
          have := rows_compat W b b0 (fun h => e h.symm) (k, v') (k, v) g1 g2 rfl
          simp only at this; rw [this]
  · intro k hk
    rw [hget]
    cases hm : SMap.get (rowsFor W st' b) k with
    | none => rfl
    | some v' => have := (hown k v' hm).2.1; simp only at this; rw [hk] at this; cases this
  · rw [hget]
    cases hm : SMap.get (rowsFor W st' b) kSchema with
    | none => rfl
    | some v' => exact absurd rfl (hown kSchema v' hm).2.2

/-! ### noteBlobIndexed, removeAllMissingEdges, noteNeeded in closed form -/

def J3 (s : State) : Prop := ∀ b m, (m, b) ∈ s.neededBy ↔ (b, m) ∈ s.needs

theorem nbi_eq (s : State) (br : Ref) :
    s.noteBlobIndexed br = { foldNote br (needsOf s.neededBy br) s with
      neededBy := (foldNote br (needsOf s.neededBy br) s).neededBy.filter (fun p => p.1 != br) } := rfl

theorem nbi_fields (s : State) (br : Ref) :
    (s.noteBlobIndexed br).src = s.src ∧ (s.noteBlobIndexed br).deletes = s.deletes ∧
    (s.noteBlobIndexed br).corpus = s.corpus := by
  have := foldNote_fields br (needsOf s.neededBy br) s
  rw [nbi_eq]; exact ⟨this.1, this.2.1, this.2.2.1⟩

theorem nbi_neededBy (s : State) (br : Ref) (p : Ref × Ref) :
    p ∈ (s.noteBlobIndexed br).neededBy ↔ p ∈ s.neededBy ∧ p.1 ≠ br := by
  rw [nbi_eq]
  show p ∈ List.filter _ _ ↔ _
  rw [List.mem_filter, (foldNote_fields br _ s).2.2.2]
  simp

theorem nbi_needs (s : State) (br : Ref) (hj : J3 s) (p : Ref × Ref) :
    p ∈ (s.noteBlobIndexed br).needs ↔ p ∈ s.needs ∧ p.2 ≠ br := by
  rw [nbi_eq]
  show p ∈ (foldNote br _ s).needs ↔ _
  rw [foldNote_needs]
  constructor
  · rintro ⟨h1, h2⟩
    refine ⟨h1, fun e => h2 ⟨?_, e⟩⟩
    rw [mem_needsOf]
    obtain ⟨a, c⟩ := p
    simp only at e; subst e
    exact (hj a c).mpr h1
  · rintro ⟨h1, h2⟩; exact ⟨h1, fun h => h2 h.2⟩

theorem nbi_ready (s : State) (br : Ref) (hj : J3 s) (x : Ref) :
    x ∈ (s.noteBlobIndexed br).ready ↔ x ∈ s.ready ∨ ((x, br) ∈ s.needs ∧ ∀ m, (x, m) ∈ s.needs → m = br) := by
  rw [nbi_eq]
  show x ∈ (foldNote br _ s).ready ↔ _
  rw [foldNote_ready, mem_needsOf, hj]

theorem nbi_kasc (s : State) (br : Ref) (h : KAsc s.rows) : KAsc (s.noteBlobIndexed br).rows := by
  rw [nbi_eq]; exact foldNote_kasc br _ s h

theorem kMissing_isMissing (h n : Ref) : isMissingKey (kMissing h n) = true := rfl

theorem nbi_get_other (s : State) (br : Ref) (hk : KAsc s.rows) (k : Bytes) (hm : isMissingKey k = false) :
    SMap.get (s.noteBlobIndexed br).rows k = SMap.get s.rows k := by
  rw [nbi_eq]
  show SMap.get (foldNote br _ s).rows k = _
  apply foldNote_get_same br _ s hk
  intro n _ e
  rw [e, kMissing_isMissing] at hm; cases hm

theorem nbi_get_missing (s : State) (br : Ref) (hj : J3 s) (hk : KAsc s.rows) (h n : Ref) :
    SMap.get (s.noteBlobIndexed br).rows (kMissing h n) =
      if n = br ∧ (h, br) ∈ s.needs then none else SMap.get s.rows (kMissing h n) := by
  rw [nbi_eq]
  show SMap.get (foldNote br _ s).rows _ = _
  by_cases hc : n = br ∧ (h, br) ∈ s.needs
  · rw [if_pos hc]
    obtain ⟨rfl, hc2⟩ := hc
    exact foldNote_get_gone n _ s hk h ((mem_needsOf _ _ _).mpr ((hj h n).mpr hc2))
  · rw [if_neg hc]
    apply foldNote_get_same br _ s hk
    intro x hx e
    have e' : h = x ∧ n = br := by simpa [kMissing] using e
    obtain ⟨rfl, rfl⟩ := e'
    exact hc ⟨rfl, (hj h n).mp ((mem_needsOf _ _ _).mp hx)⟩

def keepNotOf (b : Ref) (k : Bytes) : Bool :=
  match k with
  | [3, h, _] => h != b
  | _ => true

theorem rme_rows (s : State) (b : Ref) :
    (s.removeAllMissingEdges b).rows = s.rows.filter (fun q => keepNotOf b q.1) := rfl

theorem rme_get (s : State) (b : Ref) (hk : KAsc s.rows) (k : Bytes) :
    SMap.get (s.removeAllMissingEdges b).rows k = if keepNotOf b k then SMap.get s.rows k else none := by
  rw [rme_rows, get_filter_key (keepNotOf b) hk]

theorem keepNotOf_missing (b h n : Ref) : keepNotOf b (kMissing h n) = (h != b) := rfl

theorem keepNotOf_other (b : Ref) (k : Bytes) (h : isMissingKey k = false) : keepNotOf b k = true := by
  unfold keepNotOf
  split
  · simp [isMissingKey] at h
  · rfl

theorem ins_missing_get_other (rows : SMap Bytes) (b m : Ref) (k : Bytes) (h : isMissingKey k = false) :
    SMap.get (SMap.ins (kMissing b m) [1] rows) k = SMap.get rows k := by
  rw [get_ins]
  have : k ≠ kMissing b m := fun e => by rw [e, kMissing_isMissing] at h; cases h
  rw [if_neg this]

theorem ins_missing_get (rows : SMap Bytes) (b m h n : Ref) :
    SMap.get (SMap.ins (kMissing b m) [1] rows) (kMissing h n) =
      if h = b ∧ n = m then some [1] else SMap.get rows (kMissing h n) := by
  rw [get_ins]
  by_cases e : h = b ∧ n = m
  · obtain ⟨rfl, rfl⟩ := e; simp
  · rw [if_neg e, if_neg]
    intro e'
    have : h = b ∧ n = m := by simpa [kMissing] using e'
    exact e this

/-! ### the invariant of the reachable states -/

/-- `seen`: the blobs delivered so far. `skip`: a blob exempt from `j1` (it is just being re-indexed). -/
structure Inv (W : World) (ver : Nat) (s : State) (seen : List Ref) (skip : Option Ref) : Prop where
  kasc : KAsc s.rows
  schema : SMap.get s.rows kSchema = some [ver]
  r2 : R2 W s.rows
  r3 : ∀ b m, SMap.get s.rows (kMissing b m) =
        if (b, m) ∈ s.needs ∧ stOf W s.rows b ≠ .full then some [1] else none
  j3 : J3 s
  j2 : ∀ b m, (b, m) ∈ s.needs → stOf W s.rows m = .absent
  irr : ∀ b, (b, b) ∉ s.needs
  j1 : ∀ b ∈ seen, some b ≠ skip → stOf W s.rows b ≠ .full → (∃ m, (b, m) ∈ s.needs) ∨ b ∈ s.ready
  j4a : ∀ b m, (b, m) ∈ s.needs → stOf W s.rows b = .absent →
        ∃ pre post, fdeps W b = pre ++ m :: post ∧ ∀ x ∈ pre, x ∈ s.src
  j4b : ∀ b m, (b, m) ∈ s.needs → stOf W s.rows b = .half → idep W b = some m ∨ m ∈ fdeps W b
  j4c : ∀ b, stOf W s.rows b ≠ .absent → firstMissing W s.src b = none
  j4d : ∀ b t, stOf W s.rows b = .full → idep W b = some t → stOf W s.rows t ≠ .absent
  s1 : ∀ b, stOf W s.rows b ≠ .absent → b ∈ s.src
  s2 : ∀ b m, (b, m) ∈ s.needs → b ∈ s.src
  seenSrc : ∀ b ∈ seen, b ∈ s.src

theorem Inv.weaken {W : World} {ver : Nat} {s : State} {seen seen' : List Ref} {skip : Option Ref}
    (h : Inv W ver s seen none) (hs : ∀ b ∈ seen', b ∈ seen) : Inv W ver s seen' skip :=
  { h with j1 := fun b hb _ hst => h.j1 b (hs b hb) (by simp) hst, seenSrc := fun b hb => h.seenSrc b (hs b hb) }

/-- ReceiveBlob of an already indexed blob -/
theorem inv_receive_full {W : World} {ver : Nat} {s : State} {seen : List Ref} {b : Ref}
    (h : Inv W ver s seen (some b)) (hb : b ∈ s.src) (hst : stOf W s.rows b = .full) :
    Inv W ver s (b :: seen) none :=
  { h with
    j1 := by
      intro x hx _ hx2
      by_cases e : x = b
      · subst e; exact absurd hst hx2
      · have hx' : x ∈ seen := by
          cases hx with
          | head => exact absurd rfl e
          | tail _ h' => exact h'
        exact h.j1 x hx' (by simpa using e) hx2
    seenSrc := by
      intro x hx
      cases hx with
      | head => exact hb
      | tail _ h' => exact h.seenSrc x h' }

/-- ReceiveBlob of a blob one of whose fetch dependencies is not in the source -/
theorem inv_receive_fetchmiss {W : World} {ver : Nat} {s : State} {seen : List Ref} {b m : Ref}
    (h : Inv W ver s seen (some b)) (hb : b ∈ s.src) (hst : stOf W s.rows b ≠ .full)
    (hm : firstMissing W s.src b = some m) : Inv W ver (s.noteNeeded b m) (b :: seen) none := by
  obtain ⟨pre, post, hsplit, hpre, hmsrc⟩ := firstMissing_some W s.src b m hm
  have hrows : (s.noteNeeded b m).rows = SMap.ins (kMissing b m) [1] s.rows := rfl
  have hneeds : (s.noteNeeded b m).needs = s.needs ++ [(b, m)] := rfl
  have hnb : (s.noteNeeded b m).neededBy = s.neededBy ++ [(m, b)] := rfl
  have hsame : ∀ k, isMissingKey k = false → SMap.get (s.noteNeeded b m).rows k = SMap.get s.rows k :=
    fun k hk => by rw [hrows]; exact ins_missing_get_other _ _ _ _ hk
  have hstq : ∀ x, stOf W (s.noteNeeded b m).rows x = stOf W s.rows x := stOf_congr W _ _ hsame
  have hmabs : stOf W s.rows m = .absent := by
    cases hs : stOf W s.rows m with
    | absent => rfl
    | half => exact absurd (h.s1 m (by rw [hs]; simp)) hmsrc
    | full => exact absurd (h.s1 m (by rw [hs]; simp)) hmsrc
  have hmem : ∀ p, p ∈ (s.noteNeeded b m).needs ↔ p ∈ s.needs ∨ p = (b, m) := by
    intro p; rw [hneeds]; simp
  refine
    { kasc := by rw [hrows]; exact kasc_ins _ _ h.kasc
      schema := by rw [hsame _ rfl]; exact h.schema
      r2 := R2_congr W _ _ hsame h.r2
      r3 := ?_, j3 := ?_, j2 := ?_, irr := ?_, j1 := ?_, j4a := ?_, j4b := ?_
      j4c := fun x hx => h.j4c x (by rw [← hstq]; exact hx)
      j4d := fun x t hx ht => by rw [hstq]; exact h.j4d x t (by rw [← hstq]; exact hx) ht
      s1 := fun x hx => h.s1 x (by rw [← hstq]; exact hx)
      s2 := fun x y hxy => by
        rcases (hmem _).mp hxy with h1 | h1
        · exact h.s2 x y h1
        · obtain ⟨rfl, rfl⟩ := Prod.mk.inj h1; exact hb
      seenSrc := ?_ }
  · intro x y
    rw [hstq, hrows, ins_missing_get, h.r3 x y]
    by_cases e : x = b ∧ y = m
    · obtain ⟨rfl, rfl⟩ := e
      rw [if_pos ⟨rfl, rfl⟩, if_pos ⟨(hmem _).mpr (Or.inr rfl), hst⟩]
    · rw [if_neg e]
      have : (x, y) ∈ (s.noteNeeded b m).needs ↔ (x, y) ∈ s.needs := by
        rw [hmem]
        constructor
        · rintro (h1 | h1)
          · exact h1
          · exact absurd (by simpa using h1) e
        · exact Or.inl
      simp only [this]
  · intro x y
    rw [hnb, hneeds]
    simp only [List.mem_append, List.mem_singleton, Prod.mk.injEq]
    rw [h.j3 x y]
    constructor
    · rintro (h1 | ⟨rfl, rfl⟩)
      · exact Or.inl h1
      · exact Or.inr ⟨rfl, rfl⟩
    · rintro (h1 | ⟨rfl, rfl⟩)
      · exact Or.inl h1
      · exact Or.inr ⟨rfl, rfl⟩
  · intro x y hxy
    rw [hstq]
    rcases (hmem _).mp hxy with h1 | h1
    · exact h.j2 x y h1
    · have : y = m := by simpa using (Prod.mk.inj h1).2
      subst this; exact hmabs
  · intro x hx
    rcases (hmem _).mp hx with h1 | h1
    · exact h.irr x h1
    · have e := Prod.mk.inj h1
      have : b = m := e.1.symm.trans e.2
      subst this; exact hmsrc hb
  · intro x hx _ hx2
    rw [hstq] at hx2
    by_cases e : x = b
    · subst e; exact Or.inl ⟨m, (hmem _).mpr (Or.inr rfl)⟩
    · have hx' : x ∈ seen := by
        cases hx with
        | head => exact absurd rfl e
        | tail _ h' => exact h'
      rcases h.j1 x hx' (by simpa using e) hx2 with ⟨y, hy⟩ | h1
      · exact Or.inl ⟨y, (hmem _).mpr (Or.inl hy)⟩
      · exact Or.inr h1
  · intro x y hxy hx
    rw [hstq] at hx
    rcases (hmem _).mp hxy with h1 | h1
    · exact h.j4a x y h1 hx
    · obtain ⟨rfl, rfl⟩ := Prod.mk.inj h1
      exact ⟨pre, post, hsplit, hpre⟩
  · intro x y hxy hx
    rw [hstq] at hx
    rcases (hmem _).mp hxy with h1 | h1
    · exact h.j4b x y h1 hx
    · obtain ⟨rfl, rfl⟩ := Prod.mk.inj h1
      exact Or.inr (by rw [hsplit]; simp)
  · intro x hx
    cases hx with
    | head => exact hb
    | tail _ h' => exact h.seenSrc x h'

theorem corpusAdd_fields (s : State) (b : Ref) (mm : List Row) (r : Bool) :
    (s.corpusAdd b mm r).rows = s.rows ∧ (s.corpusAdd b mm r).needs = s.needs ∧
    (s.corpusAdd b mm r).neededBy = s.neededBy ∧ (s.corpusAdd b mm r).ready = s.ready ∧
    (s.corpusAdd b mm r).src = s.src ∧ (s.corpusAdd b mm r).deletes = s.deletes := by
  unfold State.corpusAdd
  cases s.corpus <;> exact ⟨rfl, rfl, rfl, rfl, rfl, rfl⟩

/-- commit + corpus.addBlob + noteBlobIndexedLocked in closed form -/
theorem commitAll_spec (s0 : State) (b : Ref) (mm : List Row) (resumed : Bool) (hk : KAsc s0.rows) (hj : J3 s0) :
    KAsc (s0.commitAll b mm resumed).rows ∧
    (∀ k, isMissingKey k = false → SMap.get (s0.commitAll b mm resumed).rows k = SMap.get (SMap.union mm s0.rows) k) ∧
    (∀ x y, SMap.get (s0.commitAll b mm resumed).rows (kMissing x y) =
        if y = b ∧ (x, b) ∈ s0.needs then none else SMap.get (SMap.union mm s0.rows) (kMissing x y)) ∧
    (∀ p, p ∈ (s0.commitAll b mm resumed).needs ↔ p ∈ s0.needs ∧ p.2 ≠ b) ∧
    (∀ p, p ∈ (s0.commitAll b mm resumed).neededBy ↔ p ∈ s0.neededBy ∧ p.1 ≠ b) ∧
    (∀ x, x ∈ (s0.commitAll b mm resumed).ready ↔
        x ∈ s0.ready ∨ ((x, b) ∈ s0.needs ∧ ∀ m, (x, m) ∈ s0.needs → m = b)) ∧
    (s0.commitAll b mm resumed).src = s0.src := by
  have hf := corpusAdd_fields (s0.commit mm) b mm resumed
  have hrows : ((s0.commit mm).corpusAdd b mm resumed).rows = SMap.union mm s0.rows := hf.1
  have hneeds : ((s0.commit mm).corpusAdd b mm resumed).needs = s0.needs := hf.2.1
  have hnb : ((s0.commit mm).corpusAdd b mm resumed).neededBy = s0.neededBy := hf.2.2.1
  have hready : ((s0.commit mm).corpusAdd b mm resumed).ready = s0.ready := hf.2.2.2.1
  have hsrc : ((s0.commit mm).corpusAdd b mm resumed).src = s0.src := hf.2.2.2.2.1
  have hk1 : KAsc ((s0.commit mm).corpusAdd b mm resumed).rows := by rw [hrows]; exact kasc_union mm hk
  have hj1 : J3 ((s0.commit mm).corpusAdd b mm resumed) := by
    intro x y; rw [hnb, hneeds]; exact hj x y
  unfold State.commitAll
  refine ⟨nbi_kasc _ b hk1, ?_, ?_, ?_, ?_, ?_, ?_⟩
  · intro k hkm; rw [nbi_get_other _ b hk1 k hkm, hrows]
  · intro x y; rw [nbi_get_missing _ b hj1 hk1, hneeds, hrows]
  · intro p; rw [nbi_needs _ b hj1, hneeds]
  · intro p; rw [nbi_neededBy, hnb]
  · intro x; rw [nbi_ready _ b hj1, hneeds, hready]
  · rw [(nbi_fields _ b).1, hsrc]

theorem mem_cons_ne {x b : Ref} {seen : List Ref} (hx : x ∈ b :: seen) (e : x ≠ b) : x ∈ seen := by
  cases hx with
  | head => exact absurd rfl e
  | tail _ h' => exact h'

/-- ReceiveBlob of a blob that can be indexed completely -/
theorem inv_receive_commit_full {W : World} {ver : Nat} {s : State} {seen : List Ref} {b : Ref}
    (h : Inv W ver s seen (some b)) (hb : b ∈ s.src) (hst : stOf W s.rows b ≠ .full)
    (hfm : firstMissing W s.src b = none) (hdep : ∀ t, idep W b = some t → stOf W s.rows t ≠ .absent)
    (resumed : Bool) :
    Inv W ver ((s.commitAll b (fullRows W b) resumed).removeAllMissingEdges b) (b :: seen) none := by
  obtain ⟨c1, c2, c3, c4, c5⟩ := commit_rows W s.rows h.r2 b hst .full (by simp) _ rfl
  obtain ⟨k2, g2, m2, n2, nb2, r2, s2⟩ := commitAll_spec s b (fullRows W b) resumed h.kasc h.j3
  have hrf : rowsFor W .full b = fullRows W b := rfl
  rw [hrf] at c1 c2 c3 c4 c5
  -- the final state
  have F1 : KAsc ((s.commitAll b (fullRows W b) resumed).removeAllMissingEdges b).rows := by
    rw [rme_rows]; exact kasc_filter _ k2
  have F2 : ∀ k, isMissingKey k = false →
      SMap.get ((s.commitAll b (fullRows W b) resumed).removeAllMissingEdges b).rows k =
        SMap.get (SMap.union (fullRows W b) s.rows) k := by
    intro k hk; rw [rme_get _ b k2, keepNotOf_other b k hk, if_pos rfl, g2 k hk]
  have F3 : ∀ x y, SMap.get ((s.commitAll b (fullRows W b) resumed).removeAllMissingEdges b).rows (kMissing x y) =
      if x = b then none else if y = b ∧ (x, b) ∈ s.needs then none else SMap.get s.rows (kMissing x y) := by
    intro x y
    rw [rme_get _ b k2, keepNotOf_missing, m2, c4 _ (kMissing_isMissing x y)]
    by_cases e : x = b
    · simp [e]
    · simp [e]
  have F4 : ∀ p, p ∈ ((s.commitAll b (fullRows W b) resumed).removeAllMissingEdges b).needs ↔ p ∈ s.needs ∧ p.2 ≠ b := n2
  have F5 : ∀ p, p ∈ ((s.commitAll b (fullRows W b) resumed).removeAllMissingEdges b).neededBy ↔ p ∈ s.neededBy ∧ p.1 ≠ b := nb2
  have F6 : ∀ x, x ∈ ((s.commitAll b (fullRows W b) resumed).removeAllMissingEdges b).ready ↔
      x ∈ s.ready ∨ ((x, b) ∈ s.needs ∧ ∀ m, (x, m) ∈ s.needs → m = b) := r2
  have F7 : ((s.commitAll b (fullRows W b) resumed).removeAllMissingEdges b).src = s.src := s2
  have stb : stOf W ((s.commitAll b (fullRows W b) resumed).removeAllMissingEdges b).rows b = .full := by
    rw [stOf_congr W _ _ F2]; exact c1
  have sto : ∀ x, x ≠ b → stOf W ((s.commitAll b (fullRows W b) resumed).removeAllMissingEdges b).rows x = stOf W s.rows x := by
    intro x hx; rw [stOf_congr W _ _ F2]; exact c2 x hx
  have stmono : ∀ x, stOf W s.rows x ≠ .absent →
      stOf W ((s.commitAll b (fullRows W b) resumed).removeAllMissingEdges b).rows x ≠ .absent := by
    intro x hx
    by_cases e : x = b
    · subst e; rw [stb]; simp
    · rw [sto x e]; exact hx
  refine
    { kasc := F1
      schema := by rw [F2 _ rfl, c5]; exact h.schema
      r2 := R2_congr W _ _ F2 c3
      r3 := ?_, j3 := ?_, j2 := ?_, irr := fun x hx => h.irr x ((F4 _).mp hx).1
      s2 := fun x y hxy => by rw [F7]; exact h.s2 x y ((F4 _).mp hxy).1
      j1 := ?_, j4a := ?_, j4b := ?_, j4c := ?_, j4d := ?_, s1 := ?_, seenSrc := ?_ }
  · intro x y
    rw [F3, h.r3 x y]
    by_cases e : x = b
    · subst e; rw [if_pos rfl, stb]; simp
    · rw [if_neg e, sto x e]
      by_cases e2 : y = b
      · subst e2
        have : ¬ ((x, y) ∈ ((s.commitAll y (fullRows W y) resumed).removeAllMissingEdges y).needs) :=
          fun hh => ((F4 _).mp hh).2 rfl
        by_cases e3 : (x, y) ∈ s.needs
        · rw [if_pos ⟨rfl, e3⟩, if_neg (fun hh => this hh.1)]
        · rw [if_neg (fun hh => e3 hh.2), if_neg (fun hh => e3 hh.1), if_neg (fun hh => this hh.1)]
      · rw [if_neg (fun hh => e2 hh.1)]
        have : (x, y) ∈ ((s.commitAll b (fullRows W b) resumed).removeAllMissingEdges b).needs ↔ (x, y) ∈ s.needs := by
          rw [F4]; exact ⟨fun hh => hh.1, fun hh => ⟨hh, e2⟩⟩
        simp only [this]
  · intro x y
    rw [F5, F4, h.j3 x y]
  · intro x y hxy
    obtain ⟨h1, h2⟩ := (F4 _).mp hxy
    rw [sto y h2]; exact h.j2 x y h1
  · intro x hx _ hx2
    have e : x ≠ b := fun e => by subst e; exact hx2 stb
    rw [sto x e] at hx2
    rcases h.j1 x (mem_cons_ne hx e) (by simpa using e) hx2 with ⟨y, hy⟩ | h1
    · by_cases hall : ∀ m, (x, m) ∈ s.needs → m = b
      · have := hall y hy
        subst this
        exact Or.inr ((F6 x).mpr (Or.inr ⟨hy, hall⟩))
      · have : ∃ m, (x, m) ∈ s.needs ∧ m ≠ b := by
          apply Classical.byContradiction
          intro hne
          apply hall
          intro m hm
          apply Classical.byContradiction
          intro hmb
          exact hne ⟨m, hm, hmb⟩
        obtain ⟨m, hm, hmb⟩ := this
        exact Or.inl ⟨m, (F4 _).mpr ⟨hm, hmb⟩⟩
    · exact Or.inr ((F6 x).mpr (Or.inl h1))
  · intro x y hxy hx
    obtain ⟨h1, _⟩ := (F4 _).mp hxy
    have e : x ≠ b := fun e => by subst e; rw [stb] at hx; cases hx
    rw [sto x e] at hx
    rw [F7]; exact h.j4a x y h1 hx
  · intro x y hxy hx
    obtain ⟨h1, _⟩ := (F4 _).mp hxy
    have e : x ≠ b := fun e => by subst e; rw [stb] at hx; cases hx
    rw [sto x e] at hx
    exact h.j4b x y h1 hx
  · intro x hx
    rw [F7]
    by_cases e : x = b
    · subst e; exact hfm
    · rw [sto x e] at hx; exact h.j4c x hx
  · intro x t hx ht
    by_cases e : x = b
    · subst e; exact stmono t (hdep t ht)
    · rw [sto x e] at hx; exact stmono t (h.j4d x t hx ht)
  · intro x hx
    rw [F7]
    by_cases e : x = b
    · subst e; exact hb
    · rw [sto x e] at hx; exact h.s1 x hx
  · intro x hx
    rw [F7]
    by_cases e : x = b
    · subst e; exact hb
    · exact h.seenSrc x (mem_cons_ne hx e)

/-- ReceiveBlob of a delete claim whose target has no meta row yet: noted, committed partially -/
theorem inv_receive_commit_half {W : World} {ver : Nat} {s : State} {seen : List Ref} {b t : Ref}
    (h : Inv W ver s seen (some b)) (hb : b ∈ s.src) (hst : stOf W s.rows b ≠ .full)
    (hfm : firstMissing W s.src b = none) (hdep : idep W b = some t) (ht : stOf W s.rows t = .absent)
    (htb : t ≠ b) (resumed : Bool) :
    Inv W ver ((s.noteNeeded b t).commitAll b (partialRows W b) resumed) (b :: seen) none := by
  -- the state after noteNeeded
  have hrows0 : (s.noteNeeded b t).rows = SMap.ins (kMissing b t) [1] s.rows := rfl
  have hneeds0 : ∀ p, p ∈ (s.noteNeeded b t).needs ↔ p ∈ s.needs ∨ p = (b, t) := by
    intro p; show p ∈ s.needs ++ [(b, t)] ↔ _; simp
  have hnb0 : ∀ p, p ∈ (s.noteNeeded b t).neededBy ↔ p ∈ s.neededBy ∨ p = (t, b) := by
    intro p; show p ∈ s.neededBy ++ [(t, b)] ↔ _; simp
  have hk0 : KAsc (s.noteNeeded b t).rows := by rw [hrows0]; exact kasc_ins _ _ h.kasc
  have hsame0 : ∀ k, isMissingKey k = false → SMap.get (s.noteNeeded b t).rows k = SMap.get s.rows k :=
    fun k hk => by rw [hrows0]; exact ins_missing_get_other _ _ _ _ hk
  have hj0 : J3 (s.noteNeeded b t) := by
    intro x y
    rw [hnb0, hneeds0, h.j3 x y]
    constructor
    · rintro (h1 | h1)
      · exact Or.inl h1
      · obtain ⟨rfl, rfl⟩ := Prod.mk.inj h1; exact Or.inr rfl
    · rintro (h1 | h1)
      · exact Or.inl h1
      · obtain ⟨rfl, rfl⟩ := Prod.mk.inj h1; exact Or.inr rfl
  have hr0 : R2 W (s.noteNeeded b t).rows := R2_congr W _ _ hsame0 h.r2
  have hst0 : ∀ x, stOf W (s.noteNeeded b t).rows x = stOf W s.rows x := stOf_congr W _ _ hsame0
  obtain ⟨c1, c2, c3, c4, c5⟩ := commit_rows W (s.noteNeeded b t).rows hr0 b (by rw [hst0]; exact hst) .half (by simp) _ rfl
  obtain ⟨G1, G2, G3, G4, G5, G6, G7⟩ := commitAll_spec (s.noteNeeded b t) b (partialRows W b) resumed hk0 hj0
  have hrf : rowsFor W .half b = partialRows W b := rfl
  rw [hrf] at c1 c2 c3 c4 c5
  have stb : stOf W ((s.noteNeeded b t).commitAll b (partialRows W b) resumed).rows b = .half := by
    rw [stOf_congr W _ _ G2]; exact c1
  have sto : ∀ x, x ≠ b → stOf W ((s.noteNeeded b t).commitAll b (partialRows W b) resumed).rows x = stOf W s.rows x := by
    intro x hx; rw [stOf_congr W _ _ G2, c2 x hx, hst0]
  have stmono : ∀ x, stOf W s.rows x ≠ .absent →
      stOf W ((s.noteNeeded b t).commitAll b (partialRows W b) resumed).rows x ≠ .absent := by
    intro x hx
    by_cases e : x = b
    · subst e; rw [stb]; simp
    · rw [sto x e]; exact hx
  have hsrc : ((s.noteNeeded b t).commitAll b (partialRows W b) resumed).src = s.src := G7
  have hbb : (b, b) ∉ s.needs := h.irr b
  have N : ∀ x y, (x, y) ∈ ((s.noteNeeded b t).commitAll b (partialRows W b) resumed).needs ↔
      ((x, y) ∈ s.needs ∨ (x = b ∧ y = t)) ∧ y ≠ b := by
    intro x y; rw [G4, hneeds0]; simp
  have M : ∀ x y, SMap.get ((s.noteNeeded b t).commitAll b (partialRows W b) resumed).rows (kMissing x y) =
      if y = b ∧ (x, b) ∈ s.needs then none
      else if x = b ∧ y = t then some [1] else SMap.get s.rows (kMissing x y) := by
    intro x y
    rw [G3, c4 _ (kMissing_isMissing x y), hrows0, ins_missing_get]
    simp only [hneeds0]
    have : ((x, b) ∈ s.needs ∨ (x, b) = (b, t)) ↔ (x, b) ∈ s.needs := by
      constructor
      · rintro (h1 | h1)
        · exact h1
        · exact absurd (Prod.mk.inj h1).2.symm htb
      · exact Or.inl
    simp only [this]
  refine
    { kasc := G1
      schema := by rw [G2 _ rfl, c5, hsame0 _ rfl]; exact h.schema
      r2 := R2_congr W _ _ G2 c3
      r3 := ?_, j3 := ?_, j2 := ?_, irr := ?_, j1 := ?_, j4a := ?_, j4b := ?_, j4c := ?_, j4d := ?_
      s1 := ?_, seenSrc := ?_
      s2 := fun x y hxy => by
        rw [hsrc]
        rcases ((N x y).mp hxy).1 with h1 | ⟨h1, _⟩
        · exact h.s2 x y h1
        · rw [h1]; exact hb }
  · intro x y
    rw [M, h.r3 x y]
    simp only [N]
    by_cases e : x = b
    · subst e
      rw [stb]
      by_cases e2 : y = x
      · subst e2; simp [hbb, htb.symm]
      · by_cases e3 : y = t
        · subst e3; simp [e2]
        · simp [e2, e3, hst]
    · rw [sto x e]
      by_cases e2 : y = b
      · subst e2
        by_cases e3 : (x, y) ∈ s.needs
        · simp [e3]
        · simp [e3, e]
      · simp [e, e2]
  · intro x y
    rw [G5, hnb0, N, h.j3 x y]
    constructor
    · rintro ⟨h1 | h1, h2⟩
      · exact ⟨Or.inl h1, h2⟩
      · obtain ⟨rfl, rfl⟩ := Prod.mk.inj h1; exact ⟨Or.inr ⟨rfl, rfl⟩, h2⟩
    · rintro ⟨h1 | ⟨rfl, rfl⟩, h2⟩
      · exact ⟨Or.inl h1, h2⟩
      · exact ⟨Or.inr rfl, h2⟩
  · intro x y hxy
    obtain ⟨h1, h2⟩ := (N x y).mp hxy
    rw [sto y h2]
    rcases h1 with h1 | ⟨_, rfl⟩
    · exact h.j2 x y h1
    · exact ht
  · intro x hx
    exact ((N x x).mp hx).1.elim (h.irr x) (fun e => htb (e.2.symm.trans e.1))
  · intro x hx _ hx2
    by_cases e : x = b
    · subst e; exact Or.inl ⟨t, (N x t).mpr ⟨Or.inr ⟨rfl, rfl⟩, htb⟩⟩
    · rw [sto x e] at hx2
      rcases h.j1 x (mem_cons_ne hx e) (by simpa using e) hx2 with ⟨y, hy⟩ | h1
      · by_cases hall : ∀ m, (x, m) ∈ s.needs → m = b
        · have := hall y hy
          subst this
          refine Or.inr ((G6 x).mpr (Or.inr ⟨(hneeds0 _).mpr (Or.inl hy), ?_⟩))
          intro m hm
          rcases (hneeds0 _).mp hm with h2 | h2
          · exact hall m h2
          · exact absurd (Prod.mk.inj h2).1 e
        · have : ∃ m, (x, m) ∈ s.needs ∧ m ≠ b := by
            apply Classical.byContradiction
            intro hne
            apply hall
            intro m hm
            apply Classical.byContradiction
            intro hmb
            exact hne ⟨m, hm, hmb⟩
          obtain ⟨m, hm, hmb⟩ := this
          exact Or.inl ⟨m, (N x m).mpr ⟨Or.inl hm, hmb⟩⟩
      · exact Or.inr ((G6 x).mpr (Or.inl h1))
  · intro x y hxy hx
    have e : x ≠ b := fun e => by subst e; rw [stb] at hx; cases hx
    rw [sto x e] at hx
    rw [hsrc]
    rcases ((N x y).mp hxy).1 with h1 | ⟨h1, _⟩
    · exact h.j4a x y h1 hx
    · exact absurd h1 e
  · intro x y hxy hx
    by_cases e : x = b
    · subst e
      rcases ((N x y).mp hxy).1 with h1 | ⟨_, rfl⟩
      · cases hs : stOf W s.rows x with
        | absent =>
          obtain ⟨pre, post, hsp, _⟩ := h.j4a x y h1 hs
          exact Or.inr (by rw [hsp]; simp)
        | half => exact h.j4b x y h1 hs
        | full => exact absurd hs hst
      · exact Or.inl hdep
    · rw [sto x e] at hx
      rcases ((N x y).mp hxy).1 with h1 | ⟨h1, _⟩
      · exact h.j4b x y h1 hx
      · exact absurd h1 e
  · intro x hx
    rw [hsrc]
    by_cases e : x = b
    · subst e; exact hfm
    · rw [sto x e] at hx; exact h.j4c x hx
  · intro x u hx hu
    have e : x ≠ b := fun e => by subst e; rw [stb] at hx; cases hx
    rw [sto x e] at hx
    exact stmono u (h.j4d x u hx hu)
  · intro x hx
    rw [hsrc]
    by_cases e : x = b
    · subst e; exact hb
    · rw [sto x e] at hx; exact h.s1 x hx
  · intro x hx
    rw [hsrc]
    by_cases e : x = b
    · subst e; exact hb
    · exact h.seenSrc x (mem_cons_ne hx e)

/-! ### the corpus and deletes mirrors (C06), as far as `ReceiveBlob` reads them -/

def CorpusOk (s : State) : Prop :=
  ∀ c, s.corpus = some c → c.bad = false ∧ KAsc c.m ∧
    (∀ k, SMap.get c.m k = if slurped k then SMap.get s.rows k else none) ∧
    (∀ d, d ∈ c.deletes ↔ d ∈ delsOfRows s.rows)

def DelOk (s : State) : Prop := ∀ d, d ∈ s.deletes ↔ d ∈ delsOfRows s.rows

theorem metaType_eq (W : World) (s : State) (hr : R2 W s.rows) (hc : CorpusOk s) (t : Ref) :
    s.metaType t = if stOf W s.rows t = .absent then none else some (tcode W t) := by
  have hrow : s.metaRow t = SMap.get s.rows (kMeta t) := by
    unfold State.metaRow
    cases hcs : s.corpus with
    | none => rfl
    | some c =>
      have := (hc c hcs).2.2.1 (kMeta t)
      simpa [slurped, kMeta] using this
  unfold State.metaType
  rw [hrow, meta_of_R2 W s.rows hr t]
  by_cases e : stOf W s.rows t = .absent
  · simp [e]
  · simp [e, metaVal]

theorem fullRowsAt_eq (W : World) (b t : Ref) (h : idep W b = some t) : fullRowsAt W b (tcode W t) = fullRows W b := by
  unfold fullRows targetType; rw [h]

/-- ReceiveBlob keeps the invariant (any of its four outcomes) -/
theorem inv_receive {W : World} {ver : Nat} {s : State} {seen : List Ref} {b : Ref} (hW : WF W)
    (h : Inv W ver s seen (some b)) (hc : CorpusOk s) (hb : b ∈ s.src) :
    Inv W ver (s.receive W b) (b :: seen) none := by
  unfold State.receive
  by_cases hfull : stOf W s.rows b = .full
  · rw [if_pos ((indexedVal_iff W s.rows h.r2 b).mpr hfull)]
    exact inv_receive_full h hb hfull
  · rw [if_neg (fun hh => hfull ((indexedVal_iff W s.rows h.r2 b).mp hh))]
    cases hfm : firstMissing W s.src b with
    | some m => exact inv_receive_fetchmiss h hb hfull hfm
    | none =>
      simp only
      cases hdep : idep W b with
      | none =>
        simp only
        exact inv_receive_commit_full h hb hfull hfm (fun t ht => by rw [hdep] at ht; cases ht) _
      | some t =>
        simp only
        rw [metaType_eq W s h.r2 hc t]
        by_cases hta : stOf W s.rows t = .absent
        · rw [if_pos hta]
          simp only
          exact inv_receive_commit_half h hb hfull hfm hdep hta (fun e => hW.2 b (by rw [hdep, e])) _
        · rw [if_neg hta]
          simp only
          rw [fullRowsAt_eq W b t hdep]
          exact inv_receive_commit_full h hb hfull hfm
            (fun t' ht' => by rw [hdep] at ht'; cases ht'; exact hta) _

/-! ### deletions recorded by rows; corpus.addBlob -/

theorem delOfRow_some (r : Row) (t d date : Nat) :
    delOfRow r = some ⟨t, d, date⟩ ↔ r.1 = kDeleted t date d := by
  obtain ⟨k, v⟩ := r
  unfold delOfRow
  split
  · rename_i t' date' d' v' heq
    obtain ⟨rfl, rfl⟩ := Prod.mk.inj heq
    simp [kDeleted]
    intro _
    exact ⟨fun h => ⟨h.2, h.1⟩, fun h => ⟨h.2, h.1⟩⟩
  · rename_i hne
    constructor
    · intro h; cases h
    · intro h
      simp only at h
      exact (hne t date d v (by rw [h]; rfl)).elim

theorem mem_delsOfRows (l : List Row) (t d date : Nat) :
    (⟨t, d, date⟩ : Del) ∈ delsOfRows l ↔ (SMap.get l (kDeleted t date d)).isSome = true := by
  unfold delsOfRows
  rw [List.mem_filterMap]
  constructor
  · rintro ⟨⟨k, v⟩, hr, hd⟩
    have := (delOfRow_some (k, v) t d date).mp hd
    simp only at this; subst this
    exact get_isSome_of_mem hr
  · intro h
    cases hg : SMap.get l (kDeleted t date d) with
    | none => rw [hg] at h; cases h
    | some v => exact ⟨(kDeleted t date d, v), get_some_mem hg, (delOfRow_some _ t d date).mpr rfl⟩

/-- what `CorpusOk` says about one corpus and one row set -/
def COk (rows : SMap Bytes) (c : Corpus) : Prop :=
  c.bad = false ∧ KAsc c.m ∧ (∀ k, SMap.get c.m k = if slurped k then SMap.get rows k else none) ∧
  (∀ d, d ∈ c.deletes ↔ d ∈ delsOfRows rows)

def mergeStep (dup : Bool) (b : Ref) (c : Corpus) (r : Row) : Corpus :=
  if !slurped r.1 then c else if dup && r.1 = kMeta b then c else c.merge r.1 r.2

def skipKey (dup : Bool) (b : Ref) (k : Bytes) : Bool := !slurped k || (dup && decide (k = kMeta b))

theorem mergeStep_skip (dup : Bool) (b : Ref) (c : Corpus) (r : Row) (h : skipKey dup b r.1 = true) :
    mergeStep dup b c r = c := by
  unfold mergeStep
  unfold skipKey at h
  by_cases h1 : slurped r.1 = true
  · simp only [h1, Bool.not_true, Bool.false_or, Bool.and_eq_true, decide_eq_true_eq] at h
    simp [h1, h.1, h.2]
  · simp [h1]

theorem mergeStep_merge (dup : Bool) (b : Ref) (c : Corpus) (r : Row) (h : skipKey dup b r.1 = false) :
    mergeStep dup b c r = c.merge r.1 r.2 := by
  unfold mergeStep
  unfold skipKey at h
  simp only [Bool.or_eq_false_iff, Bool.not_eq_false', Bool.and_eq_false_iff, decide_eq_false_iff_not] at h
  obtain ⟨h1, h2⟩ := h
  rw [h1]
  simp only [Bool.not_true, Bool.false_eq_true, if_false]
  rcases h2 with h2 | h2
  · simp [h2]
  · simp [h2]

theorem fold_mergeStep (dup : Bool) (b : Ref) (L : SMap Bytes) (hL : KAsc L) (c : Corpus) (hc : KAsc c.m)
    (hfree : ∀ k v, SMap.get L k = some v → skipKey dup b k = false → SMap.get c.m k = none) :
    (L.foldl (mergeStep dup b) c).bad = c.bad ∧ KAsc (L.foldl (mergeStep dup b) c).m ∧
    (L.foldl (mergeStep dup b) c).deletes = c.deletes ∧
    (∀ k, SMap.get (L.foldl (mergeStep dup b) c).m k =
      if (SMap.get L k).isSome = true ∧ skipKey dup b k = false then SMap.get L k else SMap.get c.m k) := by
  induction L generalizing c with
  | nil => exact ⟨rfl, hc, rfl, fun k => by simp [SMap.get]⟩
  | cons p rest ih =>
    obtain ⟨k0, v0⟩ := p
    have hrest : ∀ k, k ≠ k0 → SMap.get ((k0, v0) :: rest) k = SMap.get rest k := by
      intro k hk; simp [SMap.get, hk]
    have hk0rest : SMap.get rest k0 = none := get_eq_none_of_all_gt k0 (kasc_head_lt hL)
    rw [List.foldl_cons]
    by_cases hs : skipKey dup b k0 = true
    · rw [mergeStep_skip dup b c (k0, v0) hs]
      have hfree' : ∀ k v, SMap.get rest k = some v → skipKey dup b k = false → SMap.get c.m k = none := by
        intro k v hg hsk
        have hne : k ≠ k0 := fun e => by rw [e, hk0rest] at hg; cases hg
        exact hfree k v (by rw [hrest k hne]; exact hg) hsk
      obtain ⟨i1, i2, i3, i4⟩ := ih (kasc_tail hL) c hc hfree'
      refine ⟨i1, i2, i3, ?_⟩
      intro k
      rw [i4 k]
      by_cases e : k = k0
      · subst e
        rw [hk0rest]
        simp [hs]
      · rw [hrest k e]
    · have hs' : skipKey dup b k0 = false := by cases h : skipKey dup b k0 <;> simp_all
      rw [mergeStep_merge dup b c (k0, v0) hs']
      have hnone : SMap.get c.m k0 = none := hfree k0 v0 (by simp [SMap.get]) hs'
      have hmerge : c.merge k0 v0 = { c with m := SMap.ins k0 v0 c.m } := by
        unfold Corpus.merge; rw [has_eq, hnone]; rfl
      rw [hmerge]
      have hfree' : ∀ k v, SMap.get rest k = some v → skipKey dup b k = false →
          SMap.get (SMap.ins k0 v0 c.m) k = none := by
        intro k v hg hsk
        have hne : k ≠ k0 := fun e => by rw [e, hk0rest] at hg; cases hg
        rw [get_ins, if_neg hne]
        exact hfree k v (by rw [hrest k hne]; exact hg) hsk
      obtain ⟨i1, i2, i3, i4⟩ := ih (kasc_tail hL) { c with m := SMap.ins k0 v0 c.m } (kasc_ins _ _ hc) hfree'
      refine ⟨i1, i2, i3, ?_⟩
      intro k
      rw [i4 k]
      show (if _ then _ else SMap.get (SMap.ins k0 v0 c.m) k) = _
      by_cases e : k = k0
      · subst e
        rw [hk0rest, get_ins]
        simp [SMap.get, hs']
      · rw [hrest k e, get_ins, if_neg e]

theorem fold_updateDeletes (ds : List Del) (c : Corpus) :
    (ds.foldl Corpus.updateDeletes c).m = c.m ∧ (ds.foldl Corpus.updateDeletes c).bad = c.bad ∧
    (∀ d, d ∈ (ds.foldl Corpus.updateDeletes c).deletes ↔ d ∈ c.deletes ∨ d ∈ ds) := by
  induction ds generalizing c with
  | nil => exact ⟨rfl, rfl, fun d => by simp⟩
  | cons a rest ih =>
    rw [List.foldl_cons]
    obtain ⟨i1, i2, i3⟩ := ih (c.updateDeletes a)
    have hu : (c.updateDeletes a).m = c.m ∧ (c.updateDeletes a).bad = c.bad ∧
        (∀ d, d ∈ (c.updateDeletes a).deletes ↔ d ∈ c.deletes ∨ d = a) := by
      unfold Corpus.updateDeletes
      by_cases hcon : c.deletes.contains a = true
      · rw [if_pos hcon]
        refine ⟨rfl, rfl, fun d => ⟨Or.inl, ?_⟩⟩
        rintro (h | rfl)
        · exact h
        · simpa using hcon
      · rw [if_neg hcon]
        exact ⟨rfl, rfl, fun d => by simp⟩
    refine ⟨i1.trans hu.1, i2.trans hu.2.1, ?_⟩
    intro d
    rw [i3 d, hu.2.2 d]
    simp only [List.mem_cons]
    constructor
    · rintro ((h | h) | h)
      · exact Or.inl h
      · exact Or.inr (Or.inl h)
      · exact Or.inr (Or.inr h)
    · rintro (h | h | h)
      · exact Or.inl (Or.inl h)
      · exact Or.inl (Or.inr h)
      · exact Or.inr h

theorem addBlob_eq (c : Corpus) (b : Ref) (mm : List Row) (resumed : Bool)
    (h : (SMap.has c.m (kMeta b) && !resumed) = false) :
    c.addBlob b mm resumed =
      (delsOfMM mm).foldl Corpus.updateDeletes ((SMap.union mm []).foldl (mergeStep (SMap.has c.m (kMeta b)) b) c) := by
  unfold Corpus.addBlob
  simp only [h, Bool.false_eq_true, if_false]
  rfl

theorem slurped_not_missing (k : Bytes) (h : slurped k = true) : isMissingKey k = false := by
  unfold isMissingKey
  split
  · simp [slurped] at h
  · rfl

theorem slurped_keys_of_partial (W : World) (b : Ref) (k : Bytes) (v : Bytes)
    (h : SMap.get (partialRows W b) k = some v) (hs : slurped k = true) : k = kMeta b := by
  unfold partialRows at h
  by_cases h1 : k = kMeta b
  · exact h1
  · by_cases h2 : k = kHave b
    · subst h2; simp [slurped, kHave] at hs
    · simp only [SMap.get, h1, h2, if_false] at h
      split at h
      · rename_i s _ _ _
        by_cases h3 : k = kSignerKeyId s
        · subst h3; simp [slurped, kSignerKeyId] at hs
        · simp [SMap.get, h3] at h
      · simp [SMap.get] at h

/-- corpus.addBlob of the rows just committed keeps the corpus equal to what a load of the rows gives -/
theorem addBlob_ok (W : World) (rows : SMap Bytes) (c : Corpus) (hr : R2 W rows) (hc : COk rows c) (b : Ref)
    (hst : stOf W rows b ≠ .full) (st' : Status) (hst' : st' ≠ .absent) (rows1 : SMap Bytes)
    (h1 : ∀ k, isMissingKey k = false → SMap.get rows1 k = SMap.get (SMap.union (rowsFor W st' b) rows) k) :
    COk rows1 (c.addBlob b (rowsFor W st' b) (SMap.get rows (kHave b)).isSome) := by
  obtain ⟨cb, ck, cm, cd⟩ := hc
  have hdup : SMap.has c.m (kMeta b) = (SMap.get rows (kHave b)).isSome := by
    rw [has_eq, cm (kMeta b)]
    have : slurped (kMeta b) = true := rfl
    rw [if_pos this, meta_of_R2 W rows hr b, have_of_R2 W rows hr b]
    cases stOf W rows b <;> simp
  have hdupst : SMap.has c.m (kMeta b) = true ↔ stOf W rows b ≠ .absent := by
    rw [hdup]; exact resumed_iff W rows hr b
  rw [addBlob_eq c b _ _ (by rw [hdup]; cases (SMap.get rows (kHave b)).isSome <;> rfl)]
  have hL : KAsc (SMap.union (rowsFor W st' b) []) := kasc_union _ kasc_nil
  have hLget : ∀ k, SMap.get (SMap.union (rowsFor W st' b) []) k = SMap.get (rowsFor W st' b) k := get_union_nil _
  have hfree : ∀ k v, SMap.get (SMap.union (rowsFor W st' b) []) k = some v →
      skipKey (SMap.has c.m (kMeta b)) b k = false → SMap.get c.m k = none := by
    intro k v hg hsk
    rw [hLget] at hg
    unfold skipKey at hsk
    simp only [Bool.or_eq_false_iff, Bool.not_eq_false', Bool.and_eq_false_iff, decide_eq_false_iff_not] at hsk
    obtain ⟨hsl, hmeta⟩ := hsk
    rw [cm k, if_pos hsl]
    cases hrow : SMap.get rows k with
    | none => rfl
    | some v' =>
      exfalso
      have g := get_good (good_rowsFor W st' b) hg
      obtain ⟨b0, hb0⟩ := (hr k v' g.2.1 g.2.2).mp hrow
      have g0 := get_good (good_rowsFor W _ b0) hb0
      have hown : owner k = some b := by
        rcases g.1 with h | ⟨s, h⟩
        · exact h
        · have : k = kSignerKeyId s := (Prod.mk.inj h).1
          rw [this] at hsl; simp [slurped, kSignerKeyId] at hsl
      have hown0 : owner k = some b0 := by
        rcases g0.1 with h | ⟨s, h⟩
        · exact h
        · have : k = kSignerKeyId s := (Prod.mk.inj h).1
          rw [this] at hsl; simp [slurped, kSignerKeyId] at hsl
      have e : b0 = b := by rw [hown] at hown0; exact (Option.some.inj hown0).symm
      subst e
      cases hs0 : stOf W rows b0 with
      | absent => rw [hs0] at hb0; simp [rowsFor, SMap.get] at hb0
      | full => exact hst hs0
      | half =>
        rw [hs0] at hb0
        have hk := slurped_keys_of_partial W b0 k v' hb0 hsl
        rcases hmeta with hm | hm
        · have : SMap.has c.m (kMeta b0) = true := hdupst.mpr (by rw [hs0]; simp)
          rw [this] at hm; cases hm
        · exact hm hk
  obtain ⟨f1, f2, f3, f4⟩ := fold_mergeStep (SMap.has c.m (kMeta b)) b _ hL c ck hfree
  obtain ⟨u1, u2, u3⟩ := fold_updateDeletes (delsOfMM (rowsFor W st' b))
    ((SMap.union (rowsFor W st' b) []).foldl (mergeStep (SMap.has c.m (kMeta b)) b) c)
  refine ⟨by rw [u2, f1]; exact cb, by rw [u1]; exact f2, ?_, ?_⟩
  · intro k
    rw [u1, f4 k, hLget]
    by_cases hsl : slurped k = true
    · rw [if_pos hsl, h1 k (slurped_not_missing k hsl), get_union]
      cases hg : SMap.get (rowsFor W st' b) k with
      | none => simp [cm k, hsl]
      | some v =>
        by_cases hsk : skipKey (SMap.has c.m (kMeta b)) b k = false
        · simp [hsk]
        · have hsk' : skipKey (SMap.has c.m (kMeta b)) b k = true := by
            cases h : skipKey (SMap.has c.m (kMeta b)) b k <;> simp_all
          unfold skipKey at hsk'
          simp only [hsl, Bool.not_true, Bool.false_or, Bool.and_eq_true, decide_eq_true_eq] at hsk'
          obtain ⟨hd, hk⟩ := hsk'
          subst hk
          have hv : v = metaVal W b := by
            cases st' with
            | absent => exact absurd rfl hst'
            | half => simpa [rowsFor, partialRows, SMap.get] using hg.symm
            | full => simpa [rowsFor, fullRows, fullRowsAt, SMap.get] using hg.symm
          have : SMap.get c.m (kMeta b) = some (metaVal W b) := by
            rw [cm, if_pos hsl, meta_of_R2 W rows hr b, if_neg (hdupst.mp hd)]
          simp [skipKey, hd, this, hv]
    · have hsl' : slurped k = false := by cases h : slurped k <;> simp_all
      simp [skipKey, hsl', cm k]
  · intro d
    obtain ⟨t, dl, date⟩ := d
    rw [u3, f3, cd, mem_delsOfRows, mem_delsOfRows, delsOfMM, mem_delsOfRows,
      h1 _ (by rfl : isMissingKey (kDeleted t date dl) = false), get_union]
    cases SMap.get (rowsFor W st' b) (kDeleted t date dl) <;> simp

/-! ### the mirrors are kept by every step -/

theorem COk_congr (rows rows' : SMap Bytes) (c : Corpus)
    (h : ∀ k, isMissingKey k = false → SMap.get rows' k = SMap.get rows k) (hc : COk rows c) : COk rows' c := by
  obtain ⟨c1, c2, c3, c4⟩ := hc
  refine ⟨c1, c2, ?_, ?_⟩
  · intro k
    rw [c3 k]
    by_cases hs : slurped k = true
    · rw [if_pos hs, if_pos hs, h k (slurped_not_missing k hs)]
    · rw [if_neg hs, if_neg hs]
  · intro d
    obtain ⟨t, dl, date⟩ := d
    rw [c4, mem_delsOfRows, mem_delsOfRows, h _ (by rfl : isMissingKey (kDeleted t date dl) = false)]

theorem delsOfRows_congr (rows rows' : SMap Bytes)
    (h : ∀ k, isMissingKey k = false → SMap.get rows' k = SMap.get rows k) (d : Del) :
    d ∈ delsOfRows rows' ↔ d ∈ delsOfRows rows := by
  obtain ⟨t, dl, date⟩ := d
  rw [mem_delsOfRows, mem_delsOfRows, h _ (by rfl : isMissingKey (kDeleted t date dl) = false)]

/-- the four outcomes of ReceiveBlob -/
theorem receive_cases {W : World} {ver : Nat} {s : State} {seen : List Ref} {skip : Option Ref} (hW : WF W)
    (h : Inv W ver s seen skip) (hc : CorpusOk s) (b : Ref) :
    (stOf W s.rows b = .full ∧ s.receive W b = s) ∨
    (∃ m, stOf W s.rows b ≠ .full ∧ firstMissing W s.src b = some m ∧ s.receive W b = s.noteNeeded b m) ∨
    (∃ t, stOf W s.rows b ≠ .full ∧ firstMissing W s.src b = none ∧ idep W b = some t ∧
        stOf W s.rows t = .absent ∧ t ≠ b ∧
        s.receive W b = (s.noteNeeded b t).commitAll b (rowsFor W .half b) (SMap.get s.rows (kHave b)).isSome) ∨
    (stOf W s.rows b ≠ .full ∧ firstMissing W s.src b = none ∧ (∀ t, idep W b = some t → stOf W s.rows t ≠ .absent) ∧
        s.receive W b =
          (s.commitAll b (rowsFor W .full b) (SMap.get s.rows (kHave b)).isSome).removeAllMissingEdges b) := by
  unfold State.receive
  by_cases hfull : stOf W s.rows b = .full
  · rw [if_pos ((indexedVal_iff W s.rows h.r2 b).mpr hfull)]
    exact Or.inl ⟨hfull, rfl⟩
  · rw [if_neg (fun hh => hfull ((indexedVal_iff W s.rows h.r2 b).mp hh))]
    cases hfm : firstMissing W s.src b with
    | some m => exact Or.inr (Or.inl ⟨m, hfull, (by first | rfl | trivial), rfl⟩)
    | none =>
      simp only
      cases hdep : idep W b with
      | none =>
        simp only
        exact Or.inr (Or.inr (Or.inr ⟨hfull, (by first | rfl | trivial), (fun t ht => by cases ht), rfl⟩))
      | some t =>
        simp only
        rw [metaType_eq W s h.r2 hc t]
        by_cases hta : stOf W s.rows t = .absent
        · rw [if_pos hta]
          exact Or.inr (Or.inr (Or.inl ⟨t, hfull, (by first | rfl | trivial), (by first | rfl | trivial), hta,
            (fun e => hW.2 b (by rw [hdep, e])), rfl⟩))
        · rw [if_neg hta]
          simp only
          rw [fullRowsAt_eq W b t hdep]
          exact Or.inr (Or.inr (Or.inr ⟨hfull, (by first | rfl | trivial),
            (fun t' ht' => by cases ht'; exact hta), rfl⟩))

theorem noteNeeded_J3 (s : State) (hj : J3 s) (b t : Ref) : J3 (s.noteNeeded b t) := by
  intro x y
  show (y, x) ∈ s.neededBy ++ [(t, b)] ↔ (x, y) ∈ s.needs ++ [(b, t)]
  simp only [List.mem_append, List.mem_singleton, Prod.mk.injEq]
  rw [hj x y]
  constructor
  · rintro (h1 | ⟨rfl, rfl⟩)
    · exact Or.inl h1
    · exact Or.inr ⟨rfl, rfl⟩
  · rintro (h1 | ⟨rfl, rfl⟩)
    · exact Or.inl h1
    · exact Or.inr ⟨rfl, rfl⟩

theorem union_congr_nonmissing (mm : List Row) (rows rows' : SMap Bytes)
    (h : ∀ k, isMissingKey k = false → SMap.get rows' k = SMap.get rows k) (k : Bytes) (hk : isMissingKey k = false) :
    SMap.get (SMap.union mm rows') k = SMap.get (SMap.union mm rows) k := by
  rw [get_union, get_union, h k hk]

/-- the rows (other than `missing|` rows), corpus and deletes cache after a committing ReceiveBlob -/
theorem commit_shape (s s0 : State) (b : Ref) (mm : List Row) (r : Bool) (hk0 : KAsc s0.rows) (hj0 : J3 s0)
    (hrows : ∀ k, isMissingKey k = false → SMap.get s0.rows k = SMap.get s.rows k)
    (hcorp : s0.corpus = s.corpus) (hdel : s0.deletes = s.deletes) (rm : Bool) :
    let s' := if rm then (s0.commitAll b mm r).removeAllMissingEdges b else s0.commitAll b mm r
    (∀ k, isMissingKey k = false → SMap.get s'.rows k = SMap.get (SMap.union mm s.rows) k) ∧
    s'.corpus = s.corpus.map (fun c => c.addBlob b mm r) ∧ s'.deletes = s.deletes ++ delsOfMM mm := by
  obtain ⟨G1, G2, _, _, _, _, _⟩ := commitAll_spec s0 b mm r hk0 hj0
  have hcorpus : (s0.commitAll b mm r).corpus = s.corpus.map (fun c => c.addBlob b mm r) := by
    unfold State.commitAll
    rw [(nbi_fields _ b).2.2]
    unfold State.corpusAdd
    have : (s0.commit mm).corpus = s.corpus := hcorp
    split
    · rename_i heq; rw [← this, heq]; rfl
    · rename_i c heq; rw [← this, heq]; rfl
  have hdeletes : (s0.commitAll b mm r).deletes = s.deletes ++ delsOfMM mm := by
    unfold State.commitAll
    rw [(nbi_fields _ b).2.1, (corpusAdd_fields _ b mm r).2.2.2.2.2]
    show s0.deletes ++ delsOfMM mm = _
    rw [hdel]
  have hget : ∀ k, isMissingKey k = false → SMap.get (s0.commitAll b mm r).rows k = SMap.get (SMap.union mm s.rows) k :=
    fun k hk => by rw [G2 k hk]; exact union_congr_nonmissing mm s.rows s0.rows hrows k hk
  cases rm with
  | false => exact ⟨hget, hcorpus, hdeletes⟩
  | true =>
    refine ⟨?_, hcorpus, hdeletes⟩
    intro k hk
    show SMap.get ((s0.commitAll b mm r).removeAllMissingEdges b).rows k = _
    rw [rme_get _ b G1, keepNotOf_other b k hk, if_pos rfl, hget k hk]

theorem mirrors_commit {W : World} {s s' : State} {b : Ref} {st' : Status} (hr : R2 W s.rows)
    (hc : CorpusOk s) (hd : DelOk s) (hst : stOf W s.rows b ≠ .full) (hst' : st' ≠ .absent)
    (h1 : ∀ k, isMissingKey k = false → SMap.get s'.rows k = SMap.get (SMap.union (rowsFor W st' b) s.rows) k)
    (h2 : s'.corpus = s.corpus.map (fun c => c.addBlob b (rowsFor W st' b) (SMap.get s.rows (kHave b)).isSome))
    (h3 : s'.deletes = s.deletes ++ delsOfMM (rowsFor W st' b)) : CorpusOk s' ∧ DelOk s' := by
  constructor
  · intro c' hc'
    rw [h2] at hc'
    cases hcs : s.corpus with
    | none => rw [hcs] at hc'; cases hc'
    | some c =>
      rw [hcs] at hc'
      have : c' = c.addBlob b (rowsFor W st' b) (SMap.get s.rows (kHave b)).isSome := (Option.some.inj hc').symm
      rw [this]
      exact addBlob_ok W s.rows c hr (hc c hcs) b hst st' hst' s'.rows h1
  · intro d
    obtain ⟨t, dl, date⟩ := d
    rw [h3, List.mem_append, hd, mem_delsOfRows, mem_delsOfRows, delsOfMM, mem_delsOfRows,
      h1 _ (by rfl : isMissingKey (kDeleted t date dl) = false), get_union]
    cases SMap.get (rowsFor W st' b) (kDeleted t date dl) <;> simp

/-- ReceiveBlob keeps the corpus and the deletes cache equal to what a load of the rows gives -/
theorem mirrors_receive {W : World} {ver : Nat} {s : State} {seen : List Ref} {skip : Option Ref} (hW : WF W)
    (h : Inv W ver s seen skip) (hc : CorpusOk s) (hd : DelOk s) (b : Ref) :
    CorpusOk (s.receive W b) ∧ DelOk (s.receive W b) := by
  rcases receive_cases hW h hc b with ⟨_, e⟩ | ⟨m, _, _, e⟩ | ⟨t, hst, _, _, _, _, e⟩ | ⟨hst, _, _, e⟩
  · rw [e]; exact ⟨hc, hd⟩
  · rw [e]
    have hsame : ∀ k, isMissingKey k = false → SMap.get (s.noteNeeded b m).rows k = SMap.get s.rows k :=
      fun k hk => ins_missing_get_other _ _ _ _ hk
    exact ⟨fun c hcc => COk_congr _ _ c hsame (hc c hcc), fun d => by
      show d ∈ s.deletes ↔ _
      rw [hd, delsOfRows_congr _ _ hsame]⟩
  · rw [e]
    have hsame : ∀ k, isMissingKey k = false → SMap.get (s.noteNeeded b t).rows k = SMap.get s.rows k :=
      fun k hk => ins_missing_get_other _ _ _ _ hk
    obtain ⟨a1, a2, a3⟩ := commit_shape s (s.noteNeeded b t) b (rowsFor W .half b) (SMap.get s.rows (kHave b)).isSome
      (kasc_ins _ _ h.kasc) (noteNeeded_J3 s h.j3 b t) hsame rfl rfl false
    exact mirrors_commit h.r2 hc hd hst (by simp) a1 a2 a3
  · rw [e]
    obtain ⟨a1, a2, a3⟩ := commit_shape s s b (rowsFor W .full b) (SMap.get s.rows (kHave b)).isSome
      h.kasc h.j3 (fun _ _ => rfl) rfl rfl true
    exact mirrors_commit h.r2 hc hd hst (by simp) a1 a2 a3

/-! ### the other steps -/

def AllInv (W : World) (ver : Nat) (s : State) (seen : List Ref) : Prop :=
  Inv W ver s seen none ∧ CorpusOk s ∧ DelOk s

theorem inv_src_mono {W : World} {ver : Nat} {s : State} {seen : List Ref} {skip : Option Ref}
    (h : Inv W ver s seen skip) (src' : List Ref) (hs : ∀ x ∈ s.src, x ∈ src') :
    Inv W ver { s with src := src' } seen skip :=
  { h with
    j4a := fun b m hbm hst => by
      obtain ⟨pre, post, e, hp⟩ := h.j4a b m hbm hst
      exact ⟨pre, post, e, fun x hx => hs x (hp x hx)⟩
    j4c := fun b hb => firstMissing_mono W s.src src' b hs (h.j4c b hb)
    s1 := fun b hb => hs b (h.s1 b hb)
    s2 := fun b m hbm => hs b (h.s2 b m hbm)
    seenSrc := fun b hb => hs b (h.seenSrc b hb) }

theorem allInv_srcAdd {W : World} {ver : Nat} {s : State} {seen : List Ref} (h : AllInv W ver s seen) (b : Ref) :
    AllInv W ver (s.srcAdd b) seen := by
  unfold State.srcAdd
  split
  · exact h
  · exact ⟨inv_src_mono h.1 _ (fun x hx => by simp [hx]), h.2.1, h.2.2⟩

theorem allInv_receive {W : World} {ver : Nat} {s : State} {seen : List Ref} (hW : WF W) (h : AllInv W ver s seen)
    (b : Ref) (hb : b ∈ s.src) : AllInv W ver (s.receive W b) (b :: seen) :=
  ⟨inv_receive hW (h.1.weaken (fun _ hx => hx)) h.2.1 hb, mirrors_receive hW h.1 h.2.1 h.2.2 b⟩

theorem allInv_reidx {W : World} {ver : Nat} {s : State} {seen : List Ref} (hW : WF W) (h : AllInv W ver s seen)
    (b : Ref) : AllInv W ver (s.reidx W b) seen := by
  unfold State.reidx
  split
  · rename_i hc
    simp only [Bool.and_eq_true, List.contains_iff_mem] at hc
    have h0 : Inv W ver { s with ready := s.ready.filter (fun x => x != b) } seen (some b) :=
      { h.1 with
        j1 := fun x hx hne hst => by
          have e : x ≠ b := fun e => hne (by rw [e])
          rcases h.1.j1 x hx (by simp) hst with h1 | h1
          · exact Or.inl h1
          · exact Or.inr (by simp [List.mem_filter, h1, e]) }
    have hI := inv_receive hW h0 h.2.1 hc.2
    have hM := mirrors_receive hW h0 h.2.1 h.2.2 b
    exact ⟨hI.weaken (fun x hx => List.mem_cons_of_mem _ hx), hM⟩
  · exact h

theorem missOfRow_some (r : Row) (h n : Ref) : missOfRow r = some (h, n) ↔ r.1 = kMissing h n := by
  obtain ⟨k, v⟩ := r
  unfold missOfRow
  split
  · rename_i h' n' v' heq
    obtain ⟨rfl, rfl⟩ := Prod.mk.inj heq
    simp [kMissing]
  · rename_i hne
    constructor
    · intro hh; cases hh
    · intro hh
      simp only at hh
      exact (hne h n v (by rw [hh]; rfl)).elim

theorem mem_missingPairs (l : List Row) (h n : Ref) :
    (h, n) ∈ missingPairs l ↔ (SMap.get l (kMissing h n)).isSome = true := by
  unfold missingPairs
  rw [List.mem_filterMap]
  constructor
  · rintro ⟨⟨k, v⟩, hr, hd⟩
    have := (missOfRow_some (k, v) h n).mp hd
    simp only at this; subst this
    exact get_isSome_of_mem hr
  · intro hh
    cases hg : SMap.get l (kMissing h n) with
    | none => rw [hg] at hh; cases hh
    | some v => exact ⟨(kMissing h n, v), get_some_mem hg, (missOfRow_some _ h n).mpr rfl⟩

theorem COk_load (rows : SMap Bytes) (hk : KAsc rows) : COk rows (Corpus.load rows) := by
  refine ⟨rfl, kasc_filter _ hk, ?_, fun d => Iff.rfl⟩
  intro k
  exact get_filter_key slurped hk k

theorem reopen_nonempty (ver : Nat) (rows : SMap Bytes) (src : List Ref) (c : Bool) (h : rows ≠ []) :
    reopen ver rows src c =
      { rows := rows, src := src, needs := missingPairs rows,
        neededBy := (missingPairs rows).map (fun p => (p.2, p.1)), ready := [],
        deletes := delsOfRows rows, corpus := if c then some (Corpus.load rows) else none } := by
  unfold reopen
  have : rows.isEmpty = false := by cases rows <;> simp_all
  simp [this]

theorem allInv_restart {W : World} {ver : Nat} {s : State} {seen : List Ref} (h : AllInv W ver s seen)
    (hq : s.ready = []) : AllInv W ver (s.restart ver) seen := by
  have hne : s.rows ≠ [] := by
    intro e
    have := h.1.schema
    rw [e] at this; simp [SMap.get] at this
  unfold State.restart
  rw [reopen_nonempty ver s.rows s.src _ hne]
  have hmem : ∀ b m, (b, m) ∈ missingPairs s.rows ↔ ((b, m) ∈ s.needs ∧ stOf W s.rows b ≠ .full) := by
    intro b m
    rw [mem_missingPairs, h.1.r3 b m]
    by_cases e : (b, m) ∈ s.needs ∧ stOf W s.rows b ≠ .full
    · simp [e]
    · simp [e]
  refine ⟨?_, ?_, fun d => Iff.rfl⟩
  · exact
      { kasc := h.1.kasc, schema := h.1.schema, r2 := h.1.r2
        r3 := fun b m => by
          rw [h.1.r3 b m]
          show _ = if (b, m) ∈ missingPairs s.rows ∧ _ then _ else _
          simp only [hmem]
          by_cases e : (b, m) ∈ s.needs ∧ stOf W s.rows b ≠ .full
          · rw [if_pos e, if_pos ⟨e, e.2⟩]
          · rw [if_neg e, if_neg (fun hh => e hh.1)]
        j3 := fun b m => by
          show (m, b) ∈ (missingPairs s.rows).map (fun p => (p.2, p.1)) ↔ (b, m) ∈ missingPairs s.rows
          rw [List.mem_map]
          constructor
          · rintro ⟨⟨x, y⟩, hp, e⟩
            obtain ⟨rfl, rfl⟩ := Prod.mk.inj e
            exact hp
          · intro hp; exact ⟨(b, m), hp, rfl⟩
        j2 := fun b m hbm => h.1.j2 b m ((hmem b m).mp hbm).1
        irr := fun b hb => h.1.irr b ((hmem b b).mp hb).1
        j1 := fun b hb _ hst => by
          rcases h.1.j1 b hb (by simp) hst with ⟨m, hm⟩ | h1
          · exact Or.inl ⟨m, (hmem b m).mpr ⟨hm, hst⟩⟩
          · rw [hq] at h1; cases h1
        j4a := fun b m hbm hst => h.1.j4a b m ((hmem b m).mp hbm).1 hst
        j4b := fun b m hbm hst => h.1.j4b b m ((hmem b m).mp hbm).1 hst
        j4c := h.1.j4c, j4d := h.1.j4d, s1 := h.1.s1, seenSrc := h.1.seenSrc
        s2 := fun b m hbm => h.1.s2 b m ((hmem b m).mp hbm).1 }
  · intro c hc
    cases hcs : s.corpus.isSome with
    | false => rw [hcs] at hc; simp at hc
    | true =>
      rw [hcs] at hc
      simp only [if_true] at hc
      rw [← Option.some.inj hc]
      exact COk_load s.rows h.1.kasc

theorem allInv_init (W : World) (ver : Nat) (c : Bool) : AllInv W ver (State.init ver c) [] := by
  unfold State.init
  have hrows : (reopen ver [] [] c).rows = [schemaRow ver] := rfl
  have hst : ∀ b, stOf W [schemaRow ver] b = .absent := by
    intro b; simp [stOf, SMap.get, schemaRow, kSchema, kHave]
  have hget : ∀ k, k ≠ kSchema → SMap.get [schemaRow ver] k = none := by
    intro k hk; simp [SMap.get, schemaRow, hk]
  refine ⟨?_, ?_, fun d => Iff.rfl⟩
  · exact
      { kasc := by rw [hrows]; simp [KAsc, schemaRow]
        schema := by rw [hrows]; simp [SMap.get, schemaRow]
        r2 := by
          rw [hrows]
          intro k v _ hs
          rw [hget k hs]
          constructor
          · intro hh; cases hh
          · rintro ⟨b, hb⟩; rw [hst b] at hb; simp [rowsFor, SMap.get] at hb
        r3 := fun b m => by
          rw [hrows, hget _ (by simp [kMissing, kSchema])]
          have : (reopen ver [] [] c).needs = [] := rfl
          rw [this]; simp
        j3 := fun b m => by
          have h1 : (reopen ver [] [] c).needs = [] := rfl
          have h2 : (reopen ver [] [] c).neededBy = [] := rfl
          rw [h1, h2]; simp
        j2 := fun b m hbm => by have : (reopen ver [] [] c).needs = [] := rfl; rw [this] at hbm; cases hbm
        irr := fun b hb => by have : (reopen ver [] [] c).needs = [] := rfl; rw [this] at hb; cases hb
        j1 := fun b hb => by cases hb
        j4a := fun b m hbm => by have : (reopen ver [] [] c).needs = [] := rfl; rw [this] at hbm; cases hbm
        j4b := fun b m hbm => by have : (reopen ver [] [] c).needs = [] := rfl; rw [this] at hbm; cases hbm
        j4c := fun b hb => by rw [hrows, hst b] at hb; exact absurd rfl hb
        j4d := fun b t hb => by rw [hrows, hst b] at hb; cases hb
        s1 := fun b hb => by rw [hrows, hst b] at hb; exact absurd rfl hb
        s2 := fun b m hbm => by have : (reopen ver [] [] c).needs = [] := rfl; rw [this] at hbm; cases hbm
        seenSrc := fun b hb => by cases hb }
  · intro cc hc
    have : (reopen ver [] [] c).corpus = if c then some (Corpus.load [schemaRow ver]) else none := rfl
    rw [this] at hc
    cases c with
    | false => simp at hc
    | true =>
      simp only [if_true] at hc
      rw [← Option.some.inj hc, hrows]
      exact COk_load _ (by simp [KAsc, schemaRow])

end Pk.Index
