import PkVerif.Lemmas.BlobPacked
/-!
# Lemmas for C04, part 2: what a pack stores – the zips, their order, the rows it writes
-/
namespace Pk.BP
open Pk Pk.SMap

/-- the bytes a list of refs denotes, concatenated -/
def bytesOf (C : Ref → Bytes) : List Ref → Bytes
  | [] => []
  | r :: rs => C r ++ bytesOf C rs

theorem bytesOf_append (C : Ref → Bytes) (a b : List Ref) : bytesOf C (a ++ b) = bytesOf C a ++ bytesOf C b := by
  induction a with
  | nil => rfl
  | cons r rs ih => simp [bytesOf, ih]

theorem concatData_eq {C : Ref → Bytes} : ∀ (w : List (Ref × Bytes)), (∀ p ∈ w, p.2 = C p.1) →
    concatData w = bytesOf C (w.map (·.1))
  | [], _ => rfl
  | (r, v) :: rest, h => by
    simp only [concatData, List.map_cons, bytesOf]
    have hv : v = C r := h (r, v) (by simp)
    rw [concatData_eq rest (fun p hp => h p (List.mem_cons_of_mem _ hp)), hv]

/-! ## `fill` consumes a prefix of the remaining chunks -/

theorem fill_prefix (c : Cfg) (tbl : List Chunk) (s : St) (trunc : Option Ref) :
    ∀ (remain : List Ref) (approx : Nat) (seen : List Ref) (sbs written : List (Ref × Bytes)) (f : Filled),
    fill c tbl s trunc remain approx seen sbs written = some f →
    ∃ j, f.written.map (·.1) = written.map (·.1) ++ remain.take j
  | [], _, _, _, _, f, hf => by
    simp only [fill] at hf; injection hf with hf; subst hf; exact ⟨0, by simp⟩
  | dr :: rest, approx, seen, sbs, written, f, hf => by
    simp only [fill] at hf
    split at hf
    · injection hf with hf; subst hf; exact ⟨0, by simp⟩
    · split at hf
      · cases hf
      · split at hf
        · injection hf with hf; subst hf; exact ⟨0, by simp⟩
        · split at hf
          · split at hf
            · cases hf
            · obtain ⟨j, hj⟩ := fill_prefix c tbl s trunc rest _ _ _ _ f hf
              exact ⟨j + 1, by simp [hj]⟩
          · cases hf

theorem fill_written_prefix (c : Cfg) (tbl : List Chunk) (s : St) (trunc : Option Ref) (remain : List Ref)
    (approx : Nat) (f : Filled) (hf : fill c tbl s trunc remain approx [] [] [] = some f) :
    f.written.map (·.1) = remain.take f.written.length := by
  obtain ⟨j, hj⟩ := fill_prefix c tbl s trunc remain approx [] [] [] f hf
  simp only [List.map_nil, List.nil_append] at hj
  have hl : f.written.length = min j remain.length := by
    have := congrArg List.length hj
    simpa using this
  rw [hj, hl]
  by_cases h : j ≤ remain.length
  · rw [Nat.min_eq_left h]
  · rw [Nat.min_eq_right (by omega), List.take_of_length_le (by omega), List.take_of_length_le (by omega)]

/-- a trunc hint that is the head of `remain` makes `fill` write nothing -/
theorem fill_trunc_head (c : Cfg) (tbl : List Chunk) (s : St) (dr : Ref) (rest : List Ref) (approx : Nat)
    (seen : List Ref) (sbs written : List (Ref × Bytes)) :
    fill c tbl s (some dr) (dr :: rest) approx seen sbs written = some ⟨written, sbs, false⟩ := by
  simp [fill]

/-! ## inversion of a successful `writeAZip` -/

/-- `large` only grows, and a stored zip is never replaced -/
def LargeMono (s s' : St) : Prop := ∀ k z, get s.large k = some z → get s'.large k = some z

theorem LargeMono.refl (s : St) : LargeMono s s := fun _ _ h => h
theorem LargeMono.trans {a b c : St} (h1 : LargeMono a b) (h2 : LargeMono b c) : LargeMono a c :=
  fun k z h => h2 k z (h1 k z h)

theorem largeMono_putLarge (s : St) (zr : Ref) (z : Zip) : LargeMono s (putLarge s zr z) :=
  fun k z0 h => get_putLarge_other s zr z k z0 h

theorem get_putLarge_cases (s : St) (zr : Ref) (z : Zip) (k : Ref) (z' : Zip)
    (h : get (putLarge s zr z).large k = some z') : get s.large k = some z' ∨ k = zr := by
  unfold putLarge at h
  split at h
  · exact Or.inl h
  · simp only [get_ins] at h
    by_cases e : k = zr
    · exact Or.inr e
    · simp only [e, if_false] at h; exact Or.inl h
theorem delSmallB_fields
 (s : St) (bud : Budget) (refs : List Ref) :
    (delSmallB s bud refs).1.large = s.large ∧ (delSmallB s bud refs).1.b = s.b ∧
    (delSmallB s bud refs).1.w = s.w ∧ (delSmallB s bud refs).1.z = s.z ∧ (delSmallB s bud refs).1.d = s.d := by
  unfold delSmallB
  simp only
  split
  · exact ⟨rfl, rfl, rfl, rfl, rfl⟩
  · split <;> exact ⟨rfl, rfl, rfl, rfl, rfl⟩

structure StoredFacts (C : Ref → Bytes) (env : PackEnv) (tbl : List Chunk) (whole : Ref) (wsz : Nat) (s : St)
    (remain : List Ref) (n wbw : Nat) (trunc : Option Ref) (s' : St) (zr : Ref) (k len ds zsz : Nat) : Prop where
  ex : ∃ (l : ZipLayout) (f : Filled),
    zr = l.ref ∧ ds = l.dataStart ∧ zsz = l.size ∧ k = f.written.length ∧ len = (concatData f.written).length ∧
    f.written.map (·.1) = remain.take k ∧ (∀ p ∈ f.written, p.2 = C p.1) ∧
    l.size ≤ env.c.zipMax ∧ layoutOK l (concatData f.written) f.schemaBlobs = true ∧
    (f.written.isEmpty = true → env.c.legacy = true) ∧
    get s'.large zr = some (buildZip l f.written f.schemaBlobs whole wsz n) ∧
    ZipWF C (buildZip l f.written f.schemaBlobs whole wsz n) ∧
    s'.w = (commitZip s zr (buildZip l f.written f.schemaBlobs whole wsz n) wbw).w ∧
    s'.z = (commitZip s zr (buildZip l f.written f.schemaBlobs whole wsz n) wbw).z ∧
    s'.d = s.d ∧
    s'.large = (putLarge s zr (buildZip l f.written f.schemaBlobs whole wsz n)).large
  mono : LargeMono s s'
  /-- every blob of the stored zip has a `b:` row afterwards -/
  rows : ∀ z, get s'.large zr = some z → ∀ p ∈ zipBlobRows zr z, (get s'.b p.1).isSome = true

theorem writeAZip_stored {C : Ref → Bytes} (env : PackEnv) (nameOK : Bool) (tbl : List Chunk) (whole : Ref) (wsz : Nat)
    (s : St) (bud : Budget) (remain : List Ref) (n wbw : Nat) (trunc : Option Ref) (lay : Option ZipLayout)
    (h : Inv C s) (ht : TblOK C s tbl) (s' : St) (bud' : Budget) (zr : Ref) (k len ds zsz : Nat)
    (hw : (writeAZip env nameOK tbl whole wsz s bud remain n wbw trunc lay).1 = .stored s' bud' zr k len ds zsz) :
    StoredFacts C env tbl whole wsz s remain n wbw trunc s' zr k len ds zsz := by
  unfold writeAZip at hw
  split at hw
  · simp at hw
  · split at hw
    · simp at hw
    · rename_i f hf
      obtain ⟨hwr, hs⟩ := fill_ok h env.c tbl trunc ht remain _ [] [] [] f (PairsOK_nil C s) (PairsOK_nil C s) hf
      split at hw
      · simp at hw
      · rename_i hempty
        split at hw
        · simp at hw
        · rename_i l
          simp only at hw
          split at hw
          · simp at hw
          · rename_i hlay
            split at hw
            · split at hw <;> simp at hw
            · rename_i hsize
              split at hw
              · simp at hw
              · rename_i hcoll
                split at hw
                · simp at hw
                · split at hw
                  · simp at hw
                  · simp only [ZipOut.stored.injEq] at hw
                    obtain ⟨e1, _, e3, e4, e5, e6, e7⟩ := hw
                    have hlay' : layoutOK l (concatData f.written) f.schemaBlobs = true := by simpa using hlay
                    have hcoll' : collides s.large l.ref (buildZip l f.written f.schemaBlobs whole wsz n) = false := by
                      simpa using hcoll
                    have hwf : ZipWF C (buildZip l f.written f.schemaBlobs whole wsz n) :=
                      zipWF_build l f.written f.schemaBlobs whole wsz n (fun p hp => (hwr p hp).1)
                        (fun p hp => (hs p hp).1) hlay'
                    have hfields := delSmallB_fields
                      (commitZip (putLarge s l.ref (buildZip l f.written f.schemaBlobs whole wsz n)) l.ref
                        (buildZip l f.written f.schemaBlobs whole wsz n) wbw) bud.take.2.take.2
                      (f.written.map (·.1) ++ f.schemaBlobs.map (·.1))
                    rw [e1] at hfields
                    have hl1 : (commitZip (putLarge s l.ref (buildZip l f.written f.schemaBlobs whole wsz n)) l.ref
                        (buildZip l f.written f.schemaBlobs whole wsz n) wbw).large =
                        (putLarge s l.ref (buildZip l f.written f.schemaBlobs whole wsz n)).large := rfl
                    have hpw : (putLarge s l.ref (buildZip l f.written f.schemaBlobs whole wsz n)).w = s.w := by
                      unfold putLarge; split <;> rfl
                    have hpz : (putLarge s l.ref (buildZip l f.written f.schemaBlobs whole wsz n)).z = s.z := by
                      unfold putLarge; split <;> rfl
                    have hpd : (putLarge s l.ref (buildZip l f.written f.schemaBlobs whole wsz n)).d = s.d := by
                      unfold putLarge; split <;> rfl
                    refine ⟨⟨l, f, e3.symm, e6.symm, e7.symm, e4.symm, e5.symm, ?_, fun p hp => (hwr p hp).1, by omega, hlay', ?_, ?_, hwf, ?_, ?_, ?_, ?_⟩, ?_, ?_⟩
                    · rw [← e4]; exact fill_written_prefix _ _ _ _ _ _ f hf
                    · intro he
                      cases hleg : env.c.legacy with
                      | true => rfl
                      | false => simp [he, hleg] at hempty
                    · rw [← e3, hfields.1, hl1]; exact get_putLarge_self s l.ref _ hcoll'
                    · rw [hfields.2.2.1, ← e3]; simp only [commitZip, hpw]
                    · rw [hfields.2.2.2.1, ← e3]; simp only [commitZip, hpz]
                    · rw [hfields.2.2.2.2]; simp only [commitZip, hpd]
                    · rw [hfields.1, hl1, ← e3]
                    · intro k0 z0 hk
                      rw [hfields.1, hl1]
                      exact largeMono_putLarge s l.ref _ k0 z0 hk
                    · intro z hz p hp
                      have hgz : get s'.large zr = some (buildZip l f.written f.schemaBlobs whole wsz n) := by
                        rw [← e3, hfields.1, hl1]; exact get_putLarge_self s l.ref _ hcoll'
                      rw [hgz] at hz
                      injection hz with hz
                      subst hz
                      rw [hfields.2.1]
                      simp only [commitZip, isSome_get_setRows]
                      have : (zipBlobRows l.ref (buildZip l f.written f.schemaBlobs whole wsz n)).any (fun q => q.1 == p.1) = true := by
                        rw [List.any_eq_true]; exact ⟨p, by rw [e3]; exact hp, by simp⟩
                      simp [this]

theorem writeAZip_fail_mono (env : PackEnv) (nameOK : Bool) (tbl : List Chunk) (whole : Ref) (wsz : Nat)
    (s : St) (bud : Budget) (remain : List Ref) (n wbw : Nat) (trunc : Option Ref) (lay : Option ZipLayout)
    (s' : St) (bud' : Budget)
    (hw : (writeAZip env nameOK tbl whole wsz s bud remain n wbw trunc lay).1 = .fail s' bud') :
    LargeMono s s' ∧ s'.w = s.w ∧ s'.z = s.z ∧ s'.d = s.d := by
  have base : ∀ b, ZipOut.fail s b = ZipOut.fail s' bud' → LargeMono s s' ∧ s'.w = s.w ∧ s'.z = s.z ∧ s'.d = s.d := by
    intro b e; injection e with e1 _; subst e1; exact ⟨LargeMono.refl s, rfl, rfl, rfl⟩
  unfold writeAZip at hw
  split at hw
  · exact base _ hw
  · split at hw
    · exact base _ hw
    · split at hw
      · exact base _ hw
      · split at hw
        · exact base _ hw
        · simp only at hw
          split at hw
          · exact base _ hw
          · split at hw
            · split at hw
              · simp at hw
              · exact base _ hw
            · split at hw
              · exact base _ hw
              · split at hw
                · exact base _ hw
                · split at hw
                  · simp only [ZipOut.fail.injEq] at hw
                    obtain ⟨e1, _⟩ := hw
                    subst e1
                    refine ⟨largeMono_putLarge s _ _, ?_, ?_, ?_⟩ <;> (unfold putLarge; split <;> rfl)
                  · simp at hw

/-! ## the zips a pack stores -/

/-- manifest entries with running offsets from `o`, ending at `tot` -/
def Running : List Entry → Nat → Nat → Prop
  | [], o, tot => o = tot
  | e :: es, o, tot => e.off = o ∧ Running es (o + e.size) tot

theorem running_mkEntries : ∀ (w : List (Ref × Bytes)) (o : Nat), Running (mkEntries w o) o (o + (concatData w).length)
  | [], o => by simp [mkEntries, Running, concatData]
  | (r, v) :: rest, o => by
    simp only [mkEntries, Running, concatData, List.length_append, true_and]
    have := running_mkEntries rest (o + v.length)
    rwa [Nat.add_assoc] at this

def sumLen : List ZipRec → Nat
  | [] => 0
  | p :: ps => p.len + sumLen ps

theorem sumLen_append (a b : List ZipRec) : sumLen (a ++ b) = sumLen a + sumLen b := by
  induction a with
  | nil => simp [sumLen]
  | cons p ps ih => simp [sumLen, ih]; omega

/-- part indexes count up from `i`, data offsets are the running sums from `o` -/
def Chain : List ZipRec → Nat → Nat → Prop
  | [], _, _ => True
  | p :: ps, i, o => p.idx = i ∧ p.off = o ∧ Chain ps (i + 1) (o + p.len)

theorem chain_snoc : ∀ (zs : List ZipRec) (i o : Nat) (p : ZipRec), Chain zs i o →
    p.idx = i + zs.length → p.off = o + sumLen zs → Chain (zs ++ [p]) i o
  | [], i, o, p, _, h1, h2 => by simp [Chain, sumLen] at *; exact ⟨h1, h2⟩
  | q :: qs, i, o, p, hc, h1, h2 => by
    obtain ⟨c1, c2, c3⟩ := hc
    refine ⟨c1, c2, chain_snoc qs (i + 1) (o + q.len) p c3 ?_ ?_⟩
    · simp at h1; omega
    · simp [sumLen] at h2; omega

/-- a zip stored by the pack of a file whose chunks (in scan order) denote `allBytes`: a valid blob
within the size limit, well-formed, carrying the file's identity and its part index, whose first
file is the contiguous slice `[off, off+len)` of the file's bytes, with manifest offsets that are the
running sums of the sizes -/
def GoodZip (C : Ref → Bytes) (zipMax : Nat) (allBytes : Bytes) (whole : Ref) (wsz : Nat) (s : St) (p : ZipRec) : Prop :=
  ∃ z, get s.large p.zr = some z ∧ z.size ≤ zipMax ∧ ZipWF C z ∧ z.wholeRef = whole ∧ z.wholeSize = wsz ∧
    z.partIndex = p.idx ∧ z.dataStart = p.ds ∧ z.size = p.zsize ∧ z.data.length = p.len ∧ p.off + p.len ≤ allBytes.length ∧
    z.data = slice allBytes p.off p.len ∧ Running z.dataBlobs 0 z.data.length

theorem GoodZip.mono {C : Ref → Bytes} {zipMax : Nat} {allBytes : Bytes} {whole : Ref} {wsz : Nat} {s s' : St}
    {p : ZipRec} (h : GoodZip C zipMax allBytes whole wsz s p) (m : LargeMono s s') :
    GoodZip C zipMax allBytes whole wsz s' p := by
  obtain ⟨z, hz, rest⟩ := h
  exact ⟨z, m _ _ hz, rest⟩

theorem slice_mid (a b c : Bytes) : slice (a ++ (b ++ c)) a.length b.length = b := by
  simp [slice]

theorem setWhole_large (s : St) (w : Ref) (a b : Nat) : (setWhole s w a b).large = s.large := rfl

theorem packLoop_zips {C : Ref → Bytes} (env : PackEnv) (nameOK : Bool) (tbl : List Chunk) (whole : Ref) (wsz : Nat)
    (allRefs : List Ref) :
    ∀ (fuel : Nat) (s : St) (bud : Budget) (remain : List Ref) (n wbw : Nat) (trunc : Option Ref)
      (lays : List ZipLayout) (t o : Nat) (zs : List ZipRec) (consumed : List Ref),
      Inv C s → TblOK C s tbl → allRefs = consumed ++ remain → wbw = (bytesOf C consumed).length →
      (∀ p ∈ zs, GoodZip C env.c.zipMax (bytesOf C allRefs) whole wsz s p) →
      Chain zs 0 0 → zs.length = n → sumLen zs = wbw →
      (∀ p ∈ (packLoop env nameOK tbl whole wsz fuel s bud remain n wbw trunc lays t o zs).zips,
        GoodZip C env.c.zipMax (bytesOf C allRefs) whole wsz
          (packLoop env nameOK tbl whole wsz fuel s bud remain n wbw trunc lays t o zs).s p) ∧
      Chain (packLoop env nameOK tbl whole wsz fuel s bud remain n wbw trunc lays t o zs).zips 0 0 ∧
      ((packLoop env nameOK tbl whole wsz fuel s bud remain n wbw trunc lays t o zs).ok = true →
        sumLen (packLoop env nameOK tbl whole wsz fuel s bud remain n wbw trunc lays t o zs).zips =
          (bytesOf C allRefs).length)
  | 0, s, bud, remain, n, wbw, trunc, lays, t, o, zs, consumed, _, _, _, _, hg, hc, _, _ => by
    simp only [packLoop]
    exact ⟨hg, hc, fun h => by cases h⟩
  | fuel + 1, s, bud, remain, n, wbw, trunc, lays, t, o, zs, consumed, h, ht, hall, hwbw, hg, hc, hn, hsum => by
    unfold packLoop
    split
    · rename_i hre
      have hre' : remain = [] := by simpa using hre
      subst hre'
      simp only [List.append_nil] at hall
      split
      · refine ⟨fun p hp => (hg p hp).mono (fun k z hk => hk), hc, fun _ => ?_⟩
        simp only
        rw [hsum, hwbw, hall]
      · exact ⟨hg, hc, fun hh => by cases hh⟩
    · have hs := writeAZip_sound (C := C) env nameOK tbl whole wsz s bud remain n wbw trunc lays.head? h ht
      simp only
      split
      · rename_i s' bud' heq
        obtain ⟨m, _⟩ := writeAZip_fail_mono env nameOK tbl whole wsz s bud remain n wbw trunc lays.head? s' bud' heq
        exact ⟨fun p hp => (hg p hp).mono m, hc, fun hh => by cases hh⟩
      · exact packLoop_zips env nameOK tbl whole wsz allRefs fuel s bud remain n wbw _ _ _ _ zs consumed h ht hall hwbw hg hc hn hsum
      · rename_i s' bud' zr k len ds zsz heq
        rw [heq] at hs
        have sf := writeAZip_stored (C := C) env nameOK tbl whole wsz s bud remain n wbw trunc lays.head? h ht s' bud' zr k len ds zsz heq
        obtain ⟨⟨l, f, e1, e0, ez, e2, e3, hpre, hbytes, hsz, _, _, hget, hwf, _, _, _, _⟩, hm⟩ := sf
        have hdata : concatData f.written = bytesOf C (remain.take k) := by
          rw [concatData_eq f.written hbytes, hpre]
        have hsplit : bytesOf C allRefs = bytesOf C consumed ++ (bytesOf C (remain.take k) ++ bytesOf C (remain.drop k)) := by
          rw [hall, bytesOf_append, ← bytesOf_append C (remain.take k), List.take_append_drop]
        have hlen : len = (bytesOf C (remain.take k)).length := by rw [e3, hdata]
        refine packLoop_zips env nameOK tbl whole wsz allRefs fuel s' bud' (remain.drop k) (n + 1) (wbw + len) none
          lays.tail t _ (zs ++ [(⟨zr, wbw, n, len, ds, zsz⟩ : ZipRec)]) (consumed ++ remain.take k) hs.1 (ht.sameView hs.2)
          ?_ ?_ ?_ ?_ ?_ ?_
        · rw [hall, List.append_assoc, List.take_append_drop]
        · rw [bytesOf_append, List.length_append, ← hwbw, hlen]
        · intro p hp
          rcases List.mem_append.mp hp with hp | hp
          · exact (hg p hp).mono hm
          · simp only [List.mem_singleton] at hp
            subst hp
            refine ⟨_, hget, hsz, hwf, rfl, rfl, rfl, ?_, ?_, ?_, ?_, ?_, ?_⟩
            · simp only [buildZip]; exact e0.symm
            · simp only [buildZip]; exact ez.symm
            · simp only [buildZip]; exact e3.symm
            · simp only; rw [hsplit, hwbw, hlen]; simp
            · simp only [buildZip]
              rw [hdata, hsplit, hwbw, hlen, slice_mid]
            · have := running_mkEntries f.written 0
              simpa [buildZip] using this
        · exact chain_snoc zs 0 0 _ hc (by simp [hn]) (by simp [hsum])
        · simp [hn]
        · rw [sumLen_append, hsum]; simp [sumLen]

/-! ## at the level of `packFile` -/

/-- the data chunks of a file in scan order (what `scanChunks` collects in `pk.dataRefs`) -/
def chunkRefs (K : Ref → Kind) (s : St) (fileRef : Ref) : List Ref :=
  match fetch s fileRef, (K fileRef).parts? with
  | .ok v, some parts =>
    match scanParts K s scanFuel [(fileRef, v)] parts with
    | some tbl => tbl.map (·.ref)
    | none => []
  | _, _ => []

/-- the bytes of the file as the file reader delivers them (`io.Copy(h, pk.fr)`) -/
def fileBytes (K : Ref → Kind) (s : St) (fileRef : Ref) : Option Bytes :=
  match (K fileRef).parts? with
  | some parts => denoteParts K s scanFuel parts
  | none => none

theorem packFile_zips {C : Ref → Bytes} (env : PackEnv) (s : St) (bud : Budget) (fileRef : Ref)
    (lays : List ZipLayout) (fuel : Nat) (h : Inv C s) :
    (∀ p ∈ (packFile env s bud fileRef lays fuel).zips, ∃ W, fileBytes env.K s fileRef = some W ∧
      GoodZip C env.c.zipMax (bytesOf C (chunkRefs env.K s fileRef)) (env.H W) W.length
        (packFile env s bud fileRef lays fuel).s p) ∧
    Chain (packFile env s bud fileRef lays fuel).zips 0 0 ∧
    ((packFile env s bud fileRef lays fuel).ok = true →
      sumLen (packFile env s bud fileRef lays fuel).zips = (bytesOf C (chunkRefs env.K s fileRef)).length) := by
  have base : ∀ (st : St) (b : Budget), (∀ p ∈ ([] : List ZipRec), ∃ W, fileBytes env.K s fileRef = some W ∧
      GoodZip C env.c.zipMax (bytesOf C (chunkRefs env.K s fileRef)) (env.H W) W.length st p) ∧
      Chain ([] : List ZipRec) 0 0 ∧ (false = true → sumLen ([] : List ZipRec) = (bytesOf C (chunkRefs env.K s fileRef)).length) :=
    fun _ _ => ⟨(fun p hp => nomatch hp), trivial, (fun hh => nomatch hh)⟩
  unfold packFile
  simp only
  split
  · rename_i v parts hv hk
    split
    · exact base s bud
    · rename_i tbl htbl
      split
      · exact base s bud
      · rename_i W hW
        split
        · exact base s bud
        · obtain ⟨hpv, hvv⟩ := fetch_ok h hv
          have hpath : PairsOK C s [(fileRef, v)] := by
            intro q hq; simp only [List.mem_singleton] at hq; subst hq; exact ⟨hvv, hpv⟩
          have hcr : chunkRefs env.K s fileRef = tbl.map (·.ref) := by
            unfold chunkRefs; rw [hv, hk]; simp only; rw [htbl]
          have hfb : fileBytes env.K s fileRef = some W := by
            unfold fileBytes; rw [hk]; exact hW
          have := packLoop_zips (C := C) env (match env.K fileRef with | .file n _ => n | _ => true) tbl (env.H W) W.length
            (tbl.map (·.ref)) fuel s bud (tbl.map (·.ref)) 0 0 none lays 0 0 [] [] h
            (scanParts_ok h env.K scanFuel _ parts tbl hpath htbl) (by simp) (by simp [bytesOf])
            (fun p hp => by cases hp) trivial rfl rfl
          rw [hcr]
          exact ⟨fun p hp => ⟨W, hfb, this.1 p hp⟩, this.2.1, this.2.2⟩
  · exact base s bud

/-! ## plain files: the file's bytes are the concatenation of its chunks -/

/-- every data part covers its whole blob from offset 0, every "bytes" part covers its whole sub-tree
from offset 0 (what every file writer of perkeep produces) -/
def simpleParts (K : Ref → Kind) (C : Ref → Bytes) : Nat → List Part → Bool
  | 0, _ => false
  | _ + 1, [] => true
  | fuel + 1, p :: ps =>
    (match p.kind with
     | .blob => p.off == 0 && p.size == (C p.ref).length
     | .bytes =>
       p.off == 0 &&
         (match (K p.ref).parts? with
          | some sub => simpleParts K C fuel sub && p.size == sumSize sub
          | none => false)
     | _ => false) && simpleParts K C fuel ps

theorem simple_denote {C : Ref → Bytes} {s : St} (h : Inv C s) (K : Ref → Kind) :
    ∀ (fuel : Nat) (path : List (Ref × Bytes)) (parts : List Part) (tbl : List Chunk) (W : Bytes),
      simpleParts K C fuel parts = true → scanParts K s fuel path parts = some tbl →
      denoteParts K s fuel parts = some W →
      W = bytesOf C (tbl.map (·.ref)) ∧ W.length = sumSize parts
  | 0, _, _, _, _, hs, _, _ => by simp [simpleParts] at hs
  | fuel + 1, path, [], tbl, W, _, hsc, hd => by
    simp only [scanParts] at hsc; injection hsc with hsc; subst hsc
    simp only [denoteParts] at hd; injection hd with hd; subst hd
    exact ⟨rfl, rfl⟩
  | fuel + 1, path, p :: ps, tbl, W, hs, hsc, hd => by
    simp only [simpleParts, Bool.and_eq_true] at hs
    obtain ⟨hhere, hrest⟩ := hs
    simp only [scanParts] at hsc
    simp only [denoteParts] at hd
    cases hk : p.kind with
    | both => rw [hk] at hhere; simp at hhere
    | hole => rw [hk] at hhere; simp at hhere
    | blob =>
      rw [hk] at hhere hsc hd
      simp only [Bool.and_eq_true, beq_iff_eq] at hhere
      obtain ⟨hoff, hsize⟩ := hhere
      simp only [hoff, ne_eq, not_true_eq_false, if_false] at hsc
      cases hr : scanParts K s fuel path ps with
      | none => simp [hr] at hsc
      | some r =>
        simp only [hr, Option.map_some] at hsc
        injection hsc with hsc; subst hsc
        cases hf : fetch s p.ref with
        | notExist => simp [hf] at hd
        | err => simp [hf] at hd
        | ok v =>
          obtain ⟨_, hv⟩ := fetch_ok h hf
          simp only [hf] at hd
          cases hdr : denoteParts K s fuel ps with
          | none => simp [hdr] at hd
          | some Wr =>
            obtain ⟨ih1, ih2⟩ := simple_denote h K fuel path ps r Wr hrest hr hdr
            simp only [hdr, hoff, Nat.zero_add, hsize, hv, Nat.le_refl, if_true] at hd
            injection hd with hd
            subst hd
            refine ⟨?_, ?_⟩
            · simp only [List.map_cons, bytesOf, slice, List.drop_zero, List.take_length, ih1]
            · simp only [sumSize, List.length_append, ih2, hsize, slice, List.drop_zero, List.take_length]
    | bytes =>
      rw [hk] at hhere hsc hd
      simp only [Bool.and_eq_true, beq_iff_eq] at hhere
      obtain ⟨hoff, hsub⟩ := hhere
      cases hf : fetch s p.ref with
      | notExist => simp [hf] at hsc
      | err => simp [hf] at hsc
      | ok v =>
        cases hkp : (K p.ref).parts? with
        | none => simp [hf, hkp] at hsc
        | some sub =>
          simp only [hkp, Bool.and_eq_true, beq_iff_eq] at hsub
          obtain ⟨hsimple, hsz⟩ := hsub
          simp only [hf, hkp] at hsc hd
          cases ha : scanParts K s fuel (path ++ [(p.ref, v)]) sub with
          | none => simp [ha] at hsc
          | some a =>
            simp only [ha] at hsc
            cases hr : scanParts K s fuel path ps with
            | none => simp [hr] at hsc
            | some r =>
              simp only [hr, Option.map_some] at hsc
              injection hsc with hsc; subst hsc
              cases hds : denoteParts K s fuel sub with
              | none => simp [hds] at hd
              | some Ws =>
                cases hdr : denoteParts K s fuel ps with
                | none => simp [hds, hdr] at hd
                | some Wr =>
                  obtain ⟨s1, s2⟩ := simple_denote h K fuel _ sub a Ws hsimple ha hds
                  obtain ⟨r1, r2⟩ := simple_denote h K fuel path ps r Wr hrest hr hdr
                  simp only [hds, hdr, hoff, Nat.zero_add, hsz, s2, Nat.le_refl, if_true] at hd
                  injection hd with hd
                  subst hd
                  have hsl : slice Ws 0 (sumSize sub) = Ws := by
                    rw [← s2]; simp [slice]
                  refine ⟨?_, ?_⟩
                  · rw [hsl, List.map_append, bytesOf_append, ← s1, ← r1]
                  · rw [hsl]; simp only [sumSize, List.length_append, s2, r2, hsz]

end Pk.BP
