import PkVerif.Lemmas.EncryptInv
import PkVerif.Lemmas.EncryptRefine
/-!
# A toy instance of the encrypt store's parameters (C11)

Shows that the hypotheses of the C11 theorems (`AEAD`'s law fields, `Ideal`) are jointly satisfiable,
and provides the concrete states of the `example`s and counterexamples.  Digest: `x` followed by the hex
of the bytes (injective, and a text without `/` and newline).
-/
namespace Pk.Encrypt
open Pk Pk.SMap

def toyDigest (b : Bytes) : Bytes := 120 :: hexEnc b

/-- `small`/`full` are parameters: tiny ones make compaction happen after two receives -/
def toyP (small full : Nat) : Params where
  A := toyAEAD
  key := [107]
  digest := toyDigest
  parseKnown := fun _ => true
  parseValid := fun _ => true
  version := 2
  full := full
  small := small

theorem hexDigit_inj' (a b : Nat) (h : hexDigit a = hexDigit b) : a = b := by
  unfold hexDigit at h
  split at h <;> split at h <;> omega

theorem hexEnc_inj : ∀ (a b : Bytes), hexEnc a = hexEnc b → a = b
  | [], [], _ => rfl
  | [], _ :: _, h => by simp [hexEnc] at h
  | _ :: _, [], h => by simp [hexEnc] at h
  | x :: xs, y :: ys, h => by
    simp only [hexEnc, List.cons.injEq] at h
    obtain ⟨h1, h2, h3⟩ := h
    have e1 := hexDigit_inj' _ _ h1
    have e2 := hexDigit_inj' _ _ h2
    have : x = y := by omega
    rw [this, hexEnc_inj xs ys h3]

theorem hexDigit_ne (n c : Nat) (hc : c < 48) : hexDigit n ≠ c := by
  unfold hexDigit; split <;> omega

theorem hexEnc_no (c : Nat) (hc : c < 48) (b : Bytes) : c ∉ hexEnc b := by
  induction b with
  | nil => simp [hexEnc]
  | cons x xs ih =>
    simp only [hexEnc, List.mem_cons, not_or]
    exact ⟨fun e => hexDigit_ne _ c hc e.symm, fun e => hexDigit_ne _ c hc e.symm, ih⟩

theorem toy_nonce_visible (k : Bytes) (r r' : Nat) (p p' : Bytes) (h : toyEnc k r p = toyEnc k r' p') : r = r' := by
  simp only [toyEnc, List.cons.injEq, true_and] at h
  have := List.append_cancel_left h
  simp only [List.cons.injEq] at this
  omega

theorem toy_ideal (small full : Nat) : Ideal (toyP small full) where
  digest_inj := by
    intro a b h
    simp only [toyP, toyDigest, List.cons.injEq, true_and] at h
    exact hexEnc_inj a b h
  nonce_visible := fun k r r' p p' h => toy_nonce_visible k r r' p p' h
  ref_known := fun _ => rfl
  ref_valid := fun _ => rfl
  ref_nosep := by
    intro b
    refine ⟨?_, ?_⟩
    · show 47 ∉ 120 :: hexEnc b
      simp only [List.mem_cons, not_or]; exact ⟨by decide, hexEnc_no 47 (by decide) b⟩
    · show 10 ∉ 120 :: hexEnc b
      simp only [List.mem_cons, not_or]; exact ⟨by decide, hexEnc_no 10 (by decide) b⟩

/-- run a ReceiveBlob to its end, one micro-step at a time, without letting the packers run -/
def recvAll (P : Params) (s : St) (plain : Bytes) : St :=
  let s1 := (recvBegin P goodR s (P.digest plain) plain).1
  recvStep P goodP (recvStep P goodP (recvStep P goodP (recvStep P goodP (recvStep P goodP s1))))

/-! ## concrete states used by the examples of `Props/C11.lean` -/

/-- two blobs received with thresholds `small = 1`: the second receive starts a packer -/
def demo2 : St := recvAll (toyP 1 10) (recvAll (toyP 1 10) {} [1, 2, 3]) [4, 5]

theorem reach_recvAll (P : Params) (s : St) (plain : Bytes) (hs : Reach P goodR goodP s) (h0 : s.recv = none)
    (hl : plain.length < 4294967296) (hfi : s.failIndex = 0)
    (hb : recvBegin P goodR s (P.digest plain) plain = ((recvBegin P goodR s (P.digest plain) plain).1, none))
    (h1 : (recvBegin P goodR s (P.digest plain) plain).1.recv ≠ none)
    (h2 : (recvStep P goodP (recvBegin P goodR s (P.digest plain) plain).1).recv ≠ none)
    (h3 : (recvStep P goodP (recvStep P goodP (recvBegin P goodR s (P.digest plain) plain).1)).recv ≠ none)
    (h4 : (recvStep P goodP (recvStep P goodP (recvStep P goodP (recvBegin P goodR s (P.digest plain) plain).1))).recv ≠ none)
    (h5 : (recvStep P goodP (recvStep P goodP (recvStep P goodP (recvStep P goodP
      (recvBegin P goodR s (P.digest plain) plain).1)))).recv ≠ none) :
    Reach P goodR goodP (recvAll P s plain) := by
  have r0 : Reach P goodR goodP (recvBegin P goodR s (P.digest plain) plain).1 :=
    .step s _ hs (.recvBegin s _ plain _ h0 hl hb)
  have g0 : (recvBegin P goodR s (P.digest plain) plain).1.failIndex = 0 := by
    rw [recvBegin_failIndex]; exact hfi
  have g1 := recvStep_failIndex (P := P) _ g0
  have g2 := recvStep_failIndex (P := P) _ g1
  have g3 := recvStep_failIndex (P := P) _ g2
  have g4 := recvStep_failIndex (P := P) _ g3
  have r1 := Reach.step _ _ r0 (.recvStep _ h1 g0)
  have r2 := Reach.step _ _ r1 (.recvStep _ h2 g1)
  have r3 := Reach.step _ _ r2 (.recvStep _ h3 g2)
  have r4 := Reach.step _ _ r3 (.recvStep _ h4 g3)
  exact Reach.step _ _ r4 (.recvStep _ h5 g4)

theorem demo2_reach : Reach (toyP 1 10) goodR goodP demo2 := by
  unfold demo2
  refine reach_recvAll _ _ _ (reach_recvAll _ _ _ .init rfl (by decide) rfl (by decide) (by decide) (by decide)
    (by decide) (by decide) (by decide)) (by decide) (by decide) (by decide) (by decide) (by decide) (by decide)
    (by decide) (by decide) (by decide)

/-- the plaintext of a data blob that reads like a meta blob: `victim ↦ size/enc` -/
def lookalike (victim : Bytes) (size : Nat) (enc : Bytes) : Bytes := fmtMeta [(victim, packIndexEntry size enc)]

/-- V, W and a look-alike `V ↦ |V|/enc(W)` are received; the content of V's meta blob is then replaced by
the stored CIPHERTEXT of the look-alike (a blob-for-blob substitution inside the wrapped stores) -/
def attackState : St :=
  let P := toyP 100 10000
  let s1 := recvAll P {} [86, 86, 86]
  let s2 := recvAll P s1 [87, 87, 87, 87]
  let encW := (s2.blobs.map (·.1)).filter (fun n => n ≠ (s1.blobs.map (·.1)).headD [])
  let s3 := recvAll P s2 (lookalike (toyDigest [86, 86, 86]) 3 (encW.headD []))
  let encL := ((s3.blobs.filter (fun kv => !(s2.blobs.map (·.1)).contains kv.1)).map (·.2)).headD []
  let mV := (s1.metas.map (·.1)).headD []
  { s3 with metas := ins mV encL s3.metas }

/-- mid-compaction: the packer of `demo2` has uploaded the packed meta blob and not yet removed the small
ones (three meta blobs lie in the store); the index is rebuilt in full -/
def demo2mid : St := stepJob (toyP 1 10) goodP demo2 0


end Pk.Encrypt
