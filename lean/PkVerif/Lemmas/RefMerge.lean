import PkVerif.Lemmas.Stores
/-! C01: the two-way merged enumeration equals the spec's enumeration of the union; shard, replica and
cond refine the reference map whenever their sub-stores do. -/
namespace Pk.Stores
open Pk Pk.SMap Pk.RefMap

/-! ### small facts about `SMap`, `sizes` and `Good` -/

theorem mem_keys_iff_has {V : Type} (m : SMap V) (k : Bytes) : k ∈ SMap.keys m ↔ has m k = true := by
  induction m with
  | nil => simp [SMap.keys, has, SMap.get]
  | cons p rest ih =>
    obtain ⟨k', v⟩ := p
    simp only [SMap.keys, List.map_cons, List.mem_cons, has, SMap.get] at ih ⊢
    by_cases hk : k = k'
    · simp [hk]
    · simp [hk, ih]

theorem has_union {V : Type} (a b : SMap V) (k : Bytes) : has (union a b) k = (has a k || has b k) := by
  unfold has; rw [get_union]
  cases SMap.get a k <;> simp

theorem has_filter_key {V : Type} (p : Bytes → Bool) {m : SMap V} (hm : KAsc m) (k : Bytes) :
    has (m.filter (fun q => p q.1)) k = (p k && has m k) := by
  unfold has; rw [get_filter_key p hm]
  cases p k <;> simp

theorem keys_sizes (m : SMap Bytes) : MergedEnum.keys (sizes m) = SMap.keys m := by
  simp [MergedEnum.keys, sizes, SMap.keys, List.map_map, Function.comp_def]

theorem pw_sizes {m : SMap Bytes} (h : KAsc m) : MergedEnum.PW (sizes m) := by
  unfold MergedEnum.PW sizes
  rw [List.pairwise_map]
  exact h

theorem asc_keys_sizes {m : SMap Bytes} (h : KAsc m) : Asc ltB (MergedEnum.keys (sizes m)) :=
  (MergedEnum.ascK_iff_pw _).mpr (pw_sizes h)

/-- in a good map every reported size is the length of the key's content -/
theorem good_sizes_entry {content : Bytes → Bytes} {m : SMap Bytes} (hm : Good content m)
    (p : Bytes → Bool) (e : Bytes × Nat) (he : e ∈ sizes (m.filter (fun q => p q.1))) :
    e.2 = (content e.1).length := by
  obtain ⟨q, hq, rfl⟩ := List.mem_map.mp he
  have hq' := (List.mem_filter.mp hq).1
  obtain ⟨k, v⟩ := q
  have := (hm.2 k v (mem_get hm.1 hq')).1
  simp [this]

theorem good_union {content : Bytes → Bytes} {A B : SMap Bytes} (hA : Good content A)
    (hB : Good content B) : Good content (union A B) := by
  refine ⟨kasc_union A hB.1, ?_⟩
  intro k v h
  rw [get_union] at h
  cases hg : SMap.get A k with
  | none => rw [hg] at h; exact hB.2 k v h
  | some w => rw [hg] at h; injection h with h; subst h; exact hA.2 k w hg

/-- a list of entries whose second component is a function of the first is determined by its keys -/
theorem eq_map_keys (f : Bytes → Nat) (l : List (Bytes × Nat)) (h : ∀ e ∈ l, e.2 = f e.1) :
    l = (MergedEnum.keys l).map (fun k => (k, f k)) := by
  induction l with
  | nil => rfl
  | cons a t ih =>
    obtain ⟨k, n⟩ := a
    have h1 : n = f k := h (k, n) (by simp)
    simp only [MergedEnum.keys, List.map_cons, List.map_map] at ih ⊢
    rw [h1]
    congr 1
    exact ih (fun e he => h e (by simp [he]))

/-! ### 1. the two-source merged enumeration is the spec's enumeration of the union -/

theorem enum2_spec {content : Bytes → Bytes} {A B : SMap Bytes} (hA : Good content A)
    (hB : Good content B) (after : Bytes) (limit : Nat) :
    MergedEnum.mergedEnumerate limit [enumOf A after limit, enumOf B after limit] =
      enumOf (union A B) after limit := by
  have hU : Good content (union A B) := good_union hA hB
  let p : Bytes → Bool := fun k => ltB after k
  have hsrc : [enumOf A after limit, enumOf B after limit] =
      [sizes (A.filter (fun q => p q.1)), sizes (B.filter (fun q => p q.1))].map (·.take limit) := rfl
  have hasc : MergedEnum.AllAsc
      [sizes (A.filter (fun q => p q.1)), sizes (B.filter (fun q => p q.1))] := by
    intro s hs
    simp only [List.mem_cons, List.not_mem_nil, or_false] at hs
    rcases hs with rfl | rfl
    · exact asc_keys_sizes (kasc_filter _ hA.1)
    · exact asc_keys_sizes (kasc_filter _ hB.1)
  rw [hsrc, MergedEnum.merged_take_limit limit _ hasc]
  -- the keys
  have hkeys := MergedEnum.merged_keys_eq_of limit _ hasc
    (MergedEnum.keys (sizes ((union A B).filter (fun q => p q.1))))
    (asc_keys_sizes (kasc_filter _ hU.1)) (by
      intro k
      simp only [List.mem_cons, List.not_mem_nil, or_false, exists_eq_or_imp, exists_eq_left,
        keys_sizes, mem_keys_iff_has, has_filter_key p hA.1, has_filter_key p hB.1,
        has_filter_key p hU.1, has_union]
      cases p k <;> simp)
  -- the sizes
  have hL : ∀ e ∈ MergedEnum.mergedEnumerate limit
      [sizes (A.filter (fun q => p q.1)), sizes (B.filter (fun q => p q.1))],
      e.2 = (content e.1).length := by
    intro e he
    obtain ⟨pre, s, post, hdec, hes, _⟩ := MergedEnum.merged_first_source limit _ hasc e he
    have hs : s ∈ [sizes (A.filter (fun q => p q.1)), sizes (B.filter (fun q => p q.1))] := by
      rw [hdec]; simp
    simp only [List.mem_cons, List.not_mem_nil, or_false] at hs
    rcases hs with rfl | rfl
    · exact good_sizes_entry hA p e hes
    · exact good_sizes_entry hB p e hes
  have hR : ∀ e ∈ enumOf (union A B) after limit, e.2 = (content e.1).length := by
    intro e he
    exact good_sizes_entry hU p e (List.mem_of_mem_take he)
  have e1 := eq_map_keys (fun k => (content k).length) _ hL
  have e2 := eq_map_keys (fun k => (content k).length) _ hR
  rw [e1, e2, hkeys]
  simp only [enumOf, MergedEnum.keys, List.map_take]
  rfl

/-! ### union algebra (all by `SMap.ext`) -/

theorem has_false_get {V : Type} {m : SMap V} {k : Bytes} (h : has m k = false) : SMap.get m k = none := by
  unfold has at h
  cases hg : SMap.get m k with
  | none => rfl
  | some v => rw [hg] at h; cases h

theorem union_ins_left {V : Type} (k : Bytes) (v : V) (A : SMap V) {B : SMap V} (hB : KAsc B) :
    union (ins k v A) B = ins k v (union A B) := by
  apply SMap.ext (kasc_union _ hB) (kasc_ins _ _ (kasc_union _ hB))
  intro x
  rw [get_union, get_ins, get_ins, get_union]
  by_cases hx : x = k <;> simp [hx]

theorem union_ins_right {V : Type} (k : Bytes) (v : V) {A B : SMap V} (hB : KAsc B)
    (hk : has A k = false) : union A (ins k v B) = ins k v (union A B) := by
  apply SMap.ext (kasc_union _ (kasc_ins _ _ hB)) (kasc_ins _ _ (kasc_union _ hB))
  intro x
  rw [get_union, get_ins, get_ins, get_union]
  by_cases hx : x = k
  · subst hx; simp [has_false_get hk]
  · simp [hx]

theorem union_del_both {V : Type} (k : Bytes) {A B : SMap V} (hA : KAsc A) (hB : KAsc B) :
    union (del k A) (del k B) = del k (union A B) := by
  apply SMap.ext (kasc_union _ (kasc_del _ hB)) (kasc_del _ (kasc_union _ hB))
  intro x
  rw [get_union, get_del k hA, get_del k hB, get_del k (kasc_union _ hB), get_union]
  by_cases hx : x = k <;> simp [hx]

theorem del_eq_self {V : Type} (k : Bytes) {A : SMap V} (hA : KAsc A) (hk : has A k = false) :
    del k A = A := by
  apply SMap.ext (kasc_del _ hA) hA
  intro x
  rw [get_del k hA]
  by_cases hx : x = k
  · subst hx; simp [has_false_get hk]
  · simp [hx]

theorem union_self {V : Type} {A : SMap V} (hA : KAsc A) : union A A = A := by
  apply SMap.ext (kasc_union _ hA) hA
  intro x
  rw [get_union]
  cases SMap.get A x <;> rfl

/-! ### operations on one side of a union -/

/-- the key an operation addresses (enumerate addresses none) -/
def opKey : Op → Bytes
  | .recv k _ => k
  | .fetch k => k
  | .stat k => k
  | .rm k => k
  | .enum _ _ => []

def opIsEnum : Op → Bool
  | .enum _ _ => true
  | _ => false

def opIsRecv : Op → Bool
  | .recv _ _ => true
  | _ => false

theorem next_union_left {A B : SMap Bytes} (hA : KAsc A) (hB : KAsc B) (op : Op)
    (hk : has B (opKey op) = false) : union (next A op) B = next (union A B) op := by
  cases op with
  | recv k v =>
    simp only [opKey] at hk
    simp only [next, has_union, hk, Bool.or_false]
    by_cases h : has A k = true
    · simp [h]
    · simp only [h, Bool.false_eq_true, if_false]; exact union_ins_left k v A hB
  | rm k =>
    simp only [opKey] at hk
    simp only [next]
    rw [← union_del_both k hA hB, del_eq_self k hB hk]
  | fetch _ => rfl
  | stat _ => rfl
  | enum _ _ => rfl

theorem next_union_right {A B : SMap Bytes} (hA : KAsc A) (hB : KAsc B) (op : Op)
    (hk : has A (opKey op) = false) : union A (next B op) = next (union A B) op := by
  cases op with
  | recv k v =>
    simp only [opKey] at hk
    simp only [next, has_union, hk, Bool.false_or]
    by_cases h : has B k = true
    · simp [h]
    · simp only [h, Bool.false_eq_true, if_false]; exact union_ins_right k v hB hk
  | rm k =>
    simp only [opKey] at hk
    simp only [next]
    rw [← union_del_both k hA hB, del_eq_self k hA hk]
  | fetch _ => rfl
  | stat _ => rfl
  | enum _ _ => rfl

theorem out_union_left {A B : SMap Bytes} (op : Op) (hne : opIsEnum op = false)
    (hk : has B (opKey op) = false) : out A op = out (union A B) op := by
  cases op with
  | enum _ _ => cases hne
  | recv _ _ => rfl
  | rm _ => rfl
  | fetch k =>
    simp only [opKey] at hk
    simp only [out, get_union, has_false_get hk]
    cases SMap.get A k <;> rfl
  | stat k =>
    simp only [opKey] at hk
    simp only [out, get_union, has_false_get hk]
    cases SMap.get A k <;> rfl

theorem out_union_right {A B : SMap Bytes} (op : Op) (hne : opIsEnum op = false)
    (hk : has A (opKey op) = false) : out B op = out (union A B) op := by
  cases op with
  | enum _ _ => cases hne
  | recv _ _ => rfl
  | rm _ => rfl
  | fetch k =>
    simp only [opKey] at hk
    simp only [out, get_union, has_false_get hk]
  | stat k =>
    simp only [opKey] at hk
    simp only [out, get_union, has_false_get hk]

/-- the only key an operation can add is the one a receive addresses -/
theorem has_next {m : SMap Bytes} (hm : KAsc m) (op : Op) (x : Bytes) (h : has (next m op) x = true) :
    has m x = true ∨ (opIsRecv op = true ∧ x = opKey op) := by
  cases op with
  | recv k v =>
    simp only [next] at h
    by_cases hh : has m k = true
    · simp only [hh, if_true] at h; exact Or.inl h
    · simp only [hh, Bool.false_eq_true, if_false, has_ins, Bool.or_eq_true, decide_eq_true_eq] at h
      rcases h with h | h
      · exact Or.inr ⟨rfl, h⟩
      · exact Or.inl h
  | rm k =>
    simp only [next, has_del k hm, Bool.and_eq_true] at h
    exact Or.inl h.2
  | fetch _ => exact Or.inl h
  | stat _ => exact Or.inl h
  | enum _ _ => exact Or.inl h

/-! ### `Refines` as the trivial-predicate case of `RefinesK`

The step lemmas below are proved once, over `RefinesK` (sub-stores that refine the map for received
keys satisfying `K`); the `Refines` statements are their instances at `K = fun _ => True`. -/

/-- `Refines` seen as `RefinesK` for the trivial predicate, with the SAME `abs` and `Inv` -/
def toTrueK {content : Bytes → Bytes} {I : Impl} (R : Refines content I) :
    RefinesK content (fun _ => True) I where
  abs := R.abs
  Inv := R.Inv
  init_inv := R.init_inv
  init_abs := R.init_abs
  good := R.good
  keys := fun _ _ _ _ _ => trivial
  step_ok := fun s op h hop _ => R.step_ok s op h hop

theorem kok_true (op : Op) : op.KOK (fun _ => True) := by cases op <;> trivial

theorem kok_of_not_recv {K : Bytes → Prop} (op : Op) (h : opIsRecv op = false) : op.KOK K := by
  cases op with
  | recv _ _ => cases h
  | _ => trivial

/-- every key of a union satisfies `K` when the keys of both sides do -/
theorem keys_union {K : Bytes → Prop} {A B : SMap Bytes}
    (hA : ∀ k v, SMap.get A k = some v → K k) (hB : ∀ k v, SMap.get B k = some v → K k) :
    ∀ k v, SMap.get (union A B) k = some v → K k := by
  intro k v h
  rw [get_union] at h
  cases hg : SMap.get A k with
  | none => rw [hg] at h; exact hB k v h
  | some w => exact hA k w hg

/-! ### the merged enumeration of two refining sub-stores -/

theorem enum2_okK {content : Bytes → Bytes} {K : Bytes → Prop} {a b : Impl} (Ra : RefinesK content K a)
    (Rb : RefinesK content K b) (sa : a.σ) (sb : b.σ) (ha : Ra.Inv sa) (hb : Rb.Inv sb)
    (after : Bytes) (limit : Nat) :
    (enum2 a b sa sb after limit).2.2 = .refs (enumOf (union (Ra.abs sa) (Rb.abs sb)) after limit) ∧
    Ra.abs (enum2 a b sa sb after limit).1 = Ra.abs sa ∧ Ra.Inv (enum2 a b sa sb after limit).1 ∧
    Rb.abs (enum2 a b sa sb after limit).2.1 = Rb.abs sb ∧ Rb.Inv (enum2 a b sa sb after limit).2.1 := by
  obtain ⟨hoa, haa, hia⟩ := Ra.step_ok sa (.enum after limit) ha trivial trivial
  obtain ⟨hob, hab, hib⟩ := Rb.step_ok sb (.enum after limit) hb trivial trivial
  unfold enum2
  generalize a.step sa (.enum after limit) = pa at hoa haa hia
  generalize b.step sb (.enum after limit) = pb at hob hab hib
  obtain ⟨sa1, oa⟩ := pa
  obtain ⟨sb1, ob⟩ := pb
  simp only [out, next] at hoa haa hia hob hab hib
  subst hoa hob
  simp only
  exact ⟨by rw [enum2_spec (Ra.good sa ha) (Rb.good sb hb)], haa, hia, hab, hib⟩

theorem enum2_ok {content : Bytes → Bytes} {a b : Impl} (Ra : Refines content a)
    (Rb : Refines content b) (sa : a.σ) (sb : b.σ) (ha : Ra.Inv sa) (hb : Rb.Inv sb)
    (after : Bytes) (limit : Nat) :
    (enum2 a b sa sb after limit).2.2 = .refs (enumOf (union (Ra.abs sa) (Rb.abs sb)) after limit) ∧
    Ra.abs (enum2 a b sa sb after limit).1 = Ra.abs sa ∧ Ra.Inv (enum2 a b sa sb after limit).1 ∧
    Rb.abs (enum2 a b sa sb after limit).2.1 = Rb.abs sb ∧ Rb.Inv (enum2 a b sa sb after limit).2.1 :=
  enum2_okK (toTrueK Ra) (toTrueK Rb) sa sb ha hb after limit

/-! ### two stores holding disjoint parts of the key space -/

/-- both sub-invariants hold, `a` holds only keys on side `false`, `b` only keys on side `true` -/
def PartInvK {content : Bytes → Bytes} {K : Bytes → Prop} {a b : Impl} (Ra : RefinesK content K a)
    (Rb : RefinesK content K b) (side : Bytes → Bool) (s : a.σ × b.σ) : Prop :=
  Ra.Inv s.1 ∧ Rb.Inv s.2 ∧
  (∀ k, has (Ra.abs s.1) k = true → side k = false) ∧
  (∀ k, has (Rb.abs s.2) k = true → side k = true)

/-- both sub-invariants hold, `a` holds only keys on side `false`, `b` only keys on side `true` -/
def PartInv {content : Bytes → Bytes} {a b : Impl} (Ra : Refines content a) (Rb : Refines content b)
    (side : Bytes → Bool) (s : a.σ × b.σ) : Prop :=
  Ra.Inv s.1 ∧ Rb.Inv s.2 ∧
  (∀ k, has (Ra.abs s.1) k = true → side k = false) ∧
  (∀ k, has (Rb.abs s.2) k = true → side k = true)

theorem has_false_of_side {m : SMap Bytes} {side : Bytes → Bool} {c : Bool}
    (h : ∀ k, has m k = true → side k = c) (k : Bytes) (hk : side k = !c) : has m k = false := by
  cases hh : has m k with
  | false => rfl
  | true => have := h k hh; rw [this] at hk; cases c <;> cases hk

/-- a keyed operation sent to `a` only, its key being on `a`'s side -/
theorem part_leftK {content : Bytes → Bytes} {K : Bytes → Prop} {a b : Impl}
    (Ra : RefinesK content K a) (Rb : RefinesK content K b) (side : Bytes → Bool) (sa : a.σ) (sb : b.σ)
    (op : Op) (hne : opIsEnum op = false) (hI : PartInvK Ra Rb side (sa, sb)) (hop : op.WK content)
    (hK : op.KOK K) (hs : side (opKey op) = false) :
    (a.step sa op).2 = out (union (Ra.abs sa) (Rb.abs sb)) op ∧
    union (Ra.abs (a.step sa op).1) (Rb.abs sb) = next (union (Ra.abs sa) (Rb.abs sb)) op ∧
    PartInvK Ra Rb side ((a.step sa op).1, sb) := by
  obtain ⟨hRa, hRb, hA, hB⟩ := hI
  obtain ⟨ho, ha, hi⟩ := Ra.step_ok sa op hRa hop hK
  have hk : has (Rb.abs sb) (opKey op) = false := has_false_of_side hB _ (by simp [hs])
  refine ⟨?_, ?_, hi, hRb, ?_, hB⟩
  · rw [ho]; exact out_union_left op hne hk
  · rw [ha]; exact next_union_left (Ra.good sa hRa).1 (Rb.good sb hRb).1 op hk
  · intro k hh
    rw [ha] at hh
    rcases has_next (Ra.good sa hRa).1 op k hh with h | ⟨_, h⟩
    · exact hA k h
    · rw [h]; exact hs

/-- a keyed operation sent to `b` only, its key being on `b`'s side -/
theorem part_rightK {content : Bytes → Bytes} {K : Bytes → Prop} {a b : Impl}
    (Ra : RefinesK content K a) (Rb : RefinesK content K b) (side : Bytes → Bool) (sa : a.σ) (sb : b.σ)
    (op : Op) (hne : opIsEnum op = false) (hI : PartInvK Ra Rb side (sa, sb)) (hop : op.WK content)
    (hK : op.KOK K) (hs : side (opKey op) = true) :
    (b.step sb op).2 = out (union (Ra.abs sa) (Rb.abs sb)) op ∧
    union (Ra.abs sa) (Rb.abs (b.step sb op).1) = next (union (Ra.abs sa) (Rb.abs sb)) op ∧
    PartInvK Ra Rb side (sa, (b.step sb op).1) := by
  obtain ⟨hRa, hRb, hA, hB⟩ := hI
  obtain ⟨ho, ha, hi⟩ := Rb.step_ok sb op hRb hop hK
  have hk : has (Ra.abs sa) (opKey op) = false := has_false_of_side hA _ (by simp [hs])
  refine ⟨?_, ?_, hRa, hi, hA, ?_⟩
  · rw [ho]; exact out_union_right op hne hk
  · rw [ha]; exact next_union_right (Ra.good sa hRa).1 (Rb.good sb hRb).1 op hk
  · intro k hh
    rw [ha] at hh
    rcases has_next (Rb.good sb hRb).1 op k hh with h | ⟨_, h⟩
    · exact hB k h
    · rw [h]; exact hs

theorem part_enumK {content : Bytes → Bytes} {K : Bytes → Prop} {a b : Impl}
    (Ra : RefinesK content K a) (Rb : RefinesK content K b) (side : Bytes → Bool) (sa : a.σ) (sb : b.σ)
    (after : Bytes) (limit : Nat) (hI : PartInvK Ra Rb side (sa, sb)) :
    (enum2 a b sa sb after limit).2.2 = out (union (Ra.abs sa) (Rb.abs sb)) (.enum after limit) ∧
    union (Ra.abs (enum2 a b sa sb after limit).1) (Rb.abs (enum2 a b sa sb after limit).2.1) =
      union (Ra.abs sa) (Rb.abs sb) ∧
    PartInvK Ra Rb side ((enum2 a b sa sb after limit).1, (enum2 a b sa sb after limit).2.1) := by
  obtain ⟨hRa, hRb, hA, hB⟩ := hI
  obtain ⟨ho, haa, hia, hab, hib⟩ := enum2_okK Ra Rb sa sb hRa hRb after limit
  refine ⟨ho, by rw [haa, hab], hia, hib, ?_, ?_⟩
  · intro k hh; rw [haa] at hh; exact hA k hh
  · intro k hh; rw [hab] at hh; exact hB k hh

/-- a keyed operation sent to `a` only, its key being on `a`'s side -/
theorem part_left {content : Bytes → Bytes} {a b : Impl} (Ra : Refines content a)
    (Rb : Refines content b) (side : Bytes → Bool) (sa : a.σ) (sb : b.σ) (op : Op)
    (hne : opIsEnum op = false) (hI : PartInv Ra Rb side (sa, sb)) (hop : op.WK content)
    (hs : side (opKey op) = false) :
    (a.step sa op).2 = out (union (Ra.abs sa) (Rb.abs sb)) op ∧
    union (Ra.abs (a.step sa op).1) (Rb.abs sb) = next (union (Ra.abs sa) (Rb.abs sb)) op ∧
    PartInv Ra Rb side ((a.step sa op).1, sb) :=
  part_leftK (toTrueK Ra) (toTrueK Rb) side sa sb op hne hI hop (kok_true op) hs

/-- a keyed operation sent to `b` only, its key being on `b`'s side -/
theorem part_right {content : Bytes → Bytes} {a b : Impl} (Ra : Refines content a)
    (Rb : Refines content b) (side : Bytes → Bool) (sa : a.σ) (sb : b.σ) (op : Op)
    (hne : opIsEnum op = false) (hI : PartInv Ra Rb side (sa, sb)) (hop : op.WK content)
    (hs : side (opKey op) = true) :
    (b.step sb op).2 = out (union (Ra.abs sa) (Rb.abs sb)) op ∧
    union (Ra.abs sa) (Rb.abs (b.step sb op).1) = next (union (Ra.abs sa) (Rb.abs sb)) op ∧
    PartInv Ra Rb side (sa, (b.step sb op).1) :=
  part_rightK (toTrueK Ra) (toTrueK Rb) side sa sb op hne hI hop (kok_true op) hs

theorem part_enum {content : Bytes → Bytes} {a b : Impl} (Ra : Refines content a)
    (Rb : Refines content b) (side : Bytes → Bool) (sa : a.σ) (sb : b.σ) (after : Bytes) (limit : Nat)
    (hI : PartInv Ra Rb side (sa, sb)) :
    (enum2 a b sa sb after limit).2.2 = out (union (Ra.abs sa) (Rb.abs sb)) (.enum after limit) ∧
    union (Ra.abs (enum2 a b sa sb after limit).1) (Rb.abs (enum2 a b sa sb after limit).2.1) =
      union (Ra.abs sa) (Rb.abs sb) ∧
    PartInv Ra Rb side ((enum2 a b sa sb after limit).1, (enum2 a b sa sb after limit).2.1) :=
  part_enumK (toTrueK Ra) (toTrueK Rb) side sa sb after limit hI

/-! ### 2. shard -/

/-- one step of shard over `K`-refining sub-stores (the shared proof of `shard2Refines` and
`shard2RefinesK`) -/
theorem shard2_stepK {content : Bytes → Bytes} {K : Bytes → Prop} (route : Bytes → Bool) {a b : Impl}
    (Ra : RefinesK content K a) (Rb : RefinesK content K b) (s : a.σ × b.σ) (op : Op)
    (hI : PartInvK Ra Rb route s) (hop : op.WK content) (hK : op.KOK K) :
    ((shard2Impl route a b).step s op).2 = out (union (Ra.abs s.1) (Rb.abs s.2)) op ∧
    union (Ra.abs ((shard2Impl route a b).step s op).1.1) (Rb.abs ((shard2Impl route a b).step s op).1.2) =
      next (union (Ra.abs s.1) (Rb.abs s.2)) op ∧
    PartInvK Ra Rb route ((shard2Impl route a b).step s op).1 := by
  obtain ⟨sa, sb⟩ := s
  cases op with
  | enum after limit => exact part_enumK Ra Rb route sa sb after limit hI
  | recv k v =>
    simp only [shard2Impl]
    by_cases hr : route k = true
    · simp only [hr, if_true]; exact part_rightK Ra Rb route sa sb _ rfl hI hop hK hr
    · have hr' : route k = false := by cases h : route k <;> simp_all
      simp only [hr', Bool.false_eq_true, if_false]; exact part_leftK Ra Rb route sa sb _ rfl hI hop hK hr'
  | fetch k =>
    simp only [shard2Impl]
    by_cases hr : route k = true
    · simp only [hr, if_true]; exact part_rightK Ra Rb route sa sb _ rfl hI hop hK hr
    · have hr' : route k = false := by cases h : route k <;> simp_all
      simp only [hr', Bool.false_eq_true, if_false]; exact part_leftK Ra Rb route sa sb _ rfl hI hop hK hr'
  | stat k =>
    simp only [shard2Impl]
    by_cases hr : route k = true
    · simp only [hr, if_true]; exact part_rightK Ra Rb route sa sb _ rfl hI hop hK hr
    · have hr' : route k = false := by cases h : route k <;> simp_all
      simp only [hr', Bool.false_eq_true, if_false]; exact part_leftK Ra Rb route sa sb _ rfl hI hop hK hr'
  | rm k =>
    simp only [shard2Impl]
    by_cases hr : route k = true
    · simp only [hr, if_true]; exact part_rightK Ra Rb route sa sb _ rfl hI hop hK hr
    · have hr' : route k = false := by cases h : route k <;> simp_all
      simp only [hr', Bool.false_eq_true, if_false]; exact part_leftK Ra Rb route sa sb _ rfl hI hop hK hr'

def shard2Refines {content : Bytes → Bytes} (route : Bytes → Bool) {a b : Impl}
    (Ra : Refines content a) (Rb : Refines content b) : Refines content (shard2Impl route a b) where
  abs := fun s => union (Ra.abs s.1) (Rb.abs s.2)
  Inv := PartInv Ra Rb route
  init_inv := ⟨Ra.init_inv, Rb.init_inv,
    by intro k h; simp [shard2Impl, Ra.init_abs, has, SMap.get] at h,
    by intro k h; simp [shard2Impl, Rb.init_abs, has, SMap.get] at h⟩
  init_abs := by simp [shard2Impl, Ra.init_abs, Rb.init_abs, union]
  good := fun s h => good_union (Ra.good _ h.1) (Rb.good _ h.2.1)
  step_ok := fun s op hI hop => shard2_stepK route (toTrueK Ra) (toTrueK Rb) s op hI hop (kok_true op)

/-! ### replica-style reads and removes over two refining stores (no relation between them needed) -/

theorem next_union_both {A B : SMap Bytes} (hA : KAsc A) (hB : KAsc B) (op : Op)
    (hnr : opIsRecv op = false) : union (next A op) (next B op) = next (union A B) op := by
  cases op with
  | recv _ _ => cases hnr
  | rm k => exact union_del_both k hA hB
  | fetch _ => rfl
  | stat _ => rfl
  | enum _ _ => rfl

theorem replica_fetch_eq (a b : Impl) (sa : a.σ) (sb : b.σ) (k : Bytes) :
    (replica2Impl a b).step (sa, sb) (.fetch k) =
      (match a.step sa (.fetch k) with
       | (sa1, .bytes v) => ((sa1, sb), .bytes v)
       | (sa1, .notExist) =>
         match b.step sb (.fetch k) with
         | (sb1, o) => ((sa1, sb1), o)
       | (sa1, _) =>
         match b.step sb (.fetch k) with
         | (sb1, .bytes v) => ((sa1, sb1), .bytes v)
         | (sb1, _) => ((sa1, sb1), .err)) := rfl

/-- fetch, stat, remove and enumerate of `replica[a, b]` answer as the left-biased union of the two
contents does, and act on each side as the same operation -/
theorem replica_nonrecv_okK {content : Bytes → Bytes} {K : Bytes → Prop} {a b : Impl}
    (Ra : RefinesK content K a) (Rb : RefinesK content K b) (sa : a.σ) (sb : b.σ) (op : Op)
    (hnr : opIsRecv op = false) (ha : Ra.Inv sa) (hb : Rb.Inv sb) :
    ((replica2Impl a b).step (sa, sb) op).2 = out (union (Ra.abs sa) (Rb.abs sb)) op ∧
    Ra.abs ((replica2Impl a b).step (sa, sb) op).1.1 = next (Ra.abs sa) op ∧
    Rb.abs ((replica2Impl a b).step (sa, sb) op).1.2 = next (Rb.abs sb) op ∧
    Ra.Inv ((replica2Impl a b).step (sa, sb) op).1.1 ∧
    Rb.Inv ((replica2Impl a b).step (sa, sb) op).1.2 := by
  cases op with
  | recv _ _ => cases hnr
  | enum after limit =>
    obtain ⟨ho, haa, hia, hab, hib⟩ := enum2_okK Ra Rb sa sb ha hb after limit
    exact ⟨ho, haa, hab, hia, hib⟩
  | rm k =>
    obtain ⟨hoa, haa, hia⟩ := Ra.step_ok sa (.rm k) ha trivial trivial
    obtain ⟨hob, hab, hib⟩ := Rb.step_ok sb (.rm k) hb trivial trivial
    simp only [replica2Impl]
    generalize a.step sa (.rm k) = pa at hoa haa hia
    generalize b.step sb (.rm k) = pb at hob hab hib
    obtain ⟨sa1, oa⟩ := pa
    obtain ⟨sb1, ob⟩ := pb
    simp only [out] at hoa hob
    subst hoa hob
    exact ⟨rfl, haa, hab, hia, hib⟩
  | fetch k =>
    obtain ⟨hoa, haa, hia⟩ := Ra.step_ok sa (.fetch k) ha trivial trivial
    obtain ⟨hob, hab, hib⟩ := Rb.step_ok sb (.fetch k) hb trivial trivial
    rw [replica_fetch_eq]
    generalize a.step sa (.fetch k) = pa at hoa haa hia
    generalize b.step sb (.fetch k) = pb at hob hab hib
    obtain ⟨sa1, oa⟩ := pa
    obtain ⟨sb1, ob⟩ := pb
    simp only [out] at hoa hob
    simp only [out, get_union]
    cases hg : SMap.get (Ra.abs sa) k with
    | some v =>
      rw [hg] at hoa; simp only at hoa; subst hoa
      exact ⟨rfl, haa, rfl, hia, hb⟩
    | none =>
      rw [hg] at hoa; simp only at hoa; subst hoa hob
      exact ⟨rfl, haa, hab, hia, hib⟩
  | stat k =>
    obtain ⟨hoa, haa, hia⟩ := Ra.step_ok sa (.stat k) ha trivial trivial
    obtain ⟨hob, hab, hib⟩ := Rb.step_ok sb (.stat k) hb trivial trivial
    simp only [replica2Impl]
    generalize a.step sa (.stat k) = pa at hoa haa hia
    generalize b.step sb (.stat k) = pb at hob hab hib
    obtain ⟨sa1, oa⟩ := pa
    obtain ⟨sb1, ob⟩ := pb
    simp only [out] at hoa hob
    simp only [out, get_union]
    cases hg : SMap.get (Ra.abs sa) k with
    | some v =>
      rw [hg] at hoa; simp only at hoa; subst hoa
      cases hgb : SMap.get (Rb.abs sb) k with
      | some w =>
        rw [hgb] at hob; simp only at hob; subst hob
        exact ⟨rfl, haa, hab, hia, hib⟩
      | none =>
        rw [hgb] at hob; simp only at hob; subst hob
        exact ⟨rfl, haa, hab, hia, hib⟩
    | none =>
      rw [hg] at hoa; simp only at hoa; subst hoa
      cases hgb : SMap.get (Rb.abs sb) k with
      | some w =>
        rw [hgb] at hob; simp only at hob; subst hob
        exact ⟨rfl, haa, hab, hia, hib⟩
      | none =>
        rw [hgb] at hob; simp only at hob; subst hob
        exact ⟨rfl, haa, hab, hia, hib⟩

/-- fetch, stat, remove and enumerate of `replica[a, b]` answer as the left-biased union of the two
contents does, and act on each side as the same operation -/
theorem replica_nonrecv_ok {content : Bytes → Bytes} {a b : Impl} (Ra : Refines content a)
    (Rb : Refines content b) (sa : a.σ) (sb : b.σ) (op : Op) (hnr : opIsRecv op = false)
    (ha : Ra.Inv sa) (hb : Rb.Inv sb) :
    ((replica2Impl a b).step (sa, sb) op).2 = out (union (Ra.abs sa) (Rb.abs sb)) op ∧
    Ra.abs ((replica2Impl a b).step (sa, sb) op).1.1 = next (Ra.abs sa) op ∧
    Rb.abs ((replica2Impl a b).step (sa, sb) op).1.2 = next (Rb.abs sb) op ∧
    Ra.Inv ((replica2Impl a b).step (sa, sb) op).1.1 ∧
    Rb.Inv ((replica2Impl a b).step (sa, sb) op).1.2 :=
  replica_nonrecv_okK (toTrueK Ra) (toTrueK Rb) sa sb op hnr ha hb

/-! ### 3. replica -/

/-- one step of replica over `K`-refining sub-stores holding the same contents (the shared proof of
`replica2Refines` and `replica2RefinesK`) -/
theorem replica2_stepK {content : Bytes → Bytes} {K : Bytes → Prop} {a b : Impl}
    (Ra : RefinesK content K a) (Rb : RefinesK content K b) (s : a.σ × b.σ) (op : Op)
    (hI : Ra.Inv s.1 ∧ Rb.Inv s.2 ∧ Ra.abs s.1 = Rb.abs s.2) (hop : op.WK content) (hK : op.KOK K) :
    ((replica2Impl a b).step s op).2 = out (Ra.abs s.1) op ∧
    Ra.abs ((replica2Impl a b).step s op).1.1 = next (Ra.abs s.1) op ∧
    Ra.Inv ((replica2Impl a b).step s op).1.1 ∧
    Rb.Inv ((replica2Impl a b).step s op).1.2 ∧
    Ra.abs ((replica2Impl a b).step s op).1.1 = Rb.abs ((replica2Impl a b).step s op).1.2 := by
  obtain ⟨sa, sb⟩ := s
  obtain ⟨hRa, hRb, hE⟩ := hI
  have key : opIsRecv op = false →
      ((replica2Impl a b).step (sa, sb) op).2 = out (Ra.abs sa) op ∧
      Ra.abs ((replica2Impl a b).step (sa, sb) op).1.1 = next (Ra.abs sa) op ∧
      Ra.Inv ((replica2Impl a b).step (sa, sb) op).1.1 ∧
      Rb.Inv ((replica2Impl a b).step (sa, sb) op).1.2 ∧
      Ra.abs ((replica2Impl a b).step (sa, sb) op).1.1 =
        Rb.abs ((replica2Impl a b).step (sa, sb) op).1.2 := by
    intro hnr
    obtain ⟨ho, haa, hab, hia, hib⟩ := replica_nonrecv_okK Ra Rb sa sb op hnr hRa hRb
    simp only at hE
    refine ⟨?_, haa, hia, hib, ?_⟩
    · rw [ho, ← hE, union_self (Ra.good sa hRa).1]
    · rw [haa, hab, hE]
  cases op with
  | fetch k => exact key rfl
  | stat k => exact key rfl
  | rm k => exact key rfl
  | enum after limit => exact key rfl
  | recv k v =>
    obtain ⟨hoa, haa, hia⟩ := Ra.step_ok sa (.recv k v) hRa hop hK
    obtain ⟨hob, hab, hib⟩ := Rb.step_ok sb (.recv k v) hRb hop hK
    simp only [replica2Impl]
    generalize a.step sa (.recv k v) = pa at hoa haa hia
    generalize b.step sb (.recv k v) = pb at hob hab hib
    obtain ⟨sa1, oa⟩ := pa
    obtain ⟨sb1, ob⟩ := pb
    simp only [out] at hoa hob
    subst hoa hob
    simp only at hE haa hab
    exact ⟨by simp [out], haa, hia, hib, by rw [haa, hab, hE]⟩

def replica2Refines {content : Bytes → Bytes} {a b : Impl} (Ra : Refines content a)
    (Rb : Refines content b) : Refines content (replica2Impl a b) where
  abs := fun s => Ra.abs s.1
  Inv := fun s => Ra.Inv s.1 ∧ Rb.Inv s.2 ∧ Ra.abs s.1 = Rb.abs s.2
  init_inv := ⟨Ra.init_inv, Rb.init_inv, by simp [replica2Impl, Ra.init_abs, Rb.init_abs]⟩
  init_abs := Ra.init_abs
  good := fun s h => Ra.good _ h.1
  step_ok := fun s op hI hop => replica2_stepK (toTrueK Ra) (toTrueK Rb) s op hI hop (kok_true op)

/-! ### 4. cond -/

/-- replica-style fetch, stat, remove and enumerate over two stores holding disjoint parts -/
theorem part_bothK {content : Bytes → Bytes} {K : Bytes → Prop} {a b : Impl}
    (Ra : RefinesK content K a) (Rb : RefinesK content K b) (side : Bytes → Bool) (sa : a.σ) (sb : b.σ)
    (op : Op) (hnr : opIsRecv op = false) (hI : PartInvK Ra Rb side (sa, sb)) :
    ((replica2Impl a b).step (sa, sb) op).2 = out (union (Ra.abs sa) (Rb.abs sb)) op ∧
    union (Ra.abs ((replica2Impl a b).step (sa, sb) op).1.1)
        (Rb.abs ((replica2Impl a b).step (sa, sb) op).1.2) = next (union (Ra.abs sa) (Rb.abs sb)) op ∧
    PartInvK Ra Rb side ((replica2Impl a b).step (sa, sb) op).1 := by
  obtain ⟨hRa, hRb, hA, hB⟩ := hI
  obtain ⟨ho, haa, hab, hia, hib⟩ := replica_nonrecv_okK Ra Rb sa sb op hnr hRa hRb
  refine ⟨ho, ?_, hia, hib, ?_, ?_⟩
  · rw [haa, hab]; exact next_union_both (Ra.good sa hRa).1 (Rb.good sb hRb).1 op hnr
  · intro k hh
    rw [haa] at hh
    rcases has_next (Ra.good sa hRa).1 op k hh with h | ⟨h, _⟩
    · exact hA k h
    · rw [hnr] at h; cases h
  · intro k hh
    rw [hab] at hh
    rcases has_next (Rb.good sb hRb).1 op k hh with h | ⟨h, _⟩
    · exact hB k h
    · rw [hnr] at h; cases h

/-- replica-style fetch, stat, remove and enumerate over two stores holding disjoint parts -/
theorem part_both {content : Bytes → Bytes} {a b : Impl} (Ra : Refines content a)
    (Rb : Refines content b) (side : Bytes → Bool) (sa : a.σ) (sb : b.σ) (op : Op)
    (hnr : opIsRecv op = false) (hI : PartInv Ra Rb side (sa, sb)) :
    ((replica2Impl a b).step (sa, sb) op).2 = out (union (Ra.abs sa) (Rb.abs sb)) op ∧
    union (Ra.abs ((replica2Impl a b).step (sa, sb) op).1.1)
        (Rb.abs ((replica2Impl a b).step (sa, sb) op).1.2) = next (union (Ra.abs sa) (Rb.abs sb)) op ∧
    PartInv Ra Rb side ((replica2Impl a b).step (sa, sb) op).1 :=
  part_bothK (toTrueK Ra) (toTrueK Rb) side sa sb op hnr hI

/-- the invariant of cond: `t` holds only blobs whose content is schema, `e` only the others -/
def CondInvK {content : Bytes → Bytes} {K : Bytes → Prop} (isSchema : Bytes → Bool) {t e : Impl}
    (Rt : RefinesK content K t) (Re : RefinesK content K e) (s : t.σ × e.σ) : Prop :=
  PartInvK Rt Re (fun k => !isSchema (content k)) s

/-- the invariant of cond: `t` holds only blobs whose content is schema, `e` only the others -/
def CondInv {content : Bytes → Bytes} (isSchema : Bytes → Bool) {t e : Impl} (Rt : Refines content t)
    (Re : Refines content e) (s : t.σ × e.σ) : Prop :=
  PartInv Rt Re (fun k => !isSchema (content k)) s

theorem condInvK_iff {content : Bytes → Bytes} {K : Bytes → Prop} (isSchema : Bytes → Bool) {t e : Impl}
    (Rt : RefinesK content K t) (Re : RefinesK content K e) (s : t.σ × e.σ) :
    CondInvK isSchema Rt Re s ↔
      (Rt.Inv s.1 ∧ Re.Inv s.2 ∧
       (∀ k, has (Rt.abs s.1) k = true → isSchema (content k) = true) ∧
       (∀ k, has (Re.abs s.2) k = true → isSchema (content k) = false)) := by
  simp [CondInvK, PartInvK]

theorem condInv_iff {content : Bytes → Bytes} (isSchema : Bytes → Bool) {t e : Impl}
    (Rt : Refines content t) (Re : Refines content e) (s : t.σ × e.σ) :
    CondInv isSchema Rt Re s ↔
      (Rt.Inv s.1 ∧ Re.Inv s.2 ∧
       (∀ k, has (Rt.abs s.1) k = true → isSchema (content k) = true) ∧
       (∀ k, has (Re.abs s.2) k = true → isSchema (content k) = false)) := by
  simp [CondInv, PartInv]

/-- one step of cond over `K`-refining sub-stores (the shared proof of `cond2Refines` and
`cond2RefinesK`) -/
theorem cond2_stepK {content : Bytes → Bytes} {K : Bytes → Prop} (isSchema : Bytes → Bool) {t e : Impl}
    (Rt : RefinesK content K t) (Re : RefinesK content K e) (s : t.σ × e.σ) (op : Op)
    (hI : CondInvK isSchema Rt Re s) (hop : op.WK content) (hK : op.KOK K) :
    ((cond2Impl isSchema t e).step s op).2 = out (union (Rt.abs s.1) (Re.abs s.2)) op ∧
    union (Rt.abs ((cond2Impl isSchema t e).step s op).1.1) (Re.abs ((cond2Impl isSchema t e).step s op).1.2) =
      next (union (Rt.abs s.1) (Re.abs s.2)) op ∧
    CondInvK isSchema Rt Re ((cond2Impl isSchema t e).step s op).1 := by
  obtain ⟨st, se⟩ := s
  cases op with
  | fetch k => exact part_bothK Rt Re _ st se (.fetch k) rfl hI
  | stat k => exact part_bothK Rt Re _ st se (.stat k) rfl hI
  | rm k => exact part_bothK Rt Re _ st se (.rm k) rfl hI
  | enum after limit => exact part_bothK Rt Re _ st se (.enum after limit) rfl hI
  | recv k v =>
    have hv : v = content k := hop.1
    simp only [cond2Impl]
    by_cases hs : isSchema v = true
    · simp only [hs, if_true]
      exact part_leftK Rt Re _ st se _ rfl hI hop hK (by simp [opKey, ← hv, hs])
    · have hs' : isSchema v = false := by cases h : isSchema v <;> simp_all
      simp only [hs', Bool.false_eq_true, if_false]
      exact part_rightK Rt Re _ st se _ rfl hI hop hK (by simp [opKey, ← hv, hs'])

def cond2Refines {content : Bytes → Bytes} (isSchema : Bytes → Bool) {t e : Impl}
    (Rt : Refines content t) (Re : Refines content e) : Refines content (cond2Impl isSchema t e) where
  abs := fun s => union (Rt.abs s.1) (Re.abs s.2)
  Inv := CondInv isSchema Rt Re
  init_inv := ⟨Rt.init_inv, Re.init_inv,
    by intro k h; simp [cond2Impl, Rt.init_abs, has, SMap.get] at h,
    by intro k h; simp [cond2Impl, Re.init_abs, has, SMap.get] at h⟩
  init_abs := by simp [cond2Impl, Rt.init_abs, Re.init_abs, union]
  good := fun s h => good_union (Rt.good _ h.1) (Re.good _ h.2.1)
  step_ok := fun s op hI hop => cond2_stepK isSchema (toTrueK Rt) (toTrueK Re) s op hI hop (kok_true op)

end Pk.Stores
