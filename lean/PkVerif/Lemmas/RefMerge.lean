import PkVerif.Lemmas.Stores
/-! C01: the two-way merged enumeration equals the spec's enumeration of the union; shard, replica and
cond refine the reference map whenever their sub-stores do. -/
namespace Pk.Stores
open Pk Pk.SMap Pk.RefMap

/-! ### small facts about `SMap`, `sizes` and `Good` -/

theorem mem_keys_iff_has {V : Type} (m : SMap V) (k : Bytes) : k ∈ SMap.keys m ↔ has m k = true := by
  induction m with
  | nil => simp [SMap.keys, has, SMap.get]
  | cons p rest ih =>
    obtain ⟨k', v⟩ := p
    simp only [SMap.keys, List.map_cons, List.mem_cons, has, SMap.get] at ih ⊢
    by_cases hk : k = k'
    · simp [hk]
    · simp [hk, ih]

theorem has_union {V : Type} (a b : SMap V) (k : Bytes) : has (union a b) k = (has a k || has b k) := by
  unfold has; rw [get_union]
  cases SMap.get a k <;> simp

theorem has_filter_key {V : Type} (p : Bytes → Bool) {m : SMap V} (hm : KAsc m) (k : Bytes) :
    has (m.filter (fun q => p q.1)) k = (p k && has m k) := by
  unfold has; rw [get_filter_key p hm]
  cases p k <;> simp

theorem keys_sizes (m : SMap Bytes) : MergedEnum.keys (sizes m) = SMap.keys m := by
  simp [MergedEnum.keys, sizes, SMap.keys, List.map_map, Function.comp_def]

theorem pw_sizes {m : SMap Bytes} (h : KAsc m) : MergedEnum.PW (sizes m) := by
  unfold MergedEnum.PW sizes
  rw [List.pairwise_map]
  exact h

theorem asc_keys_sizes {m : SMap Bytes} (h : KAsc m) : Asc ltB (MergedEnum.keys (sizes m)) :=
  (MergedEnum.ascK_iff_pw _).mpr (pw_sizes h)

/-- in a good map every reported size is the length of the key's content -/
theorem good_sizes_entry {content : Bytes → Bytes} {m : SMap Bytes} (hm : Good content m)
    (p : Bytes → Bool) (e : Bytes × Nat) (he : e ∈ sizes (m.filter (fun q => p q.1))) :
    e.2 = (content e.1).length := by
  obtain ⟨q, hq, rfl⟩ := List.mem_map.mp he
  have hq' := (List.mem_filter.mp hq).1
  obtain ⟨k, v⟩ := q
  have := (hm.2 k v (mem_get hm.1 hq')).1
  simp [this]

theorem good_union {content : Bytes → Bytes} {A B : SMap Bytes} (hA : Good content A)
    (hB : Good content B) : Good content (union A B) := by
  refine ⟨kasc_union A hB.1, ?_⟩
  intro k v h
  rw [get_union] at h
  cases hg : SMap.get A k with
  | none => rw [hg] at h; exact hB.2 k v h
  | some w => rw [hg] at h; injection h with h; subst h; exact hA.2 k w hg

/-- a list of entries whose second component is a function of the first is determined by its keys -/
theorem eq_map_keys (f : Bytes → Nat) (l : List (Bytes × Nat)) (h : ∀ e ∈ l, e.2 = f e.1) :
    l = (MergedEnum.keys l).map (fun k => (k, f k)) := by
  induction l with
  | nil => rfl
  | cons a t ih =>
    obtain ⟨k, n⟩ := a
    have h1 : n = f k := h (k, n) (by simp)
    simp only [MergedEnum.keys, List.map_cons, List.map_map] at ih ⊢
    rw [h1]
    congr 1
    exact ih (fun e he => h e (by simp [he]))

/-! ### 1. the two-source merged enumeration is the spec's enumeration of the union -/

theorem enum2_spec {content : Bytes → Bytes} {A B : SMap Bytes} (hA : Good content A)
    (hB : Good content B) (after : Bytes) (limit : Nat) :
    MergedEnum.mergedEnumerate limit [enumOf A after limit, enumOf B after limit] =
      enumOf (union A B) after limit := by
  have hU : Good content (union A B) := good_union hA hB
  let p : Bytes → Bool := fun k => ltB after k
  have hsrc : [enumOf A after limit, enumOf B after limit] =
      [sizes (A.filter (fun q => p q.1)), sizes (B.filter (fun q => p q.1))].map (·.take limit) := rfl
  have hasc : MergedEnum.AllAsc
      [sizes (A.filter (fun q => p q.1)), sizes (B.filter (fun q => p q.1))] := by
    intro s hs
    simp only [List.mem_cons, List.not_mem_nil, or_false] at hs
    rcases hs with rfl | rfl
    · exact asc_keys_sizes (kasc_filter _ hA.1)
    · exact asc_keys_sizes (kasc_filter _ hB.1)
  rw [hsrc, MergedEnum.merged_take_limit limit _ hasc]
  -- the keys
  have hkeys := MergedEnum.merged_keys_eq_of limit _ hasc
    (MergedEnum.keys (sizes ((union A B).filter (fun q => p q.1))))
    (asc_keys_sizes (kasc_filter _ hU.1)) (by
      intro k
      simp only [List.mem_cons, List.not_mem_nil, or_false, exists_eq_or_imp, exists_eq_left,
        keys_sizes, mem_keys_iff_has, has_filter_key p hA.1, has_filter_key p hB.1,
        has_filter_key p hU.1, has_union]
      cases p k <;> simp)
  -- the sizes
  have hL : ∀ e ∈ MergedEnum.mergedEnumerate limit
      [sizes (A.filter (fun q => p q.1)), sizes (B.filter (fun q => p q.1))],
      e.2 = (content e.1).length := by
    intro e he
    obtain ⟨pre, s, post, hdec, hes, _⟩ := MergedEnum.merged_first_source limit _ hasc e he
    have hs : s ∈ [sizes (A.filter (fun q => p q.1)), sizes (B.filter (fun q => p q.1))] := by
      rw [hdec]; simp
    simp only [List.mem_cons, List.not_mem_nil, or_false] at hs
    rcases hs with rfl | rfl
    · exact good_sizes_entry hA p e hes
    · exact good_sizes_entry hB p e hes
  have hR : ∀ e ∈ enumOf (union A B) after limit, e.2 = (content e.1).length := by
    intro e he
    exact good_sizes_entry hU p e (List.mem_of_mem_take he)
  have e1 := eq_map_keys _ _ hL
  have e2 := eq_map_keys _ _ hR
  rw [e1, e2, hkeys]
  simp only [enumOf, MergedEnum.keys, List.map_take]

end Pk.Stores
