import PkVerif.Lemmas.RefMerge
/-! C01: the overlay combinator (pkg/blobserver/overlay/overlay.go) refines the reference map.

* `overlayEnum_spec_tomb` / `overlayEnum_spec` / `overlayEnum_spec_del`: the refill loop of
  `EnumerateBlobs` returns exactly the first `remaining` live entries after the cursor, provided the
  fuel covers the rounds in which every merged entry was tombstoned (`del.length + 2` always does).
* `overlay_fuel_limit_insufficient`: a fuel of `limit + 1` would NOT have been enough.
* `overlayRefines`: the packaged refinement, for arbitrary contents of both layers and arbitrary
  tombstones (abs = upper ∪ lower minus tombstoned keys).
-/
namespace Pk.Stores
open Pk Pk.SMap Pk.RefMap

/-! ### lists -/

theorem filter_take_split {α : Type} (p : α → Bool) (l : List α) (r : Nat) :
    (l.filter p).take r =
      (l.take r).filter p ++ ((l.drop r).filter p).take (r - ((l.take r).filter p).length) := by
  have h : l.filter p = (l.take r).filter p ++ (l.drop r).filter p := by
    rw [← List.filter_append, List.take_append_drop]
  have hl : ((l.take r).filter p).length ≤ r :=
    Nat.le_trans (List.length_filter_le _ _) (by rw [List.length_take]; exact Nat.min_le_left _ _)
  conv => lhs; rw [h]
  rw [List.take_append, List.take_of_length_le hl]

theorem length_filter_add {α : Type} (p : α → Bool) (l : List α) :
    (l.filter p).length + (l.filter (fun x => !p x)).length = l.length := by
  induction l with
  | nil => rfl
  | cons a t ih =>
    by_cases h : p a = true
    · simp only [List.filter_cons, h, if_true, Bool.not_true, Bool.false_eq_true, if_false,
        List.length_cons]
      omega
    · have h' : p a = false := Bool.eq_false_iff.mpr h
      simp only [List.filter_cons, h', Bool.false_eq_true, if_false, Bool.not_false, if_true,
        List.length_cons]
      omega

/-- what lies after the last element of a prefix of an ascending list is the rest -/
theorem filter_gt_last (ini post : List (Bytes × Nat)) (last : Bytes × Nat)
    (h : MergedEnum.PW (ini ++ last :: post)) :
    (ini ++ last :: post).filter (fun q => ltB last.1 q.1) = post := by
  induction ini with
  | nil =>
    have hall : ∀ x ∈ post, ltB last.1 x.1 = true := (List.pairwise_cons.mp h).1
    simp [ltB_irrefl, List.filter_eq_self.mpr hall]
  | cons a t ih =>
    have hal : ltB a.1 last.1 = true := (List.pairwise_cons.mp h).1 last (by simp)
    have : ltB last.1 a.1 = false := ltB_asymm _ _ hal
    simp only [List.cons_append, List.filter_cons, this, Bool.false_eq_true, if_false]
    exact ih (List.pairwise_cons.mp h).2

/-! ### entries after a cursor -/

/-- all entries of `U` strictly after the cursor, as enumerate reports them -/
def entriesAfter (U : SMap Bytes) (c : Bytes) : List (Bytes × Nat) :=
  sizes (U.filter (fun p => ltB c p.1))

/-- the number of tombstoned entries of `U` after the cursor -/
def tombAfter (del : SMap Unit) (U : SMap Bytes) (c : Bytes) : Nat :=
  ((entriesAfter U c).filter (fun p => has del p.1)).length

theorem sizes_filter_key (p : Bytes → Bool) (m : SMap Bytes) :
    sizes (m.filter (fun q => p q.1)) = (sizes m).filter (fun q => p q.1) := by
  unfold sizes
  rw [List.filter_map]
  rfl

theorem enumOf_eq_take (U : SMap Bytes) (c : Bytes) (r : Nat) :
    enumOf U c r = (entriesAfter U c).take r := rfl

theorem pw_entriesAfter {U : SMap Bytes} (hU : KAsc U) (c : Bytes) :
    MergedEnum.PW (entriesAfter U c) := pw_sizes (kasc_filter _ hU)

/-- resuming after the last entry of a non-empty page of `r` entries: the rest -/
theorem entriesAfter_last {U : SMap Bytes} (hU : KAsc U) (c : Bytes) (r : Nat)
    (ini : List (Bytes × Nat)) (last : Bytes × Nat)
    (h : (entriesAfter U c).take r = ini ++ [last]) :
    entriesAfter U last.1 = (entriesAfter U c).drop r := by
  have hsplit : entriesAfter U c = ini ++ last :: (entriesAfter U c).drop r := by
    have := List.take_append_drop r (entriesAfter U c)
    rw [h] at this
    simpa [List.append_assoc] using this.symm
  have hpw := pw_entriesAfter hU c
  have hmem : last ∈ entriesAfter U c := by rw [hsplit]; simp
  have hcl : ltB c last.1 = true := by
    unfold entriesAfter at hmem
    rw [sizes_filter_key] at hmem
    exact (List.mem_filter.mp hmem).2
  have h1 : entriesAfter U last.1 = (entriesAfter U c).filter (fun q => ltB last.1 q.1) := by
    unfold entriesAfter
    rw [sizes_filter_key, sizes_filter_key, List.filter_filter]
    apply List.filter_congr
    intro x _
    by_cases hx : ltB last.1 x.1 = true
    · simp [hx, ltB_trans _ _ _ hcl hx]
    · have : ltB last.1 x.1 = false := Bool.eq_false_iff.mpr hx
      simp [this]
  rw [h1]
  conv => lhs; rw [hsplit]
  rw [hsplit] at hpw
  exact filter_gt_last ini _ last hpw

/-! ### the refill loop -/

theorem sub_enum {content : Bytes → Bytes} {I : Impl} (R : Refines content I) (s : I.σ)
    (h : R.Inv s) (c : Bytes) (r : Nat) :
    ∃ s1, I.step s (.enum c r) = (s1, .refs (enumOf (R.abs s) c r)) ∧ R.abs s1 = R.abs s ∧
      R.Inv s1 := by
  obtain ⟨ho, ha, hi⟩ := R.step_ok s (.enum c r) h trivial
  exact ⟨(I.step s (.enum c r)).1, Prod.ext rfl ho, ha, hi⟩

/-- content-addressing: which layer wins a tie does not matter -/
theorem union_comm_good {content : Bytes → Bytes} {A B : SMap Bytes} (hA : Good content A)
    (hB : Good content B) : union A B = union B A := by
  apply SMap.ext (kasc_union _ hB.1) (kasc_union _ hA.1)
  intro k
  rw [get_union, get_union]
  cases ha : SMap.get A k with
  | none => cases hb : SMap.get B k <;> rfl
  | some v =>
    cases hb : SMap.get B k with
    | none => rfl
    | some w => simp only [(hA.2 k v ha).1, (hB.2 k w hb).1]

/-- one round of the loop with `remaining ≠ 0`, over refining layers -/
theorem ovl_round {content : Bytes → Bytes} {lower upper : Impl} (Rl : Refines content lower)
    (Ru : Refines content upper) (del : SMap Unit) (fuel : Nat) (ls : lower.σ) (us : upper.σ)
    (after : Bytes) (remaining : Nat) (acc : List (Bytes × Nat))
    (hl : Rl.Inv ls) (hu : Ru.Inv us) (hr : remaining ≠ 0) :
    ∃ ls1 us1, Rl.abs ls1 = Rl.abs ls ∧ Ru.abs us1 = Ru.abs us ∧ Rl.Inv ls1 ∧ Ru.Inv us1 ∧
      overlayEnum lower upper del (fuel + 1) ls us after remaining acc =
        match (enumOf (union (Ru.abs us) (Rl.abs ls)) after remaining).getLast? with
        | none => (ls1, us1, some acc)
        | some last =>
          overlayEnum lower upper del fuel ls1 us1 last.1
            (remaining - ((enumOf (union (Ru.abs us) (Rl.abs ls)) after remaining).filter
              (fun p => !has del p.1)).length)
            (acc ++ (enumOf (union (Ru.abs us) (Rl.abs ls)) after remaining).filter
              (fun p => !has del p.1)) := by
  obtain ⟨ls1, h1, ha1, hi1⟩ := sub_enum Rl ls hl after remaining
  obtain ⟨us1, h2, ha2, hi2⟩ := sub_enum Ru us hu after remaining
  refine ⟨ls1, us1, ha1, ha2, hi1, hi2, ?_⟩
  rw [overlayEnum]
  simp only [hr, if_false, h1, h2]
  rw [enum2_spec (Rl.good ls hl) (Ru.good us hu),
    union_comm_good (Rl.good ls hl) (Ru.good us hu)]
  cases (enumOf (union (Ru.abs us) (Rl.abs ls)) after remaining).getLast? <;> rfl

/-- counting the tombstoned entries before and after a page boundary -/
theorem tomb_split (del : SMap Unit) (E : List (Bytes × Nat)) (r : Nat) :
    (E.filter (fun p => has del p.1)).length =
      ((E.take r).filter (fun p => has del p.1)).length +
        ((E.drop r).filter (fun p => has del p.1)).length := by
  rw [← List.length_append, ← List.filter_append, List.take_append_drop]

/-- **the refill loop, any fuel.**  With `U` the union of the layers: if the fuel is at least 1 and,
when there is something to do, at least (number of tombstoned entries of `U` after the cursor) + 2,
the loop returns `acc` followed by the first `remaining` live entries of `U` after the cursor, and
leaves the layers' contents unchanged. -/
theorem overlayEnum_spec_tomb {content : Bytes → Bytes} {lower upper : Impl}
    (Rl : Refines content lower) (Ru : Refines content upper) (del : SMap Unit) :
    ∀ (fuel : Nat) (ls : lower.σ) (us : upper.σ) (after : Bytes) (remaining : Nat)
      (acc : List (Bytes × Nat)),
      Rl.Inv ls → Ru.Inv us → 1 ≤ fuel →
      (remaining ≠ 0 → entriesAfter (union (Ru.abs us) (Rl.abs ls)) after ≠ [] →
        tombAfter del (union (Ru.abs us) (Rl.abs ls)) after + 2 ≤ fuel) →
      ∃ ls' us', overlayEnum lower upper del fuel ls us after remaining acc =
          (ls', us', some (acc ++ ((entriesAfter (union (Ru.abs us) (Rl.abs ls)) after).filter
            (fun p => !has del p.1)).take remaining)) ∧
        Rl.abs ls' = Rl.abs ls ∧ Ru.abs us' = Ru.abs us ∧ Rl.Inv ls' ∧ Ru.Inv us' := by
  intro fuel
  induction fuel with
  | zero => intro _ _ _ _ _ _ _ h; cases h
  | succ f ih =>
    intro ls us after remaining acc hl hu _ hfuel
    by_cases hr : remaining = 0
    · subst hr
      refine ⟨ls, us, ?_, rfl, rfl, hl, hu⟩
      rw [overlayEnum]; simp
    · obtain ⟨ls1, us1, ha1, ha2, hi1, hi2, hstep⟩ :=
        ovl_round Rl Ru del f ls us after remaining acc hl hu hr
      have hUk : KAsc (union (Ru.abs us) (Rl.abs ls)) := kasc_union _ (Rl.good ls hl).1
      have hU1 : union (Ru.abs us1) (Rl.abs ls1) = union (Ru.abs us) (Rl.abs ls) := by rw [ha2, ha1]
      obtain ⟨U, hU⟩ : ∃ U, U = union (Ru.abs us) (Rl.abs ls) := ⟨_, rfl⟩
      rw [← hU] at hfuel hstep hUk hU1 ⊢
      rw [hstep, enumOf_eq_take]
      cases hg : ((entriesAfter U after).take remaining).getLast? with
      | none =>
        have h0 : (entriesAfter U after).take remaining = [] := List.getLast?_eq_none_iff.mp hg
        have hE : entriesAfter U after = [] := by
          rcases List.take_eq_nil_iff.mp h0 with h | h
          · exact absurd h hr
          · exact h
        exact ⟨ls1, us1, by simp [hE], ha1, ha2, hi1, hi2⟩
      | some last =>
        obtain ⟨ini, hini⟩ := List.getLast?_eq_some_iff.mp hg
        have hdrop := entriesAfter_last hUk after remaining ini last hini
        have hne : entriesAfter U after ≠ [] := by
          intro h; rw [h] at hini; simp at hini
        have hT := hfuel hr hne
        have hcond : remaining - (((entriesAfter U after).take remaining).filter
              (fun p => !has del p.1)).length ≠ 0 →
            entriesAfter (union (Ru.abs us1) (Rl.abs ls1)) last.1 ≠ [] →
            tombAfter del (union (Ru.abs us1) (Rl.abs ls1)) last.1 + 2 ≤ f := by
          rw [hU1, hdrop]
          intro hrem hrest
          have hlen : ((entriesAfter U after).take remaining).length = remaining := by
            rw [List.length_take]
            have : ¬ (entriesAfter U after).length ≤ remaining := fun h =>
              hrest (List.drop_eq_nil_iff.mpr h)
            omega
          have hpart := length_filter_add (fun p : Bytes × Nat => has del p.1)
            ((entriesAfter U after).take remaining)
          have hsp := tomb_split del (entriesAfter U after) remaining
          unfold tombAfter at hT ⊢
          rw [hdrop]
          omega
        obtain ⟨ls', us', hres, hb1, hb2, hj1, hj2⟩ :=
          ih ls1 us1 last.1 _ (acc ++ ((entriesAfter U after).take remaining).filter
            (fun p => !has del p.1)) hi1 hi2 (by omega) hcond
        rw [hU1, hdrop] at hres
        refine ⟨ls', us', ?_, hb1.trans ha1, hb2.trans ha2, hj1, hj2⟩
        simp only
        rw [hres, filter_take_split _ (entriesAfter U after) remaining, List.append_assoc]

/-! ### sufficient fuels -/

theorem length_del_of_has {V : Type} (k : Bytes) (m : SMap V) (h : has m k = true) :
    (SMap.del k m).length + 1 = m.length := by
  induction m with
  | nil => simp [has, SMap.get] at h
  | cons p rest ih =>
    obtain ⟨k', u⟩ := p
    simp only [SMap.del]
    by_cases hk : k = k'
    · simp [hk]
    · simp only [has, SMap.get, hk, if_false] at h
      simp only [hk, if_false, List.length_cons]
      rw [ih h]

/-- an ascending list has at most `del.length` tombstoned entries -/
theorem dead_le_del : ∀ (X : List (Bytes × Nat)) (del : SMap Unit), KAsc del → MergedEnum.PW X →
    (X.filter (fun p => has del p.1)).length ≤ del.length := by
  intro X
  induction X with
  | nil => intro del _ _; simp
  | cons x t ih =>
    intro del hd hX
    have ht : MergedEnum.PW t := (List.pairwise_cons.mp hX).2
    by_cases hx : has del x.1 = true
    · have hcongr : t.filter (fun p => has del p.1) = t.filter (fun p => has (SMap.del x.1 del) p.1) := by
        apply List.filter_congr
        intro q hq
        have hlt : ltB x.1 q.1 = true := (List.pairwise_cons.mp hX).1 q hq
        have hne : q.1 ≠ x.1 := by intro e; rw [e, ltB_irrefl] at hlt; cases hlt
        rw [has_del x.1 hd]; simp [hne]
      have := ih (SMap.del x.1 del) (kasc_del _ hd) ht
      have hlen := length_del_of_has x.1 del hx
      simp only [List.filter_cons, hx, if_true, List.length_cons, hcongr]
      omega
    · simp only [List.filter_cons, hx]
      exact ih del hd ht

theorem tombAfter_le_del {del : SMap Unit} (hd : KAsc del) {U : SMap Bytes} (hU : KAsc U)
    (c : Bytes) : tombAfter del U c ≤ del.length :=
  dead_le_del _ del hd (pw_entriesAfter hU c)

theorem tombAfter_le_length (del : SMap Unit) (U : SMap Bytes) (c : Bytes) :
    tombAfter del U c ≤ (entriesAfter U c).length := List.length_filter_le _ _

/-- the spec's answer, in terms of `entriesAfter` -/
theorem enumOf_live (del : SMap Unit) (U : SMap Bytes) (after : Bytes) (limit : Nat) :
    enumOf (U.filter (fun p => !has del p.1)) after limit =
      ((entriesAfter U after).filter (fun p => !has del p.1)).take limit := by
  have h := sizes_filter_key (fun k => !has del k) (U.filter (fun p => ltB after p.1))
  unfold enumOf entriesAfter
  rw [← h, List.filter_filter, List.filter_filter]
  congr 3
  funext p
  exact Bool.and_comm _ _

/-- **the refill loop, fuel by the number of entries** (the requested variant): any fuel exceeding
(number of entries of the union after the cursor) + 1 is enough. -/
theorem overlayEnum_spec {content : Bytes → Bytes} {lower upper : Impl}
    (Rl : Refines content lower) (Ru : Refines content upper) (del : SMap Unit)
    (fuel : Nat) (ls : lower.σ) (us : upper.σ) (after : Bytes) (remaining : Nat)
    (acc : List (Bytes × Nat)) (hl : Rl.Inv ls) (hu : Ru.Inv us)
    (hfuel : (entriesAfter (union (Ru.abs us) (Rl.abs ls)) after).length + 1 < fuel) :
    ∃ ls' us', overlayEnum lower upper del fuel ls us after remaining acc =
        (ls', us', some (acc ++ enumOf ((union (Ru.abs us) (Rl.abs ls)).filter
          (fun p => !has del p.1)) after remaining)) ∧
      Rl.abs ls' = Rl.abs ls ∧ Ru.abs us' = Ru.abs us ∧ Rl.Inv ls' ∧ Ru.Inv us' := by
  rw [enumOf_live]
  apply overlayEnum_spec_tomb Rl Ru del fuel ls us after remaining acc hl hu (by omega)
  intro _ _
  have := tombAfter_le_length del (union (Ru.abs us) (Rl.abs ls)) after
  omega

/-- **the refill loop, fuel computable from the model state**: `del.length + 2` rounds are enough
(every round that does not finish sees at least one new tombstoned entry). -/
theorem overlayEnum_spec_del {content : Bytes → Bytes} {lower upper : Impl}
    (Rl : Refines content lower) (Ru : Refines content upper) (del : SMap Unit) (hd : KAsc del)
    (fuel : Nat) (ls : lower.σ) (us : upper.σ) (after : Bytes) (remaining : Nat)
    (acc : List (Bytes × Nat)) (hl : Rl.Inv ls) (hu : Ru.Inv us)
    (hfuel : del.length + 2 ≤ fuel) :
    ∃ ls' us', overlayEnum lower upper del fuel ls us after remaining acc =
        (ls', us', some (acc ++ enumOf ((union (Ru.abs us) (Rl.abs ls)).filter
          (fun p => !has del p.1)) after remaining)) ∧
      Rl.abs ls' = Rl.abs ls ∧ Ru.abs us' = Ru.abs us ∧ Rl.Inv ls' ∧ Ru.Inv us' := by
  rw [enumOf_live]
  apply overlayEnum_spec_tomb Rl Ru del fuel ls us after remaining acc hl hu (by omega)
  intro _ _
  have := tombAfter_le_del hd (kasc_union (Ru.abs us) (Rl.good ls hl).1) after
  omega

/-- **a fuel of `limit + 1` would NOT have been enough**: lower layer {[1],[2],[3]}, tombstones
{[1],[2]}, `enum "" 1`.  The spec (and overlay.go, whose loop is unbounded) answer `[([3], 1)]`; with
fuel `limit + 1 = 2` the loop gives up after two all-tombstoned rounds, with `del.length + 2 = 4` it
answers the spec's list. -/
theorem overlay_fuel_limit_insufficient :
    (overlayEnum memImpl memImpl [([1], ()), ([2], ())] 2
        ([([1], [7]), ([2], [8]), ([3], [9])] : SMap Bytes) ([] : SMap Bytes) [] 1 []).2.2 = none ∧
    (overlayEnum memImpl memImpl [([1], ()), ([2], ())] 4
        ([([1], [7]), ([2], [8]), ([3], [9])] : SMap Bytes) ([] : SMap Bytes) [] 1 []).2.2 =
      some [([3], 1)] := by
  decide +kernel

/-! ### map algebra of one overlay step -/

theorem get_live (D : SMap Unit) {U : SMap Bytes} (hU : KAsc U) (x : Bytes) :
    SMap.get (U.filter (fun p => !has D p.1)) x = if has D x then none else SMap.get U x := by
  have h := get_filter_key (fun k => !has D k) hU x
  rw [h]
  cases has D x <;> simp

theorem good_live {content : Bytes → Bytes} (D : SMap Unit) {U : SMap Bytes} (hU : Good content U) :
    Good content (U.filter (fun p => !has D p.1)) := by
  refine ⟨kasc_filter _ hU.1, ?_⟩
  intro k v h
  rw [get_live D hU.1] at h
  cases hd : has D k with
  | true => simp [hd] at h
  | false => simp only [hd, Bool.false_eq_true, if_false] at h; exact hU.2 k v h

theorem get_next_recv {content : Bytes → Bytes} {m : SMap Bytes} (hm : Good content m)
    {k v : Bytes} (hv : v = content k) (x : Bytes) :
    SMap.get (next m (.recv k v)) x = if x = k then some v else SMap.get m x := by
  simp only [next]
  by_cases hh : has m k = true
  · simp only [hh, if_true]
    by_cases hx : x = k
    · subst hx
      simp only [if_true]
      cases hg : SMap.get m x with
      | none => simp [has, hg] at hh
      | some w => rw [(hm.2 x w hg).1, hv]
    · simp [hx]
  · simp only [hh]
    exact get_ins k v m x

/-- what a step does to the tombstones -/
def ovlDel : Op → SMap Unit → SMap Unit
  | .recv k _, D => SMap.del k D
  | .rm k, D => ins k () D
  | _, D => D

theorem kasc_ovlDel (op : Op) {D : SMap Unit} (hD : KAsc D) : KAsc (ovlDel op D) := by
  cases op <;> simp only [ovlDel] <;> first | exact hD | exact kasc_del _ hD | exact kasc_ins _ _ hD

/-- the upper layer takes the step, the tombstones are updated: the visible map takes the step -/
theorem ovl_abs_next {content : Bytes → Bytes} {A B : SMap Bytes} {D : SMap Unit}
    (hA : Good content A) (hB : Good content B) (hD : KAsc D) (op : Op) (hop : op.WK content) :
    (union (next A op) B).filter (fun p => !has (ovlDel op D) p.1) =
      next ((union A B).filter (fun p => !has D p.1)) op := by
  have hU : Good content (union A B) := good_union hA hB
  have hM := good_live D hU
  cases op with
  | fetch _ => rfl
  | stat _ => rfl
  | enum _ _ => rfl
  | recv k v =>
    have hA' := good_next hA (.recv k v) hop
    apply SMap.ext (kasc_filter _ (kasc_union _ hB.1)) (good_next hM (.recv k v) hop).1
    intro x
    simp only [ovlDel]
    rw [get_live _ (kasc_union _ hB.1), get_union, get_next_recv hA hop.1, has_del k hD,
      get_next_recv hM hop.1, get_live D hU.1, get_union]
    by_cases hx : x = k
    · simp [hx]
    · simp [hx]
  | rm k =>
    apply SMap.ext (kasc_filter _ (kasc_union _ hB.1)) (kasc_del _ hM.1)
    intro x
    simp only [ovlDel, next]
    rw [get_live _ (kasc_union _ hB.1), get_union, get_del k hA.1, has_ins, get_del k hM.1,
      get_live D hU.1, get_union]
    by_cases hx : x = k
    · simp [hx]
    · simp [hx]

/-! ### one step of the overlay over refining layers -/

section Step
variable {content : Bytes → Bytes} {lower upper : Impl}

/-- the visible map: upper wins, tombstoned keys hidden -/
def ovlAbs (Rl : Refines content lower) (Ru : Refines content upper)
    (s : (overlayImpl lower upper).σ) : SMap Bytes :=
  (union (Ru.abs s.2.1) (Rl.abs s.1)).filter (fun p => !has s.2.2 p.1)

def ovlInv (Rl : Refines content lower) (Ru : Refines content upper)
    (s : (overlayImpl lower upper).σ) : Prop :=
  Rl.Inv s.1 ∧ Ru.Inv s.2.1 ∧ KAsc s.2.2

/-- what a step `s --op--> r` of the overlay must satisfy, component by component: the answer is the
reference map's, the lower layer's contents are untouched, the upper layer took the step, the
tombstones were updated -/
def OvlStep (Rl : Refines content lower) (Ru : Refines content upper)
    (s : (overlayImpl lower upper).σ) (op : Op) (r : (overlayImpl lower upper).σ × Out) : Prop :=
  r.2 = out (ovlAbs Rl Ru s) op ∧ Rl.abs r.1.1 = Rl.abs s.1 ∧
    Ru.abs r.1.2.1 = next (Ru.abs s.2.1) op ∧ r.1.2.2 = ovlDel op s.2.2 ∧
    Rl.Inv r.1.1 ∧ Ru.Inv r.1.2.1

theorem ovl_good (Rl : Refines content lower) (Ru : Refines content upper)
    (s : (overlayImpl lower upper).σ) (h : ovlInv Rl Ru s) : Good content (ovlAbs Rl Ru s) :=
  good_live _ (good_union (Ru.good _ h.2.1) (Rl.good _ h.1))

/-- an `OvlStep` is a step of the reference map on the visible map and keeps `ovlInv` -/
theorem OvlStep.ok {Rl : Refines content lower} {Ru : Refines content upper}
    {s : (overlayImpl lower upper).σ} {op : Op} {r : (overlayImpl lower upper).σ × Out}
    (h : OvlStep Rl Ru s op r) (hs : ovlInv Rl Ru s) (hop : op.WK content) :
    r.2 = out (ovlAbs Rl Ru s) op ∧ ovlAbs Rl Ru r.1 = next (ovlAbs Rl Ru s) op ∧
      ovlInv Rl Ru r.1 := by
  obtain ⟨ho, hal, hau, hd, hil, hiu⟩ := h
  refine ⟨ho, ?_, hil, hiu, by rw [hd]; exact kasc_ovlDel op hs.2.2⟩
  unfold ovlAbs
  rw [hal, hau, hd]
  exact ovl_abs_next (Ru.good _ hs.2.1) (Rl.good _ hs.1) hs.2.2 op hop

theorem out_live_dead (D : SMap Unit) {U : SMap Bytes} (hU : KAsc U) {k : Bytes}
    (hd : has D k = true) :
    out (U.filter (fun p => !has D p.1)) (.fetch k) = .notExist ∧
    out (U.filter (fun p => !has D p.1)) (.stat k) = .notExist := by
  simp [out, get_live D hU, hd]

theorem out_live_upper (D : SMap Unit) {A B : SMap Bytes} (hB : KAsc B) {k v : Bytes}
    (hd : has D k = false) (hg : SMap.get A k = some v) :
    out ((union A B).filter (fun p => !has D p.1)) (.fetch k) = .bytes v ∧
    out ((union A B).filter (fun p => !has D p.1)) (.stat k) = .sized v.length := by
  simp [out, get_live D (kasc_union A hB), hd, get_union, hg]

theorem out_live_lower (D : SMap Unit) {A B : SMap Bytes} (hB : KAsc B) {k : Bytes}
    (hd : has D k = false) (hg : SMap.get A k = none) :
    out ((union A B).filter (fun p => !has D p.1)) (.fetch k) = out B (.fetch k) ∧
    out ((union A B).filter (fun p => !has D p.1)) (.stat k) = out B (.stat k) := by
  simp [out, get_live D (kasc_union A hB), hd, get_union, hg]

/-- receive, remove, fetch, stat of the model as it stands -/
theorem ovl_step_nonenum (Rl : Refines content lower) (Ru : Refines content upper)
    (s : (overlayImpl lower upper).σ) (op : Op) (hs : ovlInv Rl Ru s) (hop : op.WK content)
    (hne : ∀ a l, op ≠ .enum a l) :
    OvlStep Rl Ru s op ((overlayImpl lower upper).step s op) := by
  obtain ⟨ls, us, del⟩ := s
  obtain ⟨hl, hu, hD⟩ := hs
  have hB := (Rl.good ls hl).1
  cases op with
  | enum a l => exact absurd rfl (hne a l)
  | recv k v =>
    obtain ⟨ho, ha, hi⟩ := Ru.step_ok us (.recv k v) hu hop
    generalize hst : upper.step us (.recv k v) = pr at ho ha hi
    obtain ⟨us1, o⟩ := pr
    simp only [out] at ho
    simp only at ho ha hi
    subst ho
    simp only [overlayImpl, hst]
    exact ⟨rfl, rfl, ha, rfl, hl, hi⟩
  | rm k =>
    obtain ⟨ho, ha, hi⟩ := Ru.step_ok us (.rm k) hu trivial
    generalize hst : upper.step us (.rm k) = pr at ho ha hi
    obtain ⟨us1, o⟩ := pr
    simp only [out] at ho
    simp only at ho ha hi
    subst ho
    simp only [overlayImpl, hst]
    exact ⟨rfl, rfl, ha, rfl, hl, hi⟩
  | fetch k =>
    simp only [overlayImpl]
    by_cases hd : has del k = true
    · simp only [hd, if_true]
      exact ⟨(out_live_dead del (kasc_union _ hB) hd).1.symm, rfl, rfl, rfl, hl, hu⟩
    · have hd' : has del k = false := Bool.eq_false_iff.mpr hd
      simp only [hd', Bool.false_eq_true, if_false]
      obtain ⟨ho, ha, hi⟩ := Ru.step_ok us (.fetch k) hu trivial
      generalize hst : upper.step us (.fetch k) = pr at ho ha hi
      obtain ⟨us1, o⟩ := pr
      simp only at ho ha hi
      cases hg : SMap.get (Ru.abs us) k with
      | some v =>
        simp only [out, hg] at ho
        subst ho
        exact ⟨(out_live_upper del hB hd' hg).1.symm, rfl, ha, rfl, hl, hi⟩
      | none =>
        simp only [out, hg] at ho
        subst ho
        obtain ⟨ho2, ha2, hi2⟩ := Rl.step_ok ls (.fetch k) hl trivial
        exact ⟨ho2.trans (out_live_lower del hB hd' hg).1.symm, ha2, ha, rfl, hi2, hi⟩
  | stat k =>
    simp only [overlayImpl]
    by_cases hd : has del k = true
    · simp only [hd, if_true]
      exact ⟨(out_live_dead del (kasc_union _ hB) hd).2.symm, rfl, rfl, rfl, hl, hu⟩
    · have hd' : has del k = false := Bool.eq_false_iff.mpr hd
      simp only [hd', Bool.false_eq_true, if_false]
      obtain ⟨ho, ha, hi⟩ := Ru.step_ok us (.stat k) hu trivial
      generalize hst : upper.step us (.stat k) = pr at ho ha hi
      obtain ⟨us1, o⟩ := pr
      simp only at ho ha hi
      cases hg : SMap.get (Ru.abs us) k with
      | some v =>
        simp only [out, hg] at ho
        subst ho
        exact ⟨(out_live_upper del hB hd' hg).2.symm, rfl, ha, rfl, hl, hi⟩
      | none =>
        simp only [out, hg] at ho
        subst ho
        obtain ⟨ho2, ha2, hi2⟩ := Rl.step_ok ls (.stat k) hl trivial
        exact ⟨ho2.trans (out_live_lower del hB hd' hg).2.symm, ha2, ha, rfl, hi2, hi⟩

/-- enumerate, for any fuel that covers the all-tombstoned rounds -/
theorem ovl_step_enum (Rl : Refines content lower) (Ru : Refines content upper)
    (ls : lower.σ) (us : upper.σ) (del : SMap Unit) (after : Bytes) (limit fuel : Nat)
    (hs : ovlInv Rl Ru (ls, us, del)) (h1 : 1 ≤ fuel)
    (hfuel : limit ≠ 0 → entriesAfter (union (Ru.abs us) (Rl.abs ls)) after ≠ [] →
      tombAfter del (union (Ru.abs us) (Rl.abs ls)) after + 2 ≤ fuel) :
    OvlStep Rl Ru (ls, us, del) (.enum after limit)
      (match overlayEnum lower upper del fuel ls us after limit [] with
       | (ls1, us1, some l) => ((ls1, us1, del), .refs l)
       | (ls1, us1, none) => ((ls1, us1, del), .err)) := by
  obtain ⟨ls', us', hres, ha1, ha2, hi1, hi2⟩ :=
    overlayEnum_spec_tomb Rl Ru del fuel ls us after limit [] hs.1 hs.2.1 h1 hfuel
  rw [hres]
  refine ⟨?_, ha1, ha2, rfl, hi1, hi2⟩
  simp only [List.nil_append, out, ovlAbs, enumOf_live]

end Step

/-! ### the packaged refinement -/

theorem ovl_init_abs {content : Bytes → Bytes} {lower upper : Impl} (Rl : Refines content lower)
    (Ru : Refines content upper) : ovlAbs Rl Ru (lower.init, upper.init, []) = [] := by
  show (union (Ru.abs upper.init) (Rl.abs lower.init)).filter _ = []
  rw [Ru.init_abs, Rl.init_abs]
  rfl

/-- **overlay refines the reference map whenever both layers do**, for ANY contents of the layers
and ANY tombstones: abs (ls, us, del) = (upper ∪ lower, upper wins) minus the tombstoned keys;
invariant = the layers' invariants and `KAsc del`.  The lower layer only ever sees fetch, stat and
enumerate. -/
def overlayRefines {content : Bytes → Bytes} {lower upper : Impl}
    (Rl : Refines content lower) (Ru : Refines content upper) :
    Refines content (overlayImpl lower upper) where
  abs := ovlAbs Rl Ru
  Inv := ovlInv Rl Ru
  init_inv := ⟨Rl.init_inv, Ru.init_inv, kasc_nil⟩
  init_abs := ovl_init_abs Rl Ru
  good := ovl_good Rl Ru
  step_ok := by
    rintro ⟨ls, us, del⟩ op hs hop
    cases op with
    | enum after limit =>
      have hD : KAsc del := hs.2.2
      have ht := tombAfter_le_del hD (kasc_union (Ru.abs us) (Rl.good ls hs.1).1) after
      exact (ovl_step_enum Rl Ru ls us del after limit (del.length + 2) hs (by omega)
        (fun _ _ => by omega)).ok hs hop
    | recv k v => exact (ovl_step_nonenum Rl Ru _ _ hs hop (by intro a l h; cases h)).ok hs hop
    | rm k => exact (ovl_step_nonenum Rl Ru _ _ hs hop (by intro a l h; cases h)).ok hs hop
    | fetch k => exact (ovl_step_nonenum Rl Ru _ _ hs hop (by intro a l h; cases h)).ok hs hop
    | stat k => exact (ovl_step_nonenum Rl Ru _ _ hs hop (by intro a l h; cases h)).ok hs hop

/-- the abstraction and invariant of `overlayRefines`, spelled out -/
theorem overlayRefines_abs {content : Bytes → Bytes} {lower upper : Impl}
    (Rl : Refines content lower) (Ru : Refines content upper) (ls : lower.σ) (us : upper.σ)
    (del : SMap Unit) :
    (overlayRefines Rl Ru).abs (ls, us, del) =
        (union (Ru.abs us) (Rl.abs ls)).filter (fun p => !has del p.1) ∧
    ((overlayRefines Rl Ru).Inv (ls, us, del) ↔ (Rl.Inv ls ∧ Ru.Inv us ∧ KAsc del)) :=
  ⟨rfl, Iff.rfl⟩

end Pk.Stores
