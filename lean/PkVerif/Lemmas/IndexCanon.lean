import PkVerif.Lemmas.Index
/-!
# The quiescent index is the canonical index of the delivered set (C05), and schedules keep the invariant
-/
namespace Pk.Index
open Pk Pk.SMap

/-! ## schedules -/

def delivered : List Act → List Ref
  | [] => []
  | .recv b :: rest => b :: delivered rest
  | _ :: rest => delivered rest

theorem mem_delivered (acts : List Act) (b : Ref) : b ∈ delivered acts ↔ Act.recv b ∈ acts := by
  induction acts with
  | nil => simp [delivered]
  | cons a rest ih =>
    cases a <;> simp [delivered, ih]

theorem allInv_step {W : World} {ver : Nat} {s : State} {seen : List Ref} (hW : WF W) (h : AllInv W ver s seen)
    (a : Act) (ha : a.ok s = true) : AllInv W ver (step W ver s a) (delivered [a] ++ seen) := by
  cases a with
  | src b => exact allInv_srcAdd h b
  | recv b => exact allInv_receive hW h b (by simpa [Act.ok] using ha)
  | reidx b => exact allInv_reidx hW h b
  | restart => exact allInv_restart h (by simpa [Act.ok] using ha)

theorem AllInv.weaken {W : World} {ver : Nat} {s : State} {seen seen' : List Ref} (h : AllInv W ver s seen)
    (hs : ∀ b ∈ seen', b ∈ seen) : AllInv W ver s seen' :=
  ⟨h.1.weaken hs, h.2⟩

theorem allInv_run {W : World} {ver : Nat} (hW : WF W) (acts : List Act) (s : State) (seen : List Ref)
    (h : AllInv W ver s seen) (hv : Valid W ver s acts) : AllInv W ver (run W ver s acts) (delivered acts ++ seen) := by
  induction acts generalizing s seen with
  | nil => exact h
  | cons a rest ih =>
    obtain ⟨ha, hrest⟩ := hv
    have h1 := allInv_step hW h a ha
    have h2 := ih (step W ver s a) _ h1 hrest
    show AllInv W ver (run W ver (step W ver s a) rest) _
    apply h2.weaken
    intro b hb
    cases a <;> simp [delivered] at hb ⊢ <;> first | exact hb | (rcases hb with h | h | h <;> simp [h])

theorem valid_of_validB (W : World) (ver : Nat) (s : State) (acts : List Act) (h : validB W ver s acts = true) :
    Valid W ver s acts := by
  induction acts generalizing s with
  | nil => trivial
  | cons a rest ih =>
    simp only [validB, Bool.and_eq_true] at h
    exact ⟨h.1, ih _ h.2⟩

theorem receive_corpus_isSome (W : World) (s : State) (b : Ref) : (s.receive W b).corpus.isSome = s.corpus.isSome := by
  have hca : ∀ (s0 : State) (mm : List Row) (r : Bool), (s0.commitAll b mm r).corpus.isSome = s0.corpus.isSome := by
    intro s0 mm r
    unfold State.commitAll
    rw [(nbi_fields _ b).2.2]
    unfold State.corpusAdd
    split
    · rfl
    · rename_i c heq
      have : s0.corpus = some c := heq
      rw [this]; rfl
  unfold State.receive
  split
  · rfl
  · simp only
    split
    · rfl
    · split
      · split
        · rw [hca]; rfl
        · show (State.commitAll _ _ _ _).corpus.isSome = _
          rw [hca]
      · show (State.commitAll _ _ _ _).corpus.isSome = _
        rw [hca]

theorem step_corpus_isSome (W : World) (ver : Nat) (s : State) (a : Act) :
    (step W ver s a).corpus.isSome = s.corpus.isSome := by
  cases a with
  | src b =>
    show (s.srcAdd b).corpus.isSome = _
    unfold State.srcAdd; split <;> rfl
  | recv b => exact receive_corpus_isSome W s b
  | reidx b =>
    show (s.reidx W b).corpus.isSome = _
    unfold State.reidx
    split
    · rw [receive_corpus_isSome]
    · rfl
  | restart =>
    show (s.restart ver).corpus.isSome = _
    unfold State.restart reopen
    cases s.corpus.isSome <;> rfl

theorem run_corpus_isSome (W : World) (ver : Nat) (s : State) (acts : List Act) :
    (run W ver s acts).corpus.isSome = s.corpus.isSome := by
  induction acts generalizing s with
  | nil => rfl
  | cons a rest ih =>
    show (run W ver (step W ver s a) rest).corpus.isSome = _
    rw [ih, step_corpus_isSome]

/-! ## the final state -/

section final
variable {W : World} {ver : Nat} {s : State} {seen : List Ref}

theorem leaf_full (h : Inv W ver s seen none) (hq : s.ready = []) (m : Ref) (hm : m ∈ seen)
    (hl : fdeps W m = [] ∧ idep W m = none) : stOf W s.rows m = .full := by
  cases hst : stOf W s.rows m with
  | full => rfl
  | absent =>
    rcases h.j1 m hm (by simp) (by rw [hst]; simp) with ⟨x, hx⟩ | h1
    · obtain ⟨pre, post, e, _⟩ := h.j4a m x hx hst
      rw [hl.1] at e
      exact absurd e (by simp)
    · rw [hq] at h1; cases h1
  | half =>
    rcases h.j1 m hm (by simp) (by rw [hst]; simp) with ⟨x, hx⟩ | h1
    · rcases h.j4b m x hx hst with h2 | h2
      · rw [hl.2] at h2; cases h2
      · rw [hl.1] at h2; cases h2
    · rw [hq] at h1; cases h1

theorem needs_absent (hW : WF W) (h : Inv W ver s seen none) (hq : s.ready = []) (hall : ∀ b ∈ s.src, b ∈ seen)
    (b m : Ref) (hbm : (b, m) ∈ s.needs) (hst : stOf W s.rows b = .absent) : firstMissing W s.src b = some m := by
  obtain ⟨pre, post, e, hpre⟩ := h.j4a b m hbm hst
  apply firstMissing_of_split W s.src b m pre post e hpre
  intro hm
  have hleaf := hW.1 b m (by rw [e]; simp)
  have := leaf_full h hq m (hall m hm) hleaf
  rw [h.j2 b m hbm] at this; cases this

theorem needs_half (hW : WF W) (h : Inv W ver s seen none) (hq : s.ready = []) (hall : ∀ b ∈ s.src, b ∈ seen)
    (b m : Ref) (hbm : (b, m) ∈ s.needs) (hst : stOf W s.rows b = .half) : idep W b = some m := by
  rcases h.j4b b m hbm hst with h1 | h1
  · exact h1
  · have hsrc : m ∈ s.src := (firstMissing_none_iff W s.src b).mp (h.j4c b (by rw [hst]; simp)) m h1
    have := leaf_full h hq m (hall m hsrc) (hW.1 b m h1)
    rw [h.j2 b m hbm] at this; cases this

theorem committedIn_iff (S : List Ref) (t : Ref) :
    committedIn W S t = true ↔ t ∈ S ∧ firstMissing W S t = none := by
  unfold committedIn
  simp [Option.isNone_iff_eq_none]

theorem absent_not_committed (hW : WF W) (h : Inv W ver s seen none) (hq : s.ready = [])
    (hall : ∀ b ∈ s.src, b ∈ seen) (t : Ref) (hst : stOf W s.rows t = .absent) : committedIn W s.src t = false := by
  cases hc : committedIn W s.src t with
  | false => rfl
  | true =>
    obtain ⟨h1, h2⟩ := (committedIn_iff s.src t).mp hc
    rcases h.j1 t (hall t h1) (by simp) (by rw [hst]; simp) with ⟨x, hx⟩ | h3
    · have := needs_absent hW h hq hall t x hx hst
      rw [h2] at this; cases this
    · rw [hq] at h3; cases h3

/-- at quiescence, once every blob of the source has been delivered, every blob is exactly as far as the
source allows -/
theorem final_status (hW : WF W) (h : Inv W ver s seen none) (hq : s.ready = []) (hall : ∀ b ∈ s.src, b ∈ seen)
    (b : Ref) : stOf W s.rows b = canonStatus W s.src b := by
  unfold canonStatus
  by_cases hb : b ∈ s.src
  · have hbc : s.src.contains b = true := by simpa using hb
    simp only [hbc, Bool.not_true, Bool.false_eq_true, if_false]
    cases hst : stOf W s.rows b with
    | absent =>
      rcases h.j1 b (hall b hb) (by simp) (by rw [hst]; simp) with ⟨x, hx⟩ | h3
      · rw [needs_absent hW h hq hall b x hx hst]; simp
      · rw [hq] at h3; cases h3
    | half =>
      have hfm := h.j4c b (by rw [hst]; simp)
      rcases h.j1 b (hall b hb) (by simp) (by rw [hst]; simp) with ⟨x, hx⟩ | h3
      · have hd := needs_half hW h hq hall b x hx hst
        rw [hfm, hd]
        simp only [Option.isSome_none, Bool.false_eq_true, if_false]
        rw [absent_not_committed hW h hq hall x (h.j2 b x hx)]
        simp
      · rw [hq] at h3; cases h3
    | full =>
      have hfm := h.j4c b (by rw [hst]; simp)
      rw [hfm]
      simp only [Option.isSome_none, Bool.false_eq_true, if_false]
      cases hd : idep W b with
      | none => rfl
      | some t =>
        have ht := h.j4d b t hst hd
        have : committedIn W s.src t = true := (committedIn_iff s.src t).mpr ⟨h.s1 t ht, h.j4c t ht⟩
        simp [this]
  · have hbc : s.src.contains b = false := by simpa using hb
    simp only [hbc, Bool.not_false, if_true]
    cases hst : stOf W s.rows b with
    | absent => rfl
    | half => exact absurd (h.s1 b (by rw [hst]; simp)) hb
    | full => exact absurd (h.s1 b (by rw [hst]; simp)) hb

/-- the dependency a blob of the set is waiting for -/
def pendingDep (W : World) (S : List Ref) (b : Ref) : Option Ref :=
  match firstMissing W S b with
  | some m => some m
  | none =>
    match idep W b with
    | some t => if committedIn W S t then none else some t
    | none => none

theorem contrib_eq (S : List Ref) (b : Ref) (hb : b ∈ S) :
    contrib W S b = rowsFor W (canonStatus W S b) b ++
      (match pendingDep W S b with | some m => [(kMissing b m, [1])] | none => []) := by
  have hbc : S.contains b = true := by simpa using hb
  unfold contrib canonStatus pendingDep
  simp only [hbc, Bool.not_true, Bool.false_eq_true, if_false]
  cases firstMissing W S b with
  | some m => simp [rowsFor]
  | none =>
    simp only [Option.isSome_none, Bool.false_eq_true, if_false]
    cases idep W b with
    | none => simp [rowsFor]
    | some t =>
      simp only
      cases committedIn W S t <;> simp [rowsFor]

theorem rowsFor_no_missing (st : Status) (b : Ref) (k : Bytes) (hk : isMissingKey k = true) :
    SMap.get (rowsFor W st b) k = none := by
  cases hg : SMap.get (rowsFor W st b) k with
  | none => rfl
  | some v => have := (get_good (good_rowsFor W st b) hg).2.1; simp only at this; rw [hk] at this; cases this

theorem get_contrib_other (S : List Ref) (b : Ref) (hb : b ∈ S) (k : Bytes) (hk : isMissingKey k = false) :
    SMap.get (contrib W S b) k = SMap.get (rowsFor W (canonStatus W S b) b) k := by
  rw [contrib_eq S b hb, get_append]
  cases hg : SMap.get (rowsFor W (canonStatus W S b) b) k with
  | some v => rfl
  | none =>
    simp only
    cases pendingDep W S b with
    | none => rfl
    | some m =>
      have : k ≠ kMissing b m := fun e => by rw [e] at hk; cases hk
      simp [SMap.get, this]

theorem get_contrib_missing (S : List Ref) (b : Ref) (hb : b ∈ S) (x y : Ref) :
    SMap.get (contrib W S b) (kMissing x y) = if x = b ∧ pendingDep W S b = some y then some [1] else none := by
  rw [contrib_eq S b hb, get_append, rowsFor_no_missing _ _ _ (kMissing_isMissing x y)]
  simp only
  cases hp : pendingDep W S b with
  | none => simp [SMap.get]
  | some m =>
    by_cases e : x = b ∧ m = y
    · obtain ⟨rfl, rfl⟩ := e; simp [SMap.get]
    · have : kMissing x y ≠ kMissing b m := by
        intro e'
        have : x = b ∧ y = m := by simpa [kMissing] using e'
        exact e ⟨this.1, this.2.symm⟩
      simp only [SMap.get, this, if_false]
      rw [if_neg]
      rintro ⟨h1, h2⟩
      exact e ⟨h1, Option.some.inj h2⟩

/-- which `missing|` rows a quiescent, fully delivered index has -/
theorem final_needs (hW : WF W) (h : Inv W ver s seen none) (hq : s.ready = []) (hall : ∀ b ∈ s.src, b ∈ seen)
    (b m : Ref) : ((b, m) ∈ s.needs ∧ stOf W s.rows b ≠ .full) ↔ (b ∈ s.src ∧ pendingDep W s.src b = some m) := by
  constructor
  · rintro ⟨hbm, hnf⟩
    refine ⟨h.s2 b m hbm, ?_⟩
    unfold pendingDep
    cases hst : stOf W s.rows b with
    | full => exact absurd hst hnf
    | absent => rw [needs_absent hW h hq hall b m hbm hst]
    | half =>
      rw [h.j4c b (by rw [hst]; simp), needs_half hW h hq hall b m hbm hst]
      simp only
      rw [absent_not_committed hW h hq hall m (h.j2 b m hbm)]
      simp
  · rintro ⟨hb, hp⟩
    have hfs := final_status hW h hq hall b
    have hbc : s.src.contains b = true := by simpa using hb
    unfold pendingDep at hp
    unfold canonStatus at hfs
    simp only [hbc, Bool.not_true, Bool.false_eq_true, if_false] at hfs
    cases hfm : firstMissing W s.src b with
    | some m' =>
      rw [hfm] at hp hfs
      simp only [Option.isSome_some, if_true] at hfs
      have e : m' = m := Option.some.inj hp
      subst e
      rcases h.j1 b (hall b hb) (by simp) (by rw [hfs]; simp) with ⟨x, hx⟩ | h3
      · have := needs_absent hW h hq hall b x hx hfs
        rw [hfm] at this
        have e : m' = x := Option.some.inj this
        subst e
        exact ⟨hx, by rw [hfs]; simp⟩
      · rw [hq] at h3; cases h3
    | none =>
      rw [hfm] at hp hfs
      simp only [Option.isSome_none, Bool.false_eq_true, if_false] at hfs
      cases hd : idep W b with
      | none => rw [hd] at hp; cases hp
      | some t =>
        rw [hd] at hp hfs
        simp only at hp hfs
        cases hc : committedIn W s.src t with
        | true => rw [hc] at hp; simp at hp
        | false =>
          rw [hc] at hp hfs
          simp only [Bool.false_eq_true, if_false] at hp hfs
          have e : t = m := Option.some.inj hp
          subst e
          rcases h.j1 b (hall b hb) (by simp) (by rw [hfs]; simp) with ⟨x, hx⟩ | h3
          · have := needs_half hW h hq hall b x hx hfs
            rw [hd] at this
            have e : t = x := Option.some.inj this
            subst e
            exact ⟨hx, by rw [hfs]; simp⟩
          · rw [hq] at h3; cases h3

def canonFold (W : World) (ver : Nat) (S : List Ref) (L : List Ref) : SMap Bytes :=
  L.foldr (fun b acc => SMap.union (contrib W S b) acc) [schemaRow ver]

theorem kasc_canonFold (S L : List Ref) : KAsc (canonFold W ver S L) := by
  induction L with
  | nil => simp [canonFold, KAsc, schemaRow]
  | cons b rest ih => exact kasc_union _ ih

theorem get_canonFold_none (S L : List Ref) (k : Bytes) (h : ∀ b ∈ L, SMap.get (contrib W S b) k = none) :
    SMap.get (canonFold W ver S L) k = SMap.get [schemaRow ver] k := by
  induction L with
  | nil => rfl
  | cons b rest ih =>
    show SMap.get (SMap.union (contrib W S b) (canonFold W ver S rest)) k = _
    rw [get_union, h b (by simp)]
    exact ih (fun x hx => h x (by simp [hx]))

theorem get_canonFold_some (S L : List Ref) (k v : Bytes)
    (hfun : ∀ b ∈ L, ∀ v', SMap.get (contrib W S b) k = some v' → v' = v)
    (hex : ∃ b ∈ L, SMap.get (contrib W S b) k = some v) : SMap.get (canonFold W ver S L) k = some v := by
  induction L with
  | nil => obtain ⟨b, hb, _⟩ := hex; cases hb
  | cons b rest ih =>
    show SMap.get (SMap.union (contrib W S b) (canonFold W ver S rest)) k = _
    rw [get_union]
    cases hg : SMap.get (contrib W S b) k with
    | some v' => rw [hfun b (by simp) v' hg]
    | none =>
      simp only
      apply ih (fun x hx => hfun x (by simp [hx]))
      obtain ⟨x, hx, hxv⟩ := hex
      cases hx with
      | head => rw [hg] at hxv; cases hxv
      | tail _ hx' => exact ⟨x, hx', hxv⟩

/-- the rows of a quiescent, fully delivered index are the canonical rows of its source -/
theorem final_rows (hW : WF W) (h : Inv W ver s seen none) (hq : s.ready = []) (hall : ∀ b ∈ s.src, b ∈ seen) :
    s.rows = canonicalRows W ver s.src := by
  apply SMap.ext h.kasc (kasc_canonFold s.src s.src)
  intro k
  show _ = SMap.get (canonFold W ver s.src s.src) k
  have hfs := final_status hW h hq hall
  -- every contribution agrees with the rows
  have hagree : ∀ b ∈ s.src, ∀ v, SMap.get (contrib W s.src b) k = some v → SMap.get s.rows k = some v := by
    intro b hb v hv
    by_cases hk : isMissingKey k = true
    · -- a missing| row
      obtain ⟨x, y, rfl⟩ : ∃ x y, k = kMissing x y := by
        unfold isMissingKey at hk
        split at hk
        · rename_i x y; exact ⟨x, y, rfl⟩
        · cases hk
      rw [get_contrib_missing s.src b hb] at hv
      by_cases e : x = b ∧ pendingDep W s.src b = some y
      · rw [if_pos e] at hv
        obtain ⟨rfl, hp⟩ := e
        rw [h.r3 x y, if_pos ((final_needs hW h hq hall x y).mpr ⟨hb, hp⟩)]
        exact hv
      · rw [if_neg e] at hv; cases hv
    · have hk' : isMissingKey k = false := by cases hm : isMissingKey k <;> simp_all
      rw [get_contrib_other s.src b hb k hk', ← hfs b] at hv
      have g := get_good (good_rowsFor W _ b) hv
      exact (h.r2 k v hk' g.2.2).mpr ⟨b, hv⟩
  by_cases hex : ∃ b ∈ s.src, ∃ v, SMap.get (contrib W s.src b) k = some v
  · obtain ⟨b, hb, v, hv⟩ := hex
    rw [hagree b hb v hv]
    symm
    apply get_canonFold_some s.src s.src k v _ ⟨b, hb, hv⟩
    intro x hx v' hv'
    have := hagree x hx v' hv'
    rw [hagree b hb v hv] at this
    exact (Option.some.inj this).symm
  · have hnone : ∀ b ∈ s.src, SMap.get (contrib W s.src b) k = none := by
      intro b hb
      cases hg : SMap.get (contrib W s.src b) k with
      | none => rfl
      | some v => exact absurd ⟨b, hb, v, hg⟩ hex
    rw [get_canonFold_none s.src s.src k hnone]
    by_cases hks : k = kSchema
    · subst hks; rw [h.schema]; simp [SMap.get, schemaRow]
    · have : SMap.get [schemaRow ver] k = none := by simp [SMap.get, schemaRow, hks]
      rw [this]
      cases hg : SMap.get s.rows k with
      | none => rfl
      | some v =>
        exfalso
        by_cases hk : isMissingKey k = true
        · obtain ⟨x, y, rfl⟩ : ∃ x y, k = kMissing x y := by
            unfold isMissingKey at hk
            split at hk
            · rename_i x y; exact ⟨x, y, rfl⟩
            · cases hk
          rw [h.r3 x y] at hg
          by_cases e : (x, y) ∈ s.needs ∧ stOf W s.rows x ≠ .full
          · obtain ⟨hx, hp⟩ := (final_needs hW h hq hall x y).mp e
            have := hnone x hx
            rw [get_contrib_missing s.src x hx, if_pos ⟨rfl, hp⟩] at this
            cases this
          · rw [if_neg e] at hg; cases hg
        · have hk' : isMissingKey k = false := by cases hm : isMissingKey k <;> simp_all
          obtain ⟨b, hb⟩ := (h.r2 k v hk' hks).mp hg
          have hbs : b ∈ s.src := by
            apply h.s1 b
            intro e; rw [e] at hb; simp [rowsFor, SMap.get] at hb
          have := hnone b hbs
          rw [get_contrib_other s.src b hbs k hk', ← hfs b, hb] at this
          cases this

end final

/-! ## the canonical rows are a function of the *set* -/

theorem firstMissing_congr (W : World) (S S' : List Ref) (h : ∀ x, x ∈ S ↔ x ∈ S') (b : Ref) :
    firstMissing W S b = firstMissing W S' b := by
  unfold firstMissing
  have : (fun m => !S.contains m) = (fun m => !S'.contains m) := by
    funext m
    have : S.contains m = S'.contains m := by
      rw [Bool.eq_iff_iff]; simp [h m]
    rw [this]
  rw [this]

theorem contains_congr (S S' : List Ref) (h : ∀ x, x ∈ S ↔ x ∈ S') (b : Ref) : S.contains b = S'.contains b := by
  rw [Bool.eq_iff_iff]; simp [h b]

theorem contrib_congr (W : World) (S S' : List Ref) (h : ∀ x, x ∈ S ↔ x ∈ S') (b : Ref) :
    contrib W S b = contrib W S' b := by
  unfold contrib committedIn
  rw [firstMissing_congr W S S' h b]
  cases firstMissing W S' b with
  | some m => rfl
  | none =>
    simp only
    cases idep W b with
    | none => rfl
    | some t => simp only; rw [contains_congr S S' h t, firstMissing_congr W S S' h t]

def Own (W : World) (b : Ref) (r : Row) : Prop :=
  (owner r.1 = some b ∨ ∃ s, r = (kSignerKeyId s, [keyIdOf W s])) ∧ r.1 ≠ kSchema

theorem own_compat (W : World) (b b' : Ref) (hne : b ≠ b') (k v v' : Bytes) (hr : Own W b (k, v)) (hr' : Own W b' (k, v')) :
    v = v' := by
  rcases hr.1 with h | ⟨s, h⟩ <;> rcases hr'.1 with h' | ⟨s', h'⟩
  · simp only at h h'; rw [h] at h'; exact absurd (Option.some.inj h') hne
  · simp only [Prod.mk.injEq] at h'; simp only at h; rw [h'.1, owner_signerKeyId] at h; cases h
  · simp only [Prod.mk.injEq] at h; simp only at h'; rw [h.1, owner_signerKeyId] at h'; cases h'
  · simp only [Prod.mk.injEq] at h h'
    have : s = s' := by have := h.1.symm.trans h'.1; simpa [kSignerKeyId] using this
    subst this
    rw [h.2, h'.2]

theorem own_contrib (W : World) (S : List Ref) (b : Ref) (k v : Bytes) (h : SMap.get (contrib W S b) k = some v) :
    Own W b (k, v) := by
  have hmem := get_some_mem h
  have hgood : ∀ st, ∀ r ∈ rowsFor W st b, Own W b r := fun st r hr =>
    ⟨(good_rowsFor W st b r hr).1, (good_rowsFor W st b r hr).2.2⟩
  have hmiss : ∀ m, Own W b (kMissing b m, [1]) := fun m => ⟨Or.inl rfl, by simp [kMissing, kSchema]⟩
  unfold contrib at hmem
  split at hmem
  · simp at hmem; rw [hmem.1, hmem.2]; exact hmiss _
  · split at hmem
    · split at hmem
      · exact hgood .full _ hmem
      · rw [List.mem_append] at hmem
        rcases hmem with h1 | h1
        · exact hgood .half _ h1
        · simp at h1; rw [h1.1, h1.2]; exact hmiss _
    · exact hgood .full _ hmem

theorem get_canonFold_iff (W : World) (ver : Nat) (S L : List Ref) (k v : Bytes) :
    SMap.get (canonFold W ver S L) k = some v ↔
      (∃ b ∈ L, SMap.get (contrib W S b) k = some v) ∨
      ((∀ b ∈ L, SMap.get (contrib W S b) k = none) ∧ SMap.get [schemaRow ver] k = some v) := by
  have hsome : ∀ w, (∃ b ∈ L, SMap.get (contrib W S b) k = some w) → SMap.get (canonFold W ver S L) k = some w := by
    rintro w ⟨b, hb, hbw⟩
    apply get_canonFold_some S L k w _ ⟨b, hb, hbw⟩
    intro x _ v' hv'
    by_cases e : x = b
    · subst e; rw [hbw] at hv'; exact (Option.some.inj hv').symm
    · exact own_compat W x b e k v' w (own_contrib W S x k v' hv') (own_contrib W S b k w hbw)
  constructor
  · intro h
    by_cases hex : ∃ b ∈ L, ∃ w, SMap.get (contrib W S b) k = some w
    · obtain ⟨b, hb, w, hw⟩ := hex
      have := hsome w ⟨b, hb, hw⟩
      rw [h] at this
      have e : v = w := Option.some.inj this
      subst e
      exact Or.inl ⟨b, hb, hw⟩
    · have hnone : ∀ b ∈ L, SMap.get (contrib W S b) k = none := by
        intro b hb
        cases hg : SMap.get (contrib W S b) k with
        | none => rfl
        | some w => exact absurd ⟨b, hb, w, hg⟩ hex
      rw [get_canonFold_none S L k hnone] at h
      exact Or.inr ⟨hnone, h⟩
  · rintro (h | ⟨h1, h2⟩)
    · exact hsome v h
    · rw [get_canonFold_none S L k h1]; exact h2

theorem option_ext {α : Type} (a b : Option α) (h : ∀ v, a = some v ↔ b = some v) : a = b := by
  cases a with
  | none =>
    cases b with
    | none => rfl
    | some w => exact absurd ((h w).mpr rfl) (by simp)
  | some w => exact ((h w).mp rfl).symm

/-- the canonical index depends only on which blobs are in the set -/
theorem canonicalRows_congr (W : World) (ver : Nat) (S S' : List Ref) (h : ∀ x, x ∈ S ↔ x ∈ S') :
    canonicalRows W ver S = canonicalRows W ver S' := by
  apply SMap.ext (kasc_canonFold S S) (kasc_canonFold S' S')
  intro k
  apply option_ext
  intro v
  show SMap.get (canonFold W ver S S) k = some v ↔ SMap.get (canonFold W ver S' S') k = some v
  rw [get_canonFold_iff, get_canonFold_iff]
  have hc : ∀ b, contrib W S b = contrib W S' b := contrib_congr W S S' h
  constructor
  · rintro (⟨b, hb, hv⟩ | ⟨h1, h2⟩)
    · exact Or.inl ⟨b, (h b).mp hb, by rw [← hc b]; exact hv⟩
    · exact Or.inr ⟨fun b hb => by rw [← hc b]; exact h1 b ((h b).mpr hb), h2⟩
  · rintro (⟨b, hb, hv⟩ | ⟨h1, h2⟩)
    · exact Or.inl ⟨b, (h b).mpr hb, by rw [hc b]; exact hv⟩
    · exact Or.inr ⟨fun b hb => by rw [hc b]; exact h1 b ((h b).mp hb), h2⟩

/-! ## draining the ready queue and Reindex are schedules -/

theorem allInv_drain {W : World} {ver : Nat} (hW : WF W) (n : Nat) (s : State) (seen : List Ref)
    (h : AllInv W ver s seen) : AllInv W ver (State.drain W n s) seen := by
  induction n generalizing s with
  | zero => exact h
  | succ n ih =>
    unfold State.drain
    split
    · exact h
    · split
      · exact ih _ (allInv_reidx hW h _)
      · exact h

theorem receive_src (W : World) (s : State) (b : Ref) : (s.receive W b).src = s.src := by
  unfold State.receive
  split
  · rfl
  · simp only
    split
    · rfl
    · split
      · split
        · unfold State.commitAll; rw [(nbi_fields _ b).1, (corpusAdd_fields _ b _ _).2.2.2.2.1]; rfl
        · show ((s.commitAll b _ _).removeAllMissingEdges b).src = _
          unfold State.commitAll
          show (State.noteBlobIndexed _ b).src = _
          rw [(nbi_fields _ b).1, (corpusAdd_fields _ b _ _).2.2.2.2.1]; rfl
      · show ((s.commitAll b _ _).removeAllMissingEdges b).src = _
        unfold State.commitAll
        show (State.noteBlobIndexed _ b).src = _
        rw [(nbi_fields _ b).1, (corpusAdd_fields _ b _ _).2.2.2.2.1]; rfl

theorem reidx_src (W : World) (s : State) (b : Ref) : (s.reidx W b).src = s.src := by
  unfold State.reidx
  split
  · rw [receive_src]
  · rfl

theorem drain_src (W : World) (n : Nat) (s : State) : (State.drain W n s).src = s.src := by
  induction n generalizing s with
  | zero => rfl
  | succ n ih =>
    unfold State.drain
    split
    · rfl
    · split
      · rw [ih, reidx_src]
      · rfl

/-- the indexing loop of Reindex over `order` from a state `s0` -/
def reindexLoop (W : World) (fuel : Nat) (s0 : State) (order : List Ref) : State :=
  order.foldl (fun s b => if s.src.contains b then State.drain W fuel (s.receive W b) else s) s0

theorem allInv_reindexLoop {W : World} {ver : Nat} (hW : WF W) (fuel : Nat) (order : List Ref) (s0 : State)
    (seen : List Ref) (h : AllInv W ver s0 seen) :
    ∃ seen', AllInv W ver (reindexLoop W fuel s0 order) seen' ∧ (reindexLoop W fuel s0 order).src = s0.src ∧
      (∀ b ∈ seen, b ∈ seen') ∧ (∀ b ∈ order, b ∈ s0.src → b ∈ seen') := by
  induction order generalizing s0 seen with
  | nil => exact ⟨seen, h, rfl, fun _ hb => hb, fun _ hb => by cases hb⟩
  | cons a rest ih =>
    unfold reindexLoop
    rw [List.foldl_cons]
    by_cases ha : s0.src.contains a = true
    · rw [if_pos ha]
      have h1 := allInv_drain hW fuel _ _ (allInv_receive hW h a (by simpa using ha))
      have hsrc1 : (State.drain W fuel (s0.receive W a)).src = s0.src := by rw [drain_src, receive_src]
      obtain ⟨seen', i1, i2, i3, i4⟩ := ih _ _ h1
      refine ⟨seen', i1, by rw [← hsrc1]; exact i2, fun b hb => i3 b (List.mem_cons_of_mem _ hb), ?_⟩
      intro b hb hbs
      cases hb with
      | head => exact i3 a (by simp)
      | tail _ hb' => exact i4 b hb' (by rw [hsrc1]; exact hbs)
    · rw [if_neg ha]
      obtain ⟨seen', i1, i2, i3, i4⟩ := ih _ _ h
      refine ⟨seen', i1, i2, i3, ?_⟩
      intro b hb hbs
      cases hb with
      | head => exact absurd (by simpa using hbs) ha
      | tail _ hb' => exact i4 b hb' hbs

theorem allInv_fresh (W : World) (ver : Nat) (src : List Ref) : AllInv W ver (reopen ver [] src false) [] := by
  have h := allInv_init W ver false
  have : reopen ver [] src false = { State.init ver false with src := src } := rfl
  rw [this]
  exact ⟨inv_src_mono h.1 src (fun x hx => by cases hx), h.2.1, h.2.2⟩

end Pk.Index
