import PkVerif.Lemmas.RefOverlay
import PkVerif.Lemmas.FaultNs
/-! C13: the overlay combinator over layers whose calls may fail transiently.

`overlayImpl` passes a failed upper receive/remove on as `.err` and leaves the tombstones alone; a
failed read of either layer is passed on as `.err`; a failed sub-enumeration in any round of the
refill loop makes the whole enumeration answer `.err`.  In every case the visible contents
(upper ∪ lower minus tombstoned keys) are the before- or the after-state of the operation, and once
both layers are quiet every step is exact again (`overlayFRefines`). -/
namespace Pk.Stores
open Pk Pk.SMap Pk.RefMap

/-! ### reads of a faulty layer (local copies: this file does not depend on FaultMerge) -/

theorem ovlF_out_ne_err (A : SMap Bytes) (op : Op) : out A op ≠ .err := by
  cases op with
  | recv _ _ => simp [out]
  | fetch k => simp only [out]; cases SMap.get A k <;> simp
  | stat k => simp only [out]; cases SMap.get A k <;> simp
  | enum _ _ => simp [out]
  | rm _ => simp [out]

/-- a read leaves the contents alone, failed or not -/
theorem ovlF_read_abs {A A' : SMap Bytes} {o : Out} {op : Op} (h : StepOK A A' o op)
    (hr : next A op = A) : A' = A := by
  rcases h with ⟨_, h⟩ | ⟨_, h | h⟩
  · rw [h, hr]
  · exact h
  · rw [h, hr]

/-! ### the refill loop over faulty layers -/

/-- one sub-enumeration: contents untouched; the answer is the spec's or `.err`; exact when quiet -/
theorem fsub_enum {content : Bytes → Bytes} {I : Impl} (F : FRefines content I) (s : I.σ)
    (h : F.Inv s) (c : Bytes) (r : Nat) :
    ∃ s1 o, I.step s (.enum c r) = (s1, o) ∧ F.abs s1 = F.abs s ∧ F.Inv s1 ∧
      (o = .refs (enumOf (F.abs s) c r) ∨ o = .err) ∧
      (F.Quiet s → o = .refs (enumOf (F.abs s) c r) ∧ F.Quiet s1) := by
  obtain ⟨hi, hs, hq⟩ := F.sub s (.enum c r) h trivial
  refine ⟨(I.step s (.enum c r)).1, (I.step s (.enum c r)).2, rfl,
    ovlF_read_abs hs rfl, hi, ?_, fun hQ => ⟨(hq hQ).1, (hq hQ).2.2⟩⟩
  rcases hs with ⟨ho, _⟩ | ⟨ho, _⟩
  · exact Or.inl ho
  · exact Or.inr ho

/-- one round of the loop with `remaining ≠ 0`: either a sub-enumeration failed (impossible when both
layers are quiet) and the loop gives up, or the round is the one of `ovl_round` -/
theorem ovl_round_F {content : Bytes → Bytes} {lower upper : Impl} (Fl : FRefines content lower)
    (Fu : FRefines content upper) (del : SMap Unit) (fuel : Nat) (ls : lower.σ) (us : upper.σ)
    (after : Bytes) (remaining : Nat) (acc : List (Bytes × Nat))
    (hl : Fl.Inv ls) (hu : Fu.Inv us) (hr : remaining ≠ 0) :
    ∃ ls1 us1, Fl.abs ls1 = Fl.abs ls ∧ Fu.abs us1 = Fu.abs us ∧ Fl.Inv ls1 ∧ Fu.Inv us1 ∧
      (Fl.Quiet ls → Fu.Quiet us → Fl.Quiet ls1 ∧ Fu.Quiet us1) ∧
      ((overlayEnum lower upper del (fuel + 1) ls us after remaining acc = (ls1, us1, none) ∧
          ¬ (Fl.Quiet ls ∧ Fu.Quiet us)) ∨
        overlayEnum lower upper del (fuel + 1) ls us after remaining acc =
          match (enumOf (union (Fu.abs us) (Fl.abs ls)) after remaining).getLast? with
          | none => (ls1, us1, some acc)
          | some last =>
            overlayEnum lower upper del fuel ls1 us1 last.1
              (remaining - ((enumOf (union (Fu.abs us) (Fl.abs ls)) after remaining).filter
                (fun p => !has del p.1)).length)
              (acc ++ (enumOf (union (Fu.abs us) (Fl.abs ls)) after remaining).filter
                (fun p => !has del p.1))) := by
  obtain ⟨ls1, o1, h1, ha1, hi1, ho1, hq1⟩ := fsub_enum Fl ls hl after remaining
  obtain ⟨us1, o2, h2, ha2, hi2, ho2, hq2⟩ := fsub_enum Fu us hu after remaining
  refine ⟨ls1, us1, ha1, ha2, hi1, hi2, fun hQl hQu => ⟨(hq1 hQl).2, (hq2 hQu).2⟩, ?_⟩
  rw [overlayEnum]
  simp only [hr, if_false, h1, h2]
  rcases ho1 with rfl | rfl
  · rcases ho2 with rfl | rfl
    · right
      simp only
      rw [enum2_spec (Fl.good ls hl) (Fu.good us hu),
        union_comm_good (Fl.good ls hl) (Fu.good us hu)]
      cases (enumOf (union (Fu.abs us) (Fl.abs ls)) after remaining).getLast? <;> rfl
    · left
      refine ⟨rfl, fun hQ => ?_⟩
      have := (hq2 hQ.2).1
      cases this
  · left
    refine ⟨rfl, fun hQ => ?_⟩
    have := (hq1 hQ.1).1
    cases this

/-- **the refill loop over faulty layers, any fuel**: the layers' contents and invariants survive; the
answer is `none` (a sub-enumeration failed, or the fuel ran out) or exactly the spec's list; and with
both layers quiet and enough fuel it is the spec's list, the layers staying quiet -/
theorem overlayEnum_F {content : Bytes → Bytes} {lower upper : Impl}
    (Fl : FRefines content lower) (Fu : FRefines content upper) (del : SMap Unit) :
    ∀ (fuel : Nat) (ls : lower.σ) (us : upper.σ) (after : Bytes) (remaining : Nat)
      (acc : List (Bytes × Nat)), Fl.Inv ls → Fu.Inv us →
      ∃ ls' us' r, overlayEnum lower upper del fuel ls us after remaining acc = (ls', us', r) ∧
        Fl.abs ls' = Fl.abs ls ∧ Fu.abs us' = Fu.abs us ∧ Fl.Inv ls' ∧ Fu.Inv us' ∧
        (r = none ∨ r = some (acc ++ ((entriesAfter (union (Fu.abs us) (Fl.abs ls)) after).filter
            (fun p => !has del p.1)).take remaining)) ∧
        (Fl.Quiet ls → Fu.Quiet us → 1 ≤ fuel →
          (remaining ≠ 0 → entriesAfter (union (Fu.abs us) (Fl.abs ls)) after ≠ [] →
            tombAfter del (union (Fu.abs us) (Fl.abs ls)) after + 2 ≤ fuel) →
          r = some (acc ++ ((entriesAfter (union (Fu.abs us) (Fl.abs ls)) after).filter
            (fun p => !has del p.1)).take remaining) ∧ Fl.Quiet ls' ∧ Fu.Quiet us') := by
  intro fuel
  induction fuel with
  | zero =>
    intro ls us after remaining acc hl hu
    exact ⟨ls, us, none, rfl, rfl, rfl, hl, hu, Or.inl rfl, fun _ _ h => by cases h⟩
  | succ f ih =>
    intro ls us after remaining acc hl hu
    by_cases hr : remaining = 0
    · subst hr
      refine ⟨ls, us, some acc, ?_, rfl, rfl, hl, hu, Or.inr (by simp),
        fun hQl hQu _ _ => ⟨by simp, hQl, hQu⟩⟩
      rw [overlayEnum]; simp
    · obtain ⟨ls1, us1, ha1, ha2, hi1, hi2, hq12, hstep⟩ :=
        ovl_round_F Fl Fu del f ls us after remaining acc hl hu hr
      have hUk : KAsc (union (Fu.abs us) (Fl.abs ls)) := kasc_union _ (Fl.good ls hl).1
      have hU1 : union (Fu.abs us1) (Fl.abs ls1) = union (Fu.abs us) (Fl.abs ls) := by rw [ha2, ha1]
      obtain ⟨U, hU⟩ : ∃ U, U = union (Fu.abs us) (Fl.abs ls) := ⟨_, rfl⟩
      rw [← hU] at hstep hUk hU1 ⊢
      rcases hstep with ⟨hbad, hnq⟩ | hstep
      · exact ⟨ls1, us1, none, hbad, ha1, ha2, hi1, hi2, Or.inl rfl,
          fun hQl hQu => absurd ⟨hQl, hQu⟩ hnq⟩
      rw [hstep, enumOf_eq_take]
      cases hg : ((entriesAfter U after).take remaining).getLast? with
      | none =>
        have h0 : (entriesAfter U after).take remaining = [] := List.getLast?_eq_none_iff.mp hg
        have hE : entriesAfter U after = [] := by
          rcases List.take_eq_nil_iff.mp h0 with h | h
          · exact absurd h hr
          · exact h
        exact ⟨ls1, us1, some acc, rfl, ha1, ha2, hi1, hi2, Or.inr (by simp [hE]),
          fun hQl hQu _ _ => ⟨by simp [hE], hq12 hQl hQu⟩⟩
      | some last =>
        obtain ⟨ini, hini⟩ := List.getLast?_eq_some_iff.mp hg
        have hdrop := entriesAfter_last hUk after remaining ini last hini
        have hne : entriesAfter U after ≠ [] := by
          intro h; rw [h] at hini; simp at hini
        have hcond : tombAfter del U after + 2 ≤ f + 1 →
            remaining - (((entriesAfter U after).take remaining).filter
              (fun p => !has del p.1)).length ≠ 0 →
            entriesAfter (union (Fu.abs us1) (Fl.abs ls1)) last.1 ≠ [] →
            tombAfter del (union (Fu.abs us1) (Fl.abs ls1)) last.1 + 2 ≤ f := by
          rw [hU1, hdrop]
          intro hT hrem hrest
          have hlen : ((entriesAfter U after).take remaining).length = remaining := by
            rw [List.length_take]
            have : ¬ (entriesAfter U after).length ≤ remaining := fun h =>
              hrest (List.drop_eq_nil_iff.mpr h)
            omega
          have hpart := length_filter_add (fun p : Bytes × Nat => has del p.1)
            ((entriesAfter U after).take remaining)
          have hsp := tomb_split del (entriesAfter U after) remaining
          unfold tombAfter at hT ⊢
          rw [hdrop]
          omega
        obtain ⟨ls', us', r, hres, hb1, hb2, hj1, hj2, hr1, hr2⟩ :=
          ih ls1 us1 last.1 (remaining - (((entriesAfter U after).take remaining).filter
              (fun p => !has del p.1)).length)
            (acc ++ ((entriesAfter U after).take remaining).filter
              (fun p => !has del p.1)) hi1 hi2
        rw [hU1, hdrop] at hr1
        have hfin : acc ++ ((entriesAfter U after).take remaining).filter (fun p => !has del p.1) ++
              (((entriesAfter U after).drop remaining).filter (fun p => !has del p.1)).take
                (remaining - (((entriesAfter U after).take remaining).filter
                  (fun p => !has del p.1)).length) =
            acc ++ ((entriesAfter U after).filter (fun p => !has del p.1)).take remaining := by
          rw [filter_take_split _ (entriesAfter U after) remaining, List.append_assoc]
        rw [hfin] at hr1
        refine ⟨ls', us', r, hres, hb1.trans ha1, hb2.trans ha2, hj1, hj2, hr1, ?_⟩
        intro hQl hQu _ hfuel
        have hT := hfuel hr hne
        obtain ⟨hQl1, hQu1⟩ := hq12 hQl hQu
        obtain ⟨hrr, hq'⟩ := hr2 hQl1 hQu1 (by omega) (hcond hT)
        rw [hU1, hdrop, hfin] at hrr
        exact ⟨hrr, hq'⟩

/-! ### map algebra: the upper layer took a step the overlay did not acknowledge -/

/-- the upper layer performed `op` but answered an error, so the tombstones were not updated: the
visible map is at its before- or its after-state -/
theorem ovl_abs_upper_only {content : Bytes → Bytes} {A B : SMap Bytes} {D : SMap Unit}
    (hA : Good content A) (hB : Good content B) (hD : KAsc D) (op : Op) (hop : op.WK content) :
    (union (next A op) B).filter (fun p => !has D p.1) = (union A B).filter (fun p => !has D p.1) ∨
    (union (next A op) B).filter (fun p => !has D p.1) =
      next ((union A B).filter (fun p => !has D p.1)) op := by
  have hU : Good content (union A B) := good_union hA hB
  have hM := good_live D hU
  cases op with
  | fetch _ => exact Or.inl rfl
  | stat _ => exact Or.inl rfl
  | enum _ _ => exact Or.inl rfl
  | recv k v =>
    by_cases hd : has D k = true
    · left
      apply SMap.ext (kasc_filter _ (kasc_union _ hB.1)) hM.1
      intro x
      rw [get_live _ (kasc_union _ hB.1), get_union, get_next_recv hA hop.1, get_live D hU.1,
        get_union]
      by_cases hx : x = k
      · subst hx; simp [hd]
      · simp [hx]
    · right
      have hd' : has D k = false := Bool.eq_false_iff.mpr hd
      have := ovl_abs_next hA hB hD (.recv k v) hop
      simp only [ovlDel, del_eq_self k hD hd'] at this
      exact this
  | rm k =>
    have hext : ∀ x, x ≠ k →
        SMap.get ((union (next A (.rm k)) B).filter (fun p => !has D p.1)) x =
          SMap.get ((union A B).filter (fun p => !has D p.1)) x := by
      intro x hx
      simp only [next]
      rw [get_live _ (kasc_union _ hB.1), get_union, get_del k hA.1, get_live D hU.1, get_union]
      simp [hx]
    have hk : SMap.get ((union (next A (.rm k)) B).filter (fun p => !has D p.1)) k =
        if has D k then none else SMap.get B k := by
      simp only [next]
      rw [get_live _ (kasc_union _ hB.1), get_union, get_del k hA.1]
      simp
    by_cases hkeep : has D k = true ∨ (SMap.get B k).isSome = true
    · left
      apply SMap.ext (kasc_filter _ (kasc_union _ hB.1)) hM.1
      intro x
      by_cases hx : x = k
      · subst hx
        rw [hk, get_live D hU.1, get_union]
        by_cases hd : has D x = true
        · simp [hd]
        · have hb : (SMap.get B x).isSome = true := by
            rcases hkeep with h | h
            · exact absurd h hd
            · exact h
          simp only [hd]
          cases hgb : SMap.get B x with
          | none => simp [hgb] at hb
          | some w =>
            cases hga : SMap.get A x with
            | none => rfl
            | some u => simp only [(hA.2 x u hga).1, (hB.2 x w hgb).1]
      · exact hext x hx
    · right
      have hd : has D k = false := Bool.eq_false_iff.mpr (fun h => hkeep (Or.inl h))
      have hb : SMap.get B k = none := by
        cases hgb : SMap.get B k with
        | none => rfl
        | some w => exact absurd (Or.inr (by simp [hgb])) hkeep
      apply SMap.ext (kasc_filter _ (kasc_union _ hB.1)) (kasc_del _ hM.1)
      intro x
      show _ = SMap.get (SMap.del k _) x
      rw [get_del k hM.1]
      by_cases hx : x = k
      · subst hx
        rw [hk]; simp [hd, hb]
      · simp only [hx, if_false]; exact hext x hx

/-! ### one step of the overlay over faulty layers -/

section FStep
variable {content : Bytes → Bytes} {lower upper : Impl}

/-- the visible map: upper wins, tombstoned keys hidden -/
def ovlFAbs (Fl : FRefines content lower) (Fu : FRefines content upper)
    (s : (overlayImpl lower upper).σ) : SMap Bytes :=
  (union (Fu.abs s.2.1) (Fl.abs s.1)).filter (fun p => !has s.2.2 p.1)

def ovlFInv (Fl : FRefines content lower) (Fu : FRefines content upper)
    (s : (overlayImpl lower upper).σ) : Prop :=
  Fl.Inv s.1 ∧ Fu.Inv s.2.1 ∧ KAsc s.2.2

def ovlFQuiet (Fl : FRefines content lower) (Fu : FRefines content upper)
    (s : (overlayImpl lower upper).σ) : Prop :=
  Fl.Quiet s.1 ∧ Fu.Quiet s.2.1

/-- what one step `s --op--> r` of the overlay owes -/
def OvlFStep (Fl : FRefines content lower) (Fu : FRefines content upper)
    (s : (overlayImpl lower upper).σ) (op : Op) (r : (overlayImpl lower upper).σ × Out) : Prop :=
  ovlFInv Fl Fu r.1 ∧
    StepSpec (ovlFAbs Fl Fu s) (ovlFAbs Fl Fu r.1) r.2 op (ovlFQuiet Fl Fu s) (ovlFQuiet Fl Fu r.1)

theorem ovlF_good (Fl : FRefines content lower) (Fu : FRefines content upper)
    (s : (overlayImpl lower upper).σ) (h : ovlFInv Fl Fu s) : Good content (ovlFAbs Fl Fu s) :=
  good_live _ (good_union (Fu.good _ h.2.1) (Fl.good _ h.1))

theorem ovl_recv_F (Fl : FRefines content lower) (Fu : FRefines content upper)
    (ls : lower.σ) (us : upper.σ) (del : SMap Unit) (k v : Bytes)
    (hs : ovlFInv Fl Fu (ls, us, del)) (hop : (Op.recv k v).WK content) :
    OvlFStep Fl Fu (ls, us, del) (.recv k v) ((overlayImpl lower upper).step (ls, us, del) (.recv k v)) := by
  obtain ⟨hl, hu, hD⟩ := hs
  have hA := Fu.good us hu
  have hB := Fl.good ls hl
  obtain ⟨hi, hst, hq⟩ := Fu.sub us (.recv k v) hu hop
  simp only [overlayImpl]
  generalize upper.step us (.recv k v) = pr at hi hst hq
  obtain ⟨us1, o⟩ := pr
  simp only at hi hst hq
  rcases hst with ⟨ho, ha⟩ | ⟨ho, ha⟩
  · simp only [out] at ho
    subst ho
    refine ⟨⟨hl, hi, kasc_del _ hD⟩, StepSpec.exact rfl ?_ (fun hQ => ⟨hQ.1, (hq hQ.2).2.2⟩)⟩
    show (union (Fu.abs us1) (Fl.abs ls)).filter _ = _
    rw [ha]
    exact ovl_abs_next hA hB hD (.recv k v) hop
  · subst ho
    refine ⟨⟨hl, hi, hD⟩, Or.inr ⟨rfl, ?_⟩, fun hQ => ?_⟩
    · show (union (Fu.abs us1) (Fl.abs ls)).filter _ = _ ∨ (union (Fu.abs us1) (Fl.abs ls)).filter _ = _
      rcases ha with ha | ha
      · rw [ha]; exact Or.inl rfl
      · rw [ha]; exact ovl_abs_upper_only hA hB hD (.recv k v) hop
    · have := (hq hQ.2).1
      simp [out] at this

theorem ovl_rm_F (Fl : FRefines content lower) (Fu : FRefines content upper)
    (ls : lower.σ) (us : upper.σ) (del : SMap Unit) (k : Bytes)
    (hs : ovlFInv Fl Fu (ls, us, del)) :
    OvlFStep Fl Fu (ls, us, del) (.rm k) ((overlayImpl lower upper).step (ls, us, del) (.rm k)) := by
  obtain ⟨hl, hu, hD⟩ := hs
  have hA := Fu.good us hu
  have hB := Fl.good ls hl
  obtain ⟨hi, hst, hq⟩ := Fu.sub us (.rm k) hu trivial
  simp only [overlayImpl]
  generalize upper.step us (.rm k) = pr at hi hst hq
  obtain ⟨us1, o⟩ := pr
  simp only at hi hst hq
  rcases hst with ⟨ho, ha⟩ | ⟨ho, ha⟩
  · simp only [out] at ho
    subst ho
    refine ⟨⟨hl, hi, kasc_ins _ _ hD⟩, StepSpec.exact rfl ?_ (fun hQ => ⟨hQ.1, (hq hQ.2).2.2⟩)⟩
    show (union (Fu.abs us1) (Fl.abs ls)).filter _ = _
    rw [ha]
    exact ovl_abs_next hA hB hD (.rm k) trivial
  · subst ho
    refine ⟨⟨hl, hi, hD⟩, Or.inr ⟨rfl, ?_⟩, fun hQ => ?_⟩
    · show (union (Fu.abs us1) (Fl.abs ls)).filter _ = _ ∨ (union (Fu.abs us1) (Fl.abs ls)).filter _ = _
      rcases ha with ha | ha
      · rw [ha]; exact Or.inl rfl
      · rw [ha]; exact ovl_abs_upper_only hA hB hD (.rm k) trivial
    · have := (hq hQ.2).1
      simp [out] at this

/-- fetch and stat: the same code over the two layers -/
theorem ovl_read_F (Fl : FRefines content lower) (Fu : FRefines content upper)
    (ls : lower.σ) (us : upper.σ) (del : SMap Unit) (k : Bytes) (op : Op)
    (hop : op = .fetch k ∨ op = .stat k) (hs : ovlFInv Fl Fu (ls, us, del)) :
    OvlFStep Fl Fu (ls, us, del) op ((overlayImpl lower upper).step (ls, us, del) op) := by
  obtain ⟨hl, hu, hD⟩ := hs
  have hD : KAsc del := hD
  have hB := (Fl.good ls hl).1
  have hwk : op.WK content := by rcases hop with rfl | rfl <;> trivial
  have hnext : ∀ m, next m op = m := by rcases hop with rfl | rfl <;> intro m <;> rfl
  obtain ⟨hi, hst, hq⟩ := Fu.sub us op hu hwk
  have hau := ovlF_read_abs hst (hnext _)
  obtain ⟨hi2, hst2, hq2⟩ := Fl.sub ls op hl hwk
  have hal := ovlF_read_abs hst2 (hnext _)
  generalize hpr : upper.step us op = pr at hi hst hq hau
  obtain ⟨us1, o⟩ := pr
  simp only at hi hst hq hau
  have hout : has del k = false → SMap.get (Fu.abs us) k = none →
      out (ovlFAbs Fl Fu (ls, us, del)) op = out (Fl.abs ls) op := by
    intro hd' hg
    rcases hop with rfl | rfl
    · exact (out_live_lower del hB hd' hg).1
    · exact (out_live_lower del hB hd' hg).2
  have habsL : ovlFAbs Fl Fu ((lower.step ls op).1, us1, del) = ovlFAbs Fl Fu (ls, us, del) := by
    show (union (Fu.abs us1) (Fl.abs (lower.step ls op).1)).filter _ = _
    rw [hau, hal]; rfl
  have habsU : ovlFAbs Fl Fu (ls, us1, del) = ovlFAbs Fl Fu (ls, us, del) := by
    show (union (Fu.abs us1) (Fl.abs ls)).filter _ = _
    rw [hau]; rfl
  rcases hop with rfl | rfl
  all_goals
    simp only [overlayImpl]
    by_cases hd : has del k = true
    · simp only [hd, if_true]
      refine ⟨⟨hl, hu, hD⟩, StepSpec.exact ?_ rfl id⟩
      simp [ovlFAbs, out, get_live del (kasc_union _ hB), hd]
    · have hd' : has del k = false := Bool.eq_false_iff.mpr hd
      simp only [hd', Bool.false_eq_true, if_false, hpr]
      rcases hst with ⟨ho, _⟩ | ⟨ho, _⟩
      · cases hg : SMap.get (Fu.abs us) k with
        | some v =>
          simp only [out, hg] at ho
          subst ho
          refine ⟨⟨hl, hi, hD⟩, StepSpec.exact ?_ ?_ (fun hQ => ⟨hQ.1, (hq hQ.2).2.2⟩)⟩
          · simp [ovlFAbs, out, get_live del (kasc_union _ hB), hd', get_union, hg]
          · exact habsU
        | none =>
          simp only [out, hg] at ho
          subst ho
          simp only
          have hout := hout hd' hg
          refine ⟨⟨hi2, hi, hD⟩, ?_, fun hQ => ?_⟩
          · rcases hst2 with ⟨ho2, _⟩ | ⟨ho2, _⟩
            · exact Or.inl ⟨ho2.trans hout.symm, habsL⟩
            · exact Or.inr ⟨ho2, Or.inl habsL⟩
          · exact ⟨(hq2 hQ.1).1.trans hout.symm, habsL, (hq2 hQ.1).2.2, (hq hQ.2).2.2⟩
      · subst ho
        refine ⟨⟨hl, hi, hD⟩, Or.inr ⟨rfl, Or.inl habsU⟩, fun hQ => ?_⟩
        exact absurd (hq hQ.2).1 (Ne.symm (ovlF_out_ne_err _ _))

theorem ovl_enum_F (Fl : FRefines content lower) (Fu : FRefines content upper)
    (ls : lower.σ) (us : upper.σ) (del : SMap Unit) (after : Bytes) (limit : Nat)
    (hs : ovlFInv Fl Fu (ls, us, del)) :
    OvlFStep Fl Fu (ls, us, del) (.enum after limit)
      ((overlayImpl lower upper).step (ls, us, del) (.enum after limit)) := by
  obtain ⟨hl, hu, hD⟩ := hs
  have hD : KAsc del := hD
  obtain ⟨ls', us', r, hres, ha1, ha2, hi1, hi2, hr1, hr2⟩ :=
    overlayEnum_F Fl Fu del (del.length + 2) ls us after limit [] hl hu
  have ht := tombAfter_le_del hD (kasc_union (Fu.abs us) (Fl.good ls hl).1) after
  have habs : ovlFAbs Fl Fu (ls', us', del) = ovlFAbs Fl Fu (ls, us, del) := by
    show (union (Fu.abs us') (Fl.abs ls')).filter _ = _
    rw [ha1, ha2]; rfl
  have hspec : out (ovlFAbs Fl Fu (ls, us, del)) (.enum after limit) =
      .refs ([] ++ ((entriesAfter (union (Fu.abs us) (Fl.abs ls)) after).filter
        (fun p => !has del p.1)).take limit) := by
    simp only [List.nil_append, out, ovlFAbs, enumOf_live]
  simp only [overlayImpl, hres]
  refine ⟨?_, ?_, fun hQ => ?_⟩
  · cases r <;> exact ⟨hi1, hi2, hD⟩
  · rcases hr1 with rfl | rfl
    · exact Or.inr ⟨rfl, Or.inl habs⟩
    · exact Or.inl ⟨hspec.symm, habs⟩
  · obtain ⟨hrr, hq'⟩ := hr2 hQ.1 hQ.2 (by omega) (fun _ _ => by omega)
    subst hrr
    exact ⟨hspec.symm, habs, hq'⟩

theorem ovl_step_F (Fl : FRefines content lower) (Fu : FRefines content upper)
    (s : (overlayImpl lower upper).σ) (op : Op) (hs : ovlFInv Fl Fu s) (hop : op.WK content) :
    OvlFStep Fl Fu s op ((overlayImpl lower upper).step s op) := by
  obtain ⟨ls, us, del⟩ := s
  cases op with
  | recv k v => exact ovl_recv_F Fl Fu ls us del k v hs hop
  | rm k => exact ovl_rm_F Fl Fu ls us del k hs
  | fetch k => exact ovl_read_F Fl Fu ls us del k _ (Or.inl rfl) hs
  | stat k => exact ovl_read_F Fl Fu ls us del k _ (Or.inr rfl) hs
  | enum after limit => exact ovl_enum_F Fl Fu ls us del after limit hs

end FStep

/-- **overlay over fault-tolerant layers is fault-tolerant**: every step keeps the invariant and is
exact or answers `.err` with the visible contents at the before- or after-state of the operation;
with both layers quiet every step is exact and the layers stay quiet. -/
def overlayFRefines {content : Bytes → Bytes} {lower upper : Impl}
    (Fl : FRefines content lower) (Fu : FRefines content upper) :
    FRefines content (overlayImpl lower upper) where
  abs := ovlFAbs Fl Fu
  Inv := ovlFInv Fl Fu
  Quiet := ovlFQuiet Fl Fu
  init_inv := ⟨Fl.init_inv, Fu.init_inv, kasc_nil⟩
  init_abs := by
    show (union (Fu.abs upper.init) (Fl.abs lower.init)).filter _ = []
    rw [Fu.init_abs, Fl.init_abs]
    rfl
  good := ovlF_good Fl Fu
  step_ok := fun s op h hop => ⟨(ovl_step_F Fl Fu s op h hop).1, (ovl_step_F Fl Fu s op h hop).2.1⟩
  quiet_step := fun s op h hq hop => (ovl_step_F Fl Fu s op h hop).2.2 hq

end Pk.Stores
