import PkVerif.Lemmas.RefNs
import PkVerif.Spec.Faults
/-! C13: the namespace combinator over a master store whose calls may fail transiently.

`nsImpl` calls its master only in `recv` (after an inventory miss) and `fetch` (after an inventory hit);
a master error is passed on as `.err` and the inventory is left untouched, so the abstract contents
(`mapK content inventory`) are exactly the before-state.  `stat`, `rm` and `enum` never touch the master
and are always exact. -/
namespace Pk.Stores
open Pk Pk.SMap Pk.RefMap

/-- invariant of namespace over a fault-tolerant master: every inventory row names a blob the master's
abstract contents hold, with its content and true size -/
def nsFInv {content : Bytes → Bytes} {master : Impl} (F : FRefines content master)
    (s : (nsImpl master).σ) : Prop :=
  F.Inv s.2 ∧ KAsc s.1 ∧
  ∀ k sz, SMap.get s.1 k = some sz →
    SMap.get (F.abs s.2) k = some (content k) ∧ (content k).length = sz ∧ k ≠ []

/-- what one step of a combinator owes: the faulted-or-exact contract, and exactness when quiet -/
def StepSpec (A A' : SMap Bytes) (o : Out) (op : Op) (q q' : Prop) : Prop :=
  StepOK A A' o op ∧ (q → o = out A op ∧ A' = next A op ∧ q')

theorem StepSpec.exact {A A' : SMap Bytes} {o : Out} {op : Op} {q q' : Prop}
    (ho : o = out A op) (ha : A' = next A op) (hq : q → q') : StepSpec A A' o op q q' :=
  ⟨Or.inl ⟨ho, ha⟩, fun h => ⟨ho, ha, hq h⟩⟩

/-- a row the master holds with its content survives a (possibly failed) well-keyed receive -/
theorem get_next_recv_keep {content : Bytes → Bytes} {m : SMap Bytes} (k v k' : Bytes)
    (hv : v = content k) (h : SMap.get m k' = some (content k')) :
    SMap.get (next m (.recv k v)) k' = some (content k') := by
  simp only [next]
  by_cases hh : has m k = true
  · simp only [hh, if_true]; exact h
  · simp only [hh, Bool.false_eq_true, if_false, get_ins]
    by_cases hk : k' = k
    · subst hk; simp [hv]
    · simp only [hk, if_false]; exact h

/-- what a sub-store call gives: invariant, step contract, exactness when quiet -/
theorem _root_.Pk.RefMap.FRefines.sub {content : Bytes → Bytes} {I : Impl} (F : FRefines content I) (s : I.σ) (op : Op)
    (h : F.Inv s) (hop : op.WK content) :
    F.Inv (I.step s op).1 ∧
    StepSpec (F.abs s) (F.abs (I.step s op).1) (I.step s op).2 op (F.Quiet s) (F.Quiet (I.step s op).1) :=
  ⟨(F.step_ok s op h hop).1, (F.step_ok s op h hop).2, fun hq => F.quiet_step s op h hq hop⟩

theorem ns_recv_F {content : Bytes → Bytes} {master : Impl} (F : FRefines content master)
    (inv : SMap Nat) (ms : master.σ) (k v : Bytes) (hI : nsFInv F (inv, ms))
    (hop : (Op.recv k v).WK content) :
    nsFInv F ((nsImpl master).step (inv, ms) (.recv k v)).1 ∧
    StepSpec (mapK content inv) (mapK content ((nsImpl master).step (inv, ms) (.recv k v)).1.1)
      ((nsImpl master).step (inv, ms) (.recv k v)).2 (.recv k v)
      (F.Quiet ms) (F.Quiet ((nsImpl master).step (inv, ms) (.recv k v)).1.2) := by
  obtain ⟨hR, hK, hRows⟩ := hI
  obtain ⟨hv, hkne⟩ := hop
  obtain ⟨hi, hs, hq⟩ := F.sub ms (.recv k v) hR ⟨hv, hkne⟩
  simp only [nsImpl]
  by_cases hh : has inv k = true
  · simp only [hh, if_true]
    exact ⟨⟨hR, hK, hRows⟩, StepSpec.exact rfl (by simp [next, has_mapK, hh]) id⟩
  · have hh' : has inv k = false := by cases h : has inv k <;> simp_all
    generalize master.step ms (.recv k v) = pr at hi hs hq
    obtain ⟨ms', o⟩ := pr
    simp only at hi hs hq
    simp only [hh', Bool.false_eq_true, if_false]
    -- rows survive whatever the master did
    have hkeep : ∀ k' sz, SMap.get inv k' = some sz →
        SMap.get (F.abs ms') k' = some (content k') ∧ (content k').length = sz ∧ k' ≠ [] := by
      intro k' sz hg
      obtain ⟨h1, h2, h3⟩ := hRows k' sz hg
      refine ⟨?_, h2, h3⟩
      rcases hs with ⟨_, ha⟩ | ⟨_, ha | ha⟩
      · rw [ha]; exact get_next_recv_keep k v k' hv h1
      · rw [ha]; exact h1
      · rw [ha]; exact get_next_recv_keep k v k' hv h1
    rcases hs with ⟨ho, ha⟩ | ⟨ho, _⟩
    · simp only [out] at ho
      subst ho
      have hst : mapK content (ins k v.length inv) = next (mapK content inv) (.recv k v) := by
        simp only [next, has_mapK, hh', Bool.false_eq_true, if_false, mapK_ins, hv]
      refine ⟨⟨hi, kasc_ins _ _ hK, ?_⟩, StepSpec.exact rfl hst (fun hQ => (hq hQ).2.2)⟩
      intro k' sz hg
      rw [get_ins] at hg
      by_cases hk : k' = k
      · subst hk
        simp only [if_true] at hg
        injection hg with hg
        refine ⟨?_, by rw [← hg, hv], hkne⟩
        rw [ha]
        simp only [next]
        by_cases hm : has (F.abs ms) k' = true
        · simp only [hm, if_true]
          cases hgm : SMap.get (F.abs ms) k' with
          | none => simp [has, hgm] at hm
          | some w => rw [((F.good ms hR).2 _ _ hgm).1]
        · have : has (F.abs ms) k' = false := by cases h : has (F.abs ms) k' <;> simp_all
          simp only [this, Bool.false_eq_true, if_false, get_ins, if_true, hv]
      · simp only [hk, if_false] at hg
        exact hkeep k' sz hg
    · subst ho
      refine ⟨⟨hi, hK, hkeep⟩, Or.inr ⟨rfl, Or.inl rfl⟩, ?_⟩
      intro hQ
      have := (hq hQ).1
      simp [out] at this

theorem ns_fetch_F {content : Bytes → Bytes} {master : Impl} (F : FRefines content master)
    (inv : SMap Nat) (ms : master.σ) (k : Bytes) (hI : nsFInv F (inv, ms)) :
    nsFInv F ((nsImpl master).step (inv, ms) (.fetch k)).1 ∧
    StepSpec (mapK content inv) (mapK content ((nsImpl master).step (inv, ms) (.fetch k)).1.1)
      ((nsImpl master).step (inv, ms) (.fetch k)).2 (.fetch k)
      (F.Quiet ms) (F.Quiet ((nsImpl master).step (inv, ms) (.fetch k)).1.2) := by
  obtain ⟨hR, hK, hRows⟩ := hI
  obtain ⟨hi, hs, hq⟩ := F.sub ms (.fetch k) hR trivial
  simp only [nsImpl]
  cases hg : SMap.get inv k with
  | none =>
    exact ⟨⟨hR, hK, hRows⟩, StepSpec.exact (by simp [out, get_mapK, has, hg]) rfl id⟩
  | some sz =>
    obtain ⟨h1, h2, _⟩ := hRows k sz hg
    generalize master.step ms (.fetch k) = pr at hi hs hq
    obtain ⟨ms', o⟩ := pr
    simp only at hi hs hq
    have habs : F.abs ms' = F.abs ms := by
      rcases hs with ⟨_, ha⟩ | ⟨_, ha | ha⟩ <;> exact ha
    have hrows' : ∀ k' sz, SMap.get inv k' = some sz →
        SMap.get (F.abs ms') k' = some (content k') ∧ (content k').length = sz ∧ k' ≠ [] := by
      rw [habs]; exact hRows
    have hne : ¬ (content k).length ≠ sz := by simp [h2]
    have hout : out (mapK content inv) (.fetch k) = .bytes (content k) := by
      simp [out, get_mapK, has, hg]
    have hexact : o = out (F.abs ms) (.fetch k) → o = .bytes (content k) := by
      intro ho; rw [ho]; simp [out, h1]
    refine ⟨?_, ⟨?_, ?_⟩⟩
    · rcases hs with ⟨ho, _⟩ | ⟨ho, _⟩
      · rw [hexact ho]; simp only [hne, if_false]; exact ⟨hi, hK, hrows'⟩
      · subst ho; exact ⟨hi, hK, hrows'⟩
    · rcases hs with ⟨ho, _⟩ | ⟨ho, _⟩
      · rw [hexact ho]; simp only [hne, if_false]; exact Or.inl ⟨hout.symm, rfl⟩
      · subst ho; exact Or.inr ⟨rfl, Or.inl rfl⟩
    · intro hQ
      obtain ⟨ho, _, hQ'⟩ := hq hQ
      rw [hexact ho]; simp only [hne, if_false]
      exact ⟨hout.symm, rfl, hQ'⟩

/-- `stat`, `rm` and `enum` never call the master: always exact, master state untouched -/
theorem ns_local_F {content : Bytes → Bytes} {master : Impl} (F : FRefines content master)
    (inv : SMap Nat) (ms : master.σ) (op : Op)
    (hop : match op with | .stat _ | .rm _ | .enum _ _ => True | _ => False)
    (hI : nsFInv F (inv, ms)) :
    nsFInv F ((nsImpl master).step (inv, ms) op).1 ∧
    ((nsImpl master).step (inv, ms) op).2 = out (mapK content inv) op ∧
    mapK content ((nsImpl master).step (inv, ms) op).1.1 = next (mapK content inv) op ∧
    ((nsImpl master).step (inv, ms) op).1.2 = ms := by
  obtain ⟨hR, hK, hRows⟩ := hI
  cases op with
  | recv _ _ => cases hop
  | fetch _ => cases hop
  | stat k =>
    simp only [nsImpl]
    cases hg : SMap.get inv k with
    | none =>
      simp only [out, next, get_mapK, has, hg]
      exact ⟨⟨hR, hK, hRows⟩, by simp, trivial, trivial⟩
    | some sz =>
      obtain ⟨_, h2, _⟩ := hRows k sz hg
      simp only [out, next, get_mapK, has, hg]
      exact ⟨⟨hR, hK, hRows⟩, by simp [h2], trivial, trivial⟩
  | rm k =>
    simp only [nsImpl, out, next, mapK_del]
    refine ⟨⟨hR, kasc_del _ hK, ?_⟩, trivial, trivial, trivial⟩
    intro k' sz hg
    rw [get_del k hK] at hg
    by_cases hk : k' = k
    · simp [hk] at hg
    · simp only [hk, if_false] at hg; exact hRows k' sz hg
  | enum after limit =>
    simp only [nsImpl, out, next]
    refine ⟨⟨hR, hK, hRows⟩, ?_, trivial, trivial⟩
    have hne : ∀ p ∈ inv, p.1 ≠ [] := by
      intro p hp
      obtain ⟨k, sz⟩ := p
      exact (hRows k sz (mem_get hK hp)).2.2
    rw [findSkip_eq_filter_gt hK hne]
    unfold enumOf
    rw [mapK_filter, sizes_mapK]
    intro p hp
    exact ns_sizes (fun k sz h => (hRows k sz h).2.1) hK p (List.mem_filter.mp hp).1

theorem ns_step_F {content : Bytes → Bytes} {master : Impl} (F : FRefines content master)
    (s : (nsImpl master).σ) (op : Op) (hI : nsFInv F s) (hop : op.WK content) :
    nsFInv F ((nsImpl master).step s op).1 ∧
    StepSpec (mapK content s.1) (mapK content ((nsImpl master).step s op).1.1)
      ((nsImpl master).step s op).2 op (F.Quiet s.2) (F.Quiet ((nsImpl master).step s op).1.2) := by
  obtain ⟨inv, ms⟩ := s
  cases op with
  | recv k v => exact ns_recv_F F inv ms k v hI hop
  | fetch k => exact ns_fetch_F F inv ms k hI
  | stat k =>
    obtain ⟨h1, h2, h3, h4⟩ := ns_local_F F inv ms (.stat k) trivial hI
    exact ⟨h1, StepSpec.exact h2 h3 (by rw [h4]; exact id)⟩
  | rm k =>
    obtain ⟨h1, h2, h3, h4⟩ := ns_local_F F inv ms (.rm k) trivial hI
    exact ⟨h1, StepSpec.exact h2 h3 (by rw [h4]; exact id)⟩
  | enum after limit =>
    obtain ⟨h1, h2, h3, h4⟩ := ns_local_F F inv ms (.enum after limit) trivial hI
    exact ⟨h1, StepSpec.exact h2 h3 (by rw [h4]; exact id)⟩

/-- namespace over a fault-tolerant master is fault-tolerant -/
def nsFRefines {content : Bytes → Bytes} {master : Impl} (F : FRefines content master) :
    FRefines content (nsImpl master) where
  abs := fun s => mapK content s.1
  Inv := nsFInv F
  Quiet := fun s => F.Quiet s.2
  init_inv := ⟨F.init_inv, kasc_nil, by intro k sz h; simp [nsImpl, SMap.get] at h⟩
  init_abs := rfl
  good := by
    rintro ⟨inv, ms⟩ ⟨_, hK, hRows⟩
    refine ⟨kasc_mapK _ hK, ?_⟩
    intro k v h
    rw [get_mapK] at h
    cases hg : SMap.get inv k with
    | none => simp [has, hg] at h
    | some sz =>
      simp [has, hg] at h
      exact ⟨h.symm, (hRows k sz hg).2.2⟩
  step_ok := fun s op h hop => ⟨(ns_step_F F s op h hop).1, (ns_step_F F s op h hop).2.1⟩
  quiet_step := fun s op h hq hop => (ns_step_F F s op h hop).2.2 hq

end Pk.Stores
