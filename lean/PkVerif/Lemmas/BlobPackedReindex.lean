import PkVerif.Lemmas.BlobPackedWhole
/-!
# Lemmas for C04, part 5: `reindex` rebuilds, from the zips alone, the `w:` rows a complete pack wrote
-/
namespace Pk.BP
open Pk Pk.SMap

/-! ## which zips are in `large` after a complete pack -/

theorem packLoop_large {C : Ref → Bytes} (env : PackEnv) (nameOK : Bool) (tbl : List Chunk) (whole : Ref) (wsz : Nat)
    (s0 : St) :
    ∀ (fuel : Nat) (s : St) (bud : Budget) (remain : List Ref) (n wbw : Nat) (trunc : Option Ref)
      (lays : List ZipLayout) (t o : Nat) (zs : List ZipRec),
      Inv C s → TblOK C s tbl →
      (∀ k z, get s.large k = some z → get s0.large k = some z ∨ ∃ p ∈ zs, p.zr = k) →
      (packLoop env nameOK tbl whole wsz fuel s bud remain n wbw trunc lays t o zs).ok = true →
      ∀ k z, get (packLoop env nameOK tbl whole wsz fuel s bud remain n wbw trunc lays t o zs).s.large k = some z →
        get s0.large k = some z ∨
          ∃ p ∈ (packLoop env nameOK tbl whole wsz fuel s bud remain n wbw trunc lays t o zs).zips, p.zr = k
  | 0, s, bud, remain, n, wbw, trunc, lays, t, o, zs, _, _, _, hok => by
    simp only [packLoop] at hok; cases hok
  | fuel + 1, s, bud, remain, n, wbw, trunc, lays, t, o, zs, h, ht, hb, hok => by
    unfold packLoop at hok ⊢
    by_cases hre : remain.isEmpty = true
    · simp only [hre, if_true] at hok ⊢
      by_cases hb1 : bud.take.1 = true
      · simp only [hb1, if_true] at hok ⊢
        exact hb
      · simp only [hb1, Bool.false_eq_true, if_false] at hok
    · simp only [hre, Bool.false_eq_true, if_false] at hok ⊢
      have hs := writeAZip_sound (C := C) env nameOK tbl whole wsz s bud remain n wbw trunc lays.head? h ht
      split at hok
      · cases hok
      · rename_i tr heq
        exact packLoop_large env nameOK tbl whole wsz s0 fuel s bud remain n wbw _ _ _ _ zs h ht hb hok
      · rename_i s' bud' zr k len ds zsz heq
        rw [heq] at hs
        have sf := writeAZip_stored (C := C) env nameOK tbl whole wsz s bud remain n wbw trunc lays.head? h ht s' bud' zr k len ds zsz heq
        obtain ⟨⟨l, f, _, _, _, _, _, _, _, _, _, _, _, _, _, _, _, hlarge⟩, _⟩ := sf
        refine packLoop_large env nameOK tbl whole wsz s0 fuel s' bud' _ _ _ _ _ _ _ _ hs.1 (ht.sameView hs.2) ?_ hok
        intro k0 z0 hk0
        rw [hlarge] at hk0
        rcases get_putLarge_cases s zr _ k0 z0 hk0 with hk | hk
        · rcases hb k0 z0 hk with hh | ⟨p, hp, hpz⟩
          · exact Or.inl hh
          · exact Or.inr ⟨p, List.mem_append_left _ hp, hpz⟩
        · exact Or.inr ⟨_, List.mem_append_right _ (List.mem_singleton.mpr rfl), hk.symm⟩

/-! ## sorting a whole ref's zips by part index -/

/-- the `zipMetaInfo` of a stored zip -/
def mkZMI (whole : Ref) (wsz : Nat) (p : ZipRec) : ZMI := ⟨p.idx, p.zr, p.zsize, p.ds, p.len, wsz, whole⟩

theorem running_sumSizes : ∀ (es : List Entry) (o tot : Nat), Running es o tot → o + sumSizes es = tot
  | [], o, tot, h => by simpa [Running, sumSizes] using h
  | e :: es, o, tot, h => by
    obtain ⟨_, h2⟩ := h
    have := running_sumSizes es _ _ h2
    simp only [sumSizes]; omega

theorem zmiOf_good {C : Ref → Bytes} {zipMax : Nat} {allBytes : Bytes} {whole : Ref} {wsz : Nat} {s : St} {p : ZipRec}
    (h : GoodZip C zipMax allBytes whole wsz s p) :
    ∃ z, get s.large p.zr = some z ∧ zmiOf p.zr z = mkZMI whole wsz p := by
  obtain ⟨z, hz, _, _, hw, hws, hidx, hds, hsz, hlen, _, _, hrun⟩ := h
  refine ⟨z, hz, ?_⟩
  have := running_sumSizes _ _ _ hrun
  simp only [zmiOf, mkZMI, ZMI.mk.injEq, true_and]
  exact ⟨hidx, hsz, hds, by omega, hws, hw⟩

def SortedIdx (l : List ZMI) : Prop := l.Pairwise (fun a b => a.idx < b.idx)

theorem mem_insertByIdx (x a : ZMI) : ∀ (l : List ZMI), x ∈ insertByIdx a l ↔ x = a ∨ x ∈ l
  | [] => by simp [insertByIdx]
  | y :: ys => by
    simp only [insertByIdx]
    split
    · simp
    · simp only [List.mem_cons, mem_insertByIdx x a ys]
      constructor
      · rintro (h | h | h)
        · exact Or.inr (Or.inl h)
        · exact Or.inl h
        · exact Or.inr (Or.inr h)
      · rintro (h | h | h)
        · exact Or.inr (Or.inl h)
        · exact Or.inl h
        · exact Or.inr (Or.inr h)

theorem mem_sortByIdx (x : ZMI) : ∀ (l : List ZMI), x ∈ sortByIdx l ↔ x ∈ l
  | [] => by simp [sortByIdx]
  | a :: as => by simp [sortByIdx, mem_insertByIdx, mem_sortByIdx x as]

theorem sorted_insertByIdx (a : ZMI) : ∀ (l : List ZMI), SortedIdx l → (∀ y ∈ l, y.idx ≠ a.idx) →
    SortedIdx (insertByIdx a l)
  | [], _, _ => by simp [insertByIdx, SortedIdx]
  | y :: ys, hs, hne => by
    simp only [insertByIdx]
    have hy := hne y (by simp)
    obtain ⟨h1, h2⟩ := List.pairwise_cons.mp hs
    split
    · rename_i hle
      refine List.pairwise_cons.mpr ⟨?_, hs⟩
      intro z hz
      rcases List.mem_cons.mp hz with rfl | hz
      · omega
      · have := h1 z hz; omega
    · rename_i hgt
      refine List.pairwise_cons.mpr ⟨?_, sorted_insertByIdx a ys h2 (fun z hz => hne z (List.mem_cons_of_mem _ hz))⟩
      intro z hz
      rcases (mem_insertByIdx z a ys).mp hz with rfl | hz
      · omega
      · exact h1 z hz

theorem sorted_sortByIdx : ∀ (l : List ZMI), l.Pairwise (fun a b => a.idx ≠ b.idx) → SortedIdx (sortByIdx l)
  | [], _ => by simp [sortByIdx, SortedIdx]
  | a :: as, h => by
    obtain ⟨h1, h2⟩ := List.pairwise_cons.mp h
    simp only [sortByIdx]
    apply sorted_insertByIdx a _ (sorted_sortByIdx as h2)
    intro y hy
    have := h1 y ((mem_sortByIdx y as).mp hy)
    exact fun e => this e.symm

/-- two lists strictly ascending by part index with the same members are equal -/
theorem sortedIdx_ext : ∀ (l₁ l₂ : List ZMI), SortedIdx l₁ → SortedIdx l₂ → (∀ x, x ∈ l₁ ↔ x ∈ l₂) → l₁ = l₂
  | [], [], _, _, _ => rfl
  | [], b :: _, _, _, h => by have := (h b).mpr (by simp); cases this
  | a :: _, [], _, _, h => by have := (h a).mp (by simp); cases this
  | a :: as, b :: bs, h1, h2, h => by
    obtain ⟨ha, has⟩ := List.pairwise_cons.mp h1
    obtain ⟨hb, hbs⟩ := List.pairwise_cons.mp h2
    have hab : a = b := by
      have h3 : a ∈ b :: bs := (h a).mp (by simp)
      have h4 : b ∈ a :: as := (h b).mpr (by simp)
      rcases List.mem_cons.mp h3 with e | e
      · exact e
      · rcases List.mem_cons.mp h4 with e' | e'
        · exact e'.symm
        · have := hb a e; have := ha b e'; omega
    subst hab
    congr 1
    apply sortedIdx_ext as bs has hbs
    intro x
    constructor
    · intro hx
      have := (h x).mp (List.mem_cons_of_mem _ hx)
      rcases List.mem_cons.mp this with e | e
      · subst e; have := ha x hx; omega
      · exact e
    · intro hx
      have := (h x).mpr (List.mem_cons_of_mem _ hx)
      rcases List.mem_cons.mp this with e | e
      · subst e; have := hb x hx; omega
      · exact e

theorem sortedIdx_chain (whole : Ref) (wsz : Nat) : ∀ (zs : List ZipRec) (i o : Nat), Chain zs i o →
    SortedIdx (zs.map (mkZMI whole wsz))
  | [], _, _, _ => by simp [SortedIdx]
  | q :: qs, i, o, hc => by
    obtain ⟨c1, _, c3⟩ := hc
    simp only [List.map_cons, SortedIdx]
    refine List.pairwise_cons.mpr ⟨?_, sortedIdx_chain whole wsz qs _ _ c3⟩
    intro y hy
    obtain ⟨r, hr, rfl⟩ := List.mem_map.mp hy
    have := (chain_idx qs _ _ c3 r hr).1
    simp only [mkZMI]; omega

theorem chain_idx_inj : ∀ (zs : List ZipRec) (i o : Nat), Chain zs i o → ∀ p ∈ zs, ∀ q ∈ zs, p.idx = q.idx → p = q
  | [], _, _, _, p, hp, _, _, _ => by cases hp
  | r :: rs, i, o, hc, p, hp, q, hq, e => by
    obtain ⟨c1, _, c3⟩ := hc
    rcases List.mem_cons.mp hp with rfl | hp' <;> rcases List.mem_cons.mp hq with rfl | hq'
    · rfl
    · have := (chain_idx rs _ _ c3 q hq').1; omega
    · have := (chain_idx rs _ _ c3 p hp').1; omega
    · exact chain_idx_inj rs _ _ c3 p hp' q hq' e

/-! ## `hasDups` and `wholeOffsets` on a clean chain -/

theorem hasDupsAux_chain (whole : Ref) (wsz : Nat) : ∀ (zs : List ZipRec) (i o d : Nat), Chain zs i o →
    hasDupsAux (zs.map (mkZMI whole wsz)) i d false = some false
  | [], _, _, _, _ => rfl
  | q :: qs, i, o, d, hc => by
    obtain ⟨c1, _, c3⟩ := hc
    simp only [List.map_cons, hasDupsAux, mkZMI, c1, if_true]
    exact hasDupsAux_chain whole wsz qs (i + 1) _ _ c3

theorem wholeOffsetsAux_chain (whole : Ref) (wsz : Nat) : ∀ (zs : List ZipRec) (i o : Nat), Chain zs i o →
    wholeOffsetsAux (zs.map (mkZMI whole wsz)) i o = zs.map (·.off) ++ [o + sumLen zs]
  | [], _, o, _ => by simp [wholeOffsetsAux, sumLen]
  | q :: qs, i, o, hc => by
    obtain ⟨c1, c2, c3⟩ := hc
    simp only [List.map_cons, wholeOffsetsAux, mkZMI, c1, ne_eq, not_true_eq_false, if_false, List.cons_append, c2,
      sumLen]
    rw [wholeOffsetsAux_chain whole wsz qs (i + 1) (o + q.len) c3, Nat.add_assoc]

/-- in the offsets list of a chain from index 0, the entry at a zip's part index is its offset -/
theorem offsets_lookup : ∀ (zs : List ZipRec) (i o : Nat) (pre : List Nat) (tl : List Nat), Chain zs i o → pre.length = i →
    ∀ p ∈ zs, (pre ++ zs.map (·.off) ++ tl)[p.idx]? = some p.off
  | [], _, _, _, _, _, _, p, hp => by cases hp
  | q :: qs, i, o, pre, tl, hc, hpre, p, hp => by
    obtain ⟨c1, c2, c3⟩ := hc
    rcases List.mem_cons.mp hp with rfl | hp'
    · simp only [List.map_cons, List.append_assoc, List.cons_append]
      rw [List.getElem?_append_right (by omega)]
      simp [c1, hpre]
    · have := offsets_lookup qs (i + 1) (o + q.len) (pre ++ [q.off]) tl c3 (by simp [hpre]) p hp'
      simpa using this

/-! ## the `w:` rows `groupRows` writes for a clean chain -/

/-- `groupRows` over (a suffix of) a chain: it succeeds, leaves blobs alone, and prepends the suffix's part
rows (all newer than what is there) to the whole ref's entry -/
theorem groupRows_chain (whole : Ref) (wsz : Nat) (offsets : List Nat) : ∀ (zs : List ZipRec) (i o : Nat) (s : St)
    (fin : Option (Nat × Nat)) (old : List WPart), Chain zs i o →
    (∀ p ∈ zs, offsets[p.idx]? = some p.off) →
    get s.w whole = (if old = [] ∧ fin = none then none else some ⟨fin, old⟩) ∨ get s.w whole = some ⟨fin, old⟩ →
    (∀ q ∈ old, q.idx < i) →
    ∃ s', groupRows offsets (zs.map (mkZMI whole wsz)) s = some s' ∧
      (zs ≠ [] → get s'.w whole = some ⟨fin, (zs.map toPart).reverse ++ old⟩) ∧
      (zs = [] → s' = s)
  | [], _, _, s, _, _, _, _, _, _ => ⟨s, rfl, fun h => absurd rfl h, fun _ => rfl⟩
  | q :: qs, i, o, s, fin, old, hc, hoff, hw, hold => by
    obtain ⟨c1, c2, c3⟩ := hc
    have hq := hoff q (by simp)
    simp only [List.map_cons, groupRows, mkZMI, hq]
    -- the entry after this zip's row
    let s1 : St := { s with
      w := ins whole (setPart ⟨q.idx, q.zr, q.ds, q.off, q.len⟩ (get s.w whole)) s.w,
      z := ins q.zr ⟨q.zsize, whole, wsz, q.off, q.len⟩ s.z }
    have hw1 : get s1.w whole = some ⟨fin, toPart q :: old⟩ := by
      simp only [s1, get_ins_self]
      have hfresh : ∀ r ∈ old, r.idx < q.idx := fun r hr => by have := hold r hr; omega
      rcases hw with hw | hw
      · by_cases hemp : old = [] ∧ fin = none
        · simp only [hemp, and_self, if_true] at hw
          rw [hw]; simp [setPart, toPart, hemp.1, hemp.2]
        · simp only [hemp, if_false] at hw
          rw [hw, setPart_fresh _ _ hfresh]; rfl
      · rw [hw, setPart_fresh _ _ hfresh]; rfl
    obtain ⟨s', hs', hne, hnil⟩ := groupRows_chain whole wsz offsets qs (i + 1) (o + q.len) s1 fin (toPart q :: old) c3
      (fun p hp => hoff p (List.mem_cons_of_mem _ hp)) (Or.inr hw1)
      (fun r hr => by
        rcases List.mem_cons.mp hr with rfl | hr
        · simp [toPart]; omega
        · have := hold r hr; omega)
    refine ⟨s', hs', fun _ => ?_, fun hh => by cases hh⟩
    by_cases hqs : qs = []
    · subst hqs
      rw [hnil rfl, hw1]; simp
    · rw [hne hqs]; simp

/-! ## the group of one whole ref -/

theorem chain_getLast : ∀ (zs : List ZipRec) (i o : Nat) (l : ZipRec), Chain zs i o → zs.getLast? = some l →
    l.idx + 1 = i + zs.length
  | [], _, _, _, _, h => by simp at h
  | [q], i, o, l, hc, h => by
    simp only [List.getLast?_singleton, Option.some.injEq] at h
    subst h; simp [hc.1]
  | q :: r :: rs, i, o, l, hc, h => by
    obtain ⟨_, _, c3⟩ := hc
    have h' : (r :: rs).getLast? = some l := by simpa [List.getLast?_cons_cons] using h
    have := chain_getLast (r :: rs) (i + 1) _ l c3 h'
    simp only [List.length_cons] at this ⊢; omega

/-- the rows `reindex` writes for a whole ref whose zips in `large` are exactly a complete clean chain:
the same `w:` rows the pack wrote -/
theorem reindexGroup_chain (whole : Ref) (wsz : Nat) (zs : List ZipRec) (G : List ZMI) (s : St)
    (hne : zs ≠ []) (hc : Chain zs 0 0) (hsum : sumLen zs = wsz) (hw : get s.w whole = none)
    (hsort : sortByIdx G = zs.map (mkZMI whole wsz)) :
    ∃ s', reindexGroup whole G s = some s' ∧
      get s'.w whole = some ⟨some (wsz, zs.length), (zs.map toPart).reverse⟩ := by
  unfold reindexGroup
  simp only [hsort]
  have hd : hasDups (zs.map (mkZMI whole wsz)) = some false := hasDupsAux_chain whole wsz zs 0 0 0 hc
  have ho : wholeOffsets (zs.map (mkZMI whole wsz)) = zs.map (·.off) ++ [sumLen zs] := by
    have := wholeOffsetsAux_chain whole wsz zs 0 0 hc
    simpa [wholeOffsets] using this
  rw [hd, ho]
  simp only
  obtain ⟨s1, hg, hw1, _⟩ := groupRows_chain whole wsz (zs.map (·.off) ++ [sumLen zs]) zs 0 0 s none [] hc
    (fun p hp => by
      have := offsets_lookup zs 0 0 [] [sumLen zs] hc rfl p hp
      simpa using this)
    (Or.inl (by simp [hw])) (fun q hq => by cases hq)
  rw [hg]
  simp only
  have hw1' := hw1 hne
  simp only [List.append_nil] at hw1'
  cases hzs : zs with
  | nil => exact absurd hzs hne
  | cons q qs =>
    have hlast : ∃ l, zs.getLast? = some l := by
      cases hq : zs.getLast? with
      | none => rw [hzs] at hq; simp at hq
      | some l => exact ⟨l, rfl⟩
    obtain ⟨l, hl⟩ := hlast
    have hidx := chain_getLast zs 0 0 l hc hl
    have hlm : (zs.map (mkZMI whole wsz)).getLast? = some (mkZMI whole wsz l) := by
      rw [List.getLast?_map, hl]; rfl
    rw [← hzs]
    have hhead : (zs.map (mkZMI whole wsz)).head? = some (mkZMI whole wsz q) := by rw [hzs]; rfl
    have hgl : (zs.map (·.off) ++ [sumLen zs]).getLast? = some (sumLen zs) := by simp
    rw [hhead, hgl, hlm]
    simp only [mkZMI, hsum, ne_eq, not_true_eq_false, if_false]
    refine ⟨_, rfl, ?_⟩
    simp only [setWhole, get_ins_self, hw1']
    rw [show l.idx + 1 = zs.length by omega]

/-- a group of another whole ref leaves this whole ref's rows alone -/
theorem groupRows_other (offsets : List Nat) (whole : Ref) : ∀ (zms : List ZMI) (s s' : St),
    (∀ z ∈ zms, z.wholeRef ≠ whole) → groupRows offsets zms s = some s' → get s'.w whole = get s.w whole
  | [], s, s', _, h => by simp only [groupRows] at h; injection h with h; subst h; rfl
  | z :: zs, s, s', hz, h => by
    simp only [groupRows] at h
    split at h
    · cases h
    · have := groupRows_other offsets whole zs _ s' (fun y hy => hz y (List.mem_cons_of_mem _ hy)) h
      rw [this]
      simp only
      rw [get_ins_ne _ _ (fun e => hz z (by simp) e.symm)]

theorem mem_sortByIdx' (x : ZMI) (l : List ZMI) : x ∈ sortByIdx l → x ∈ l := (mem_sortByIdx x l).mp

theorem reindexGroup_other (whole w' : Ref) (hne : w' ≠ whole) (zms : List ZMI) (s s' : St)
    (hz : ∀ z ∈ zms, z.wholeRef = w') (h : reindexGroup w' zms s = some s') : get s'.w whole = get s.w whole := by
  unfold reindexGroup at h
  simp only at h
  have hz' : ∀ z ∈ sortByIdx zms, z.wholeRef ≠ whole := fun z hzm => by
    rw [hz z (mem_sortByIdx' z zms hzm)]; exact hne
  split at h
  · cases h
  · split at h
    · cases h
    · rename_i s1 hg
      have e1 := groupRows_other _ whole _ _ _ hz' hg
      split at h
      · split at h
        · injection h with h; subst h; exact e1
        · injection h with h; subst h
          simp only [setWhole]
          rw [get_ins_ne _ _ (fun e => hne e.symm), e1]
      · injection h with h; subst h; exact e1

theorem wholeRefs_spec : ∀ (zs : List ZMI) (acc : List Ref), acc.Nodup →
    (wholeRefs zs acc).Nodup ∧ ∀ w, w ∈ wholeRefs zs acc ↔ (w ∈ acc ∨ ∃ z ∈ zs, z.wholeRef = w)
  | [], acc, h => by
    simp only [wholeRefs]
    refine ⟨?_, fun w => by simp⟩
    unfold List.Nodup at h ⊢
    rw [List.pairwise_reverse]
    exact h.imp (fun hab e => hab e.symm)
  | z :: zs, acc, h => by
    simp only [wholeRefs]
    split
    · rename_i hc
      obtain ⟨h1, h2⟩ := wholeRefs_spec zs acc h
      refine ⟨h1, fun w => ?_⟩
      rw [h2 w]
      constructor
      · rintro (hw | ⟨y, hy, e⟩)
        · exact Or.inl hw
        · exact Or.inr ⟨y, List.mem_cons_of_mem _ hy, e⟩
      · rintro (hw | ⟨y, hy, e⟩)
        · exact Or.inl hw
        · rcases List.mem_cons.mp hy with rfl | hy
          · left; rw [← e]; simpa using hc
          · exact Or.inr ⟨y, hy, e⟩
    · rename_i hc
      have hn : (z.wholeRef :: acc).Nodup := List.nodup_cons.mpr ⟨by simpa using hc, h⟩
      obtain ⟨h1, h2⟩ := wholeRefs_spec zs _ hn
      refine ⟨h1, fun w => ?_⟩
      rw [h2 w]
      constructor
      · rintro (hw | ⟨y, hy, e⟩)
        · rcases List.mem_cons.mp hw with rfl | hw
          · exact Or.inr ⟨z, by simp, rfl⟩
          · exact Or.inl hw
        · exact Or.inr ⟨y, List.mem_cons_of_mem _ hy, e⟩
      · rintro (hw | ⟨y, hy, e⟩)
        · exact Or.inl (List.mem_cons_of_mem _ hw)
        · rcases List.mem_cons.mp hy with rfl | hy
          · exact Or.inl (by rw [← e]; simp)
          · exact Or.inr ⟨y, hy, e⟩

/-- over all groups: the rows of `whole` are those of its own group -/
theorem reindexGroups_whole (whole : Ref) (wsz : Nat) (zs : List ZipRec) (zms : List ZMI)
    (hne : zs ≠ []) (hc : Chain zs 0 0) (hsum : sumLen zs = wsz)
    (hsort : sortByIdx (zms.filter (fun z => z.wholeRef = whole)) = zs.map (mkZMI whole wsz)) :
    ∀ (ws : List Ref) (s sf : St), ws.Nodup → get s.w whole = none →
      reindexGroups zms ws s = some sf →
      (whole ∈ ws → get sf.w whole = some ⟨some (wsz, zs.length), (zs.map toPart).reverse⟩) ∧
      (whole ∉ ws → get sf.w whole = none)
  | [], s, sf, _, hw, h => by
    simp only [reindexGroups] at h; injection h with h; subst h
    exact ⟨(fun hm => nomatch hm), fun _ => hw⟩
  | w :: ws, s, sf, hnd, hw, h => by
    obtain ⟨hnw, hnd'⟩ := List.nodup_cons.mp hnd
    simp only [reindexGroups] at h
    split at h
    · cases h
    · rename_i s1 hg
      by_cases e : w = whole
      · subst e
        obtain ⟨s1', hg', hw1⟩ := reindexGroup_chain w wsz zs _ s hne hc hsum hw hsort
        rw [hg'] at hg; injection hg with hg; subst hg
        -- the later groups are other whole refs
        have rest : ∀ (ws' : List Ref) (a b : St), w ∉ ws' → reindexGroups zms ws' a = some b →
            get b.w w = get a.w w := by
          intro ws'
          induction ws' with
          | nil => intro a b _ hh; simp only [reindexGroups] at hh; injection hh with hh; subst hh; rfl
          | cons v vs ih =>
            intro a b hnv hh
            simp only [reindexGroups] at hh
            split at hh
            · cases hh
            · rename_i a1 hga
              have hv : v ≠ w := fun e => hnv (by simp [e])
              rw [ih a1 b (fun hm => hnv (List.mem_cons_of_mem _ hm)) hh]
              exact reindexGroup_other w v hv _ a a1 (fun z hz => by simpa using (List.mem_filter.mp hz).2) hga
        refine ⟨fun _ => ?_, fun hm => absurd (List.mem_cons_self) hm⟩
        rw [rest ws s1' sf hnw h, hw1]
      · have hw1 : get s1.w whole = none := by
          rw [reindexGroup_other whole w e _ s s1 (fun z hz => by simpa using (List.mem_filter.mp hz).2) hg, hw]
        obtain ⟨a, b⟩ := reindexGroups_whole whole wsz zs zms hne hc hsum hsort ws s1 sf hnd' hw1 h
        refine ⟨fun hm => ?_, fun hm => b (fun hh => hm (List.mem_cons_of_mem _ hh))⟩
        rcases List.mem_cons.mp hm with hm | hm
        · exact absurd hm.symm e
        · exact a hm

/-! ## from the state after a complete pack -/

theorem sort_group {C : Ref → Bytes} {zipMax : Nat} {allBytes : Bytes} (s' : St) (whole : Ref) (wsz : Nat)
    (zs : List ZipRec) (hK : KAsc s'.large)
    (hg : ∀ p ∈ zs, GoodZip C zipMax allBytes whole wsz s' p) (hc : Chain zs 0 0)
    (hbound : ∀ k z, get s'.large k = some z → z.wholeRef = whole → ∃ p ∈ zs, p.zr = k) :
    sortByIdx ((s'.large.map (fun p => zmiOf p.1 p.2)).filter (fun z => z.wholeRef = whole)) =
      zs.map (mkZMI whole wsz) := by
  -- a zip of this whole ref in large is the zip of exactly one stored record
  have key : ∀ a ∈ s'.large, a.2.wholeRef = whole → ∃ p ∈ zs, p.zr = a.1 ∧ zmiOf a.1 a.2 = mkZMI whole wsz p := by
    intro a ha hw
    have hget : get s'.large a.1 = some a.2 := mem_get hK (show (a.1, a.2) ∈ s'.large from ha)
    obtain ⟨p, hp, hpz⟩ := hbound a.1 a.2 hget hw
    obtain ⟨z, hz, hzm⟩ := zmiOf_good (hg p hp)
    rw [hpz, hget] at hz
    injection hz with hz
    subst hz
    exact ⟨p, hp, hpz, by rw [← hpz]; exact hzm⟩
  apply sortedIdx_ext _ _ _ (sortedIdx_chain whole wsz zs 0 0 hc)
  · intro x
    rw [mem_sortByIdx]
    simp only [List.mem_filter, List.mem_map, decide_eq_true_eq]
    constructor
    · rintro ⟨⟨a, ha, rfl⟩, hw⟩
      obtain ⟨p, hp, _, e⟩ := key a ha (by simpa [zmiOf] using hw)
      exact ⟨p, hp, e.symm⟩
    · rintro ⟨p, hp, rfl⟩
      obtain ⟨z, hz, hzm⟩ := zmiOf_good (hg p hp)
      exact ⟨⟨(p.zr, z), get_some_mem hz, hzm⟩, by simp [mkZMI]⟩
  · apply sorted_sortByIdx
    rw [List.pairwise_filter, List.pairwise_map]
    apply List.Pairwise.imp_of_mem _ hK
    intro a b ha hb hlt hwa hwb hidx
    simp only [decide_eq_true_eq] at hwa hwb
    obtain ⟨pa, hpa, hza, ea⟩ := key a ha (by simpa [zmiOf] using hwa)
    obtain ⟨pb, hpb, hzb, eb⟩ := key b hb (by simpa [zmiOf] using hwb)
    rw [ea, eb] at hidx
    have := chain_idx_inj zs 0 0 hc pa hpa pb hpb (by simpa [mkZMI] using hidx)
    subst this
    rw [← hza, ← hzb, ltB_irrefl] at hlt
    cases hlt

theorem reindexZips_w : ∀ (l : List (Ref × Zip)) (s : St), (reindexZips l s).1.w = s.w ∧ (reindexZips l s).1.large = s.large
  | [], s => ⟨rfl, rfl⟩
  | (zr, z) :: rest, s => by
    simp only [reindexZips]
    split
    · exact ⟨rfl, rfl⟩
    · have := reindexZips_w rest { s with b := setRows (reindexRows zr z) s.b }
      exact this

/-- **full recovery rebuilds the whole-file rows**: after a complete first pack whose zips are the clean
chain `zs`, a full reindex that succeeds writes, from the zips alone, exactly the `w:` rows the pack
wrote for this whole ref -/
theorem reindex_full_whole_rows {C : Ref → Bytes} {zipMax : Nat} {allBytes : Bytes} (s' s'' : St) (whole : Ref)
    (wsz : Nat) (zs : List ZipRec) (hK : KAsc s'.large)
    (hg : ∀ p ∈ zs, GoodZip C zipMax allBytes whole wsz s' p) (hc : Chain zs 0 0) (hne : zs ≠ [])
    (hsum : sumLen zs = wsz)
    (hbound : ∀ k z, get s'.large k = some z → z.wholeRef = whole → ∃ p ∈ zs, p.zr = k)
    (hr : reindex true s' = (s'', .ok)) :
    get s''.w whole = some ⟨some (wsz, zs.length), (zs.map toPart).reverse⟩ := by
  have hsort := sort_group (C := C) (zipMax := zipMax) (allBytes := allBytes) s' whole wsz zs hK hg hc hbound
  unfold reindex at hr
  simp only [if_true] at hr
  let s0 : St := { s' with b := [], w := [], z := [], d := [] }
  obtain ⟨hw1, hl1⟩ := reindexZips_w s0.large s0
  change (match reindexZips s0.large s0 with
    | (s1, false) => (s1, ROut.err)
    | (s1, true) =>
      match reindexGroups (s0.large.map (fun p => zmiOf p.1 p.2)) (wholeRefs (s0.large.map (fun p => zmiOf p.1 p.2)) []) s1 with
      | none => (s1, ROut.panic)
      | some s2 => (s2, ROut.ok)) = (s'', ROut.ok) at hr
  cases hz : reindexZips s0.large s0 with
  | mk s1 ok =>
    rw [hz] at hr hw1 hl1
    cases ok with
    | false => simp at hr
    | true =>
      simp only at hr
      split at hr
      · simp at hr
      · rename_i s2 hgr
        simp only [Prod.mk.injEq, and_true] at hr
        subst hr
        obtain ⟨hnd, hmem⟩ := wholeRefs_spec (s0.large.map (fun p => zmiOf p.1 p.2)) [] List.nodup_nil
        have hin : whole ∈ wholeRefs (s0.large.map (fun p => zmiOf p.1 p.2)) [] := by
          rw [hmem]
          right
          cases hzs : zs with
          | nil => exact absurd hzs hne
          | cons q qs =>
            obtain ⟨z, hzz, hzm⟩ := zmiOf_good (hg q (by rw [hzs]; simp))
            exact ⟨zmiOf q.zr z, List.mem_map.mpr ⟨(q.zr, z), get_some_mem hzz, rfl⟩, by rw [hzm]; rfl⟩
        have hw0 : get s1.w whole = none := by rw [hw1]; rfl
        exact (reindexGroups_whole whole wsz zs _ hne hc hsum hsort _ s1 s2 hnd hw0 hgr).1 hin

/-- a pack that returned without error went through the loop -/
theorem packFile_eq (env : PackEnv) (s : St) (bud : Budget) (fileRef : Ref) (lays : List ZipLayout) (fuel : Nat)
    (hok : (packFile env s bud fileRef lays fuel).ok = true) :
    ∃ v parts tbl W, fetch s fileRef = .ok v ∧ (env.K fileRef).parts? = some parts ∧
      scanParts env.K s scanFuel [(fileRef, v)] parts = some tbl ∧ denoteParts env.K s scanFuel parts = some W ∧
      packFile env s bud fileRef lays fuel =
        packLoop env (match env.K fileRef with | .file n _ => n | _ => true) tbl (env.H W) W.length fuel s bud
          (tbl.map (·.ref)) 0 0 none lays 0 0 [] := by
  unfold packFile at hok ⊢
  simp only at hok ⊢
  split at hok
  · rename_i v parts hv hk
    split at hok
    · cases hok
    · rename_i tbl htbl
      split at hok
      · cases hok
      · rename_i W hW
        split at hok
        · cases hok
        · rename_i hfin
          refine ⟨v, parts, tbl, W, hv, hk, htbl, hW, ?_⟩
          rfl
  · cases hok

theorem packFile_large {C : Ref → Bytes} (env : PackEnv) (s : St) (bud : Budget) (fileRef : Ref)
    (lays : List ZipLayout) (fuel : Nat) (h : Inv C s) (hok : (packFile env s bud fileRef lays fuel).ok = true) :
    ∀ k z, get (packFile env s bud fileRef lays fuel).s.large k = some z →
      get s.large k = some z ∨ ∃ p ∈ (packFile env s bud fileRef lays fuel).zips, p.zr = k := by
  obtain ⟨v, parts, tbl, W, hv, hk, htbl, hW, heq⟩ := packFile_eq env s bud fileRef lays fuel hok
  rw [heq] at hok ⊢
  obtain ⟨hpv, hvv⟩ := fetch_ok h hv
  have hpath : PairsOK C s [(fileRef, v)] := by
    intro q hq; simp only [List.mem_singleton] at hq; subst hq; exact ⟨hvv, hpv⟩
  exact packLoop_large (C := C) env _ tbl (env.H W) W.length s fuel s bud _ 0 0 none lays 0 0 [] h
    (scanParts_ok h env.K scanFuel _ parts tbl hpath htbl) (fun k z hk => Or.inl hk) hok

/-- recovery never touches `large` -/
theorem reindex_large (full : Bool) (s s'' : St) (hr : reindex full s = (s'', .ok)) : s''.large = s.large := by
  unfold reindex at hr
  simp only at hr
  let s0 : St := if full then { s with b := [], w := [], z := [], d := [] } else s
  have hl0 : s0.large = s.large := by by_cases hf : full = true <;> simp [s0, hf]
  obtain ⟨_, hl1⟩ := reindexZips_w s0.large s0
  change (match reindexZips s0.large s0 with
    | (s1, false) => (s1, ROut.err)
    | (s1, true) =>
      match reindexGroups (s0.large.map (fun p => zmiOf p.1 p.2)) (wholeRefs (s0.large.map (fun p => zmiOf p.1 p.2)) []) s1 with
      | none => (s1, ROut.panic)
      | some s2 => (s2, ROut.ok)) = (s'', ROut.ok) at hr
  cases hz : reindexZips s0.large s0 with
  | mk s1 ok =>
    rw [hz] at hr hl1
    cases ok with
    | false => simp at hr
    | true =>
      simp only at hr
      split at hr
      · simp at hr
      · rename_i s2 hg
        simp only [Prod.mk.injEq, and_true] at hr
        subst hr
        rw [(reindexGroups_sameBlobs _ _ _ _ hg).2.1, hl1, hl0]

end Pk.BP
