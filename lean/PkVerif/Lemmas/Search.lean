import PkVerif.Model.Search
import PkVerif.Lemmas.Ref
/-!
# Lemmas for C08: insertion sort, the collecting callback, the planner predicates
(core Lean only)
-/
namespace Pk.Search
open Pk

/-! ## insertion sort -/

section Sorting
variable {α : Type} (lt : α → α → Bool)

theorem insertBy_perm (x : α) : ∀ l : List α, (insertBy lt x l).Perm (x :: l)
  | [] => by simp [insertBy]
  | y :: l => by
    unfold insertBy
    split
    · exact ((insertBy_perm x l).cons y).trans (List.Perm.swap x y l)
    · exact List.Perm.refl _

theorem isort_perm : ∀ l : List α, (isort lt l).Perm l
  | [] => by simp [isort]
  | x :: l => by
    unfold isort
    exact (insertBy_perm lt x _).trans ((isort_perm l).cons x)

theorem mem_insertBy {x z : α} {l : List α} : z ∈ insertBy lt x l ↔ z = x ∨ z ∈ l := by
  rw [(insertBy_perm lt x l).mem_iff]; simp

theorem mem_isort {z : α} {l : List α} : z ∈ isort lt l ↔ z ∈ l := (isort_perm lt l).mem_iff

theorem isort_length (l : List α) : (isort lt l).length = l.length := (isort_perm lt l).length_eq

/-- without an order nothing moves -/
theorem isort_false : ∀ l : List α, isort (fun _ _ => false) l = l
  | [] => rfl
  | x :: l => by
    unfold isort
    rw [isort_false l]
    cases l <;> simp [insertBy]

/-- what the comparators of `sort.Sort` must satisfy for the sort to be meaningful -/
structure StrictWeak (lt : α → α → Bool) : Prop where
  asymm : ∀ a b, lt a b = true → lt b a = false
  negTrans : ∀ a b c, lt a b = false → lt b c = false → lt a c = false

/-- no element is strictly before an earlier one -/
def SortedBy (l : List α) : Prop := l.Pairwise (fun a b => lt b a = false)

variable {lt}

theorem insertBy_sorted (h : StrictWeak lt) (x : α) : ∀ l : List α, SortedBy lt l → SortedBy lt (insertBy lt x l)
  | [], _ => by simp [insertBy, SortedBy]
  | y :: l, hl => by
    have hl' := List.pairwise_cons.mp hl
    unfold insertBy
    by_cases hyx : lt y x = true
    · simp only [hyx, if_true]
      refine List.pairwise_cons.mpr ⟨?_, insertBy_sorted h x l hl'.2⟩
      intro z hz
      rcases (mem_insertBy lt).mp hz with rfl | hz
      · exact h.asymm _ _ hyx
      · exact hl'.1 z hz
    · have hyx' : lt y x = false := by simpa using hyx
      simp only [hyx', Bool.false_eq_true, if_false]
      refine List.pairwise_cons.mpr ⟨?_, hl⟩
      intro z hz
      rcases List.mem_cons.mp hz with rfl | hz
      · exact hyx'
      · exact h.negTrans _ _ _ (hl'.1 z hz) hyx'

theorem isort_sorted (h : StrictWeak lt) : ∀ l : List α, SortedBy lt (isort lt l)
  | [] => by simp [isort, SortedBy]
  | x :: l => by unfold isort; exact insertBy_sorted h x _ (isort_sorted h l)

theorem insertBy_of_ge (x : α) : ∀ l : List α, (∀ z ∈ l, lt z x = false) → insertBy lt x l = x :: l
  | [], _ => rfl
  | y :: l, hz => by simp [insertBy, hz y (by simp)]

theorem filter_insertBy (h : StrictWeak lt) (p : α → Bool) (x : α) :
    ∀ l : List α, SortedBy lt l →
      (insertBy lt x l).filter p = if p x then insertBy lt x (l.filter p) else l.filter p
  | [], _ => by simp [insertBy]; split <;> simp_all
  | y :: l, hl => by
    have hl' := List.pairwise_cons.mp hl
    have ih := filter_insertBy h p x l hl'.2
    by_cases hyx : lt y x = true
    · simp only [insertBy, hyx, if_true, List.filter_cons]
      by_cases hpy : p y = true
      · simp only [hpy, if_true, ih]
        by_cases hpx : p x = true
        · simp [hpx, insertBy, hyx]
        · simp [hpx]
      · simp only [hpy, Bool.false_eq_true, if_false, ih]
    · have hyx' : lt y x = false := by simpa using hyx
      have hge : ∀ z ∈ (y :: l).filter p, lt z x = false := by
        intro z hz
        have hz' := (List.mem_filter.mp hz).1
        rcases List.mem_cons.mp hz' with rfl | hz''
        · exact hyx'
        · exact h.negTrans _ _ _ (hl'.1 z hz'') hyx'
      simp only [insertBy, hyx', Bool.false_eq_true, if_false]
      by_cases hpx : p x = true
      · simp only [hpx, if_true]
        rw [insertBy_of_ge x _ hge]
        simp [List.filter_cons, hpx]
      · simp [List.filter_cons, hpx]

/-- a stable sort commutes with selecting -/
theorem filter_isort (h : StrictWeak lt) (p : α → Bool) : ∀ l : List α, (isort lt l).filter p = isort lt (l.filter p)
  | [] => by simp [isort]
  | x :: l => by
    simp only [isort, List.filter_cons]
    rw [filter_insertBy h p x _ (isort_sorted h l), filter_isort h p l]
    split <;> simp [isort]

end Sorting

/-! ## the comparators are strict weak orders -/

theorem ltB_negTrans (a b c : Bytes) (h1 : ltB a b = false) (h2 : ltB b c = false) : ltB a c = false := by
  cases hac : ltB a c with
  | false => rfl
  | true =>
    rcases ltB_total a b with h | h | h
    · rw [h] at h1; cases h1
    · subst h; rw [hac] at h2; cases h2
    · rw [ltB_trans b a c h hac] at h2; cases h2

theorem sw_false {α : Type} : StrictWeak (fun (_ _ : α) => false) := ⟨by simp, by simp⟩

theorem sw_ltRef : StrictWeak ltRef :=
  ⟨fun a b h => ltB_asymm _ _ h, fun a b c h1 h2 => ltB_negTrans _ _ _ h1 h2⟩

theorem sw_key (key : BlobMeta → Nat) : StrictWeak (fun a b => decide (key a < key b)) :=
  ⟨by intro a b h; simp at h ⊢; omega, by intro a b c h1 h2; simp at h1 h2 ⊢; omega⟩

theorem sw_keyDesc (key : BlobMeta → Nat) : StrictWeak (fun a b => decide (key b < key a)) :=
  ⟨by intro a b h; simp at h ⊢; omega, by intro a b c h1 h2; simp at h1 h2 ⊢; omega⟩

theorem ltTimeRefDesc_false (key : Ref → Nat) (a b : BlobMeta) :
    ltTimeRefDesc key a b = false ↔ key a.ref < key b.ref ∨ (key a.ref = key b.ref ∧ ltB b.ref a.ref = false) := by
  unfold ltTimeRefDesc
  by_cases h1 : key b.ref < key a.ref
  · have h3 : ¬ key a.ref < key b.ref := by omega
    have h4 : ¬ key a.ref = key b.ref := by omega
    simp [h1, h3, h4]
  · by_cases h2 : key a.ref = key b.ref
    · simp [h2]
    · have : key a.ref < key b.ref := by omega
      simp [h1, h2, this]

theorem sw_timeRefDesc (key : Ref → Nat) : StrictWeak (ltTimeRefDesc key) := by
  constructor
  · intro a b h
    rw [ltTimeRefDesc_false]
    unfold ltTimeRefDesc at h
    simp only [Bool.or_eq_true, decide_eq_true_eq, Bool.and_eq_true, beq_iff_eq] at h
    rcases h with h | ⟨h, h'⟩
    · exact Or.inl h
    · exact Or.inr ⟨h.symm, ltB_asymm _ _ h'⟩
  · intro a b c h1 h2
    rw [ltTimeRefDesc_false] at h1 h2 ⊢
    rcases h1 with h1 | ⟨h1, h1'⟩ <;> rcases h2 with h2 | ⟨h2, h2'⟩
    · exact Or.inl (Nat.lt_trans h1 h2)
    · exact Or.inl (h2 ▸ h1)
    · exact Or.inl (h1 ▸ h2)
    · exact Or.inr ⟨h1.trans h2, ltB_negTrans _ _ _ h2' h1'⟩

theorem sw_specLt (w : World) (s : SortT) : StrictWeak (specLt w s) := by
  cases s <;> simp only [specLt]
  all_goals first
    | exact sw_false
    | exact sw_ltRef
    | exact sw_timeRefDesc _
    | exact sw_key (fun b => w.anyTime b.ref)

/-! ## the callback of Query -/

/-- whatever the matcher does, what is collected is a selection of the candidates, in their order -/
theorem collect_sublist (m : BlobMeta → St → R) (stopAt : Option Nat) :
    ∀ (l acc : List BlobMeta) (st : St) (r : List BlobMeta), collect m stopAt l acc st = .ok r →
      ∃ l', l'.Sublist l ∧ r = acc.reverse ++ l'
  | [], acc, st, r, h => by
    simp only [collect, Except.ok.injEq] at h
    exact ⟨[], List.Sublist.refl _, by simp [h]⟩
  | b :: bs, acc, st, r, h => by
    unfold collect at h
    cases hm : m b st with
    | error e => simp [hm] at h
    | ok p =>
      obtain ⟨v, st1⟩ := p
      cases v with
      | false =>
        simp only [hm] at h
        obtain ⟨l', hl, hr⟩ := collect_sublist m stopAt bs acc st1 r h
        exact ⟨l', hl.cons b, hr⟩
      | true =>
        simp only [hm] at h
        split at h
        · simp only [Except.ok.injEq] at h
          exact ⟨[b], by simp, by simp [← h]⟩
        · obtain ⟨l', hl, hr⟩ := collect_sublist m stopAt bs (b :: acc) st1 r h
          exact ⟨b :: l', hl.cons_cons b, by simp [hr]⟩

/-- a matcher that computes `ψ` and never fails: without a stop all `ψ`-candidates are collected -/
theorem collect_all (m : BlobMeta → St → R) (ψ : BlobMeta → Bool)
    (hm : ∀ b st, ∃ st', m b st = .ok (ψ b, st')) :
    ∀ (l acc : List BlobMeta) (st : St), collect m none l acc st = .ok (acc.reverse ++ l.filter ψ)
  | [], acc, st => by simp [collect]
  | b :: bs, acc, st => by
    obtain ⟨st1, h1⟩ := hm b st
    unfold collect
    rw [h1]
    cases hψ : ψ b with
    | false => simp [hψ, collect_all m ψ hm bs acc st1]
    | true => simp [hψ, collect_all m ψ hm bs (b :: acc) st1]

/-- … and with a stop at `n` the first `n` of them -/
theorem collect_stop (m : BlobMeta → St → R) (ψ : BlobMeta → Bool)
    (hm : ∀ b st, ∃ st', m b st = .ok (ψ b, st')) (n : Nat) :
    ∀ (l acc : List BlobMeta) (st : St), acc.length < n →
      collect m (some n) l acc st = .ok (acc.reverse ++ (l.filter ψ).take (n - acc.length))
  | [], acc, st, _ => by simp [collect]
  | b :: bs, acc, st, hlt => by
    obtain ⟨st1, h1⟩ := hm b st
    unfold collect
    rw [h1]
    cases hψ : ψ b with
    | false => simp [hψ, collect_stop m ψ hm n bs acc st1 hlt]
    | true =>
      simp only [hψ, List.filter_cons, if_true]
      by_cases he : n = acc.length + 1
      · subst he
        simp
      · have hne : ¬ ((some n : Option Nat) == some (acc.length + 1)) = true := by simp [he]
        simp only [hne]
        have hlt' : (b :: acc).length < n := by simp; omega
        rw [collect_stop m ψ hm n bs (b :: acc) st1 hlt']
        have : n - acc.length = (n - (b :: acc).length) + 1 := by simp; omega
        rw [this]
        simp

/-! ## the planner predicates are sound for the documented meaning -/

section Planner
variable (t : Pk.Ref.Tbl) (w : World)

/-- the conjuncts of `matchesC` on a struct -/
theorem matchesC_mk_iff (op : Op) (a b : Cons) (f : Flat) (pn : Perm) (fl : FileC) (dr : DirC) (bm : BlobMeta) :
    matchesC t w (.mk op a b f pn fl dr) bm = true ↔
      (op != .none || f.anything || !f.camliType.isEmpty || f.anyCamliType || !pn.isNil || !fl.isNil ||
        !dr.isNil || f.blobSize.isSome || !f.pfx.isEmpty) = true ∧
      (match op with
       | .none => true
       | .and => matchesC t w a bm && matchesC t w b bm
       | .or => matchesC t w a bm || matchesC t w b bm
       | .xor => matchesC t w a bm != matchesC t w b bm
       | .not => !matchesC t w a bm) = true ∧
      (f.camliType.isEmpty || bm.camliType == f.camliType) = true ∧
      (!f.anyCamliType || !bm.camliType.isEmpty) = true ∧
      (pn.isNil || matchesP t w pn bm) = true ∧
      (fl.isNil || matchesF t w fl bm) = true ∧
      (dr.isNil || matchesD t w dr bm) = true ∧
      (!f.blobSize.isSome || optInt f.blobSize bm.size) = true ∧
      (f.pfx.isEmpty || hasPrefix bm.ref f.pfx) = true := by
  cases op <;> simp only [matchesC, Bool.and_eq_true, and_assoc]

theorem matchesP_permanode (pn : Perm) (bm : BlobMeta) (h : matchesP t w pn bm = true) :
    bm.camliType = sPermanode := by
  cases pn with
  | nil => simp [matchesP] at h
  | mk p inSet rel relAny relAll =>
    simp only [matchesP, Bool.and_eq_true, beq_iff_eq] at h
    exact h.1.1.1.1.1

theorem matchesF_file (fl : FileC) (bm : BlobMeta) (h : matchesF t w fl bm = true) : bm.camliType = sFile := by
  cases fl with
  | nil => simp [matchesF] at h
  | mk f pd =>
    simp only [matchesF, Bool.and_eq_true, beq_iff_eq] at h
    exact h.1

/-- onlyMatchesPermanode (query.go:399) is right: such a constraint matches permanodes only -/
theorem only_perm : ∀ (c : Cons) (bm : BlobMeta), onlyMatchesPermanode c = true → matchesC t w c bm = true →
    bm.camliType = sPermanode
  | .nil, _, h, _ => by simp [onlyMatchesPermanode] at h
  | .mk op a b f pn fl dr, bm, h, hm => by
    rw [matchesC_mk_iff] at hm
    obtain ⟨_, hop, hct, _, hpn, _, _, _, _⟩ := hm
    simp only [onlyMatchesPermanode, Bool.or_eq_true, Bool.and_eq_true, beq_iff_eq, Bool.not_eq_true'] at h
    rcases h with (hpn' | hct') | ⟨hand, hab⟩
    · simp only [hpn', Bool.false_or] at hpn
      exact matchesP_permanode t w pn bm hpn
    · have : f.camliType.isEmpty = false := by rw [hct']; rfl
      simp only [this, Bool.false_or, beq_iff_eq] at hct
      rw [hct, hct']
    · subst hand
      simp only [Bool.and_eq_true] at hop
      rcases hab with ha | hb
      · exact only_perm a bm ha hop.1
      · exact only_perm b bm hb hop.2

/-- matchesFileByWholeRef (query.go:416) is right: such a constraint matches files only -/
theorem whole_file : ∀ (c : Cons) (bm : BlobMeta), matchesFileByWholeRef t c = true → matchesC t w c bm = true →
    bm.camliType = sFile
  | .nil, _, h, _ => by simp [matchesFileByWholeRef] at h
  | .mk op a b f pn fl dr, bm, h, hm => by
    rw [matchesC_mk_iff] at hm
    obtain ⟨_, hop, _, _, _, hfl, _, _, _⟩ := hm
    simp only [matchesFileByWholeRef, Bool.or_eq_true, Bool.and_eq_true, beq_iff_eq] at h
    rcases h with ⟨hand, hab⟩ | hf
    · subst hand
      simp only [Bool.and_eq_true] at hop
      rcases hab with ha | hb
      · exact whole_file a bm ha hop.1
      · exact whole_file b bm hb hop.2
    · cases fl with
      | nil => simp at hf
      | mk ff pd =>
        simp only [FileC.isNil, Bool.false_or] at hfl
        exact matchesF_file t w _ bm hfl

/-- every current value of an attribute was put there by a claim with that value -/
theorem mem_foldl_applyClaim (cls : List Claim) : ∀ (init : List Str) (v : Str),
    v ∈ cls.foldl applyClaim init → v ∈ init ∨ ∃ c ∈ cls, c.value = v := by
  induction cls with
  | nil => intro init v h; exact Or.inl h
  | cons c cls ih =>
    intro init v h
    simp only [List.foldl_cons] at h
    rcases ih _ v h with h' | ⟨c', hc', hv⟩
    · unfold applyClaim at h'
      cases hk : c.kind <;> simp only [hk] at h'
      · simp only [List.mem_singleton] at h'
        exact Or.inr ⟨c, by simp, h'.symm⟩
      · rcases List.mem_append.mp h' with h'' | h''
        · exact Or.inl h''
        · simp only [List.mem_singleton] at h''
          exact Or.inr ⟨c, by simp, h''.symm⟩
      · split at h'
        · simp at h'
        · exact Or.inl (List.mem_filter.mp h').1
      · exact Or.inl h'
    · exact Or.inr ⟨c', by simp [hc'], hv⟩

theorem mem_attrVals_claim (pn : Ref) (attr v : Str) (atT : Time) (h : v ∈ w.attrVals pn attr atT) :
    ∃ c ∈ w.claims, c.pn = pn ∧ c.attr = attr ∧ c.value = v := by
  unfold World.attrVals at h
  rcases mem_foldl_applyClaim _ [] v h with h' | ⟨c, hc, hv⟩
  · simp at h'
  · have := List.mem_filter.mp hc
    simp only [Bool.and_eq_true, beq_iff_eq] at this
    exact ⟨c, this.1, this.2.1.1.1, this.2.1.1.2, hv⟩

theorem matchesP_value (p : PFlat) (inSet : Cons) (rel : Option RFlat) (ra rl : Cons) (bm : BlobMeta)
    (h : matchesP t w (.mk p inSet rel ra rl) bm = true) (ha : p.attr.isEmpty = false) (hv : p.value.isEmpty = false) :
    p.value ∈ w.attrVals bm.ref p.attr p.atT := by
  simp only [matchesP, Bool.and_eq_true] at h
  obtain ⟨⟨⟨⟨⟨_, hattr⟩, _⟩, _⟩, _⟩, _⟩ := h
  have hvc : p.hasValueConstraint inSet.isNil = true := by simp [PFlat.hasValueConstraint, hv]
  simp only [ha, Bool.false_or, Bool.and_eq_true, hvc, Bool.not_true] at hattr
  obtain ⟨_, hgood, _⟩ := hattr
  obtain ⟨v, hmem⟩ := List.exists_mem_of_length_pos (Nat.pos_of_ne_zero (by
    intro h0; rw [h0] at hgood; simp at hgood))
  obtain ⟨hin, hok⟩ := List.mem_filter.mp hmem
  simp only [PFlat.valueOK, Bool.and_eq_true, hv, Bool.false_or, beq_iff_eq] at hok
  rw [hok.1.1.1]
  exact hin

/-- the node type a struct names by itself (query.go:356) -/
def leafType : Perm → Option Str
  | .mk p _ _ _ _ => if p.attr == sCamliNodeType && !p.value.isEmpty then some p.value else none
  | .nil => none

theorem types_mk (op : Op) (a b : Cons) (f : Flat) (pn : Perm) (fl : FileC) (dr : DirC) :
    matchesPermanodeTypes (.mk op a b f pn fl dr) =
      match leafType pn with
      | some v => [v]
      | none =>
        match op with
        | .and => if !(matchesPermanodeTypes a).isEmpty then matchesPermanodeTypes a else matchesPermanodeTypes b
        | .or =>
          if (matchesPermanodeTypes a).isEmpty || (matchesPermanodeTypes b).isEmpty then []
          else matchesPermanodeTypes a ++ matchesPermanodeTypes b
        | _ => [] := by
  cases pn with
  | nil => cases op <;> simp [matchesPermanodeTypes, leafType]
  | mk p _ _ _ _ =>
    by_cases hc : (p.attr == sCamliNodeType && !p.value.isEmpty) = true <;>
      cases op <;> simp [matchesPermanodeTypes, leafType, hc]

/-- matchesPermanodeTypes (query.go:352, with the `or` case repaired) is right: a match has, or
had, one of the listed node types -/
theorem types_sound : ∀ (c : Cons) (bm : BlobMeta), matchesC t w c bm = true →
    (matchesPermanodeTypes c).isEmpty = false →
    (matchesPermanodeTypes c).any (fun ty => w.inTypeSet bm.ref ty) = true
  | .nil, _, _, h => by simp [matchesPermanodeTypes] at h
  | .mk op a b f pn fl dr, bm, hm, hne => by
    rw [matchesC_mk_iff] at hm
    obtain ⟨_, hop, _, _, hpn, _, _, _, _⟩ := hm
    rw [types_mk] at hne ⊢
    cases hl : leafType pn with
    | some v =>
      -- the struct itself names a node type
      cases pn with
      | nil => simp [leafType] at hl
      | mk p inSet rel ra rl =>
        simp only [Perm.isNil, Bool.false_or] at hpn
        simp only [leafType] at hl
        split at hl
        · rename_i hc
          simp only [Bool.and_eq_true, beq_iff_eq, Bool.not_eq_true'] at hc
          simp only [Option.some.injEq] at hl
          subst hl
          have ha : p.attr.isEmpty = false := by rw [hc.1]; rfl
          obtain ⟨cl, hcl, h1, h2, h3⟩ := mem_attrVals_claim w _ _ _ _ (matchesP_value t w p inSet rel ra rl bm hpn ha hc.2)
          have : w.inTypeSet bm.ref p.value = true := by
            simp only [World.inTypeSet, List.any_eq_true, Bool.and_eq_true, beq_iff_eq]
            exact ⟨cl, hcl, ⟨h1, by rw [h2, hc.1]⟩, h3⟩
          simp [this]
        · simp at hl
    | none =>
      simp only [hl] at hne ⊢
      cases op with
      | and =>
        simp only [Bool.and_eq_true] at hop
        simp only at hne ⊢
        cases ha : (matchesPermanodeTypes a).isEmpty with
        | false =>
          simp only [ha, Bool.not_false, if_true]
          exact types_sound a bm hop.1 ha
        | true =>
          simp only [ha, Bool.not_true, Bool.false_eq_true, if_false] at hne ⊢
          exact types_sound b bm hop.2 hne
      | or =>
        simp only at hne ⊢
        cases ha : (matchesPermanodeTypes a).isEmpty with
        | true => simp [ha] at hne
        | false =>
          cases hb' : (matchesPermanodeTypes b).isEmpty with
          | true => simp [ha, hb'] at hne
          | false =>
            simp only [ha, hb', Bool.or_self, Bool.false_eq_true, if_false]
            simp only [Bool.or_eq_true] at hop
            rw [List.any_append]
            rcases hop with h1 | h2
            · simp [types_sound a bm h1 ha]
            · simp [types_sound b bm h2 hb']
      | none => simp at hne
      | xor => simp at hne
      | not => simp at hne

/-- a whole ref given as BlobRefPrefix is the ref of the only blob it can match; `blob.Parse`
accepts no proper prefix of a ref of the world (proved for sha224 worlds in Props/C08) -/
def PrefixExact (t : Pk.Ref.Tbl) (w : World) : Prop :=
  ∀ b ∈ w.blobs, ∀ pfx : Str, refOK t pfx = true → hasPrefix b.ref pfx = true → b.ref = pfx

/-- matchesAtMostOneBlob (query.go:378) is right -/
theorem one_blob_sound (hx : PrefixExact t w) : ∀ (c : Cons) (bm : BlobMeta) (r : Ref), bm ∈ w.blobs →
    matchesAtMostOneBlob t c = some r → matchesC t w c bm = true → bm.ref = r
  | .nil, _, _, _, h, _ => by simp [matchesAtMostOneBlob] at h
  | .mk op a b f pn fl dr, bm, r, hb, h, hm => by
    rw [matchesC_mk_iff] at hm
    obtain ⟨_, hop, _, _, _, _, _, _, hpx⟩ := hm
    unfold matchesAtMostOneBlob at h
    split at h
    · rename_i hc
      simp only [Bool.and_eq_true, Bool.not_eq_true'] at hc
      simp only [Option.some.injEq] at h
      subst h
      simp only [hc.1, Bool.false_or] at hpx
      exact hx bm hb _ hc.2 hpx
    · split at h
      · rename_i hand
        simp only [beq_iff_eq] at hand
        subst hand
        simp only [Bool.and_eq_true] at hop
        cases ha : matchesAtMostOneBlob t a with
        | some r' =>
          simp only [ha, Option.some.injEq] at h
          subst h
          exact one_blob_sound hx a bm _ hb ha hop.1
        | none =>
          simp only [ha] at h
          exact one_blob_sound hx b bm _ hb h hop.2
      · simp at h

/-- the part of pickCandidateSource after the permanode sources (query.go:1471-1502) -/
def restSrc (t : Pk.Ref.Tbl) (c : Cons) : Src :=
  match matchesAtMostOneBlob t c with
  | some r => .oneBlob r
  | none =>
    if matchesFileByWholeRef t c then .fileMeta
    else match c with
      | .mk _ _ _ f _ _ _ => if f.anyCamliType || !f.camliType.isEmpty then .blobMeta f.camliType else .all
      | .nil => .all

theorem pickSource_eq (c : Cons) (sort : SortT) :
    pickSource t c sort =
      if onlyMatchesPermanode c then
        match sort with
        | .lastModDesc => .lastmod
        | .createdDesc => .created
        | _ => if !(matchesPermanodeTypes c).isEmpty then .types (matchesPermanodeTypes c) else restSrc t c
      else restSrc t c := rfl

theorem rest_sound (hx : PrefixExact t w) (c : Cons) (bm : BlobMeta) (hb : bm ∈ w.blobs)
    (hm : matchesC t w c bm = true) : bm ∈ candidates w (restSrc t c) := by
  unfold restSrc
  cases h1 : matchesAtMostOneBlob t c with
  | some r =>
    simp only [candidates, List.mem_filter, beq_iff_eq]
    exact ⟨hb, one_blob_sound t w hx c bm r hb h1 hm⟩
  | none =>
    simp only
    split
    · rename_i hw
      simp only [candidates, List.mem_filter, beq_iff_eq]
      exact ⟨hb, whole_file t w c bm hw hm⟩
    · cases c with
      | nil => simpa [candidates] using hb
      | mk op a b f pn fl dr =>
        rw [matchesC_mk_iff] at hm
        obtain ⟨_, _, hct, hany, _, _, _, _, _⟩ := hm
        simp only
        split
        · rename_i hc
          simp only [candidates, List.mem_filter]
          refine ⟨hb, ?_⟩
          cases he : f.camliType.isEmpty with
          | true =>
            simp only [he, Bool.not_true, Bool.or_false] at hc
            simpa [hc] using hany
          | false =>
            simpa [he] using hct
        · simpa [candidates] using hb

/-- **planner soundness, sources that are not pre-sorted**: whatever source pickCandidateSource
chooses among types / one_blob / file_meta / blob_meta / all, it enumerates every matching blob -/
theorem planner_sound_unsorted (hx : PrefixExact t w) (c : Cons) (sort : SortT) (bm : BlobMeta) (hb : bm ∈ w.blobs)
    (hm : matchesC t w c bm = true) (hs : (pickSource t c sort).sorted = false) :
    bm ∈ candidates w (pickSource t c sort) := by
  rw [pickSource_eq] at hs ⊢
  have hrest := rest_sound t w hx c bm hb hm
  split
  · rename_i hon
    simp only [hon, if_true] at hs
    have htypes : bm ∈ candidates w (if (!(matchesPermanodeTypes c).isEmpty) = true
        then Src.types (matchesPermanodeTypes c) else restSrc t c) := by
      split
      · rename_i hty
        simp only [candidates, List.mem_filter]
        exact ⟨hb, types_sound t w c bm hm (by simpa using hty)⟩
      · exact hrest
    cases sort <;> first | exact htypes | (simp [Src.sorted] at hs)
  · exact hrest

/-- the sorted permanode sources enumerate a matching permanode if it has claims, is not deleted
and has the time the source sorts by -/
theorem planner_sound_sorted (c : Cons) (bm : BlobMeta) (hb : bm ∈ w.blobs) (key : Ref → Time)
    (hg : (w.hasClaims bm.ref && !w.isDeleted bm.ref && key bm.ref != 0) = true) :
    bm ∈ sortedPermanodes w key := by
  unfold sortedPermanodes
  rw [mem_isort]
  exact List.mem_filter.mpr ⟨hb, hg⟩

end Planner

/-! ## `blob.Parse` accepts no proper prefix of a sha224 ref -/

def sha224Name : Bytes := [115, 104, 97, 50, 50, 52]

/-- the text form of a sha224 ref: `sha224-` and 56 more characters, none of them `-` -/
def isSha224Text (r : Ref) : Bool :=
  (sha224Name ++ [45]).isPrefixOf r && r.length == 63 && (r.drop 7).all (fun c => c != 45)

theorem prefix_exact_sha224 (t : Pk.Ref.Tbl) (ht : t.size? sha224Name = some 28) (r pfx : Bytes)
    (hr : isSha224Text r = true) (hp : hasPrefix r pfx = true) (hok : refOK t pfx = true) : r = pfx := by
  simp only [isSha224Text, Bool.and_eq_true, beq_iff_eq, List.isPrefixOf_iff_prefix] at hr
  obtain ⟨⟨⟨hex, hr⟩, hlen⟩, hnd⟩ := hr
  subst hr
  have hhex : hex.length = 56 := by simp [sha224Name] at hlen; omega
  simp only [hasPrefix, Bool.and_eq_true, List.isPrefixOf_iff_prefix, decide_eq_true_eq] at hp
  obtain ⟨hpre, hlong⟩ := hp
  have htw : (List.takeWhile (fun c => c != 45) (sha224Name ++ [45] ++ hex)).length = 6 := by
    simp [sha224Name, List.takeWhile]
  rw [htw] at hlong
  have hle : pfx.length ≤ 63 := by
    have := hpre.length_le; simp [sha224Name] at this; omega
  have hpfx : pfx = sha224Name ++ 45 :: hex.take (pfx.length - 7) := by
    have h1 := List.prefix_iff_eq_take.mp hpre
    generalize pfx.length = n at h1 hlong hle ⊢
    rw [h1]
    have : sha224Name ++ [45] ++ hex = sha224Name ++ 45 :: hex := by simp
    rw [this, List.take_append]
    have h6 : sha224Name.length = 6 := rfl
    rw [List.take_of_length_le (by rw [h6]; omega), h6]
    have : n - 6 = (n - 7) + 1 := by omega
    rw [this, List.take_succ_cons]
  have hnd' : (45 : Nat) ∉ sha224Name := by decide
  simp only [refOK, Pk.Ref.parse] at hok
  rw [hpfx, Pk.Ref.splitDash_append _ _ hnd'] at hok
  simp only [ht] at hok
  split at hok
  · simp at hok
  · rename_i hl
    simp only [List.length_take, bne_iff_ne, ne_eq, Decidable.not_not] at hl
    have : pfx.length = 63 := by omega
    have h1 := List.prefix_iff_eq_take.mp hpre
    rw [h1, this]
    apply (List.take_of_length_le _).symm
    simp [sha224Name]; omega

/-- the refs of the world's blobs are sha224 refs -/
def World.refsSha224 (w : World) : Bool := w.blobs.all (fun b => isSha224Text b.ref)

theorem prefixExact_of_sha224 (t : Pk.Ref.Tbl) (ht : t.size? sha224Name = some 28) (w : World)
    (hw : w.refsSha224 = true) : PrefixExact t w := by
  intro b hb pfx hok hp
  simp only [World.refsSha224, List.all_eq_true] at hw
  exact prefix_exact_sha224 t ht _ _ (hw b hb) hp hok

/-! ## Query computes its specification -/

section QuerySpec
variable (t : Pk.Ref.Tbl) (w : World)

theorem restSrc_not_sorted (c : Cons) : (restSrc t c).sorted = false := by
  unfold restSrc
  split
  · rfl
  · split
    · rfl
    · split
      · split <;> rfl
      · rfl

theorem pickSource_sorted (c : Cons) (sort : SortT) (h : (pickSource t c sort).sorted = true) :
    onlyMatchesPermanode c = true ∧
      ((sort = .lastModDesc ∧ pickSource t c sort = .lastmod) ∨ (sort = .createdDesc ∧ pickSource t c sort = .created)) := by
  rw [pickSource_eq] at h ⊢
  cases ho : onlyMatchesPermanode c with
  | false => simp [ho, restSrc_not_sorted] at h
  | true =>
    simp only [ho, if_true, true_and] at h ⊢
    cases sort
    case lastModDesc => exact Or.inl ⟨rfl, rfl⟩
    case createdDesc => exact Or.inr ⟨rfl, rfl⟩
    all_goals (exfalso; simp only at h; split at h
               · simp [Src.sorted] at h
               · rw [restSrc_not_sorted] at h; cases h)

theorem pickSource_only_created (c : Cons) (h : onlyMatchesPermanode c = true) :
    pickSource t c .createdDesc = .created := by rw [pickSource_eq]; simp [h]

theorem pickSource_only_lastmod (c : Cons) (h : onlyMatchesPermanode c = true) :
    pickSource t c .lastModDesc = .lastmod := by rw [pickSource_eq]; simp [h]

theorem candidates_unsorted (src : Src) (h : src.sorted = false) : ∃ p, candidates w src = w.blobs.filter p := by
  cases src with
  | lastmod => simp [Src.sorted] at h
  | created => simp [Src.sorted] at h
  | all =>
    refine ⟨fun _ => true, ?_⟩
    simp only [candidates]
    exact (List.filter_eq_self.mpr (by simp)).symm
  | _ => exact ⟨_, rfl⟩

theorem filter_filter_of_imp {α : Type} (ψ p : α → Bool) (l : List α) (h : ∀ b ∈ l, ψ b = true → p b = true) :
    (l.filter p).filter ψ = l.filter ψ := by
  rw [List.filter_filter]
  apply List.filter_congr
  intro b hb
  cases hψ : ψ b with
  | false => simp
  | true => simp [h b hb hψ]

theorem timedOK_mem (c : Cons) (h : timedOK t w c = true) (b : BlobMeta) (hb : b ∈ w.blobs)
    (hm : matchesC t w c b = true) :
    w.hasClaims b.ref = true ∧ w.isDeleted b.ref = false ∧ w.anyTime b.ref ≠ 0 ∧ w.modTime b.ref ≠ 0 := by
  simp only [timedOK, List.all_eq_true] at h
  have := h b hb
  simp only [hm, Bool.not_true, Bool.false_or, Bool.and_eq_true, Bool.not_eq_true', bne_iff_ne, ne_eq] at this
  exact ⟨this.1.1.1, this.1.1.2, this.1.2, this.2⟩

/-- the sorted sources, filtered by a matcher that only accepts what they know, are the sorted matches -/
theorem filter_sortedPermanodes (c : Cons) (h : timedOK t w c = true) (key : Ref → Time)
    (hk : key = w.anyTime ∨ key = w.modTime) :
    (sortedPermanodes w key).filter (matchesC t w c) = isort (ltTimeRefDesc key) (w.blobs.filter (matchesC t w c)) := by
  unfold sortedPermanodes
  rw [filter_isort (sw_timeRefDesc key), filter_filter_of_imp]
  intro b hb hm
  obtain ⟨h1, h2, h3, h4⟩ := timedOK_mem t w c h b hb hm
  rcases hk with rfl | rfl <;> simp [h1, h2, h3, h4]

theorem take_if_longer {α : Type} (l : List α) (n : Nat) :
    (if l.length > n then l.take n else l) = l.take n := by
  split
  · rfl
  · exact (List.take_of_length_le (by omega)).symm

/-- the truncation at the end of Query (query.go:1165-1182) against "the first limit of all" -/
theorem finish_eq (src : Src) (nm : Bool) (lim : Int) (res : List BlobMeta) :
    (if (nm && decide (lim > 0) && decide (res.length > lim.toNat)) = true
      then (Except.ok (src, res.take lim.toNat) : Except Err (Src × List BlobMeta)) else .ok (src, res)) =
    .ok (src, if (nm && decide (lim > 0)) = true then res.take lim.toNat else res) := by
  cases nm <;> by_cases hl : lim > 0 <;> simp [hl]
  intro h
  exact (List.take_of_length_le h).symm

theorem specLt_false_isort (s : SortT) (l : List BlobMeta)
    (hs : s = .unspec ∨ s = .unsorted ∨ s = .map) : isort (specLt w s) l = l := by
  rcases hs with rfl | rfl | rfl <;> exact isort_false l

/-- **Query returns the first `limit` of the matching blobs in the order of the sort**, when the
matcher computes the documented meaning, the sort is supported for the query and – for the sorts by
time – every match is a permanode the sorted enumerations know -/
theorem query_eq_spec (q : Query) (hx : PrefixExact t w)
    (hvalid : validC q.c = true) (hnil : q.c.isNil = false) (hM : MatcherOK t w q.c)
    (hsup : q.supported = true) (htimed : q.timeSorted = true → timedOK t w q.c = true) :
    query t w q = .ok (pickSource t q.c q.plannedSort, specResult t w q) := by
  have hpos : q.plannedLimit > 0 → 0 < q.plannedLimit.toNat := by intro h; omega
  unfold query specResult
  simp only [hvalid, hnil, Bool.not_true, Bool.or_false, Bool.false_eq_true, if_false]
  cases hsrt : (pickSource t q.c q.plannedSort).sorted with
  | true =>
    obtain ⟨honly, hcase⟩ := pickSource_sorted t q.c q.plannedSort hsrt
    have hts : q.timeSorted = true := by
      rcases hcase with ⟨h, _⟩ | ⟨h, _⟩ <;> simp [Query.timeSorted, h]
    have hto := htimed hts
    have hnm : (q.plannedSort != .map) = true := by
      rcases hcase with ⟨h, _⟩ | ⟨h, _⟩ <;> simp [h]
    have hcand : (candidates w (pickSource t q.c q.plannedSort)).filter (matchesC t w q.c) =
        isort (specLt w q.plannedSort) (w.blobs.filter (matchesC t w q.c)) := by
      rcases hcase with ⟨h, h'⟩ | ⟨h, h'⟩
      · rw [h', h]; exact filter_sortedPermanodes t w q.c hto _ (Or.inr rfl)
      · rw [h', h]; exact filter_sortedPermanodes t w q.c hto _ (Or.inl rfl)
    simp only [hnm, Bool.true_and, Bool.and_true]
    by_cases hl : q.plannedLimit > 0
    · simp only [hl, decide_true, if_true]
      rw [collect_stop _ _ hM _ _ _ _ (by simpa using hpos hl)]
      simp [hcand]
    · simp only [hl, decide_false, Bool.false_eq_true, if_false]
      rw [collect_all _ _ hM]
      simp [hcand]
  | false =>
    simp only [Bool.and_false, Bool.false_eq_true, if_false]
    rw [collect_all _ _ hM]
    obtain ⟨p, hp⟩ := candidates_unsorted w _ hsrt
    have hcand : (candidates w (pickSource t q.c q.plannedSort)).filter (matchesC t w q.c) =
        w.blobs.filter (matchesC t w q.c) := by
      rw [hp]
      apply filter_filter_of_imp
      intro b hb hm
      have := planner_sound_unsorted t w hx q.c q.plannedSort b hb hm hsrt
      rw [hp] at this
      exact (List.mem_filter.mp this).2
    simp only [List.reverse_nil, List.nil_append, hcand]
    cases hs : q.plannedSort with
    | unspec | unsorted | map =>
      simp only [specLt, isort_false]
      exact finish_eq _ _ _ _
    | blobRefAsc =>
      simp only [specLt]
      exact finish_eq _ _ _ _
    | createdAsc =>
      have honly : onlyMatchesPermanode q.c = true := by simpa [Query.supported, hs] using hsup
      have hto := htimed (by simp [Query.timeSorted, hs])
      have hany : ((w.blobs.filter (matchesC t w q.c)).any fun b => w.anyTime b.ref == 0) = false := by
        rw [List.any_eq_false]
        intro b hb
        obtain ⟨hb1, hb2⟩ := List.mem_filter.mp hb
        simpa using (timedOK_mem t w q.c hto b hb1 hb2).2.2.1
      simp only [specLt, honly, hany, Bool.not_true, Bool.and_false, Bool.false_eq_true, if_false, beq_self_eq_true, if_true]
      exact finish_eq _ _ _ _
    | createdDesc =>
      exfalso
      have honly : onlyMatchesPermanode q.c = true := by simpa [Query.supported, hs] using hsup
      rw [hs, pickSource_only_created t q.c honly] at hsrt
      cases hsrt
    | lastModDesc =>
      exfalso
      have honly : onlyMatchesPermanode q.c = true := by simpa [Query.supported, hs] using hsup
      rw [hs, pickSource_only_lastmod t q.c honly] at hsrt
      cases hsrt
    | lastModAsc => simp [Query.supported, hs] at hsup

/-! ### no duplicates, whatever the matcher does -/

def RefsNodup (l : List BlobMeta) : Prop := (l.map (·.ref)).Nodup

theorem RefsNodup.sublist {l l' : List BlobMeta} (h : RefsNodup l) (hs : l'.Sublist l) : RefsNodup l' :=
  List.Nodup.sublist (hs.map _) h

theorem RefsNodup.perm {l l' : List BlobMeta} (h : RefsNodup l) (hp : l'.Perm l) : RefsNodup l' :=
  (hp.map _).nodup_iff.mpr h

theorem candidates_nodup (hw : RefsNodup w.blobs) (src : Src) : RefsNodup (candidates w src) := by
  cases src <;> simp only [candidates, sortedPermanodes]
  case lastmod => exact (hw.sublist List.filter_sublist).perm (isort_perm _ _)
  case created => exact (hw.sublist List.filter_sublist).perm (isort_perm _ _)
  case all => exact hw
  all_goals exact hw.sublist List.filter_sublist

/-- the sorting Query does after an enumeration that is not pre-sorted (query.go:1120-1164) -/
def postSort (w : World) (c : Cons) (sort : SortT) (res : List BlobMeta) : Except Err (List BlobMeta) :=
  match sort with
  | .unspec | .unsorted | .map => .ok res
  | .blobRefAsc => .ok (isort ltRef res)
  | .createdDesc | .createdAsc =>
    if !onlyMatchesPermanode c then .error .ctimeNonPermanode
    else if res.length ≥ 2 && res.any (fun b => w.anyTime b.ref == 0) then .error .noTime
    else if sort == .createdAsc then .ok (isort (fun a b => decide (w.anyTime a.ref < w.anyTime b.ref)) res)
    else .ok (isort (fun a b => decide (w.anyTime b.ref < w.anyTime a.ref)) res)
  | _ => .error .unsupportedSort

theorem query_unfold (q : Query) :
    query t w q =
      if !validC q.c || q.c.isNil then .error .invalid else
      match collect (matchC t w q.c)
          (if q.plannedSort != .map && q.plannedLimit > 0 && (pickSource t q.c q.plannedSort).sorted
            then some q.plannedLimit.toNat else none)
          (candidates w (pickSource t q.c q.plannedSort)) [] St.init with
      | .error e => .error e
      | .ok res =>
        if (pickSource t q.c q.plannedSort).sorted then .ok (pickSource t q.c q.plannedSort, res) else
        match postSort w q.c q.plannedSort res with
        | .error e => .error e
        | .ok res =>
          if q.plannedSort != .map && q.plannedLimit > 0 && res.length > q.plannedLimit.toNat
          then .ok (pickSource t q.c q.plannedSort, res.take q.plannedLimit.toNat)
          else .ok (pickSource t q.c q.plannedSort, res) := by
  unfold query postSort
  rfl

theorem postSort_perm (c : Cons) (sort : SortT) (r r' : List BlobMeta) (h : postSort w c sort r = .ok r') :
    r'.Perm r := by
  cases sort <;> simp only [postSort] at h
  all_goals first
    | (cases h; exact List.Perm.refl _)
    | (cases h; exact isort_perm _ _)
    | cases h
    | (split at h
       · cases h
       · split at h
         · cases h
         · first
           | (cases h; exact isort_perm _ _)
           | (split at h <;> (cases h; exact isort_perm _ _)))

/-- **no blob is returned twice**: every enumeration visits a blob once, the callback collects a
selection, sorting permutes, truncation selects -/
theorem query_nodup (q : Query) (hw : RefsNodup w.blobs) (src : Src) (res : List BlobMeta)
    (h : query t w q = .ok (src, res)) : RefsNodup res := by
  rw [query_unfold] at h
  split at h
  · cases h
  · split at h
    · cases h
    · rename_i r hc
      obtain ⟨l', hl', hr⟩ := collect_sublist _ _ _ _ _ _ hc
      have hr' : RefsNodup r := by
        rw [hr]; simpa using (candidates_nodup w hw _).sublist hl'
      split at h
      · simp only [Except.ok.injEq, Prod.mk.injEq] at h
        rw [← h.2]; exact hr'
      · split at h
        · cases h
        · rename_i res' hps
          have hres' : RefsNodup res' := hr'.perm (postSort_perm w _ _ _ _ hps)
          split at h <;> simp only [Except.ok.injEq, Prod.mk.injEq] at h <;> rw [← h.2]
          · exact hres'.sublist (List.take_sublist _ _)
          · exact hres'

end QuerySpec

end Pk.Search
