import PkVerif.Model.Replica
import PkVerif.Lemmas.MergedEnum
/-!
# Lemmas about the replica model (core Lean only)
-/
namespace Pk.Replica
open Pk.MergedEnum

/-! ## sub-stores -/

theorem get?_isSome_iff (s : Store) (k : Bytes) : s.has k = true ↔ k ∈ keys s := by
  unfold Store.has Store.get?
  cases h : s.find? (fun e => e.1 == k) with
  | none =>
    simp only [Option.isSome_none, Bool.false_eq_true, false_iff]
    intro hk
    obtain ⟨x, hx, rfl⟩ := List.mem_map.mp hk
    have := List.find?_eq_none.mp h x hx
    simp at this
  | some e =>
    simp only [Option.isSome_some, true_iff]
    have h1 := List.mem_of_find?_eq_some h
    have h2 := List.find?_some h
    have : e.1 = k := by simpa using h2
    exact List.mem_map.mpr ⟨e, h1, this⟩

theorem keys_insert (e : SR) (s : Store) (k : Bytes) :
    k ∈ keys (Store.insert e s) ↔ k = e.1 ∨ k ∈ keys s := by
  induction s with
  | nil => simp [Store.insert, keys]
  | cons a t ih =>
    simp only [Store.insert]
    split
    · simp [keys]
    · split
      · rename_i h
        have : e.1 = a.1 := eq_of_beq h
        simp only [keys, List.map_cons, List.mem_cons]
        constructor
        · rintro (g | g)
          · exact Or.inl g
          · exact Or.inr (Or.inr g)
        · rintro (g | g | g)
          · exact Or.inl g
          · left; rw [g, this]
          · exact Or.inr g
      · simp only [keys, List.map_cons, List.mem_cons] at ih ⊢
        rw [ih]
        constructor
        · rintro (g | g | g)
          · exact Or.inr (Or.inl g)
          · exact Or.inl g
          · exact Or.inr (Or.inr g)
        · rintro (g | g | g)
          · exact Or.inr (Or.inl g)
          · exact Or.inl g
          · exact Or.inr (Or.inr g)

theorem has_insert_self (e : SR) (s : Store) : (Store.insert e s).has e.1 = true :=
  (get?_isSome_iff _ _).mpr ((keys_insert e s e.1).mpr (Or.inl rfl))

/-- after receiving a copy the sub-store holds exactly that copy -/
theorem get?_insert_self (e : SR) (s : Store) : (Store.insert e s).get? e.1 = some e.2 := by
  induction s with
  | nil => simp [Store.insert, Store.get?]
  | cons a t ih =>
    simp only [Store.insert]
    split
    · simp [Store.get?]
    · split
      · simp [Store.get?]
      · rename_i hne
        have hne' : (a.1 == e.1) = false := by
          cases h : a.1 == e.1 with
          | false => rfl
          | true => have := eq_of_beq h; rw [this] at hne; simp at hne
        unfold Store.get? at ih ⊢
        simp only [List.find?_cons, hne']
        exact ih

theorem has_insert_of_has (e : SR) (s : Store) (k : Bytes) (h : s.has k = true) :
    (Store.insert e s).has k = true :=
  (get?_isSome_iff _ _).mpr ((keys_insert e s k).mpr (Or.inr ((get?_isSome_iff _ _).mp h)))

theorem mem_insert (e x : SR) (s : Store) (h : x ∈ Store.insert e s) : x = e ∨ x ∈ s := by
  induction s with
  | nil => simp [Store.insert] at h; exact Or.inl h
  | cons a t ih =>
    simp only [Store.insert] at h
    split at h
    · simp only [List.mem_cons] at h ⊢
      rcases h with g | g | g
      · exact Or.inl g
      · exact Or.inr (Or.inl g)
      · exact Or.inr (Or.inr g)
    · split at h
      · simp only [List.mem_cons] at h ⊢
        rcases h with g | g
        · exact Or.inl g
        · exact Or.inr (Or.inr g)
      · simp only [List.mem_cons] at h ⊢
        rcases h with g | g
        · exact Or.inr (Or.inl g)
        · rcases ih g with g' | g'
          · exact Or.inl g'
          · exact Or.inr (Or.inr g')

/-- a sub-store stays strictly ascending (so: duplicate-free) when it receives a blob -/
theorem insert_pw (e : SR) (s : Store) (h : PW s) : PW (Store.insert e s) := by
  induction s with
  | nil => simp [Store.insert, PW]
  | cons a t ih =>
    obtain ⟨h1, h2⟩ := List.pairwise_cons.mp h
    simp only [Store.insert]
    split
    · rename_i hea
      refine List.pairwise_cons.mpr ⟨?_, h⟩
      intro x hx
      cases hx with
      | head => exact hea
      | tail _ hx' => exact ltB_trans _ _ _ hea (h1 x hx')
    · split
      · rename_i heq
        have : e.1 = a.1 := eq_of_beq heq
        refine List.pairwise_cons.mpr ⟨?_, h2⟩
        intro x hx; rw [this]; exact h1 x hx
      · rename_i hea hne
        have hae : ltB a.1 e.1 = true := by
          rcases ltB_total a.1 e.1 with g | g | g
          · exact g
          · rw [g] at hne; simp at hne
          · rw [g] at hea; exact absurd rfl hea
        refine List.pairwise_cons.mpr ⟨?_, ih h2⟩
        intro x hx
        rcases mem_insert e x t hx with g | g
        · subst g; exact hae
        · exact h1 x g

theorem remove_pw (ks : List Bytes) (s : Store) (h : PW s) : PW (Store.remove ks s) :=
  List.Pairwise.filter _ h

/-! ## the tally -/

theorem tally_ack_iff (min size : Nat) (arr : List Res) : ∀ (n : Nat) (e : Option Fail) (c : Nat),
    n < min → ((tally min size arr n e c).isAck = true ↔ min ≤ n + (arr.filter (Res.good size)).length) := by
  induction arr with
  | nil =>
    intro n e c hn
    cases e <;> simp [tally, RecvOut.isAck] <;> omega
  | cons r rest ih =>
    intro n e c hn
    cases hr : r.reply with
    | err =>
      have hg : Res.good size r = false := by simp [Res.good, hr]
      simp only [tally, hr, List.filter_cons, hg]
      exact ih n _ _ hn
    | ok sz =>
      by_cases hsz : sz = size
      · have hg : Res.good size r = true := by simp [Res.good, hr, hsz]
        simp only [tally, hr, hsz, if_true, List.filter_cons, hg, List.length_cons]
        by_cases hm : n + 1 = min
        · simp only [hm, if_true, RecvOut.isAck, true_iff]; omega
        · simp only [hm, if_false]
          rw [ih (n + 1) _ _ (by omega)]
          omega
      · have hg : Res.good size r = false := by simp [Res.good, hr, hsz]
        simp only [tally, hr, hsz, if_false, List.filter_cons, hg]
        exact ih n _ _ hn

/-- falling out of the loop with a nil error means: no failure at all -/
theorem tally_zero (min size : Nat) (arr : List Res) : ∀ (n : Nat) (e : Option Fail) (c : Nat),
    tally min size arr n e c = .zero → e = none ∧ (arr.filter (Res.good size)).length = arr.length := by
  induction arr with
  | nil =>
    intro n e c h
    cases e with
    | none => simp
    | some f => simp [tally] at h
  | cons r rest ih =>
    intro n e c h
    cases hr : r.reply with
    | err =>
      simp only [tally, hr] at h
      have := (ih _ _ _ h).1
      cases this
    | ok sz =>
      by_cases hsz : sz = size
      · have hg : Res.good size r = true := by simp [Res.good, hr, hsz]
        simp only [tally, hr, hsz, if_true] at h
        by_cases hm : n + 1 = min
        · simp [hm] at h
        · simp only [hm, if_false] at h
          obtain ⟨h1, h2⟩ := ih _ _ _ h
          exact ⟨h1, by simp [hg, h2]⟩
      · simp only [tally, hr, hsz, if_false] at h
        have := (ih _ _ _ h).1
        cases this

/-- when `ReceiveBlob` acknowledges, `min` good results are among those it had consumed -/
theorem tally_ack_consumed (min size : Nat) (arr : List Res) : ∀ (n : Nat) (e : Option Fail) (c idx c' : Nat),
    n < min → tally min size arr n e c = .ack idx c' →
    c ≤ c' ∧ c' - c ≤ arr.length ∧ min ≤ n + ((arr.take (c' - c)).filter (Res.good size)).length := by
  induction arr with
  | nil =>
    intro n e c idx c' _ h
    cases e <;> simp [tally] at h
  | cons r rest ih =>
    intro n e c idx c' hn h
    have step : ∀ m, c + 1 ≤ c' → c' - (c + 1) ≤ rest.length →
        min ≤ m + ((rest.take (c' - (c + 1))).filter (Res.good size)).length →
        c ≤ c' ∧ c' - c ≤ (r :: rest).length ∧
          m + ((rest.take (c' - (c + 1))).filter (Res.good size)).length
            = m + ((rest.take (c' - (c + 1))).filter (Res.good size)).length ∧
          (r :: rest).take (c' - c) = r :: rest.take (c' - (c + 1)) := by
      intro m h1 h2 _
      refine ⟨by omega, by simp only [List.length_cons]; omega, rfl, ?_⟩
      have : c' - c = (c' - (c + 1)) + 1 := by omega
      rw [this, List.take_succ_cons]
    cases hr : r.reply with
    | err =>
      have hg : Res.good size r = false := by simp [Res.good, hr]
      simp only [tally, hr] at h
      obtain ⟨h1, h2, h3⟩ := ih _ _ _ _ _ hn h
      obtain ⟨g1, g2, _, g4⟩ := step n h1 h2 h3
      refine ⟨g1, g2, ?_⟩
      rw [g4, List.filter_cons, hg]; exact h3
    | ok sz =>
      by_cases hsz : sz = size
      · have hg : Res.good size r = true := by simp [Res.good, hr, hsz]
        simp only [tally, hr, hsz, if_true] at h
        by_cases hm : n + 1 = min
        · simp only [hm, if_true, RecvOut.ack.injEq] at h
          obtain ⟨_, hc⟩ := h
          subst hc
          refine ⟨by omega, by simp, ?_⟩
          have : c + 1 - c = 1 := by omega
          rw [this]
          simp [hg]; omega
        · simp only [hm, if_false] at h
          obtain ⟨h1, h2, h3⟩ := ih _ _ _ _ _ (by omega) h
          obtain ⟨g1, g2, _, g4⟩ := step (n + 1) h1 h2 h3
          refine ⟨g1, g2, ?_⟩
          rw [g4, List.filter_cons, hg]
          simp only [if_true, List.length_cons]; omega
      · have hg : Res.good size r = false := by simp [Res.good, hr, hsz]
        simp only [tally, hr, hsz, if_false] at h
        obtain ⟨h1, h2, h3⟩ := ih _ _ _ _ _ hn h
        obtain ⟨g1, g2, _, g4⟩ := step n h1 h2 h3
        refine ⟨g1, g2, ?_⟩
        rw [g4, List.filter_cons, hg]; exact h3

theorem filter_length_mono {α : Type} (p q : α → Bool) (l : List α) (h : ∀ x ∈ l, p x = true → q x = true) :
    (l.filter p).length ≤ (l.filter q).length := by
  induction l with
  | nil => simp
  | cons a t ih =>
    have iht := ih (fun x hx => h x (List.mem_cons_of_mem _ hx))
    have ha := h a (by simp)
    simp only [List.filter_cons]
    cases hp : p a <;> cases hq : q a <;> simp_all <;> omega

/-! ## storeAt -/

theorem storeAt_length (subs : List Sub) (ids : List Nat) (e : SR) :
    (storeAt subs ids e).length = subs.length := by simp [storeAt]

theorem storeAt_has (subs : List Sub) (ids : List Nat) (e : SR) (i : Nat) (hi : i ∈ ids)
    (hlt : i < subs.length) :
    ((storeAt subs ids e).getD i ⟨[], false⟩).store.has e.1 = true := by
  simp only [storeAt, List.getD_eq_getElem?_getD, List.getElem?_mapIdx]
  have : subs[i]? = some subs[i] := List.getElem?_eq_getElem hlt
  simp [this, hi, has_insert_self]

theorem storeAt_get (subs : List Sub) (ids : List Nat) (e : SR) (i : Nat) (hi : i ∈ ids)
    (hlt : i < subs.length) :
    ((storeAt subs ids e).getD i ⟨[], false⟩).store.get? e.1 = some e.2 := by
  simp only [storeAt, List.getD_eq_getElem?_getD, List.getElem?_mapIdx]
  have : subs[i]? = some subs[i] := List.getElem?_eq_getElem hlt
  simp [this, hi, get?_insert_self]

theorem storeAt_keeps (subs : List Sub) (ids : List Nat) (e : SR) (i : Nat) (k : Bytes)
    (h : (subs.getD i ⟨[], false⟩).store.has k = true) :
    ((storeAt subs ids e).getD i ⟨[], false⟩).store.has k = true := by
  simp only [storeAt, List.getD_eq_getElem?_getD, List.getElem?_mapIdx] at h ⊢
  cases hs : subs[i]? with
  | none => simp [hs, Store.has, Store.get?] at h
  | some s =>
    simp only [hs, Option.getD_some, Option.map_some] at h ⊢
    split
    · exact has_insert_of_has e _ k h
    · exact h

theorem idsOf_length (writes ps : List Nat) (h : ∀ p ∈ ps, p < writes.length) :
    (idsOf writes ps).length = ps.length := by
  induction ps with
  | nil => rfl
  | cons p t ih =>
    have hlt : p < writes.length := h p (by simp)
    have hp : writes[p]? = some (writes[p]'hlt) := List.getElem?_eq_getElem hlt
    have := ih (fun q hq => h q (List.mem_cons_of_mem _ hq))
    simp only [idsOf] at this ⊢
    simp [hp, this]

/-! ## Fetch -/

theorem sub_fetch_ok (s : Sub) (k : Bytes) (sz : Nat) :
    s.fetch k = .ok sz ↔ s.down = false ∧ s.store.get? k = some sz := by
  unfold Sub.fetch
  cases hd : s.down <;> cases hg : s.store.get? k <;> simp

theorem sub_fetch_ok_iff_has (s : Sub) (k : Bytes) :
    (∃ sz, s.fetch k = .ok sz) ↔ s.down = false ∧ s.store.has k = true := by
  unfold Sub.fetch Store.has
  cases hd : s.down <;> cases hg : s.store.get? k <;> simp

theorem fetchLoop_ok_iff (k : Bytes) (reads : List Sub) : ∀ (e f : Option FetchErr) (t : Nat),
    (∃ sz t', fetchLoop k reads e f t = .ok sz t') ↔ ∃ s ∈ reads, s.down = false ∧ s.store.has k = true := by
  induction reads with
  | nil => intro e f t; cases e <;> cases f <;> simp [fetchLoop]
  | cons s rest ih =>
    intro e f t
    cases hf : s.fetch k with
    | ok sz =>
      have := (sub_fetch_ok_iff_has s k).mp ⟨sz, hf⟩
      simp only [fetchLoop, hf]
      exact ⟨fun _ => ⟨s, by simp, this⟩, fun _ => ⟨sz, t + 1, rfl⟩⟩
    | error er =>
      have hno : ¬ (s.down = false ∧ s.store.has k = true) := by
        intro h
        obtain ⟨sz, h'⟩ := (sub_fetch_ok_iff_has s k).mpr h
        rw [hf] at h'; cases h'
      simp only [fetchLoop, hf]
      rw [ih]
      constructor
      · rintro ⟨s', hs', h'⟩; exact ⟨s', List.mem_cons_of_mem _ hs', h'⟩
      · rintro ⟨s', hs', h'⟩
        cases hs' with
        | head => exact absurd h' hno
        | tail _ g => exact ⟨s', g, h'⟩

theorem fetchLoop_ne_nilNil (k : Bytes) (reads : List Sub) : ∀ (e f : Option FetchErr) (t : Nat),
    (reads ≠ [] ∨ e ≠ none) → fetchLoop k reads e f t ≠ .nilNil := by
  induction reads with
  | nil =>
    intro e f t h
    cases f with
    | some g => simp [fetchLoop]
    | none =>
      cases e with
      | none => rcases h with h | h <;> exact absurd rfl h
      | some g => simp [fetchLoop]
  | cons s rest ih =>
    intro e f t _
    cases hf : s.fetch k with
    | ok sz => simp [fetchLoop, hf]
    | error er =>
      simp only [fetchLoop, hf]
      exact ih _ _ _ (Or.inr (by simp))

/-- the size handed out is the size some reachable read replica holds -/
theorem fetchLoop_ok_size (k : Bytes) (reads : List Sub) : ∀ (e f : Option FetchErr) (t sz t' : Nat),
    fetchLoop k reads e f t = .ok sz t' → ∃ s ∈ reads, s.down = false ∧ s.store.get? k = some sz := by
  induction reads with
  | nil => intro e f t sz t' h; cases e <;> cases f <;> simp [fetchLoop] at h
  | cons s rest ih =>
    intro e f t sz t' h
    cases hf : s.fetch k with
    | ok sz0 =>
      simp only [fetchLoop, hf, FetchOut.ok.injEq] at h
      obtain ⟨h1, _⟩ := h
      subst h1
      exact ⟨s, by simp, (sub_fetch_ok s k sz0).mp hf⟩
    | error er =>
      simp only [fetchLoop, hf] at h
      obtain ⟨s', hs', g⟩ := ih _ _ _ _ _ h
      exact ⟨s', List.mem_cons_of_mem _ hs', g⟩

/-- a miss is reported as "not exist" only if no failure was remembered and every replica still to be
asked answers "not exist" -/
theorem fetchLoop_notExist (k : Bytes) (reads : List Sub) : ∀ (e f : Option FetchErr) (t t' : Nat),
    f ≠ some .notExist → fetchLoop k reads e f t = .err .notExist t' →
    f = none ∧ ∀ s ∈ reads, s.fetch k = .error .notExist := by
  induction reads with
  | nil =>
    intro e f t t' hf h
    cases f with
    | some g =>
      simp only [fetchLoop, FetchOut.err.injEq] at h
      exact absurd (by rw [h.1]) hf
    | none => exact ⟨rfl, by simp⟩
  | cons s rest ih =>
    intro e f t t' hf h
    cases hs : s.fetch k with
    | ok sz => simp [fetchLoop, hs] at h
    | error er =>
      simp only [fetchLoop, hs] at h
      have hinv : (if f.isNone && er != .notExist then some er else f) ≠ some .notExist := by
        split
        · rename_i hc
          simp only [Bool.and_eq_true, bne_iff_ne, ne_eq] at hc
          intro g; exact hc.2 (Option.some.inj g)
        · exact hf
      obtain ⟨h1, h2⟩ := ih _ _ _ _ hinv h
      have hfn : f = none ∧ er = .notExist := by
        cases f with
        | some g => simp at h1
        | none =>
          refine ⟨rfl, ?_⟩
          cases er with
          | notExist => rfl
          | down => simp at h1
      refine ⟨hfn.1, ?_⟩
      intro s' hs'
      cases hs' with
      | head => rw [hs, hfn.2]
      | tail _ g => exact h2 s' g

/-- if no replica still to be asked serves the blob and a failure is remembered or one of them is
down, the answer is that failure -/
theorem fetchLoop_down (k : Bytes) (reads : List Sub) : ∀ (e f : Option FetchErr) (t : Nat),
    (∀ s ∈ reads, ¬ (s.down = false ∧ s.store.has k = true)) →
    (f = some .down ∨ (f = none ∧ ∃ s ∈ reads, s.down = true)) →
    ∃ t', fetchLoop k reads e f t = .err .down t' := by
  induction reads with
  | nil =>
    intro e f t _ h
    rcases h with h | ⟨_, s, hs, _⟩
    · subst h; exact ⟨t, rfl⟩
    · cases hs
  | cons s rest ih =>
    intro e f t hno h
    cases hs : s.fetch k with
    | ok sz => exact absurd ((sub_fetch_ok_iff_has s k).mp ⟨sz, hs⟩) (hno s (by simp))
    | error er =>
      simp only [fetchLoop, hs]
      apply ih _ _ _ (fun s' hs' => hno s' (List.mem_cons_of_mem _ hs'))
      rcases h with h | ⟨hf, s', hs', hd⟩
      · subst h; left; simp
      · subst hf
        cases er with
        | down => left; simp
        | notExist =>
          right
          refine ⟨by simp, ?_⟩
          cases hs' with
          | head => simp [Sub.fetch, hd] at hs
          | tail _ g => exact ⟨s', g, hd⟩

/-! ## StatBlobs -/

theorem statFold_spec (reports : List SR) : ∀ (need : List Bytes),
    (keys (statFold need reports)).Nodup ∧
    ∀ k, k ∈ keys (statFold need reports) ↔ k ∈ need ∧ k ∈ keys reports := by
  induction reports with
  | nil => intro need; simp [statFold, keys]
  | cons sb rest ih =>
    intro need
    by_cases hn : need.contains sb.1 = true
    · have hmem : sb.1 ∈ need := by simpa using hn
      obtain ⟨ih1, ih2⟩ := ih (need.filter (· != sb.1))
      simp only [statFold, hn, if_true, keys, List.map_cons] at ih1 ih2 ⊢
      constructor
      · refine List.nodup_cons.mpr ⟨?_, ih1⟩
        intro hk
        have := ((ih2 sb.1).mp hk).1
        simp at this
      · intro k
        simp only [List.mem_cons, ih2, List.mem_filter]
        constructor
        · rintro (h | ⟨⟨h1, _⟩, h3⟩)
          · subst h; exact ⟨hmem, Or.inl rfl⟩
          · exact ⟨h1, Or.inr h3⟩
        · rintro ⟨h1, h2 | h2⟩
          · exact Or.inl h2
          · by_cases hk : k = sb.1
            · exact Or.inl hk
            · exact Or.inr ⟨⟨h1, by simpa using hk⟩, h2⟩
    · have hn' : need.contains sb.1 = false := by simpa using hn
      have hmem : sb.1 ∉ need := by simpa using hn
      obtain ⟨ih1, ih2⟩ := ih need
      have e : statFold need (sb :: rest) = statFold need rest := by
        simp only [statFold, hn', Bool.false_eq_true, if_false]
      rw [e]
      refine ⟨ih1, ?_⟩
      intro k
      rw [ih2]
      simp only [keys, List.map_cons, List.mem_cons]
      constructor
      · rintro ⟨h1, h2⟩; exact ⟨h1, Or.inr h2⟩
      · rintro ⟨h1, h2 | h2⟩
        · subst h2; exact absurd h1 hmem
        · exact ⟨h1, h2⟩

/-- whatever is passed to the caller's `fn` is one of the reports -/
theorem statFold_subset (reports : List SR) : ∀ (need : List Bytes), ∀ e ∈ statFold need reports, e ∈ reports := by
  induction reports with
  | nil => intro need e he; simp [statFold] at he
  | cons sb rest ih =>
    intro need e he
    simp only [statFold] at he
    split at he
    · cases he with
      | head => simp
      | tail _ g => exact List.mem_cons_of_mem _ (ih _ e g)
    · exact List.mem_cons_of_mem _ (ih _ e he)

theorem mem_statReports (s : Sub) (blobs : List Bytes) (e : SR) (h : e ∈ s.statReports blobs) :
    s.store.get? e.1 = some e.2 := by
  simp only [Sub.statReports, List.mem_filterMap] at h
  obtain ⟨b, _, hb⟩ := h
  cases hg : s.store.get? b with
  | none => simp [hg] at hb
  | some sz =>
    simp only [hg, Option.map_some, Option.some.injEq] at hb
    subst hb; exact hg

theorem mem_keys_statReports (s : Sub) (blobs : List Bytes) (k : Bytes) :
    k ∈ keys (s.statReports blobs) ↔ k ∈ blobs ∧ s.store.has k = true := by
  simp only [keys, Sub.statReports, List.mem_map, List.mem_filterMap, Store.has]
  constructor
  · rintro ⟨x, ⟨b, hb, hx⟩, rfl⟩
    cases hg : s.store.get? b with
    | none => simp [hg] at hx
    | some sz =>
      simp only [hg, Option.map_some, Option.some.injEq] at hx
      subst hx
      exact ⟨hb, by simp [hg]⟩
  · rintro ⟨hb, hh⟩
    cases hg : s.store.get? k with
    | none => simp [hg] at hh
    | some sz => exact ⟨(k, sz), ⟨k, hb, by simp [hg]⟩, rfl⟩

theorem mem_keys_seqReports (reads : List Sub) (blobs : List Bytes) (k : Bytes) :
    k ∈ keys (seqReports reads blobs) ↔
      k ∈ blobs ∧ ∃ s ∈ reads, s.down = false ∧ s.store.has k = true := by
  have : k ∈ keys (seqReports reads blobs) ↔
      ∃ s ∈ reads.filter (!·.down), k ∈ keys (s.statReports blobs) := by
    simp only [keys, seqReports, List.mem_map, List.mem_flatMap]
    constructor
    · rintro ⟨x, ⟨s, hs, hx⟩, rfl⟩; exact ⟨s, hs, x, hx, rfl⟩
    · rintro ⟨s, hs, x, hx, rfl⟩; exact ⟨x, ⟨s, hs, hx⟩, rfl⟩
  rw [this]
  constructor
  · rintro ⟨s, hs, hk⟩
    obtain ⟨h1, h2⟩ := List.mem_filter.mp hs
    obtain ⟨h3, h4⟩ := (mem_keys_statReports s blobs k).mp hk
    exact ⟨h3, s, h1, by simpa using h2, h4⟩
  · rintro ⟨h3, s, h1, h2, h4⟩
    exact ⟨s, List.mem_filter.mpr ⟨h1, by simp [h2]⟩, (mem_keys_statReports s blobs k).mpr ⟨h3, h4⟩⟩

end Pk.Replica
