import PkVerif.Model.BlobPacked
import PkVerif.Lemmas.MergedEnum
/-!
# Lemmas for C04 (blobpacked): the invariant, its preservation by every atomic write, and the closed
forms of the client-visible reads under the invariant.
-/
namespace Pk.BP
open Pk Pk.SMap

/-! ## maps -/

theorem kasc_setRows (rows : List (Ref × BRow)) {m : SMap BRow} (hm : KAsc m) : KAsc (setRows rows m) := by
  induction rows generalizing m with
  | nil => exact hm
  | cons p rest ih => exact ih (kasc_ins p.1 p.2 hm)

theorem get_setRows (rows : List (Ref × BRow)) (m : SMap BRow) (x : Ref) :
    get (setRows rows m) x = get m x ∨ ∃ row, (x, row) ∈ rows ∧ get (setRows rows m) x = some row := by
  induction rows generalizing m with
  | nil => left; rfl
  | cons p rest ih =>
    simp only [setRows, List.foldl_cons]
    rcases ih (ins p.1 p.2 m) with h | ⟨row, hr, hg⟩
    · simp only [setRows] at h
      rw [h, get_ins]
      by_cases hx : x = p.1
      · right; refine ⟨p.2, ?_, by simp [hx]⟩
        subst hx; exact List.mem_cons_self
      · left; simp [hx]
    · right; exact ⟨row, List.mem_cons_of_mem _ hr, hg⟩

theorem isSome_get_setRows (rows : List (Ref × BRow)) (m : SMap BRow) (x : Ref) :
    (get (setRows rows m) x).isSome = ((get m x).isSome || rows.any (fun p => p.1 == x)) := by
  induction rows generalizing m with
  | nil => simp [setRows]
  | cons p rest ih =>
    simp only [setRows, List.foldl_cons, List.any_cons]
    have := ih (ins p.1 p.2 m)
    simp only [setRows] at this
    rw [this, get_ins]
    by_cases hx : x = p.1
    · subst hx; simp
    · have : (p.1 == x) = false := by simp; exact fun e => hx e.symm
      simp [hx, this]

theorem kasc_delKeys {V : Type} (refs : List Ref) {m : SMap V} (hm : KAsc m) : KAsc (delKeys refs m) := by
  induction refs generalizing m with
  | nil => exact hm
  | cons r rest ih => exact ih (kasc_del r hm)

theorem get_delKeys {V : Type} (refs : List Ref) {m : SMap V} (hm : KAsc m) (x : Ref) :
    get (delKeys refs m) x = if x ∈ refs then none else get m x := by
  induction refs generalizing m with
  | nil => simp [delKeys]
  | cons r rest ih =>
    simp only [delKeys, List.foldl_cons]
    have := ih (kasc_del r hm)
    simp only [delKeys] at this
    rw [this, get_del r hm]
    by_cases h1 : x ∈ rest
    · simp [h1]
    · by_cases h2 : x = r
      · simp [h2]
      · simp [h1, h2]

theorem get_ins_ne {V : Type} {k x : Bytes} (v : V) (m : SMap V) (h : x ≠ k) : get (ins k v m) x = get m x := by
  rw [get_ins]; simp [h]

theorem get_ins_self {V : Type} (k : Bytes) (v : V) (m : SMap V) : get (ins k v m) k = some v := by
  rw [get_ins]; simp

/-! ## slices -/

theorem slice_length_le (b : Bytes) (off n : Nat) (h : off + n ≤ b.length) : (slice b off n).length = n := by
  simp [slice]; omega

theorem slice_slice (b : Bytes) (o n o' n' : Nat) (h : o' + n' ≤ n) (hb : o + n ≤ b.length) :
    slice (slice b o n) o' n' = slice b (o + o') n' := by
  simp only [slice, List.drop_take, List.drop_drop, List.take_take]
  congr 1
  omega

theorem slice_append_left (pre b : Bytes) (n : Nat) : slice (pre ++ b) pre.length n = b.take n := by
  simp [slice]

theorem slice_full (b : Bytes) : slice b 0 b.length = b := by simp [slice]

theorem slice_zero_len (b : Bytes) (o : Nat) : slice b o 0 = [] := by simp [slice]

theorem slice_clip (b : Bytes) (off len : Nat) (h : off + len > b.length) (ho : off ≤ b.length) :
    slice b off (b.length - off) = slice b off len := by
  simp only [slice]
  rw [List.take_of_length_le (by simp), List.take_of_length_le (by simp; omega)]

/-! ## reading a zip -/

/-- the schema regions lie at or after `pos`, in order, before `size` -/
theorem regionsOK_ge : ∀ (pos : Nat) (es : List SEntry) (size : Nat), regionsOK pos es size = true →
    ∀ e ∈ es, pos ≤ e.off
  | pos, [], _, _, e, he => by cases he
  | pos, e0 :: es, size, h, e, he => by
    simp only [regionsOK, Bool.and_eq_true, decide_eq_true_eq] at h
    cases he with
    | head => exact h.1
    | tail _ he' =>
      have := regionsOK_ge (e0.off + e0.data.length) es size h.2 e he'
      omega

/-- a range inside one schema entry (of a well-ordered list) reads as the slice of that entry -/
theorem readSchema_of_mem : ∀ (pos : Nat) (es : List SEntry) (size : Nat), regionsOK pos es size = true →
    ∀ e ∈ es, ∀ (off len : Nat), e.off ≤ off → off + len ≤ e.off + e.data.length →
      readSchema es off len = some (slice e.data (off - e.off) len)
  | pos, [], _, _, e, he, _, _, _, _ => by cases he
  | pos, e0 :: es, size, h, e, he, off, len, h1, h2 => by
    simp only [regionsOK, Bool.and_eq_true, decide_eq_true_eq] at h
    cases he with
    | head => simp [readSchema, SEntry.read, h1, h2]
    | tail _ he' =>
      have hge := regionsOK_ge _ es size h.2 e he'
      have ih := readSchema_of_mem _ es size h.2 e he' off len h1 h2
      simp only [readSchema, SEntry.read]
      by_cases hc : e0.off ≤ off ∧ off + len ≤ e0.off + e0.data.length
      · -- the range also fits the earlier entry: it must be empty, and both answers are []
        have hl : len = 0 := by omega
        subst hl
        have hc' : off ≤ e0.off + e0.data.length := by omega
        simp [hc.1, hc', slice_zero_len]
      · simp only [hc, if_false]; exact ih

/-- the static well-formedness of a stored zip, relative to the content function `C` -/
structure ZipWF (C : Ref → Bytes) (z : Zip) : Prop where
  regions : regionsOK (z.dataStart + z.data.length) z.schema z.size = true
  data : ∀ e ∈ z.dataBlobs, e.off + e.size ≤ z.data.length ∧ slice z.data e.off e.size = C e.ref ∧
    e.size = (C e.ref).length
  schema : ∀ e ∈ z.schema, e.data = C e.ref

theorem Zip.read_data (z : Zip) (off len : Nat) (h1 : z.dataStart ≤ off)
    (h2 : off + len ≤ z.dataStart + z.data.length) :
    z.read off len = some (slice z.data (off - z.dataStart) len) := by
  simp [Zip.read, h1, h2]

theorem Zip.read_schema {C : Ref → Bytes} {z : Zip} (hz : ZipWF C z) (e : SEntry) (he : e ∈ z.schema)
    (off len : Nat) (h1 : e.off ≤ off) (h2 : off + len ≤ e.off + e.data.length) :
    z.read off len = some (slice e.data (off - e.off) len) := by
  have hs := readSchema_of_mem _ _ _ hz.regions e he off len h1 h2
  unfold Zip.read
  by_cases hc : z.dataStart ≤ off ∧ off + len ≤ z.dataStart + z.data.length
  · have hge := regionsOK_ge _ _ _ hz.regions e he
    have hl : len = 0 := by omega
    subst hl
    have hc' : off ≤ z.dataStart + z.data.length := by omega
    simp [hc.1, hc', slice_zero_len]
  · simp only [hc, if_false]; exact hs

/-- what a `b:` row of a zip promises: reading any sub-range of the row's range gives the sub-slice
of the blob's content -/
theorem row_read {C : Ref → Bytes} {zr : Ref} {z : Zip} (hz : ZipWF C z) (p : Ref × BRow)
    (hp : p ∈ zipBlobRows zr z) (off len : Nat) (h : off + len ≤ p.2.size) :
    p.2.size = (C p.1).length ∧ z.read (p.2.off + off) len = some (slice (C p.1) off len) := by
  simp only [zipBlobRows, List.mem_append, List.mem_map] at hp
  rcases hp with ⟨e, he, rfl⟩ | ⟨e, he, rfl⟩
  · obtain ⟨hb, hs, hl⟩ := hz.data e he
    refine ⟨hl, ?_⟩
    simp only at h ⊢
    rw [Zip.read_data z _ _ (by omega) (by omega), ← hs, slice_slice _ _ _ _ _ h hb]
    congr 2; omega
  · have hd := hz.schema e he
    refine ⟨by simp [hd], ?_⟩
    simp only at h ⊢
    rw [Zip.read_schema hz e he _ _ (by omega) (by omega), hd]
    congr 2; omega

/-! ## the invariant and the closed forms of the reads -/

/-- a blob is visible: it has a `b:` row or a loose copy -/
def present (s : St) (r : Ref) : Bool := (get s.b r).isSome || (get s.small r).isSome

/-- `C` is the content function (a ref denotes its bytes: blobs are content-addressed) -/
structure Inv (C : Ref → Bytes) (s : St) : Prop where
  ksmall : KAsc s.small
  kb : KAsc s.b
  klarge : KAsc s.large
  small_ok : ∀ r v, get s.small r = some v → v = C r
  b_ok : ∀ r row, get s.b r = some row → ∃ z, get s.large row.zip = some z ∧ (r, row) ∈ zipBlobRows row.zip z
  zips_ok : ∀ zr z, get s.large zr = some z → ZipWF C z

theorem inv_empty (C : Ref → Bytes) : Inv C St.empty :=
  ⟨kasc_nil, kasc_nil, kasc_nil, by intro r v h; simp [St.empty, SMap.get] at h, by intro r v h; simp [St.empty, SMap.get] at h,
   by intro r v h; simp [St.empty, SMap.get] at h⟩

theorem fetch_eq {C : Ref → Bytes} {s : St} (h : Inv C s) (r : Ref) :
    fetch s r = if present s r then .ok (C r) else .notExist := by
  unfold fetch present
  cases hb : get s.b r with
  | none =>
    cases hs : get s.small r with
    | none => simp
    | some v => simp [h.small_ok r v hs]
  | some row =>
    obtain ⟨z, hz, hm⟩ := h.b_ok r row hb
    obtain ⟨hl, hr⟩ := row_read (h.zips_ok _ z hz) (r, row) hm 0 row.size (by simp)
    simp only [Nat.add_zero] at hr
    simp only at hl
    rw [hl] at hr
    simp only [hz]
    rw [hl, hr]
    simp [slice_full]

theorem stat_eq {C : Ref → Bytes} {s : St} (h : Inv C s) (r : Ref) :
    stat s r = if present s r then some (C r).length else none := by
  unfold stat present
  cases hb : get s.b r with
  | none =>
    cases hs : get s.small r with
    | none => simp
    | some v => simp [h.small_ok r v hs]
  | some row =>
    obtain ⟨z, hz, hm⟩ := h.b_ok r row hb
    obtain ⟨hl, _⟩ := row_read (h.zips_ok _ z hz) (r, row) hm 0 0 (by simp)
    simp only at hl
    simp [hl]

/-- a batch stat calls back exactly once for every requested ref that is visible (in request order), with
the size of its content – also while the blob is both packed and still loose -/
theorem statBlobs_eq {C : Ref → Bytes} {s : St} (h : Inv C s) : ∀ (refs : List Ref),
    statBlobs s refs = (refs.filter (fun r => present s r)).map (fun r => (r, (C r).length))
  | [] => rfl
  | r :: rs => by
    simp only [statBlobs, stat_eq h r, List.filter_cons]
    by_cases hp : present s r = true
    · simp [hp, statBlobs_eq h rs]
    · simp [hp, statBlobs_eq h rs]

theorem subFetch_eq {C : Ref → Bytes} {s : St} (h : Inv C s) (r : Ref) (off len : Nat) :
    subFetch s r off len =
      if present s r then (if off > (C r).length then .err else .ok (slice (C r) off len)) else .notExist := by
  unfold subFetch present
  cases hb : get s.b r with
  | none =>
    cases hs : get s.small r with
    | none => simp
    | some v => simp [h.small_ok r v hs]
  | some row =>
    obtain ⟨z, hz, hm⟩ := h.b_ok r row hb
    have hwf := h.zips_ok _ z hz
    obtain ⟨hl, _⟩ := row_read hwf (r, row) hm 0 0 (by simp)
    simp only at hl
    simp only [Option.isSome_some, Bool.true_or, if_true, hl]
    by_cases ho : off > (C r).length
    · simp [ho]
    · simp only [ho, if_false, hz]
      by_cases hc : off + len > (C r).length
      · simp only [hc, if_true]
        obtain ⟨_, hr⟩ := row_read hwf (r, row) hm off ((C r).length - off) (by simp only; omega)
        simp only at hr
        rw [hr, slice_clip _ _ _ hc (by omega)]
      · simp only [hc, if_false]
        obtain ⟨_, hr⟩ := row_read hwf (r, row) hm off len (by simp only; omega)
        simp only at hr
        rw [hr]

/-! ### enumeration -/

open MergedEnum in
theorem allAsc_sources {C : Ref → Bytes} {s : St} (h : Inv C s) : AllAsc [smallSizes s, bSizes s] := by
  intro l hl
  rw [ascK_iff_pw]
  simp only [List.mem_cons, List.mem_nil_iff, or_false] at hl
  rcases hl with rfl | rfl
  · simp only [PW, smallSizes, List.pairwise_map]; exact h.ksmall
  · simp only [PW, bSizes, List.pairwise_map]; exact h.kb

theorem mem_keys_iff_get {V : Type} {m : SMap V} (hm : KAsc m) (k : Bytes) :
    k ∈ m.map (·.1) ↔ (get m k).isSome = true := by
  constructor
  · intro hk
    obtain ⟨p, hp, rfl⟩ := List.mem_map.mp hk
    rw [mem_get hm (show (p.1, p.2) ∈ m from hp)]; rfl
  · intro hk
    cases hg : get m k with
    | none => rw [hg] at hk; cases hk
    | some v => exact List.mem_map.mpr ⟨(k, v), get_some_mem hg, rfl⟩

open MergedEnum in
/-- the union of the two sources' keys is exactly the visible blobs -/
theorem mem_union_iff_present {C : Ref → Bytes} {s : St} (h : Inv C s) (k : Bytes) :
    k ∈ unionKeys [smallSizes s, bSizes s] ↔ present s k = true := by
  rw [mem_unionKeys]
  simp only [List.mem_cons, List.mem_nil_iff, or_false, exists_eq_or_imp, exists_eq_left, MergedEnum.keys, smallSizes, bSizes,
    List.map_map, present, Bool.or_eq_true]
  have e1 : ((fun x : Bytes × Nat => x.1) ∘ fun p : Bytes × Bytes => (p.1, p.2.length)) = (·.1) := rfl
  have e2 : ((fun x : Bytes × Nat => x.1) ∘ fun p : Bytes × BRow => (p.1, p.2.size)) = (·.1) := rfl
  rw [e1, e2, mem_keys_iff_get h.ksmall, mem_keys_iff_get h.kb]
  exact Or.comm

open MergedEnum in
/-- every entry a source sends carries the size of the blob's content -/
theorem source_size {C : Ref → Bytes} {s : St} (h : Inv C s) (e : SR)
    (he : e ∈ smallSizes s ∨ e ∈ bSizes s) : e.2 = (C e.1).length := by
  rcases he with he | he
  · obtain ⟨p, hp, rfl⟩ := List.mem_map.mp he
    have := h.small_ok p.1 p.2 (mem_get h.ksmall (show (p.1, p.2) ∈ s.small from hp))
    simp [this]
  · obtain ⟨p, hp, rfl⟩ := List.mem_map.mp he
    obtain ⟨z, hz, hm⟩ := h.b_ok p.1 p.2 (mem_get h.kb (show (p.1, p.2) ∈ s.b from hp))
    obtain ⟨hl, _⟩ := row_read (h.zips_ok _ z hz) (p.1, p.2) hm 0 0 (by simp)
    exact hl

open MergedEnum in
/-- **closed form of EnumerateBlobs** under the invariant: the visible blobs after the cursor, ascending,
each once, at most `limit`, each with the size of its content -/
theorem enumerate_eq {C : Ref → Bytes} {s : St} (h : Inv C s) (after : Bytes) (limit : Nat) :
    enumerate s after limit =
      (((unionKeys [smallSizes s, bSizes s]).filter (afterOk (some after))).take limit).map
        (fun k => (k, (C k).length)) := by
  have hasc := allAsc_sources h
  have hk := mergedEnumerateStorage_keys [smallSizes s, bSizes s] hasc (some after) limit
  unfold enumerate
  rw [← hk, MergedEnum.keys, List.map_map]
  have hsz : ∀ e ∈ mergedEnumerateStorage [smallSizes s, bSizes s] (some after) limit, e.2 = (C e.1).length := by
    intro e he
    have hasc' : AllAsc ([smallSizes s, bSizes s].map (fun c => sourceEnum c (some after) limit)) := by
      intro l hl
      obtain ⟨c, hc, rfl⟩ := List.mem_map.mp hl
      rw [ascK_iff_pw, sourceEnum_eq]
      exact List.Pairwise.sublist ((List.take_sublist _ _).trans List.filter_sublist) (allAsc_pw hasc c hc)
    obtain ⟨pre, src, post, hsplit, hmem, _⟩ := merged_first_source limit _ hasc' e he
    have hsrc : src ∈ [smallSizes s, bSizes s].map (fun c => sourceEnum c (some after) limit) := by
      rw [hsplit]; simp
    obtain ⟨c, hc, rfl⟩ := List.mem_map.mp hsrc
    rw [sourceEnum_eq] at hmem
    have hec : e ∈ c := (List.mem_filter.mp (List.mem_of_mem_take hmem)).1
    simp only [List.mem_cons, List.mem_nil_iff, or_false] at hc
    rcases hc with rfl | rfl
    · exact source_size h e (Or.inl hec)
    · exact source_size h e (Or.inr hec)
  symm
  calc List.map ((fun k => (k, (C k).length)) ∘ fun x => x.1) (mergedEnumerateStorage [smallSizes s, bSizes s] (some after) limit)
      = List.map id (mergedEnumerateStorage [smallSizes s, bSizes s] (some after) limit) := by
        apply List.map_congr_left
        intro e he
        simp only [Function.comp, id]
        rw [← hsz e he]
    _ = _ := by simp

open MergedEnum in
/-- no ref is enumerated twice -/
theorem enumerate_nodup {C : Ref → Bytes} {s : St} (h : Inv C s) (after : Bytes) (limit : Nat) :
    ((enumerate s after limit).map (·.1)).Nodup := by
  rw [enumerate_eq h, List.map_map]
  have : ((fun x : Bytes × Nat => x.1) ∘ fun k => (k, (C k).length)) = id := rfl
  rw [this, List.map_id]
  have hp := unionKeys_pw [smallSizes s, bSizes s]
  have := List.Pairwise.sublist ((List.take_sublist limit _).trans (List.filter_sublist (p := afterOk (some after)))) hp
  apply List.Pairwise.imp _ this
  intro a b hab e; subst e; rw [ltB_irrefl] at hab; cases hab

/-- two states with the same visible set (and the invariant for the same content function) answer every
read identically -/
structure SameView (s s' : St) : Prop where
  pres : ∀ r, present s' r = present s r

theorem SameView.refl (s : St) : SameView s s := ⟨fun _ => rfl⟩
theorem SameView.trans {a b c : St} (h1 : SameView a b) (h2 : SameView b c) : SameView a c :=
  ⟨fun r => by rw [h2.pres, h1.pres]⟩

open MergedEnum in
theorem reads_eq_of_sameView {C : Ref → Bytes} {s s' : St} (h : Inv C s) (h' : Inv C s') (v : SameView s s') :
    (∀ r, fetch s' r = fetch s r) ∧ (∀ r, stat s' r = stat s r) ∧
    (∀ r off len, subFetch s' r off len = subFetch s r off len) ∧
    (∀ after limit, enumerate s' after limit = enumerate s after limit) := by
  refine ⟨?_, ?_, ?_, ?_⟩
  · intro r; rw [fetch_eq h, fetch_eq h', v.pres]
  · intro r; rw [stat_eq h, stat_eq h', v.pres]
  · intro r off len; rw [subFetch_eq h, subFetch_eq h', v.pres]
  · intro after limit
    rw [enumerate_eq h, enumerate_eq h']
    have : unionKeys [smallSizes s', bSizes s'] = unionKeys [smallSizes s, bSizes s] := by
      apply pw_ext _ _ (unionKeys_pw _) (unionKeys_pw _)
      intro k
      rw [mem_union_iff_present h', mem_union_iff_present h, v.pres]
    rw [this]

theorem fetch_ok {C : Ref → Bytes} {s : St} (h : Inv C s) {r : Ref} {v : Bytes} (hf : fetch s r = .ok v) :
    present s r = true ∧ v = C r := by
  rw [fetch_eq h] at hf
  by_cases hp : present s r = true
  · simp only [hp, if_true] at hf
    injection hf with hf
    exact ⟨hp, hf.symm⟩
  · simp only [hp] at hf; cases hf

/-! ## every atomic write preserves the invariant; its effect on the visible set -/

theorem present_putSmall (s : St) (r : Ref) (v : Bytes) (x : Ref) :
    present (putSmall s r v) x = (present s x || x == r) := by
  simp only [present, putSmall, get_ins]
  by_cases hx : x = r
  · simp [hx]
  · simp [hx]

theorem inv_putSmall {C : Ref → Bytes} {s : St} (h : Inv C s) (r : Ref) (v : Bytes) (hv : v = C r) :
    Inv C (putSmall s r v) := by
  refine ⟨kasc_ins r v h.ksmall, h.kb, h.klarge, ?_, h.b_ok, h.zips_ok⟩
  intro x w hg
  simp only [putSmall, get_ins] at hg
  by_cases hx : x = r
  · simp only [hx, if_true] at hg; injection hg with hg; rw [← hg, hx, hv]
  · simp only [hx, if_false] at hg; exact h.small_ok x w hg

theorem present_putLarge (s : St) (zr : Ref) (z : Zip) (x : Ref) : present (putLarge s zr z) x = present s x := by
  unfold putLarge; split <;> rfl

theorem get_putLarge_other (s : St) (zr : Ref) (z : Zip) (k : Ref) (z0 : Zip) (hk : get s.large k = some z0) :
    get (putLarge s zr z).large k = some z0 := by
  unfold putLarge
  by_cases hh : has s.large zr = true
  · simp [hh, hk]
  · rw [if_neg hh]
    show get (ins zr z s.large) k = some z0
    rw [get_ins]
    by_cases e : k = zr
    · subst e; simp [has, hk] at hh
    · simp [e, hk]

theorem inv_putLarge {C : Ref → Bytes} {s : St} (h : Inv C s) (zr : Ref) (z : Zip) (hz : ZipWF C z) :
    Inv C (putLarge s zr z) := by
  refine ⟨?_, ?_, ?_, ?_, ?_, ?_⟩
  · unfold putLarge; split <;> exact h.ksmall
  · unfold putLarge; split <;> exact h.kb
  · unfold putLarge; split
    · exact h.klarge
    · exact kasc_ins zr z h.klarge
  · unfold putLarge; split <;> exact h.small_ok
  · intro r row hg
    have hg' : get s.b r = some row := by unfold putLarge at hg; split at hg <;> exact hg
    obtain ⟨z0, hz0, hm⟩ := h.b_ok r row hg'
    exact ⟨z0, get_putLarge_other s zr z _ z0 hz0, hm⟩
  · intro k z1 hg
    unfold putLarge at hg
    split at hg
    · exact h.zips_ok k z1 hg
    · simp only [get_ins] at hg
      by_cases e : k = zr
      · simp only [e, if_true] at hg; injection hg with hg; rw [← hg]; exact hz
      · simp only [e, if_false] at hg; exact h.zips_ok k z1 hg

/-- after `putLarge`, the ref holds `z` unless a different zip was there (excluded by the collision guard) -/
theorem get_putLarge_self (s : St) (zr : Ref) (z : Zip)
    (hc : collides s.large zr z = false) :
    get (putLarge s zr z).large zr = some z := by
  unfold collides at hc
  unfold putLarge
  cases hg : get s.large zr with
  | none => simp [has, hg, get_ins]
  | some z' =>
    simp only [hg, decide_eq_false_iff_not, ne_eq, Decidable.not_not] at hc
    simp [has, hg, hc]

theorem zipBlobRows_zip (zr : Ref) (z : Zip) (p : Ref × BRow) (hp : p ∈ zipBlobRows zr z) : p.2.zip = zr := by
  simp only [zipBlobRows, List.mem_append, List.mem_map] at hp
  rcases hp with ⟨e, _, rfl⟩ | ⟨e, _, rfl⟩ <;> rfl

theorem present_commitZip (s : St) (zr : Ref) (z : Zip) (w : Nat) (x : Ref) :
    present (commitZip s zr z w) x = (present s x || (zipBlobRows zr z).any (fun p => p.1 == x)) := by
  simp only [present, commitZip, isSome_get_setRows]
  cases (get s.b x).isSome <;> cases (get s.small x).isSome <;> simp

theorem inv_commitZip {C : Ref → Bytes} {s : St} (h : Inv C s) (zr : Ref) (z : Zip) (w : Nat)
    (hz : get s.large zr = some z) : Inv C (commitZip s zr z w) := by
  refine ⟨h.ksmall, kasc_setRows _ h.kb, h.klarge, h.small_ok, ?_, h.zips_ok⟩
  intro r row hg
  simp only [commitZip] at hg ⊢
  rcases get_setRows (zipBlobRows zr z) s.b r with he | ⟨row', hm, he⟩
  · rw [he] at hg; exact h.b_ok r row hg
  · rw [he] at hg; injection hg with hg; subst hg
    have := zipBlobRows_zip zr z _ hm
    simp only at this
    rw [this]
    exact ⟨z, hz, hm⟩

theorem present_delSmall {C : Ref → Bytes} {s : St} (h : Inv C s) (refs : List Ref) (x : Ref) :
    present (delSmall s refs) x = ((get s.b x).isSome || (!decide (x ∈ refs) && (get s.small x).isSome)) := by
  simp only [present, delSmall, get_delKeys refs h.ksmall]
  by_cases hx : x ∈ refs <;> simp [hx]

theorem inv_delSmall {C : Ref → Bytes} {s : St} (h : Inv C s) (refs : List Ref) : Inv C (delSmall s refs) := by
  refine ⟨kasc_delKeys refs h.ksmall, h.kb, h.klarge, ?_, h.b_ok, h.zips_ok⟩
  intro r v hg
  simp only [delSmall, get_delKeys refs h.ksmall] at hg
  by_cases hx : r ∈ refs
  · simp [hx] at hg
  · simp only [hx, if_false] at hg; exact h.small_ok r v hg

theorem sameView_delSmall {C : Ref → Bytes} {s : St} (h : Inv C s) (refs : List Ref)
    (hr : ∀ r ∈ refs, (get s.b r).isSome = true) : SameView s (delSmall s refs) := by
  refine ⟨fun x => ?_⟩
  rw [present_delSmall h]
  unfold present
  by_cases hx : x ∈ refs
  · simp [hx, hr x hx]
  · simp [hx]

theorem inv_setWhole {C : Ref → Bytes} {s : St} (h : Inv C s) (w : Ref) (a b : Nat) : Inv C (setWhole s w a b) :=
  ⟨h.ksmall, h.kb, h.klarge, h.small_ok, h.b_ok, h.zips_ok⟩

theorem sameView_setWhole (s : St) (w : Ref) (a b : Nat) : SameView s (setWhole s w a b) := ⟨fun _ => rfl⟩

/-! ## the zip `writeAZip` builds is well-formed -/

theorem mkEntries_spec {C : Ref → Bytes} : ∀ (w : List (Ref × Bytes)) (pre : Bytes), (∀ p ∈ w, p.2 = C p.1) →
    ∀ e ∈ mkEntries w pre.length,
      e.off + e.size ≤ (pre ++ concatData w).length ∧ slice (pre ++ concatData w) e.off e.size = C e.ref ∧
        e.size = (C e.ref).length ∧ ∃ p ∈ w, e.ref = p.1
  | [], _, _, e, he => by simp [mkEntries] at he
  | (r, v) :: rest, pre, hw, e, he => by
    simp only [mkEntries, List.mem_cons] at he
    have hv : v = C r := hw (r, v) (by simp)
    rcases he with rfl | he
    · simp only [concatData]
      refine ⟨by simp, ?_, by rw [hv], (r, v), by simp, rfl⟩
      rw [slice_append_left, List.take_append_of_le_length (by simp), List.take_of_length_le (by simp), hv]
    · have ih := mkEntries_spec rest (pre ++ v) (fun p hp => hw p (List.mem_cons_of_mem _ hp)) e
        (by simpa [List.length_append] using he)
      simp only [concatData, ← List.append_assoc]
      obtain ⟨h1, h2, h3, p, hp, h4⟩ := ih
      exact ⟨h1, h2, h3, p, List.mem_cons_of_mem _ hp, h4⟩

theorem mkEntries_ref_mem : ∀ (w : List (Ref × Bytes)) (o : Nat), ∀ e ∈ mkEntries w o, ∃ p ∈ w, e.ref = p.1
  | [], _, e, he => by simp [mkEntries] at he
  | (r, v) :: rest, o, e, he => by
    simp only [mkEntries, List.mem_cons] at he
    rcases he with rfl | he
    · exact ⟨(r, v), by simp, rfl⟩
    · obtain ⟨p, hp, h⟩ := mkEntries_ref_mem rest _ e he
      exact ⟨p, List.mem_cons_of_mem _ hp, h⟩

theorem mkEntries_cover : ∀ (w : List (Ref × Bytes)) (o : Nat), ∀ p ∈ w, ∃ e ∈ mkEntries w o, e.ref = p.1
  | [], _, p, hp => by cases hp
  | (r, v) :: rest, o, p, hp => by
    cases hp with
    | head => exact ⟨⟨r, v.length, o⟩, by simp [mkEntries], rfl⟩
    | tail _ hp' =>
      obtain ⟨e, he, h⟩ := mkEntries_cover rest (o + v.length) p hp'
      exact ⟨e, by simp [mkEntries, he], h⟩

theorem mkSchema_spec : ∀ (sbs : List (Ref × Bytes)) (offs : List Nat), ∀ e ∈ mkSchema sbs offs,
    ∃ p ∈ sbs, e.ref = p.1 ∧ e.data = p.2
  | [], _, e, he => by simp [mkSchema] at he
  | _ :: _, [], e, he => by simp [mkSchema] at he
  | (r, v) :: rest, o :: os, e, he => by
    simp only [mkSchema, List.mem_cons] at he
    rcases he with rfl | he
    · exact ⟨(r, v), by simp, rfl, rfl⟩
    · obtain ⟨p, hp, h⟩ := mkSchema_spec rest os e he
      exact ⟨p, List.mem_cons_of_mem _ hp, h⟩

theorem mkSchema_cover : ∀ (sbs : List (Ref × Bytes)) (offs : List Nat), offs.length = sbs.length →
    ∀ p ∈ sbs, ∃ e ∈ mkSchema sbs offs, e.ref = p.1
  | [], _, _, p, hp => by cases hp
  | _ :: _, [], hl, _, _ => by simp at hl
  | (r, v) :: rest, o :: os, hl, p, hp => by
    cases hp with
    | head => exact ⟨⟨r, v, o⟩, by simp [mkSchema], rfl⟩
    | tail _ hp' =>
      obtain ⟨e, he, h⟩ := mkSchema_cover rest os (by simpa using hl) p hp'
      exact ⟨e, by simp [mkSchema, he], h⟩

theorem zipWF_build {C : Ref → Bytes} (l : ZipLayout) (written sbs : List (Ref × Bytes)) (whole : Ref) (wsz n : Nat)
    (hw : ∀ p ∈ written, p.2 = C p.1) (hs : ∀ p ∈ sbs, p.2 = C p.1)
    (hl : layoutOK l (concatData written) sbs = true) : ZipWF C (buildZip l written sbs whole wsz n) := by
  simp only [layoutOK, Bool.and_eq_true, decide_eq_true_eq] at hl
  refine ⟨hl.2, ?_, ?_⟩
  · intro e he
    obtain ⟨h1, h2, h3, _⟩ := mkEntries_spec (C := C) written [] hw e (by simpa [buildZip] using he)
    simp only [List.nil_append] at h1 h2
    exact ⟨h1, h2, h3⟩
  · intro e he
    obtain ⟨p, hp, h1, h2⟩ := mkSchema_spec sbs l.schemaOffs e he
    rw [h2, h1]; exact hs p hp

/-- the refs of the rows of the built zip are exactly what was written plus the schema blobs -/
theorem rows_refs_build (zr : Ref) (l : ZipLayout) (written sbs : List (Ref × Bytes)) (whole : Ref) (wsz n : Nat)
    (hlen : l.schemaOffs.length = sbs.length) (x : Ref) :
    (zipBlobRows zr (buildZip l written sbs whole wsz n)).any (fun p => p.1 == x) = true ↔
      (x ∈ written.map (·.1) ∨ x ∈ sbs.map (·.1)) := by
  simp only [List.any_eq_true, beq_iff_eq, zipBlobRows, buildZip, List.mem_append, List.mem_map]
  constructor
  · rintro ⟨p, hp, rfl⟩
    rcases hp with ⟨e, he, rfl⟩ | ⟨e, he, rfl⟩
    · obtain ⟨q, hq, h⟩ := mkEntries_ref_mem written 0 e he
      exact Or.inl ⟨q, hq, h.symm⟩
    · obtain ⟨q, hq, h, _⟩ := mkSchema_spec sbs l.schemaOffs e he
      exact Or.inr ⟨q, hq, h.symm⟩
  · rintro (⟨q, hq, rfl⟩ | ⟨q, hq, rfl⟩)
    · obtain ⟨e, he, h⟩ := mkEntries_cover written 0 q hq
      exact ⟨_, Or.inl ⟨e, he, rfl⟩, h⟩
    · obtain ⟨e, he, h⟩ := mkSchema_cover sbs l.schemaOffs hlen q hq
      exact ⟨_, Or.inr ⟨e, he, rfl⟩, h⟩

/-! ## the pack: every state it can stop in is invisible to clients -/

/-- pairs (ref, bytes) that are the content of visible blobs -/
def PairsOK (C : Ref → Bytes) (s : St) (l : List (Ref × Bytes)) : Prop :=
  ∀ p ∈ l, p.2 = C p.1 ∧ present s p.1 = true

def TblOK (C : Ref → Bytes) (s : St) (tbl : List Chunk) : Prop := ∀ ch ∈ tbl, PairsOK C s ch.path

theorem PairsOK.sameView {C : Ref → Bytes} {s s' : St} {l : List (Ref × Bytes)} (h : PairsOK C s l)
    (v : SameView s s') : PairsOK C s' l := fun p hp => ⟨(h p hp).1, by rw [v.pres]; exact (h p hp).2⟩

theorem TblOK.sameView {C : Ref → Bytes} {s s' : St} {tbl : List Chunk} (h : TblOK C s tbl)
    (v : SameView s s') : TblOK C s' tbl := fun ch hc => (h ch hc).sameView v

theorem foldl_last_mem (tbl : List Chunk) (r : Ref) : ∀ (acc : Option Chunk) (ch : Chunk),
    tbl.foldl (fun acc c => if c.ref = r then some c else acc) acc = some ch → ch ∈ tbl ∨ acc = some ch := by
  induction tbl with
  | nil => intro acc ch h; right; exact h
  | cons c rest ih =>
    intro acc ch h
    simp only [List.foldl_cons] at h
    rcases ih _ ch h with hm | he
    · left; exact List.mem_cons_of_mem _ hm
    · by_cases hc : c.ref = r
      · simp only [hc, if_true] at he; injection he with he; left; rw [← he]; exact List.mem_cons_self
      · simp only [hc, if_false] at he; right; exact he

theorem lastChunk_mem {tbl : List Chunk} {r : Ref} {ch : Chunk} (h : lastChunk tbl r = some ch) : ch ∈ tbl := by
  rcases foldl_last_mem tbl r none ch h with hm | he
  · exact hm
  · cases he

theorem addParents_ok {C : Ref → Bytes} {s : St} (c : Cfg) : ∀ (ps : List (Ref × Bytes)) (acc : Nat × List Ref × List (Ref × Bytes)),
    PairsOK C s ps → PairsOK C s acc.2.2 → PairsOK C s (addParents c ps acc).2.2
  | [], _, _, h => h
  | p :: ps, (a, seen, sbs), hp, h => by
    have hps : PairsOK C s ps := fun q hq => hp q (List.mem_cons_of_mem _ hq)
    simp only [addParents]
    split
    · exact addParents_ok c ps _ hps h
    · apply addParents_ok c ps _ hps
      intro q hq
      simp only [List.mem_append, List.mem_singleton] at hq
      rcases hq with hq | rfl
      · exact h q hq
      · exact hp q List.mem_cons_self

theorem fill_ok {C : Ref → Bytes} {s : St} (h : Inv C s) (c : Cfg) (tbl : List Chunk) (trunc : Option Ref)
    (ht : TblOK C s tbl) : ∀ (remain : List Ref) (approx : Nat) (seen : List Ref) (sbs written : List (Ref × Bytes))
    (f : Filled), PairsOK C s sbs → PairsOK C s written →
    fill c tbl s trunc remain approx seen sbs written = some f →
    PairsOK C s f.written ∧ PairsOK C s f.schemaBlobs
  | [], _, _, _, _, f, hs, hw, hf => by
    simp only [fill] at hf; injection hf with hf; subst hf; exact ⟨hw, hs⟩
  | dr :: rest, approx, seen, sbs, written, f, hs, hw, hf => by
    simp only [fill] at hf
    split at hf
    · injection hf with hf; subst hf; exact ⟨hw, hs⟩
    · split at hf
      · cases hf
      · rename_i ch hch
        split at hf
        · injection hf with hf; subst hf; exact ⟨hw, hs⟩
        · split at hf
          · rename_i v hv
            split at hf
            · cases hf
            · obtain ⟨hp, hv'⟩ := fetch_ok h hv
              refine fill_ok h c tbl trunc ht rest _ _ _ _ f ?_ ?_ hf
              · exact addParents_ok c ch.path _ (ht ch (lastChunk_mem hch)) hs
              · intro q hq
                simp only [List.mem_append, List.mem_singleton] at hq
                rcases hq with hq | rfl
                · exact hw q hq
                · exact ⟨hv', hp⟩
          · cases hf

theorem PairsOK_nil (C : Ref → Bytes) (s : St) : PairsOK C s [] := fun _ h => by cases h

/-- what a `writeAZip` call can leave behind -/
def ZipOut.Sound (C : Ref → Bytes) (s : St) : ZipOut → Prop
  | .stored s' _ _ _ _ _ _ => Inv C s' ∧ SameView s s'
  | .fail s' _ => Inv C s' ∧ SameView s s'
  | .retry _ => True

theorem sameView_putLarge (s : St) (zr : Ref) (z : Zip) : SameView s (putLarge s zr z) :=
  ⟨fun x => present_putLarge s zr z x⟩

/-- committing the rows of a zip whose blobs are all visible does not change the visible set -/
theorem sameView_commitZip (s : St) (zr : Ref) (z : Zip) (w : Nat)
    (hp : ∀ x, (zipBlobRows zr z).any (fun p => p.1 == x) = true → present s x = true) :
    SameView s (commitZip s zr z w) := by
  refine ⟨fun x => ?_⟩
  rw [present_commitZip]
  by_cases hx : (zipBlobRows zr z).any (fun p => p.1 == x) = true
  · simp [hx, hp x hx]
  · simp [hx]

theorem delSmallB_sound {C : Ref → Bytes} {s : St} (h : Inv C s) (bud : Budget) (refs : List Ref)
    (hr : ∀ r ∈ refs, (get s.b r).isSome = true) :
    Inv C (delSmallB s bud refs).1 ∧ SameView s (delSmallB s bud refs).1 := by
  unfold delSmallB
  simp only
  split
  · exact ⟨inv_delSmall h refs, sameView_delSmall h refs hr⟩
  · split
    · exact ⟨inv_delSmall h _, sameView_delSmall h _ (fun r hm => hr r (List.mem_of_mem_take hm))⟩
    · exact ⟨h, SameView.refl s⟩

theorem writeAZip_sound {C : Ref → Bytes} (env : PackEnv) (nameOK : Bool) (tbl : List Chunk) (whole : Ref) (wsz : Nat)
    (s : St) (bud : Budget) (remain : List Ref) (n wbw : Nat) (trunc : Option Ref) (lay : Option ZipLayout)
    (h : Inv C s) (ht : TblOK C s tbl) :
    (writeAZip env nameOK tbl whole wsz s bud remain n wbw trunc lay).1.Sound C s := by
  have base : Inv C s ∧ SameView s s := ⟨h, SameView.refl s⟩
  unfold writeAZip
  split
  · exact base
  · split
    · exact base
    · rename_i f hf
      obtain ⟨hw, hs⟩ := fill_ok h env.c tbl trunc ht remain _ [] [] [] f (PairsOK_nil C s) (PairsOK_nil C s) hf
      split
      · exact base
      · split
        · exact base
        · rename_i l
          simp only
          split
          · exact base
          · rename_i hlay
            split
            · split
              · trivial
              · exact base
            · split
              · exact base
              · rename_i hcoll
                have hlay' : layoutOK l (concatData f.written) f.schemaBlobs = true := by simpa using hlay
                have hcoll' : collides s.large l.ref (buildZip l f.written f.schemaBlobs whole wsz n) = false := by simpa using hcoll
                have hwf : ZipWF C (buildZip l f.written f.schemaBlobs whole wsz n) :=
                  zipWF_build l f.written f.schemaBlobs whole wsz n (fun p hp => (hw p hp).1) (fun p hp => (hs p hp).1) hlay'
                have hlen : l.schemaOffs.length = f.schemaBlobs.length := by
                  simp only [layoutOK, Bool.and_eq_true, decide_eq_true_eq] at hlay'; exact hlay'.1.1
                split
                · exact base
                · -- the zip is in large
                  have h1 := inv_putLarge h l.ref _ hwf
                  have v1 := sameView_putLarge s l.ref (buildZip l f.written f.schemaBlobs whole wsz n)
                  split
                  · exact ⟨h1, v1⟩
                  · -- the meta batch is committed
                    have hz := get_putLarge_self s l.ref _ hcoll'
                    have h2 := inv_commitZip h1 l.ref _ wbw hz
                    have hpres : ∀ x, (zipBlobRows l.ref (buildZip l f.written f.schemaBlobs whole wsz n)).any (fun p => p.1 == x) = true →
                        present (putLarge s l.ref (buildZip l f.written f.schemaBlobs whole wsz n)) x = true := by
                      intro x hx
                      rw [v1.pres]
                      rcases (rows_refs_build l.ref l f.written f.schemaBlobs whole wsz n hlen x).mp hx with hm | hm
                      · obtain ⟨p, hp, rfl⟩ := List.mem_map.mp hm; exact (hw p hp).2
                      · obtain ⟨p, hp, rfl⟩ := List.mem_map.mp hm; exact (hs p hp).2
                    have v2 := sameView_commitZip _ l.ref _ wbw hpres
                    have hrefs : ∀ r ∈ f.written.map (·.1) ++ f.schemaBlobs.map (·.1),
                        (get (commitZip (putLarge s l.ref (buildZip l f.written f.schemaBlobs whole wsz n)) l.ref
                          (buildZip l f.written f.schemaBlobs whole wsz n) wbw).b r).isSome = true := by
                      intro r hr
                      simp only [commitZip, isSome_get_setRows]
                      have := (rows_refs_build l.ref l f.written f.schemaBlobs whole wsz n hlen r).mpr (List.mem_append.mp hr)
                      simp [this]
                    obtain ⟨h3, v3⟩ := delSmallB_sound h2 _ _ hrefs
                    exact ⟨h3, (v1.trans v2).trans v3⟩

/-- what `pack` leaves behind, for every fuel, budget and layout values -/
theorem packLoop_sound {C : Ref → Bytes} (env : PackEnv) (nameOK : Bool) (tbl : List Chunk) (whole : Ref) (wsz : Nat) :
    ∀ (fuel : Nat) (s0 s : St) (bud : Budget) (remain : List Ref) (n wbw : Nat) (trunc : Option Ref)
      (lays : List ZipLayout) (t o : Nat) (zs : List ZipRec),
      Inv C s → SameView s0 s → TblOK C s tbl →
      Inv C (packLoop env nameOK tbl whole wsz fuel s bud remain n wbw trunc lays t o zs).s ∧
      SameView s0 (packLoop env nameOK tbl whole wsz fuel s bud remain n wbw trunc lays t o zs).s
  | 0, _, _, _, _, _, _, _, _, _, _, _, h, v, _ => ⟨h, v⟩
  | fuel + 1, s0, s, bud, remain, n, wbw, trunc, lays, t, o, zs, h, v, ht => by
    unfold packLoop
    split
    · split
      · exact ⟨inv_setWhole h _ _ _, v.trans (sameView_setWhole s _ _ _)⟩
      · exact ⟨h, v⟩
    · have hs := writeAZip_sound (C := C) env nameOK tbl whole wsz s bud remain n wbw trunc lays.head? h ht
      simp only
      split
      · rename_i s' bud' heq
        rw [heq] at hs
        exact ⟨hs.1, v.trans hs.2⟩
      · exact packLoop_sound env nameOK tbl whole wsz fuel s0 s bud remain n wbw _ _ _ _ _ h v ht
      · rename_i s' bud' zr k len ds zsz heq
        rw [heq] at hs
        exact packLoop_sound env nameOK tbl whole wsz fuel s0 s' bud' _ _ _ _ _ _ _ _ hs.1 (v.trans hs.2) (ht.sameView hs.2)

theorem scanParts_ok {C : Ref → Bytes} {s : St} (h : Inv C s) (K : Ref → Kind) :
    ∀ (fuel : Nat) (path : List (Ref × Bytes)) (parts : List Part) (tbl : List Chunk),
      PairsOK C s path → scanParts K s fuel path parts = some tbl → TblOK C s tbl
  | 0, _, _, _, _, hs => by simp [scanParts] at hs
  | fuel + 1, path, [], tbl, _, hs => by
    simp only [scanParts] at hs; injection hs with hs; subst hs; intro ch hc; cases hc
  | fuel + 1, path, p :: ps, tbl, hp, hs => by
    simp only [scanParts] at hs
    split at hs
    · cases hs
    · cases hs
    · split at hs
      · cases hs
      · cases hr : scanParts K s fuel path ps with
        | none => simp [hr] at hs
        | some r =>
          simp only [hr, Option.map_some] at hs
          injection hs with hs; subst hs
          intro ch hc
          cases hc with
          | head => exact hp
          | tail _ hc' => exact scanParts_ok h K fuel path ps r hp hr ch hc'
    · split at hs
      · rename_i v sub hv hk
        split at hs
        · cases hs
        · rename_i a ha
          cases hr : scanParts K s fuel path ps with
          | none => simp [hr] at hs
          | some r =>
            simp only [hr, Option.map_some] at hs
            injection hs with hs; subst hs
            obtain ⟨hpv, hvv⟩ := fetch_ok h hv
            have hpath : PairsOK C s (path ++ [(p.ref, v)]) := by
              intro q hq
              simp only [List.mem_append, List.mem_singleton] at hq
              rcases hq with hq | rfl
              · exact hp q hq
              · exact ⟨hvv, hpv⟩
            intro ch hc
            rcases List.mem_append.mp hc with hc | hc
            · exact scanParts_ok h K fuel _ sub a hpath ha ch hc
            · exact scanParts_ok h K fuel path ps r hp hr ch hc
      · cases hs

theorem packFile_sound {C : Ref → Bytes} (env : PackEnv) (s : St) (bud : Budget) (fileRef : Ref)
    (lays : List ZipLayout) (fuel : Nat) (h : Inv C s) :
    Inv C (packFile env s bud fileRef lays fuel).s ∧ SameView s (packFile env s bud fileRef lays fuel).s := by
  have base : Inv C s ∧ SameView s s := ⟨h, SameView.refl s⟩
  unfold packFile
  simp only
  split
  · rename_i v parts hv hk
    split
    · exact base
    · rename_i tbl htbl
      split
      · exact base
      · split
        · exact base
        · obtain ⟨hpv, hvv⟩ := fetch_ok h hv
          have hpath : PairsOK C s [(fileRef, v)] := by
            intro q hq; simp only [List.mem_singleton] at hq; subst hq; exact ⟨hvv, hpv⟩
          exact packLoop_sound env _ tbl _ _ fuel s s bud _ 0 0 none lays 0 0 [] h (SameView.refl s)
            (scanParts_ok h env.K scanFuel _ parts tbl hpath htbl)
  · exact base

/-! ## ReceiveBlob and RemoveBlobs refine the reference map -/

theorem receive_sound {C : Ref → Bytes} (env : PackEnv) (s : St) (bud : Budget) (r : Ref) (v : Bytes)
    (lays : List ZipLayout) (fuel : Nat) (h : Inv C s) (hv : v = C r) :
    Inv C (receive env s bud r v lays fuel).s ∧
    ((receive env s bud r v lays fuel).size = none → SameView s (receive env s bud r v lays fuel).s) ∧
    ((receive env s bud r v lays fuel).size ≠ none →
      ∀ x, present (receive env s bud r v lays fuel).s x = (present s x || x == r)) := by
  unfold receive
  simp only
  by_cases hp : (get s.b r).isSome = true
  · -- already packed: nothing is written
    have hpr : ∀ x, present s x = (present s x || x == r) := by
      intro x
      by_cases hx : x = r
      · subst hx; simp [present, hp]
      · simp [hx]
    simp only [hp, if_true, Bool.true_or]
    split <;> first
      | exact ⟨h, (fun hn => absurd hn (by simp)), fun _ => hpr⟩
  · simp only [hp, Bool.false_eq_true, if_false, Bool.false_or]
    cases ht : bud.take with
    | mk ok bud' =>
      cases ok with
      | false => exact ⟨h, fun _ => SameView.refl s, fun hn => absurd rfl hn⟩
      | true =>
        have h1 := inv_putSmall h r v hv
        have p1 : ∀ x, present (putSmall s r v) x = (present s x || x == r) := present_putSmall s r v
        simp only
        split
        · rename_i nm parts hk
          split
          · exact ⟨h1, (fun hn => absurd hn (by simp)), fun _ => p1⟩
          · obtain ⟨h2, v2⟩ := packFile_sound (C := C) env (putSmall s r v) bud' r lays fuel h1
            exact ⟨h2, (fun hn => absurd hn (by simp)), fun _ x => by rw [v2.pres, p1]⟩
        · exact ⟨h1, (fun hn => absurd hn (by simp)), fun _ => p1⟩

theorem remove_sound {C : Ref → Bytes} (c : Cfg) (hc : c.legacy = false) (s : St) (r : Ref) (h : Inv C s) :
    Inv C (remove c s r) ∧ ∀ x, present (remove c s r) x = (present s x && x != r) := by
  unfold remove
  cases hb : get s.b r with
  | none =>
    refine ⟨⟨kasc_del r h.ksmall, h.kb, h.klarge, ?_, h.b_ok, h.zips_ok⟩, ?_⟩
    · intro x w hg
      simp only [get_del r h.ksmall] at hg
      by_cases hx : x = r
      · simp [hx] at hg
      · simp only [hx, if_false] at hg; exact h.small_ok x w hg
    · intro x
      simp only [present, get_del r h.ksmall]
      by_cases hx : x = r
      · subst hx; simp [hb]
      · simp [hx]
  | some row =>
    simp only [hc, Bool.false_eq_true, if_false]
    refine ⟨⟨kasc_del r h.ksmall, kasc_del r h.kb, h.klarge, ?_, ?_, h.zips_ok⟩, ?_⟩
    · intro x w hg
      simp only [get_del r h.ksmall] at hg
      by_cases hx : x = r
      · simp [hx] at hg
      · simp only [hx, if_false] at hg; exact h.small_ok x w hg
    · intro x row' hg
      simp only [get_del r h.kb] at hg
      by_cases hx : x = r
      · simp [hx] at hg
      · simp only [hx, if_false] at hg; exact h.b_ok x row' hg
    · intro x
      simp only [present, get_del r h.ksmall, get_del r h.kb]
      by_cases hx : x = r
      · simp [hx]
      · simp [hx]

/-! ## recovery from the zips -/

/-- the blob is inside some zip of `large` -/
def inSomeZip (large : List (Ref × Zip)) (x : Ref) : Bool :=
  large.any (fun p => (zipBlobRows p.1 p.2).any (fun q => q.1 == x))

/-- the second phase of `reindex` never touches blobs -/
def SameBlobs (s s' : St) : Prop := s'.small = s.small ∧ s'.large = s.large ∧ s'.b = s.b

theorem SameBlobs.inv {C : Ref → Bytes} {s s' : St} (e : SameBlobs s s') (h : Inv C s) : Inv C s' := by
  obtain ⟨e1, e2, e3⟩ := e
  exact ⟨e1 ▸ h.ksmall, e3 ▸ h.kb, e2 ▸ h.klarge, e1 ▸ h.small_ok, by rw [e2, e3]; exact h.b_ok, e2 ▸ h.zips_ok⟩

theorem SameBlobs.pres {s s' : St} (e : SameBlobs s s') (x : Ref) : present s' x = present s x := by
  obtain ⟨e1, _, e3⟩ := e
  simp [BP.present, e1, e3]

theorem sameBlobs_setWhole (s : St) (w : Ref) (a b : Nat) : SameBlobs s (setWhole s w a b) := ⟨rfl, rfl, rfl⟩

theorem groupRows_sameBlobs (offs : List Nat) : ∀ (zs : List ZMI) (s s' : St), groupRows offs zs s = some s' → SameBlobs s s'
  | [], s, s', h => by simp only [groupRows] at h; injection h with h; subst h; exact ⟨rfl, rfl, rfl⟩
  | z :: zs, s, s', h => by
    simp only [groupRows] at h
    split at h
    · cases h
    · have := groupRows_sameBlobs offs zs _ s' h
      exact ⟨this.1, this.2.1, this.2.2⟩

theorem reindexGroup_sameBlobs (w : Ref) (zms : List ZMI) (s s' : St) (h : reindexGroup w zms s = some s') :
    SameBlobs s s' := by
  unfold reindexGroup at h
  simp only at h
  split at h
  · cases h
  · split at h
    · cases h
    · rename_i s1 hg
      have e1 := groupRows_sameBlobs _ _ _ _ hg
      split at h
      · split at h
        · injection h with h; subst h; exact e1
        · injection h with h; subst h
          exact ⟨e1.1, e1.2.1, e1.2.2⟩
      · injection h with h; subst h; exact e1

theorem reindexGroups_sameBlobs (zms : List ZMI) : ∀ (ws : List Ref) (s s' : St),
    reindexGroups zms ws s = some s' → SameBlobs s s'
  | [], s, s', h => by simp only [reindexGroups] at h; injection h with h; subst h; exact ⟨rfl, rfl, rfl⟩
  | w :: ws, s, s', h => by
    simp only [reindexGroups] at h
    split at h
    · cases h
    · rename_i s1 hg
      have e1 := reindexGroup_sameBlobs _ _ _ _ hg
      have e2 := reindexGroups_sameBlobs zms ws s1 s' h
      exact ⟨e2.1.trans e1.1, e2.2.1.trans e1.2.1, e2.2.2.trans e1.2.2⟩

/-- the first phase: every zip's rows are valid rows, and the visible set grows by the zips' blobs -/
theorem reindexZips_sound {C : Ref → Bytes} : ∀ (l : List (Ref × Zip)) (s : St), Inv C s →
    (∀ p ∈ l, get s.large p.1 = some p.2) →
    Inv C (reindexZips l s).1 ∧ (reindexZips l s).1.large = s.large ∧
    ((reindexZips l s).2 = true → ∀ x, present (reindexZips l s).1 x = (present s x || inSomeZip l x))
  | [], s, h, _ => ⟨h, rfl, fun _ x => by simp [reindexZips, inSomeZip]⟩
  | (zr, z) :: rest, s, h, hl => by
    simp only [reindexZips]
    split
    · exact ⟨h, rfl, fun hf => by cases hf⟩
    · have hz : get s.large zr = some z := hl (zr, z) List.mem_cons_self
      let s1 : St := { s with b := setRows (reindexRows zr z) s.b }
      have h1 : Inv C s1 := by
        have := inv_commitZip h zr z 0 hz
        exact ⟨h.ksmall, this.kb, h.klarge, h.small_ok, this.b_ok, h.zips_ok⟩
      obtain ⟨h2, e2, p2⟩ := reindexZips_sound rest s1 h1 (fun p hp => hl p (List.mem_cons_of_mem _ hp))
      refine ⟨h2, e2, fun hf x => ?_⟩
      rw [p2 hf x]
      have : present s1 x = (present s x || (zipBlobRows zr z).any (fun p => p.1 == x)) := by
        have := present_commitZip s zr z 0 x
        simpa [present, commitZip, s1, reindexRows] using this
      rw [this]
      simp [inSomeZip, Bool.or_assoc]

theorem reindex_sound {C : Ref → Bytes} (full : Bool) (s s' : St) (h : Inv C s)
    (hr : reindex full s = (s', .ok)) :
    Inv C s' ∧ ∀ x, present s' x =
      ((if full then (get s.small x).isSome else present s x) || inSomeZip s.large x) := by
  unfold reindex at hr
  simp only at hr
  let s0 : St := if full then { s with b := [], w := [], z := [], d := [] } else s
  have h0 : Inv C s0 := by
    by_cases hf : full = true
    · simp only [s0, hf, if_true]
      exact ⟨h.ksmall, kasc_nil, h.klarge, h.small_ok, by intro r row hg; simp [SMap.get] at hg, h.zips_ok⟩
    · simp only [s0, hf]; exact h
  have hl0 : s0.large = s.large := by by_cases hf : full = true <;> simp [s0, hf]
  have hp0 : ∀ x, present s0 x = (if full then (get s.small x).isSome else present s x) := by
    intro x; by_cases hf : full = true <;> simp [s0, hf, present, SMap.get]
  obtain ⟨h1, e1, p1⟩ := reindexZips_sound (C := C) s0.large s0 h0 (fun p hp => mem_get h0.klarge hp)
  change (match reindexZips s0.large s0 with
    | (s1, false) => (s1, ROut.err)
    | (s1, true) =>
      match reindexGroups (s0.large.map (fun p => zmiOf p.1 p.2)) (wholeRefs (s0.large.map (fun p => zmiOf p.1 p.2)) []) s1 with
      | none => (s1, ROut.panic)
      | some s2 => (s2, ROut.ok)) = (s', ROut.ok) at hr
  cases hz : reindexZips s0.large s0 with
  | mk s1 ok =>
    rw [hz] at hr h1 e1 p1
    cases ok with
    | false => simp at hr
    | true =>
      simp only at hr
      split at hr
      · simp at hr
      · rename_i s2 hg
        simp only [Prod.mk.injEq, and_true] at hr
        subst hr
        have sb := reindexGroups_sameBlobs _ _ _ _ hg
        refine ⟨sb.inv h1, fun x => ?_⟩
        rw [sb.pres, p1 rfl x, hp0, hl0]

end Pk.BP
