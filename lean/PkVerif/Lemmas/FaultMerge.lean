import PkVerif.Lemmas.RefMerge
import PkVerif.Lemmas.FaultNs
/-! C13: shard, replica and cond over sub-stores whose calls may fail transiently.

The abstract contents of every two-way combinator here are the left-biased union of the two
sub-stores' abstract contents.  A sub-store step moves its contents to the before- or the after-state
of the operation (`StepOK`); the algebra below shows the union then also is at the before- or the
after-state of the same operation, whichever mix of the two sides happened.  What remains per
operation is the ANSWER: it must be exact or `.err`.  Two answers of the real `replica2Impl` are
neither (see `replica2_rm_best_effort_counterexample`, `replica2_fetch_fallback_counterexample`). -/
namespace Pk.Stores
open Pk Pk.SMap Pk.RefMap

/-! ### union algebra for good maps -/

theorem ins_eq_self {V : Type} {m : SMap V} (hm : KAsc m) {k : Bytes} {v : V}
    (h : SMap.get m k = some v) : ins k v m = m := by
  apply SMap.ext (kasc_ins _ _ hm) hm
  intro x
  rw [get_ins]
  by_cases hx : x = k
  · subst hx; simp [h]
  · simp [hx]

theorem ins_ins {V : Type} {m : SMap V} (hm : KAsc m) (k : Bytes) (v : V) :
    ins k v (ins k v m) = ins k v m :=
  ins_eq_self (kasc_ins _ _ hm) (by rw [get_ins]; simp)

/-- on a good map a well-keyed receive is an insert: an existing row already holds these bytes -/
theorem next_recv_good {content : Bytes → Bytes} {m : SMap Bytes} (hm : Good content m) (k v : Bytes)
    (hv : v = content k) : next m (.recv k v) = ins k v m := by
  simp only [next]
  cases hg : SMap.get m k with
  | none => simp [has, hg]
  | some w =>
    have : w = v := by rw [hv]; exact (hm.2 k w hg).1
    subst this
    simp only [has, hg, Option.isSome_some, if_true]
    exact (ins_eq_self hm.1 hg).symm

theorem union_ins_right_good {content : Bytes → Bytes} {A B : SMap Bytes} (hA : Good content A)
    (hB : KAsc B) (k v : Bytes) (hv : v = content k) :
    union A (ins k v B) = ins k v (union A B) := by
  apply SMap.ext (kasc_union _ (kasc_ins _ _ hB)) (kasc_ins _ _ (kasc_union _ hB))
  intro x
  rw [get_union, get_ins, get_ins, get_union]
  by_cases hx : x = k
  · subst hx
    cases hg : SMap.get A x with
    | none => simp
    | some w => simp [(hA.2 x w hg).1, hv]
  · simp [hx]

theorem recv_union_left {content : Bytes → Bytes} {A B : SMap Bytes} (hA : Good content A)
    (hB : Good content B) (k v : Bytes) (hv : v = content k) :
    union (next A (.recv k v)) B = next (union A B) (.recv k v) := by
  rw [next_recv_good hA k v hv, next_recv_good (good_union hA hB) k v hv, union_ins_left k v A hB.1]

theorem recv_union_right {content : Bytes → Bytes} {A B : SMap Bytes} (hA : Good content A)
    (hB : Good content B) (k v : Bytes) (hv : v = content k) :
    union A (next B (.recv k v)) = next (union A B) (.recv k v) := by
  rw [next_recv_good hB k v hv, next_recv_good (good_union hA hB) k v hv,
    union_ins_right_good hA hB.1 k v hv]

theorem recv_union_both {content : Bytes → Bytes} {A B : SMap Bytes} (hA : Good content A)
    (hB : Good content B) (k v : Bytes) (hv : v = content k) :
    union (next A (.recv k v)) (next B (.recv k v)) = next (union A B) (.recv k v) := by
  rw [next_recv_good hA k v hv, next_recv_good hB k v hv, next_recv_good (good_union hA hB) k v hv,
    union_ins_left k v A (kasc_ins _ _ hB.1), union_ins_right_good hA hB.1 k v hv,
    ins_ins (kasc_union _ hB.1)]

/-- removing from the left only, the right still holding the blob: nothing changes -/
theorem union_del_left_has {content : Bytes → Bytes} {A B : SMap Bytes} (hA : Good content A)
    (hB : Good content B) (k : Bytes) (hk : has B k = true) : union (del k A) B = union A B := by
  apply SMap.ext (kasc_union _ hB.1) (kasc_union _ hB.1)
  intro x
  rw [get_union, get_union, get_del k hA.1]
  by_cases hx : x = k
  · subst hx
    cases hgb : SMap.get B x with
    | none => simp [has, hgb] at hk
    | some w =>
      cases hga : SMap.get A x with
      | none => simp
      | some u => simp [(hA.2 x u hga).1, (hB.2 x w hgb).1]
  · simp [hx]

/-- removing from the right only, the left still holding the blob: nothing changes -/
theorem union_del_right_has {V : Type} {A B : SMap V} (hB : KAsc B) (k : Bytes)
    (hk : has A k = true) : union A (del k B) = union A B := by
  apply SMap.ext (kasc_union _ (kasc_del _ hB)) (kasc_union _ hB)
  intro x
  rw [get_union, get_union, get_del k hB]
  by_cases hx : x = k
  · subst hx
    cases hga : SMap.get A x with
    | none => simp [has, hga] at hk
    | some u => rfl
  · simp [hx]

/-- the operation applied on the left only: the union is at its before- or after-state -/
theorem union_step_left {content : Bytes → Bytes} {A B : SMap Bytes} (hA : Good content A)
    (hB : Good content B) (op : Op) (hop : op.WK content) :
    union (next A op) B = union A B ∨ union (next A op) B = next (union A B) op := by
  cases op with
  | recv k v => exact Or.inr (recv_union_left hA hB k v hop.1)
  | rm k =>
    by_cases hk : has B k = true
    · exact Or.inl (union_del_left_has hA hB k hk)
    · exact Or.inr (next_union_left hA.1 hB.1 (.rm k) (by simpa [opKey] using hk))
  | fetch _ => exact Or.inl rfl
  | stat _ => exact Or.inl rfl
  | enum _ _ => exact Or.inl rfl

theorem union_step_right {content : Bytes → Bytes} {A B : SMap Bytes} (hA : Good content A)
    (hB : Good content B) (op : Op) (hop : op.WK content) :
    union A (next B op) = union A B ∨ union A (next B op) = next (union A B) op := by
  cases op with
  | recv k v => exact Or.inr (recv_union_right hA hB k v hop.1)
  | rm k =>
    by_cases hk : has A k = true
    · exact Or.inl (union_del_right_has hB.1 k hk)
    · exact Or.inr (next_union_right hA.1 hB.1 (.rm k) (by simpa [opKey] using hk))
  | fetch _ => exact Or.inl rfl
  | stat _ => exact Or.inl rfl
  | enum _ _ => exact Or.inl rfl

theorem union_step_both {content : Bytes → Bytes} {A B : SMap Bytes} (hA : Good content A)
    (hB : Good content B) (op : Op) (hop : op.WK content) :
    union (next A op) (next B op) = next (union A B) op := by
  cases op with
  | recv k v => exact recv_union_both hA hB k v hop.1
  | rm k => exact union_del_both k hA.1 hB.1
  | fetch _ => rfl
  | stat _ => rfl
  | enum _ _ => rfl

/-- each side at its before- or after-state (any mix): so is the union -/
theorem union_step_cases {content : Bytes → Bytes} {A B A' B' : SMap Bytes} (hA : Good content A)
    (hB : Good content B) (op : Op) (hop : op.WK content)
    (ha : A' = A ∨ A' = next A op) (hb : B' = B ∨ B' = next B op) :
    union A' B' = union A B ∨ union A' B' = next (union A B) op := by
  rcases ha with rfl | rfl <;> rcases hb with rfl | rfl
  · exact Or.inl rfl
  · exact union_step_right hA hB op hop
  · exact union_step_left hA hB op hop
  · exact Or.inr (union_step_both hA hB op hop)

/-! ### exact steps, and what a faulted-or-exact step leaves behind -/

def Exact (A A' : SMap Bytes) (o : Out) (op : Op) : Prop := o = out A op ∧ A' = next A op

theorem stepOK_move {A A' : SMap Bytes} {o : Out} {op : Op} (h : StepOK A A' o op) :
    A' = A ∨ A' = next A op := by
  rcases h with ⟨_, h⟩ | ⟨_, h⟩
  · exact Or.inr h
  · exact h

theorem out_ne_err (A : SMap Bytes) (op : Op) : out A op ≠ .err := by
  cases op with
  | recv _ _ => simp [out]
  | fetch k => simp only [out]; cases SMap.get A k <;> simp
  | stat k => simp only [out]; cases SMap.get A k <;> simp
  | enum _ _ => simp [out]
  | rm _ => simp [out]

/-- a read leaves the contents alone, failed or not -/
theorem stepOK_read_abs {A A' : SMap Bytes} {o : Out} {op : Op} (h : StepOK A A' o op)
    (hr : match op with | .fetch _ | .stat _ | .enum _ _ => True | _ => False) : A' = A := by
  cases op with
  | recv _ _ => cases hr
  | rm _ => cases hr
  | fetch _ => rcases stepOK_move h with h | h <;> exact h
  | stat _ => rcases stepOK_move h with h | h <;> exact h
  | enum _ _ => rcases stepOK_move h with h | h <;> exact h

/-- the combined answer `O` of two sub-answers is fine as soon as: it is exact when both are, and it
is `.err` when either is -/
theorem stepOK_union {content : Bytes → Bytes} {A B A' B' : SMap Bytes} {oa ob O : Out} {op : Op}
    (hA : Good content A) (hB : Good content B) (hop : op.WK content)
    (ha : StepOK A A' oa op) (hb : StepOK B B' ob op)
    (hex : Exact A A' oa op → Exact B B' ob op → Exact (union A B) (union A' B') O op)
    (hel : oa = .err → O = .err) (her : ob = .err → O = .err) :
    StepOK (union A B) (union A' B') O op := by
  have hm := union_step_cases hA hB op hop (stepOK_move ha) (stepOK_move hb)
  rcases ha with hea | ⟨hoa, _⟩
  · rcases hb with heb | ⟨hob, _⟩
    · exact Or.inl (hex hea heb)
    · exact Or.inr ⟨her hob, hm⟩
  · exact Or.inr ⟨hel hoa, hm⟩

/-! ### the contract of one step of a two-way combinator whose contents are the union -/

/-- both sub-invariants survive, each side is at its before- or after-state, the step is
faulted-or-exact on the union, and exact (staying quiet) when both sides are quiet -/
def PairSpec {content : Bytes → Bytes} {a b : Impl} (Fa : FRefines content a) (Fb : FRefines content b)
    (s s' : a.σ × b.σ) (o : Out) (op : Op) : Prop :=
  Fa.Inv s'.1 ∧ Fb.Inv s'.2 ∧
  (Fa.abs s'.1 = Fa.abs s.1 ∨ Fa.abs s'.1 = next (Fa.abs s.1) op) ∧
  (Fb.abs s'.2 = Fb.abs s.2 ∨ Fb.abs s'.2 = next (Fb.abs s.2) op) ∧
  StepSpec (union (Fa.abs s.1) (Fb.abs s.2)) (union (Fa.abs s'.1) (Fb.abs s'.2)) o op
    (Fa.Quiet s.1 ∧ Fb.Quiet s.2) (Fa.Quiet s'.1 ∧ Fb.Quiet s'.2)

/-- glue: two sub-steps (already taken, with their contracts) and a combined answer `O` -/
theorem pair_glue {content : Bytes → Bytes} {a b : Impl} (Fa : FRefines content a)
    (Fb : FRefines content b) {sa sa1 : a.σ} {sb sb1 : b.σ} {oa ob O : Out} {op : Op}
    (ha : Fa.Inv sa) (hb : Fb.Inv sb) (hop : op.WK content)
    (hia : Fa.Inv sa1)
    (hsa : StepSpec (Fa.abs sa) (Fa.abs sa1) oa op (Fa.Quiet sa) (Fa.Quiet sa1))
    (hib : Fb.Inv sb1)
    (hsb : StepSpec (Fb.abs sb) (Fb.abs sb1) ob op (Fb.Quiet sb) (Fb.Quiet sb1))
    (hex : Exact (Fa.abs sa) (Fa.abs sa1) oa op → Exact (Fb.abs sb) (Fb.abs sb1) ob op →
      Exact (union (Fa.abs sa) (Fb.abs sb)) (union (Fa.abs sa1) (Fb.abs sb1)) O op)
    (hel : oa = .err → O = .err) (her : ob = .err → O = .err) :
    PairSpec Fa Fb (sa, sb) (sa1, sb1) O op := by
  refine ⟨hia, hib, stepOK_move hsa.1, stepOK_move hsb.1,
    stepOK_union (Fa.good sa ha) (Fb.good sb hb) hop hsa.1 hsb.1 hex hel her, ?_⟩
  rintro ⟨hQa, hQb⟩
  obtain ⟨h1, h2, h3⟩ := hsa.2 hQa
  obtain ⟨h4, h5, h6⟩ := hsb.2 hQb
  have := hex ⟨h1, h2⟩ ⟨h4, h5⟩
  exact ⟨this.1, this.2, h3, h6⟩

/-- glue for an operation sent to both sides, answered by `O` of the two answers -/
theorem pair_both {content : Bytes → Bytes} {a b : Impl} (Fa : FRefines content a)
    (Fb : FRefines content b) (sa : a.σ) (sb : b.σ) (op : Op)
    (ha : Fa.Inv sa) (hb : Fb.Inv sb) (hop : op.WK content) (O : Out → Out → Out)
    (hex : ∀ A' B' oa ob, Exact (Fa.abs sa) A' oa op → Exact (Fb.abs sb) B' ob op →
      Exact (union (Fa.abs sa) (Fb.abs sb)) (union A' B') (O oa ob) op)
    (hel : ∀ ob, O .err ob = .err) (her : ∀ oa, O oa .err = .err) :
    PairSpec Fa Fb (sa, sb) ((a.step sa op).1, (b.step sb op).1)
      (O (a.step sa op).2 (b.step sb op).2) op := by
  obtain ⟨hia, hsa⟩ := Fa.sub sa op ha hop
  obtain ⟨hib, hsb⟩ := Fb.sub sb op hb hop
  exact pair_glue Fa Fb ha hb hop hia hsa hib hsb (hex _ _ _ _)
    (fun h => by rw [h]; exact hel _) (fun h => by rw [h]; exact her _)

/-! ### how `replica2Impl` combines the two answers -/

def recvAns (oa ob : Out) : Out :=
  match oa, ob with
  | .sized n, .sized n' => if n = n' then .sized n else .err
  | _, _ => .err

def statAns (oa ob : Out) : Out :=
  match oa, ob with
  | .sized n, .sized _ => .sized n
  | .sized n, .notExist => .sized n
  | .notExist, .sized n => .sized n
  | .notExist, .notExist => .notExist
  | _, _ => .err

def enumAns (limit : Nat) (oa ob : Out) : Out :=
  match oa, ob with
  | .refs x, .refs y => .refs (MergedEnum.mergedEnumerate limit [x, y])
  | _, _ => .err

/-- the real remove: `.ok` as soon as either side said `.ok` -/
def rmAns (oa ob : Out) : Out :=
  match oa, ob with
  | .ok, _ => .ok
  | _, .ok => .ok
  | _, _ => .err

/-- the strict remove: `.ok` only if both sides said `.ok` -/
def rmStrictAns (oa ob : Out) : Out :=
  match oa, ob with
  | .ok, .ok => .ok
  | _, _ => .err

theorem rep_recv_eq (a b : Impl) (sa : a.σ) (sb : b.σ) (k v : Bytes) :
    (replica2Impl a b).step (sa, sb) (.recv k v) =
      (((a.step sa (.recv k v)).1, (b.step sb (.recv k v)).1),
        recvAns (a.step sa (.recv k v)).2 (b.step sb (.recv k v)).2) := by
  simp only [replica2Impl]
  generalize a.step sa (.recv k v) = pa
  generalize b.step sb (.recv k v) = pb
  obtain ⟨sa1, oa⟩ := pa
  obtain ⟨sb1, ob⟩ := pb
  cases oa <;> cases ob <;> rfl

theorem rep_stat_eq (a b : Impl) (sa : a.σ) (sb : b.σ) (k : Bytes) :
    (replica2Impl a b).step (sa, sb) (.stat k) =
      (((a.step sa (.stat k)).1, (b.step sb (.stat k)).1),
        statAns (a.step sa (.stat k)).2 (b.step sb (.stat k)).2) := by
  simp only [replica2Impl]
  generalize a.step sa (.stat k) = pa
  generalize b.step sb (.stat k) = pb
  obtain ⟨sa1, oa⟩ := pa
  obtain ⟨sb1, ob⟩ := pb
  cases oa <;> cases ob <;> rfl

theorem enum2_eq (a b : Impl) (sa : a.σ) (sb : b.σ) (after : Bytes) (limit : Nat) :
    enum2 a b sa sb after limit =
      ((a.step sa (.enum after limit)).1, (b.step sb (.enum after limit)).1,
        enumAns limit (a.step sa (.enum after limit)).2 (b.step sb (.enum after limit)).2) := by
  unfold enum2
  generalize a.step sa (.enum after limit) = pa
  generalize b.step sb (.enum after limit) = pb
  obtain ⟨sa1, oa⟩ := pa
  obtain ⟨sb1, ob⟩ := pb
  cases oa <;> cases ob <;> rfl

theorem rep_enum_eq (a b : Impl) (sa : a.σ) (sb : b.σ) (after : Bytes) (limit : Nat) :
    (replica2Impl a b).step (sa, sb) (.enum after limit) =
      (((a.step sa (.enum after limit)).1, (b.step sb (.enum after limit)).1),
        enumAns limit (a.step sa (.enum after limit)).2 (b.step sb (.enum after limit)).2) := by
  simp only [replica2Impl, enum2_eq]

theorem rep_rm_eq (a b : Impl) (sa : a.σ) (sb : b.σ) (k : Bytes) :
    (replica2Impl a b).step (sa, sb) (.rm k) =
      (((a.step sa (.rm k)).1, (b.step sb (.rm k)).1),
        rmAns (a.step sa (.rm k)).2 (b.step sb (.rm k)).2) := by
  simp only [replica2Impl]
  generalize a.step sa (.rm k) = pa
  generalize b.step sb (.rm k) = pb
  obtain ⟨sa1, oa⟩ := pa
  obtain ⟨sb1, ob⟩ := pb
  cases oa <;> cases ob <;> rfl

theorem recvAns_exact {content : Bytes → Bytes} {A B A' B' : SMap Bytes} {oa ob : Out} {k v : Bytes}
    (hA : Good content A) (hB : Good content B) (hop : (Op.recv k v).WK content)
    (ha : Exact A A' oa (.recv k v)) (hb : Exact B B' ob (.recv k v)) :
    Exact (union A B) (union A' B') (recvAns oa ob) (.recv k v) := by
  obtain ⟨rfl, rfl⟩ := ha
  obtain ⟨rfl, rfl⟩ := hb
  exact ⟨by simp [recvAns, out], union_step_both hA hB _ hop⟩

theorem statAns_exact {A B A' B' : SMap Bytes} {oa ob : Out} {k : Bytes}
    (ha : Exact A A' oa (.stat k)) (hb : Exact B B' ob (.stat k)) :
    Exact (union A B) (union A' B') (statAns oa ob) (.stat k) := by
  obtain ⟨rfl, ha'⟩ := ha
  obtain ⟨rfl, hb'⟩ := hb
  refine ⟨?_, by rw [ha', hb']; rfl⟩
  simp only [out, get_union]
  cases SMap.get A k <;> cases SMap.get B k <;> rfl

theorem enumAns_exact {content : Bytes → Bytes} {A B A' B' : SMap Bytes} {oa ob : Out}
    {after : Bytes} {limit : Nat} (hA : Good content A) (hB : Good content B)
    (ha : Exact A A' oa (.enum after limit)) (hb : Exact B B' ob (.enum after limit)) :
    Exact (union A B) (union A' B') (enumAns limit oa ob) (.enum after limit) := by
  obtain ⟨rfl, ha'⟩ := ha
  obtain ⟨rfl, hb'⟩ := hb
  refine ⟨?_, by rw [ha', hb']; rfl⟩
  simp only [out, enumAns]
  rw [enum2_spec hA hB]

theorem rmStrictAns_exact {content : Bytes → Bytes} {A B A' B' : SMap Bytes} {oa ob : Out} {k : Bytes}
    (hA : Good content A) (hB : Good content B)
    (ha : Exact A A' oa (.rm k)) (hb : Exact B B' ob (.rm k)) :
    Exact (union A B) (union A' B') (rmStrictAns oa ob) (.rm k) := by
  obtain ⟨rfl, rfl⟩ := ha
  obtain ⟨rfl, rfl⟩ := hb
  exact ⟨rfl, union_del_both k hA.1 hB.1⟩

theorem recvAns_err_left (ob : Out) : recvAns .err ob = .err := by cases ob <;> rfl
theorem recvAns_err_right (oa : Out) : recvAns oa .err = .err := by cases oa <;> rfl
theorem statAns_err_left (ob : Out) : statAns .err ob = .err := by cases ob <;> rfl
theorem statAns_err_right (oa : Out) : statAns oa .err = .err := by cases oa <;> rfl
theorem enumAns_err_left (l : Nat) (ob : Out) : enumAns l .err ob = .err := by cases ob <;> rfl
theorem enumAns_err_right (l : Nat) (oa : Out) : enumAns l oa .err = .err := by cases oa <;> rfl
theorem rmStrictAns_err_left (ob : Out) : rmStrictAns .err ob = .err := by cases ob <;> rfl
theorem rmStrictAns_err_right (oa : Out) : rmStrictAns oa .err = .err := by cases oa <;> rfl

/-! ### 3. replica: receive, stat and enumerate of the real model -/

/-- `recv`, `stat` and `enum` of the real `replica2Impl` over any two fault-tolerant stores (no
relation between the two needed) -/
theorem replica2_both_spec {content : Bytes → Bytes} {a b : Impl} (Fa : FRefines content a)
    (Fb : FRefines content b) (sa : a.σ) (sb : b.σ) (op : Op)
    (hop3 : match op with | .recv _ _ | .stat _ | .enum _ _ => True | _ => False)
    (ha : Fa.Inv sa) (hb : Fb.Inv sb) (hop : op.WK content) :
    PairSpec Fa Fb (sa, sb) ((replica2Impl a b).step (sa, sb) op).1
      ((replica2Impl a b).step (sa, sb) op).2 op := by
  have hA := Fa.good sa ha
  have hB := Fb.good sb hb
  cases op with
  | fetch _ => cases hop3
  | rm _ => cases hop3
  | recv k v =>
    rw [rep_recv_eq]
    exact pair_both Fa Fb sa sb _ ha hb hop recvAns
      (fun _ _ _ _ h1 h2 => recvAns_exact hA hB hop h1 h2) recvAns_err_left recvAns_err_right
  | stat k =>
    rw [rep_stat_eq]
    exact pair_both Fa Fb sa sb _ ha hb hop statAns
      (fun _ _ _ _ h1 h2 => statAns_exact h1 h2) statAns_err_left statAns_err_right
  | enum after limit =>
    rw [rep_enum_eq]
    exact pair_both Fa Fb sa sb _ ha hb hop (enumAns limit)
      (fun _ _ _ _ h1 h2 => enumAns_exact hA hB h1 h2) (enumAns_err_left limit) (enumAns_err_right limit)

end Pk.Stores
